/-
  C06 — ThreadLink is a lossless FIFO between two threads under every interleaving.

  Models: `Ring/Seq.lean` (sequential mirror of thread-link.cpp), `Ring/Conc.lean` (writer
  and reader as pc-machines, one step per shared access), `Ring/Spec.lean` (bounded FIFO
  with lookahead cursor).  The theorems are first stated for an abstract framing function:
  `Framing frame IsMsg` says that `frame` recognises every message `m` with its own length
  whatever follows it.  They are then *instantiated* (section "the real framing function")
  with `frameOsc` = C01's model of `rtosc_message_ring_length` (`Osc.ringLength`, the function
  the driver runs against the compiled code) and `IsOscMsg` = the encodings of well-formed OSC
  messages whose address does not start with '#': `oscFraming` (Proofs/RingOsc.lean) derives
  `Framing frameOsc IsOscMsg` from C01's `ringLength_encode`.  All theorems quantify over
  *every* operation history, every interleaving and every memcpy chunk size; none has a bound.

  The lookahead clause under concurrency (section "lookahead reads under concurrency") uses the
  cursors of the bounded FIFO computed from the reader's own log (`Proofs/RingLook.lean`:
  `curOf`, `Conc.lookahead`, `Conc.cursor`); `conc_cursor_is_queue` shows that they are the
  cursors `Q.step` maintains.
-/
import RtoscModel.Ring.Frame
import RtoscModel.Proofs.RingSeq
import RtoscModel.Proofs.RingConc
import RtoscModel.Proofs.RingOsc
import RtoscModel.Proofs.RingAccept
import RtoscModel.Proofs.RingLook
namespace Rtosc.Ring
open Rtosc

variable {frame : Bytes → Nat} {IsMsg : Bytes → Prop}

/-- the histories the property quantifies over: everything written is a message -/
def OpsOk (IsMsg : Bytes → Prop) (ops : List Op) : Prop := ∀ op, op ∈ ops → op.Ok IsMsg

def WOpsOk (IsMsg : Bytes → Prop) (wops : List WOp) : Prop := ∀ op, op ∈ wops → IsMsg op.msg

/-! ## sequential clauses -/

/-- **C06 / FIFO, sequentially.** For any operation history the model of thread-link.cpp
    returns exactly what the bounded FIFO with lookahead cursor returns (messages byte for
    byte, `hasNext`/`hasNextLookahead` values), and no copy ever leaves its buffer. -/
theorem seq_refines_queue (fr : Framing frame IsMsg) (maxMsg nmsgs : Nat) (hN : 0 < maxMsg * nmsgs)
    (ops : List Op) (hops : OpsOk IsMsg ops) :
    (Seq.run frame (Seq.init maxMsg nmsgs) ops).2 = (Q.run (Q.init maxMsg nmsgs) ops).2 ∧
    (Seq.run frame (Seq.init maxMsg nmsgs) ops).1.fault = false := by
  obtain ⟨P, C, L, inv, h⟩ := run_refines fr ops _ [] 0 0 (init_sinv maxMsg nmsgs hN) hops
  rw [absQ_init] at h
  exact ⟨by rw [h], inv.hfault⟩

/-- **C06 / "dropped whole".** After any history, a write (or raw_write) of a message that
    does not fit into the free space or exceeds `MaxMsg` — i.e. that the FIFO `q` reached
    by the same history does not accept — leaves the ThreadLink state *unchanged*. -/
theorem drop_whole (fr : Framing frame IsMsg) (maxMsg nmsgs : Nat) (hN : 0 < maxMsg * nmsgs)
    (ops : List Op) (hops : OpsOk IsMsg ops) (m : Bytes) (hm : IsMsg m)
    (hfit : (Q.run (Q.init maxMsg nmsgs) ops).1.fits m = false) :
    (Seq.run frame (Seq.init maxMsg nmsgs) ops).1.write m = (Seq.run frame (Seq.init maxMsg nmsgs) ops).1 ∧
    (Seq.run frame (Seq.init maxMsg nmsgs) ops).1.rawWrite frame m =
      (Seq.run frame (Seq.init maxMsg nmsgs) ops).1 := by
  obtain ⟨P, C, L, inv, h⟩ := run_refines fr ops _ [] 0 0 (init_sinv maxMsg nmsgs hN) hops
  rw [absQ_init] at h
  rw [h] at hfit
  generalize (Seq.run frame (Seq.init maxMsg nmsgs) ops).1 = s at *
  have hno : ¬(m.length ≤ s.maxMsg ∧ writeSize s.w s.r s.size ≥ m.length) := by
    intro hc
    have := (inv.fits_iff m).mpr hc
    simp only at hfit
    rw [this] at hfit; cases hfit
  have hwlt : s.w < s.size := by rw [inv.hw]; exact Nat.mod_lt _ inv.hN
  have e : frame m = m.length := by
    have := fr.msg m [] hm
    rwa [List.append_nil] at this
  constructor
  · unfold Seq.write
    by_cases hmx : m.length ≤ s.maxMsg
    · simp only [hmx, if_true]
      rw [if_neg (fun hc => hno ⟨hmx, hc⟩)]
    · simp only [hmx, if_false, List.length_nil, ge_iff_le, Nat.zero_le, if_true]
      exact ringWrite_nil hwlt inv.hbuf
  · unfold Seq.rawWrite
    simp only [e]
    rw [if_neg hno]

/-- **C06 / lookahead.** After any history that ends with a `read` (which resynchronises
    the lookahead position), `k` lookahead reads return the same sequence as `k` reads would,
    and they consume nothing: `k` reads issued *afterwards* still return that sequence. -/
theorem lookahead_replays (fr : Framing frame IsMsg) (maxMsg nmsgs : Nat) (hN : 0 < maxMsg * nmsgs)
    (ops : List Op) (hops : OpsOk IsMsg ops) (k : Nat) :
    let s := (Seq.run frame (Seq.init maxMsg nmsgs) (ops ++ [.read])).1
    (Seq.run frame s (List.replicate k .readLookahead)).2 = (Seq.run frame s (List.replicate k .read)).2 ∧
    (Seq.run frame (Seq.run frame s (List.replicate k .readLookahead)).1 (List.replicate k .read)).2 =
      (Seq.run frame s (List.replicate k .read)).2 := by
  intro s
  have hops' : OpsOk IsMsg (ops ++ [.read]) := by
    intro op hop
    rcases List.mem_append.mp hop with h | h
    · exact hops op h
    · rw [List.mem_singleton.mp h]; trivial
  obtain ⟨P, C, L, inv, h⟩ := run_refines fr (ops ++ [Op.read]) _ [] 0 0 (init_sinv maxMsg nmsgs hN) hops'
  -- after a read the cursor of the queue is 0
  have hla0 : (Q.run (absQ (Seq.init maxMsg nmsgs) [] 0 0) (ops ++ [.read])).1.la = 0 := by
    have hrun : ∀ (l : List Op) (q : Q), (Q.run q (l ++ [.read])).1.la = 0 := by
      intro l
      induction l with
      | nil => intro q; simp only [List.nil_append, Q.run, Q.step]; cases q.items <;> rfl
      | cons o l ih => intro q; simp only [List.cons_append, Q.run]; exact ih _
    exact hrun ops _
  rw [h] at hla0
  have hrl : ∀ o, o ∈ List.replicate k Op.readLookahead → o.Ok IsMsg := by
    intro o ho; rw [(List.mem_replicate.mp ho).2]; trivial
  have hrr : ∀ o, o ∈ List.replicate k Op.read → o.Ok IsMsg := by
    intro o ho; rw [(List.mem_replicate.mp ho).2]; trivial
  obtain ⟨P1, C1, L1, inv1, h1⟩ := run_refines fr (List.replicate k .readLookahead) s P C L inv hrl
  obtain ⟨P2, C2, L2, inv2, h2⟩ := run_refines fr (List.replicate k .read) s P C L inv hrr
  obtain ⟨P3, C3, L3, inv3, h3⟩ := run_refines fr (List.replicate k .read) _ P1 C1 L1 inv1 hrr
  have e1 := congrArg Prod.snd h1
  have e2 := congrArg Prod.snd h2
  have e3 := congrArg Prod.snd h3
  have s1 := congrArg Prod.fst h1
  simp only at e1 e2 e3 s1
  generalize absQ s P C L = q at *
  have hq : ({ q with items := q.items.drop q.la, la := 0 } : Q) = q := by
    cases q; simp only at hla0; subst hla0; simp
  have hA := Q.la_outs k q
  rw [hq] at hA
  refine ⟨by rw [← e1, ← e2, hA], ?_⟩
  rw [← e3, ← e2, ← s1]
  obtain ⟨i1, i2, i3⟩ := Q.la_run_items k q
  have : (Q.run q (List.replicate k .readLookahead)).1 =
      { q with la := (Q.run q (List.replicate k .readLookahead)).1.la } := by
    generalize (Q.run q (List.replicate k .readLookahead)).1 = q' at *
    cases q'; cases q; simp only at i1 i2 i3; subst i1 i2 i3; rfl
  rw [this, Q.read_outs_la]

/-- **C06 / resynchronisation.** A normal read leaves the lookahead position equal to the
    read position, in every state (the semantic consequence is `lookahead_replays`). -/
theorem read_resyncs_lookahead (frame : Bytes → Nat) (s : Seq) :
    (s.read frame false).1.la = (s.read frame false).1.r := by
  unfold Seq.read Seq.ringRead
  rcases readVector s.buf s.size s.w (if false = true then s.la else s.r) with ⟨d0, d1, ok⟩
  simp only
  rcases copyOut s.buf s.rbuf s.size (if false = true then s.la else s.r) (frame (d0 ++ d1)) with ⟨rb, ok2⟩
  rfl

/-! ## concurrent clauses: every interleaving of every pair of histories -/

/-- **C06 / invariant.** Every state reachable by any interleaving of the writer's and the
    reader's shared accesses satisfies `Inv`: the ring bytes between the read and the write
    position are the published messages laid end to end, the writer's pending bytes lie in
    the free region, the reader's copied prefix is a prefix of the head message, no copy
    has left its buffer. -/
theorem conc_inv (fr : Framing frame IsMsg) (maxMsg nmsgs chunk : Nat) (hN : 0 < maxMsg * nmsgs)
    (wops : List WOp) (rops : List ROp) (hops : WOpsOk IsMsg wops) (s : Conc)
    (h : Conc.Reach frame (Conc.init frame maxMsg nmsgs chunk wops rops) s) : Inv frame IsMsg s :=
  reach_inv fr (init_inv maxMsg nmsgs chunk wops rops hN hops) h

/-- **C06 / data-race freedom.** In no reachable state are a plain write of the writer and
    a plain read of the reader to the same ring byte both enabled.  (The ring bytes are the
    only non-atomic shared locations; hence by C++11 DRF-SC the interleaving semantics is
    exhaustive for the real program.) -/
theorem conc_drf (fr : Framing frame IsMsg) (maxMsg nmsgs chunk : Nat) (hN : 0 < maxMsg * nmsgs)
    (wops : List WOp) (rops : List ROp) (hops : WOpsOk IsMsg wops) (s : Conc)
    (h : Conc.Reach frame (Conc.init frame maxMsg nmsgs chunk wops rops) s) :
    ∀ o, o ∈ s.writerWrites → o ∉ s.readerReads :=
  fun o hw hr => inv_drf (conc_inv fr maxMsg nmsgs chunk hN wops rops hops s h) o hw hr

/-- **C06 / FIFO.** In every reachable state the messages returned by the reader's
    (consuming) reads are exactly the first published messages, byte for byte and in order
    — nothing duplicated, skipped or torn; the published messages are a sub-sequence, in
    order, of the messages given to the writer (those it accepted); no copy left its buffer. -/
theorem conc_fifo (fr : Framing frame IsMsg) (maxMsg nmsgs chunk : Nat) (hN : 0 < maxMsg * nmsgs)
    (wops : List WOp) (rops : List ROp) (hops : WOpsOk IsMsg wops) (s : Conc)
    (h : Conc.Reach frame (Conc.init frame maxMsg nmsgs chunk wops rops) s) :
    s.returned = s.published.take s.returned.length ∧
    s.published.Sublist (wops.map WOp.msg) ∧ s.fault = false := by
  have inv := conc_inv fr maxMsg nmsgs chunk hN wops rops hops s h
  have ac := reach_acct fr (init_inv maxMsg nmsgs chunk wops rops hN hops)
    (init_acct frame maxMsg nmsgs chunk wops rops) h
  exact ⟨inv.hret, ac.published_sublist, inv.hfault⟩

/-- **C06 / nothing lost.** Whenever both threads are between operations, the ThreadLink is
    a sequential ThreadLink that holds exactly the published messages not yet returned:
    `k` further reads return them in order and then nothing. -/
theorem conc_lossless (fr : Framing frame IsMsg) (maxMsg nmsgs chunk : Nat) (hN : 0 < maxMsg * nmsgs)
    (wops : List WOp) (rops : List ROp) (hops : WOpsOk IsMsg wops) (s : Conc)
    (h : Conc.Reach frame (Conc.init frame maxMsg nmsgs chunk wops rops) s)
    (hw : s.wpc = .idle) (hr : s.rpc = .idle) (k : Nat) :
    (Seq.run frame s.toSeq (List.replicate k .read)).2 =
      (List.range k).map fun i => Out.msg (s.published.drop s.returned.length)[i]? := by
  have inv := conc_inv fr maxMsg nmsgs chunk hN wops rops hops s h
  obtain ⟨L, sinv⟩ := Inv.toSeq inv hw hr
  have hrr : ∀ o, o ∈ List.replicate k Op.read → o.Ok IsMsg := by
    intro o ho; rw [(List.mem_replicate.mp ho).2]; trivial
  obtain ⟨P2, C2, L2, -, h2⟩ := run_refines fr (List.replicate k .read) _ _ _ _ sinv hrr
  have e2 := congrArg Prod.snd h2
  simp only at e2
  rw [← e2, Q.read_outs]
  rfl

/-- **C06 / hasNext.** In every reachable state in which the reader is about to execute
    `hasNext()`, its single shared access (the load of the write index — the linearisation
    point) yields `false` exactly when every published message has been consumed. -/
theorem hasNext_exact (fr : Framing frame IsMsg) (maxMsg nmsgs chunk : Nat) (hN : 0 < maxMsg * nmsgs)
    (wops : List WOp) (rops : List ROp) (hops : WOpsOk IsMsg wops) (s : Conc)
    (h : Conc.Reach frame (Conc.init frame maxMsg nmsgs chunk wops rops) s)
    (rest : List ROp) (hpc : s.rpc = .idle) (hop : s.rops = .hasNext false :: rest) :
    ∃ s' b, s.step frame .reader = some (s', .loadW s.w) ∧ s'.rlog = s.rlog ++ [.hasNext false b] ∧
      (b = false ↔ s.returned.length = s.published.length) := by
  have inv := conc_inv fr maxMsg nmsgs chunk hN wops rops hops s h
  have hx := inv_hasNext fr inv
  have hC := inv.hC
  refine ⟨{ s with rops := rest, rlog := s.rlog ++ [.hasNext false (decide (readSize s.w s.r s.N ≠ 0))] },
    decide (readSize s.w s.r s.N ≠ 0), ?_, rfl, ?_⟩
  · simp only [Conc.step, Conc.rStep, hpc, hop, Bool.false_eq_true, if_false]
  · simp only [decide_eq_false_iff_not]
    rw [hx]
    show ¬(retOf s.rlog).length < (pubOf s.wlog).length ↔ (retOf s.rlog).length = (pubOf s.wlog).length
    omega

/-! ## lookahead reads under concurrency (review A3)

  `s.lookahead` (= `laOf s.rlog`) is the position of the lookahead cursor of the bounded FIFO,
  computed from the results the reader has received so far with the cursor arithmetic of
  `Q.step` (`curStep`: a lookahead read that returns a message advances it, every normal read
  sets it to the number of consumed messages); `s.cursor l` is the published message a
  `read(l)` looks at: `s.lookahead` for `read_lookahead`, `s.returned.length` for `read`;
  `s.absQ` is the bounded FIFO holding the published messages with these two cursors. -/

/-- the bounded FIFO a reachable state stands for: the published messages, of which
    `returned.length` are consumed, lookahead cursor at `lookahead` -/
def Conc.absQ (s : Conc) : Q := qAt (s.N - 1) s.maxMsg s.published (s.returned.length, s.lookahead)

/-- **C06 / lookahead, under every interleaving: the cursors are the queue's cursors.**  In
    every reachable state, a `read` / `read_lookahead` of the bounded FIFO `s.absQ` returns the
    published message at `s.cursor l` (nothing iff the cursor is behind the last published
    message) and leaves the FIFO with the cursors that `curStep` computes from that result —
    so the log-defined cursors used by the theorems below are exactly the cursors of the
    abstract queue; `hasNext` / `hasNextLookahead` of the FIFO answer `cursor < published`. -/
theorem conc_cursor_is_queue (fr : Framing frame IsMsg) (maxMsg nmsgs chunk : Nat) (hN : 0 < maxMsg * nmsgs)
    (wops : List WOp) (rops : List ROp) (hops : WOpsOk IsMsg wops) (s : Conc)
    (h : Conc.Reach frame (Conc.init frame maxMsg nmsgs chunk wops rops) s) (l : Bool) :
    Q.step s.absQ (ropOp l) =
      (qAt (s.N - 1) s.maxMsg s.published
         (curStep (s.returned.length, s.lookahead) (.read l ((s.published[s.cursor l]?).getD []))),
       .msg s.published[s.cursor l]?) ∧
    (Q.step s.absQ (if l = true then .hasNextLookahead else .hasNext)).2 =
      .bool (decide (s.cursor l < s.published.length)) := by
  have inv := conc_inv fr maxMsg nmsgs chunk hN wops rops hops s h
  have li := reach_linv fr (init_inv maxMsg nmsgs chunk wops rops hN hops)
    (init_linv frame maxMsg nmsgs chunk wops rops) h
  exact ⟨queue_cursor _ _ _ (fun m hm => fr.ne m (inv.hP m hm).1) _ _ li.hlo li.hhi l,
    queue_hasNext _ _ _ _ _ li.hlo l⟩

/-- **C06 / lookahead FIFO, under every interleaving.**  In every reachable state the lookahead
    cursor lies between the consumed and the published messages, and *every* completed read in
    the reader's log that returned a message — `read_lookahead` as well as `read` — returned,
    byte for byte, the published message its cursor pointed at when it was issued (the cursors
    computed from the results that precede it in the log): lookahead reads replay the published
    sequence from the last consuming read on, without skipping, duplicating or tearing. -/
theorem conc_lookahead_fifo (fr : Framing frame IsMsg) (maxMsg nmsgs chunk : Nat) (hN : 0 < maxMsg * nmsgs)
    (wops : List WOp) (rops : List ROp) (hops : WOpsOk IsMsg wops) (s : Conc)
    (h : Conc.Reach frame (Conc.init frame maxMsg nmsgs chunk wops rops) s) :
    s.returned.length ≤ s.lookahead ∧ s.lookahead ≤ s.published.length ∧
    ∀ i l m, s.rlog[i]? = some (.read l m) → m ≠ [] →
      s.published[curAt l (s.rlog.take i)]? = some m := by
  have li := reach_linv fr (init_inv maxMsg nmsgs chunk wops rops hN hops)
    (init_linv frame maxMsg nmsgs chunk wops rops) h
  exact ⟨li.hlo, li.hhi, li.hlog⟩

/-- **C06 / hasNext and hasNextLookahead.**  In every reachable state in which the reader is about
    to execute `hasNext()` (`l = false`) or `hasNextLookahead()` (`l = true`), its single shared
    access (the load of the write index — the linearisation point) yields `true` exactly when a
    published message lies at its cursor. -/
theorem hasNext_exact_cursor (fr : Framing frame IsMsg) (maxMsg nmsgs chunk : Nat) (hN : 0 < maxMsg * nmsgs)
    (wops : List WOp) (rops : List ROp) (hops : WOpsOk IsMsg wops) (s : Conc)
    (h : Conc.Reach frame (Conc.init frame maxMsg nmsgs chunk wops rops) s)
    (l : Bool) (rest : List ROp) (hpc : s.rpc = .idle) (hop : s.rops = .hasNext l :: rest) :
    ∃ s' b, s.step frame .reader = some (s', .loadW s.w) ∧ s'.rlog = s.rlog ++ [.hasNext l b] ∧
      (b = true ↔ s.cursor l < s.published.length) := by
  have inv := conc_inv fr maxMsg nmsgs chunk hN wops rops hops s h
  have li := reach_linv fr (init_inv maxMsg nmsgs chunk wops rops hN hops)
    (init_linv frame maxMsg nmsgs chunk wops rops) h
  have hC : (retOf s.rlog).length ≤ (pubOf s.wlog).length := inv.hC
  have hx : readSize s.w (if l = true then s.la else s.r) s.N ≠ 0 ↔ curAt l s.rlog < (pubOf s.wlog).length := by
    cases l with
    | false => exact inv_readSize_at fr inv (Nat.le_refl _) hC inv.hr
    | true => exact inv_readSize_at fr inv li.hlo li.hhi li.hla
  refine ⟨{ s with rops := rest, rlog := s.rlog ++ [.hasNext l (decide (readSize s.w (if l = true then s.la else s.r) s.N ≠ 0))] },
    decide (readSize s.w (if l = true then s.la else s.r) s.N ≠ 0), ?_, rfl, ?_⟩
  · simp only [Conc.step, Conc.rStep, hpc, hop]
  · rw [decide_eq_true_iff]; exact hx

/-- **C06 / hasNextLookahead.**  `hasNextLookahead()` answers `false` exactly when the lookahead
    cursor has reached the end of the published messages (counterpart of `hasNext_exact`). -/
theorem hasNextLookahead_exact (fr : Framing frame IsMsg) (maxMsg nmsgs chunk : Nat) (hN : 0 < maxMsg * nmsgs)
    (wops : List WOp) (rops : List ROp) (hops : WOpsOk IsMsg wops) (s : Conc)
    (h : Conc.Reach frame (Conc.init frame maxMsg nmsgs chunk wops rops) s)
    (rest : List ROp) (hpc : s.rpc = .idle) (hop : s.rops = .hasNext true :: rest) :
    ∃ s' b, s.step frame .reader = some (s', .loadW s.w) ∧ s'.rlog = s.rlog ++ [.hasNext true b] ∧
      (b = false ↔ s.lookahead = s.published.length) := by
  obtain ⟨s', b, h1, h2, h3⟩ := hasNext_exact_cursor fr maxMsg nmsgs chunk hN wops rops hops s h true rest hpc hop
  have li := (conc_lookahead_fifo fr maxMsg nmsgs chunk hN wops rops hops s h).2.1
  refine ⟨s', b, h1, h2, ?_⟩
  have h3 : b = true ↔ s.lookahead < s.published.length := h3
  cases b <;> simp at h3 ⊢ <;> omega

/-- **C06 / what a read returns, at its linearisation point.**  In every reachable state in which
    the reader is about to execute `read()` (`l = false`) or `read_lookahead()` (`l = true`), its
    first shared access is the load of the write index; whatever the two threads do from there
    (any interleaving, any number of steps), the reader's log is unchanged until the operation
    completes, and the entry it then appends is the message that was published *at that load*
    at the operation's cursor — nothing (`[]`) exactly when the cursor had reached the end of
    the published messages at that moment.  By `conc_cursor_is_queue` this is what
    `read` / `read_lookahead` of the bounded FIFO with lookahead cursor return in that state. -/
theorem conc_read_exact (fr : Framing frame IsMsg) (maxMsg nmsgs chunk : Nat) (hN : 0 < maxMsg * nmsgs)
    (wops : List WOp) (rops : List ROp) (hops : WOpsOk IsMsg wops) (s : Conc)
    (h : Conc.Reach frame (Conc.init frame maxMsg nmsgs chunk wops rops) s)
    (l : Bool) (rest : List ROp) (hpc : s.rpc = .idle) (hop : s.rops = .read l :: rest) :
    ∃ s1, s.step frame .reader = some (s1, .loadW s.w) ∧
      ∀ s', Conc.Reach frame s1 s' →
        s'.rlog = s.rlog ∨
        ∃ more, s'.rlog = s.rlog ++ .read l ((s.published[s.cursor l]?).getD []) :: more := by
  have inv := conc_inv fr maxMsg nmsgs chunk hN wops rops hops s h
  have li := reach_linv fr (init_inv maxMsg nmsgs chunk wops rops hN hops)
    (init_linv frame maxMsg nmsgs chunk wops rops) h
  have hstep : s.step frame .reader = some ({ s with rops := rest, rpc := .framing l s.w }, .loadW s.w) := by
    simp only [Conc.step, Conc.rStep, hpc, hop]
  refine ⟨_, hstep, ?_⟩
  intro s' hr
  obtain ⟨hX, hw0, p1⟩ := pend_start inv li hpc hop hstep
  have inv1 := step_inv fr .reader inv hstep
  have li1 := step_linv fr .reader inv li hstep
  obtain ⟨-, -, pc⟩ := reach_pend fr hX hw0 inv1 li1 p1 hr
  rcases pc with ⟨plog, -⟩ | ⟨plog, -⟩ | ⟨more, plog⟩
  · exact Or.inl plog
  · exact Or.inl plog
  · exact Or.inr ⟨more, plog⟩

/-- **C06 / nothing lost, with the lookahead cursor.**  Whenever both threads are between
    operations, the ThreadLink is a sequential ThreadLink that *is* the bounded FIFO `s.absQ`:
    any further (sequential) history of writes, reads, lookahead reads and hasNext queries
    returns what that FIFO returns (generalises `conc_lossless` from `k` reads to any history
    and to the lookahead cursor). -/
theorem conc_quiescent_queue (fr : Framing frame IsMsg) (maxMsg nmsgs chunk : Nat) (hN : 0 < maxMsg * nmsgs)
    (wops : List WOp) (rops : List ROp) (hops : WOpsOk IsMsg wops) (s : Conc)
    (h : Conc.Reach frame (Conc.init frame maxMsg nmsgs chunk wops rops) s)
    (hw : s.wpc = .idle) (_hr : s.rpc = .idle) (ops : List Op) (hok : OpsOk IsMsg ops) :
    (Seq.run frame s.toSeq ops).2 = (Q.run s.absQ ops).2 := by
  have inv := conc_inv fr maxMsg nmsgs chunk hN wops rops hops s h
  have li := reach_linv fr (init_inv maxMsg nmsgs chunk wops rops hN hops)
    (init_linv frame maxMsg nmsgs chunk wops rops) h
  obtain ⟨P2, C2, L2, -, h2⟩ := run_refines fr ops _ _ _ _ (inv.toSeq_at li hw) hok
  have e2 := congrArg Prod.snd h2
  simp only at e2
  rw [← e2]
  rfl

/-! ## concurrent acceptance (which writes are accepted) -/

/-- **C06 / acceptance under concurrency.**  In every reachable state in which the writer is
    about to start an operation, its first shared access — the load of the read index, the
    moment "it looks" — decides the fate of the message `m`: it is accepted (and `m` itself
    becomes the bytes in flight, to be published by the store of the write index, see
    `conc_publish`) **iff** `m` is not longer than `MaxMsg` and fits, together with the bytes
    of the published-but-not-yet-returned messages, into the `N - 1` usable bytes of the ring
    *at that moment*; otherwise nothing is in flight, and ring, write index and published
    messages are unchanged (dropped whole, disturbing nothing). -/
theorem conc_accept_exact (fr : Framing frame IsMsg) (maxMsg nmsgs chunk : Nat) (hN : 0 < maxMsg * nmsgs)
    (wops : List WOp) (rops : List ROp) (hops : WOpsOk IsMsg wops) (s : Conc)
    (h : Conc.Reach frame (Conc.init frame maxMsg nmsgs chunk wops rops) s)
    (op : WOp) (rest : List WOp) (hpc : s.wpc = .idle) (hop : s.wops = op :: rest) :
    ∃ s', s.step frame .writer = some (s', .loadR s.r) ∧
      (if op.msg.length ≤ s.maxMsg ∧ s.queuedBytes + op.msg.length ≤ s.N - 1
       then s'.wpc = .copying op.msg op.msg 0 ∧ s'.wlog = s.wlog
       else s'.wpc.inflight = [] ∧ s'.published = s.published) ∧
      s'.buf = s.buf ∧ s'.w = s.w :=
  inv_accept fr (conc_inv fr maxMsg nmsgs chunk hN wops rops hops s h) hpc hop

/-- **C06 / publication.**  Once the bytes in flight have been copied, the writer's next step
    is the store of the write index and appends exactly those bytes to the published
    messages (nothing for an empty transfer). -/
theorem conc_publish (frame : Bytes → Nat) (s : Conc) (m d : Bytes) (k : Nat)
    (hpc : s.wpc = .copying m d k) (hk : d.length ≤ k) :
    ∃ s', s.step frame .writer = some (s', .storeW ((s.w + d.length) % s.N)) ∧
      s'.published = s.published ++ (if d = [] then [] else [d]) ∧ s'.wpc = .idle :=
  step_publish frame s m d k hpc hk

/-! ## the real framing function: `rtosc_message_ring_length` (C01's model) -/

/-- **A1.** `Framing` holds of the model of the real framing function. -/
theorem framing_osc : Framing frameOsc IsOscMsg := oscFraming

/-- **C06 / FIFO, sequentially, with the real length functions.**  For every history whose
    written payloads are encodings of well-formed OSC messages (address not starting with '#'),
    the model of thread-link.cpp that computes lengths like the code — `raw_write` with
    `rtosc_message_length(msg,-1)` (`rawLen`: every operation returns, no read outside the block),
    reads with `rtosc_message_ring_length` — returns what the bounded FIFO returns. -/
theorem seq_refines_queue_osc (maxMsg nmsgs : Nat) (hN : 0 < maxMsg * nmsgs)
    (ops : List Op) (hops : OpsOk IsOscMsg ops) :
    ∃ s outs, Seq.runOsc (Seq.init maxMsg nmsgs) ops = some (s, outs) ∧
      outs = (Q.run (Q.init maxMsg nmsgs) ops).2 ∧ s.fault = false := by
  have h := seq_refines_queue oscFraming maxMsg nmsgs hN ops hops
  exact ⟨_, _, runOsc_eq ops _ hops, h.1, h.2⟩

theorem drop_whole_osc (maxMsg nmsgs : Nat) (hN : 0 < maxMsg * nmsgs)
    (ops : List Op) (hops : OpsOk IsOscMsg ops) (m : Bytes) (hm : IsOscMsg m)
    (hfit : (Q.run (Q.init maxMsg nmsgs) ops).1.fits m = false) :
    (Seq.run frameOsc (Seq.init maxMsg nmsgs) ops).1.write m = (Seq.run frameOsc (Seq.init maxMsg nmsgs) ops).1 ∧
    (Seq.run frameOsc (Seq.init maxMsg nmsgs) ops).1.stepOsc (.rawWrite m) =
      some ((Seq.run frameOsc (Seq.init maxMsg nmsgs) ops).1, .unit) := by
  have h := drop_whole oscFraming maxMsg nmsgs hN ops hops m hm hfit
  refine ⟨h.1, ?_⟩
  rw [stepOsc_eq _ _ (show (Op.rawWrite m).Ok IsOscMsg from hm)]
  simp only [Seq.step, h.2]

theorem conc_inv_osc (maxMsg nmsgs chunk : Nat) (hN : 0 < maxMsg * nmsgs)
    (wops : List WOp) (rops : List ROp) (hops : WOpsOk IsOscMsg wops) (s : Conc)
    (h : Conc.Reach frameOsc (Conc.init frameOsc maxMsg nmsgs chunk wops rops) s) : Inv frameOsc IsOscMsg s :=
  conc_inv oscFraming maxMsg nmsgs chunk hN wops rops hops s h

theorem conc_drf_osc (maxMsg nmsgs chunk : Nat) (hN : 0 < maxMsg * nmsgs)
    (wops : List WOp) (rops : List ROp) (hops : WOpsOk IsOscMsg wops) (s : Conc)
    (h : Conc.Reach frameOsc (Conc.init frameOsc maxMsg nmsgs chunk wops rops) s) :
    ∀ o, o ∈ s.writerWrites → o ∉ s.readerReads :=
  conc_drf oscFraming maxMsg nmsgs chunk hN wops rops hops s h

/-- **C06 / FIFO under every interleaving, for OSC messages and the real framing function.** -/
theorem conc_fifo_osc (maxMsg nmsgs chunk : Nat) (hN : 0 < maxMsg * nmsgs)
    (wops : List WOp) (rops : List ROp) (hops : WOpsOk IsOscMsg wops) (s : Conc)
    (h : Conc.Reach frameOsc (Conc.init frameOsc maxMsg nmsgs chunk wops rops) s) :
    s.returned = s.published.take s.returned.length ∧
    s.published.Sublist (wops.map WOp.msg) ∧ s.fault = false :=
  conc_fifo oscFraming maxMsg nmsgs chunk hN wops rops hops s h

theorem conc_lossless_osc (maxMsg nmsgs chunk : Nat) (hN : 0 < maxMsg * nmsgs)
    (wops : List WOp) (rops : List ROp) (hops : WOpsOk IsOscMsg wops) (s : Conc)
    (h : Conc.Reach frameOsc (Conc.init frameOsc maxMsg nmsgs chunk wops rops) s)
    (hw : s.wpc = .idle) (hr : s.rpc = .idle) (k : Nat) :
    (Seq.run frameOsc s.toSeq (List.replicate k .read)).2 =
      (List.range k).map fun i => Out.msg (s.published.drop s.returned.length)[i]? :=
  conc_lossless oscFraming maxMsg nmsgs chunk hN wops rops hops s h hw hr k

theorem hasNext_exact_osc (maxMsg nmsgs chunk : Nat) (hN : 0 < maxMsg * nmsgs)
    (wops : List WOp) (rops : List ROp) (hops : WOpsOk IsOscMsg wops) (s : Conc)
    (h : Conc.Reach frameOsc (Conc.init frameOsc maxMsg nmsgs chunk wops rops) s)
    (rest : List ROp) (hpc : s.rpc = .idle) (hop : s.rops = .hasNext false :: rest) :
    ∃ s' b, s.step frameOsc .reader = some (s', .loadW s.w) ∧ s'.rlog = s.rlog ++ [.hasNext false b] ∧
      (b = false ↔ s.returned.length = s.published.length) :=
  hasNext_exact oscFraming maxMsg nmsgs chunk hN wops rops hops s h rest hpc hop

theorem conc_accept_exact_osc (maxMsg nmsgs chunk : Nat) (hN : 0 < maxMsg * nmsgs)
    (wops : List WOp) (rops : List ROp) (hops : WOpsOk IsOscMsg wops) (s : Conc)
    (h : Conc.Reach frameOsc (Conc.init frameOsc maxMsg nmsgs chunk wops rops) s)
    (op : WOp) (rest : List WOp) (hpc : s.wpc = .idle) (hop : s.wops = op :: rest) :
    ∃ s', s.step frameOsc .writer = some (s', .loadR s.r) ∧
      (if op.msg.length ≤ s.maxMsg ∧ s.queuedBytes + op.msg.length ≤ s.N - 1
       then s'.wpc = .copying op.msg op.msg 0 ∧ s'.wlog = s.wlog
       else s'.wpc.inflight = [] ∧ s'.published = s.published) ∧
      s'.buf = s.buf ∧ s'.w = s.w :=
  conc_accept_exact oscFraming maxMsg nmsgs chunk hN wops rops hops s h op rest hpc hop

/-- **C06 / lookahead FIFO under every interleaving, for OSC messages and the real framing function.** -/
theorem conc_lookahead_fifo_osc (maxMsg nmsgs chunk : Nat) (hN : 0 < maxMsg * nmsgs)
    (wops : List WOp) (rops : List ROp) (hops : WOpsOk IsOscMsg wops) (s : Conc)
    (h : Conc.Reach frameOsc (Conc.init frameOsc maxMsg nmsgs chunk wops rops) s) :
    s.returned.length ≤ s.lookahead ∧ s.lookahead ≤ s.published.length ∧
    ∀ i l m, s.rlog[i]? = some (.read l m) → m ≠ [] →
      s.published[curAt l (s.rlog.take i)]? = some m :=
  conc_lookahead_fifo oscFraming maxMsg nmsgs chunk hN wops rops hops s h

theorem conc_cursor_is_queue_osc (maxMsg nmsgs chunk : Nat) (hN : 0 < maxMsg * nmsgs)
    (wops : List WOp) (rops : List ROp) (hops : WOpsOk IsOscMsg wops) (s : Conc)
    (h : Conc.Reach frameOsc (Conc.init frameOsc maxMsg nmsgs chunk wops rops) s) (l : Bool) :
    Q.step s.absQ (ropOp l) =
      (qAt (s.N - 1) s.maxMsg s.published
         (curStep (s.returned.length, s.lookahead) (.read l ((s.published[s.cursor l]?).getD []))),
       .msg s.published[s.cursor l]?) ∧
    (Q.step s.absQ (if l = true then .hasNextLookahead else .hasNext)).2 =
      .bool (decide (s.cursor l < s.published.length)) :=
  conc_cursor_is_queue oscFraming maxMsg nmsgs chunk hN wops rops hops s h l

theorem hasNext_exact_cursor_osc (maxMsg nmsgs chunk : Nat) (hN : 0 < maxMsg * nmsgs)
    (wops : List WOp) (rops : List ROp) (hops : WOpsOk IsOscMsg wops) (s : Conc)
    (h : Conc.Reach frameOsc (Conc.init frameOsc maxMsg nmsgs chunk wops rops) s)
    (l : Bool) (rest : List ROp) (hpc : s.rpc = .idle) (hop : s.rops = .hasNext l :: rest) :
    ∃ s' b, s.step frameOsc .reader = some (s', .loadW s.w) ∧ s'.rlog = s.rlog ++ [.hasNext l b] ∧
      (b = true ↔ s.cursor l < s.published.length) :=
  hasNext_exact_cursor oscFraming maxMsg nmsgs chunk hN wops rops hops s h l rest hpc hop

theorem hasNextLookahead_exact_osc (maxMsg nmsgs chunk : Nat) (hN : 0 < maxMsg * nmsgs)
    (wops : List WOp) (rops : List ROp) (hops : WOpsOk IsOscMsg wops) (s : Conc)
    (h : Conc.Reach frameOsc (Conc.init frameOsc maxMsg nmsgs chunk wops rops) s)
    (rest : List ROp) (hpc : s.rpc = .idle) (hop : s.rops = .hasNext true :: rest) :
    ∃ s' b, s.step frameOsc .reader = some (s', .loadW s.w) ∧ s'.rlog = s.rlog ++ [.hasNext true b] ∧
      (b = false ↔ s.lookahead = s.published.length) :=
  hasNextLookahead_exact oscFraming maxMsg nmsgs chunk hN wops rops hops s h rest hpc hop

/-- **C06 / what `read` and `read_lookahead` return at their linearisation point, for OSC
    messages and the real framing function.** -/
theorem conc_read_exact_osc (maxMsg nmsgs chunk : Nat) (hN : 0 < maxMsg * nmsgs)
    (wops : List WOp) (rops : List ROp) (hops : WOpsOk IsOscMsg wops) (s : Conc)
    (h : Conc.Reach frameOsc (Conc.init frameOsc maxMsg nmsgs chunk wops rops) s)
    (l : Bool) (rest : List ROp) (hpc : s.rpc = .idle) (hop : s.rops = .read l :: rest) :
    ∃ s1, s.step frameOsc .reader = some (s1, .loadW s.w) ∧
      ∀ s', Conc.Reach frameOsc s1 s' →
        s'.rlog = s.rlog ∨
        ∃ more, s'.rlog = s.rlog ++ .read l ((s.published[s.cursor l]?).getD []) :: more :=
  conc_read_exact oscFraming maxMsg nmsgs chunk hN wops rops hops s h l rest hpc hop

theorem conc_quiescent_queue_osc (maxMsg nmsgs chunk : Nat) (hN : 0 < maxMsg * nmsgs)
    (wops : List WOp) (rops : List ROp) (hops : WOpsOk IsOscMsg wops) (s : Conc)
    (h : Conc.Reach frameOsc (Conc.init frameOsc maxMsg nmsgs chunk wops rops) s)
    (hw : s.wpc = .idle) (hr : s.rpc = .idle) (ops : List Op) (hok : OpsOk IsOscMsg ops) :
    (Seq.run frameOsc s.toSeq ops).2 = (Q.run s.absQ ops).2 :=
  conc_quiescent_queue oscFraming maxMsg nmsgs chunk hN wops rops hops s h hw hr ops hok

/-! ## known finding C06-K5: bundles are outside `IsMsg` -/

/-- trigger predicate of finding C06-K5: some `raw_write` block starts with `#bundle\0` -/
def HasBundle (ops : List Op) : Bool :=
  ops.any fun
    | .rawWrite b => b.take 8 == bundleMagic
    | _ => false

/-- "#bundle\0", time tag 0, one element `/a ,` (8 bytes), 4 zero bytes behind the block -/
def k5Bundle : Bytes :=
  [35, 98, 117, 110, 100, 108, 101, 0, 0, 0, 0, 0, 0, 0, 0, 0, 0, 0, 0, 8, 47, 97, 0, 0, 44, 0, 0, 0,
   0, 0, 0, 0]

def k5History : List Op := [.rawWrite k5Bundle, .write [47, 98, 0, 0, 44, 0, 0, 0], .hasNext, .read, .read]

/-- **C06-K5.** With the real framing function a bundle sent through `raw_write` is not
    self-delimiting inside the ring: once a message is queued behind it, `read` finds nothing
    although `hasNext` is true — the FIFO would return the bundle, then the message. -/
theorem bundle_not_self_delimiting_counterexample :
    HasBundle k5History = true ∧
    (Seq.run frameExec (Seq.init 32 2) k5History).2 = [.unit, .unit, .bool true, .msg none, .msg none] ∧
    (Q.run (Q.init 32 2) [.rawWrite (k5Bundle.take 28), .write [47, 98, 0, 0, 44, 0, 0, 0], .hasNext, .read, .read]).2
      = [.unit, .unit, .bool true, .msg (some (k5Bundle.take 28)), .msg (some [47, 98, 0, 0, 44, 0, 0, 0])] := by
  decide +kernel


/-! ## former finding C06-K6 (fixes/C06-bundle-length-wrap.patch): `raw_write` returns on every block

`raw_write` calls `rtosc_message_length(msg, -1)`: the ring it builds has `total = SIZE_MAX`, so
the guard `advance > total - pos` of `bundle_ring_length` (fix 10ae66e) cannot fire.  Before the
repair an element size of 0xfffffffc made `pos += 4 + advance` a no-op, and sizes adding up to a
multiple of 2^32 led `unsigned pos` round in a circle: the call never returned.  The repaired
code rejects (length 0) an element whose end `pos + 4 + advance` is not an `unsigned` position,
so `pos` strictly increases; every round reads `msg[pos]`, so the walk has at most `|block|`
rounds. -/

/-- **rawLen_terminates** — the fuel lemma for the unbounded length walk (the counterpart of
    C07's `length_terminates` for `len = -1`): on every block shorter than 2^32 bytes the loops of
    `rtosc_message_length(msg, -1)` (path scan, type-string scan, argument walk, bundle walk)
    finish within the fuel the model gives them (`|block| + 2` rounds each): `raw_write`'s length
    computation returns — with a length, or having read behind the block it was handed (`.oob`),
    never not at all. -/
theorem rawLen_terminates (b : Bytes) (h : b.length < 4294967296) : rawLen b ≠ .hang :=
  rawLen_ne_hang b (Or.inl h)

/-- **rawLen_bundle_terminates** — for a block that starts with `#bundle\0` (the former K6
    domain) there is no size hypothesis at all: whatever the element sizes are, the bundle walk
    moves strictly forward inside the block and stops. -/
theorem rawLen_bundle_terminates (b : Bytes) (h : b.take 8 = bundleMagic) : rawLen b ≠ .hang :=
  rawLen_ne_hang b (Or.inr h)

/-- the length `rtosc_message_length(bundle, -1)` reports is 0 or the position of a zero word
    it has read inside the block, behind the time tag -/
theorem rawLen_bundle_inside (b : Bytes) (h : b.take 8 = bundleMagic) (n : Nat)
    (hn : rawLen b = .ok n) : n = 0 ∨ (16 ≤ n ∧ n < b.length) := by
  unfold rawLen Osc.messageLengthU at hn
  rw [magicU_of_take b h] at hn
  rcases Osc.bundleLoopU_ok_le b _ _ _ hn with h0 | ⟨h1, h2⟩
  · exact Or.inl h0
  · exact Or.inr ⟨h2, h1⟩

/-- **raw_write_returns** — every operation of the sequential ThreadLink with the real length
    functions returns, for *any* payload (message, bundle, arbitrary bytes): the only way not to
    have a successor state is a `raw_write` whose length walk reads behind the block it was
    given (the caller's contract: `raw_write` is handed a complete message). -/
theorem raw_write_returns (s : Seq) (op : Op)
    (hsz : ∀ b, op = .rawWrite b → b.length < 4294967296 ∨ b.take 8 = bundleMagic) :
    (∃ s' o, s.stepOsc op = some (s', o)) ∨ ∃ b, op = .rawWrite b ∧ rawLen b = .oob := by
  cases hs : s.stepOsc op with
  | some r => exact Or.inl ⟨r.1, r.2, rfl⟩
  | none =>
    obtain ⟨b, hb, ho | hh⟩ := stepOsc_none s op hs
    · exact Or.inr ⟨b, hb, ho⟩
    · exact absurd hh (rawLen_ne_hang b (hsz b hb))

/-- "#bundle\0", time tag 0, element size 0xfffffffc, `/a ,`, 4 zero bytes behind the block -/
def k6Bundle : Bytes :=
  [35, 98, 117, 110, 100, 108, 101, 0, 0, 0, 0, 0, 0, 0, 0, 0, 255, 255, 255, 252, 47, 97, 0, 0, 44, 0, 0, 0,
   0, 0, 0, 0]

/-- "#bundle\0", time tag 0, element `/a ,` (size 8), element size 0xfffffff0, `/b ,`, 4 zero
    bytes: 16 → 28 → 28 + 4 + 0xfffffff0 = 2^32 + 16, the unrepaired walk is back at 16 -/
def k6Cycle : Bytes :=
  [35, 98, 117, 110, 100, 108, 101, 0, 0, 0, 0, 0, 0, 0, 0, 0, 0, 0, 0, 8, 47, 97, 0, 0, 44, 0, 0, 0,
   255, 255, 255, 240, 47, 98, 0, 0, 44, 0, 0, 0, 0, 0, 0, 0]

def k6History : List Op := [.rawWrite k6Bundle, .hasNext, .read]

/-- **C06-K6, repaired.**  The two witnesses of the former finding (no progress; a cycle):
    `rtosc_message_length(msg, -1)` now reports 0, `raw_write` copies nothing into the ring
    (`ring_write` of 0 bytes), the queue stays empty, and the history runs to its end.  The same
    blocks inside a ring view, where `total` is the view's size, are rejected with length 0 as
    before. -/
theorem raw_write_wrapping_bundle_dropped :
    rawLen k6Bundle = .ok 0 ∧ rawLen k6Cycle = .ok 0 ∧
    (Seq.runOsc (Seq.init 32 2) k6History).map (·.2) = some [.unit, .bool false, .msg none] ∧
    (Seq.runOsc (Seq.init 32 2) k6History).map (·.1.w) = some 0 ∧
    (Seq.runOsc (Seq.init 48 2) [.rawWrite k6Cycle, .hasNext, .read]).map (·.2)
      = some [.unit, .bool false, .msg none] ∧
    frameOsc k6Bundle = 0 ∧ frameOsc k6Cycle = 0 := by
  decide +kernel

/-! ## non-vacuity: the hypotheses are satisfiable and the conclusions say something -/

/-- a toy framing for the examples: the first byte of a message is its length -/
def toyFrame (v : Bytes) : Nat := min (v.headD 0).toNat v.length

def ToyMsg (m : Bytes) : Prop := m ≠ [] ∧ (m.headD 0).toNat = m.length

theorem toyFraming : Framing toyFrame ToyMsg where
  le := fun v => Nat.min_le_right _ _
  msg := by
    intro m rest ⟨hne, hl⟩
    cases m with
    | nil => exact absurd rfl hne
    | cons a t =>
      simp only [toyFrame, List.cons_append, List.headD_cons, List.length_cons, List.length_append] at hl ⊢
      omega
  ne := fun _ h => h.1

example : OpsOk ToyMsg [.write [3, 1, 2], .hasNext, .readLookahead, .rawWrite [2, 9], .read, .read, .read] := by
  intro op hop
  simp only [List.mem_cons, List.not_mem_nil, or_false] at hop
  rcases hop with rfl | rfl | rfl | rfl | rfl | rfl | rfl <;>
    first | trivial | exact ⟨by decide, by decide⟩

/-- the sequential model on that history: lookahead does not consume, both messages come out -/
example : (Seq.run toyFrame (Seq.init 4 2)
    [.write [3, 1, 2], .hasNext, .readLookahead, .rawWrite [2, 9], .read, .read, .read]).2 =
    [.unit, .bool true, .msg (some [3, 1, 2]), .unit, .msg (some [3, 1, 2]), .msg (some [2, 9]), .msg none] := by
  decide

example : WOpsOk ToyMsg [.write [3, 1, 2], .rawWrite [2, 9]] := by
  intro op hop
  simp only [List.mem_cons, List.not_mem_nil, or_false] at hop
  rcases hop with rfl | rfl <;> exact ⟨by decide, by decide⟩

open Tid in
/-- a reachable state of the two-thread model (byte-wise memcpy, the reader starts framing
    while the writer copies the second message): both messages are returned, in order -/
example :
    let s := (Conc.run toyFrame
      [writer, writer, writer, writer, writer, reader, writer, reader, writer, reader, reader,
       reader, writer, reader, writer, reader, reader, reader, reader, reader, reader]
      (Conc.init toyFrame 4 2 1 [.write [3, 1, 2], .rawWrite [2, 9]] [.read false, .hasNext false, .read false])).1
    s.returned = [[3, 1, 2], [2, 9]] ∧ s.published = [[3, 1, 2], [2, 9]] := by
  decide

/-! ### lookahead reads under concurrency -/

open Tid in
/-- a schedule (byte-wise memcpy) in which the second `read_lookahead` loads the write index
    before the second message is published and the third one after: the lookahead reads return
    the first message, nothing, the second message; nothing is consumed; the cursor is at 2 -/
def lookSched : List Tid :=
  List.replicate 5 writer ++ List.replicate 6 reader ++ List.replicate 6 writer ++ List.replicate 40 reader

def lookState : Conc :=
  (Conc.run toyFrame lookSched
    (Conc.init toyFrame 4 2 1 [.write [3, 1, 2], .rawWrite [2, 9]]
      [.read true, .read true, .read true, .hasNext true, .read false, .read true])).1

/-- that state is reachable (so every theorem above applies to it) … -/
example : Conc.Reach toyFrame (Conc.init toyFrame 4 2 1 [.write [3, 1, 2], .rawWrite [2, 9]]
    [.read true, .read true, .read true, .hasNext true, .read false, .read true]) lookState :=
  run_reach _ _ Conc.Reach.refl

/-- … and the conclusions say something about it: a lookahead read that finds nothing, two
    that return messages without consuming, `hasNextLookahead` false at the end of the
    published messages, a `read` that resynchronises the cursor, a lookahead read that
    replays the second message -/
example :
    lookState.rlog = [.read true [3, 1, 2], .read true [], .read true [2, 9], .hasNext true false,
                      .read false [3, 1, 2], .read true [2, 9]] ∧
    lookState.lookahead = 2 ∧ lookState.returned = [[3, 1, 2]] ∧
    lookState.published = [[3, 1, 2], [2, 9]] ∧
    curAt true (lookState.rlog.take 2) = 1 ∧ curAt true (lookState.rlog.take 5) = 1 := by
  decide +kernel

open Tid in
/-- a reachable state in which the reader is about to start a `read_lookahead` while the
    writer is in the middle of a copy (hypotheses of `conc_read_exact`, `l = true`) -/
example :
    let s := (Conc.run toyFrame [writer, writer, writer, writer, writer, reader, reader, reader, reader, reader,
                                 writer, writer]
      (Conc.init toyFrame 4 2 1 [.write [3, 1, 2], .rawWrite [2, 9]] [.read true, .read true])).1
    s.rpc = .idle ∧ s.rops = [.read true] ∧ s.wpc = .copying [2, 9] [2, 9] 1 ∧ s.cursor true = 1 ∧
    s.published = [[3, 1, 2]] := by
  decide +kernel

/-! ### the same with the real framing function on OSC messages -/

/-- `/a` with no arguments and `/bc` with one int32 are OSC messages in the sense of `IsOscMsg` -/
example : IsOscMsg [47, 97, 0, 0, 44, 0, 0, 0] := ⟨⟨[47, 97], [], []⟩, by decide, by decide, by decide⟩

example : IsOscMsg [47, 98, 99, 0, 44, 105, 0, 0, 0, 0, 0, 7] :=
  ⟨⟨[47, 98, 99], [105], [.w32 7]⟩, by decide, by decide, by decide⟩

/-- the sequential model with the real length functions: lookahead does not consume, both come out -/
example : (Seq.runOsc (Seq.init 12 2)
    [.write [47, 97, 0, 0, 44, 0, 0, 0], .hasNext, .readLookahead, .rawWrite [47, 98, 99, 0, 44, 105, 0, 0, 0, 0, 0, 7],
     .read, .read, .read]).map (·.2) =
    some [.unit, .bool true, .msg (some [47, 97, 0, 0, 44, 0, 0, 0]), .unit, .msg (some [47, 97, 0, 0, 44, 0, 0, 0]),
          .msg (some [47, 98, 99, 0, 44, 105, 0, 0, 0, 0, 0, 7]), .msg none] := by
  decide +kernel


end Rtosc.Ring
