/-
  C11 — The scanner accepts the documented text syntax and canonicalises it.
  Property theorems only; the lemmas live in Proofs/Scan*.lean.

  Reading of the statement.  The code under test is `rtosc_count_printed_arg_vals` (model
  `C11.countPrintedArgVals`), `rtosc_scan_arg_vals` (`C11.scanArgVals`) — the model of C10 with
  the repairs fixes/C11-01 … C11-08 and float ranges, `Pretty/C11Model.lean` — and
  `rtosc_print_arg_vals` with the default options (C10's `printArgVals defaultOpt`).
  The sentences of the grammar of doc/Guide.adoc, "Pretty-printing Messages", are the values of
  `Sentence` (`Pretty/C11Spec.lean`): lists of (value, spelling) choices; `render s L` is the text
  of `s` under the layout `L` (white space, line breaks, '%' comments in front of / between /
  behind the values, blanks inside the values), `cells s` the argument values it denotes in the
  memory layout of `rtosc_arg_val_t[]`.

  The four clauses (DESIGN.md §5 C11), each as the FULL statement `…_statement : Prop` over all
  sentences, and the part that is proved, `…_partial`:
    checker_scanner_agree            count = number of cells written, whole text consumed
    scan_denotes                     scanned values = denotation
    whitespace_comment_invariance    two layouts of one sentence scan to equal values
    print_scan_fixpoint              scan (print (scan s)) = scan s
  Proved (`Proved`; for the fixpoint `Plain`: scalars only): sentences of any length whose values are
  scalars in the spellings of `Tok.proved`, arrays `[ … ]` (nested to any depth, without open end) of
  such values of one type, and repetitions `nxA` of a scalar or an array.  The scalar spellings: 'i' integers in decimal (with and
  without the suffix `i`) and in hexadecimal (`0x2a`, `-0x2a`, `0x2A`, two's complement `0xffffffd6`),
  decimal 'h' integers, characters raw or escaped, strings and quoted symbols with every escape sequence and any
  concatenation `"…"\ "…"`, identifiers, true/false/nil/inf/now/immediately, colours, MIDI, blobs —
  under EVERY layout: any white space, line breaks and comment lines in front of, between and
  behind the values, any white space between the parts of a string and between the bytes of a
  blob.  No bound on the number of values, parts, gaps or characters; induction over the token list.
  Also proved (`Ranged`, `…_ranges_partial`): ranges `b ... c` of decimal 'i' integers anywhere in such a
  sentence — at top level and inside arrays nested to any depth —, standing first (in the sentence, in
  their array) or behind a scalar value, `nx<scalar>`, another such range, an array or `nx[array]`:
  `a b ... c` with the step `b - a`, the step ±1 behind values of other types and behind arrays.
  Not proved, covered by the correspondence check and the oracle only: octal spellings, hex with
  a suffix or for 'h',
  floats and doubles in every notation, upper-case colours, other blanks inside MIDI,
  `b ... c` ranges of c / h / f / d or in other spellings (hex, suffix `i`), arrays with an open end; and
  `print_scan_fixpoint` for arrays and for values the printer compresses (`nxA`, five equal-typed
  values in a row).
  Known finding C11-K1 (`scan_denotes_counterexample`, `checker_scanner_agree_counterexample`): an
  unsuffixed octal literal is read as decimal; trigger `hasOctalPlain`.
  Former finding C11-K2 (a numeric literal directly followed by '%' was rejected): repaired by
  fixes/C11-08, the numeric word ends at the comment sign (`num_comment_reads`, `exTightNum`).
-/
import RtoscModel.Proofs.ScanPrint
import RtoscModel.Proofs.ScanRange
import RtoscModel.Proofs.ScanRangeSpec
import RtoscModel.Proofs.ScanRangeArrSpec
namespace Rtosc.Pretty.C11
open Rtosc Rtosc.Libc Rtosc.Pretty
open Rtosc.ArgVal (Cell Item flatList expandList)

deriving instance DecidableEq for Except

/-! ### the observables -/

/-- what C11 observes on a text (`observe_at`): `rtosc_count_printed_arg_vals` returns the number
    of cells, and `rtosc_scan_arg_vals`, asked for that many, writes exactly the cells `cs` and
    consumes the whole text -/
structure Reads (text : Bytes) (cs : List Cell) : Prop where
  count : C11.countPrintedArgVals text = .ok (cs.length : Int)
  scan : C11.scanArgVals text cs.length = .ok (text.length, cs)

/-- "equal values": the same cells, or cells that denote the same expanded value list -/
def SameValues (a b : List Cell) : Prop :=
  a = b ∨ ∃ ia ib : List Item, flatList ia = a ∧ flatList ib = b ∧
    (expandList ia).isSome = true ∧ expandList ia = expandList ib

/-! ### the full statements (all sentences of the grammar) -/

/-- **checker_scanner_agree**, full statement: for every sentence and layout the checker accepts
    the text with exactly the number of cells the scanner then writes, and the scanner consumes
    the whole text.  NOT proved in full (and false on the unrepaired part of the code: C11-K1 makes
    the checker reject `-071 -58 ... -076`, `checker_scanner_agree_counterexample`); see
    `checker_scanner_agree_partial`. -/
def checker_scanner_agree_statement : Prop :=
  ∀ (s : Sentence) (L : Layout), s.wf = true → (cells s).isSome = true →
    ∃ (n : Nat) (cs : List Cell),
      C11.countPrintedArgVals (render s L) = .ok (n : Int) ∧
      C11.scanArgVals (render s L) n = .ok ((render s L).length, cs) ∧ cs.length = n

/-- **scan_denotes**, full statement: the scanner yields the values the spelling denotes.
    FALSE for the code as it is (`scan_denotes_counterexample`, known finding C11-K1). -/
def scan_denotes_statement : Prop :=
  ∀ (s : Sentence) (L : Layout) (cs : List Cell), s.wf = true → cells s = some cs → Reads (render s L) cs

/-- the same with the trigger of the known finding C11-K1 (unsuffixed octal literal) excluded: what
    the correspondence check and the oracle test on every generated sentence — also under layouts
    that put a comment directly behind a numeric literal (`42%c`, the former finding C11-K2,
    repaired by fix C11-08).  Proved for `Proved` sentences under layouts in which no comment
    follows a value directly (`scan_denotes_partial`). -/
def scan_denotes_modulo_known_statement : Prop :=
  ∀ (s : Sentence) (L : Layout) (cs : List Cell), s.wf = true → hasOctalPlain s = false →
    cells s = some cs → Reads (render s L) cs

/-- **whitespace_comment_invariance**, full statement: two texts that differ only in the layout
    scan to equal values (whenever both are accepted). -/
def whitespace_comment_invariance_statement : Prop :=
  ∀ (s : Sentence) (L₁ L₂ : Layout) (cs₁ cs₂ : List Cell), s.wf = true →
    Reads (render s L₁) cs₁ → Reads (render s L₂) cs₂ → cs₁ = cs₂

/-- **print_scan_fixpoint**, full statement: printing the scanned values with the default options
    and scanning again gives equal values (ranges compared by their expansion). -/
def print_scan_fixpoint_statement : Prop :=
  ∀ (s : Sentence) (L : Layout) (cs : List Cell), s.wf = true → Reads (render s L) cs →
    ∃ (st : PSt) (ret : Nat) (cs' : List Cell),
      C11.printArgVals defaultOpt cs ⟨[], 0⟩ = .ok (st, ret) ∧ Reads st.out cs' ∧ SameValues cs' cs

/-! ### what is proved -/

/-- the sentences for which the first three clauses are proved: every value is (`SVal.proved`) a
    scalar in one of the spellings of `Tok.proved` (under the blanks the layout `L` puts inside it),
    an array without open end whose elements are such values of one type (any white space between
    them, nested to any depth), or `nxA` with a scalar or array `A` and `1 ≤ n ≤ 2³¹-1` -/
def Proved (s : Sentence) (L : Layout) : Prop := L.spaced ∧ provedFrom L 0 s

/-- the same without `nxA`: the sentences for which `print_scan_fixpoint` is proved -/
def Plain (s : Sentence) (L : Layout) : Prop := L.spaced ∧ plainFrom L 0 s

theorem Plain.proved {s : Sentence} {L : Layout} (h : Plain s L) : Proved s L := ⟨h.1, (plain_proved L s 0 h.2).1⟩

theorem gapsBytes_append (a b : List Gap) : gapsBytes (a ++ b) = gapsBytes a ++ gapsBytes b := by
  simp [gapsBytes]

/-- a sentence of proved values is read as its cells, under every layout -/
theorem reads_proved (s : Sentence) (L : Layout) (h : Proved s L) : Reads (render s L) (pCells s) := by
  by_cases hs : s = []
  · subst hs
    -- only gaps, possibly an unterminated comment
    have hform : ∃ (g : List Gap) (tail : Bytes), render [] L = gapsBytes g ++ tail ∧
        (tail = [] ∨ ∃ b, tail = 37 :: commentBody b) := by
      cases hl : L.last with
      | none => exact ⟨L.lead ++ L.trail, [], by simp [render, valuesText, trailBytes, hl, gapsBytes_append], Or.inl rfl⟩
      | some b =>
        exact ⟨L.lead ++ L.trail, 37 :: commentBody b,
          by simp [render, valuesText, trailBytes, hl, gapsBytes_append], Or.inr ⟨b, rfl⟩⟩
    obtain ⟨g, tail, hr, ht⟩ := hform
    rw [hr]
    exact ⟨by simpa [pCells, pcellsList] using countPrintedArgVals_empty g tail ht,
      by simpa [pCells, pcellsList] using scanArgVals_empty g tail ht⟩
  · have hlay := argsLay_proved L h.1.1 (trailBytes L.trail L.last) (tail_trail L.trail L.last h.1.2) s 0 hs h.2
    have hcells := allCells_pArgs L 0 s
    have hr : render s L = gapsBytes L.lead ++ (valuesText L 0 s ++ trailBytes L.trail L.last) := by
      simp [render]
    rw [hr]
    refine ⟨?_, ?_⟩
    · have := countPrintedArgVals_lay L.lead hlay
      rwa [hcells] at this
    · have := scanArgVals_lay L.lead hlay
      rwa [hcells] at this

theorem reads_plain (s : Sentence) (L : Layout) (h : Plain s L) : Reads (render s L) (valCells s) := by
  have := reads_proved s L h.proved
  rwa [(plain_proved L s 0 h.2).2] at this

/-- **checker_scanner_agree** (proved part): for every `Proved` sentence of any length and every
    layout, the checker counts exactly the cells the scanner writes and the scanner consumes the
    whole text. -/
theorem checker_scanner_agree_partial (s : Sentence) (L : Layout) (h : Proved s L) :
    ∃ (n : Nat) (cs : List Cell),
      C11.countPrintedArgVals (render s L) = .ok (n : Int) ∧
      C11.scanArgVals (render s L) n = .ok ((render s L).length, cs) ∧ cs.length = n :=
  ⟨(pCells s).length, pCells s, (reads_proved s L h).count, (reads_proved s L h).scan, rfl⟩

/-- **scan_denotes** (proved part): the scanned values of a `Proved` sentence are the values its
    spelling denotes. -/
theorem scan_denotes_partial (s : Sentence) (L : Layout) (cs : List Cell) (h : Proved s L)
    (hc : cells s = some cs) : Reads (render s L) cs := by
  have := cells_proved L s h.2
  rw [this] at hc
  cases hc
  exact reads_proved s L h

/-- **whitespace_comment_invariance** (proved part): two layouts of one `Proved` sentence are both
    accepted and scan to the same values. -/
theorem whitespace_comment_invariance_partial (s : Sentence) (L₁ L₂ : Layout)
    (h₁ : Proved s L₁) (h₂ : Proved s L₂) :
    ∃ cs, Reads (render s L₁) cs ∧ Reads (render s L₂) cs :=
  ⟨pCells s, reads_proved s L₁ h₁, reads_proved s L₂ h₂⟩

theorem reads_unique {text : Bytes} {a b : List Cell} (ha : Reads text a) (hb : Reads text b) : a = b := by
  have h1 := ha.count
  rw [hb.count] at h1
  have hl : b.length = a.length := by
    have := Except.ok.inj h1
    omega
  have h2 := ha.scan
  rw [← hl, hb.scan] at h2
  exact (Prod.mk.inj (Except.ok.inj h2)).2.symm

/-- the same in the form of the full statement -/
theorem whitespace_comment_invariance_partial' (s : Sentence) (L₁ L₂ : Layout) (cs₁ cs₂ : List Cell)
    (h₁ : Proved s L₁) (h₂ : Proved s L₂) (r₁ : Reads (render s L₁) cs₁) (r₂ : Reads (render s L₂) cs₂) :
    cs₁ = cs₂ := by
  rw [reads_unique r₁ (reads_proved s L₁ h₁), reads_unique r₂ (reads_proved s L₂ h₂)]

theorem plain_cells (L : Layout) : ∀ (s : Sentence) (i : Nat), plainFrom L i s →
    ∀ c ∈ valCells s, c.isScalar = true ∧ PrintsVal defaultOpt c := by
  intro s
  induction s with
  | nil => intro i _ c hc; simp [valCells] at hc
  | cons x r ih =>
    intro i h c hc
    obtain ⟨⟨t, rfl, hwf, hp⟩, hr⟩ := h
    simp only [valCells, List.mem_cons] at hc
    rcases hc with rfl | hc
    · exact ⟨(valOK_tok _ t hwf hp).scalar, printsVal_tok defaultOpt _ t hwf hp⟩
    · exact ih (i + 1) hr c hc

/-- **print_scan_fixpoint** (proved part): for a `Plain` sentence whose values the printer does
    not compress into ranges (no five values of one type in a row), printing the scanned values
    with the default options gives a text that is accepted and scans to exactly the same values:
    `scan (print (scan s)) = scan s`. -/
theorem print_scan_fixpoint_partial (s : Sentence) (L : Layout) (cs : List Cell) (h : Plain s L)
    (hr : Reads (render s L) cs) (hrun : NoLongRun cs) :
    ∃ (st : PSt) (ret : Nat),
      C11.printArgVals defaultOpt cs ⟨[], 0⟩ = .ok (st, ret) ∧ ret = st.out.length ∧ Reads st.out cs := by
  have hcs : cs = valCells s := reads_unique hr (reads_plain s L h)
  subst hcs
  have hP := plain_cells L s 0 h.2
  obtain ⟨st, ret, hprint, hret, hlay⟩ := printArgVals_lay defaultOpt (valCells s) hP
    (noConversion defaultOpt (valCells s) (fun c hc => (hP c hc).1) (Or.inr hrun))
  refine ⟨st, ret, ?_, hret, ?_⟩
  · simp [C11.printArgVals, hprint]
  · rcases hlay with ⟨h1, h2⟩ | ⟨tcs, hl, hc⟩
    · rw [h1, h2]
      exact ⟨by simpa [gapsBytes] using countPrintedArgVals_empty [] [] (Or.inl rfl),
        by simpa [gapsBytes] using scanArgVals_empty [] [] (Or.inl rfl)⟩
    · rw [← hc]
      exact ⟨by simpa [gapsBytes] using countPrintedArgVals_lay [] hl,
        by simpa [gapsBytes] using scanArgVals_lay [] hl⟩

/-! ### integer ranges (first step beyond `Proved`) -/

/-- a sentence that starts with a range `b ... c` of two different 'i' integers in decimal spelling
    (nothing stands to its left: the step is `sgn(c - b)`), with at least one white-space character
    in front of the dots, followed by any `Proved` values, is read as the range header, the step,
    the start and the cells of the other values — under every layout in which no comment follows
    a value directly -/
theorem reads_range_first (x z : Int) (hx1 : -2147483648 ≤ x) (hx2 : x ≤ 2147483647)
    (hz1 : -2147483648 ≤ z) (hz2 : z ≤ 2147483647) (hxz : x ≠ z) (hwid : (z - x).natAbs ≤ 2147483646)
    (s' : Sentence) (L : Layout) (hL : L.spaced) (hb : L.blank [0, 1] ≠ []) (hp : provedFrom L 1 s') :
    Reads (render (rangeFirst x z s') L) (rangeCells x z ++ pCells s') := by
  have hw1 : blankBytes (L.blank [0, 1]) ≠ [] := by
    cases h : L.blank [0, 1] with
    | nil => exact absurd h hb
    | cons a b => simp [blankBytes]
  have htail := tail_trail L.trail L.last hL.2
  rw [render_rangeFirst]
  cases s' with
  | nil =>
    have := range_first_lay x z hx1 hx2 hz1 hz2 hxz hwid L.lead _ _ (allWs_blank (L.blank [0, 1])) hw1
      (allWs_blank (L.blank [0, 2])) (Follow.tail _ htail)
    simp only [allCells, List.map_nil, List.flatten_nil, List.append_nil] at this
    simpa [pCells, pcellsList] using (⟨this.1, this.2⟩ : Reads _ _)
  | cons y r =>
    obtain ⟨e, hs⟩ := sepBytes_fix (L.sep 0) (hL.1 0)
    have hlay := argsLay_proved L hL.1 _ htail (y :: r) 1 (by simp) hp
    have := range_first_lay x z hx1 hx2 hz1 hz2 hxz hwid L.lead _ _ (allWs_blank (L.blank [0, 1])) hw1
      (allWs_blank (L.blank [0, 2])) (Follow.more _ _ _ hs hlay)
    rw [allCells_pArgs, ← e] at this
    exact ⟨this.1, this.2⟩

/-- **checker_scanner_agree / scan_denotes for a leading integer range** (partial): the sentence
    `b ... c v₁ v₂ …` (b ≠ c decimal 'i' integers with `|c - b| + 1 < 2³¹` values, `vᵢ` `Proved`)
    denotes `|c - b| + 1` values from `b` in steps of ±1, and the checker counts and the scanner writes
    exactly the cells of that denotation, consuming the whole text.  (Ranges with a left neighbour:
    `checker_scanner_agree_ranges_partial` below, also behind and inside arrays; ranges of other types
    or spellings and open-ended arrays are NOT proved: correspondence and oracle only.) -/
theorem range_first_partial (x z : Int) (hx1 : -2147483648 ≤ x) (hx2 : x ≤ 2147483647)
    (hz1 : -2147483648 ≤ z) (hz2 : z ≤ 2147483647) (hxz : x ≠ z) (hwid : (z - x).natAbs ≤ 2147483646)
    (s' : Sentence) (L : Layout) (hL : L.spaced) (hb : L.blank [0, 1] ≠ []) (hp : provedFrom L 1 s') :
    ∃ cs, cells (rangeFirst x z s') = some cs ∧ Reads (render (rangeFirst x z s') L) cs ∧
      cs.take 3 = [Cell.rep (((z - x).natAbs : Int) + 1) 1, Cell.int .i (if x < z then 1 else -1), Cell.int .i x] :=
  ⟨_, cells_range_first x z hxz hwid s' L hp, reads_range_first x z hx1 hx2 hz1 hz2 hxz hwid s' L hL hb hp,
    by simp [rangeCells]⟩

/-! ### known finding C11-K1 -/

theorem tok_no_trigger (bl : List Nat → Blank) (t : Tok) (hp : t.proved bl = true) : t.octalPlain = false := by
  cases t with
  | int v base sfx => cases base <;> cases sfx <;> first | rfl | (simp [Tok.proved] at hp)
  | _ => rfl

mutual
theorem proved_noK1 : ∀ (bl : List Nat → Blank) (x : SVal), x.proved bl → x.hasOctalPlain = false
  | bl, .val t, h => by
    rw [proved_unfold_val] at h
    simpa [SVal.hasOctalPlain] using tok_no_trigger _ t h.2
  | bl, .rep n x, h => by
    rw [proved_unfold_rep] at h
    simpa [SVal.hasOctalPlain] using proved_noK1 _ x h.2.2.2
  | bl, .range _ _, h => by simp [SVal.proved] at h
  | bl, .arr es opn, h => by
    simp only [SVal.proved] at h
    simpa [SVal.hasOctalPlain] using provedElems_noK1 bl 1 es h.2.2
theorem provedElems_noK1 : ∀ (bl : List Nat → Blank) (k : Nat) (es : List SVal), provedElems bl k es →
    hasOctalPlainList es = false
  | bl, k, [], _ => rfl
  | bl, k, x :: r, h => by
    simp only [provedElems] at h
    simp [hasOctalPlainList, proved_noK1 _ x h.1, provedElems_noK1 bl (k + 1) r h.2]
end

theorem proved_no_trigger (L : Layout) : ∀ (s : Sentence) (i : Nat), provedFrom L i s → hasOctalPlainList s = false := by
  intro s
  induction s with
  | nil => intro i _; rfl
  | cons x r ih =>
    intro i h
    obtain ⟨hx, hr⟩ := h
    simp [hasOctalPlainList, proved_noK1 _ x hx, ih (i + 1) hr]

/-- the proved part lies inside the statement with the trigger excluded -/
theorem proved_not_K1 (s : Sentence) (L : Layout) (h : Proved s L) : hasOctalPlain s = false :=
  proved_no_trigger L s 0 h.2

/-- a layout without any insertion -/
def L0 : Layout := { lead := [], sep := fun _ => [], trail := [], last := none, blank := fun _ => [] }

/-- `077` is a sentence that denotes the 'i' value 63 (C99 octal, like `077i` and `077h`) … -/
theorem k1_witness : Sentence.wf [SVal.val (.int 63 .oct false)] = true ∧
    cells [SVal.val (.int 63 .oct false)] = some [Cell.int .i 63] ∧
    render [SVal.val (.int 63 .oct false)] L0 = [48, 55, 55] ∧
    hasOctalPlain [SVal.val (.int 63 .oct false)] = true := by
  decide +kernel

/-- … and the scanner reads it as 77 -/
theorem k1_scan : C11.scanArgVals [48, 55, 55] 1 = .ok (3, [Cell.int .i 77]) := by decide +kernel

/-- **scan_denotes_counterexample** (known finding C11-K1): the full statement does not hold for
    the code as it is. -/
theorem scan_denotes_counterexample : ¬ scan_denotes_statement := by
  intro h
  obtain ⟨hwf, hc, hr, _⟩ := k1_witness
  have := (h _ L0 _ hwf hc).scan
  rw [hr] at this
  have e := k1_scan
  simp only [List.length_cons, List.length_nil] at this
  rw [e] at this
  exact absurd this (by decide)

/-- `-071 -58 ... -076`: the manual reads -57, then -58 … -62 in steps of -58 - -57 = -1 -/
def exK1Range : Sentence :=
  [.val (.int (-57) .oct false), .range (.int (-58) .dec false) (.int (-62) .oct false)]

/-- **checker_scanner_agree_counterexample** (known finding C11-K1): the full statement does not
    hold for the code as it is: with `-071` read as -71 the step is 13, -076 = -76 is not reached
    from -58 and the checker rejects the text as a whole. -/
theorem checker_scanner_agree_counterexample : ¬ checker_scanner_agree_statement := by
  intro h
  have hw : Sentence.wf exK1Range = true ∧ (cells exK1Range).isSome = true ∧ hasOctalPlain exK1Range = true ∧
      (∃ k : Int, k < 0 ∧ C11.countPrintedArgVals (render exK1Range L0) = .ok k) := by
    refine ⟨by decide +kernel, by decide +kernel, by decide +kernel, ?_⟩
    exact ⟨_, by decide, (by decide +kernel : C11.countPrintedArgVals (render exK1Range L0) = .ok (-2))⟩
  obtain ⟨hwf, hc, _, k, hk, hcount⟩ := hw
  obtain ⟨n, cs, h1, _, _⟩ := h _ L0 hwf hc
  rw [hcount] at h1
  have := Except.ok.inj h1
  omega

/-! ### former finding C11-K2: a comment directly behind a numeric literal (fix C11-08) -/

/-- the layout of `42%c`: a comment without line break directly behind the last value -/
def L2 : Layout := { L0 with last := some [99] }

/-- `42%c` is a sentence under a layout that puts a comment directly behind the value … -/
theorem num_comment_witness : Sentence.wf [SVal.val (.int 42 .dec false)] = true ∧
    cells [SVal.val (.int 42 .dec false)] = some [Cell.int .i 42] ∧
    render [SVal.val (.int 42 .dec false)] L2 = [52, 50, 37, 99] ∧
    hasNumPercent [SVal.val (.int 42 .dec false)] L2 = true ∧
    hasOctalPlain [SVal.val (.int 42 .dec false)] = false := by
  decide +kernel

/-- … and it is read as the value 42 (it was rejected before fix C11-08: `scanf_fmtstr` did not end
    the numeric word at '%'), like `true%c` is read as `true` -/
theorem num_comment_reads : Reads [52, 50, 37, 99] [Cell.int .i 42] ∧
    Reads [116, 114, 117, 101, 37, 99] [Cell.flag .T] :=
  ⟨⟨by decide +kernel, by decide +kernel⟩, ⟨by decide +kernel, by decide +kernel⟩⟩

/-! ### non-vacuity -/

/-- a messy layout: comments and line breaks in front, between and behind the values -/
def exLayout : Layout :=
  { lead := [.ws .nl, .comment (lit "1 2 ... ["), .ws .tab]
    sep := fun i => if i % 2 = 0 then [.ws .sp, .comment (lit "\"quoted\" 'c'"), .comment [], .ws .cr]
                    else [.ws .tab, .comment (lit "3x5")]
    trail := [.ws .vt]
    last := some (lit "the end")
    blank := fun p => if p = [4, 0] ∨ p = [8, 0] then [.sp] else if p.getD 0 0 = 8 ∧ 3 ≤ p.getD 1 0 then [.nl, .tab] else [] }

/-- no insertion at all (the blank behind `MIDI` / `BLOB` is part of the proved spelling) -/
def exLayout0 : Layout :=
  { L0 with blank := fun p => if p = [4, 0] ∨ p = [8, 0] then [.sp] else [] }

theorem exLayout_spaced : exLayout.spaced := by
  refine ⟨fun i => ?_, Or.inr rfl⟩
  by_cases h : i % 2 = 0 <;> simp [exLayout, h, startsWs]

theorem exLayout0_spaced : exLayout0.spaced := ⟨fun _ => Or.inl rfl, Or.inl ⟨rfl, rfl⟩⟩

/-- one value of every proved construct -/
def exSentence : Sentence :=
  [.val (.int (-42) .dec false), .val (.huge 5000000000 .dec), .val (.chr 10 true), .val (.chr 65 false),
   .val (.midi 1 2 254 255 true), .val (.str false [[.raw 104, .raw 105, .esc 10], [], [.esc 34]]), .val (.str true [[]]),
   .val (.ident (lit "An_Identifier_12345")), .val (.blob [114, 116]), .val (.kw .now), .val (.int 123 .dec true),
   .val (.color 0x8badf00d false)]

theorem exPlain : Plain exSentence exLayout := by
  refine ⟨exLayout_spaced, ?_⟩
  unfold exSentence
  simp only [plainFrom, and_true]
  refine ⟨⟨_, rfl, ?_, ?_⟩, ⟨_, rfl, ?_, ?_⟩, ⟨_, rfl, ?_, ?_⟩, ⟨_, rfl, ?_, ?_⟩, ⟨_, rfl, ?_, ?_⟩, ⟨_, rfl, ?_, ?_⟩,
    ⟨_, rfl, ?_, ?_⟩, ⟨_, rfl, ?_, ?_⟩, ⟨_, rfl, ?_, ?_⟩, ⟨_, rfl, ?_, ?_⟩, ⟨_, rfl, ?_, ?_⟩, ⟨_, rfl, ?_, ?_⟩⟩ <;>
    decide +kernel

/-- the example with repetitions in front: `3x"bad luck" 1000x-7 …` -/
def exSentenceRep : Sentence :=
  .rep 3 (.arr [.val (.str false [[.raw 98, .raw 97, .raw 100]]), .val (.str false [[.raw 108, .raw 117, .raw 99, .raw 107]])] false) ::
  .arr [.arr [.val (.int 1 .dec false), .rep 1000 (.val (.int (-7) .dec true))] false, .arr [] false] false ::
  .rep 2147483647 (.val (.int (-42) .hex2c false)) :: exSentence.drop 5

def exLayoutRep : Layout := { L0 with blank := fun p => if p = [6, 0] then [.sp] else [] }

theorem exProved : Proved exSentenceRep exLayoutRep := by
  refine ⟨⟨fun _ => Or.inl rfl, Or.inl ⟨rfl, rfl⟩⟩, ?_⟩
  unfold exSentenceRep exSentence
  simp only [List.drop_succ_cons, List.drop_zero, provedFrom, SVal.proved, provedElems, SVal.repeatable, and_true,
    true_and]
  refine ⟨⟨by decide, by decide, by decide +kernel, ⟨by decide +kernel, by decide +kernel⟩, by decide +kernel,
      by decide +kernel⟩,
    ⟨by decide +kernel, ⟨by decide +kernel, ⟨by decide +kernel, by decide +kernel⟩, by decide, by decide,
      by decide +kernel, by decide +kernel⟩, by decide +kernel⟩,
    ⟨by decide, by decide, by decide +kernel, by decide +kernel⟩,
    ⟨by decide +kernel, by decide +kernel⟩, ⟨by decide +kernel, by decide +kernel⟩, ⟨by decide +kernel, by decide +kernel⟩,
    ⟨by decide +kernel, by decide +kernel⟩, ⟨by decide +kernel, by decide +kernel⟩, ⟨by decide +kernel, by decide +kernel⟩,
    ⟨by decide +kernel, by decide +kernel⟩⟩

example : String.ofList ((render exSentenceRep exLayoutRep).map (fun b => Char.ofNat b.toNat)) =
    "3x[\"bad\" \"luck\"] [[1 1000x-7i] []] 2147483647x0xffffffd6 \"hi\\n\"\\\"\"\\\"\\\"\" \"\"S An_Identifier_12345 BLOB [2 0x72 0x74] now 123i #8badf00d" := by
  decide +kernel

/-- the hypotheses of all `_partial` theorems hold for a non-trivial sentence -/
example : Plain exSentence exLayout ∧ Plain exSentence exLayout0 ∧ NoLongRun (valCells exSentence) ∧
    cells exSentence = some (valCells exSentence) ∧ (valCells exSentence).length = 12 := by
  refine ⟨exPlain, ?_, ?_, cells_plain _ _ exPlain.2, by decide +kernel⟩
  · refine ⟨exLayout0_spaced, ?_⟩
    unfold exSentence
    simp only [plainFrom, and_true]
    refine ⟨⟨_, rfl, ?_, ?_⟩, ⟨_, rfl, ?_, ?_⟩, ⟨_, rfl, ?_, ?_⟩, ⟨_, rfl, ?_, ?_⟩, ⟨_, rfl, ?_, ?_⟩, ⟨_, rfl, ?_, ?_⟩,
      ⟨_, rfl, ?_, ?_⟩, ⟨_, rfl, ?_, ?_⟩, ⟨_, rfl, ?_, ?_⟩, ⟨_, rfl, ?_, ?_⟩, ⟨_, rfl, ?_, ?_⟩, ⟨_, rfl, ?_, ?_⟩⟩ <;>
      decide +kernel
  · unfold NoLongRun
    decide +kernel

/-- the text of the example under the messy layout, and what the theorems say about it -/
example : Reads (render exSentence exLayout) (valCells exSentence) := reads_plain _ _ exPlain

example : String.ofList ((render exSentence exLayout0).map (fun b => Char.ofNat b.toNat)) =
    "-42 5000000000h '\\n' 'A' MIDI [0x01 0x02 0xfe 0xff] \"hi\\n\"\\\"\"\\\"\\\"\" \"\"S An_Identifier_12345 BLOB [2 0x72 0x74] now 123i #8badf00d" := by
  decide +kernel

/-- the messy layout with a blank and a line break in front of the dots of a leading range -/
def exLayoutRange : Layout := { exLayout with blank := fun p => if p = [0, 1] then [.sp, .nl] else [] }

/-- non-vacuity: `10 ... 2 "s" [1 2]` under the messy layout with a blank in front of the dots -/
example : ∃ cs, cells (rangeFirst 10 2 [.val (.str false [[.raw 115]]), .arr [.val (.int 1 .dec false), .val (.int 2 .dec false)] false]) = some cs ∧
    Reads (render (rangeFirst 10 2 [.val (.str false [[.raw 115]]), .arr [.val (.int 1 .dec false), .val (.int 2 .dec false)] false])
      exLayoutRange) cs ∧
    cs.take 3 = [Cell.rep 9 1, Cell.int .i (-1), Cell.int .i 10] := by
  have := range_first_partial 10 2 (by decide) (by decide) (by decide) (by decide) (by decide) (by decide)
    [.val (.str false [[.raw 115]]), .arr [.val (.int 1 .dec false), .val (.int 2 .dec false)] false]
    exLayoutRange
    ⟨exLayout_spaced.1, exLayout_spaced.2⟩ (by decide)
    (by
      simp only [provedFrom, SVal.proved, provedElems, and_true, true_and]
      refine ⟨⟨by decide +kernel, by decide +kernel⟩, by decide +kernel, ⟨by decide +kernel, by decide +kernel⟩,
        by decide +kernel, by decide +kernel⟩)
  simpa using this

/-! ### ranges anywhere at top level -/

/-- the sentences for which the first three clauses are proved in addition to `Proved`: every value
    has proved agreement in the wider sense (`SVal.rproved`: scalars in proved spellings, `nxA`, and
    arrays without open end whose ELEMENTS are again such values or ranges) or is a range
    `b ... c` of two 'i' integers in plain decimal spelling with at least one white-space character in
    front of the dots, that stands first in the sentence (in its array) or behind a scalar value, a
    repetition `nx<scalar>`, another such range, an array or a repeated array `nx[…]`
    (`rangedFromA` / `rangedElemsG`), and satisfies `RangeOK`: the step — `b - a`
    if the value `a` to the left is an 'i' integer different from `b` (for a range to the left: its
    right end), else ±1 (also behind an array: its last element is not the left neighbour, fix
    C11-04) — is an `int32_t` that reaches `c` from `b` in 1 … 2³¹-2 steps, and the width
    `c - b` is an `int32_t` -/
def Ranged (s : Sentence) (L : Layout) : Prop := L.spaced ∧ rangedFromA L 0 (some none) s

/-- every `Proved` sentence is `Ranged` -/
theorem Proved.ranged {s : Sentence} {L : Layout} (h : Proved s L) : Ranged s L :=
  ⟨h.1, rangedFromA_of_proved L s 0 _ h.2⟩

/-- a `Ranged` sentence is read as its cells, under every layout in which no comment follows a
    value directly -/
theorem reads_ranged (s : Sentence) (L : Layout) (h : Ranged s L) : Reads (render s L) (rcellsE (some none) s) := by
  by_cases hs : s = []
  · subst hs
    have := reads_proved [] L ⟨h.1, trivial⟩
    simpa [rcellsE, pCells, pcellsList] using this
  · have hlay := layR_rangedA L h.1.1 (trailBytes L.trail L.last) (tail_trail L.trail L.last h.1.2) s 0 .first (some none) hs
      ⟨by simp, rfl⟩ h.2
    have hcells := allCells_rArgsA L s 0 (some none)
    have hr : render s L = gapsBytes L.lead ++ (valuesText L 0 s ++ trailBytes L.trail L.last) := by
      simp [render]
    rw [hr]
    refine ⟨?_, ?_⟩
    · have := countPrintedArgVals_layR L.lead hlay
      rwa [hcells] at this
    · have := scanArgVals_layR L.lead hlay
      rwa [hcells] at this

/-- **checker_scanner_agree** (ranges with a left neighbour, proved part): for every `Ranged`
    sentence of any length — `a b ... c` with the step taken from `a` and `b`, ranges behind
    ranges, behind values of other types, behind `nx<scalar>`, behind arrays and `nx[array]`, at top
    level and inside arrays of any nesting depth, anywhere among values with proved
    agreement — the checker counts exactly the cells the scanner writes and the scanner consumes the
    whole text. -/
theorem checker_scanner_agree_ranges_partial (s : Sentence) (L : Layout) (h : Ranged s L) :
    ∃ (n : Nat) (cs : List Cell),
      C11.countPrintedArgVals (render s L) = .ok (n : Int) ∧
      C11.scanArgVals (render s L) n = .ok ((render s L).length, cs) ∧ cs.length = n :=
  ⟨_, _, (reads_ranged s L h).count, (reads_ranged s L h).scan, rfl⟩

/-- **scan_denotes** (ranges with a left neighbour, proved part): the scanned values of a `Ranged`
    sentence are the values its spelling denotes: for `a b ... c` the range header with the count
    `(c - b) / (b - a) + 1`, the step `b - a` and the start `b`. -/
theorem scan_denotes_ranges_partial (s : Sentence) (L : Layout) (cs : List Cell) (h : Ranged s L)
    (hc : cells s = some cs) : Reads (render s L) cs := by
  rw [cells_rangedA L s h.2] at hc
  cases hc
  exact reads_ranged s L h

/-- **whitespace_comment_invariance** (ranges with a left neighbour, proved part): two layouts of
    one `Ranged` sentence are both accepted and scan to the same values. -/
theorem whitespace_comment_invariance_ranges_partial (s : Sentence) (L₁ L₂ : Layout)
    (h₁ : Ranged s L₁) (h₂ : Ranged s L₂) :
    ∃ cs, Reads (render s L₁) cs ∧ Reads (render s L₂) cs :=
  ⟨_, reads_ranged s L₁ h₁, reads_ranged s L₂ h₂⟩

/-- `10 8 ... 2 "s" 7 ... 9 12 ... 18 2x5 6 ... 9 [1 2] 'c' 1 ... 2`: a step from the left neighbour
    (-2), a string to the left (+1), a range to the left (its end 9 gives the step 3), a repeated
    value to the left (5: step 6 - 5 = 1), a character to the left -/
def exRanged : Sentence :=
  [.val (.int 10 .dec false), .range (.int 8 .dec false) (.int 2 .dec false),
   .val (.str false [[.raw 115]]), .range (.int 7 .dec false) (.int 9 .dec false),
   .range (.int 12 .dec false) (.int 18 .dec false),
   .rep 2 (.val (.int 5 .dec false)), .range (.int 6 .dec false) (.int 9 .dec false),
   .arr [.val (.int 1 .dec false), .val (.int 2 .dec false)] false,
   .val (.chr 99 false), .range (.int 1 .dec false) (.int 2 .dec false)]

/-- the messy layout with a blank (and a line break) in front of the dots of every range -/
def exLayoutRanged : Layout :=
  { exLayout with blank := fun p => if p.getD 1 0 = 1 ∧ p.length = 2 then [.sp, .nl] else [] }

/-- `RangeOK` as a Boolean (for concrete instances) -/
def rangeOKb (nb : Option Int) (x z : Int) : Bool :=
  decide (-2147483648 ≤ x) && decide (x ≤ 2147483647) && decide (-2147483648 ≤ z) && decide (z ≤ 2147483647) &&
  decide (-2147483648 ≤ rangeStepI nb x z) && decide (rangeStepI nb x z ≤ 2147483647) &&
  decide ((z - x) % rangeStepI nb x z = 0) && decide (1 ≤ (z - x) / rangeStepI nb x z) &&
  decide ((z - x) / rangeStepI nb x z < 2147483647) && decide (-2147483647 ≤ z - x) && decide (z - x ≤ 2147483647)

theorem rangeOK_of_b (nb : Option Int) (x z : Int) (h : rangeOKb nb x z = true) : RangeOK nb x z := by
  simp only [rangeOKb, Bool.and_eq_true, decide_eq_true_eq] at h
  obtain ⟨⟨⟨⟨⟨⟨⟨⟨⟨⟨a, b⟩, c⟩, d⟩, e⟩, f⟩, g⟩, i⟩, j⟩, k⟩, l⟩ := h
  exact ⟨a, b, c, d, e, f, g, i, j, k, l⟩

theorem exRanged_ranged : Ranged exRanged exLayoutRanged := by
  refine ⟨⟨exLayout_spaced.1, exLayout_spaced.2⟩, ?_⟩
  unfold exRanged
  simp only [rangedFromA, rangedElemsG, SVal.iRange, SVal.next, SVal.offer, SVal.rproved, SVal.repeatable, Tok.cell, nbInt,
    and_true, true_and]
  repeat' apply And.intro
  all_goals first | exact ⟨_, rfl, rangeOK_of_b _ _ _ (by decide +kernel)⟩ | decide +kernel

example : String.ofList ((render exRanged { L0 with blank := exLayoutRanged.blank }).map (fun b => Char.ofNat b.toNat)) =
    "10 8 \n...2 \"s\" 7 \n...9 12 \n...18 2x5 6 \n...9 [1 2] 'c' 1 \n...2" := by decide +kernel

/-- non-vacuity: the example is `Ranged`, its cells are what the specification says, and they are read -/
example : cells exRanged = some
    [.int .i 10, .rep 4 1, .int .i (-2), .int .i 8, .str .s (some [115]), .rep 3 1, .int .i 1, .int .i 7,
     .rep 3 1, .int .i 3, .int .i 12, .rep 2 0, .int .i 5, .rep 4 1, .int .i 1, .int .i 6,
     .arr 105 2, .int .i 1, .int .i 2, .int .c 99, .rep 2 1, .int .i 1, .int .i 1] ∧
    ∃ cs, cells exRanged = some cs ∧ Reads (render exRanged exLayoutRanged) cs := by
  refine ⟨by decide +kernel, _, cells_rangedA _ _ exRanged_ranged.2, reads_ranged _ _ exRanged_ranged⟩

/-- `[1 2] 5 ...9 3x[7] 2 ...0 [1 3 ...7 8 ...10 2x5 6 ...7] [[1 ...3] [2 4 ...8]] 1 ...2`: ranges directly
    behind an array and behind a repeated array (the last element inside is NOT the left neighbour: steps +1
    and -1), ranges inside an array (behind a scalar: step 3 - 1 = 2; behind a range: its end 7 gives the
    step 1; behind `2x5`: step 1), ranges as the first element of nested arrays, a range behind an array
    of arrays -/
def exRangedArr : Sentence :=
  [.arr [.val (.int 1 .dec false), .val (.int 2 .dec false)] false, .range (.int 5 .dec false) (.int 9 .dec false),
   .rep 3 (.arr [.val (.int 7 .dec false)] false), .range (.int 2 .dec false) (.int 0 .dec false),
   .arr [.val (.int 1 .dec false), .range (.int 3 .dec false) (.int 7 .dec false),
         .range (.int 8 .dec false) (.int 10 .dec false), .rep 2 (.val (.int 5 .dec false)),
         .range (.int 6 .dec false) (.int 7 .dec false)] false,
   .arr [.arr [.range (.int 1 .dec false) (.int 3 .dec false)] false,
         .arr [.val (.int 2 .dec false), .range (.int 4 .dec false) (.int 8 .dec false)] false] false,
   .range (.int 1 .dec false) (.int 2 .dec false)]

/-- the messy layout with a blank in front of the dots of every range, at every depth -/
def exLayoutArr : Layout :=
  { exLayout with blank := fun p => if p.getLast? = some 1 ∧ 2 ≤ p.length then [.sp] else [] }

theorem exRangedArr_ranged : Ranged exRangedArr exLayoutArr := by
  refine ⟨⟨exLayout_spaced.1, exLayout_spaced.2⟩, ?_⟩
  unfold exRangedArr
  simp only [rangedFromA, rangedElemsG, SVal.iRange, SVal.next, SVal.offer, SVal.rproved, SVal.repeatable, Tok.cell, nbInt,
    and_true, true_and]
  repeat' apply And.intro
  all_goals first | exact ⟨_, rfl, rangeOK_of_b _ _ _ (by decide +kernel)⟩ | decide +kernel

example : String.ofList ((render exRangedArr { L0 with blank := exLayoutArr.blank }).map (fun b => Char.ofNat b.toNat)) =
    "[1 2] 5 ...9 3x[7] 2 ...0 [1 3 ...7 8 ...10 2x5 6 ...7] [[1 ...3] [2 4 ...8]] 1 ...2" := by decide +kernel

/-- non-vacuity for ranges behind and inside arrays: the example is `Ranged`, its cells are what the
    specification says, and they are read under the messy layout -/
example : cells exRangedArr = some
    [.arr 105 2, .int .i 1, .int .i 2, .rep 5 1, .int .i 1, .int .i 5, .rep 3 0, .arr 105 1, .int .i 7,
     .rep 3 1, .int .i (-1), .int .i 2,
     .arr 105 12, .int .i 1, .rep 3 1, .int .i 2, .int .i 3, .rep 3 1, .int .i 1, .int .i 8, .rep 2 0, .int .i 5,
     .rep 2 1, .int .i 1, .int .i 6,
     .arr 97 9, .arr 105 3, .rep 3 1, .int .i 1, .int .i 1, .arr 105 4, .int .i 2, .rep 3 1, .int .i 2, .int .i 4,
     .rep 2 1, .int .i 1, .int .i 1] ∧
    ∃ cs, cells exRangedArr = some cs ∧ Reads (render exRangedArr exLayoutArr) cs := by
  refine ⟨by decide +kernel, _, cells_rangedA _ _ exRangedArr_ranged.2, reads_ranged _ _ exRangedArr_ranged⟩

/-! ### two findings on the way (hypotheses the `Ranged` class needs)

  * `RangeOK.hw1/hw2`: the width `c - b` must be an `int32_t`.  The specification (`stepsOf`) only
    bounds the number of steps; `a b ... c` with `|c - b| > 2³¹-1` (possible when `b - a` is large)
    denotes a range in the manual's reading, while `delta_from_arg_vals` computes `c - b` in `int`
    (signed overflow in C, wrapped in the model) and the checker rejects the text.
  * (repaired) the MODEL of the checker used to re-skip the previous argument with the recursion bound of the
    CURRENT position (`fuel = |rest of the text| + 2`), so a left neighbour nested deeper than the rest of the
    text is long ran out of fuel although the C code has no such bound.  `C11.countLoop` now hands
    `lookBackFuel src recent` (the length of the text from the previous argument on) to
    `rtosc_skip_next_printed_arg`; `deep_neighbour_reads` evaluates the former witness. -/

def nest : Nat → SVal → SVal
  | 0, v => v
  | k + 1, v => .arr [nest k v] false

/-- `[[[[[[[[1]]]]]]]] 2...5` -/
def exDeep : Sentence := [nest 8 (.val (.int 1 .dec false)), .range (.int 2 .dec false) (.int 5 .dec false)]

/-- `-2100000000 -1500000000...900000000` -/
def exWide : Sentence := [.val (.int (-2100000000) .dec false), .range (.int (-1500000000) .dec false) (.int 900000000 .dec false)]

/-- the full statement fails for a range whose width is not an `int32_t`: the specification denotes
    five values, the checker rejects the text -/
theorem wide_range_counterexample : Sentence.wf exWide = true ∧
    cells exWide = some [.int .i (-2100000000), .rep 5 1, .int .i 600000000, .int .i (-1500000000)] ∧
    hasOctalPlain exWide = false ∧
    C11.countPrintedArgVals (render exWide L0) = .ok (-2) := by
  decide +kernel
/-! ### instances of the full statement outside the proved class (evaluated, not general) -/

/-- the decidable form of "the sentence denotes cells and its text is read as them" -/
def agrees (s : Sentence) (L : Layout) : Bool :=
  match cells s with
  | some cs =>
    decide (C11.countPrintedArgVals (render s L) = .ok (cs.length : Int)) &&
    decide (C11.scanArgVals (render s L) cs.length = .ok ((render s L).length, cs))
  | none => false

theorem agrees_reads (s : Sentence) (L : Layout) (h : agrees s L = true) :
    ∃ cs, cells s = some cs ∧ Reads (render s L) cs := by
  unfold agrees at h
  cases hc : cells s with
  | none => rw [hc] at h; cases h
  | some cs =>
    rw [hc] at h
    simp only [Bool.and_eq_true, decide_eq_true_eq] at h
    exact ⟨cs, rfl, h.1, h.2⟩

/-- the former model artefact (recursion bound of the checker's look-back at the left neighbour): with the
    bound taken from the previous argument on, the deeply nested left neighbour is skipped like the C code does
    and the text is read as its denotation (8 array headers, the 1, the three cells of the range) -/
theorem deep_neighbour_reads : Sentence.wf exDeep = true ∧ agrees exDeep L0 = true ∧
    C11.countPrintedArgVals (render exDeep L0) = .ok 12 := by
  decide +kernel

/-- `10 8...2 3x["b" "c"] [1 2...] [1...5] [] [1 1...] 4xnil`: integer ranges with and without a
    left neighbour, open-ended arrays with and without a step -/
def exRanges : Sentence :=
  [.val (.int 10 .dec false), .range (.int 8 .dec false) (.int 2 .dec false),
   .rep 3 (.arr [.val (.str false [[.raw 98]]), .val (.str false [[.raw 99]])] false),
   .arr [.val (.int 1 .dec false), .val (.int 2 .dec false)] true, .arr [.range (.int 1 .dec false) (.int 5 .dec false)] false,
   .arr [] false, .arr [.val (.int 1 .dec false), .val (.int 1 .dec false)] true, .rep 4 (.val (.kw .nil))]

example : cells exRanges = some
    [.int .i 10, .rep 4 1, .int .i (-2), .int .i 8, .rep 3 0, .arr 115 2, .str .s (some [98]), .str .s (some [99]),
     .arr 105 4, .int .i 1, .rep 0 1, .int .i 1, .int .i 2, .arr 105 3, .rep 5 1, .int .i 1, .int .i 1, .arr 32 0,
     .arr 105 3, .int .i 1, .rep 0 0, .int .i 1, .rep 4 0, .flag .N] := by decide +kernel

example : agrees exRanges L0 = true ∧ agrees exRanges exLayout = true := by decide +kernel

/-- comments directly behind the values (no white space in front of '%'), also at the very end -/
def exLayoutTight : Layout :=
  { lead := [.comment (lit "lead")], sep := fun i => if i % 2 = 0 then [.comment (lit "c")] else [.comment [], .ws .sp, .comment (lit "x")]
    trail := [], last := some (lit "end"), blank := fun _ => [] }

/-- `true 'a' "s"\"t" "q"S abc #8badf00d [1 2] 2x"s" [1 2...] 0.5 (0x1p-1) MIDI […] BLOB […] nil`: every kind
    of value end that is not a numeric word -/
def exTight : Sentence :=
  [.val (.kw .true_), .val (.chr 97 false), .val (.str false [[.raw 115], [.raw 116]]), .val (.str true [[.raw 113]]),
   .val (.ident (lit "abc")), .val (.color 0x8badf00d false), .arr [.val (.int 1 .dec false), .val (.int 2 .dec false)] false,
   .rep 2 (.val (.str false [[.raw 115]])), .arr [.val (.int 1 .dec false), .val (.int 2 .dec false)] true,
   .val (.flt false false (.dec ⟨false, [0], some [5], none, false, false⟩) (some ⟨false, [1], none, -1⟩)),
   .val (.midi 1 2 3 4 true), .val (.blob [1]), .val (.kw .nil)]

example : hasNumPercent exTight exLayoutTight = false ∧ agrees exTight exLayoutTight = true := by decide +kernel

/-- `42 1.5 0x1p+3 2x7 1i 077h 0x2a -5d 1e3f 3...5`: every kind of value end that IS a numeric word
    (decimal / hexadecimal / suffixed integers, floats in point, exponent, hexadecimal and suffixed
    notation, a repetition and a range that end in one) -/
def exTightNum : Sentence :=
  [.val (.int 42 .dec false), .val (.flt false false (.dec ⟨false, [1], some [5], none, false, false⟩) none),
   .val (.flt false false (.hex ⟨false, [1], none, 3⟩) none), .rep 2 (.val (.int 7 .dec false)), .val (.int 1 .dec true),
   .val (.huge 63 .oct), .val (.int 42 .hex false), .val (.flt true true (.dec ⟨true, [5], none, none, false, false⟩) none),
   .val (.flt false true (.dec ⟨false, [1], none, some 3, false, false⟩) none),
   .range (.int 3 .dec false) (.int 5 .dec false)]

/-- with a comment directly behind every one of them (`42%c`, the former finding C11-K2, fix C11-08)
    the text is read as the denotation -/
theorem exTightNum_reads : Sentence.wf exTightNum = true ∧ hasNumPercent exTightNum exLayoutTight = true ∧
    agrees exTightNum exLayoutTight = true ∧ agrees exTightNum L0 = true := by decide +kernel

example : String.ofList ((render exTightNum exLayoutTight).map (fun b => Char.ofNat b.toNat)) =
    "%lead\n42%c\n1.5%\n %x\n0x1p+3%c\n2x7%\n %x\n1i%c\n077h%\n %x\n0x2a%c\n-5d%\n %x\n1e3f%c\n3...5%end" := by decide +kernel

example : String.ofList ((render [SVal.val (.kw .true_), .val (.kw .false_)] exLayoutTight).map (fun b => Char.ofNat b.toNat)) =
    "%lead\ntrue%c\nfalse%end" := by decide +kernel

/-- `0.0 0.3...1.1995 -10E+2d 0.000061 (0x0.1p-10) 0x2ah 052i`: a float range inside the tolerance
    (nearest step count, fix C11-05), exponent / exact / suffixed spellings -/
def exFloats : Sentence :=
  [.val (.flt false false (.dec ⟨false, [0], some [0], none, false, false⟩) none),
   .range (.flt false false (.dec ⟨false, [0], some [3], none, false, false⟩) none)
          (.flt false false (.dec ⟨false, [1], some [1, 9, 9, 5], none, false, false⟩) none),
   .val (.flt true true (.dec ⟨true, [1, 0], none, some 2, true, true⟩) none),
   .val (.flt false false (.dec ⟨false, [0], some [0, 0, 0, 0, 6, 1], none, false, false⟩) (some ⟨false, [0], some [1], -10⟩)),
   .val (.huge 42 .hex), .val (.int 42 .oct true)]

example : agrees exFloats L0 = true ∧ agrees exFloats exLayout = true := by decide +kernel

end Rtosc.Pretty.C11
