/-
  C19 — Automation output stays in range and MIDI-learn requests are served in order.
  Property theorems only; definitions of the specification are in RtoscModel/AutoSpec.lean,
  helper lemmas in Proofs/AutoLemmas.lean.  The model (RtoscModel/Auto.lean) mirrors
  src/cpp/automations.cpp with the four repairs fixes/C19-*.patch applied.

  Reading of the statement.
  * "any sequence of binding, clearing, gain/offset and slot-value operations": `Reachable`
    — every state reached from a fresh manager (any number of slots and sub-automations) by
    any finite history of `Op`s that are well-formed (`OpWF`: ports have min <= max, bound
    addresses have at most 127 characters, MIDI channel/controller numbers are not negative)
    and stay clear of the undefined behaviour of createBinding/setSlotSubPath (unchecked
    indices).
  * "the bound parameter": every automation of the model carries a ghost field `bound` (nothing
    reads it) holding the address and the port of the createBinding/setSlotSubPath call that
    filled it; `binding_is_recorded` says that this field is exactly that: set by a successful
    bind to the call's arguments, dropped by the clear operations, untouched by everything
    else.  The range/type theorem is then stated against `portType`/`portRange`/`MsgOKPort`
    (RtoscModel/AutoSpec.lean), which only look at the port.
  * float arithmetic: the bookkeeping theorems hold for every `Arith`; range and monotonicity
    hold for every `Arith` satisfying the order laws `Laws` (a hypothesis); the laws are
    proved for exact rational arithmetic (`exact_laws`) and for the IEEE-754 binary32/64
    round-to-nearest-even arithmetic of the executable model that the correspondence check
    compares bit for bit with the compiled code (`ieee_model_laws`; finite values, no
    overflow; libm's logf enters as a monotone table, expf as a monotone function).  The
    linear map is exact over `Rat`.
  * logarithmic-scale parameters: `PortWF` demands that the lower end of the range handed to
    `logf` be positive (`log_scale_needs_positive_bound` shows why; the compiled code emits
    NaN for such a port), and `Laws.logf_mono` is assumed for positive arguments only.  The
    default map is `expf(logf lo + x·(logf hi − logf lo))`: exactly, over `Rat` for every pair
    of functions standing for `logf`/`expf` (`default_gain_log`) and over the reals with
    `Real.log`/`Real.exp` (`default_gain_log_real`, value inside `[lo,hi]` itself); the float
    model's argument of `expf` is within `86·2⁻²⁴·(max|logf bound| + 2⁻¹²⁶)` of the exact one
    (`default_gain_log_float_deviation`).  The range of a log-scale port that declares `logmin`
    is `[logmin, max]` whatever `min` is (`log_bounds_stored`,
    `logmin_within_declared_range`, `logmin_below_min_counterexample`).
-/
import RtoscModel.Proofs.AutoLemmas
import RtoscModel.Proofs.AutoFloatLemmas
import RtoscModel.Proofs.AutoBind
import RtoscModel.Proofs.AutoExtLog
import RtoscModel.Proofs.AutoExtReal
import RtoscModel.Proofs.AutoExtNrpn
import RtoscModel.Proofs.AutoExtDev
namespace Rtosc.Auto
open Rtosc
variable {F : Type}

/-- **learn_queue_refines** ("slots that asked for MIDI learn are bound ... in the order in
    which they asked"): the per-slot numbers of the implementation always represent an
    abstract FIFO queue — pending slots hold exactly 1..k in request order, everything else
    holds -1 and `learn_queue_len = k` (`Refines`) — and every operation acts on that queue
    as the specification `absStep` says: a successful learn request appends, clearSlot
    removes the cleared slot only, a value for a controller no slot is bound to removes the
    head, nothing else touches it. -/
theorem learn_queue_refines (A : Arith F) :
    (∀ n p, Refines (Mgr.init A n p) []) ∧
    (∀ (m m' : Mgr F) (Q : List Nat) (op : Op F) (ms : List (Msg F)),
      Refines m Q → step A m op = some (m', ms) → Refines m' (absStep m op Q)) ∧
    (∀ n p (m : Mgr F), Reachable A n p m → ∃ Q, Refines m Q) :=
  ⟨refines_init A, refines_step A, fun n p m h => (inv_reachable A n p m h).queue⟩

/-- **unbound_controller_serves_head** ("bound, one per previously unbound controller, in
    the order in which they asked"): when the queue is `hd :: Q'` and a value arrives for a
    controller (CC or completed NRPN) that no slot is bound to, exactly slot `hd` gets that
    controller; every other binding of every slot is unchanged. -/
theorem unbound_controller_serves_head (A : Arith F) (m : Mgr F) (hd : Nat) (Q' : List Nat)
    (c t v : Int) (n : Bool) (id : Int)
    (h : Refines m (hd :: Q')) (hc : controllerOf m c t v = some (n, id))
    (hb : isBoundTo m n id = false) (i : Nat) (sl : Slot F) (hsl : m.slots[i]? = some sl) :
    ∃ sl', (handleMidi A m c t v).1.slots[i]? = some sl' ∧
      bindingOf n sl' = (if i = hd then id else bindingOf n sl) ∧
      bindingOf (!n) sl' = bindingOf (!n) sl := by
  have hk := serve_head_keys A m hd Q' c t v n id h hc hb
  have hi : (keys (handleMidi A m c t v).1)[i]? = some (decK1 (if hd = i then bindK n id (key sl) else key sl)) := by
    rw [hk]; simp [keys, hsl, List.getElem?_modify]
  simp only [keys, List.getElem?_map] at hi
  cases hs' : (handleMidi A m c t v).1.slots[i]? with
  | none => simp [hs'] at hi
  | some sl' =>
    simp only [hs', Option.map_some, Option.some.injEq] at hi
    refine ⟨sl', rfl, ?_, ?_⟩
    · rw [← selOf_key, hi, selOf_decK1]
      by_cases e : hd = i
      · subst e; cases n <;> simp [selOf, selCC, selNrpn, bindK]
      · have e' : ¬ i = hd := fun x => e x.symm
        simp only [e, e', ↓reduceIte]; exact selOf_key n sl
    · rw [← selOf_key, hi, selOf_decK1, ← selOf_key]
      by_cases e : hd = i
      · simp only [e, ↓reduceIte]; cases n <;> simp [selOf, selCC, selNrpn, bindK]
      · simp only [e, ↓reduceIte]

/-- **learn_order_preserved** ("regardless of unrelated slots being created or cleared in
    between"): two slots that are waiting before and after an operation keep their relative
    order — whatever the operation was and whichever slot it addressed. -/
theorem learn_order_preserved (A : Arith F) (n p : Nat) (m m' : Mgr F) (op : Op F) (ms : List (Msg F))
    (hr : Reachable A n p m) (hs : step A m op = some (m', ms))
    (i j : Nat) (si sj si' sj' : Slot F)
    (hi : m.slots[i]? = some si) (hj : m.slots[j]? = some sj)
    (hi' : m'.slots[i]? = some si') (hj' : m'.slots[j]? = some sj')
    (hw : 0 < si.learning) (hlt : si.learning < sj.learning)
    (hwi : 0 < si'.learning) (hwj : 0 < sj'.learning) : si'.learning < sj'.learning := by
  obtain ⟨Q, hq⟩ := (inv_reachable A n p m hr).queue
  have hq' := refines_step A m m' Q op ms hq hs
  have e1 := hq.num i (key si) (by simp [keys, hi])
  have e2 := hq.num j (key sj) (by simp [keys, hj])
  have e3 := hq'.num i (key si') (by simp [keys, hi'])
  have e4 := hq'.num j (key sj') (by simp [keys, hj'])
  simp only [key] at e1 e2 e3 e4
  rw [e3, e4]
  exact qpos_order Q _ hq.nodup (absStep_forms m op Q) i j (by omega) (by omega) (by omega) (by omega)

/-- **bound_cc_drives_its_slot** ("once bound a controller drives exactly its slot"): in a
    reachable state, a value for a controller (plain CC: `n = false`, completed NRPN:
    `n = true`) that slot `i` is bound to does what `setSlot(i, value)` does and nothing
    else: the emitted messages are those of slot `i`'s automations, only `current_state` of
    slot `i` (and the NRPN registers) change. -/
theorem bound_cc_drives_its_slot (A : Arith F) (ns p : Nat) (m : Mgr F) (hr : Reachable A ns p m)
    (c t v : Int) (hc0 : 0 ≤ c) (ht0 : 0 ≤ t) (n : Bool) (id : Int)
    (hc : controllerOf m c t v = some (n, id))
    (i : Nat) (sl : Slot F) (hsl : m.slots[i]? = some sl) (hb : bindingOf n sl = id) :
    handleMidi A m c t v =
      ({ regs m t v with slots := m.slots.set i { sl with current := midiValue A (regs m t v) n v } },
       slotMsgs A sl (midiValue A (regs m t v) n v)) := by
  have hinv := inv_reachable A ns p m hr
  have hu : Uniq (selOf n) (keys m) := by cases n; exact hinv.uniqCC; exact hinv.uniqNrpn
  have h0 := controllerOf_nonneg m c t v n id hc0 ht0 hc
  exact bound_drives A m c t v n id i sl hu (by omega) hc hsl hb

/-- **emit_in_range_right_type** ("every message an automation slot emits goes to the bound
    parameter's address with the bound parameter's type and a value inside that parameter's
    declared [min,max] (true/false for toggles)"): every message handed to `backend` by any
    operation in any reachable state is the message of a `used` automation of that state;
    that automation was bound — by the last createBinding/setSlotSubPath that filled it
    (`bound`, see `binding_is_recorded`) — to a well-formed usable port `port` under the
    address `path`, and the message satisfies the specification `MsgOKPort path port`: its
    address is `path`, its type is `portType port`, its value lies in `portRange port`
    (integers: `(int)roundf` of the bounds; log scale: the bounds pass through
    `expf ∘ logf`, which is libm's rounding and covered by the property's tolerance). -/
theorem emit_in_range_right_type (A : Arith F) (L : Laws A) (n p : Nat) (m m' : Mgr F) (op : Op F)
    (ms : List (Msg F)) (hr : Reachable A n p m) (hs : step A m op = some (m', ms)) :
    ∀ msg ∈ ms, ∃ sl ∈ m.slots, ∃ au ∈ sl.autos, ∃ (path : Bytes) (port : PortInfo F),
      au.used = true ∧ au.bound = some (path, port) ∧ PortWF A port ∧
      portUsable (some port) = some port ∧ MsgOKPort A path port msg := by
  intro msg hmsg
  obtain ⟨l, hl, au, hau, x, hx⟩ := step_msgs A m m' op ms hs msg hmsg
  simp only [autosOf, List.mem_map] at hl
  obtain ⟨sl, hsl, rfl⟩ := hl
  have hg := (inv_reachable A n p m hr).good sl hsl au hau
  obtain ⟨hu, hok⟩ := emit_ok L au x msg hg hx
  obtain ⟨path, port, hb, hw, hp, hm⟩ := msgOK_port A au msg (hg.1 hu).1 hok
  exact ⟨sl, hsl, au, hau, path, port, hu, hb, hw, hp, hm⟩

/-- **binding_is_recorded** (what "the bound parameter" of the statement refers to): the ghost
    table `boundsOf` — per slot and sub-automation the address and port of the call that bound
    it — starts empty and is changed by every operation exactly as the specification
    `absBind` says: a createBinding that finds a usable port fills the first free
    sub-automation of its slot with that address and port, setSlotSubPath fills the one it
    names, clearSlot/clearSlotSub empty what they name, and no other operation (gain, offset,
    slot values, MIDI, learning) changes what anything is bound to.  Moreover an automation
    is `used` (can emit) exactly when the table has an entry for it. -/
theorem binding_is_recorded (A : Arith F) :
    (∀ n p, boundsOf (Mgr.init A n p) = List.replicate n (List.replicate p none)) ∧
    (∀ n p (m m' : Mgr F) (op : Op F) (ms : List (Msg F)), Reachable A n p m →
      step A m op = some (m', ms) → boundsOf m' = absBind m.perSlot (boundsOf m) op) ∧
    (∀ n p (m : Mgr F), Reachable A n p m →
      ∀ sl ∈ m.slots, ∀ au ∈ sl.autos, (au.used = false ↔ au.bound = none)) :=
  ⟨boundsOf_init A,
   fun n p m m' op ms hr hs => binding_step A m m' op ms (inv_reachable A n p m hr).good hs,
   fun n p m hr sl hsl au hau => good_used_iff A au ((inv_reachable A n p m hr).good sl hsl au hau)⟩

/-- **emit_monotone** ("a value ... that never decreases when the slot value increases (for
    positive gain)"): for a used automation of a reachable state whose gain is not negative,
    a larger slot value never yields a smaller message (`MsgsLe`: same address and type,
    value not smaller, false <= true). -/
theorem emit_monotone (A : Arith F) (L : Laws A) (n p : Nat) (m : Mgr F) (hr : Reachable A n p m)
    (s j : Int) (sl : Slot F) (au : Automation F) (hsl : m.slots[s.toNat]? = some sl)
    (hau : sl.autos[j.toNat]? = some au) (hu : au.used = true)
    (hg : A.le A.zero au.gain = true) (x y : F) (hxy : A.le x y = true) :
    MsgsLe A (emit A au x) (emit A au y) ∧
    (m.slotOob s = false → m.subOob j = false →
      setSlotSub A m s j x = emit A au x ∧ setSlotSub A m s j y = emit A au y) := by
  have hgood := (inv_reachable A n p m hr).good sl (List.mem_of_getElem? hsl) au (List.mem_of_getElem? hau)
  refine ⟨emit_mono L au x y hgood hu hg hxy, ?_⟩
  intro h1 h2
  simp [setSlotSub, h1, h2, hsl, hau]

/-- **default_gain_linear** ("at the default gain and offset, maps slot values 0..1 linearly
    onto min..max"), exactly, over `Rat`: for a used linear-scale automation of a reachable
    state with gain 100 and offset 0 the emitted message is `linearMsg`: the value
    `min + x*(max-min)` (rounded half away from zero for integers, compared with 1/2 for
    toggles whose range is 0..1). -/
theorem default_gain_linear (n p : Nat) (m : Mgr Rat) (hr : Reachable exact n p m)
    (sl : Slot Rat) (hsl : sl ∈ m.slots) (au : Automation Rat) (hau : au ∈ sl.autos)
    (hu : au.used = true) (hg : au.gain = 100) (ho : au.offset = 0) (hl : au.logScale = false)
    (x : Rat) (hx0 : 0 ≤ x) (hx1 : x ≤ 1) : emit exact au x = [linearMsg au x] := by
  obtain ⟨hfp, hcp⟩ := ((inv_reachable exact n p m hr).good sl hsl au hau).1 hu
  obtain ⟨hty, hm⟩ := fromPort_facts exact_laws au hfp
  rw [hg, ho] at hcp
  exact emit_default_linear au x hu hty hl hcp (by simpa [exact] using hm) hx0 hx1

/-- **ieee_model_laws**: the arithmetic the driver runs (IEEE-754 rounding over `Rat`,
    RtoscModel/AutoFloat.lean) satisfies `Laws`, for every table of `logf` values; hence
    `emit_in_range_right_type` and `emit_monotone` hold of the very model that is compared
    bit for bit with the implementation. -/
theorem ieee_model_laws (tab : List (Rat × Rat)) : Laws (IEEE.ieee tab) := IEEE.ieee_laws tab


/-! ### logarithmic-scale parameters -/

/-- **default_gain_log** ("at the default gain and offset, maps slot values 0..1 ... onto
    min..max", for a port whose metadata say scale=logarithmic), exactly, over `Rat`, for EVERY
    pair of functions `lg`/`ex` standing for `logf`/`expf` with `lg` monotone on positive
    arguments: a used automation of a reachable state that is bound to the log-scale port `port`
    under `path` and has gain 100 and offset 0 emits, at a slot value `x` in [0,1], exactly
    `logMsg`: the value `ex (lg lo + x·(lg hi − lg lo))` (rounded half away from zero for an
    integer parameter), where `lo..hi` is the port's declared range (`portRange`: `logmin` if
    declared, else `min`, up to `max`), which is positive and ordered. -/
theorem default_gain_log (lg ex : Rat → Rat) (hmono : ∀ a b : Rat, 0 < a → a ≤ b → lg a ≤ lg b)
    (n p : Nat) (m : Mgr Rat) (hr : Reachable (exactLog lg ex) n p m)
    (sl : Slot Rat) (hsl : sl ∈ m.slots) (au : Automation Rat) (hau : au ∈ sl.autos)
    (hu : au.used = true) (hg : au.gain = 100) (ho : au.offset = 0)
    (path : Bytes) (port : PortInfo Rat) (hb : au.bound = some (path, port)) (hs : port.scaleLog = true)
    (x : Rat) (hx0 : 0 ≤ x) (hx1 : x ≤ 1) :
    ∃ lo hi : Rat, (portType port = 'i' ∨ portType port = 'f') ∧
      portRange (exactLog lg ex) port = some (lo, hi) ∧ 0 < lo ∧ lo ≤ hi ∧
      emit (exactLog lg ex) au x = [logMsg lg ex path (portType port) lo hi x] := by
  have hgood := (inv_reachable (exactLog lg ex) n p m hr).good sl hsl au hau
  obtain ⟨lo, hi, h1, h2, h3, h4, h5⟩ :=
    emit_default_log (exactLog_isExact lg ex) hmono au hgood hu hg ho path port hb hs x hx0 hx1
  exact ⟨lo, hi, h1, h2, h3, h4, by rw [h5, logMsgK_exactLog]⟩

/-- **default_gain_log_real**: the same over the real numbers with the real logarithm and
    exponential (`realArith`: every operation of the code performed exactly, `logf = Real.log`,
    `expf = Real.exp`) — the arithmetic the statement is phrased in.  The emitted value is
    `exp(log lo + x·(log hi − log lo))`; it lies between the declared bounds `lo` and `hi`
    themselves and is `lo` at slot value 0 and `hi` at slot value 1. -/
theorem default_gain_log_real (n p : Nat) (m : Mgr ℝ) (hr : Reachable realArith n p m)
    (sl : Slot ℝ) (hsl : sl ∈ m.slots) (au : Automation ℝ) (hau : au ∈ sl.autos)
    (hu : au.used = true) (hg : au.gain = 100) (ho : au.offset = 0)
    (path : Bytes) (port : PortInfo ℝ) (hb : au.bound = some (path, port)) (hs : port.scaleLog = true)
    (x : ℝ) (hx0 : 0 ≤ x) (hx1 : x ≤ 1) :
    ∃ lo hi : ℝ, (portType port = 'i' ∨ portType port = 'f') ∧
      portRange realArith port = some (lo, hi) ∧ 0 < lo ∧ lo ≤ hi ∧
      emit realArith au x = [logMsgReal path (portType port) lo hi x] ∧
      lo ≤ Real.exp (Real.log lo + x * (Real.log hi - Real.log lo)) ∧
      Real.exp (Real.log lo + x * (Real.log hi - Real.log lo)) ≤ hi ∧
      Real.exp (Real.log lo + 0 * (Real.log hi - Real.log lo)) = lo ∧
      Real.exp (Real.log lo + 1 * (Real.log hi - Real.log lo)) = hi := by
  have hgood := (inv_reachable realArith n p m hr).good sl hsl au hau
  obtain ⟨lo, hi, h1, h2, h3, h4, h5⟩ :=
    emit_default_log realArith_isExact realLog_mono_pos au hgood hu hg ho path port hb hs x hx0 hx1
  have hrange := logInterp_range lo hi x h3 h4 hx0 hx1
  have hends := logInterp_ends lo hi h3 h4
  exact ⟨lo, hi, h1, h2, h3, h4, by rw [h5, logMsgK_real], hrange.1, hrange.2, hends.1, hends.2⟩

/-- **default_gain_log_float_deviation** (how far the float arithmetic of the code is from
    the exact logarithmic map): in the IEEE-754 model the driver runs — the one compared bit
    for bit with the compiled code — a used automation bound to the log-scale port `port`
    under `path`, at gain 100 and offset 0, emits for a slot value `x` in [0,1] one message
    whose value is `expf c` (the model reports `c`, the argument of `expf`), where `c` lies
    between the stored bounds `L0 = logf lo`, `L1 = logf hi` (`lo..hi` the port's declared
    range) and differs from the exact interpolation `L0 + x·(L1 − L0)` by at most
    `86·2⁻²⁴·(max(|L0|,|L1|) + 2⁻¹²⁶)` (`IEEE.u32 = 2⁻²⁴`, `IEEE.tiny = 2⁻¹²⁶`): sixteen
    roundings of at most half a unit in the last place each.  Hence the emitted value is the
    exact one times `exp(±that)`, up to libm's own rounding of `logf`/`expf`. -/
theorem default_gain_log_float_deviation (tab : List (Rat × Rat)) (n p : Nat) (m : Mgr Rat)
    (hr : Reachable (IEEE.ieee tab) n p m)
    (sl : Slot Rat) (hsl : sl ∈ m.slots) (au : Automation Rat) (hau : au ∈ sl.autos)
    (hu : au.used = true) (hg : au.gain = 100) (ho : au.offset = 0)
    (path : Bytes) (port : PortInfo Rat) (hb : au.bound = some (path, port)) (hs : port.scaleLog = true)
    (x : Rat) (hx0 : 0 ≤ x) (hx1 : x ≤ 1) :
    ∃ lo hi c : Rat, portRange (IEEE.ieee tab) port = some (lo, hi) ∧
      emit (IEEE.ieee tab) au x =
        [ if portType port = 'i' then
            { addr := path, ty := 'i', val := .int (IEEE.trunc (IEEE.roundAway c)), expArg := some c }
          else { addr := path, ty := 'f', val := .flt c, expArg := some c } ] ∧
      IEEE.logOfTable tab lo ≤ c ∧ c ≤ IEEE.logOfTable tab hi ∧
      |c - (IEEE.logOfTable tab lo + x * (IEEE.logOfTable tab hi - IEEE.logOfTable tab lo))| ≤
        86 * IEEE.u32 * (max |IEEE.logOfTable tab lo| |IEEE.logOfTable tab hi| + IEEE.tiny) := by
  have hgood := (inv_reachable (IEEE.ieee tab) n p m hr).good sl hsl au hau
  obtain ⟨lo, hi, hrg, _, e1, e2, hty, hl, q1, q2, hcp, hfp⟩ :=
    bound_log_facts (IEEE.ieee tab) au hgood hu path port hb hs
  have hm := (fromPort_facts (IEEE.ieee_laws tab) au hfp).2
  simp only [IEEE.ieee, decide_eq_true_eq] at hm
  rw [hg, ho] at hcp
  obtain ⟨c, h1, h2, h3, h4⟩ := IEEE.ieee_log_arg_deviation tab au x hu (by rw [e2]; exact hty) hl hcp hm
    (max |au.pmin| |au.pmax|) (le_max_left _ _) (le_max_right _ _) hx0 hx1
  have p0 : au.pmin = IEEE.logOfTable tab lo := q1
  have p1 : au.pmax = IEEE.logOfTable tab hi := q2
  rw [e1, e2] at h1
  rw [p0] at h2 h4
  rw [p1] at h3 h4
  exact ⟨lo, hi, c, hrg, h1, h2, h3, h4⟩

/-- **log_bounds_stored** (no hypothesis on the arithmetic): in every reachable state a used
    automation bound to a log-scale port stores `logf` of the ends of the port's declared range
    `portRange` — `logf(logmin)` if the port declares `logmin`, WHATEVER its `min` is, else
    `logf(min)`; and `logf(max)` — and that lower end is positive (`PortWF`). -/
theorem log_bounds_stored (A : Arith F) (n p : Nat) (m : Mgr F) (hr : Reachable A n p m)
    (sl : Slot F) (hsl : sl ∈ m.slots) (au : Automation F) (hau : au ∈ sl.autos) (hu : au.used = true)
    (path : Bytes) (port : PortInfo F) (hb : au.bound = some (path, port)) (hs : port.scaleLog = true) :
    au.logScale = true ∧
    ∃ lo hi, portRange A port = some (lo, hi) ∧ A.le lo A.zero = false ∧
      au.pmin = A.logf lo ∧ au.pmax = A.logf hi ∧
      (∀ l, port.logmin = some l → lo = A.to32 l) := by
  obtain ⟨hfp, _⟩ := ((inv_reachable A n p m hr).good sl hsl au hau).1 hu
  obtain ⟨au0, b, path', p', hw, hp, hlen, hbi, e0, e1, e2, e3, e4, e5⟩ := hfp
  rw [hb] at e0
  simp only [Option.some.injEq, Prod.mk.injEq] at e0
  obtain ⟨rfl, rfl⟩ := e0
  obtain ⟨s1, s2, s3, lo, hi, hrg, _, hlog⟩ := bindInfo_spec A au0 b path port hw hlen hbi
  obtain ⟨q1, q2⟩ := hlog hs
  refine ⟨by rw [e5, s3]; exact hs, lo, hi, hrg, hw.2.2 hs lo hi hrg, by rw [e3, q1], by rw [e4, q2], ?_⟩
  intro l hl
  unfold portRange at hrg
  split at hrg
  · rename_i hT
    have : port.scaleLog = false := by
      unfold portType at hT
      by_cases hF : port.hasF = true
      · simp [hF] at hT
      · by_cases hT' : port.hasT = true
        · exact hw.2.1 (by simpa using hF) hT'
        · simp [hF, hT'] at hT
    rw [hs] at this; cases this
  · split at hrg
    · simp only [hl, Option.map_some, Option.getD_some, Option.some.injEq, Prod.mk.injEq] at hrg
      exact hrg.1.symm
    · cases hrg

/-- **logmin_within_declared_range**: a log-scale port whose `logmin` is not below its `min`
    has its whole range `portRange = [logmin, max]` inside the declared `[min, max]`, so that
    `emit_in_range_right_type` bounds its messages by the declared minimum as well. -/
theorem logmin_within_declared_range (A : Arith F) (L : Laws A) (port : PortInfo F) (hw : PortWF A port)
    (mn mx l : F) (hmn : port.min = some mn) (hmx : port.max = some mx) (hl : port.logmin = some l)
    (hs : port.scaleLog = true) (hml : A.le mn l = true) :
    portRange A port = some (A.to32 l, A.to32 mx) ∧
    A.le (A.to32 mn) (A.to32 l) = true ∧ A.le (A.to32 l) (A.to32 mx) = true := by
  have hT : portType port ≠ 'T' := by
    unfold portType
    by_cases hF : port.hasF = true
    · simp [hF]
    · by_cases hT' : port.hasT = true
      · have := hw.2.1 (by simpa using hF) hT'
        rw [hs] at this; cases this
      · simp [hF, hT']
  refine ⟨by simp [portRange, hT, hmn, hmx, hl, hs], L.to32_mono _ _ hml, L.to32_mono _ _ ((hw.1 mn mx hmn hmx).2 l hl)⟩

/-- float port declared 10..100, logarithmic, with `logmin = 1` BELOW `min` -/
def exPortLogminLow : PortInfo Rat :=
  { hasF := true, hasT := false, min := some 10, max := some 100, logmin := some 1,
    scaleLog := true, internal := false, noLearn := false }

/-- **logmin_below_min_counterexample** (what `logmin < min` does): nothing in the code
    compares `logmin` with `min`.  The port 10..100 with `logmin = 1` satisfies `PortWF`, and
    with the decade logarithm `lg10`/`ex10` (exact on 1, 10, 100) the slot value 0 sends 1 —
    below the declared minimum 10 — and the slot value 1 sends 100.  The range of such a port
    is `[logmin, max]` (`portRange`, `log_bounds_stored`); it lies inside `[min, max]` exactly
    when `min <= logmin` (`logmin_within_declared_range`). -/
theorem logmin_below_min_counterexample :
    PortWF (exactLog lg10 ex10) exPortLogminLow ∧
    (run (exactLog lg10 ex10) (Mgr.init (exactLog lg10 ex10) 1 1)
      [.bind 0 [47, 112] (some exPortLogminLow) false, .setSub 0 0 0, .setSub 0 0 1]).map
        (fun r => r.2.map (fun ms => ms.map Msg.ratVal)) = some [[], [some 1], [some 100]] := by
  refine ⟨⟨?_, by decide, ?_⟩, by decide +kernel⟩
  · intro mn mx h1 h2; cases h1; cases h2
    exact ⟨by decide, by intro l hl; cases hl; decide⟩
  · intro _ lo hi h
    have e : portRange (exactLog lg10 ex10) exPortLogminLow = some (1, 100) := by decide +kernel
    rw [e] at h; cases h; decide

/-- float port declared -100..10 with a logarithmic scale: the lower bound is not positive -/
def exPortNeg : PortInfo Rat :=
  { hasF := true, hasT := false, min := some (-100), max := some 10, logmin := none,
    scaleLog := true, internal := false, noLearn := false }

/-- **log_scale_needs_positive_bound** (why `PortWF` demands a positive lower end for a
    log-scale port).  C's `logf` returns NaN for a negative and -infinity for a zero argument,
    which this model's carriers do not contain; an arithmetic that does give `logf` a value
    below zero cannot be monotone there.  Witness: `lgAbs` = log|x| on the decades (the
    convention of real-analysis libraries), monotone on positive arguments, so that the order
    laws `Laws` hold; the port -100..10 satisfies every clause of `PortWF` but positivity;
    its stored bounds are `logf(-100) = 2 > 1 = logf(10)`, the clamp of setSlotSub then
    returns one of the two bounds whatever the slot value is, and the slot value 1 sends 100:
    above the declared maximum 10 (and the map is decreasing: slot value 0 sends 10). -/
theorem log_scale_needs_positive_bound :
    Laws (exactLog lgAbs ex10) ∧
    ((∀ mn mx, exPortNeg.min = some mn → exPortNeg.max = some mx →
        (exactLog lgAbs ex10).le mn mx = true ∧
        (∀ l, exPortNeg.logmin = some l → (exactLog lgAbs ex10).le l mx = true)) ∧
     (exPortNeg.hasF = false → exPortNeg.hasT = true → exPortNeg.scaleLog = false)) ∧
    ¬ PortWF (exactLog lgAbs ex10) exPortNeg ∧
    (run (exactLog lgAbs ex10) (Mgr.init (exactLog lgAbs ex10) 1 1)
      [.bind 0 [47, 112] (some exPortNeg) false, .setSub 0 0 0, .setSub 0 0 1]).map
        (fun r => r.2.map (fun ms => ms.map Msg.ratVal)) = some [[], [some 10], [some 100]] := by
  refine ⟨exactLog_laws lgAbs ex10 lgAbs_mono_pos ex10_mono, ⟨?_, by decide⟩, ?_, by decide +kernel⟩
  · intro mn mx h1 h2; cases h1; cases h2
    exact ⟨by decide, by intro l hl; cases hl⟩
  · intro hw
    have e : portRange (exactLog lgAbs ex10) exPortNeg = some (-100, 10) := by decide +kernel
    have := hw.2.2 rfl (-100) 10 e
    revert this; decide

/-! ### the learn queue and NRPN controllers -/

/-- **unbound_nrpn_sequence_serves_head** ("bound, one per previously unbound controller, in
    the order in which they asked", for an NRPN controller, on the wire): when the queue is
    `hd :: Q'` and the four messages CC 99 = `a`, CC 98 = `b`, CC 6 = `v1`, CC 38 = `v2` of an
    NRPN sequence arrive for a parameter number `a*128+b` that no slot is bound to, the first
    three messages emit nothing, and after the fourth exactly slot `hd` is bound to the NRPN
    `a*128+b`; every other NRPN binding and every plain-CC binding of every slot is unchanged
    and the queue is `Q'`.  (`unbound_controller_serves_head` is the single-event form for
    both kinds of controller.) -/
theorem unbound_nrpn_sequence_serves_head (A : Arith F) (m : Mgr F) (hd : Nat) (Q' : List Nat)
    (c a b v1 v2 : Int) (ha : 0 ≤ a) (hb : 0 ≤ b) (h1 : 0 ≤ v1) (h2 : 0 ≤ v2)
    (h : Refines m (hd :: Q')) (hu : isBoundTo m true (a * 128 + b) = false) :
    ∃ (m4 : Mgr F) (ms : List (Msg F)),
      run A m [.midi c 99 a, .midi c 98 b, .midi c 6 v1, .midi c 38 v2] = some (m4, [[], [], [], ms]) ∧
      Refines m4 Q' ∧
      ∀ (i : Nat) (sl : Slot F), m.slots[i]? = some sl →
        ∃ sl', m4.slots[i]? = some sl' ∧
          sl'.midiNrpn = (if i = hd then a * 128 + b else sl.midiNrpn) ∧ sl'.midiCC = sl.midiCC := by
  obtain ⟨hrun, hctl, _⟩ := nrpn_prefix A m c a b v1 v2 ha hb h1 h2
  have hr3 : Refines (afterThree m a b v1) (hd :: Q') := refines_of_keys_eq rfl rfl h
  have hu3 : isBoundTo (afterThree m a b v1) true (a * 128 + b) = false := hu
  refine ⟨(handleMidi A (afterThree m a b v1) c 38 v2).1, (handleMidi A (afterThree m a b v1) c 38 v2).2, ?_, ?_, ?_⟩
  · have := run_append A m _ [.midi c 99 a, .midi c 98 b, .midi c 6 v1] [.midi c 38 v2] _ hrun
    simp only [List.cons_append, List.nil_append] at this
    rw [this]
    simp [run, step]
  · have := refines_midi A (afterThree m a b v1) (hd :: Q') c 38 v2 hr3
    simpa [absStep, hctl, hu3] using this
  · intro i sl hsl
    obtain ⟨sl', e1, e2, e3⟩ :=
      unbound_controller_serves_head A (afterThree m a b v1) hd Q' c 38 v2 true (a * 128 + b) hr3 hctl hu3 i sl hsl
    exact ⟨sl', e1, by simpa [bindingOf] using e2, by simpa [bindingOf] using e3⟩

/-! ### Non-vacuity -/

/-- the order laws are satisfiable: exact rational arithmetic has them -/
example : Laws exact := exact_laws

/-- integer-valued bounds are fixed by `(int)roundf(·)`, so for such parameters `MsgOK`
    bounds the emitted integer by min and max themselves -/
example : exact.toInt (exact.roundf (127 : Rat)) = 127 ∧ exact.toInt (exact.roundf (-64 : Rat)) = -64 := by
  decide +kernel

def exPortF : PortInfo Rat :=
  { hasF := true, hasT := false, min := some (-1), max := some 10, logmin := none,
    scaleLog := false, internal := false, noLearn := false }
def exPortI : PortInfo Rat :=
  { hasF := false, hasT := false, min := some 0, max := some 127, logmin := none,
    scaleLog := false, internal := false, noLearn := false }

/-- the F16 witness: two learn requests, an unrelated clearSlot, then two unbound CCs -/
def exHistory : List (Op Rat) :=
  [.bind 0 [47, 112, 97] (some exPortI) true, .bind 1 [47, 112, 98] (some exPortF) true,
   .clearSlot 2, .midi 0 7 64, .midi 0 8 127, .midi 0 8 0, .gain 1 0 50, .setSlot 1 (1/2)]

example : ∀ op ∈ exHistory, OpWF exact op := by
  intro op hop
  simp only [exHistory, List.mem_cons, List.not_mem_nil, or_false] at hop
  rcases hop with rfl | rfl | rfl | rfl | rfl | rfl | rfl | rfl <;> simp only [OpWF] <;> try decide
  · refine ⟨by decide, ?_⟩
    intro p hp; cases hp; refine ⟨?_, by decide, by intro h; cases h⟩
    intro mn mx h1 h2; cases h1; cases h2; exact ⟨by decide, by intro l hl; cases hl⟩
  · refine ⟨by decide, ?_⟩
    intro p hp; cases hp; refine ⟨?_, by decide, by intro h; cases h⟩
    intro mn mx h1 h2; cases h1; cases h2; exact ⟨by decide, by intro l hl; cases hl⟩

/-- after the clear both requests are still numbered 1, 2 (the unrepaired code gives 0, 1);
    the two controllers are then learned in request order and the second one drives slot 1 -/
example : (run exact (Mgr.init exact 3 2) (exHistory.take 3)).map (fun r => keys r.1) =
    some [(1, -1, -1), (2, -1, -1), (-1, -1, -1)] := by decide +kernel
example : (run exact (Mgr.init exact 3 2) (exHistory.take 5)).map (fun r => keys r.1) =
    some [(-1, 7, -1), (-1, 8, -1), (-1, -1, -1)] := by decide +kernel
example : (run exact (Mgr.init exact 3 2) exHistory).map
      (fun r => r.2.map (fun ms => ms.map (fun msg => (msg.addr, msg.ty)))) =
    some [[], [], [], [([47, 112, 97], 'i')], [([47, 112, 98], 'f')], [([47, 112, 98], 'f')], [],
          [([47, 112, 98], 'f')]] := by decide +kernel

/-- the binding table after the history: slot 0 sub 0 is bound to /pa, slot 1 sub 0 to /pb,
    nothing else is bound (the clearSlot of slot 2, the learning and the gain change nothing) -/
example : (run exact (Mgr.init exact 3 2) exHistory).map
      (fun r => (boundsOf r.1).map (fun row => row.map (fun b => b.map (·.1)))) =
    some [[some [47, 112, 97], none], [some [47, 112, 98], none], [none, none]] := by decide +kernel

/-- `MsgOKPort` is satisfiable and says what one expects: 64 may be sent to the integer
    parameter 0..127 under its own address … -/
example : MsgOKPort exact [47, 112, 97] exPortI { addr := [47, 112, 97], ty := 'i', val := .int 64 } :=
  ⟨rfl, 0, 127, by decide +kernel, Or.inl ⟨by decide, rfl, rfl, 64, rfl, by decide +kernel, by decide +kernel⟩⟩

/-- … but neither 128, nor a float, nor another address -/
example : ¬ MsgOKPort exact [47, 112, 97] exPortI { addr := [47, 112, 97], ty := 'i', val := .int 128 } := by
  rintro ⟨_, lo, hi, hr, h⟩
  have e : portRange exact exPortI = some (0, 127) := by decide +kernel
  rw [e] at hr
  cases hr
  rcases h with ⟨_, _, _, n, hn, _, h2⟩ | ⟨_, h, _⟩ | ⟨h, _⟩ | ⟨h, _⟩ | ⟨h, _⟩
  · cases hn
    have : exact.toInt (exact.roundf (127 : Rat)) = 127 := by decide +kernel
    rw [this] at h2
    omega
  · exact absurd h (by decide)
  · exact absurd h (by decide)
  · exact absurd h (by decide)
  · exact absurd h (by decide)

example : ¬ MsgOKPort exact [47, 112, 97] exPortI { addr := [47, 112, 98], ty := 'i', val := .int 64 } := by
  rintro ⟨h, _⟩; exact absurd h (by decide)

/-! #### logarithmic scale -/

/-- float port declared 1..100 with a logarithmic scale -/
def exPortLog : PortInfo Rat :=
  { hasF := true, hasT := false, min := some 1, max := some 100, logmin := none,
    scaleLog := true, internal := false, noLearn := false }

/-- the hypotheses of `default_gain_log` are satisfiable: the decade logarithm is monotone,
    the port is well-formed (its lower bound is positive), binding it in a fresh manager gives
    a reachable state with a used automation at gain 100 / offset 0 bound to that port -/
example : (∀ a b : Rat, 0 < a → a ≤ b → lg10 a ≤ lg10 b) ∧ PortWF (exactLog lg10 ex10) exPortLog ∧
    ∃ (m : Mgr Rat) (sl : Slot Rat) (au : Automation Rat),
      Reachable (exactLog lg10 ex10) 1 1 m ∧ sl ∈ m.slots ∧ au ∈ sl.autos ∧ au.used = true ∧
      au.gain = 100 ∧ au.offset = 0 ∧ au.bound = some ([47, 112], exPortLog) ∧ exPortLog.scaleLog = true := by
  have hw : PortWF (exactLog lg10 ex10) exPortLog := by
    refine ⟨?_, by decide, ?_⟩
    · intro mn mx h1 h2; cases h1; cases h2
      exact ⟨by decide, by intro l hl; cases hl⟩
    · intro _ lo hi h
      have e : portRange (exactLog lg10 ex10) exPortLog = some (1, 100) := by decide +kernel
      rw [e] at h; cases h; decide
  refine ⟨fun a b _ h => lg10_mono a b h, hw, ?_⟩
  obtain ⟨m', sl, au, hs, h1, h2, h3, h4, h5, h6⟩ :=
    bind_fresh (exactLog lg10 ex10) [47, 112] exPortLog 1 100 rfl rfl rfl rfl rfl
  exact ⟨m', sl, au, Reachable.step (op := .bind 0 [47, 112] (some _) false) Reachable.init
      (show _ ∧ _ from ⟨by decide, fun p hp => by cases hp; exact hw⟩) hs,
    h1, h2, h3, h4, h5, h6, rfl⟩

/-- … and the map is the logarithmic one: slot values 0, 1/2, 1 send 1, 10 (the geometric
    mean of the bounds), 100 -/
example : (run (exactLog lg10 ex10) (Mgr.init (exactLog lg10 ex10) 1 1)
      [.bind 0 [47, 112] (some exPortLog) false, .setSub 0 0 0, .setSub 0 0 (1/2), .setSub 0 0 1]).map
        (fun r => r.2.map (fun ms => ms.map Msg.ratVal)) = some [[], [some 1], [some 10], [some 100]] := by
  decide +kernel

example : logMsg lg10 ex10 [47, 112] 'f' 1 100 (1/2) =
    { addr := [47, 112], ty := 'f', val := .flt 10, expArg := some 1 } := by
  simp [logMsg, lg10, ex10]; norm_num

/-- the table of libm's `logf` on the bounds 1 and 100 (`logf(100) = 0x40935d8e`) -/
def exLogTab : List (Rat × Rat) := [(1, 0), (100, 4828871 / 1048576)]

/-- the hypotheses of `default_gain_log_float_deviation` are satisfiable: the port 1..100 is
    well-formed for the float model and binding it gives a reachable state; and the bound is
    small: `86·2⁻²⁴·(logf(100) + 2⁻¹²⁶) < 2.4e-5` -/
example : (∃ (m : Mgr Rat) (sl : Slot Rat) (au : Automation Rat),
      Reachable (IEEE.ieee exLogTab) 1 1 m ∧ sl ∈ m.slots ∧ au ∈ sl.autos ∧ au.used = true ∧
      au.gain = 100 ∧ au.offset = 0 ∧ au.bound = some ([47, 112], exPortLog) ∧ exPortLog.scaleLog = true) ∧
    86 * IEEE.u32 * (max |IEEE.logOfTable exLogTab 1| |IEEE.logOfTable exLogTab 100| + IEEE.tiny) < 24 / 1000000 := by
  have hw : PortWF (IEEE.ieee exLogTab) exPortLog := by
    refine ⟨?_, by decide, ?_⟩
    · intro mn mx h1 h2; cases h1; cases h2
      exact ⟨by decide, by intro l hl; cases hl⟩
    · intro _ lo hi h
      have e : portRange (IEEE.ieee exLogTab) exPortLog = some (1, 100) := by decide +kernel
      rw [e] at h; cases h; decide
  refine ⟨?_, ?_⟩
  · obtain ⟨m', sl, au, hs, h1, h2, h3, h4, h5, h6⟩ :=
      bind_fresh (IEEE.ieee exLogTab) [47, 112] exPortLog 1 100 rfl rfl rfl rfl rfl
    exact ⟨m', sl, au, Reachable.step (op := .bind 0 [47, 112] (some _) false) Reachable.init
        (show _ ∧ _ from ⟨by decide, fun p hp => by cases hp; exact hw⟩) hs,
      h1, h2, h3, h4, h5, h6, rfl⟩
  · have e0 : IEEE.logOfTable exLogTab 1 = 0 := by decide +kernel
    have e1 : IEEE.logOfTable exLogTab 100 = 4828871 / 1048576 := by decide +kernel
    rw [e0, e1]
    norm_num [IEEE.u32, IEEE.tiny]

/-- float port declared 1..100 with a logarithmic scale, over the reals -/
noncomputable def exPortLogReal : PortInfo ℝ :=
  { hasF := true, hasT := false, min := some 1, max := some 100, logmin := none,
    scaleLog := true, internal := false, noLearn := false }

/-- the hypotheses of `default_gain_log_real` are satisfiable -/
example : ∃ (m : Mgr ℝ) (sl : Slot ℝ) (au : Automation ℝ),
      Reachable realArith 1 1 m ∧ sl ∈ m.slots ∧ au ∈ sl.autos ∧ au.used = true ∧
      au.gain = 100 ∧ au.offset = 0 ∧ au.bound = some ([47, 112], exPortLogReal) ∧
      exPortLogReal.scaleLog = true := by
  have hw : PortWF realArith exPortLogReal := by
    refine ⟨?_, by simp [exPortLogReal], ?_⟩
    · intro mn mx h1 h2
      simp only [exPortLogReal, Option.some.injEq] at h1 h2
      subst h1; subst h2
      exact ⟨by simp [realArith], by intro l hl; simp [exPortLogReal] at hl⟩
    · intro _ lo hi h
      simp [portRange, portType, exPortLogReal, realArith] at h
      simp [realArith, ← h.1]
  obtain ⟨m', sl, au, hs, h1, h2, h3, h4, h5, h6⟩ :=
    bind_fresh realArith [47, 112] exPortLogReal 1 100 rfl rfl rfl rfl rfl
  exact ⟨m', sl, au, Reachable.step (op := .bind 0 [47, 112] (some _) false) Reachable.init
      (show _ ∧ _ from ⟨by decide, fun p hp => by cases hp; exact hw⟩) hs,
    h1, h2, h3, h4, h5, h6, rfl⟩

/-! #### NRPN learning -/

/-- slot 0 and slot 1 ask for learning; the NRPN sequence 99=1, 98=2, 6=3, 38=4 teaches slot 0
    (the oldest request) the NRPN 1*128+2 = 130; a plain CC then teaches slot 1 -/
example : (run exact (Mgr.init exact 2 1)
      [.bind 0 [47, 112, 97] (some exPortI) true, .bind 1 [47, 112, 98] (some exPortF) true,
       .midi 0 99 1, .midi 0 98 2, .midi 0 6 3, .midi 0 38 4, .midi 0 7 64]).map (fun r => keys r.1) =
    some [(-1, -1, 130), (-1, 7, -1)] := by decide +kernel

/-- the hypotheses of `unbound_nrpn_sequence_serves_head` are satisfiable: after the two
    requests the state refines the queue [0, 1] and no slot is bound to NRPN 130 -/
example : ∃ m : Mgr Rat, (run exact (Mgr.init exact 2 1)
      [.bind 0 [47, 112, 97] (some exPortI) true, .bind 1 [47, 112, 98] (some exPortF) true]).map (·.1) = some m ∧
    Refines m [0, 1] ∧ isBoundTo m true 130 = false := by
  cases hrun : (run exact (Mgr.init exact 2 1)
      [.bind 0 [47, 112, 97] (some exPortI) true, .bind 1 [47, 112, 98] (some exPortF) true]) with
  | none => exact absurd hrun (by decide +kernel)
  | some r =>
    obtain ⟨m, mss⟩ := r
    refine ⟨m, rfl, ?_, ?_⟩
    · simp only [run] at hrun
      cases h1 : step exact (Mgr.init exact 2 1) (.bind 0 [47, 112, 97] (some exPortI) true) with
      | none => simp [h1] at hrun
      | some r1 =>
        obtain ⟨m1, ms1⟩ := r1
        simp only [h1] at hrun
        cases h2 : step exact m1 (.bind 1 [47, 112, 98] (some exPortF) true) with
        | none => simp [h2] at hrun
        | some r2 =>
          obtain ⟨m2, ms2⟩ := r2
          simp only [h2, Option.some.injEq, Prod.mk.injEq] at hrun
          obtain ⟨rfl, _⟩ := hrun
          have q1 := refines_step exact _ _ [] _ _ (refines_init exact 2 1) h1
          have q2 := refines_step exact _ _ _ _ _ q1 h2
          have e1 : absStep (Mgr.init exact 2 1) (.bind 0 [47, 112, 97] (some exPortI) true) [] = [0] := by
            decide +kernel
          rw [e1] at q2
          have hm1 : m1 = (createBinding exact (Mgr.init exact 2 1) 0 [47, 112, 97] (some exPortI) true).get (by decide +kernel) := by
            simp only [step, Option.map_eq_some_iff, Prod.mk.injEq] at h1
            obtain ⟨x, hx, rfl, _⟩ := h1
            simp [hx]
          have e2 : absStep m1 (.bind 1 [47, 112, 98] (some exPortF) true) [0] = [0, 1] := by
            rw [hm1]; decide +kernel
          rw [e2] at q2
          exact q2
    · have : (run exact (Mgr.init exact 2 1)
        [.bind 0 [47, 112, 97] (some exPortI) true, .bind 1 [47, 112, 98] (some exPortF) true]).map
          (fun r => isBoundTo r.1 true 130) = some false := by decide +kernel
      rw [hrun] at this
      simpa using this

end Rtosc.Auto
