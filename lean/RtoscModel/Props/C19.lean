/-
  C19 — Automation output stays in range and MIDI-learn requests are served in order.
  Property theorems only; definitions of the specification are in RtoscModel/AutoSpec.lean,
  helper lemmas in Proofs/AutoLemmas.lean.  The model (RtoscModel/Auto.lean) mirrors
  src/cpp/automations.cpp with the four repairs fixes/C19-*.patch applied.

  Reading of the statement.
  * "any sequence of binding, clearing, gain/offset and slot-value operations": `Reachable`
    — every state reached from a fresh manager (any number of slots and sub-automations) by
    any finite history of `Op`s that are well-formed (`OpWF`: ports have min <= max, bound
    addresses have at most 127 characters, MIDI channel/controller numbers are not negative)
    and stay clear of the undefined behaviour of createBinding/setSlotSubPath (unchecked
    indices).
  * "the bound parameter": every automation of the model carries a ghost field `bound` (nothing
    reads it) holding the address and the port of the createBinding/setSlotSubPath call that
    filled it; `binding_is_recorded` says that this field is exactly that: set by a successful
    bind to the call's arguments, dropped by the clear operations, untouched by everything
    else.  The range/type theorem is then stated against `portType`/`portRange`/`MsgOKPort`
    (RtoscModel/AutoSpec.lean), which only look at the port.
  * float arithmetic: the bookkeeping theorems hold for every `Arith`; range and monotonicity
    hold for every `Arith` satisfying the order laws `Laws` (a hypothesis); the laws are
    proved for exact rational arithmetic (`exact_laws`) and for the IEEE-754 binary32/64
    round-to-nearest-even arithmetic of the executable model that the correspondence check
    compares bit for bit with the compiled code (`ieee_model_laws`; finite values, no
    overflow; libm's logf enters as a monotone table, expf as a monotone function).  The
    linear map is exact over `Rat`.
-/
import RtoscModel.Proofs.AutoLemmas
import RtoscModel.Proofs.AutoFloatLemmas
import RtoscModel.Proofs.AutoBind
namespace Rtosc.Auto
open Rtosc
variable {F : Type}

/-- **learn_queue_refines** ("slots that asked for MIDI learn are bound ... in the order in
    which they asked"): the per-slot numbers of the implementation always represent an
    abstract FIFO queue — pending slots hold exactly 1..k in request order, everything else
    holds -1 and `learn_queue_len = k` (`Refines`) — and every operation acts on that queue
    as the specification `absStep` says: a successful learn request appends, clearSlot
    removes the cleared slot only, a value for a controller no slot is bound to removes the
    head, nothing else touches it. -/
theorem learn_queue_refines (A : Arith F) :
    (∀ n p, Refines (Mgr.init A n p) []) ∧
    (∀ (m m' : Mgr F) (Q : List Nat) (op : Op F) (ms : List (Msg F)),
      Refines m Q → step A m op = some (m', ms) → Refines m' (absStep m op Q)) ∧
    (∀ n p (m : Mgr F), Reachable A n p m → ∃ Q, Refines m Q) :=
  ⟨refines_init A, refines_step A, fun n p m h => (inv_reachable A n p m h).queue⟩

/-- **unbound_controller_serves_head** ("bound, one per previously unbound controller, in
    the order in which they asked"): when the queue is `hd :: Q'` and a value arrives for a
    controller (CC or completed NRPN) that no slot is bound to, exactly slot `hd` gets that
    controller; every other binding of every slot is unchanged. -/
theorem unbound_controller_serves_head (A : Arith F) (m : Mgr F) (hd : Nat) (Q' : List Nat)
    (c t v : Int) (n : Bool) (id : Int)
    (h : Refines m (hd :: Q')) (hc : controllerOf m c t v = some (n, id))
    (hb : isBoundTo m n id = false) (i : Nat) (sl : Slot F) (hsl : m.slots[i]? = some sl) :
    ∃ sl', (handleMidi A m c t v).1.slots[i]? = some sl' ∧
      bindingOf n sl' = (if i = hd then id else bindingOf n sl) ∧
      bindingOf (!n) sl' = bindingOf (!n) sl := by
  have hk := serve_head_keys A m hd Q' c t v n id h hc hb
  have hi : (keys (handleMidi A m c t v).1)[i]? = some (decK1 (if hd = i then bindK n id (key sl) else key sl)) := by
    rw [hk]; simp [keys, hsl, List.getElem?_modify]
  simp only [keys, List.getElem?_map] at hi
  cases hs' : (handleMidi A m c t v).1.slots[i]? with
  | none => simp [hs'] at hi
  | some sl' =>
    simp only [hs', Option.map_some, Option.some.injEq] at hi
    refine ⟨sl', rfl, ?_, ?_⟩
    · rw [← selOf_key, hi, selOf_decK1]
      by_cases e : hd = i
      · subst e; cases n <;> simp [selOf, selCC, selNrpn, bindK]
      · have e' : ¬ i = hd := fun x => e x.symm
        simp only [e, e', ↓reduceIte]; exact selOf_key n sl
    · rw [← selOf_key, hi, selOf_decK1, ← selOf_key]
      by_cases e : hd = i
      · simp only [e, ↓reduceIte]; cases n <;> simp [selOf, selCC, selNrpn, bindK]
      · simp only [e, ↓reduceIte]

/-- **learn_order_preserved** ("regardless of unrelated slots being created or cleared in
    between"): two slots that are waiting before and after an operation keep their relative
    order — whatever the operation was and whichever slot it addressed. -/
theorem learn_order_preserved (A : Arith F) (n p : Nat) (m m' : Mgr F) (op : Op F) (ms : List (Msg F))
    (hr : Reachable A n p m) (hs : step A m op = some (m', ms))
    (i j : Nat) (si sj si' sj' : Slot F)
    (hi : m.slots[i]? = some si) (hj : m.slots[j]? = some sj)
    (hi' : m'.slots[i]? = some si') (hj' : m'.slots[j]? = some sj')
    (hw : 0 < si.learning) (hlt : si.learning < sj.learning)
    (hwi : 0 < si'.learning) (hwj : 0 < sj'.learning) : si'.learning < sj'.learning := by
  obtain ⟨Q, hq⟩ := (inv_reachable A n p m hr).queue
  have hq' := refines_step A m m' Q op ms hq hs
  have e1 := hq.num i (key si) (by simp [keys, hi])
  have e2 := hq.num j (key sj) (by simp [keys, hj])
  have e3 := hq'.num i (key si') (by simp [keys, hi'])
  have e4 := hq'.num j (key sj') (by simp [keys, hj'])
  simp only [key] at e1 e2 e3 e4
  rw [e3, e4]
  exact qpos_order Q _ hq.nodup (absStep_forms m op Q) i j (by omega) (by omega) (by omega) (by omega)

/-- **bound_cc_drives_its_slot** ("once bound a controller drives exactly its slot"): in a
    reachable state, a value for a controller (plain CC: `n = false`, completed NRPN:
    `n = true`) that slot `i` is bound to does what `setSlot(i, value)` does and nothing
    else: the emitted messages are those of slot `i`'s automations, only `current_state` of
    slot `i` (and the NRPN registers) change. -/
theorem bound_cc_drives_its_slot (A : Arith F) (ns p : Nat) (m : Mgr F) (hr : Reachable A ns p m)
    (c t v : Int) (hc0 : 0 ≤ c) (ht0 : 0 ≤ t) (n : Bool) (id : Int)
    (hc : controllerOf m c t v = some (n, id))
    (i : Nat) (sl : Slot F) (hsl : m.slots[i]? = some sl) (hb : bindingOf n sl = id) :
    handleMidi A m c t v =
      ({ regs m t v with slots := m.slots.set i { sl with current := midiValue A (regs m t v) n v } },
       slotMsgs A sl (midiValue A (regs m t v) n v)) := by
  have hinv := inv_reachable A ns p m hr
  have hu : Uniq (selOf n) (keys m) := by cases n; exact hinv.uniqCC; exact hinv.uniqNrpn
  have h0 := controllerOf_nonneg m c t v n id hc0 ht0 hc
  exact bound_drives A m c t v n id i sl hu (by omega) hc hsl hb

/-- **emit_in_range_right_type** ("every message an automation slot emits goes to the bound
    parameter's address with the bound parameter's type and a value inside that parameter's
    declared [min,max] (true/false for toggles)"): every message handed to `backend` by any
    operation in any reachable state is the message of a `used` automation of that state;
    that automation was bound — by the last createBinding/setSlotSubPath that filled it
    (`bound`, see `binding_is_recorded`) — to a well-formed usable port `port` under the
    address `path`, and the message satisfies the specification `MsgOKPort path port`: its
    address is `path`, its type is `portType port`, its value lies in `portRange port`
    (integers: `(int)roundf` of the bounds; log scale: the bounds pass through
    `expf ∘ logf`, which is libm's rounding and covered by the property's tolerance). -/
theorem emit_in_range_right_type (A : Arith F) (L : Laws A) (n p : Nat) (m m' : Mgr F) (op : Op F)
    (ms : List (Msg F)) (hr : Reachable A n p m) (hs : step A m op = some (m', ms)) :
    ∀ msg ∈ ms, ∃ sl ∈ m.slots, ∃ au ∈ sl.autos, ∃ (path : Bytes) (port : PortInfo F),
      au.used = true ∧ au.bound = some (path, port) ∧ PortWF A port ∧
      portUsable (some port) = some port ∧ MsgOKPort A path port msg := by
  intro msg hmsg
  obtain ⟨l, hl, au, hau, x, hx⟩ := step_msgs A m m' op ms hs msg hmsg
  simp only [autosOf, List.mem_map] at hl
  obtain ⟨sl, hsl, rfl⟩ := hl
  have hg := (inv_reachable A n p m hr).good sl hsl au hau
  obtain ⟨hu, hok⟩ := emit_ok L au x msg hg hx
  obtain ⟨path, port, hb, hw, hp, hm⟩ := msgOK_port A au msg (hg.1 hu).1 hok
  exact ⟨sl, hsl, au, hau, path, port, hu, hb, hw, hp, hm⟩

/-- **binding_is_recorded** (what "the bound parameter" of the statement refers to): the ghost
    table `boundsOf` — per slot and sub-automation the address and port of the call that bound
    it — starts empty and is changed by every operation exactly as the specification
    `absBind` says: a createBinding that finds a usable port fills the first free
    sub-automation of its slot with that address and port, setSlotSubPath fills the one it
    names, clearSlot/clearSlotSub empty what they name, and no other operation (gain, offset,
    slot values, MIDI, learning) changes what anything is bound to.  Moreover an automation
    is `used` (can emit) exactly when the table has an entry for it. -/
theorem binding_is_recorded (A : Arith F) :
    (∀ n p, boundsOf (Mgr.init A n p) = List.replicate n (List.replicate p none)) ∧
    (∀ n p (m m' : Mgr F) (op : Op F) (ms : List (Msg F)), Reachable A n p m →
      step A m op = some (m', ms) → boundsOf m' = absBind m.perSlot (boundsOf m) op) ∧
    (∀ n p (m : Mgr F), Reachable A n p m →
      ∀ sl ∈ m.slots, ∀ au ∈ sl.autos, (au.used = false ↔ au.bound = none)) :=
  ⟨boundsOf_init A,
   fun n p m m' op ms hr hs => binding_step A m m' op ms (inv_reachable A n p m hr).good hs,
   fun n p m hr sl hsl au hau => good_used_iff A au ((inv_reachable A n p m hr).good sl hsl au hau)⟩

/-- **emit_monotone** ("a value ... that never decreases when the slot value increases (for
    positive gain)"): for a used automation of a reachable state whose gain is not negative,
    a larger slot value never yields a smaller message (`MsgsLe`: same address and type,
    value not smaller, false <= true). -/
theorem emit_monotone (A : Arith F) (L : Laws A) (n p : Nat) (m : Mgr F) (hr : Reachable A n p m)
    (s j : Int) (sl : Slot F) (au : Automation F) (hsl : m.slots[s.toNat]? = some sl)
    (hau : sl.autos[j.toNat]? = some au) (hu : au.used = true)
    (hg : A.le A.zero au.gain = true) (x y : F) (hxy : A.le x y = true) :
    MsgsLe A (emit A au x) (emit A au y) ∧
    (m.slotOob s = false → m.subOob j = false →
      setSlotSub A m s j x = emit A au x ∧ setSlotSub A m s j y = emit A au y) := by
  have hgood := (inv_reachable A n p m hr).good sl (List.mem_of_getElem? hsl) au (List.mem_of_getElem? hau)
  refine ⟨emit_mono L au x y hgood hu hg hxy, ?_⟩
  intro h1 h2
  simp [setSlotSub, h1, h2, hsl, hau]

/-- **default_gain_linear** ("at the default gain and offset, maps slot values 0..1 linearly
    onto min..max"), exactly, over `Rat`: for a used linear-scale automation of a reachable
    state with gain 100 and offset 0 the emitted message is `linearMsg`: the value
    `min + x*(max-min)` (rounded half away from zero for integers, compared with 1/2 for
    toggles whose range is 0..1). -/
theorem default_gain_linear (n p : Nat) (m : Mgr Rat) (hr : Reachable exact n p m)
    (sl : Slot Rat) (hsl : sl ∈ m.slots) (au : Automation Rat) (hau : au ∈ sl.autos)
    (hu : au.used = true) (hg : au.gain = 100) (ho : au.offset = 0) (hl : au.logScale = false)
    (x : Rat) (hx0 : 0 ≤ x) (hx1 : x ≤ 1) : emit exact au x = [linearMsg au x] := by
  obtain ⟨hfp, hcp⟩ := ((inv_reachable exact n p m hr).good sl hsl au hau).1 hu
  obtain ⟨hty, hm⟩ := fromPort_facts exact_laws au hfp
  rw [hg, ho] at hcp
  exact emit_default_linear au x hu hty hl hcp (by simpa [exact] using hm) hx0 hx1

/-- **ieee_model_laws**: the arithmetic the driver runs (IEEE-754 rounding over `Rat`,
    RtoscModel/AutoFloat.lean) satisfies `Laws`, for every table of `logf` values; hence
    `emit_in_range_right_type` and `emit_monotone` hold of the very model that is compared
    bit for bit with the implementation. -/
theorem ieee_model_laws (tab : List (Rat × Rat)) : Laws (IEEE.ieee tab) := IEEE.ieee_laws tab

/-! ### Non-vacuity -/

/-- the order laws are satisfiable: exact rational arithmetic has them -/
example : Laws exact := exact_laws

/-- integer-valued bounds are fixed by `(int)roundf(·)`, so for such parameters `MsgOK`
    bounds the emitted integer by min and max themselves -/
example : exact.toInt (exact.roundf (127 : Rat)) = 127 ∧ exact.toInt (exact.roundf (-64 : Rat)) = -64 := by
  decide +kernel

def exPortF : PortInfo Rat :=
  { hasF := true, hasT := false, min := some (-1), max := some 10, logmin := none,
    scaleLog := false, internal := false, noLearn := false }
def exPortI : PortInfo Rat :=
  { hasF := false, hasT := false, min := some 0, max := some 127, logmin := none,
    scaleLog := false, internal := false, noLearn := false }

/-- the F16 witness: two learn requests, an unrelated clearSlot, then two unbound CCs -/
def exHistory : List (Op Rat) :=
  [.bind 0 [47, 112, 97] (some exPortI) true, .bind 1 [47, 112, 98] (some exPortF) true,
   .clearSlot 2, .midi 0 7 64, .midi 0 8 127, .midi 0 8 0, .gain 1 0 50, .setSlot 1 (1/2)]

example : ∀ op ∈ exHistory, OpWF exact op := by
  intro op hop
  simp only [exHistory, List.mem_cons, List.not_mem_nil, or_false] at hop
  rcases hop with rfl | rfl | rfl | rfl | rfl | rfl | rfl | rfl <;> simp only [OpWF] <;> try decide
  · refine ⟨by decide, ?_⟩
    intro p hp; cases hp; refine ⟨?_, by decide⟩
    intro mn mx h1 h2; cases h1; cases h2; exact ⟨by decide, by intro l hl; cases hl⟩
  · refine ⟨by decide, ?_⟩
    intro p hp; cases hp; refine ⟨?_, by decide⟩
    intro mn mx h1 h2; cases h1; cases h2; exact ⟨by decide, by intro l hl; cases hl⟩

/-- after the clear both requests are still numbered 1, 2 (the unrepaired code gives 0, 1);
    the two controllers are then learned in request order and the second one drives slot 1 -/
example : (run exact (Mgr.init exact 3 2) (exHistory.take 3)).map (fun r => keys r.1) =
    some [(1, -1, -1), (2, -1, -1), (-1, -1, -1)] := by decide +kernel
example : (run exact (Mgr.init exact 3 2) (exHistory.take 5)).map (fun r => keys r.1) =
    some [(-1, 7, -1), (-1, 8, -1), (-1, -1, -1)] := by decide +kernel
example : (run exact (Mgr.init exact 3 2) exHistory).map
      (fun r => r.2.map (fun ms => ms.map (fun msg => (msg.addr, msg.ty)))) =
    some [[], [], [], [([47, 112, 97], 'i')], [([47, 112, 98], 'f')], [([47, 112, 98], 'f')], [],
          [([47, 112, 98], 'f')]] := by decide +kernel

/-- the binding table after the history: slot 0 sub 0 is bound to /pa, slot 1 sub 0 to /pb,
    nothing else is bound (the clearSlot of slot 2, the learning and the gain change nothing) -/
example : (run exact (Mgr.init exact 3 2) exHistory).map
      (fun r => (boundsOf r.1).map (fun row => row.map (fun b => b.map (·.1)))) =
    some [[some [47, 112, 97], none], [some [47, 112, 98], none], [none, none]] := by decide +kernel

/-- `MsgOKPort` is satisfiable and says what one expects: 64 may be sent to the integer
    parameter 0..127 under its own address … -/
example : MsgOKPort exact [47, 112, 97] exPortI { addr := [47, 112, 97], ty := 'i', val := .int 64 } :=
  ⟨rfl, 0, 127, by decide +kernel, Or.inl ⟨by decide, rfl, rfl, 64, rfl, by decide +kernel, by decide +kernel⟩⟩

/-- … but neither 128, nor a float, nor another address -/
example : ¬ MsgOKPort exact [47, 112, 97] exPortI { addr := [47, 112, 97], ty := 'i', val := .int 128 } := by
  rintro ⟨_, lo, hi, hr, h⟩
  have e : portRange exact exPortI = some (0, 127) := by decide +kernel
  rw [e] at hr
  cases hr
  rcases h with ⟨_, _, _, n, hn, _, h2⟩ | ⟨_, h, _⟩ | ⟨h, _⟩ | ⟨h, _⟩ | ⟨h, _⟩
  · cases hn
    have : exact.toInt (exact.roundf (127 : Rat)) = 127 := by decide +kernel
    rw [this] at h2
    omega
  · exact absurd h (by decide)
  · exact absurd h (by decide)
  · exact absurd h (by decide)
  · exact absurd h (by decide)

example : ¬ MsgOKPort exact [47, 112, 97] exPortI { addr := [47, 112, 98], ty := 'i', val := .int 64 } := by
  rintro ⟨h, _⟩; exact absurd h (by decide)

end Rtosc.Auto
