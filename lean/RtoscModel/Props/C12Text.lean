/-
  C12 — the text level: "the savefile produced for it, loaded into a freshly default-initialised
  instance, reproduces exactly that state", stated about the *text* `save_to_file` returns and
  `load_from_file` reads, with C10's round trip as the lemma for the text stages.

  The text stage is RtoscModel/Save/Text.lean: a line is `rtosc_print_message`'s output for the
  address and the argument values under the default print options (what `get_changed_values` does
  with `rtosc_print_arg_vals`), the file is the two header lines and the lines; loading is the two
  header `sscanf`s (transcribed by hand) and the message loop of `dispatch_printed_messages` over
  C10's models of `rtosc_count_printed_arg_vals_of_msg` and `rtosc_scan_message`, then
  `App.loadFile` on the scanned lines.  Proofs: Proofs/SaveTextMsg.lean (C10's scanner and checker
  loops re-run for a message *inside* a file: preceded by the newline of the header, followed by the
  newline and the '/' of the next message — C10's theorems are about a text scanned to its end, their
  building blocks `ArgOK` / `PrintsArg` / `printLoop_spec_args` / the token theorems `printsTok_*`
  hold for any continuation) and Proofs/SaveText.lean.

  What is covered (`LineTextOK`, `ValTextOK`): scalar ports of every kind — int (`rParamI`, every
  int32), char (`rParam`: NUL, 7..13, 32..126), float (`rParamF`: every finite value, printed lossless
  `0.10 (0x1.99999ap-4)`), toggle, option (symbol or int), string (`rString`: printable bytes and C
  escapes: quotes, backslashes, '%', tabs, newlines with their continuation lines) — and array ports
  whose printed elements contain no five consecutive values of one type tag (the printer compresses
  runs `[5x7]` / `[1 ... 6]` from five values on, and C10 has no theorem for runs inside arrays):
  up to four printed elements for int/char/float/option/string arrays, any length for toggle arrays
  without five equal neighbours.  Not covered: ±infinity and NaN (C12-K9: +infinity does not load,
  `posinf_text_counterexample`), chars 1..6, 14..31, 127, bytes outside 7..13 / 32..126 in strings
  and symbols, ints outside int32 (no OSC message carries them), longer arrays.
-/
import RtoscModel.Props.C12
import RtoscModel.Proofs.SaveText
namespace Rtosc.C12
open Rtosc Rtosc.Save Rtosc.Save.Text Rtosc.Libc Rtosc.Pretty

/-- **saved_line_scans_back** ("the savefile produced for it, loaded …": one line through the text
    stages): a covered line has a text; wherever that text stands in a file — behind white space
    `lead` (the newline that ends the header), in front of `tl` = nothing or the newline and the '/' of
    the next message — `rtosc_count_printed_arg_vals_of_msg` counts its argument values,
    `rtosc_scan_message` consumes exactly the white space, the text and the newline, and returns the
    line's address and values. -/
theorem saved_line_scans_back (l : Line) (h : LineTextOK l) :
    ∃ (t : Bytes) (cells : List ArgVal.Cell), lineText l = .ok t ∧
      ∀ (lead tl : Bytes), (∀ c ∈ lead, isspace c = true) → lead.length ≤ 1 → MsgTail tl →
        countPrintedArgValsOfMsg (lead ++ (t ++ tl)) = .ok (cells.length : Int) ∧
        scanMessage (lead ++ (t ++ tl)) nameBufSize cells.length =
          .ok (lead.length + t.length + wsLen tl, pathBytes l.addr, cells) ∧
        bytesPath (pathBytes l.addr) = l.addr ∧ argsOfCells cells = .ok l.args := by
  obtain ⟨t, ht, hs⟩ := lineText_msgText l h
  refine ⟨t, (groupsOf l.args).flatten, ht, ?_⟩
  intro lead tl hlead hl1 htl
  have hal : lead.length + (pathBytes l.addr).length < nameBufSize := by
    have := hs.addr_len; omega
  obtain ⟨h1, h2⟩ := hs.msg.scans lead hlead htl nameBufSize hal
  exact ⟨h1, h2, hs.addr_back, hs.back⟩

/-- the line alone (C10's `message_roundtrip` shape): the whole text is consumed -/
theorem saved_line_roundtrip (l : Line) (h : LineTextOK l) :
    ∃ (t : Bytes) (cells : List ArgVal.Cell), lineText l = .ok t ∧
      countPrintedArgValsOfMsg t = .ok (cells.length : Int) ∧
      scanMessage t nameBufSize cells.length = .ok (t.length, pathBytes l.addr, cells) ∧
      bytesPath (pathBytes l.addr) = l.addr ∧ argsOfCells cells = .ok l.args := by
  obtain ⟨t, cells, ht, hall⟩ := saved_line_scans_back l h
  obtain ⟨h1, h2, h3, h4⟩ := hall [] [] (by simp) (by simp) (Or.inl rfl)
  refine ⟨t, cells, ht, ?_, ?_, h3, h4⟩
  · simpa using h1
  · simpa [wsLen] using h2

/-! ### which lines of a savefile are covered, port by port -/

/-- the condition on one port of the walk in state `s`: its address is a text address; a scalar
    port's value — as `map_arg_vals` hands it to the printer — is a covered value; every prefix of an
    array port's elements the file may spell out (`saved_value_array`: elements `0 … n-1`) is a
    covered array -/
def ItemTextOK (app : App) (s : State) : Item → Prop
  | .scalar i => AddrTextOK (app.param i).addr ∧ ValTextOK (mapArgVal (app.param i).kind (s i))
  | .array base first len => AddrTextOK base ∧ ∀ n, 0 < n → n ≤ len →
      LineTextOK ⟨base, .arr ((List.range n).map fun k => mapArgVal (app.param (first + k)).kind (s (first + k)))⟩

/-- **the lines of a savefile are covered** when every port of the walk is (`ItemTextOK`) -/
theorem saved_lines_textOK (app : App) (hwf : app.WF) (s : State) (hit : ∀ it ∈ app.walk, ItemTextOK app s it) :
    ∀ l ∈ app.save s, LineTextOK l := by
  intro l hl
  obtain ⟨it, hmem, haddr⟩ := saved_only_ports app hwf s l hl
  cases it with
  | scalar i =>
    have hv := saved_value app hwf s i hmem l hl haddr
    obtain ⟨ha, hval⟩ := hit _ hmem
    subst hv
    exact ⟨ha, _, rfl, hval⟩
  | array base first len =>
    obtain ⟨n, h0, hn, hv, _⟩ := saved_value_array app hwf s base first len hmem l hl haddr
    obtain ⟨_, harr⟩ := hit _ hmem
    subst hv
    exact harr n h0 hn

/-- the covered values, kind by kind (what `ValTextOK (mapArgVal kind v)` asks of a stored value) -/
theorem valTextOK_by_kind :
    (∀ mn mx i, ValTextOK (mapArgVal (.int mn mx) (.int i)) ↔ (-2147483648 ≤ i ∧ i ≤ 2147483647)) ∧
    (∀ mn mx i, ValTextOK (mapArgVal (.ichar mn mx) (.int i)) ↔ (-2147483648 ≤ i ∧ i ≤ 2147483647)) ∧
    (∀ c, ValTextOK (mapArgVal .chr (.chr c)) ↔ (c = 0 ∨ (7 ≤ c ∧ c ≤ 13) ∨ (32 ≤ c ∧ c ≤ 126))) ∧
    (∀ mn mx b, ValTextOK (mapArgVal (.flt mn mx) (.flt b)) ↔ f32.expField b.toNat ≠ 255) ∧
    (∀ b, ValTextOK (mapArgVal .tog (.bool b))) ∧
    (∀ n bs, ValTextOK (mapArgVal (.str n) (.str bs)) ↔ ∀ b ∈ bs, (7 ≤ b ∧ b ≤ 13) ∨ (32 ≤ b ∧ b ≤ 126)) ∧
    (∀ names (i : Int), 0 ≤ i → i.toNat < names.length →
      (ValTextOK (mapArgVal (.opt names) (.int i)) ↔
        ∀ c ∈ names.getD i.toNat [], c.toNat < 256 ∧ ((7 ≤ byteOfChar c ∧ byteOfChar c ≤ 13) ∨ (32 ≤ byteOfChar c ∧ byteOfChar c ≤ 126)))) ∧
    (∀ names (i : Int), ¬ (0 ≤ i ∧ i.toNat < names.length) →
      (ValTextOK (mapArgVal (.opt names) (.int i)) ↔ (-2147483648 ≤ i ∧ i ≤ 2147483647))) := by
  refine ⟨fun _ _ _ => Iff.rfl, fun _ _ _ => Iff.rfl, fun _ => Iff.rfl, fun _ _ _ => Iff.rfl, fun _ => trivial,
    fun _ _ => Iff.rfl, ?_, ?_⟩
  · intro names i h0 h1
    simp only [mapArgVal, h0, h1, and_self, ↓reduceIte]
    exact Iff.rfl
  · intro names i h
    simp only [mapArgVal, h, ↓reduceIte]
    exact Iff.rfl

/-! ### the file -/

/-- **the text stages are transparent** (C10's round trip as the lemma for the text level): for a
    state whose saved lines are covered, `load_from_file` applied to the text of `save_to_file` is
    `App.loadFile` applied to the abstract file — whatever instance it is loaded into. -/
theorem load_text_of_save_text (app : App) (rtoscVer appVer : Nat × Nat × Nat)
    (hrv : verOk rtoscVer = true) (hav : verOk appVer = true) (hname : NameTextOK app.name)
    (s : State) (hlines : ∀ l ∈ app.save s, LineTextOK l) (t : State) :
    ∃ text, app.saveText rtoscVer appVer s = .ok text ∧
      app.loadText text t = .ok (app.loadFile (app.saveFile rtoscVer appVer s) t) :=
  loadText_saveText app rtoscVer appVer hrv hav hname s hlines t

/-- The full statement at the level of file text: no condition on the values.  NOT proved; a state
    holding +infinity does not satisfy its conclusion (`posinf_text_counterexample`, C12-K9).
    `load_save_restores_text_partial` is the proved part. -/
def load_save_restores_text_statement : Prop :=
  ∀ (app : App), app.WF → app.MetaCovers → MetaRanked app.apropos →
  ∀ (rtoscVer appVer : Nat × Nat × Nat), verOk rtoscVer = true → verOk appVer = true → NameTextOK app.name →
  ∀ (s : State), app.Reachable s →
    ∃ text, app.saveText rtoscVer appVer s = .ok text ∧
      app.loadText text app.init = .ok (.ok s (app.save s).length)

/-- **load_save_restores_text_partial** ("the savefile produced for it, loaded into a freshly
    default-initialised instance, reproduces exactly that state, and loading reports one message per
    saved line" — about the file *text*): for every application satisfying the hypotheses of
    `load_save_restores` whose name is a word, and every reachable state whose saved lines are covered
    by C10's theorems (`LineTextOK`; `saved_lines_textOK` reduces it to the ports, `valTextOK_by_kind`
    to the values): `save_to_file` returns a text, and `load_from_file` on that text, starting from a
    fresh instance, restores the state and returns the number of lines. -/
theorem load_save_restores_text_partial (app : App) (hwf : app.WF) (hcov : app.MetaCovers) (hrank : MetaRanked app.apropos)
    (rtoscVer appVer : Nat × Nat × Nat) (hrv : verOk rtoscVer = true) (hav : verOk appVer = true)
    (hname : NameTextOK app.name) (s : State) (hs : app.Reachable s)
    (hlines : ∀ l ∈ app.save s, LineTextOK l) :
    ∃ text, app.saveText rtoscVer appVer s = .ok text ∧
      app.loadText text app.init = .ok (.ok s (app.save s).length) := by
  obtain ⟨text, h1, h2⟩ := loadText_saveText app rtoscVer appVer hrv hav hname s hlines app.init
  refine ⟨text, h1, ?_⟩
  rw [h2, load_save_restores app hwf hcov hrank rtoscVer appVer hrv hav s hs]

/-- the same with the condition stated on the ports of the walk -/
theorem load_save_restores_text_ports (app : App) (hwf : app.WF) (hcov : app.MetaCovers) (hrank : MetaRanked app.apropos)
    (rtoscVer appVer : Nat × Nat × Nat) (hrv : verOk rtoscVer = true) (hav : verOk appVer = true)
    (hname : NameTextOK app.name) (s : State) (hs : app.Reachable s)
    (hit : ∀ it ∈ app.walk, ItemTextOK app s it) :
    ∃ text, app.saveText rtoscVer appVer s = .ok text ∧
      app.loadText text app.init = .ok (.ok s (app.save s).length) :=
  load_save_restores_text_partial app hwf hcov hrank rtoscVer appVer hrv hav hname s hs
    (saved_lines_textOK app hwf s hit)

/-- **untouched_saves_header_only**, as text: an untouched application saves exactly the two header lines -/
theorem untouched_text_is_header (app : App) (hwf : app.WF) (rtoscVer appVer : Nat × Nat × Nat) :
    app.saveText rtoscVer appVer app.init = .ok (header1 rtoscVer ++ 10 :: header2 app.name appVer ++ [10]) := by
  have h := untouched_saves_header_only app hwf rtoscVer appVer
  unfold App.saveText fileText
  rw [h]
  rfl

/-! ### non-vacuity -/

open Rtosc.Save.Example in
/-- the example state of Props/C12.lean (`/p 1`, `/s/a 7`) satisfies the text hypotheses -/
theorem ex_lines_ok : ∀ l ∈ exApp.save exState, LineTextOK l := by
  have hs : exApp.save exState = [⟨"/p".toList, .plain [.int 1]⟩, ⟨"/s/a".toList, .plain [.int 7]⟩] := by decide
  rw [hs]
  intro l hl
  simp only [List.mem_cons, List.not_mem_nil, or_false] at hl
  rcases hl with rfl | rfl
  · exact ⟨⟨rfl, by decide, by decide⟩, _, rfl, by unfold ValTextOK; decide⟩
  · exact ⟨⟨rfl, by decide, by decide⟩, _, rfl, by unfold ValTextOK; decide⟩

open Rtosc.Save.Example in
example : NameTextOK exApp.name := ⟨by decide, by decide, by decide⟩

open Rtosc.Save.Example in
/-- the file text of that state -/
example : exApp.saveText (0, 3, 1) (1, 2, 3) exState =
    .ok (lit "% RT OSC v0.3.1 savefile\n% ex v1.2.3\n/p 1\n/s/a 7") := by decide +kernel

open Rtosc.Save.Example in
example : ∃ text, exApp.saveText (0, 3, 1) (1, 2, 3) exState = .ok text ∧
    exApp.loadText text exApp.init = .ok (.ok exState 2) :=
  load_save_restores_text_partial exApp ex_wf ex_covers ex_ranked _ _ rfl rfl ⟨by decide, by decide, by decide⟩
    exState ⟨_, rfl⟩ ex_lines_ok

/-- a line with a string that holds a quote, a backslash, '%', a tab and a newline (the printer starts
    a continuation line behind the newline), and a line with an array of three floats -/
def exStrLine : Line := ⟨"/name".toList, .plain [.str (lit "a\"b\\c %d\t\nz")]⟩
def exArrLine : Line := ⟨"/gains".toList, .arr [.flt 0x3f000000, .flt 0xbdcccccd, .flt 0x00000001]⟩

example : lineText exStrLine = .ok (lit "/name \"a\\\"b\\\\c %d\\t\\n\"\\\n    \"z\"") := by decide +kernel
example : lineText exArrLine = .ok (lit "/gains [0.50 (0x1p-1) -0.10 (-0x1.99999ap-4) 0.00 (0x1p-149)]") := by
  decide +kernel

example : LineTextOK exStrLine :=
  ⟨⟨rfl, by decide, by decide⟩, _, rfl, by
    show ∀ b ∈ lit "a\"b\\c %d\t\nz", StrByteOK b
    have : ∀ b ∈ lit "a\"b\\c %d\t\nz", (7 ≤ b ∧ b ≤ 13) ∨ (32 ≤ b ∧ b ≤ 126) := by decide +kernel
    exact this⟩

example : LineTextOK exArrLine := by
  refine ⟨⟨rfl, by decide, by decide⟩, by simp, ?_, ?_, ?_⟩
  · intro v hv
    simp only [List.mem_cons, List.not_mem_nil, or_false] at hv
    rcases hv with rfl | rfl | rfl <;> (show f32.expField _ ≠ 255; decide +kernel)
  · intro v hv
    simp only [List.mem_cons, List.not_mem_nil, or_false] at hv
    rcases hv with rfl | rfl | rfl <;> rfl
  · intro i hi
    have h : ∀ i : Fin 3, shortRun (([.flt 0x3f000000, .flt 0xbdcccccd, .flt 0x00000001] : List Val).map cellOfVal |>.drop i.val) = true := by
      decide +kernel
    exact h ⟨i, by simpa using hi⟩

/-! ### known finding C12-K9 at the text level -/

/-- **C12-K9 in the text model**: the state of `posinf_not_restored_counterexample` (one float port
    holding +infinity) is saved as the line `/f inf (inf)`; `load_from_file` on that text returns a
    negative result: the checker takes `inf` for the keyword of the 'I' argument and rejects `(inf)`.
    So `load_save_restores_text_statement` is false without a condition on the values. -/
theorem posinf_text_counterexample :
    k9App.saveText (0, 3, 1) (1, 2, 3) k9State = .ok (lit "% RT OSC v0.3.1 savefile\n% k9 v1.2.3\n/f inf (inf)") ∧
    (match k9App.loadText (lit "% RT OSC v0.3.1 savefile\n% k9 v1.2.3\n/f inf (inf)") k9App.init with
     | .ok .fail => true
     | _ => false) = true := by
  constructor <;> decide +kernel

end Rtosc.C12
