/-
  C12 — the text level: "the savefile produced for it, loaded into a freshly default-initialised
  instance, reproduces exactly that state", stated about the *text* `save_to_file` returns and
  `load_from_file` reads, with C10's round trip as the lemma for the text stages.

  The text stage is RtoscModel/Save/Text.lean: a line is `rtosc_print_message`'s output for the
  address and the argument values under the default print options (what `get_changed_values` does
  with `rtosc_print_arg_vals`), the file is the two header lines and the lines; loading is the two
  header `sscanf`s (transcribed by hand) and the message loop of `dispatch_printed_messages` over
  C10's models of `rtosc_count_printed_arg_vals_of_msg` and `rtosc_scan_message`, then
  `App.loadFile` on the scanned lines.  Proofs: Proofs/SaveTextMsg.lean (C10's scanner and checker
  loops re-run for a message *inside* a file: preceded by the newline of the header, followed by the
  newline and the '/' of the next message — C10's theorems are about a text scanned to its end, their
  building blocks `ArgOK` / `PrintsArg` / `printLoop_spec_args` / the token theorems `printsTok_*`
  hold for any continuation), Proofs/SaveTextRunsMsg.lean (the same for an array line with compressed
  runs, from C10's `printLoop_asegs` / `scanArgVal_arrSegs` / `skipNext_arrSegs`),
  Proofs/SaveTextExpand.lean (the dispatch loop's iterator, C16's `ArgVal.iterate`, expands the
  scanned repetition and range blocks to the saved values), Proofs/SaveTextCut.lean (how the printer
  cuts an array into segments: `CutOK`, the decision procedure `cutOf`, criteria on the values) and
  Proofs/SaveText.lean.

  What is covered (`LineTextOK`, `ValTextOK`): scalar ports of every kind — int (`rParamI`, every
  int32), char (`rParam`: NUL, 7..13, 32..126), float (`rParamF`: every finite value, printed lossless
  `0.10 (0x1.99999ap-4)`), toggle, option (symbol or int), string (`rString`: printable bytes and C
  escapes: quotes, backslashes, '%', tabs, newlines with their continuation lines) — and array ports
  of any length whose elements the printer cuts into plain values, constant runs of five or more
  equal values (`[5x7]`, `[6x0.50 (0x1p-1)]`, `[5xtrue 6xfalse]`, option symbols, strings) and int32
  arithmetic runs of five or more values (`[1 ... 6]`, `[3 5 ... 13]`), in any number and order
  (`ArrCutOK`: the answers of `rtosc_convert_to_range` on the elements left in the array; decided for
  a concrete array by `cutOf` — `arrCutOK_of_cutOf` —, derived from the values by
  `SegStep.tok_of_short` / `SegStep.crun_of_next` / `SegStep.irun_of_next`; the former clause "no five
  consecutive elements of one type tag" is the instance `arrCutOK_of_noLongRun`).  The scanner
  returns repetition and range blocks for the runs; the theorems include their expansion by the
  iterator of `dispatch_printed_messages`.  Not covered: ±infinity and NaN (C12-K9: +infinity does
  not load, `posinf_text_counterexample`), chars 1..6, 14..31, 127, bytes outside 7..13 / 32..126 in
  strings and symbols, ints outside int32 (no OSC message carries them), an arithmetic run of five
  or more chars inside an array (`['a' ... 'f']`: C10's run segments are int32 only; no savefile has
  arrays of 'h' values or nested arrays).
-/
import RtoscModel.Props.C12
import RtoscModel.Proofs.SaveText
import RtoscModel.Proofs.SaveTextCrit
import RtoscModel.Proofs.SaveTextTotal
import RtoscModel.Proofs.SaveExampleRuns
namespace Rtosc.C12
open Rtosc Rtosc.Save Rtosc.Save.Text Rtosc.Libc Rtosc.Pretty

/-- **saved_line_scans_back** ("the savefile produced for it, loaded …": one line through the text
    stages): a covered line has a text; wherever that text stands in a file — behind white space
    `lead` (the newline that ends the header), in front of `tl` = nothing or the newline and the '/' of
    the next message — `rtosc_count_printed_arg_vals_of_msg` counts its argument values,
    `rtosc_scan_message` consumes exactly the white space, the text and the newline, and returns the
    line's address and values.  For an array line with compressed runs `cells` holds the repetition
    and range blocks the scanner writes (`[5x7 1 ... 6]`: `- 5 7 - 6 1 1` in cells);
    `argsOfCells` is what the dispatch loop takes out of them with `rtosc_arg_val_itr`: the saved
    elements. -/
theorem saved_line_scans_back (l : Line) (h : LineTextOK l) :
    ∃ (t : Bytes) (cells : List ArgVal.Cell), lineText l = .ok t ∧
      ∀ (lead tl : Bytes), (∀ c ∈ lead, isspace c = true) → lead.length ≤ 1 → MsgTail tl →
        countPrintedArgValsOfMsg (lead ++ (t ++ tl)) = .ok (cells.length : Int) ∧
        scanMessage (lead ++ (t ++ tl)) nameBufSize cells.length =
          .ok (lead.length + t.length + wsLen tl, pathBytes l.addr, cells) ∧
        bytesPath (pathBytes l.addr) = l.addr ∧ argsOfCells cells = .ok l.args := by
  obtain ⟨t, ht, hs⟩ := lineText_msgText l h
  obtain ⟨cells, hsc, hback⟩ := hs.scans
  refine ⟨t, cells, ht, ?_⟩
  intro lead tl hlead hl1 htl
  have hal : lead.length + (pathBytes l.addr).length < nameBufSize := by
    have := hs.addr_len; omega
  obtain ⟨h1, h2⟩ := hsc.2 lead hlead tl htl nameBufSize hal
  exact ⟨h1, h2, hs.addr_back, hback⟩

/-- the line alone (C10's `message_roundtrip` shape): the whole text is consumed -/
theorem saved_line_roundtrip (l : Line) (h : LineTextOK l) :
    ∃ (t : Bytes) (cells : List ArgVal.Cell), lineText l = .ok t ∧
      countPrintedArgValsOfMsg t = .ok (cells.length : Int) ∧
      scanMessage t nameBufSize cells.length = .ok (t.length, pathBytes l.addr, cells) ∧
      bytesPath (pathBytes l.addr) = l.addr ∧ argsOfCells cells = .ok l.args := by
  obtain ⟨t, cells, ht, hall⟩ := saved_line_scans_back l h
  obtain ⟨h1, h2, h3, h4⟩ := hall [] [] (by simp) (by simp) (Or.inl rfl)
  refine ⟨t, cells, ht, ?_, ?_, h3, h4⟩
  · simpa using h1
  · simpa [wsLen] using h2

/-! ### which lines of a savefile are covered, port by port -/

/-- the condition on one port of the walk in state `s`: its address is a text address; a scalar
    port's value — as `map_arg_vals` hands it to the printer — is a covered value; every prefix of an
    array port's elements the file may spell out (`saved_value_array`: elements `0 … n-1`) is a
    covered array -/
def ItemTextOK (app : App) (s : State) : Item → Prop
  | .scalar i => AddrTextOK (app.param i).addr ∧ ValTextOK (mapArgVal (app.param i).kind (s i))
  | .array base first len => AddrTextOK base ∧ ∀ n, 0 < n → n ≤ len →
      LineTextOK ⟨base, .arr ((List.range n).map fun k => mapArgVal (app.param (first + k)).kind (s (first + k)))⟩

/-- **the lines of a savefile are covered** when every port of the walk is (`ItemTextOK`) -/
theorem saved_lines_textOK (app : App) (hwf : app.WF) (s : State) (hit : ∀ it ∈ app.walk, ItemTextOK app s it) :
    ∀ l ∈ app.save s, LineTextOK l := by
  intro l hl
  obtain ⟨it, hmem, haddr⟩ := saved_only_ports app hwf s l hl
  cases it with
  | scalar i =>
    have hv := saved_value app hwf s i hmem l hl haddr
    obtain ⟨ha, hval⟩ := hit _ hmem
    subst hv
    exact ⟨ha, _, rfl, hval⟩
  | array base first len =>
    obtain ⟨n, h0, hn, hv, _⟩ := saved_value_array app hwf s base first len hmem l hl haddr
    obtain ⟨_, harr⟩ := hit _ hmem
    subst hv
    exact harr n h0 hn

/-- the covered values, kind by kind (what `ValTextOK (mapArgVal kind v)` asks of a stored value) -/
theorem valTextOK_by_kind :
    (∀ mn mx i, ValTextOK (mapArgVal (.int mn mx) (.int i)) ↔ (-2147483648 ≤ i ∧ i ≤ 2147483647)) ∧
    (∀ mn mx i, ValTextOK (mapArgVal (.ichar mn mx) (.int i)) ↔ (-2147483648 ≤ i ∧ i ≤ 2147483647)) ∧
    (∀ c, ValTextOK (mapArgVal .chr (.chr c)) ↔ (c = 0 ∨ (7 ≤ c ∧ c ≤ 13) ∨ (32 ≤ c ∧ c ≤ 126))) ∧
    (∀ mn mx b, ValTextOK (mapArgVal (.flt mn mx) (.flt b)) ↔ f32.expField b.toNat ≠ 255) ∧
    (∀ b, ValTextOK (mapArgVal .tog (.bool b))) ∧
    (∀ n bs, ValTextOK (mapArgVal (.str n) (.str bs)) ↔ ∀ b ∈ bs, (7 ≤ b ∧ b ≤ 13) ∨ (32 ≤ b ∧ b ≤ 126)) ∧
    (∀ names (i : Int), 0 ≤ i → i.toNat < names.length →
      (ValTextOK (mapArgVal (.opt names) (.int i)) ↔
        ∀ c ∈ names.getD i.toNat [], c.toNat < 256 ∧ ((7 ≤ byteOfChar c ∧ byteOfChar c ≤ 13) ∨ (32 ≤ byteOfChar c ∧ byteOfChar c ≤ 126)))) ∧
    (∀ names (i : Int), ¬ (0 ≤ i ∧ i.toNat < names.length) →
      (ValTextOK (mapArgVal (.opt names) (.int i)) ↔ (-2147483648 ≤ i ∧ i ≤ 2147483647))) := by
  refine ⟨fun _ _ _ => Iff.rfl, fun _ _ _ => Iff.rfl, fun _ => Iff.rfl, fun _ _ _ => Iff.rfl, fun _ => trivial,
    fun _ _ => Iff.rfl, ?_, ?_⟩
  · intro names i h0 h1
    simp only [mapArgVal, h0, h1, and_self, ↓reduceIte]
    exact Iff.rfl
  · intro names i h
    simp only [mapArgVal, h, ↓reduceIte]
    exact Iff.rfl

/-! ### which array lines are covered (`ArrCutOK`), from the values -/

theorem typesMatch_self (a : UInt8) : typesMatch a a = true := by simp [typesMatch]

/-- **array_line_decided** ("the savefile produced for it": array ports, any length): an array line of
    covered values of one type is covered when the decision procedure `arrCutB` accepts its elements:
    the model of `rtosc_convert_to_range`, run position by position on the elements left in the array as
    the printer's array loop does, answers "nothing", "a constant run" or "an int32 arithmetic run
    within C10's overflow guards" every time (each answer is checked against the elements).  It rejects
    exactly the other answers: an arithmetic run of chars. -/
theorem array_line_decided (addr : Path) (ha : AddrTextOK addr) (vs : List Val) (hne : vs ≠ [])
    (hv : ∀ v ∈ vs, ValTextOK v)
    (hty : ∀ v ∈ vs, typesMatch ((vs.map cellOfVal).headD (ArgVal.Cell.flag .N)).type (cellOfVal v).type = true)
    (h : arrCutB vs = true) : LineTextOK ⟨addr, .arr vs⟩ :=
  ⟨ha, hne, hv, hty, arrCutOK_of_arrCutB vs h⟩

/-- **array_line_no_long_run**: the lines covered before runs inside arrays were proved — no five
    consecutive elements of one type tag — are an instance (every element is printed as it is) -/
theorem array_line_no_long_run (addr : Path) (ha : AddrTextOK addr) (vs : List Val) (hne : vs ≠ [])
    (hv : ∀ v ∈ vs, ValTextOK v)
    (hty : ∀ v ∈ vs, typesMatch ((vs.map cellOfVal).headD (ArgVal.Cell.flag .N)).type (cellOfVal v).type = true)
    (h : NoLongRun (vs.map cellOfVal)) : LineTextOK ⟨addr, .arr vs⟩ :=
  ⟨ha, hne, hv, hty, _, arrCutOK_of_noLongRun vs h⟩

/-- **array_line_constant**: an array of `n ≥ 5` equal elements — any covered value: int, char, finite
    float, toggle, option symbol, string — of any length (up to 2^31-1, the range of the repetition
    count), printed `[nxv]` -/
theorem array_line_constant (addr : Path) (ha : AddrTextOK addr) (n : Nat) (v : Val) (hv : ValTextOK v)
    (h5 : 5 ≤ n) (h2 : n ≤ 2147483647) : LineTextOK ⟨addr, .arr (List.replicate n v)⟩ := by
  refine ⟨ha, ?_, ?_, ?_, _, arrCutOK_const n v hv h5 h2⟩
  · intro h
    have := congrArg List.length h
    simp at this; omega
  · intro w hw
    rw [(List.mem_replicate.mp hw).2]; exact hv
  · intro w hw
    rw [(List.mem_replicate.mp hw).2]
    obtain ⟨m, rfl⟩ : ∃ m, n = m + 1 := ⟨n - 1, by omega⟩
    simp [List.replicate_succ, typesMatch_self]

/-- **array_line_arithmetic**: an int array that is one arithmetic run `a, a+d, …` of `n ≥ 5` elements
    within C10's guards (`RunHyp`: `d ≠ 0`, the elements and the value behind the last one in int32
    range, `(n-1)·|d| < 2^31`, `n < 2^31`), of any length, printed `[a ... z]` or `[a b ... z]` -/
theorem array_line_arithmetic (addr : Path) (ha : AddrTextOK addr) (a d : Int) (n : Nat) (hr : RunHyp a d n) :
    LineTextOK ⟨addr, .arr (arithVals a d n)⟩ := by
  have hn := hr.hn
  refine ⟨ha, ?_, ?_, ?_, _, arrCutOK_arith hr⟩
  · intro h
    have := congrArg List.length h
    simp [arithVals] at this; omega
  · intro w hw
    simp only [arithVals, List.mem_map, List.mem_range] at hw
    obtain ⟨k, hk, rfl⟩ := hw
    exact hr.hrange k (by omega)
  · intro w hw
    simp only [arithVals, List.mem_map, List.mem_range] at hw
    obtain ⟨k, hk, rfl⟩ := hw
    obtain ⟨m, rfl⟩ : ∃ m, n = m + 1 := ⟨n - 1, by omega⟩
    simp only [arithVals, List.range_succ_eq_map, cellOfVal, List.map_cons, List.headD_cons]
    exact typesMatch_self _

/-- **array_cut_extends**: how `ArrCutOK` is derived from the values, element group by element group
    from the right, for arrays of any length: in front of a covered rest `vs`, (1) a value followed by
    fewer than five cells of its type in what is left of the array is printed as it is; (2) `n ≥ 5`
    equal covered values are a constant run when the element behind them is not identical to them
    (`range_args_identical`); (3) an int32 arithmetic run within C10's guards is one segment when the
    element behind it does not continue it. -/
theorem array_cut_extends (vs : List Val) (body : List RSeg) (h : ArrCutOK vs body) :
    (∀ v, shortRun (cellOfVal v :: vs.map cellOfVal) = true → ArrCutOK (v :: vs) (.tok (cellOfVal v) :: body)) ∧
    (∀ n v, ValTextOK v → 5 ≤ n → n ≤ 2147483647 →
      (vs = [] ∨ ∀ more, rangeArgsIdentical (cellOfVal v :: more) (vs.map cellOfVal) = .ok false) →
      ArrCutOK (List.replicate n v ++ vs) (.crun n (cellOfVal v) :: body)) ∧
    (∀ a d n, RunHyp a d n →
      (vs = [] ∨ eqSingle [ArgVal.Cell.int .i (a + (n : Int) * d)] (vs.map cellOfVal) = .ok false) →
      ArrCutOK (arithVals a d n ++ vs) (.irun a d n :: body)) :=
  ⟨fun v hs => h.cons_tok v hs, fun n v hv h5 h2 hn => h.cons_crun n v hv h5 h2 hn,
    fun _ _ _ hr hn => h.cons_irun hr hn⟩

/-! ### kinds whose array lines are covered whatever they hold -/

/-- **array_line_floats** (`rArrayF`): EVERY non-empty array of finite floats, of any length below
    2^31 and any content, is a covered line: `rtosc_convert_to_range` never makes an arithmetic run of
    floats, so the printer's segments are the maximal runs of five or more bit-identical values and
    plain values (`cutC`) -/
theorem array_line_floats (addr : Path) (ha : AddrTextOK addr) (bs : List UInt32) (hne : bs ≠ [])
    (hfin : ∀ b ∈ bs, f32.expField b.toNat ≠ 255) (hlen : bs.length ≤ 2147483647) :
    LineTextOK ⟨addr, .arr (bs.map Val.flt)⟩ := by
  refine ⟨ha, by simpa using hne, ?_, ?_, _, arrCutOK_floats bs hfin hlen⟩
  · intro v hv
    obtain ⟨b, hb, rfl⟩ := List.mem_map.mp hv
    exact hfin b hb
  · intro v hv
    obtain ⟨b, hb, rfl⟩ := List.mem_map.mp hv
    obtain ⟨b0, r, rfl⟩ := List.exists_cons_of_ne_nil hne
    exact typesMatch_self _

/-- **array_line_toggles** (`rArrayT`): EVERY non-empty toggle array, of any length below 2^31: runs of
    five or more equal toggles are printed `nxtrue` / `nxfalse`, everything else as it is (a toggle in
    front of a different one has another type tag: `rtosc_convert_to_range` counts a single cell) -/
theorem array_line_toggles (addr : Path) (ha : AddrTextOK addr) (bs : List Bool) (hne : bs ≠ [])
    (hlen : bs.length ≤ 2147483647) : LineTextOK ⟨addr, .arr (bs.map Val.bool)⟩ := by
  refine ⟨ha, by simpa using hne, ?_, ?_, _, arrCutOK_toggles bs hlen⟩
  · intro v hv
    obtain ⟨b, hb, rfl⟩ := List.mem_map.mp hv
    trivial
  · intro v hv
    obtain ⟨b, hb, rfl⟩ := List.mem_map.mp hv
    obtain ⟨b0, r, rfl⟩ := List.exists_cons_of_ne_nil hne
    cases b0 <;> cases b <;> rfl

/-- **array_line_strings**: EVERY non-empty array of strings of covered bytes, of any length below 2^31 -/
theorem array_line_strings (addr : Path) (ha : AddrTextOK addr) (ss : List Bytes) (hne : ss ≠ [])
    (hok : ∀ s ∈ ss, ∀ b ∈ s, StrByteOK b) (hlen : ss.length ≤ 2147483647) :
    LineTextOK ⟨addr, .arr (ss.map Val.str)⟩ := by
  refine ⟨ha, by simpa using hne, ?_, ?_, _, arrCutOK_strs ss hok hlen⟩
  · intro v hv
    obtain ⟨b, hb, rfl⟩ := List.mem_map.mp hv
    exact hok b hb
  · intro v hv
    obtain ⟨b, hb, rfl⟩ := List.mem_map.mp hv
    obtain ⟨b0, r, rfl⟩ := List.exists_cons_of_ne_nil hne
    exact typesMatch_self _

/-- **array_line_symbols** (arrays of `rOption` values printed as symbols): EVERY non-empty array of
    symbols of covered characters, of any length below 2^31 -/
theorem array_line_symbols (addr : Path) (ha : AddrTextOK addr) (ps : List Path) (hne : ps ≠ [])
    (hok : ∀ p ∈ ps, ∀ c ∈ p, CharByte c ∧ StrByteOK (byteOfChar c)) (hlen : ps.length ≤ 2147483647) :
    LineTextOK ⟨addr, .arr (ps.map Val.sym)⟩ := by
  refine ⟨ha, by simpa using hne, ?_, ?_, _, arrCutOK_syms ps hok hlen⟩
  · intro v hv
    obtain ⟨b, hb, rfl⟩ := List.mem_map.mp hv
    exact hok b hb
  · intro v hv
    obtain ⟨b, hb, rfl⟩ := List.mem_map.mp hv
    obtain ⟨b0, r, rfl⟩ := List.exists_cons_of_ne_nil hne
    exact typesMatch_self _

/-- a float value is handed to the printer as it is, whatever the kind of the port (only option ports map
    ints to symbols) -/
theorem mapArgVal_flt (k : Kind) (b : UInt32) : mapArgVal k (.flt b) = .flt b := by
  cases k <;> rfl

theorem mapArgVal_bool (k : Kind) (b : Bool) : mapArgVal k (.bool b) = .bool b := by
  cases k <;> rfl

/-- **float_array_port_ok**: the condition `ItemTextOK` of `load_save_restores_text_ports` for an array
    port holding floats (`rArrayF`) is just: the address is a text address and every element is finite -/
theorem float_array_port_ok (app : App) (s : State) (base : Path) (first len : Nat) (ha : AddrTextOK base)
    (hlen : len ≤ 2147483647) (bits : Nat → UInt32)
    (hk : ∀ k, k < len → s (first + k) = .flt (bits k) ∧ f32.expField (bits k).toNat ≠ 255) :
    ItemTextOK app s (.array base first len) := by
  refine ⟨ha, ?_⟩
  intro n h0 hn
  have hlist : ((List.range n).map fun k => mapArgVal (app.param (first + k)).kind (s (first + k))) =
      ((List.range n).map bits).map Val.flt := by
    rw [List.map_map]
    apply List.map_congr_left
    intro k hk'
    have hkn : k < n := List.mem_range.mp hk'
    simp only [Function.comp, (hk k (by omega)).1, mapArgVal_flt]
  rw [hlist]
  refine array_line_floats base ha _ ?_ ?_ (by simp; omega)
  · intro h
    have := congrArg List.length h
    simp at this; omega
  · intro b hb
    obtain ⟨k, hk', rfl⟩ := List.mem_map.mp hb
    exact (hk k (by have := List.mem_range.mp hk'; omega)).2

/-- **toggle_array_port_ok**: an array port holding toggles (`rArrayT`) needs a text address only -/
theorem toggle_array_port_ok (app : App) (s : State) (base : Path) (first len : Nat) (ha : AddrTextOK base)
    (hlen : len ≤ 2147483647) (tog : Nat → Bool) (hk : ∀ k, k < len → s (first + k) = .bool (tog k)) :
    ItemTextOK app s (.array base first len) := by
  refine ⟨ha, ?_⟩
  intro n h0 hn
  have hlist : ((List.range n).map fun k => mapArgVal (app.param (first + k)).kind (s (first + k))) =
      ((List.range n).map tog).map Val.bool := by
    rw [List.map_map]
    apply List.map_congr_left
    intro k hk'
    have hkn : k < n := List.mem_range.mp hk'
    simp only [Function.comp, hk k (by omega), mapArgVal_bool]
  rw [hlist]
  refine array_line_toggles base ha _ ?_ (by simp; omega)
  intro h
  have := congrArg List.length h
  simp at this; omega

/-! ### the file -/

/-- **the text stages are transparent** (C10's round trip as the lemma for the text level): for a
    state whose saved lines are covered, `load_from_file` applied to the text of `save_to_file` is
    `App.loadFile` applied to the abstract file — whatever instance it is loaded into. -/
theorem load_text_of_save_text (app : App) (rtoscVer appVer : Nat × Nat × Nat)
    (hrv : verOk rtoscVer = true) (hav : verOk appVer = true) (hname : NameTextOK app.name)
    (s : State) (hlines : ∀ l ∈ app.save s, LineTextOK l) (t : State) :
    ∃ text, app.saveText rtoscVer appVer s = .ok text ∧
      app.loadText text t = .ok (app.loadFile (app.saveFile rtoscVer appVer s) t) :=
  loadText_saveText app rtoscVer appVer hrv hav hname s hlines t

/-- The full statement at the level of file text: no condition on the values.  NOT proved; a state
    holding +infinity does not satisfy its conclusion (`posinf_text_counterexample`, C12-K9).
    `load_save_restores_text_partial` is the proved part. -/
def load_save_restores_text_statement : Prop :=
  ∀ (app : App), app.WF → app.MetaCovers → MetaRanked app.apropos →
  ∀ (rtoscVer appVer : Nat × Nat × Nat), verOk rtoscVer = true → verOk appVer = true → NameTextOK app.name →
  ∀ (s : State), app.Reachable s →
    ∃ text, app.saveText rtoscVer appVer s = .ok text ∧
      app.loadText text app.init = .ok (.ok s (app.save s).length)

/-- **load_save_restores_text_partial** ("the savefile produced for it, loaded into a freshly
    default-initialised instance, reproduces exactly that state, and loading reports one message per
    saved line" — about the file *text*): for every application satisfying the hypotheses of
    `load_save_restores` whose name is a word, and every reachable state whose saved lines are covered
    by C10's theorems (`LineTextOK`; `saved_lines_textOK` reduces it to the ports, `valTextOK_by_kind`
    to the values): `save_to_file` returns a text, and `load_from_file` on that text, starting from a
    fresh instance, restores the state and returns the number of lines. -/
theorem load_save_restores_text_partial (app : App) (hwf : app.WF) (hcov : app.MetaCovers) (hrank : MetaRanked app.apropos)
    (rtoscVer appVer : Nat × Nat × Nat) (hrv : verOk rtoscVer = true) (hav : verOk appVer = true)
    (hname : NameTextOK app.name) (s : State) (hs : app.Reachable s)
    (hlines : ∀ l ∈ app.save s, LineTextOK l) :
    ∃ text, app.saveText rtoscVer appVer s = .ok text ∧
      app.loadText text app.init = .ok (.ok s (app.save s).length) := by
  obtain ⟨text, h1, h2⟩ := loadText_saveText app rtoscVer appVer hrv hav hname s hlines app.init
  refine ⟨text, h1, ?_⟩
  rw [h2, load_save_restores app hwf hcov hrank rtoscVer appVer hrv hav s hs]

/-- the same with the condition stated on the ports of the walk -/
theorem load_save_restores_text_ports (app : App) (hwf : app.WF) (hcov : app.MetaCovers) (hrank : MetaRanked app.apropos)
    (rtoscVer appVer : Nat × Nat × Nat) (hrv : verOk rtoscVer = true) (hav : verOk appVer = true)
    (hname : NameTextOK app.name) (s : State) (hs : app.Reachable s)
    (hit : ∀ it ∈ app.walk, ItemTextOK app s it) :
    ∃ text, app.saveText rtoscVer appVer s = .ok text ∧
      app.loadText text app.init = .ok (.ok s (app.save s).length) :=
  load_save_restores_text_partial app hwf hcov hrank rtoscVer appVer hrv hav hname s hs
    (saved_lines_textOK app hwf s hit)

/-- **untouched_saves_header_only**, as text: an untouched application saves exactly the two header lines -/
theorem untouched_text_is_header (app : App) (hwf : app.WF) (rtoscVer appVer : Nat × Nat × Nat) :
    app.saveText rtoscVer appVer app.init = .ok (header1 rtoscVer ++ 10 :: header2 app.name appVer ++ [10]) := by
  have h := untouched_saves_header_only app hwf rtoscVer appVer
  unfold App.saveText fileText
  rw [h]
  rfl

/-! ### non-vacuity -/

open Rtosc.Save.Example in
/-- the example state of Props/C12.lean (`/p 1`, `/s/a 7`) satisfies the text hypotheses -/
theorem ex_lines_ok : ∀ l ∈ exApp.save exState, LineTextOK l := by
  have hs : exApp.save exState = [⟨"/p".toList, .plain [.int 1]⟩, ⟨"/s/a".toList, .plain [.int 7]⟩] := by decide
  rw [hs]
  intro l hl
  simp only [List.mem_cons, List.not_mem_nil, or_false] at hl
  rcases hl with rfl | rfl
  · exact ⟨⟨rfl, by decide, by decide⟩, _, rfl, by unfold ValTextOK; decide⟩
  · exact ⟨⟨rfl, by decide, by decide⟩, _, rfl, by unfold ValTextOK; decide⟩

open Rtosc.Save.Example in
example : NameTextOK exApp.name := ⟨by decide, by decide, by decide⟩

open Rtosc.Save.Example in
/-- the file text of that state -/
example : exApp.saveText (0, 3, 1) (1, 2, 3) exState =
    .ok (lit "% RT OSC v0.3.1 savefile\n% ex v1.2.3\n/p 1\n/s/a 7") := by decide +kernel

open Rtosc.Save.Example in
example : ∃ text, exApp.saveText (0, 3, 1) (1, 2, 3) exState = .ok text ∧
    exApp.loadText text exApp.init = .ok (.ok exState 2) :=
  load_save_restores_text_partial exApp ex_wf ex_covers ex_ranked _ _ rfl rfl ⟨by decide, by decide, by decide⟩
    exState ⟨_, rfl⟩ ex_lines_ok

/-- a line with a string that holds a quote, a backslash, '%', a tab and a newline (the printer starts
    a continuation line behind the newline), and a line with an array of three floats -/
def exStrLine : Line := ⟨"/name".toList, .plain [.str (lit "a\"b\\c %d\t\nz")]⟩
def exArrLine : Line := ⟨"/gains".toList, .arr [.flt 0x3f000000, .flt 0xbdcccccd, .flt 0x00000001]⟩

example : lineText exStrLine = .ok (lit "/name \"a\\\"b\\\\c %d\\t\\n\"\\\n    \"z\"") := by decide +kernel
example : lineText exArrLine = .ok (lit "/gains [0.50 (0x1p-1) -0.10 (-0x1.99999ap-4) 0.00 (0x1p-149)]") := by
  decide +kernel

example : LineTextOK exStrLine :=
  ⟨⟨rfl, by decide, by decide⟩, _, rfl, by
    show ∀ b ∈ lit "a\"b\\c %d\t\nz", StrByteOK b
    have : ∀ b ∈ lit "a\"b\\c %d\t\nz", (7 ≤ b ∧ b ≤ 13) ∨ (32 ≤ b ∧ b ≤ 126) := by decide +kernel
    exact this⟩

example : LineTextOK exArrLine := by
  refine ⟨⟨rfl, by decide, by decide⟩, by simp, ?_, ?_, arrCutOK_of_arrCutB _ (by decide +kernel)⟩
  · intro v hv
    simp only [List.mem_cons, List.not_mem_nil, or_false] at hv
    rcases hv with rfl | rfl | rfl <;> (show f32.expField _ ≠ 255; decide +kernel)
  · intro v hv
    simp only [List.mem_cons, List.not_mem_nil, or_false] at hv
    rcases hv with rfl | rfl | rfl <;> rfl

/-! ### array lines with compressed runs -/

/-- an int array whose elements the printer cuts into two values, a constant run, an arithmetic
    run and a value; a float array with a constant run; a toggle array of two constant runs -/
def exRunLine : Line := ⟨"/steps".toList, .arr [.int 1, .int 2, .int 0, .int 0, .int 0, .int 0, .int 0, .int 0,
  .int 3, .int 5, .int 7, .int 9, .int 11, .int 13, .int 13]⟩
def exFltRunLine : Line := ⟨"/gains".toList, .arr [.flt 0x3f000000, .flt 0x3f000000, .flt 0x3f000000, .flt 0x3f000000,
  .flt 0x3f000000, .flt 0x3f000000, .flt 0]⟩
def exTogRunLine : Line := ⟨"/mute".toList, .arr [.bool true, .bool true, .bool true, .bool true, .bool true,
  .bool false, .bool false, .bool false, .bool false, .bool false, .bool false]⟩

example : lineText exRunLine = .ok (lit "/steps [1 2 6x0 3 5 ... 13 13]") := by decide +kernel
example : lineText exFltRunLine = .ok (lit "/gains [6x0.50 (0x1p-1) 0.00 (0x0p+0)]") := by decide +kernel
example : lineText exTogRunLine = .ok (lit "/mute [5xtrue 6xfalse]") := by decide +kernel

/-- the printer's segments of the int array: `1`, `2`, `6x0`, `3 5 ... 13`, `13` -/
example : ArrCutOK [.int 1, .int 2, .int 0, .int 0, .int 0, .int 0, .int 0, .int 0,
    .int 3, .int 5, .int 7, .int 9, .int 11, .int 13, .int 13]
    [.tok (.int .i 1), .tok (.int .i 2), .crun 6 (.int .i 0), .irun 3 2 6, .tok (.int .i 13)] :=
  arrCutOK_of_cutOf _ _ (by decide +kernel)

theorem exRunLine_ok : LineTextOK exRunLine := by
  refine ⟨⟨rfl, by decide, by decide⟩, by simp, ?_, ?_, arrCutOK_of_arrCutB _ (by decide +kernel)⟩
  · intro v hv
    simp only [List.mem_cons, List.not_mem_nil, or_false] at hv
    rcases hv with rfl | rfl | rfl | rfl | rfl | rfl | rfl | rfl | rfl | rfl | rfl | rfl | rfl | rfl | rfl <;>
      (unfold ValTextOK; decide)
  · decide

theorem exFltRunLine_ok : LineTextOK exFltRunLine := by
  refine ⟨⟨rfl, by decide, by decide⟩, by simp, ?_, ?_, arrCutOK_of_arrCutB _ (by decide +kernel)⟩
  · have : ∀ v ∈ ([.flt 0x3f000000, .flt 0x3f000000, .flt 0x3f000000, .flt 0x3f000000,
        .flt 0x3f000000, .flt 0x3f000000, .flt 0] : List Val), v = .flt 0x3f000000 ∨ v = .flt 0 := by decide
    intro v hv
    rcases this v hv with rfl | rfl <;> (show f32.expField _ ≠ 255; decide +kernel)
  · decide

theorem exTogRunLine_ok : LineTextOK exTogRunLine := by
  refine ⟨⟨rfl, by decide, by decide⟩, by simp, ?_, ?_, arrCutOK_of_arrCutB _ (by decide +kernel)⟩
  · have : ∀ v ∈ ([.bool true, .bool true, .bool true, .bool true, .bool true,
        .bool false, .bool false, .bool false, .bool false, .bool false, .bool false] : List Val), ∃ b, v = .bool b := by
      decide
    intro v hv
    obtain ⟨b, rfl⟩ := this v hv
    trivial
  · decide

/-- the line with runs through the text stages: the scanner returns the array block
    below (nine cells behind the header: two values, the repetition block `6x0`, the value 3, the range
    block "five values from 5 with step 2", the value 13), the dispatch loop's iterator expands it to
    the fifteen saved elements -/
example : ∃ (t : Bytes) (cells : List ArgVal.Cell), lineText exRunLine = .ok t ∧
    countPrintedArgValsOfMsg t = .ok (cells.length : Int) ∧
    scanMessage t nameBufSize cells.length = .ok (t.length, pathBytes exRunLine.addr, cells) ∧
    bytesPath (pathBytes exRunLine.addr) = exRunLine.addr ∧ argsOfCells cells = .ok exRunLine.args :=
  saved_line_roundtrip exRunLine exRunLine_ok

example : scanMessage (lit "/steps [1 2 6x0 3 5 ... 13 13]") nameBufSize 10 =
    .ok (30, lit "/steps", [.arr 105 9, .int .i 1, .int .i 2, .rep 6 0, .int .i 0, .int .i 3, .rep 5 1, .int .i 2,
      .int .i 5, .int .i 13]) := by decide +kernel

/-- arrays of any length: a thousand equal floats `[1000x0.50 (0x1p-1)]`, the ints 0, 3, …, 29997 `[0 3 ... 29997]` -/
example : LineTextOK ⟨"/gains".toList, .arr (List.replicate 1000 (.flt 0x3f000000))⟩ :=
  array_line_constant _ ⟨rfl, by decide, by decide⟩ 1000 _ (by show f32.expField _ ≠ 255; decide +kernel) (by decide)
    (by decide)

example : LineTextOK ⟨"/steps".toList, .arr (arithVals 0 3 10000)⟩ :=
  array_line_arithmetic _ ⟨rfl, by decide, by decide⟩ 0 3 10000
    ⟨by decide, by decide, fun k hk => by omega, by decide, by decide⟩

/-- float and toggle arrays need no condition beyond finiteness -/
example : LineTextOK exFltRunLine :=
  array_line_floats _ ⟨rfl, by decide, by decide⟩ [0x3f000000, 0x3f000000, 0x3f000000, 0x3f000000, 0x3f000000, 0x3f000000, 0]
    (by simp) (by
      intro b hb
      simp only [List.mem_cons, List.not_mem_nil, or_false] at hb
      rcases hb with rfl | rfl | rfl | rfl | rfl | rfl | rfl <;> decide +kernel) (by decide)

example : LineTextOK exTogRunLine :=
  array_line_toggles _ ⟨rfl, by decide, by decide⟩ [true, true, true, true, true, false, false, false, false, false, false]
    (by simp) (by decide)

/-! ### a whole file with a compressed array line -/

open Rtosc.Save.RunsExample in
/-- the array application of Proofs/SaveExampleRuns.lean (`/a#6`, five elements set to 7, the last to 1):
    its file is `/a [5x7 1]` behind the header -/
example : rApp.saveText (0, 3, 1) (1, 2, 3) rState = .ok (lit "% RT OSC v0.3.1 savefile\n% runs v1.2.3\n/a [5x7 1]") := by
  decide +kernel

open Rtosc.Save.RunsExample in
theorem runs_lines_ok : ∀ l ∈ rApp.save rState, LineTextOK l := by
  rw [r_save]
  intro l hl
  simp only [List.mem_cons, List.not_mem_nil, or_false] at hl
  subst hl
  refine array_line_decided _ ⟨rfl, by decide, by decide⟩ _ (by simp) ?_ (by decide) (by decide +kernel)
  intro v hv
  simp only [List.mem_cons, List.not_mem_nil, or_false] at hv
  rcases hv with rfl | rfl | rfl | rfl | rfl | rfl <;> (unfold ValTextOK; decide)

open Rtosc.Save.RunsExample in
/-- `load_from_file` on that text — the scanner returns the block `5x7` and the value 1, the dispatch
    loop expands them — restores the six elements and reports one message -/
example : ∃ text, rApp.saveText (0, 3, 1) (1, 2, 3) rState = .ok text ∧
    rApp.loadText text rApp.init = .ok (.ok rState 1) :=
  load_save_restores_text_partial rApp r_wf r_covers r_ranked _ _ rfl rfl ⟨by decide, by decide, by decide⟩
    rState ⟨_, rfl⟩ runs_lines_ok

/-! ### known finding C12-K9 at the text level -/

/-- **C12-K9 in the text model**: the state of `posinf_not_restored_counterexample` (one float port
    holding +infinity) is saved as the line `/f inf (inf)`; `load_from_file` on that text returns a
    negative result: the checker takes `inf` for the keyword of the 'I' argument and rejects `(inf)`.
    So `load_save_restores_text_statement` is false without a condition on the values. -/
theorem posinf_text_counterexample :
    k9App.saveText (0, 3, 1) (1, 2, 3) k9State = .ok (lit "% RT OSC v0.3.1 savefile\n% k9 v1.2.3\n/f inf (inf)") ∧
    (match k9App.loadText (lit "% RT OSC v0.3.1 savefile\n% k9 v1.2.3\n/f inf (inf)") k9App.init with
     | .ok .fail => true
     | _ => false) = true := by
  constructor <;> decide +kernel

/-- **C12-K9 in the text model, NaN**: the state of `nan_not_restored_counterexample` (one float port holding the
    quiet NaN 7fc00000) is saved as the line `/f nan (nan)`; `load_from_file` on that text returns a negative
    result. -/
theorem nan_text_counterexample :
    k9App.saveText (0, 3, 1) (1, 2, 3) k9StateNaN = .ok (lit "% RT OSC v0.3.1 savefile\n% k9 v1.2.3\n/f nan (nan)") ∧
    (match k9App.loadText (lit "% RT OSC v0.3.1 savefile\n% k9 v1.2.3\n/f nan (nan)") k9App.init with
     | .ok .fail => true
     | _ => false) = true := by
  constructor <;> decide +kernel

end Rtosc.C12
