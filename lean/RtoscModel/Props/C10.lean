/-
  C10 — Pretty-printing is reversible: scanning printed text returns the values.
  Property theorems only; the lemmas live in Proofs/Pretty*.lean.

  Reading of the statement.  The code under test is `rtosc_print_arg_vals` / `rtosc_print_message`
  (model `printArgVals` / `printMessage`), `rtosc_count_printed_arg_vals(_of_msg)`
  (`countPrintedArgVals(OfMsg)`) and `rtosc_scan_arg_vals` / `rtosc_scan_message` (`scanArgVals` /
  `scanMessage`), all with the fix patches fixes/C10-01 … C10-14 applied.  An argument list is the
  flat cell array the C code uses (C16's `Cell`, `Item`, `flatList`); "the scanned values equal the
  originals, compressed ranges being compared by their expansion" is `expandList items' =
  expandList items` for the structured view of the scanned cells.

  Three tiers (DESIGN.md §5 C10):
  1. token codecs for ALL values of a type (`*_roundtrip`, single argument, any print options);
  2. `list_roundtrip`, `message_roundtrip`: argument lists of such values that the printer does
     not compress (compression off, or no five same-typed values in a row), any line length;
  3. ranges and arrays: NOT proved — covered by the correspondence check and the round-trip
     oracle only; the same goes for time tags with second fractions.  The full statement is kept
     as `print_scan_roundtrip_statement`.
-/
import RtoscModel.Proofs.PrettyMsg
import RtoscModel.Proofs.PrettyTokHuge
import RtoscModel.Proofs.PrettyTokWord
import RtoscModel.Proofs.PrettyTokChar
import RtoscModel.Proofs.PrettyTokStr
import RtoscModel.Proofs.PrettyTokSym
import RtoscModel.Proofs.PrettyTokBlob
import RtoscModel.Proofs.PrettyTokFloat
import RtoscModel.Proofs.PrettyTokTimeEnd
import RtoscModel.ArgVal.Expand
import RtoscModel.Generated.PrettyConst
namespace Rtosc.Pretty
open Rtosc Rtosc.Libc
open Rtosc.ArgVal (Cell Item flatList expandList)

deriving instance DecidableEq for Except

instance (b : UInt8) : Decidable (StrByteOK b) :=
  inferInstanceAs (Decidable ((7 ≤ b ∧ b ≤ 13) ∨ (32 ≤ b ∧ b ≤ 126)))

/-! ### The full statement -/

/-- print options the property quantifies over -/
def OptOK (opt : POpt) : Prop := opt.prec ≤ 9 ∧ 10 ≤ opt.linelength ∧ opt.linelength ≤ 120

/-- a scalar value the property quantifies over (`opt`: floats only in lossless mode) -/
def ScalarInDomain (opt : POpt) : Cell → Prop
  | .int .i v => -2147483648 ≤ v ∧ v ≤ 2147483647
  | .int .c v => CharOK v
  | .int .r v => -2147483648 ≤ v ∧ v ≤ 2147483647
  | .huge v => -9223372036854775808 ≤ v ∧ v ≤ 9223372036854775807
  | .flt b => opt.lossless = true ∧ f32.expField b.toNat ≠ 255                -- finite
  | .dbl b => opt.lossless = true ∧ f64.expField b.toNat ≠ 2047
  | .time v =>                                                                -- immediately, or a
      v < 18446744073709551616 ∧                                              -- float-representable fraction
        (v = 1 ∨ (v % 4294967296 = 0) ∨
          (opt.lossless = true ∧ ∃ m k : Nat, m < 16777216 ∧ v % 4294967296 = m * 2 ^ k))
  | .midi .. => True
  | .str _ (some s) => ∀ b ∈ s, StrByteOK b
  | .str _ none => False
  | .blob d => d.length ≤ 2147483647
  | .flag _ => True
  | .arr .. => False
  | .rep .. => False

/-- an argument the property quantifies over: a scalar, or a homogeneous array of scalars -/
def ItemInDomain (opt : POpt) : Item → Prop
  | .val c => ScalarInDomain opt c
  | .arr ety es =>
      es.length ≤ 8 ∧
      (∀ e ∈ es, ∃ c, e = .val c ∧ ScalarInDomain opt c ∧ typesMatch c.type ety = true) ∧
      (es = [] → ety = 32)
  | .rep .. => False
  | .range .. => False

/-- the round trip for one argument list -/
def RoundTrips (opt : POpt) (items : List Item) : Prop :=
  ∃ (st : PSt) (ret : Nat) (items' : List Item),
    printArgVals opt (flatList items) ⟨[], 0⟩ = .ok (st, ret) ∧            -- the printer succeeds,
    ret = st.out.length ∧                                                   -- returns the text's length,
    countPrintedArgVals st.out = .ok ((flatList items').length : Int) ∧     -- the checker counts the cells
    scanArgVals st.out (flatList items').length =                           -- the scanner then writes,
      .ok (st.out.length, flatList items') ∧                                -- the whole text is consumed,
    expandList items' = expandList items                                    -- and the values are the originals

/-- **C10, full statement** (arguments; the message form adds the address). NOT proved in full:
    see `print_scan_roundtrip_partial` for the proved part. -/
def print_scan_roundtrip_statement : Prop :=
  ∀ (opt : POpt) (items : List Item), OptOK opt → items.length ≤ 12 →
    (∀ x ∈ items, ItemInDomain opt x) → RoundTrips opt items

/-! ### Tier 1/2: what is proved -/

/-- the scalar values for which the token theorems are proved (every value of the type) -/
inductive SimpleVal (opt : POpt) : Cell → Prop
  | int (v : Int) : -2147483648 ≤ v → v ≤ 2147483647 → SimpleVal opt (.int .i v)
  | huge (v : Int) : -9223372036854775808 ≤ v → v ≤ 9223372036854775807 → SimpleVal opt (.huge v)
  | char (v : Int) : CharOK v → SimpleVal opt (.int .c v)
  | color (v : Int) : -2147483648 ≤ v → v ≤ 2147483647 → SimpleVal opt (.int .r v)
  | midi (a b c d : UInt8) : SimpleVal opt (.midi a b c d)
  | flag (f : ArgVal.FlagTy) : SimpleVal opt (.flag f)
  | immediately : SimpleVal opt (.time 1)
  | string (s : Bytes) : (∀ b ∈ s, StrByteOK b) → SimpleVal opt (.str .s (some s))
  | symbol (s : Bytes) : (∀ b ∈ s, StrByteOK b) → SimpleVal opt (.str .S (some s))
  | blob (d : Bytes) : d.length ≤ 2147483647 → SimpleVal opt (.blob d)
  | float (b : UInt32) : opt.lossless = true → opt.prec ≤ 9 → f32.expField b.toNat ≠ 255 → SimpleVal opt (.flt b)
  | double (b : UInt64) : opt.lossless = true → opt.prec ≤ 9 → f64.expField b.toNat ≠ 2047 → SimpleVal opt (.dbl b)
  | timeClock (secs : Nat) : secs < 4294967296 → secs % 86400 ≠ 0 → SimpleVal opt (.time (secs * 4294967296))

theorem SimpleVal.token {opt : POpt} {c : Cell} (h : SimpleVal opt c) : c.isScalar = true ∧ PrintsTok opt c := by
  cases h with
  | int v h1 h2 => exact ⟨rfl, printsTok_int opt v h1 h2⟩
  | huge v h1 h2 => exact ⟨rfl, printsTok_huge opt v h1 h2⟩
  | char v h => exact ⟨rfl, printsTok_char opt v h⟩
  | color v h1 h2 => exact ⟨rfl, printsTok_color opt v h1 h2⟩
  | midi a b c d => exact ⟨rfl, printsTok_midi opt a b c d⟩
  | flag f => exact ⟨rfl, printsTok_flag opt f⟩
  | immediately => exact ⟨rfl, printsTok_immediately opt⟩
  | string s h => exact ⟨rfl, printsTok_string opt s h⟩
  | symbol s h =>
    refine ⟨rfl, ?_⟩
    by_cases hp : symbolPlain s = true
    · exact printsTok_symbol_plain opt s hp
    · exact printsTok_symbol_quoted opt s h (by simpa using hp)
  | blob d h => exact ⟨rfl, printsTok_blob opt d h⟩
  | float b hl hp hf => exact ⟨rfl, printsTok_float opt hl hp b hf⟩
  | double b hl hp hf => exact ⟨rfl, printsTok_double opt hl hp b hf⟩
  | timeClock secs h1 h2 => exact ⟨rfl, printsTok_time_clock opt secs h1 h2⟩

/-- **list_roundtrip** (tier 2): for every list of `SimpleVal`s that the printer does not
    compress, and every line length / precision: printed length = returned length, the checker
    counts exactly the values, the scanner consumes the whole text and returns exactly the values. -/
theorem list_roundtrip (opt : POpt) (args : List Cell) (hv : ∀ c ∈ args, SimpleVal opt c)
    (hr : opt.compress = false ∨ NoLongRun args) :
    ∃ (st : PSt) (ret : Nat),
      printArgVals opt args ⟨[], 0⟩ = .ok (st, ret) ∧ ret = st.out.length ∧
      countPrintedArgVals st.out = .ok (args.length : Int) ∧
      scanArgVals st.out args.length = .ok (st.out.length, args) :=
  list_roundtrip_of_tokens opt args (fun c hc => (hv c hc).token)
    (noConversion opt args (fun c hc => (hv c hc).token.1) hr)

/-- **message_roundtrip** (tier 2, "the same holds for whole messages"): address plus arguments. -/
theorem message_roundtrip (opt : POpt) (addr : Bytes) (args : List Cell) (adrsize : Nat)
    (ha : AddrOK addr) (hal : addr.length < adrsize) (hv : ∀ c ∈ args, SimpleVal opt c)
    (hr : opt.compress = false ∨ NoLongRun args) :
    ∃ (st : PSt) (ret : Nat),
      printMessage opt addr args 0 = .ok (st, ret) ∧ ret = st.out.length ∧
      countPrintedArgValsOfMsg st.out = .ok (args.length : Int) ∧
      scanMessage st.out adrsize args.length = .ok (st.out.length, addr, args) :=
  message_roundtrip_of_tokens opt addr args adrsize ha hal (fun c hc => (hv c hc).token)
    (noConversion opt args (fun c hc => (hv c hc).token.1) hr)

/-- the round trip of the single value `c`: printed length = returned length, the checker counts
    one value, the scanner consumes the whole text and returns `c` -/
def SingleRT (opt : POpt) (c : Cell) : Prop :=
  ∃ (st : PSt) (ret : Nat),
    printArgVals opt [c] ⟨[], 0⟩ = .ok (st, ret) ∧ ret = st.out.length ∧
    countPrintedArgVals st.out = .ok 1 ∧ scanArgVals st.out 1 = .ok (st.out.length, [c])

/-- the round trip of a single value (tier 1) -/
theorem single_roundtrip (opt : POpt) (c : Cell) (h : SimpleVal opt c) : SingleRT opt c := by
  unfold SingleRT
  have := list_roundtrip opt [c] (by intro x hx; simp at hx; subst hx; exact h)
    (Or.inr (by intro i hi; simp at hi; subst hi; rfl))
  simpa using this

/-- **int_roundtrip**: every `int32_t` ('i') — `127 -1`, `-99 -99` included (fix C10-02). -/
theorem int_roundtrip (opt : POpt) (v : Int) (h1 : -2147483648 ≤ v) (h2 : v ≤ 2147483647) :
    SingleRT opt (.int .i v) :=
  single_roundtrip opt (.int .i v) (.int v h1 h2)

/-- **int64_roundtrip**: every `int64_t` ('h'). -/
theorem int64_roundtrip (opt : POpt) (v : Int) (h1 : -9223372036854775808 ≤ v) (h2 : v ≤ 9223372036854775807) :
    SingleRT opt (.huge v) :=
  single_roundtrip opt (.huge v) (.huge v h1 h2)

/-- **char_roundtrip**: NUL, every C escape, every printable character ('c'). -/
theorem char_roundtrip (opt : POpt) (v : Int) (h : CharOK v) : SingleRT opt (.int .c v) := single_roundtrip opt (.int .c v) (.char v h)

/-- **string_roundtrip**: strings of printable characters and C escapes, at every line length
    (continuation lines included). -/
theorem string_roundtrip (opt : POpt) (s : Bytes) (h : ∀ b ∈ s, StrByteOK b) :
    SingleRT opt (.str .s (some s)) :=
  single_roundtrip opt (.str .s (some s)) (.string s h)

/-- **symbol_roundtrip**: symbols, printed plain (identifiers that are not reserved words) or
    quoted with the suffix `S`. -/
theorem symbol_roundtrip (opt : POpt) (s : Bytes) (h : ∀ b ∈ s, StrByteOK b) :
    SingleRT opt (.str .S (some s)) :=
  single_roundtrip opt (.str .S (some s)) (.symbol s h)

/-- **blob_roundtrip**: blobs of any content, with the printer's line breaks. -/
theorem blob_roundtrip (opt : POpt) (d : Bytes) (h : d.length ≤ 2147483647) : SingleRT opt (.blob d) :=
  single_roundtrip opt (.blob d) (.blob d h)

/-- **midi_roundtrip** -/
theorem midi_roundtrip (opt : POpt) (a b c d : UInt8) : SingleRT opt (.midi a b c d) := single_roundtrip opt (.midi a b c d) (.midi a b c d)

/-- **color_roundtrip** -/
theorem color_roundtrip (opt : POpt) (v : Int) (h1 : -2147483648 ≤ v) (h2 : v ≤ 2147483647) :
    SingleRT opt (.int .r v) :=
  single_roundtrip opt (.int .r v) (.color v h1 h2)

/-- **float_lossless_roundtrip**: every finite `float` ('f') printed in lossless mode
    (`<%#.Nf> (<%a>)`, any precision 0..9) scans back bit-exactly — ±0 and subnormals included. -/
theorem float_lossless_roundtrip (opt : POpt) (hl : opt.lossless = true) (hp : opt.prec ≤ 9) (b : UInt32)
    (hfin : f32.expField b.toNat ≠ 255) : SingleRT opt (.flt b) :=
  single_roundtrip opt (.flt b) (.float b hl hp hfin)

/-- **double_lossless_roundtrip**: every finite `double` ('d') in lossless mode (fix C10-03). -/
theorem double_lossless_roundtrip (opt : POpt) (hl : opt.lossless = true) (hp : opt.prec ≤ 9) (b : UInt64)
    (hfin : f64.expField b.toNat ≠ 2047) : SingleRT opt (.dbl b) :=
  single_roundtrip opt (.dbl b) (.double b hl hp hfin)

/-- **timetag_roundtrip**: every time tag without second fractions (`secs` seconds after the epoch,
    under the UTC calendar model): `YYYY-MM-DD`, `YYYY-MM-DD HH:MM` or `YYYY-MM-DD HH:MM:SS`. -/
theorem timetag_roundtrip (opt : POpt) (secs : Nat) (h : secs < 4294967296) :
    SingleRT opt (.time (secs * 4294967296)) := by
  by_cases hc : secs % 86400 = 0
  · -- midnight: the date-only spelling, good as the last token of a text
    have hs : secs = secs / 86400 * 86400 := by omega
    rw [hs]
    exact single_roundtrip_of_end opt _ rfl
      (fun fuel more prev st => time_dateonly_end opt (secs / 86400) (by omega) fuel more prev st)
  · exact single_roundtrip opt _ (.timeClock secs h hc)

/-- **keyword_roundtrip**: `true false nil inf` and the time tag `immediately`. -/
theorem keyword_roundtrip (opt : POpt) (f : ArgVal.FlagTy) : SingleRT opt (.flag f) ∧ SingleRT opt (.time 1) :=
  ⟨single_roundtrip opt (.flag f) (.flag f), single_roundtrip opt (.time 1) .immediately⟩

/-! ### The proved part of the full statement -/

theorem flatList_vals (cs : List Cell) : flatList (cs.map Item.val) = cs := by
  induction cs with
  | nil => simp [flatList]
  | cons c r ih => simp [flatList, Item.flat, ih]

/-- **print_scan_roundtrip_partial**: the full statement restricted to lists of `SimpleVal`
    scalars which the printer does not turn into ranges.  Missing for the full statement:
    time tags with second fractions, time tags at midnight inside a list (proved as single
    values: `timetag_roundtrip`), arrays, and compressed runs (tier 3). -/
theorem print_scan_roundtrip_partial (opt : POpt) (cs : List Cell) (hv : ∀ c ∈ cs, SimpleVal opt c)
    (hr : opt.compress = false ∨ NoLongRun cs) : RoundTrips opt (cs.map Item.val) := by
  obtain ⟨st, ret, h1, h2, h3, h4⟩ := list_roundtrip opt cs hv hr
  refine ⟨st, ret, cs.map Item.val, ?_, h2, ?_, ?_, rfl⟩
  · rw [flatList_vals]; exact h1
  · rw [flatList_vals]; exact h3
  · rw [flatList_vals]; exact h4

/-! ### The constants and tables extracted from the source (Generated/PrettyConst.lean) -/

/-- the order in which the model tries the numeric formats -/
def modelTryOrder : List NumFmt := [.h, .d, .ii, .x, .lfd, .ff, .f]

def NumFmt.name : NumFmt → String
  | .h => "h" | .d => "d" | .ii => "ii" | .x => "x" | .lfd => "lfd" | .ff => "ff" | .f => "f"

theorem scanfFmtstr_order (s : Bytes) :
    scanfFmtstr s = modelTryOrder.find? (fun nf => scanRd nf.tryDirs s = numWordLen s) := rfl

/-- **tables_agree**: the model is written over the constants the source has today: compression
    threshold, default print options, both escape tables, the try-order of the numeric formats
    and the reserved words (regenerated from src/cpp/pretty-format.c on every run). -/
theorem tables_agree :
    rangeMin = Generated.rangeMin ∧
    (defaultOpt.lossless, defaultOpt.prec, defaultOpt.linelength, defaultOpt.compress) = Generated.defaultOpt ∧
    (∀ p ∈ Generated.escapeTable, asEscapedChar p.1 true = some p.2 ∧ asEscapedChar p.1 false = some p.2) ∧
    (∀ p ∈ Generated.unescapeTable, getEscapedChar p.1 true = p.2 ∧ getEscapedChar p.1 false = p.2) ∧
    modelTryOrder.map (fun nf => (nf.name, nf.type)) = Generated.tryOrder ∧
    reservedWords = Generated.reservedWords.map lit := by
  refine ⟨by decide, by decide, by decide, by decide, by decide, by decide +kernel⟩

/-- **escape_tables_inverse**: `get_escaped_char` undoes `as_escaped_char` -/
theorem escape_tables_inverse : ∀ p ∈ Generated.escapeTable, (p.2, p.1) ∈ Generated.unescapeTable := by
  decide

/-! ### Non-vacuity: concrete inputs meet the hypotheses, and the conclusions evaluate as stated -/

/-- a mixed list with a negative number behind a three-character token (the F9 shape), a string
    that needs a continuation line at line length 20, a reserved word as a symbol, a blob -/
def exArgs : List Cell :=
  [.int .i 127, .int .i (-1), .huge (-5000000000), .int .c 10, .str .s (some (lit "a \"long\" string\n, broken")),
   .str .S (some (lit "true")), .blob [1, 2, 255], .flag .T, .time 1, .midi 1 2 3 4, .int .r (-559038737),
   .flt 0x3fc00000, .dbl 0x3fe0000000000000, .time (1509838440 * 4294967296)]

def exOpt : POpt := ⟨true, 2, 20, true⟩

example : ∀ c ∈ exArgs, SimpleVal exOpt c := by
  intro c hc
  simp only [exArgs, List.mem_cons, List.not_mem_nil, or_false] at hc
  rcases hc with rfl | rfl | rfl | rfl | rfl | rfl | rfl | rfl | rfl | rfl | rfl | rfl | rfl | rfl
  · exact .int _ (by decide) (by decide)
  · exact .int _ (by decide) (by decide)
  · exact .huge _ (by decide) (by decide)
  · exact .char _ (by unfold CharOK; omega)
  · exact .string _ (by decide +kernel)
  · exact .symbol _ (by decide +kernel)
  · exact .blob _ (by decide)
  · exact .flag _
  · exact .immediately
  · exact .midi _ _ _ _
  · exact .color _ (by decide) (by decide)
  · exact .float _ rfl (by decide) (by decide +kernel)
  · exact .double _ rfl (by decide) (by decide +kernel)
  · exact .timeClock 1509838440 (by decide) (by decide)

example : NoLongRun exArgs := by
  have h : ∀ i : Fin 14, shortRun (exArgs.drop i.val) = true := by decide +kernel
  intro i hi
  exact h ⟨i, hi⟩

example : (printArgVals exOpt exArgs ⟨[], 0⟩).map (fun r => (r.1.out, r.2)) =
    .ok (lit ("127 -1 -5000000000h\n    '\\n' \"a \\\"long\"\\\n    \"\\\" string\\n\"\\\n    \", broken\" \"tr\"\\\n    \"ue\"S BLOB [3\n" ++
              "    0x01 0x02\n    0xff] true\n    immediately\n    MIDI [0x01 0x02 0x03 0x04]\n    #deadbeef\n" ++
              "    1.50 (0x1.8p+0)\n    0.50d (0x1p-1)\n    2017-11-04 23:34"), 248) := by
  decide +kernel

/-- the defect classes of the unchanged code, as they would appear in the model: with the fixes
    the witnesses scan back -/
example : scanArgVals (lit "127 -1") 2 = .ok (6, [.int .i 127, .int .i (-1)]) := by decide +kernel
example : countPrintedArgVals (lit "127 -1") = .ok 2 := by decide +kernel

end Rtosc.Pretty
