/-
  C10 — Pretty-printing is reversible: scanning printed text returns the values.
  Property theorems only; the lemmas live in Proofs/Pretty*.lean.

  Reading of the statement.  The code under test is `rtosc_print_arg_vals` / `rtosc_print_message`
  (model `printArgVals` / `printMessage`), `rtosc_count_printed_arg_vals(_of_msg)`
  (`countPrintedArgVals(OfMsg)`) and `rtosc_scan_arg_vals` / `rtosc_scan_message` (`scanArgVals` /
  `scanMessage`), all with the fix patches fixes/C10-01 … C10-15 applied.  An argument list is the
  flat cell array the C code uses (C16's `Cell`, `Item`, `flatList`); "the scanned values equal the
  originals, compressed ranges being compared by their expansion" is `expandList items' =
  expandList items` for the structured view of the scanned cells.

  Three tiers (DESIGN.md §5 C10):
  1. token codecs for ALL values of a type (`*_roundtrip`, single argument, any print options);
  2. `list_roundtrip`, `message_roundtrip`: argument lists of such values that the printer does
     not compress (compression off, or no five same-typed values in a row), any line length;
  3. arrays and ranges: with compression off the FULL statement is proved
     (`print_scan_roundtrip_nocompress`: scalars and arrays of scalars, any options); range
     compression itself (`nxA`, `a ... c`, `a b ... c`) is proved for lists of scalars in which
     constant runs of any scalar type and int32 arithmetic runs stand among uncompressed values in
     any order (`print_scan_roundtrip_runs_partial`), and for lists that mix such values and runs
     with ARRAYS of scalars that may themselves contain compressed runs, values and runs directly
     behind an array included, and runs of equal arrays `nx[…]`
     (`print_scan_roundtrip_arrays_partial`); arithmetic runs of 'h' and 'c' values are proved for
     lists that are exactly one run (`range_roundtrip_huge`, `range_roundtrip_char`); nested
     arrays, 'h' / 'c' runs in context and boolean runs are covered by the correspondence check
     and the round-trip oracle only.
  The full statement is kept as `print_scan_roundtrip_statement`.
-/
import RtoscModel.Proofs.PrettyMsg
import RtoscModel.Proofs.PrettyTokHuge
import RtoscModel.Proofs.PrettyTokWord
import RtoscModel.Proofs.PrettyTokChar
import RtoscModel.Proofs.PrettyTokStr
import RtoscModel.Proofs.PrettyTokSym
import RtoscModel.Proofs.PrettyTokBlob
import RtoscModel.Proofs.PrettyTokFloat
import RtoscModel.Proofs.PrettyTokTimeEnd
import RtoscModel.Proofs.PrettyTokTimeFrac
import RtoscModel.Proofs.PrettyTokArray
import RtoscModel.Proofs.PrettyRunConst
import RtoscModel.Proofs.PrettyRunInt
import RtoscModel.Proofs.PrettyRunHuge
import RtoscModel.Proofs.PrettyRunChar
import RtoscModel.Proofs.PrettyRunsExtItems
import RtoscModel.Proofs.PrettyRunsExtConv
import RtoscModel.Proofs.PrettyRunsExtMsg
import RtoscModel.Proofs.PrettyRunsArrMsg
import RtoscModel.Proofs.PrettyRunsArrNext
import RtoscModel.ArgVal.Expand
namespace Rtosc.Pretty
open Rtosc Rtosc.Libc
open Rtosc.ArgVal (Cell Item flatList expandList Val)

deriving instance DecidableEq for Except

instance (b : UInt8) : Decidable (StrByteOK b) :=
  inferInstanceAs (Decidable ((7 ≤ b ∧ b ≤ 13) ∨ (32 ≤ b ∧ b ≤ 126)))

/-! ### The full statement -/

/-- print options the property quantifies over -/
def OptOK (opt : POpt) : Prop := opt.prec ≤ 9 ∧ 10 ≤ opt.linelength ∧ opt.linelength ≤ 120

/-- a scalar value the property quantifies over (`opt`: floats only in lossless mode) -/
def ScalarInDomain (opt : POpt) : Cell → Prop
  | .int .i v => -2147483648 ≤ v ∧ v ≤ 2147483647
  | .int .c v => CharOK v
  | .int .r v => -2147483648 ≤ v ∧ v ≤ 2147483647
  | .huge v => -9223372036854775808 ≤ v ∧ v ≤ 9223372036854775807
  | .flt b => opt.lossless = true ∧ f32.expField b.toNat ≠ 255                -- finite
  | .dbl b => opt.lossless = true ∧ f64.expField b.toNat ≠ 2047
  | .time v =>                                                                -- immediately, or a
      v < 18446744073709551616 ∧                                              -- float-representable fraction
        (v = 1 ∨ (v % 4294967296 = 0) ∨
          (opt.lossless = true ∧ ∃ m k : Nat, m < 16777216 ∧ v % 4294967296 = m * 2 ^ k))
  | .midi .. => True
  | .str _ (some s) => ∀ b ∈ s, StrByteOK b
  | .str _ none => False
  | .blob d => d.length ≤ 2147483647
  | .flag _ => True
  | .arr .. => False
  | .rep .. => False

/-- an argument the property quantifies over: a scalar, or a homogeneous array of scalars -/
def ItemInDomain (opt : POpt) : Item → Prop
  | .val c => ScalarInDomain opt c
  | .arr ety es =>
      es.length ≤ 8 ∧
      (∀ e ∈ es, ∃ c, e = .val c ∧ ScalarInDomain opt c ∧ typesMatch c.type ety = true) ∧
      -- the element type is not written in the text: the tag is the one the scanner reconstructs
      -- (type of the last element; ' ' for an empty array)
      ety = (match es.getLast? with | some (.val c) => c.type | _ => 32)
  | .rep .. => False
  | .range .. => False

/-- the round trip for one argument list.  The last two clauses: both the scanned and the original
    list denote a value list (`expandList … = some vs`: no clause is satisfied by two undefined
    expansions), and it is the same one. -/
def RoundTrips (opt : POpt) (items : List Item) : Prop :=
  ∃ (st : PSt) (ret : Nat) (items' : List Item) (vs : List Val),
    printArgVals opt (flatList items) ⟨[], 0⟩ = .ok (st, ret) ∧            -- the printer succeeds,
    ret = st.out.length ∧                                                   -- returns the text's length,
    countPrintedArgVals st.out = .ok ((flatList items').length : Int) ∧     -- the checker counts the cells
    scanArgVals st.out (flatList items').length =                           -- the scanner then writes,
      .ok (st.out.length, flatList items') ∧                                -- the whole text is consumed,
    expandList items' = some vs ∧ expandList items = some vs                -- and the values are the originals

/-- the round trip for a whole message: address plus argument list -/
def MsgRoundTrips (opt : POpt) (addr : Bytes) (adrsize : Nat) (items : List Item) : Prop :=
  ∃ (st : PSt) (ret : Nat) (items' : List Item) (vs : List Val),
    printMessage opt addr (flatList items) 0 = .ok (st, ret) ∧
    ret = st.out.length ∧
    countPrintedArgValsOfMsg st.out = .ok ((flatList items').length : Int) ∧
    scanMessage st.out adrsize (flatList items').length = .ok (st.out.length, addr, flatList items') ∧
    expandList items' = some vs ∧ expandList items = some vs

/-- **C10, full statement** (arguments; the message form adds the address). NOT proved in full:
    see `print_scan_roundtrip_partial` for the proved part. -/
def print_scan_roundtrip_statement : Prop :=
  ∀ (opt : POpt) (items : List Item), OptOK opt → items.length ≤ 12 →
    (∀ x ∈ items, ItemInDomain opt x) → RoundTrips opt items

/-! ### Tier 1/2: what is proved -/

/-- the scalar values for which the token theorems are proved (every value of the type) -/
inductive SimpleVal (opt : POpt) : Cell → Prop
  | int (v : Int) : -2147483648 ≤ v → v ≤ 2147483647 → SimpleVal opt (.int .i v)
  | huge (v : Int) : -9223372036854775808 ≤ v → v ≤ 9223372036854775807 → SimpleVal opt (.huge v)
  | char (v : Int) : CharOK v → SimpleVal opt (.int .c v)
  | color (v : Int) : -2147483648 ≤ v → v ≤ 2147483647 → SimpleVal opt (.int .r v)
  | midi (a b c d : UInt8) : SimpleVal opt (.midi a b c d)
  | flag (f : ArgVal.FlagTy) : SimpleVal opt (.flag f)
  | immediately : SimpleVal opt (.time 1)
  | string (s : Bytes) : (∀ b ∈ s, StrByteOK b) → SimpleVal opt (.str .s (some s))
  | symbol (s : Bytes) : (∀ b ∈ s, StrByteOK b) → SimpleVal opt (.str .S (some s))
  | blob (d : Bytes) : d.length ≤ 2147483647 → SimpleVal opt (.blob d)
  | float (b : UInt32) : opt.lossless = true → opt.prec ≤ 9 → f32.expField b.toNat ≠ 255 → SimpleVal opt (.flt b)
  | double (b : UInt64) : opt.lossless = true → opt.prec ≤ 9 → f64.expField b.toNat ≠ 2047 → SimpleVal opt (.dbl b)
  | timeClock (secs : Nat) : secs < 4294967296 → secs % 86400 ≠ 0 → SimpleVal opt (.time (secs * 4294967296))
  | timeFrac (secs frac : Nat) : opt.lossless = true → opt.prec ≤ 9 → secs < 4294967296 → 0 < frac → frac < 4294967296 →
      (∃ m k : Nat, m < 16777216 ∧ frac = m * 2 ^ k) → SimpleVal opt (.time (secs * 4294967296 + frac))

theorem SimpleVal.token {opt : POpt} {c : Cell} (h : SimpleVal opt c) : c.isScalar = true ∧ PrintsTok opt c := by
  cases h with
  | int v h1 h2 => exact ⟨rfl, printsTok_int opt v h1 h2⟩
  | huge v h1 h2 => exact ⟨rfl, printsTok_huge opt v h1 h2⟩
  | char v h => exact ⟨rfl, printsTok_char opt v h⟩
  | color v h1 h2 => exact ⟨rfl, printsTok_color opt v h1 h2⟩
  | midi a b c d => exact ⟨rfl, printsTok_midi opt a b c d⟩
  | flag f => exact ⟨rfl, printsTok_flag opt f⟩
  | immediately => exact ⟨rfl, printsTok_immediately opt⟩
  | string s h => exact ⟨rfl, printsTok_string opt s h⟩
  | symbol s h =>
    refine ⟨rfl, ?_⟩
    by_cases hp : symbolPlain s = true
    · exact printsTok_symbol_plain opt s hp
    · exact printsTok_symbol_quoted opt s h (by simpa using hp)
  | blob d h => exact ⟨rfl, printsTok_blob opt d h⟩
  | float b hl hp hf => exact ⟨rfl, printsTok_float opt hl hp b hf⟩
  | double b hl hp hf => exact ⟨rfl, printsTok_double opt hl hp b hf⟩
  | timeClock secs h1 h2 => exact ⟨rfl, printsTok_time_clock opt secs h1 h2⟩
  | timeFrac secs frac hl hp hs h0 h1 hr => exact ⟨rfl, printsTok_time_frac opt hl hp secs frac hs h0 h1 hr⟩

/-- **list_roundtrip** (tier 2): for every list of `SimpleVal`s that the printer does not
    compress, and every line length / precision: printed length = returned length, the checker
    counts exactly the values, the scanner consumes the whole text and returns exactly the values. -/
theorem list_roundtrip (opt : POpt) (args : List Cell) (hv : ∀ c ∈ args, SimpleVal opt c)
    (hr : opt.compress = false ∨ NoLongRun args) :
    ∃ (st : PSt) (ret : Nat),
      printArgVals opt args ⟨[], 0⟩ = .ok (st, ret) ∧ ret = st.out.length ∧
      countPrintedArgVals st.out = .ok (args.length : Int) ∧
      scanArgVals st.out args.length = .ok (st.out.length, args) :=
  list_roundtrip_of_tokens opt args (fun c hc => (hv c hc).token)
    (noConversion opt args (fun c hc => (hv c hc).token.1) hr)

/-- the printer leaves the list as it is: `rtosc_convert_to_range` finds no run at any position
    (the exact condition; `opt.compress = false ∨ NoLongRun args` above is a sufficient one that only
    looks at the types) -/
def NotCompressed (opt : POpt) (args : List Cell) : Prop :=
  ∀ i, i < args.length → convertToRange opt (args.drop i) (args.length - i) = .ok none

/-- **list_roundtrip_uncompressed** (tier 2): as `list_roundtrip`, for every list the printer does
    not compress — `1 7 3 9 2` with compression on included. -/
theorem list_roundtrip_uncompressed (opt : POpt) (args : List Cell) (hv : ∀ c ∈ args, SimpleVal opt c)
    (hr : NotCompressed opt args) :
    ∃ (st : PSt) (ret : Nat),
      printArgVals opt args ⟨[], 0⟩ = .ok (st, ret) ∧ ret = st.out.length ∧
      countPrintedArgVals st.out = .ok (args.length : Int) ∧
      scanArgVals st.out args.length = .ok (st.out.length, args) :=
  list_roundtrip_of_tokens opt args (fun c hc => (hv c hc).token) hr

/-- **message_roundtrip_uncompressed** (tier 2): the message form of `list_roundtrip_uncompressed`. -/
theorem message_roundtrip_uncompressed (opt : POpt) (addr : Bytes) (args : List Cell) (adrsize : Nat)
    (ha : AddrOK addr) (hal : addr.length < adrsize) (hv : ∀ c ∈ args, SimpleVal opt c)
    (hr : NotCompressed opt args) :
    ∃ (st : PSt) (ret : Nat),
      printMessage opt addr args 0 = .ok (st, ret) ∧ ret = st.out.length ∧
      countPrintedArgValsOfMsg st.out = .ok (args.length : Int) ∧
      scanMessage st.out adrsize args.length = .ok (st.out.length, addr, args) :=
  message_roundtrip_of_tokens opt addr args adrsize ha hal (fun c hc => (hv c hc).token) hr

/-- **message_roundtrip** (tier 2, "the same holds for whole messages"): address plus arguments. -/
theorem message_roundtrip (opt : POpt) (addr : Bytes) (args : List Cell) (adrsize : Nat)
    (ha : AddrOK addr) (hal : addr.length < adrsize) (hv : ∀ c ∈ args, SimpleVal opt c)
    (hr : opt.compress = false ∨ NoLongRun args) :
    ∃ (st : PSt) (ret : Nat),
      printMessage opt addr args 0 = .ok (st, ret) ∧ ret = st.out.length ∧
      countPrintedArgValsOfMsg st.out = .ok (args.length : Int) ∧
      scanMessage st.out adrsize args.length = .ok (st.out.length, addr, args) :=
  message_roundtrip_of_tokens opt addr args adrsize ha hal (fun c hc => (hv c hc).token)
    (noConversion opt args (fun c hc => (hv c hc).token.1) hr)

/-- the round trip of the single value `c`: printed length = returned length, the checker counts
    one value, the scanner consumes the whole text and returns `c` -/
def SingleRT (opt : POpt) (c : Cell) : Prop :=
  ∃ (st : PSt) (ret : Nat),
    printArgVals opt [c] ⟨[], 0⟩ = .ok (st, ret) ∧ ret = st.out.length ∧
    countPrintedArgVals st.out = .ok 1 ∧ scanArgVals st.out 1 = .ok (st.out.length, [c])

/-- the round trip of a single value (tier 1) -/
theorem single_roundtrip (opt : POpt) (c : Cell) (h : SimpleVal opt c) : SingleRT opt c := by
  unfold SingleRT
  have := list_roundtrip opt [c] (by intro x hx; simp at hx; subst hx; exact h)
    (Or.inr (by intro i hi; simp at hi; subst hi; rfl))
  simpa using this

/-- **int_roundtrip**: every `int32_t` ('i') — `127 -1`, `-99 -99` included (fix C10-02). -/
theorem int_roundtrip (opt : POpt) (v : Int) (h1 : -2147483648 ≤ v) (h2 : v ≤ 2147483647) :
    SingleRT opt (.int .i v) :=
  single_roundtrip opt (.int .i v) (.int v h1 h2)

/-- **int64_roundtrip**: every `int64_t` ('h'). -/
theorem int64_roundtrip (opt : POpt) (v : Int) (h1 : -9223372036854775808 ≤ v) (h2 : v ≤ 9223372036854775807) :
    SingleRT opt (.huge v) :=
  single_roundtrip opt (.huge v) (.huge v h1 h2)

/-- **char_roundtrip**: NUL, every C escape, every printable character ('c'). -/
theorem char_roundtrip (opt : POpt) (v : Int) (h : CharOK v) : SingleRT opt (.int .c v) := single_roundtrip opt (.int .c v) (.char v h)

/-- **string_roundtrip**: strings of printable characters and C escapes, at every line length
    (continuation lines included). -/
theorem string_roundtrip (opt : POpt) (s : Bytes) (h : ∀ b ∈ s, StrByteOK b) :
    SingleRT opt (.str .s (some s)) :=
  single_roundtrip opt (.str .s (some s)) (.string s h)

/-- **symbol_roundtrip**: symbols, printed plain (identifiers that are not reserved words) or
    quoted with the suffix `S`. -/
theorem symbol_roundtrip (opt : POpt) (s : Bytes) (h : ∀ b ∈ s, StrByteOK b) :
    SingleRT opt (.str .S (some s)) :=
  single_roundtrip opt (.str .S (some s)) (.symbol s h)

/-- **blob_roundtrip**: blobs of any content, with the printer's line breaks. -/
theorem blob_roundtrip (opt : POpt) (d : Bytes) (h : d.length ≤ 2147483647) : SingleRT opt (.blob d) :=
  single_roundtrip opt (.blob d) (.blob d h)

/-- **midi_roundtrip** -/
theorem midi_roundtrip (opt : POpt) (a b c d : UInt8) : SingleRT opt (.midi a b c d) := single_roundtrip opt (.midi a b c d) (.midi a b c d)

/-- **color_roundtrip** -/
theorem color_roundtrip (opt : POpt) (v : Int) (h1 : -2147483648 ≤ v) (h2 : v ≤ 2147483647) :
    SingleRT opt (.int .r v) :=
  single_roundtrip opt (.int .r v) (.color v h1 h2)

/-- **float_lossless_roundtrip**: every finite `float` ('f') printed in lossless mode
    (`<%#.Nf> (<%a>)`, any precision 0..9) scans back bit-exactly — ±0 and subnormals included. -/
theorem float_lossless_roundtrip (opt : POpt) (hl : opt.lossless = true) (hp : opt.prec ≤ 9) (b : UInt32)
    (hfin : f32.expField b.toNat ≠ 255) : SingleRT opt (.flt b) :=
  single_roundtrip opt (.flt b) (.float b hl hp hfin)

/-- **double_lossless_roundtrip**: every finite `double` ('d') in lossless mode (fix C10-03). -/
theorem double_lossless_roundtrip (opt : POpt) (hl : opt.lossless = true) (hp : opt.prec ≤ 9) (b : UInt64)
    (hfin : f64.expField b.toNat ≠ 2047) : SingleRT opt (.dbl b) :=
  single_roundtrip opt (.dbl b) (.double b hl hp hfin)

/-- **timetag_roundtrip**: every time tag without second fractions (`secs` seconds after the epoch,
    under the UTC calendar model): `YYYY-MM-DD`, `YYYY-MM-DD HH:MM` or `YYYY-MM-DD HH:MM:SS`. -/
theorem timetag_roundtrip (opt : POpt) (secs : Nat) (h : secs < 4294967296) :
    SingleRT opt (.time (secs * 4294967296)) := by
  by_cases hc : secs % 86400 = 0
  · -- midnight: the date-only spelling, good as the last token of a text
    have hs : secs = secs / 86400 * 86400 := by omega
    rw [hs]
    exact single_roundtrip_of_end opt _ rfl
      (fun fuel more prev st => time_dateonly_end opt (secs / 86400) (by omega) fuel more prev st)
  · exact single_roundtrip opt _ (.timeClock secs h hc)

/-- **timetag_fraction_roundtrip**: time tags with a float-representable second fraction in
    lossless mode, `YYYY-MM-DD HH:MM:SS.ddd (...+0x1.8p-3s)` (fixes C10-04, C10-05, C10-08). -/
theorem timetag_fraction_roundtrip (opt : POpt) (hl : opt.lossless = true) (hp : opt.prec ≤ 9)
    (secs frac : Nat) (hs : secs < 4294967296) (hf0 : 0 < frac) (hf1 : frac < 4294967296)
    (hrep : ∃ m k : Nat, m < 16777216 ∧ frac = m * 2 ^ k) :
    SingleRT opt (.time (secs * 4294967296 + frac)) :=
  single_roundtrip opt _ (.timeFrac secs frac hl hp hs hf0 hf1 hrep)

/-- **keyword_roundtrip**: `true false nil inf` and the time tag `immediately`. -/
theorem keyword_roundtrip (opt : POpt) (f : ArgVal.FlagTy) : SingleRT opt (.flag f) ∧ SingleRT opt (.time 1) :=
  ⟨single_roundtrip opt (.flag f) (.flag f), single_roundtrip opt (.time 1) .immediately⟩

/-! ### The proved part of the full statement -/

theorem flatList_vals (cs : List Cell) : flatList (cs.map Item.val) = cs := by
  induction cs with
  | nil => simp [flatList]
  | cons c r ih => simp [flatList, Item.flat, ih]

theorem expandList_vals (cs : List Cell) (h : ∀ c ∈ cs, c.isScalar = true) :
    expandList (cs.map Item.val) = some (cs.map Val.sc) := by
  induction cs with
  | nil => simp [expandList]
  | cons c r ih =>
    simp only [List.map_cons, expandList, Item.expand, h c (by simp), ↓reduceIte,
      ih (fun x hx => h x (by simp [hx]))]
    rfl

/-- a scalar of the property's domain is a scalar cell -/
theorem isScalar_of_domain (opt : POpt) (c : Cell) (h : ScalarInDomain opt c) : c.isScalar = true := by
  cases c <;> first | rfl | exact absurd h (by simp [ScalarInDomain])

/-- the elements of an array of the domain are plain scalar values -/
theorem arr_elems_of_domain (opt : POpt) (ety : UInt8) (es : List Item) (hd : ItemInDomain opt (.arr ety es)) :
    ∃ cs : List Cell, es = cs.map Item.val ∧ ∀ c ∈ cs, ScalarInDomain opt c ∧ typesMatch c.type ety = true := by
  obtain ⟨_, hel, _⟩ := hd
  clear * - hel
  induction es with
  | nil => exact ⟨[], rfl, by simp⟩
  | cons e r ih =>
    obtain ⟨c, hc', hdom, hty⟩ := hel e (by simp)
    obtain ⟨cs, hcs, hall⟩ := ih (fun e' he' => hel e' (by simp [he']))
    refine ⟨c :: cs, by simp [hc', hcs], ?_⟩
    intro x hx
    rcases List.mem_cons.mp hx with rfl | hx
    · exact ⟨hdom, hty⟩
    · exact hall x hx

/-- every argument list of the property's domain denotes a value list -/
theorem expandList_of_domain (opt : POpt) (items : List Item) (hd : ∀ x ∈ items, ItemInDomain opt x) :
    ∃ vs, expandList items = some vs := by
  induction items with
  | nil => exact ⟨[], by simp [expandList]⟩
  | cons x xs ih =>
    obtain ⟨vs, hvs⟩ := ih (fun y hy => hd y (by simp [hy]))
    have hx := hd x (by simp)
    have hexp : ∃ a, x.expand = some a := by
      cases x with
      | val c => exact ⟨[.sc c], by simp [Item.expand, isScalar_of_domain opt c hx]⟩
      | arr ety es =>
        obtain ⟨cs, rfl, hall⟩ := arr_elems_of_domain opt ety es hx
        refine ⟨[.arr ety (cs.map Val.sc)], ?_⟩
        simp [Item.expand, expandList_vals cs (fun c hc => isScalar_of_domain opt c (hall c hc).1)]
      | rep n y => exact absurd hx (by simp [ItemInDomain])
      | range n d st => exact absurd hx (by simp [ItemInDomain])
    obtain ⟨a, ha⟩ := hexp
    exact ⟨a ++ vs, by simp [expandList, ha, hvs]⟩

/-- a time tag at midnight without fraction: printed as a bare date, which is only unambiguous at
    the end of a text (a following ` 12:34` would be read as its clock time) -/
def MidnightTime : Cell → Prop
  | .time v => v ≠ 1 ∧ v % 4294967296 = 0 ∧ v / 4294967296 % 86400 = 0
  | _ => False

/-- every scalar of the property's domain (other than a midnight time tag) has a proved token -/
theorem simpleVal_of_domain (opt : POpt) (hopt : OptOK opt) (c : Cell) (h : ScalarInDomain opt c)
    (hm : ¬ MidnightTime c) : SimpleVal opt c := by
  cases c with
  | int ty v =>
    cases ty with
    | i => exact .int v h.1 h.2
    | c => exact .char v h
    | r => exact .color v h.1 h.2
  | huge v => exact .huge v h.1 h.2
  | time v =>
    obtain ⟨hv, hcase⟩ := h
    have e : v = v / 4294967296 * 4294967296 + v % 4294967296 := by omega
    have hsecs : v / 4294967296 < 4294967296 := by omega
    rcases hcase with h1 | h0 | ⟨hl, m, k, hmk, hfr⟩
    · subst h1; exact .immediately
    · by_cases h1 : v = 1
      · subst h1; exact .immediately
      · have hclock : v / 4294967296 % 86400 ≠ 0 := by
          intro hz; exact hm ⟨h1, h0, hz⟩
        have := SimpleVal.timeClock (opt := opt) (v / 4294967296) hsecs hclock
        rw [show v / 4294967296 * 4294967296 = v from by omega] at this
        exact this
    · by_cases hz : v % 4294967296 = 0
      · by_cases h1 : v = 1
        · subst h1; exact .immediately
        · have hclock : v / 4294967296 % 86400 ≠ 0 := by
            intro hz'; exact hm ⟨h1, hz, hz'⟩
          have := SimpleVal.timeClock (opt := opt) (v / 4294967296) hsecs hclock
          rw [show v / 4294967296 * 4294967296 = v from by omega] at this
          exact this
      · have := SimpleVal.timeFrac (opt := opt) (v / 4294967296) (v % 4294967296) hl hopt.1 hsecs (by omega) (by omega)
          ⟨m, k, hmk, hfr⟩
        rw [← e] at this
        exact this
  | flt b => exact .float b h.1 hopt.1 h.2
  | dbl b => exact .double b h.1 hopt.1 h.2
  | midi a b c d => exact .midi a b c d
  | str ty s =>
    cases s with
    | none => exact absurd h (by simp [ScalarInDomain])
    | some s =>
      cases ty with
      | s => exact .string s h
      | S => exact .symbol s h
  | blob d => exact .blob d h
  | flag f => exact .flag f
  | arr ety len => exact absurd h (by simp [ScalarInDomain])
  | rep n hd => exact absurd h (by simp [ScalarInDomain])

/-- **print_scan_roundtrip_partial**: the full statement for lists of scalar values of the
    property's domain — every type, floats and doubles bit-exact in lossless mode, time tags with
    float-representable fractions — which the printer does not turn into ranges (compression off,
    or no five same-typed values in a row).  Missing for the full statement: arrays, compressed
    runs (tier 3), and a midnight time tag anywhere but alone (`timetag_roundtrip`). -/
theorem print_scan_roundtrip_partial (opt : POpt) (hopt : OptOK opt) (cs : List Cell)
    (hv : ∀ c ∈ cs, ScalarInDomain opt c ∧ ¬ MidnightTime c)
    (hr : opt.compress = false ∨ NoLongRun cs) : RoundTrips opt (cs.map Item.val) := by
  obtain ⟨st, ret, h1, h2, h3, h4⟩ :=
    list_roundtrip opt cs (fun c hc => simpleVal_of_domain opt hopt c (hv c hc).1 (hv c hc).2) hr
  have hexp := expandList_vals cs (fun c hc => isScalar_of_domain opt c (hv c hc).1)
  refine ⟨st, ret, cs.map Item.val, cs.map Val.sc, ?_, h2, ?_, ?_, hexp, hexp⟩
  · rw [flatList_vals]; exact h1
  · rw [flatList_vals]; exact h3
  · rw [flatList_vals]; exact h4

/-! ### Tier 3, partial: arrays (without compression) -/

theorem typesMatch_trans (a b c : UInt8) (h1 : typesMatch a c = true) (h2 : typesMatch b c = true) :
    typesMatch a b = true := by
  simp only [typesMatch, Bool.or_eq_true, Bool.and_eq_true, decide_eq_true_eq] at *
  rcases h1 with (h1 | h1) | h1 <;> rcases h2 with (h2 | h2) | h2 <;> simp_all

theorem flatList_eq_flatten (items : List Item) : flatList items = (items.map Item.flat).flatten := by
  induction items with
  | nil => simp [flatList]
  | cons x xs ih => simp [flatList, ih]

theorem getLast?_map_val (cs : List Cell) :
    (match (cs.map Item.val).getLast? with | some (.val c) => c.type | _ => 32) = lastTy cs 32 := by
  unfold lastTy
  rw [List.getLast?_map]
  cases cs.getLast? <;> rfl

/-- no time tag at midnight anywhere in the argument (see `MidnightTime`) -/
def ItemNoMidnight : Item → Prop
  | .val c => ¬ MidnightTime c
  | .arr _ es => ∀ e ∈ es, ∀ c, e = .val c → ¬ MidnightTime c
  | _ => True

/-- an argument of the property's domain is a `GoodArg` when compression is off -/
theorem goodArg_of_domain (opt : POpt) (hopt : OptOK opt) (hc : opt.compress = false) (x : Item)
    (hd : ItemInDomain opt x) (hm : ItemNoMidnight x) : GoodArg opt x.flat := by
  cases x with
  | val c =>
    have hs := simpleVal_of_domain opt hopt c hd hm
    exact GoodArg.scalar c hs.token.1 hs.token.2
  | arr ety es =>
    obtain ⟨_, hel, hety⟩ := hd
    -- the elements are plain values
    obtain ⟨cs, hcs⟩ : ∃ cs : List Cell, es = cs.map Item.val := by
      have key : ∀ l : List Item, (∀ e ∈ l, ∃ c, e = Item.val c ∧ ScalarInDomain opt c ∧ typesMatch c.type ety = true) →
          ∃ cs : List Cell, l = cs.map Item.val := by
        intro l
        induction l with
        | nil => intro _; exact ⟨[], rfl⟩
        | cons e r ih =>
          intro hl
          obtain ⟨c, hc', _⟩ := hl e (by simp)
          obtain ⟨cs, hcs⟩ := ih (fun e' he' => hl e' (by simp [he']))
          exact ⟨c :: cs, by simp [hc', hcs]⟩
      exact key es hel
    subst hcs
    have hflat : flatList (cs.map Item.val) = cs := flatList_vals cs
    have hsv : ∀ c ∈ cs, SimpleVal opt c ∧ typesMatch c.type ety = true := by
      intro c hcm
      obtain ⟨c', hc', hdom, hty⟩ := hel (.val c) (List.mem_map.mpr ⟨c, hcm, rfl⟩)
      cases hc'
      exact ⟨simpleVal_of_domain opt hopt c hdom (hm (.val c) (List.mem_map.mpr ⟨c, hcm, rfl⟩) c rfl), hty⟩
    rw [getLast?_map_val] at hety
    simp only [Item.flat, hflat]
    rw [hety]
    refine GoodArg.array cs (fun e he => (hsv e he).1.token) ?_ (Or.inl hc)
    intro e he
    cases cs with
    | nil => cases he
    | cons c0 r =>
      simp only [List.headD_cons]
      exact typesMatch_trans _ _ ety (hsv c0 (by simp)).2 (hsv e he).2
  | rep n x => exact absurd hd (by simp [ItemInDomain])
  | range n d s => exact absurd hd (by simp [ItemInDomain])

/-- **print_scan_roundtrip_nocompress** (tier 3, partial): with range compression switched off the
    full statement holds — every argument list of the property's domain, scalars and arrays of
    scalars, any line length and precision (only midnight time tags are excluded, see
    `MidnightTime`).  What remains unproved is compression: constant and arithmetic runs printed as
    `nxA` / `a b ... c`. -/
theorem print_scan_roundtrip_nocompress (opt : POpt) (hopt : OptOK opt) (hc : opt.compress = false)
    (items : List Item) (hd : ∀ x ∈ items, ItemInDomain opt x ∧ ItemNoMidnight x) : RoundTrips opt items := by
  have hflat := flatList_eq_flatten items
  obtain ⟨st, ret, h1, h2, h3, h4⟩ := list_roundtrip_goodArgs opt (items.map Item.flat)
    (by
      intro cs hcs
      obtain ⟨x, hx, rfl⟩ := List.mem_map.mp hcs
      exact goodArg_of_domain opt hopt hc x (hd x hx).1 (hd x hx).2)
    (noConversion_args_nocompress opt hc _ (by
      intro cs hcs
      obtain ⟨x, _, rfl⟩ := List.mem_map.mp hcs
      cases x <;> simp [Item.flat]))
  obtain ⟨vs, hvs⟩ := expandList_of_domain opt items (fun x hx => (hd x hx).1)
  refine ⟨st, ret, items, vs, ?_, h2, ?_, ?_, hvs, hvs⟩
  · rw [hflat]; exact h1
  · rw [hflat]; exact h3
  · rw [hflat]; exact h4

/-- **message_roundtrip_nocompress** (tier 3, partial, "the same holds for whole messages"): with
    range compression switched off, address plus any argument list of the property's domain
    (scalars and arrays of scalars; midnight time tags excluded). -/
theorem message_roundtrip_nocompress (opt : POpt) (hopt : OptOK opt) (hc : opt.compress = false)
    (addr : Bytes) (adrsize : Nat) (ha : AddrOK addr) (hal : addr.length < adrsize)
    (items : List Item) (hd : ∀ x ∈ items, ItemInDomain opt x ∧ ItemNoMidnight x) :
    MsgRoundTrips opt addr adrsize items := by
  have hflat := flatList_eq_flatten items
  obtain ⟨st, ret, h1, h2, h3, h4⟩ := message_roundtrip_goodArgs opt addr (items.map Item.flat) adrsize ha hal
    (by
      intro cs hcs
      obtain ⟨x, hx, rfl⟩ := List.mem_map.mp hcs
      exact goodArg_of_domain opt hopt hc x (hd x hx).1 (hd x hx).2)
    (noConversion_args_nocompress opt hc _ (by
      intro cs hcs
      obtain ⟨x, _, rfl⟩ := List.mem_map.mp hcs
      cases x <;> simp [Item.flat]))
  obtain ⟨vs, hvs⟩ := expandList_of_domain opt items (fun x hx => (hd x hx).1)
  refine ⟨st, ret, items, vs, ?_, h2, ?_, ?_, hvs, hvs⟩
  · rw [hflat]; exact h1
  · rw [hflat]; exact h3
  · rw [hflat]; exact h4

/-- **array_roundtrip**: a homogeneous array of domain values (any length, no compression inside
    or around it) — `[1 2 3]`, `["a" "b"]`, `[true false]`, `[]`. -/
theorem array_roundtrip_nocompress (opt : POpt) (hopt : OptOK opt) (hc : opt.compress = false) (ety : UInt8)
    (es : List Item) (hd : ItemInDomain opt (.arr ety es)) (hm : ItemNoMidnight (.arr ety es)) :
    RoundTrips opt [.arr ety es] :=
  print_scan_roundtrip_nocompress opt hopt hc [.arr ety es] (by
    intro x hx; simp only [List.mem_singleton] at hx; subst hx; exact ⟨hd, hm⟩)

/-! ### Tier 3: range compression, for lists that are one run -/


theorem expandList_replicate_val (c : Cell) (hsc : c.isScalar = true) (n : Nat) :
    expandList (List.replicate n (Item.val c)) = some (List.replicate n (Val.sc c)) := by
  induction n with
  | zero => simp [expandList]
  | succ k ih =>
    simp only [List.replicate_succ, expandList, Item.expand, hsc, ↓reduceIte, ih]
    rfl

theorem expandList_rep (c : Cell) (hsc : c.isScalar = true) (n : Nat) (hn : 1 ≤ n) :
    expandList [Item.rep n (Item.val c)] = some (List.replicate n (Val.sc c)) := by
  simp [expandList, Item.expand, hsc, hn]



theorem feq_self_f32 (b : UInt32) (h : f32.expField b.toNat ≠ 255) : ArgVal.f32.feq b.toNat b.toNat = true := by
  have hb : b.toNat < 4294967296 := b.toNat_lt
  simp only [FFmt.expField, FFmt.mag, FFmt.signBit, f32] at h
  simp only [ArgVal.FFmt.feq, ArgVal.FFmt.isNaN, ArgVal.FFmt.mag, ArgVal.FFmt.signBit, ArgVal.FFmt.infBits,
    ArgVal.FFmt.expMax, ArgVal.f32, Bool.and_eq_true, Bool.not_eq_true', beq_self_eq_true,
    and_true, and_self]
  norm_num at h ⊢
  omega

theorem feq_self_f64 (b : UInt64) (h : f64.expField b.toNat ≠ 2047) : ArgVal.f64.feq b.toNat b.toNat = true := by
  have hb : b.toNat < 18446744073709551616 := b.toNat_lt
  simp only [FFmt.expField, FFmt.mag, FFmt.signBit, f64] at h
  simp only [ArgVal.FFmt.feq, ArgVal.FFmt.isNaN, ArgVal.FFmt.mag, ArgVal.FFmt.signBit, ArgVal.FFmt.infBits,
    ArgVal.FFmt.expMax, ArgVal.f64, Bool.and_eq_true, Bool.not_eq_true', beq_self_eq_true,
    and_true, and_self]
  norm_num at h ⊢
  omega

/-- every scalar of the property's domain is identical to itself for the printer's run detection -/
theorem selfIdentical_of_domain (opt : POpt) (c : Cell) (h : ScalarInDomain opt c) : SelfIdentical c := by
  cases c with
  | int ty v => exact selfIdentical_int ty v
  | huge v => exact selfIdentical_huge v
  | time v => exact selfIdentical_time v
  | flt b => exact selfIdentical_flt b (feq_self_f32 b h.2)
  | dbl b => exact selfIdentical_dbl b (feq_self_f64 b h.2)
  | midi a b c d => exact selfIdentical_midi a b c d
  | str ty s =>
    cases s with
    | none => exact absurd h (by simp [ScalarInDomain])
    | some s => exact selfIdentical_str ty s
  | blob d => exact selfIdentical_blob d
  | flag f => exact selfIdentical_flag f
  | arr ety len => exact absurd h (by simp [ScalarInDomain])
  | rep n hd => exact absurd h (by simp [ScalarInDomain])

theorem flatList_rep_val (n : Nat) (c : Cell) : flatList [Item.rep n (Item.val c)] = [Cell.rep n 0, c] := by
  simp [flatList, Item.flat]

/-- **range_roundtrip_const** (tier 3): a list of `n ≥ 5` copies of one scalar value of the domain,
    compression on, is printed as `nxA` and scanned as the repetition block; its expansion is
    the original list. -/
theorem range_roundtrip_const (opt : POpt) (hopt : OptOK opt) (hc : opt.compress = true) (c : Cell)
    (hd : ScalarInDomain opt c) (hm : ¬ MidnightTime c)
    (n : Nat) (hn5 : 5 ≤ n) (hn : n ≤ 2147483647) :
    RoundTrips opt (List.replicate n (Item.val c)) := by
  have hs := (simpleVal_of_domain opt hopt c hd hm).token
  obtain ⟨st, ret, h1, h2, h3, h4⟩ :=
    const_run_roundtrip opt hc c hs.1 hs.2 (selfIdentical_of_domain opt c hd) n hn5 hn
  refine ⟨st, ret, [Item.rep n (Item.val c)], List.replicate n (Val.sc c), ?_, h2, ?_, ?_,
    expandList_rep c hs.1 n (by omega), expandList_replicate_val c hs.1 n⟩
  · have : flatList (List.replicate n (Item.val c)) = List.replicate n c := by
      have := flatList_vals (List.replicate n c)
      simpa using this
    rw [this]; exact h1
  · rw [flatList_rep_val]; simpa using h3
  · rw [flatList_rep_val]; simpa using h4



theorem wrapI32_id (v : Int) (h1 : -2147483648 ≤ v) (h2 : v ≤ 2147483647) : ArgVal.wrapI32 v = v := by
  unfold ArgVal.wrapI32; omega

theorem rangeVal_int (d a : Int) (i : Nat)
    (hm : -2147483648 ≤ (i : Int) * d ∧ (i : Int) * d ≤ 2147483647)
    (hs : -2147483648 ≤ a + (i : Int) * d ∧ a + (i : Int) * d ≤ 2147483647) :
    ArgVal.rangeVal (Cell.int .i d) (Cell.int .i a) i = .ok (Cell.int .i (a + (i : Int) * d)) := by
  simp [ArgVal.rangeVal, ArgVal.fromInt, ArgVal.mult, ArgVal.add, ArgVal.Cell.type, wrapI32_id _ hm.1 hm.2,
    wrapI32_id _ hs.1 hs.2]

theorem rangeVals_int (d a : Int) : ∀ (m i : Nat),
    (∀ k : Nat, i ≤ k → k < i + m →
      (-2147483648 ≤ (k : Int) * d ∧ (k : Int) * d ≤ 2147483647) ∧
      (-2147483648 ≤ a + (k : Int) * d ∧ a + (k : Int) * d ≤ 2147483647)) →
    ArgVal.rangeVals (Cell.int .i d) (Cell.int .i a) i m =
      some ((List.range m).map (fun (j : Nat) => Val.sc (Cell.int .i (a + ((i + j : Nat) : Int) * d)))) := by
  intro m
  induction m with
  | zero => intro i _; simp [ArgVal.rangeVals]
  | succ k ih =>
    intro i h
    have h0 := h i (Nat.le_refl _) (by omega)
    have hrest := ih (i + 1) (fun k' hk1 hk2 => h k' (by omega) (by omega))
    simp only [ArgVal.rangeVals, rangeVal_int d a i h0.1 h0.2, hrest]
    rw [List.range_succ_eq_map]
    simp only [List.map_cons, List.map_map, Nat.add_zero]
    congr 2
    apply List.map_congr_left
    intro j _
    simp only [Function.comp]
    have : i + 1 + j = i + Nat.succ j := by omega
    rw [this]



/-- the arithmetic run `a, a+d, …` of `n` int32 values as an argument list -/
def arithItems (a d : Int) (n : Nat) : List Item := (arithRun a d n).map Item.val

theorem expandList_arithItems (a d : Int) (n : Nat) :
    expandList (arithItems a d n) =
      some ((List.range n).map (fun (k : Nat) => Val.sc (Cell.int .i (a + (k : Int) * d)))) := by
  unfold arithItems arithRun
  rw [expandList_vals _ (by intro c hc; simp only [List.mem_map] at hc; obtain ⟨k, _, rfl⟩ := hc; rfl)]
  simp [List.map_map, Function.comp]

/-- **range_roundtrip_int** (tier 3): a list that is one arithmetic run of `n ≥ 5` int32 values
    (step `d ≠ 0`; the run and the step behind it stay inside int32, and it is not wider than the
    positive range — fixes C10-11, C10-15), compression on, is printed as `a ... z` / `a b ... z`
    and scanned as a range whose expansion is the original list. -/
theorem range_roundtrip_int (opt : POpt) (hc : opt.compress = true) (a d : Int) (n : Nat) (hn : 5 ≤ n) (hd : d ≠ 0)
    (hrange : ∀ k : Nat, k ≤ n → -2147483648 ≤ a + (k : Int) * d ∧ a + (k : Int) * d ≤ 2147483647)
    (hwidth : ((n : Int) - 1) * d.natAbs ≤ 2147483647)
    (hn32 : (d = 1 ∨ d = -1) → (n : Int) ≤ 2147483647) :
    RoundTrips opt (arithItems a d n) := by
  obtain ⟨st, ret, cells, h1, h2, h3, h4, hcells⟩ := int_run_roundtrip opt hc a d n hn hd hrange hwidth hn32
  have hflat : flatList (arithItems a d n) = arithRun a d n := flatList_vals _
  have hmul : ∀ k : Nat, k + 1 ≤ n → -2147483648 ≤ (k : Int) * d ∧ (k : Int) * d ≤ 2147483647 := by
    intro k hk
    have := mul_bound n d hwidth k (by omega)
    omega
  by_cases hu : d = 1 ∨ d = -1
  · -- `a ... z`
    rw [if_pos hu] at hcells
    refine ⟨st, ret, [Item.range n (Cell.int .i d) (Cell.int .i a)],
      (List.range n).map (fun (k : Nat) => Val.sc (Cell.int .i (a + (k : Int) * d))), ?_, h2, ?_, ?_, ?_,
      expandList_arithItems a d n⟩
    · rw [hflat]; exact h1
    · simpa [flatList, Item.flat, hcells] using h3
    · have : flatList [Item.range n (Cell.int .i d) (Cell.int .i a)] = cells := by simp [flatList, Item.flat, hcells]
      rw [this]; exact h4
    · simp only [expandList, Item.expand, ArgVal.Cell.isScalar, and_self, show 1 ≤ n from by omega, ↓reduceIte]
      rw [rangeVals_int d a n 0 (by
        intro k _ hk
        exact ⟨hmul k (by omega), hrange k (by omega)⟩)]
      simp
  · -- `a b ... z`
    rw [if_neg hu] at hcells
    have hn1 : ((n - 1 : Nat) : Int) = (n : Int) - 1 := by omega
    refine ⟨st, ret, [Item.val (Cell.int .i a), Item.range (n - 1) (Cell.int .i d) (Cell.int .i (a + d))],
      (List.range n).map (fun (k : Nat) => Val.sc (Cell.int .i (a + (k : Int) * d))), ?_, h2, ?_, ?_, ?_,
      expandList_arithItems a d n⟩
    · rw [hflat]; exact h1
    · simpa [flatList, Item.flat, hcells, hn1] using h3
    · have : flatList [Item.val (Cell.int .i a), Item.range (n - 1) (Cell.int .i d) (Cell.int .i (a + d))] = cells := by
        simp [flatList, Item.flat, hcells, hn1]
      rw [this]; exact h4
    · simp only [expandList, Item.expand, ArgVal.Cell.isScalar, and_self, show 1 ≤ n - 1 from by omega, ↓reduceIte]
      rw [rangeVals_int d (a + d) (n - 1) 0 (by
        intro k _ hk
        refine ⟨hmul k (by omega), ?_⟩
        have := hrange (k + 1) (by omega)
        have e : a + d + (k : Int) * d = a + ((k + 1 : Nat) : Int) * d := by
          rw [Int.natCast_add, Int.add_mul]; simp; omega
        rw [e]; exact this)]
      simp only [Nat.zero_add, List.cons_append, List.nil_append, Option.some.injEq]
      obtain ⟨m, rfl⟩ : ∃ m, n = m + 1 := ⟨n - 1, by omega⟩
      simp only [Nat.add_sub_cancel]
      rw [List.range_succ_eq_map]
      simp only [List.map_cons, List.map_map, Int.natCast_zero, Int.zero_mul, Int.add_zero, List.cons.injEq, true_and]
      rw [List.append_nil]
      apply List.map_congr_left
      intro j _
      simp only [Function.comp]
      congr 2
      rw [show ((Nat.succ j : Nat) : Int) = (j : Int) + 1 from by simp, Int.add_mul]
      omega




/-! ### Tier 3: arithmetic runs of 'h' and 'c' values, for lists that are one run -/

theorem rangeVals_gen (mk : Int → Cell) (d a : Int) : ∀ (m i : Nat),
    (∀ k : Nat, i ≤ k → k < i + m → ArgVal.rangeVal (mk d) (mk a) k = .ok (mk (a + (k : Int) * d))) →
    ArgVal.rangeVals (mk d) (mk a) i m =
      some ((List.range m).map (fun (j : Nat) => Val.sc (mk (a + ((i + j : Nat) : Int) * d)))) := by
  intro m
  induction m with
  | zero => intro i _; simp [ArgVal.rangeVals]
  | succ k ih =>
    intro i h
    have h0 := h i (Nat.le_refl _) (by omega)
    have hrest := ih (i + 1) (fun k' hk1 hk2 => h k' (by omega) (by omega))
    simp only [ArgVal.rangeVals, h0, hrest]
    rw [List.range_succ_eq_map]
    simp only [List.map_cons, List.map_map, Nat.add_zero]
    congr 2
    apply List.map_congr_left
    intro j _
    simp only [Function.comp]
    have : i + 1 + j = i + Nat.succ j := by omega
    rw [this]

/-- from the cell-level round trip of a list that is one arithmetic run of cells `mk v` to the
    statement-level one: the range block expands to the run -/
theorem range_roundtrip_of_cells (opt : POpt) (mk : Int → Cell) (hsc : ∀ v, (mk v).isScalar = true) (a d : Int) (n : Nat)
    (hn : 5 ≤ n)
    (hval : ∀ k : Nat, k < n → ArgVal.rangeVal (mk d) (mk a) k = .ok (mk (a + (k : Int) * d)))
    (hval2 : ∀ k : Nat, k + 1 < n → ArgVal.rangeVal (mk d) (mk (a + d)) k = .ok (mk (a + d + (k : Int) * d)))
    (hrt : ∃ (st : PSt) (ret : Nat) (cells : List Cell),
      printArgVals opt ((List.range n).map (fun (k : Nat) => mk (a + (k : Int) * d))) ⟨[], 0⟩ = .ok (st, ret) ∧
      ret = st.out.length ∧ countPrintedArgVals st.out = .ok (cells.length : Int) ∧
      scanArgVals st.out cells.length = .ok (st.out.length, cells) ∧
      cells = (if d = 1 ∨ d = -1 then [Cell.rep n 1, mk d, mk a]
               else [mk a, Cell.rep ((n : Int) - 1) 1, mk d, mk (a + d)])) :
    RoundTrips opt (((List.range n).map (fun (k : Nat) => mk (a + (k : Int) * d))).map Item.val) := by
  obtain ⟨st, ret, cells, h1, h2, h3, h4, hcells⟩ := hrt
  have hexp : expandList (((List.range n).map (fun (k : Nat) => mk (a + (k : Int) * d))).map Item.val) =
      some ((List.range n).map (fun (k : Nat) => Val.sc (mk (a + (k : Int) * d)))) := by
    rw [expandList_vals _ (by intro c hc; simp only [List.mem_map] at hc; obtain ⟨k, _, rfl⟩ := hc; exact hsc _)]
    simp [List.map_map, Function.comp]
  by_cases hu : d = 1 ∨ d = -1
  · rw [if_pos hu] at hcells
    refine ⟨st, ret, [Item.range n (mk d) (mk a)], _, ?_, h2, ?_, ?_, ?_, hexp⟩
    · rw [flatList_vals]; exact h1
    · simpa [flatList, Item.flat, hcells] using h3
    · have : flatList [Item.range n (mk d) (mk a)] = cells := by simp [flatList, Item.flat, hcells]
      rw [this]; exact h4
    · simp only [expandList, Item.expand, hsc, and_self, show 1 ≤ n from by omega, ↓reduceIte]
      rw [rangeVals_gen mk d a n 0 (by intro k _ hk; exact hval k (by omega))]
      simp
  · rw [if_neg hu] at hcells
    have hn1 : ((n - 1 : Nat) : Int) = (n : Int) - 1 := by omega
    refine ⟨st, ret, [Item.val (mk a), Item.range (n - 1) (mk d) (mk (a + d))], _, ?_, h2, ?_, ?_, ?_, hexp⟩
    · rw [flatList_vals]; exact h1
    · simpa [flatList, Item.flat, hcells, hn1] using h3
    · have : flatList [Item.val (mk a), Item.range (n - 1) (mk d) (mk (a + d))] = cells := by
        simp [flatList, Item.flat, hcells, hn1]
      rw [this]; exact h4
    · simp only [expandList, Item.expand, hsc, and_self, show 1 ≤ n - 1 from by omega, ↓reduceIte]
      rw [rangeVals_gen mk d (a + d) (n - 1) 0 (by intro k _ hk; exact hval2 k (by omega))]
      simp only [Nat.zero_add, List.cons_append, List.nil_append, Option.some.injEq]
      obtain ⟨m, rfl⟩ : ∃ m, n = m + 1 := ⟨n - 1, by omega⟩
      simp only [Nat.add_sub_cancel]
      rw [List.range_succ_eq_map]
      simp only [List.map_cons, List.map_map, Int.natCast_zero, Int.zero_mul, Int.add_zero, List.cons.injEq, true_and]
      rw [List.append_nil]
      apply List.map_congr_left
      intro j _
      simp only [Function.comp]
      congr 2
      rw [show ((Nat.succ j : Nat) : Int) = (j : Int) + 1 from by simp, Int.add_mul]
      omega

theorem wrapI64_id (v : Int) (h1 : -9223372036854775808 ≤ v) (h2 : v ≤ 9223372036854775807) : ArgVal.wrapI64 v = v := by
  unfold ArgVal.wrapI64; omega

theorem rangeVal_huge (d a : Int) (i : Nat)
    (hm : -9223372036854775808 ≤ (i : Int) * d ∧ (i : Int) * d ≤ 9223372036854775807)
    (hs : -9223372036854775808 ≤ a + (i : Int) * d ∧ a + (i : Int) * d ≤ 9223372036854775807) :
    ArgVal.rangeVal (Cell.huge d) (Cell.huge a) i = .ok (Cell.huge (a + (i : Int) * d)) := by
  simp [ArgVal.rangeVal, ArgVal.fromInt, ArgVal.mult, ArgVal.add, ArgVal.Cell.type, wrapI64_id _ hm.1 hm.2,
    wrapI64_id _ hs.1 hs.2]

theorem rangeVal_char (d a : Int) (i : Nat)
    (hm : -2147483648 ≤ (i : Int) * d ∧ (i : Int) * d ≤ 2147483647)
    (hs : -2147483648 ≤ a + (i : Int) * d ∧ a + (i : Int) * d ≤ 2147483647) :
    ArgVal.rangeVal (Cell.int .c d) (Cell.int .c a) i = .ok (Cell.int .c (a + (i : Int) * d)) := by
  simp [ArgVal.rangeVal, ArgVal.fromInt, ArgVal.mult, ArgVal.add, ArgVal.Cell.type, ArgVal.IntTy.char,
    wrapI32_id _ hm.1 hm.2, wrapI32_id _ hs.1 hs.2]

/-- the arithmetic run `a, a+d, …` of `n` int64 values as an argument list -/
def hugeItems (a d : Int) (n : Nat) : List Item := (hugeRun a d n).map Item.val

/-- **range_roundtrip_huge** (tier 3, arithmetic runs of 'h' values): a list that is one arithmetic
    run of `n ≥ 5` int64 values (step `d ≠ 0`; the run and the step behind it stay inside int64, it is
    not wider than 2^63-1, and its length fits the `int` that `rtosc_arg_val_to_int` returns for the
    count — needed for EVERY step here, see `huge_delta_count_wraps` in Proofs/PrettyRunHuge.lean),
    compression on, is printed as `ah ... zh` / `ah bh ... zh` and scanned as a range whose
    expansion is the original list. -/
theorem range_roundtrip_huge (opt : POpt) (hc : opt.compress = true) (a d : Int) (n : Nat) (hn : 5 ≤ n) (hd : d ≠ 0)
    (hrange : ∀ k : Nat, k ≤ n → -9223372036854775808 ≤ a + (k : Int) * d ∧ a + (k : Int) * d ≤ 9223372036854775807)
    (hwidth : ((n : Int) - 1) * d.natAbs ≤ 9223372036854775807)
    (hn32 : (n : Int) ≤ 2147483647) :
    RoundTrips opt (hugeItems a d n) := by
  have hmul : ∀ k : Nat, k + 1 ≤ n → -9223372036854775807 ≤ (k : Int) * d ∧ (k : Int) * d ≤ 9223372036854775807 := by
    intro k hk
    have h0 := hrange 0 (by omega)
    have hk' := hrange k (by omega)
    have hl := hrange (n - 1) (by omega)
    -- |k d| ≤ (n-1)|d|
    have hkn : (k : Int) ≤ (n : Int) - 1 := by omega
    have habs : ((k : Int) * d).natAbs ≤ (((n : Int) - 1) * d.natAbs).toNat := by
      rw [Int.natAbs_mul]
      have : ((k : Int).natAbs : Int) * (d.natAbs : Int) ≤ ((n : Int) - 1) * (d.natAbs : Int) := by
        apply Int.mul_le_mul_of_nonneg_right _ (by omega)
        omega
      omega
    omega
  unfold hugeItems hugeRun
  refine range_roundtrip_of_cells opt Cell.huge (fun _ => rfl) a d n hn ?_ ?_
    (huge_run_roundtrip opt hc a d n hn hd hrange hwidth hn32)
  · intro k hk
    have hm := hmul k (by omega)
    exact rangeVal_huge d a k ⟨by omega, hm.2⟩ (hrange k (by omega))
  · intro k hk
    have hm := hmul k (by omega)
    have hs := hrange (k + 1) (by omega)
    have e : a + d + (k : Int) * d = a + ((k + 1 : Nat) : Int) * d := by rw [succ_mul']; omega
    exact rangeVal_huge d (a + d) k ⟨by omega, hm.2⟩ (by rw [e]; exact hs)

/-- the arithmetic run `a, a+d, …` of `n` characters as an argument list -/
def charItems (a d : Int) (n : Nat) : List Item := (charRun a d n).map Item.val

/-- **range_roundtrip_char** (tier 3, arithmetic runs of 'c' values): a list that is one arithmetic
    run of `n ≥ 5` characters of the domain (step `d ≠ 0`), compression on, is printed as
    `'a' ... 'e'` / `'a' 'c' ... 'i'` and scanned as a range whose expansion is the original list. -/
theorem range_roundtrip_char (opt : POpt) (hc : opt.compress = true) (a d : Int) (n : Nat) (hn : 5 ≤ n) (hd : d ≠ 0)
    (hchars : ∀ k : Nat, k < n → CharOK (a + (k : Int) * d)) :
    RoundTrips opt (charItems a d n) := by
  have hb : ∀ k : Nat, k < n → 0 ≤ a + (k : Int) * d ∧ a + (k : Int) * d ≤ 126 := by
    intro k hk
    have := hchars k hk
    unfold CharOK at this
    omega
  have hmul : ∀ k : Nat, k < n → -126 ≤ (k : Int) * d ∧ (k : Int) * d ≤ 126 := by
    intro k hk
    have h0 := hb 0 (by omega)
    have := hb k hk
    simp only [Int.natCast_zero, Int.zero_mul, Int.add_zero] at h0
    omega
  unfold charItems charRun
  refine range_roundtrip_of_cells opt (Cell.int .c) (fun _ => rfl) a d n hn ?_ ?_
    (char_run_roundtrip opt hc a d n hn hd hchars)
  · intro k hk
    have hm := hmul k hk
    have hs := hb k hk
    exact rangeVal_char d a k ⟨by omega, by omega⟩ ⟨by omega, by omega⟩
  · intro k hk
    have hm := hmul k (by omega)
    have hs := hb (k + 1) (by omega)
    have e : a + d + (k : Int) * d = a + ((k + 1 : Nat) : Int) * d := by rw [succ_mul']; omega
    exact rangeVal_char d (a + d) k ⟨by omega, by omega⟩ (by rw [e]; omega)

example : RoundTrips defaultOpt (hugeItems (-5000000000000000000) 2000000000000000000 5) :=
  range_roundtrip_huge defaultOpt rfl _ _ _ (by decide) (by decide) (by intro k hk; omega) (by decide) (by decide)

example : RoundTrips defaultOpt (charItems 122 (-2) 5) :=
  range_roundtrip_char defaultOpt rfl _ _ _ (by decide) (by decide) (by intro k hk; unfold CharOK; omega)

/-! ### Tier 3: compressed runs in context -/

/-- **the printer cuts the argument list into the segments `segs`** (`RSeg.tok c`: the value `c`
    printed as it is, `RSeg.crun n c`: `n` copies of `c` printed as `nxT`, `RSeg.irun a d n`: the
    int32 run `a, a+d, …, a+(n-1)d` printed as `a ... z` / `a b ... z`), under exactly the side
    conditions `rtosc_print_arg_vals` uses: `rtosc_convert_to_range`, called at the start of each
    segment on the whole rest of the list, returns nothing for a `tok`, the whole constant run for
    a `crun` and the whole arithmetic run for an `irun` (so the runs are maximal: the value behind a
    run does not continue it); the values are scalars of the property's domain; an arithmetic run
    satisfies the overflow guards of fixes C10-11 / C10-15 (`hrange` incl. the step behind the last
    element, `hwidth`) and its count fits an `int32_t`.  `PrinterSegments.crun_of_next` and
    `PrinterSegments.irun_of_next` below derive the two run conditions from the values: the value
    behind a constant run is not identical to the run's value, the value behind an arithmetic run is
    not its continuation `a + n·d`. -/
inductive PrinterSegments (opt : POpt) : List RSeg → Prop
  | nil : PrinterSegments opt []
  | tok (c : Cell) (segs : List RSeg) : ScalarInDomain opt c → ¬ MidnightTime c →
      convertToRange opt (c :: cellsAll segs) ((cellsAll segs).length + 1) = .ok none →
      PrinterSegments opt segs → PrinterSegments opt (.tok c :: segs)
  | crun (n : Nat) (c : Cell) (segs : List RSeg) : ScalarInDomain opt c → ¬ MidnightTime c → 5 ≤ n → n ≤ 2147483647 →
      convertToRange opt (List.replicate n c ++ cellsAll segs) (n + (cellsAll segs).length) =
        .ok (some (n, [Cell.rep n 0, c])) →
      PrinterSegments opt segs → PrinterSegments opt (.crun n c :: segs)
  | irun (a d : Int) (n : Nat) (segs : List RSeg) : 5 ≤ n → d ≠ 0 →
      (∀ k : Nat, k ≤ n → -2147483648 ≤ a + (k : Int) * d ∧ a + (k : Int) * d ≤ 2147483647) →
      ((n : Int) - 1) * d.natAbs ≤ 2147483647 → ((d = 1 ∨ d = -1) → (n : Int) ≤ 2147483647) →
      convertToRange opt (arithRun a d n ++ cellsAll segs) (n + (cellsAll segs).length) =
        .ok (some (n, [Cell.rep n 1, Cell.int .i d, Cell.int .i a])) →
      PrinterSegments opt segs → PrinterSegments opt (.irun a d n :: segs)

theorem PrinterSegments.segmented {opt : POpt} (hopt : OptOK opt) {segs : List RSeg} (h : PrinterSegments opt segs) :
    Segmented opt segs := by
  induction h with
  | nil => exact .nil
  | tok c segs hd hm hcv _ ih =>
    have hs := (simpleVal_of_domain opt hopt c hd hm).token
    exact .tok c segs hs.1 hs.2 hcv ih
  | crun n c segs hd hm h5 h2 hcv _ ih =>
    have hs := (simpleVal_of_domain opt hopt c hd hm).token
    exact .crun n c segs hs.1 hs.2 h5 h2 hcv ih
  | irun a d n segs h5 hd hr hw h32 hcv _ ih =>
    exact .irun a d n segs (runHyp_mk a d n h5 hd hr hw h32) hcv ih

/-- a constant run is a segment when the value behind it (if any) is not identical to the run's
    value (`range_args_identical`; for the types of the domain: a different type or value) -/
theorem PrinterSegments.crun_of_next {opt : POpt} (hopt : OptOK opt) (hc : opt.compress = true) (n : Nat) (c : Cell)
    (segs : List RSeg) (hd : ScalarInDomain opt c) (hm : ¬ MidnightTime c) (h5 : 5 ≤ n) (h2 : n ≤ 2147483647)
    (hnext : cellsAll segs = [] ∨ ∀ more, rangeArgsIdentical (c :: more) (cellsAll segs) = .ok false)
    (hrest : PrinterSegments opt segs) : PrinterSegments opt (.crun n c :: segs) :=
  .crun n c segs hd hm h5 h2
    (convertToRange_crun_of_next opt hc c (isScalar_of_domain opt c hd) (selfIdentical_of_domain opt c hd) n h5
      (cellsAll segs) (hrest.segmented hopt).scalars hnext) hrest

/-- an int32 arithmetic run is a segment when the value behind it (if any) is not its continuation -/
theorem PrinterSegments.irun_of_next {opt : POpt} (hopt : OptOK opt) (hc : opt.compress = true) (a d : Int) (n : Nat)
    (segs : List RSeg) (h5 : 5 ≤ n) (hd : d ≠ 0)
    (hr : ∀ k : Nat, k ≤ n → -2147483648 ≤ a + (k : Int) * d ∧ a + (k : Int) * d ≤ 2147483647)
    (hw : ((n : Int) - 1) * d.natAbs ≤ 2147483647) (h32 : (d = 1 ∨ d = -1) → (n : Int) ≤ 2147483647)
    (hnext : cellsAll segs = [] ∨ eqSingle [Cell.int .i (a + (n : Int) * d)] (cellsAll segs) = .ok false)
    (hrest : PrinterSegments opt segs) : PrinterSegments opt (.irun a d n :: segs) :=
  .irun a d n segs h5 hd hr hw h32
    (convertToRange_irun_of_next opt hc (runHyp_mk a d n h5 hd hr hw h32) (cellsAll segs)
      (hrest.segmented hopt).scalars hnext) hrest

/-- **print_scan_roundtrip_runs_partial** (tier 3, "constant and arithmetic runs … compression on",
    "compressed ranges being compared by their expansion"): the full statement for every list of
    scalar values of the property's domain in which compressed runs — constant runs of any scalar
    type (`nxA`), int32 arithmetic runs with any step (`a ... z`, or `a b ... z` when the step is
    not ±1 or the value in front would be mistaken for the range's left neighbour) — stand among
    uncompressed values, before, between and behind them, in any number and order: the printed
    length is the returned length, the checker accepts the text and counts exactly the cells the
    scanner writes, the scanner consumes the whole text, and the scanned items (`itemsAll`: values,
    repetitions, ranges) expand to the original values.  Not covered: arrays (hence runs inside
    arrays and runs of arrays), arithmetic runs of 'h' / 'c' / boolean values, midnight time tags. -/
theorem print_scan_roundtrip_runs_partial (opt : POpt) (hopt : OptOK opt) (hc : opt.compress = true)
    (segs : List RSeg) (hseg : PrinterSegments opt segs) :
    RoundTrips opt ((cellsAll segs).map Item.val) := by
  have hs := hseg.segmented hopt
  obtain ⟨st, ret, h1, h2, h3, h4⟩ := runs_roundtrip_cells opt hc segs hs
  refine ⟨st, ret, itemsAll none segs, (cellsAll segs).map Val.sc, ?_, h2, ?_, ?_, expandList_itemsAll hs none,
    expandList_valsX _ hs.scalars⟩
  · rw [flatList_valsX]; exact h1
  · rw [flatList_itemsAll hs none]; exact h3
  · rw [flatList_itemsAll hs none]; exact h4


/-- **message_roundtrip_runs_partial** (tier 3, "the same holds for whole messages"): address plus an
    argument list with compressed runs in context, as in `print_scan_roundtrip_runs_partial`. -/
theorem message_roundtrip_runs_partial (opt : POpt) (hopt : OptOK opt) (hc : opt.compress = true)
    (addr : Bytes) (adrsize : Nat) (ha : AddrOK addr) (hal : addr.length < adrsize)
    (segs : List RSeg) (hseg : PrinterSegments opt segs) :
    MsgRoundTrips opt addr adrsize ((cellsAll segs).map Item.val) := by
  have hs := hseg.segmented hopt
  obtain ⟨st, ret, h1, h2, h3, h4⟩ := runs_message_roundtrip_cells opt hc addr adrsize ha hal segs hs
  refine ⟨st, ret, itemsAll none segs, (cellsAll segs).map Val.sc, ?_, h2, ?_, ?_, expandList_itemsAll hs none,
    expandList_valsX _ hs.scalars⟩
  · rw [flatList_valsX]; exact h1
  · rw [flatList_itemsAll hs none]; exact h3
  · rw [flatList_itemsAll hs none]; exact h4

/-! ### Tier 3: compressed runs AND arrays -/

/-- **the printer cuts the argument list into the pieces `xs`**: an `ASeg.seg s` is a segment as in
    `PrinterSegments` (a value printed as it is, a constant run `nxT`, an int32 arithmetic run), an
    `ASeg.arr body` is an array whose body the array loop of the printer cuts into the segments
    `body` (values and compressed runs INSIDE the array), an `ASeg.arun n body` is a run of `n ≥ 5`
    equal such arrays, printed as `nx[…]` (for it `rtosc_convert_to_range` returns the whole run of
    arrays and the block `n x first array`).  The hypotheses are again exactly the side
    conditions of `rtosc_print_arg_vals` / `rtosc_print_arg_val`: `rtosc_convert_to_range`, called
    at the start of each piece on the whole rest of the list, returns nothing for a value and for
    an array header (no run of five identical arrays: see `PrinterPieces.arr_of_next`), the whole
    constant run, resp. the whole arithmetic run; inside an array it is called with the number of
    cells left in the array, which is `PrinterSegments opt body` for the body on its own
    (`convertToRange_append`: the cells behind the array are not looked at); the values of an
    array have one type (`ArrTypesOK`: the checker's `arraytypes_match`; 'T'/'F' count as one),
    and the array's tag is the type of its last value (`lastTyS body 32`, see `arrTag_eq`). -/
inductive PrinterPieces (opt : POpt) : List ASeg → Prop
  | nil : PrinterPieces opt []
  | tok (c : Cell) (xs : List ASeg) : ScalarInDomain opt c → ¬ MidnightTime c →
      convertToRange opt (c :: cellsAllA xs) ((cellsAllA xs).length + 1) = .ok none →
      PrinterPieces opt xs → PrinterPieces opt (.seg (.tok c) :: xs)
  | crun (n : Nat) (c : Cell) (xs : List ASeg) : ScalarInDomain opt c → ¬ MidnightTime c → 5 ≤ n → n ≤ 2147483647 →
      convertToRange opt (List.replicate n c ++ cellsAllA xs) (n + (cellsAllA xs).length) =
        .ok (some (n, [Cell.rep n 0, c])) →
      PrinterPieces opt xs → PrinterPieces opt (.seg (.crun n c) :: xs)
  | irun (a d : Int) (n : Nat) (xs : List ASeg) : 5 ≤ n → d ≠ 0 →
      (∀ k : Nat, k ≤ n → -2147483648 ≤ a + (k : Int) * d ∧ a + (k : Int) * d ≤ 2147483647) →
      ((n : Int) - 1) * d.natAbs ≤ 2147483647 → ((d = 1 ∨ d = -1) → (n : Int) ≤ 2147483647) →
      convertToRange opt (arithRun a d n ++ cellsAllA xs) (n + (cellsAllA xs).length) =
        .ok (some (n, [Cell.rep n 1, Cell.int .i d, Cell.int .i a])) →
      PrinterPieces opt xs → PrinterPieces opt (.seg (.irun a d n) :: xs)
  | arr (body : List RSeg) (xs : List ASeg) : PrinterSegments opt body → ArrTypesOK body →
      convertToRange opt (arrHdr body :: (cellsAll body ++ cellsAllA xs))
        ((cellsAll body).length + 1 + (cellsAllA xs).length) = .ok none →
      PrinterPieces opt xs → PrinterPieces opt (.arr body :: xs)
  | arun (n : Nat) (body : List RSeg) (xs : List ASeg) : PrinterSegments opt body → ArrTypesOK body → 5 ≤ n → n ≤ 2147483647 →
      convertToRange opt ((List.replicate n (arrHdr body :: cellsAll body)).flatten ++ cellsAllA xs)
        (n * ((cellsAll body).length + 1) + (cellsAllA xs).length) =
        .ok (some (n * ((cellsAll body).length + 1), Cell.rep n 0 :: arrHdr body :: cellsAll body)) →
      PrinterPieces opt xs → PrinterPieces opt (.arun n body :: xs)

theorem PrinterPieces.asegmented {opt : POpt} (hopt : OptOK opt) {xs : List ASeg} (h : PrinterPieces opt xs) :
    ASegmented opt xs := by
  induction h with
  | nil => exact .nil
  | tok c xs hd hm hcv _ ih =>
    have hs := (simpleVal_of_domain opt hopt c hd hm).token
    exact .tok c xs hs.1 hs.2 hcv ih
  | crun n c xs hd hm h5 h2 hcv _ ih =>
    have hs := (simpleVal_of_domain opt hopt c hd hm).token
    exact .crun n c xs hs.1 hs.2 h5 h2 hcv ih
  | irun a d n xs h5 hd hr hw h32 hcv _ ih =>
    exact .irun a d n xs (runHyp_mk a d n h5 hd hr hw h32) hcv ih
  | arr body xs hb hty hcv _ ih =>
    exact .arr body xs (hb.segmented hopt) hty hcv ih
  | arun n body xs hb hty h5 h2 hcv _ ih =>
    exact .arun n body xs (hb.segmented hopt) hty h5 h2 hcv ih

/-- the first cell of a list of pieces that starts with a segment is a scalar -/
theorem PrinterPieces.head_scalar {opt : POpt} {s : RSeg} {r : List ASeg} (h : PrinterPieces opt (.seg s :: r)) :
    ∃ c more, cellsAllA (.seg s :: r) = c :: more ∧ c.isScalar = true := by
  cases h with
  | tok c xs hd _ _ _ => exact ⟨c, cellsAllA r, by simp [cellsAllA, ASeg.cells, RSeg.cells], isScalar_of_domain opt c hd⟩
  | crun n c xs hd _ h5 _ _ _ =>
    obtain ⟨m, rfl⟩ : ∃ m, n = m + 1 := ⟨n - 1, by omega⟩
    exact ⟨c, List.replicate m c ++ cellsAllA r, by simp [cellsAllA, ASeg.cells, RSeg.cells, List.replicate_succ],
      isScalar_of_domain opt c hd⟩
  | irun a d n xs h5 _ _ _ _ _ _ =>
    refine ⟨Cell.int .i a, (arithRun a d n).drop 1 ++ cellsAllA r, ?_, rfl⟩
    simp only [cellsAllA, ASeg.cells, RSeg.cells]
    rw [arithRun_cons a d n (by omega)]
    simp

/-- an array is a piece when it is the last argument or is followed by a value or a run (not by
    another array): then `rtosc_convert_to_range` finds fewer than five arrays in a row -/
theorem PrinterPieces.arr_of_next {opt : POpt} (body : List RSeg) (xs : List ASeg) (hb : PrinterSegments opt body)
    (hty : ArrTypesOK body) (hnext : xs = [] ∨ ∃ s r, xs = .seg s :: r) (hrest : PrinterPieces opt xs) :
    PrinterPieces opt (.arr body :: xs) := by
  refine .arr body xs hb hty ?_ hrest
  unfold arrHdr
  apply convertToRange_arr_next
  rcases hnext with rfl | ⟨s, r, rfl⟩
  · right; simp [cellsAllA]
  · left; exact hrest.head_scalar

/-- a constant run is a piece when the cell behind it (if any; it may be an array header) is not
    identical to the run's value (`range_args_identical`) -/
theorem PrinterPieces.crun_of_next {opt : POpt} (hopt : OptOK opt) (hc : opt.compress = true) (n : Nat) (c : Cell)
    (xs : List ASeg) (hd : ScalarInDomain opt c) (hm : ¬ MidnightTime c) (h5 : 5 ≤ n) (h2 : n ≤ 2147483647)
    (hnext : cellsAllA xs = [] ∨ ∀ more, rangeArgsIdentical (c :: more) (cellsAllA xs) = .ok false)
    (hrest : PrinterPieces opt xs) : PrinterPieces opt (.seg (.crun n c) :: xs) :=
  .crun n c xs hd hm h5 h2
    (convertToRange_crun_of_nextW opt hc c (isScalar_of_domain opt c hd) (selfIdentical_of_domain opt c hd) n h5
      (cellsAllA xs) (wfCells_cellsAllA (hrest.asegmented hopt)) hnext) hrest

/-- an int32 arithmetic run is a piece when the cell behind it (if any; it may be an array header)
    is not its continuation -/
theorem PrinterPieces.irun_of_next {opt : POpt} (hopt : OptOK opt) (hc : opt.compress = true) (a d : Int) (n : Nat)
    (xs : List ASeg) (h5 : 5 ≤ n) (hd : d ≠ 0)
    (hr : ∀ k : Nat, k ≤ n → -2147483648 ≤ a + (k : Int) * d ∧ a + (k : Int) * d ≤ 2147483647)
    (hw : ((n : Int) - 1) * d.natAbs ≤ 2147483647) (h32 : (d = 1 ∨ d = -1) → (n : Int) ≤ 2147483647)
    (hnext : cellsAllA xs = [] ∨ eqSingle [Cell.int .i (a + (n : Int) * d)] (cellsAllA xs) = .ok false)
    (hrest : PrinterPieces opt xs) : PrinterPieces opt (.seg (.irun a d n) :: xs) :=
  .irun a d n xs h5 hd hr hw h32
    (convertToRange_irun_of_nextW opt hc (runHyp_mk a d n h5 hd hr hw h32) (cellsAllA xs)
      (wfCells_cellsAllA (hrest.asegmented hopt)) hnext) hrest

/-- the tag of an array piece is the one the property's domain demands (`ItemInDomain`, cf.
    `getLast?_map_val`): the type of the last element, 32 for an empty array -/
theorem arrTag_eq {opt : POpt} (hopt : OptOK opt) {body : List RSeg} (hb : PrinterSegments opt body) :
    lastTyS body 32 = lastTy (cellsAll body) 32 :=
  lastTyS_eq_lastTy (hb.segmented hopt) 32

instance (body : List RSeg) : Decidable (ArrTypesOK body) :=
  inferInstanceAs (Decidable (∀ e ∈ cellsAll body, typesMatch ((cellsAll body).headD (Cell.flag .N)).type e.type = true))

/-- **print_scan_roundtrip_arrays_partial** (tier 3, "arrays of them", "constant and arithmetic runs
    … compression on", "compressed ranges being compared by their expansion"): the full statement
    for every argument list whose arguments are scalar values of the property's domain, compressed
    runs of them (constant runs of any scalar type, int32 arithmetic runs) AND arrays of scalar
    values which may themselves contain compressed runs — in any number and order, values and
    runs directly behind an array included (there the scanner has no left neighbour,
    `args_before = 0`, and the checker sees an array, while the printer still looked at the
    array's last element: the three views are proved to lead to the same reading).  `origItemsA xs`
    is the original argument list (plain values and arrays of plain values), `itemsAllA none xs`
    what the scanner returns (values, `nxA`, ranges, arrays of them); both expand to `valsA xs`.
    Runs of n ≥ 5 equal arrays, printed as `nx[…]`, are pieces as well (`ASeg.arun`).
    Not covered: nested arrays, arithmetic runs of 'h' / 'c' / booleans, midnight time tags. -/
theorem print_scan_roundtrip_arrays_partial (opt : POpt) (hopt : OptOK opt) (hc : opt.compress = true)
    (xs : List ASeg) (hp : PrinterPieces opt xs) : RoundTrips opt (origItemsA xs) := by
  have hs := hp.asegmented hopt
  obtain ⟨st, ret, h1, h2, h3, h4⟩ := runs_arrays_roundtrip_cells opt hc xs hs
  refine ⟨st, ret, itemsAllA none xs, valsA xs, ?_, h2, ?_, ?_, expandList_itemsAllA hs none, expandList_origItemsA hs⟩
  · rw [flatList_origItemsA]; exact h1
  · rw [flatList_itemsAllA hs none]; exact h3
  · rw [flatList_itemsAllA hs none]; exact h4

/-- **message_roundtrip_arrays_partial** (tier 3, "the same holds for whole messages"): address plus
    an argument list of values, compressed runs and arrays with compressed runs, as in
    `print_scan_roundtrip_arrays_partial`. -/
theorem message_roundtrip_arrays_partial (opt : POpt) (hopt : OptOK opt) (hc : opt.compress = true)
    (addr : Bytes) (adrsize : Nat) (ha : AddrOK addr) (hal : addr.length < adrsize)
    (xs : List ASeg) (hp : PrinterPieces opt xs) : MsgRoundTrips opt addr adrsize (origItemsA xs) := by
  have hs := hp.asegmented hopt
  obtain ⟨st, ret, h1, h2, h3, h4⟩ := runs_arrays_message_roundtrip_cells opt hc addr adrsize ha hal xs hs
  refine ⟨st, ret, itemsAllA none xs, valsA xs, ?_, h2, ?_, ?_, expandList_itemsAllA hs none, expandList_origItemsA hs⟩
  · rw [flatList_origItemsA]; exact h1
  · rw [flatList_itemsAllA hs none]; exact h3
  · rw [flatList_itemsAllA hs none]; exact h4

theorem typesMatch_symm (a b : UInt8) (h : typesMatch a b = true) : typesMatch b a = true := by
  simp only [typesMatch, Bool.or_eq_true, Bool.and_eq_true, decide_eq_true_eq] at *
  rcases h with (h | h) | h <;> simp_all

/-- the values of a segmented list are values of the property's domain -/
theorem PrinterSegments.domain {opt : POpt} {segs : List RSeg} (h : PrinterSegments opt segs) :
    ∀ c ∈ cellsAll segs, ScalarInDomain opt c := by
  induction h with
  | nil => simp [cellsAll]
  | tok c segs hd _ _ _ ih =>
    intro x hx
    simp only [cellsAll, RSeg.cells, List.singleton_append, List.mem_cons] at hx
    rcases hx with rfl | hx
    · exact hd
    · exact ih x hx
  | crun n c segs hd _ _ _ _ _ ih =>
    intro x hx
    simp only [cellsAll, RSeg.cells, List.mem_append, List.mem_replicate] at hx
    rcases hx with ⟨_, rfl⟩ | hx
    · exact hd
    · exact ih x hx
  | irun a d n segs _ _ hr _ _ _ _ ih =>
    intro x hx
    simp only [cellsAll, RSeg.cells, List.mem_append, arithRun, List.mem_map, List.mem_range] at hx
    rcases hx with ⟨k, hk, rfl⟩ | hx
    · exact hr k (by omega)
    · exact ih x hx

/-- **the original argument list of a list of pieces is one of the property's domain**
    (`ItemInDomain`: scalars of the domain, arrays of them with elements of one type, tagged with the
    type of the last element), provided no array has more than 8 elements -/
theorem PrinterPieces.inDomain {opt : POpt} (hopt : OptOK opt) {xs : List ASeg} (h : PrinterPieces opt xs)
    (hlen : ∀ body, ASeg.arr body ∈ xs → (cellsAll body).length ≤ 8)
    (hlenR : ∀ n body, ASeg.arun n body ∈ xs → (cellsAll body).length ≤ 8) :
    ∀ x ∈ origItemsA xs, ItemInDomain opt x := by
  induction h with
  | nil => simp [origItemsA]
  | tok c xs hd _ _ _ ih =>
    intro x hx
    simp only [origItemsA, ASeg.origItems, RSeg.cells, List.map_cons, List.map_nil, List.singleton_append,
      List.mem_cons] at hx
    rcases hx with rfl | hx
    · exact hd
    · exact ih (fun b hb => hlen b (by simp [hb])) (fun m b hb => hlenR m b (by simp [hb])) x hx
  | crun n c xs hd _ _ _ _ _ ih =>
    intro x hx
    simp only [origItemsA, ASeg.origItems, RSeg.cells, List.mem_append, List.mem_map, List.mem_replicate] at hx
    rcases hx with ⟨y, ⟨_, rfl⟩, rfl⟩ | hx
    · exact hd
    · exact ih (fun b hb => hlen b (by simp [hb])) (fun m b hb => hlenR m b (by simp [hb])) x hx
  | irun a d n xs _ _ hr _ _ _ _ ih =>
    intro x hx
    simp only [origItemsA, ASeg.origItems, RSeg.cells, List.mem_append, List.mem_map, arithRun, List.mem_range] at hx
    rcases hx with ⟨y, ⟨k, hk, rfl⟩, rfl⟩ | hx
    · exact hr k (by omega)
    · exact ih (fun b hb => hlen b (by simp [hb])) (fun m b hb => hlenR m b (by simp [hb])) x hx
  | arr body xs hb hty _ _ ih =>
    intro x hx
    simp only [origItemsA, ASeg.origItems, List.singleton_append, List.mem_cons] at hx
    rcases hx with rfl | hx
    · have hdom := hb.domain
      have htag := arrTag_eq hopt hb
      refine ⟨by simpa using hlen body (by simp), ?_, ?_⟩
      · intro e he
        obtain ⟨c, hc, rfl⟩ := List.mem_map.mp he
        refine ⟨c, rfl, hdom c hc, ?_⟩
        -- the tag is the type of the last cell, which matches the first like every cell
        rw [htag]
        obtain ⟨l, hl⟩ : ∃ l, (cellsAll body).getLast? = some l := by
          cases hg : (cellsAll body).getLast? with
          | none => rw [List.getLast?_eq_none_iff] at hg; rw [hg] at hc; cases hc
          | some l => exact ⟨l, rfl⟩
        have hlm : l ∈ cellsAll body := List.mem_of_getLast? hl
        have e : lastTy (cellsAll body) 32 = l.type := by simp [lastTy, hl]
        rw [e]
        exact typesMatch_trans _ _ _ (typesMatch_symm _ _ (hty c hc)) (typesMatch_symm _ _ (hty l hlm))
      · rw [getLast?_map_val]; exact htag
    · exact ih (fun b hb => hlen b (by simp [hb])) (fun m b hb => hlenR m b (by simp [hb])) x hx
  | arun n body xs hb hty _ _ _ _ ih =>
    intro x hx
    simp only [origItemsA, ASeg.origItems, List.mem_append, List.mem_replicate] at hx
    rcases hx with ⟨_, rfl⟩ | hx
    · have hdom := hb.domain
      have htag := arrTag_eq hopt hb
      refine ⟨by simpa using hlenR n body (by simp), ?_, ?_⟩
      · intro e he
        obtain ⟨c, hc, rfl⟩ := List.mem_map.mp he
        refine ⟨c, rfl, hdom c hc, ?_⟩
        rw [htag]
        obtain ⟨l, hl⟩ : ∃ l, (cellsAll body).getLast? = some l := by
          cases hg : (cellsAll body).getLast? with
          | none => rw [List.getLast?_eq_none_iff] at hg; rw [hg] at hc; cases hc
          | some l => exact ⟨l, rfl⟩
        have hlm : l ∈ cellsAll body := List.mem_of_getLast? hl
        have e : lastTy (cellsAll body) 32 = l.type := by simp [lastTy, hl]
        rw [e]
        exact typesMatch_trans _ _ _ (typesMatch_symm _ _ (hty c hc)) (typesMatch_symm _ _ (hty l hlm))
      · rw [getLast?_map_val]; exact htag
    · exact ih (fun b hb => hlen b (by simp [hb])) (fun m b hb => hlenR m b (by simp [hb])) x hx

/-! ### Nested arrays: the model's nesting bound covers the previous argument -/

/-- an array nested eight deep around the value 2, followed by the run 2 … 6 -/
def deepItems : List Item :=
  [.arr 97 [.arr 97 [.arr 97 [.arr 97 [.arr 97 [.arr 97 [.arr 97 [.arr 105 [.val (.int .i 2)]]]]]]]],
   .val (.int .i 2), .val (.int .i 3), .val (.int .i 4), .val (.int .i 5), .val (.int .i 6)]

/-- what the scanner writes for the text of `deepItems`: the array, then the range `2 ... 6` -/
def deepRead : List Item :=
  [.arr 97 [.arr 97 [.arr 97 [.arr 97 [.arr 97 [.arr 97 [.arr 97 [.arr 105 [.val (.int .i 2)]]]]]]]],
   .range 5 (.int .i 1) (.int .i 2)]

/-- the values of `deepItems` -/
def deepVals : List Val :=
  [.arr 97 [.arr 97 [.arr 97 [.arr 97 [.arr 97 [.arr 97 [.arr 97 [.arr 105 [.sc (.int .i 2)]]]]]]]],
   .sc (.int .i 2), .sc (.int .i 3), .sc (.int .i 4), .sc (.int .i 5), .sc (.int .i 6)]

/-- **nested_arrays_deep_reads**: the printed text `[[[[[[[[2]]]]]]]] 2 ... 6` (an eight-deep array
    followed by a range) is counted and read back by the model as by the code (the code answers 12).
    The range tail `ellipsisTail` (Pretty/Check.lean) re-skips the left neighbour of a range — here
    the eight-deep array — which is nested deeper than the range's own text `2 ... 6` is long.
    `countLoop` therefore hands `checkFuel src recent` (the longer of the current and the previous
    argument text, plus 2) to `skipNextPrintedArg` as recursion bound.  `skipNextPrintedArg_fuel_mono`
    (Proofs/PrettyCheckFuel.lean) proves that a larger bound never changes an answer (it can only
    turn `Err.fuel` into an answer).  Not a theorem, but the reason for the choice: every recursive
    call of the skipper works on a proper part of the current or of the previous argument text
    (array elements, the operand of `nx`, the right-hand side of a range), apart from one call on
    the whole previous argument, so the bound is not reached and the model has no nesting bound that
    the C function (which recurses without a bound) lacks.  (With the bound `src.length + 2` the
    model answered `Err.fuel` on this text.) -/
theorem nested_arrays_deep_reads :
    countPrintedArgVals (lit "[[[[[[[[2]]]]]]]] 2 ... 6") = .ok 12 ∧
    scanArgVals (lit "[[[[[[[[2]]]]]]]] 2 ... 6") 12 = .ok (25, flatList deepRead) := by
  constructor <;> decide +kernel

/-- **nested_arrays_deep_roundtrips**: the full round trip of that list (printer, checker, scanner,
    expansion) -/
theorem nested_arrays_deep_roundtrips : RoundTrips defaultOpt deepItems := by
  refine ⟨⟨lit "[[[[[[[[2]]]]]]]] 2 ... 6", 34⟩, 25, deepRead, deepVals, ?_, ?_, ?_, ?_, rfl, rfl⟩ <;>
    decide +kernel

/-- one level less: 11 cells -/
example : countPrintedArgVals (lit "[[[[[[[2]]]]]]] 2 ... 6") = .ok 11 := by decide +kernel

/-! The constants and tables extracted from the source (`tables_agree`, `escape_tables_inverse`) are in a module
    of their own, Props/C10Tables.lean: a changed table breaks that obligation, not this module. -/

/-! ### Non-vacuity: concrete inputs meet the hypotheses, and the conclusions evaluate as stated -/

/-- a mixed list with a negative number behind a three-character token (the F9 shape), a string
    that needs a continuation line at line length 20, a reserved word as a symbol, a blob -/
def exArgs : List Cell :=
  [.int .i 127, .int .i (-1), .huge (-5000000000), .int .c 10, .str .s (some (lit "a \"long\" string\n, broken")),
   .str .S (some (lit "true")), .blob [1, 2, 255], .flag .T, .time 1, .midi 1 2 3 4, .int .r (-559038737),
   .flt 0x3fc00000, .dbl 0x3fe0000000000000, .time (1509838440 * 4294967296)]

def exOpt : POpt := ⟨true, 2, 20, true⟩

example : ∀ c ∈ exArgs, SimpleVal exOpt c := by
  intro c hc
  simp only [exArgs, List.mem_cons, List.not_mem_nil, or_false] at hc
  rcases hc with rfl | rfl | rfl | rfl | rfl | rfl | rfl | rfl | rfl | rfl | rfl | rfl | rfl | rfl
  · exact .int _ (by decide) (by decide)
  · exact .int _ (by decide) (by decide)
  · exact .huge _ (by decide) (by decide)
  · exact .char _ (by unfold CharOK; omega)
  · exact .string _ (by decide +kernel)
  · exact .symbol _ (by decide +kernel)
  · exact .blob _ (by decide)
  · exact .flag _
  · exact .immediately
  · exact .midi _ _ _ _
  · exact .color _ (by decide) (by decide)
  · exact .float _ rfl (by decide) (by decide +kernel)
  · exact .double _ rfl (by decide) (by decide +kernel)
  · exact .timeClock 1509838440 (by decide) (by decide)

example : NoLongRun exArgs := by
  have h : ∀ i : Fin 14, shortRun (exArgs.drop i.val) = true := by decide +kernel
  intro i hi
  exact h ⟨i, hi⟩

example : (printArgVals exOpt exArgs ⟨[], 0⟩).map (fun r => (r.1.out, r.2)) =
    .ok (lit ("127 -1 -5000000000h\n    '\\n' \"a \\\"long\"\\\n    \"\\\" string\\n\"\\\n    \", broken\" \"tr\"\\\n    \"ue\"S BLOB [3\n" ++
              "    0x01 0x02\n    0xff] true\n    immediately\n    MIDI [0x01 0x02 0x03 0x04]\n    #deadbeef\n" ++
              "    1.50 (0x1.8p+0)\n    0.50d (0x1p-1)\n    2017-11-04 23:34"), 248) := by
  decide +kernel

/-- five integers in a row with compression on, which are no run: outside `NoLongRun`, inside
    `NotCompressed` -/
example : NotCompressed ⟨true, 2, 80, true⟩ [.int .i 1, .int .i 7, .int .i 3, .int .i 9, .int .i 2] ∧
    ¬ NoLongRun [.int .i 1, .int .i 7, .int .i 3, .int .i 9, .int .i 2] := by
  constructor
  · have h : ∀ i : Fin 5, convertToRange ⟨true, 2, 80, true⟩
        (([.int .i 1, .int .i 7, .int .i 3, .int .i 9, .int .i 2] : List Cell).drop i.val) (5 - i.val) = .ok none := by
      decide +kernel
    intro i hi
    exact h ⟨i, hi⟩
  · intro h
    have := h 0 (by decide)
    revert this
    decide

/-- runs in context: a run behind an equal value (`1 1 ... 6`: not confusing, short form), a constant
    run of strings, a run with step -2 behind another int (`10 8 ... 2`), a run behind a value of
    another type (`-4 ... -10`) -/
def exRunSegs : List RSeg :=
  [.tok (.int .i 1), .irun 1 1 6, .crun 5 (.str .s (some (lit "ab"))), .tok (.int .i 3), .irun 10 (-2) 5, .tok (.flag .T),
   .irun (-4) (-1) 7]

example : PrinterSegments defaultOpt exRunSegs := by
  unfold exRunSegs
  refine .tok _ _ (by unfold ScalarInDomain; omega) (by simp [MidnightTime]) (by decide +kernel) ?_
  refine .irun _ _ _ _ (by decide) (by decide) (by intro k hk; omega) (by decide) (fun _ => by decide) (by decide +kernel) ?_
  refine .crun _ _ _ (by show ∀ b ∈ lit "ab", StrByteOK b; decide +kernel) (by simp [MidnightTime]) (by decide) (by decide)
    (by decide +kernel) ?_
  refine .tok _ _ (by unfold ScalarInDomain; omega) (by simp [MidnightTime]) (by decide +kernel) ?_
  refine .irun _ _ _ _ (by decide) (by decide) (by intro k hk; omega) (by decide) (fun _ => by decide) (by decide +kernel) ?_
  refine .tok _ _ trivial (by simp [MidnightTime]) (by decide +kernel) ?_
  refine .irun _ _ _ _ (by decide) (by decide) (by intro k hk; omega) (by decide) (fun _ => by decide) (by decide +kernel) ?_
  exact .nil

/-- the same with the run conditions stated on the values: `7 7 7 7 7 8 9 10 11 12 13 "x"` -/
example : PrinterSegments defaultOpt [.crun 5 (.int .i 7), .irun 8 1 6, .tok (.str .s (some (lit "x")))] := by
  have hopt : OptOK defaultOpt := by unfold OptOK defaultOpt; simp
  refine .crun_of_next hopt rfl _ _ _ (by unfold ScalarInDomain; omega) (by simp [MidnightTime]) (by decide) (by decide)
    (Or.inr (fun more => by
      have e : cellsAll [RSeg.irun 8 1 6, RSeg.tok (.str .s (some (lit "x")))] =
          Cell.int .i 8 :: [.int .i 9, .int .i 10, .int .i 11, .int .i 12, .int .i 13, .str .s (some (lit "x"))] := by
        decide +kernel
      rw [e]
      simp [rangeArgsIdentical, eqSingle_int, bind, Except.bind, pure, Except.pure])) ?_
  refine .irun_of_next hopt rfl _ _ _ _ (by decide) (by decide) (by intro k hk; omega) (by decide) (fun _ => by decide)
    (Or.inr (by decide +kernel)) ?_
  exact .tok _ _ (by show ∀ b ∈ lit "x", StrByteOK b; decide +kernel) (by simp [MidnightTime]) (by decide +kernel) .nil

example : (printArgVals defaultOpt (cellsAll exRunSegs) ⟨[], 0⟩).map (fun r => (r.1.out, r.2)) =
    .ok (lit "1 1 ... 6 5x\"ab\" 3 10 8 ... 2 true -4 ... -10", 45) := by
  decide +kernel

example : scannedAll none exRunSegs =
    [.int .i 1, .rep 6 1, .int .i 1, .int .i 1, .rep 5 0, .str .s (some (lit "ab")), .int .i 3,
     .int .i 10, .rep 4 1, .int .i (-2), .int .i 8, .flag .T, .rep 7 1, .int .i (-1), .int .i (-4)] := by
  decide +kernel

/-- runs inside arrays, values and runs directly behind arrays: `0 [1 1 ... 6 5x3] 8 9 ... 12 [] -4 ... -10 [7] 7 ... 11 [5x"ab"]` -/
def exPieces : List ASeg :=
  [.seg (.tok (.int .i 0)),
   .arr [.tok (.int .i 1), .irun 1 1 6, .crun 5 (.int .i 3)],
   .seg (.irun 8 1 5),
   .arr [],
   .seg (.irun (-4) (-1) 7),
   .arr [.tok (.int .i 7)],
   .seg (.irun 7 1 5),
   .arr [.crun 5 (.str .s (some (lit "ab")))]]

example : PrinterPieces defaultOpt exPieces := by
  have hopt : OptOK defaultOpt := by unfold OptOK defaultOpt; simp
  have hint : ∀ v : Int, -2147483648 ≤ v → v ≤ 2147483647 → ScalarInDomain defaultOpt (.int .i v) := by
    intro v h1 h2; exact ⟨h1, h2⟩
  unfold exPieces
  refine .tok _ _ (hint _ (by decide) (by decide)) (by simp [MidnightTime]) (by decide +kernel) ?_
  refine .arr _ _ ?_ (by decide +kernel) (by decide +kernel) ?_
  · refine .tok _ _ (hint _ (by decide) (by decide)) (by simp [MidnightTime]) (by decide +kernel) ?_
    refine .irun _ _ _ _ (by decide) (by decide) (by intro k hk; omega) (by decide) (fun _ => by decide) (by decide +kernel) ?_
    exact .crun _ _ _ (hint _ (by decide) (by decide)) (by simp [MidnightTime]) (by decide) (by decide) (by decide +kernel) .nil
  refine .irun _ _ _ _ (by decide) (by decide) (by intro k hk; omega) (by decide) (fun _ => by decide) (by decide +kernel) ?_
  refine .arr _ _ .nil (by decide +kernel) (by decide +kernel) ?_
  refine .irun _ _ _ _ (by decide) (by decide) (by intro k hk; omega) (by decide) (fun _ => by decide) (by decide +kernel) ?_
  refine .arr _ _ ?_ (by decide +kernel) (by decide +kernel) ?_
  · exact .tok _ _ (hint _ (by decide) (by decide)) (by simp [MidnightTime]) (by decide +kernel) .nil
  refine .irun _ _ _ _ (by decide) (by decide) (by intro k hk; omega) (by decide) (fun _ => by decide) (by decide +kernel) ?_
  -- the last array: the side condition for its header from `arr_of_next`
  refine .arr_of_next _ _ ?_ (by decide +kernel) (Or.inl rfl) .nil
  exact .crun _ _ _ (by show ∀ b ∈ lit "ab", StrByteOK b; decide +kernel) (by simp [MidnightTime]) (by decide) (by decide)
    (by decide +kernel) .nil

example : (printArgVals defaultOpt (cellsAllA exPieces) ⟨[], 0⟩).map (fun r => (r.1.out, r.2)) =
    .ok (lit "0 [1 1 ... 6 5x3] 8 9 ... 12 [] -4 ... -10 [7] 7 ... 11 [5x\"ab\"]", 64) := by
  decide +kernel

/-- what the scanner returns: behind `[… 5x3]` the run `8 … 12` is read as the value 8 and the range
    `9 ... 12` (the printer saw the 3 in front and wrote the second number), behind `[]` and `[7]` the
    short forms are read with the delta ∓1 of a range without left neighbour -/
example : scannedAllA none exPieces =
    [.int .i 0, .arr 105 6, .int .i 1, .rep 6 1, .int .i 1, .int .i 1, .rep 5 0, .int .i 3,
     .int .i 8, .rep 4 1, .int .i 1, .int .i 9, .arr 32 0, .rep 7 1, .int .i (-1), .int .i (-4),
     .arr 105 1, .int .i 7, .rep 5 1, .int .i 1, .int .i 7, .arr 115 2, .rep 5 0, .str .s (some (lit "ab"))] := by
  decide +kernel

example : scanArgVals (lit "0 [1 1 ... 6 5x3] 8 9 ... 12 [] -4 ... -10 [7] 7 ... 11 [5x\"ab\"]") 24 =
    .ok (64, scannedAllA none exPieces) := by
  decide +kernel

example : countPrintedArgVals (lit "0 [1 1 ... 6 5x3] 8 9 ... 12 [] -4 ... -10 [7] 7 ... 11 [5x\"ab\"]") = .ok 24 := by
  decide +kernel

/-- the run conditions stated on the values, with arrays behind the runs: `7 7 7 7 7 [1 2] 8 9 10 11 12 []` -/
example : PrinterPieces defaultOpt
    [.seg (.crun 5 (.int .i 7)), .arr [.tok (.int .i 1), .tok (.int .i 2)], .seg (.irun 8 1 5), .arr []] := by
  have hopt : OptOK defaultOpt := by unfold OptOK defaultOpt; simp
  have hint : ∀ v : Int, -2147483648 ≤ v → v ≤ 2147483647 → ScalarInDomain defaultOpt (.int .i v) := by
    intro v h1 h2; exact ⟨h1, h2⟩
  refine .crun_of_next hopt rfl _ _ _ (hint _ (by decide) (by decide)) (by simp [MidnightTime]) (by decide) (by decide)
    (Or.inr (fun more => ?_)) ?_
  · have e : cellsAllA [.arr [.tok (.int .i 1), .tok (.int .i 2)], .seg (.irun 8 1 5), .arr []] =
        Cell.arr 105 2 :: [.int .i 1, .int .i 2, .int .i 8, .int .i 9, .int .i 10, .int .i 11, .int .i 12, .arr 32 0] := by
      decide +kernel
    rw [e]
    simp [rangeArgsIdentical, eqSingle, ArgVal.eqSingle, ArgVal.deref, ArgVal.Cell.asArr, ArgVal.eqScalar, liftAV, bind,
      ArgVal.Cell.type, ArgVal.IntTy.char, ArgVal.tyA,
      Except.bind, pure, Except.pure]
  refine .arr_of_next _ _ ?_ (by decide +kernel) (Or.inr ⟨_, _, rfl⟩) ?_
  · exact .tok _ _ (hint _ (by decide) (by decide)) (by simp [MidnightTime]) (by decide +kernel)
      (.tok _ _ (hint _ (by decide) (by decide)) (by simp [MidnightTime]) (by decide +kernel) .nil)
  refine .irun_of_next hopt rfl _ _ _ _ (by decide) (by decide) (by intro k hk; omega) (by decide) (fun _ => by decide)
    (Or.inr (by decide +kernel)) ?_
  exact .arr_of_next _ _ .nil (by decide +kernel) (Or.inl rfl) .nil

/-- runs of equal arrays, a run directly behind one, a compressed run inside the repeated array:
    `0 5x[1 2] 2 ... 6 6x[5x3]` (57 cells are printed, 12 are scanned) -/
def exArrRuns : List ASeg :=
  [.seg (.tok (.int .i 0)), .arun 5 [.tok (.int .i 1), .tok (.int .i 2)], .seg (.irun 2 1 5), .arun 6 [.crun 5 (.int .i 3)]]

example : PrinterPieces defaultOpt exArrRuns := by
  have hint : ∀ v : Int, -2147483648 ≤ v → v ≤ 2147483647 → ScalarInDomain defaultOpt (.int .i v) := by
    intro v h1 h2; exact ⟨h1, h2⟩
  unfold exArrRuns
  refine .tok _ _ (hint _ (by decide) (by decide)) (by simp [MidnightTime]) (by decide +kernel) ?_
  refine .arun _ _ _ ?_ (by decide +kernel) (by decide) (by decide) (by decide +kernel) ?_
  · exact .tok _ _ (hint _ (by decide) (by decide)) (by simp [MidnightTime]) (by decide +kernel)
      (.tok _ _ (hint _ (by decide) (by decide)) (by simp [MidnightTime]) (by decide +kernel) .nil)
  refine .irun _ _ _ _ (by decide) (by decide) (by intro k hk; omega) (by decide) (fun _ => by decide) (by decide +kernel) ?_
  refine .arun _ _ _ ?_ (by decide +kernel) (by decide) (by decide) (by decide +kernel) .nil
  exact .crun _ _ _ (hint _ (by decide) (by decide)) (by simp [MidnightTime]) (by decide) (by decide) (by decide +kernel) .nil

example : (printArgVals defaultOpt (cellsAllA exArrRuns) ⟨[], 0⟩).map (fun r => (r.1.out, r.2)) =
    .ok (lit "0 5x[1 2] 2 ... 6 6x[5x3]", 25) := by
  decide +kernel

example : scannedAllA none exArrRuns =
    [.int .i 0, .rep 5 0, .arr 105 2, .int .i 1, .int .i 2, .rep 5 1, .int .i 1, .int .i 2,
     .rep 6 0, .arr 105 2, .rep 5 0, .int .i 3] := by
  decide +kernel

/-- an address with characters outside the usual path alphabet is an address of the domain -/
example : AddrOK (lit "/mixer/ch:3/gain+1") := by
  refine ⟨by decide, ?_⟩
  decide +kernel

/-- the defect classes of the unchanged code, as they would appear in the model: with the fixes
    the witnesses scan back -/
example : scanArgVals (lit "127 -1") 2 = .ok (6, [.int .i 127, .int .i (-1)]) := by decide +kernel
example : countPrintedArgVals (lit "127 -1") = .ok 2 := by decide +kernel

end Rtosc.Pretty
