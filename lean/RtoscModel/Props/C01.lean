/-
  C01 — OSC 1.0 wire format: encoding is spec-exact and decoding is lossless.
  Property theorems only; helper lemmas live in Proofs/Osc*.lean, the models in Osc/*.lean.

  Reading of the statement.  `m : Msg` is an address, a type tag string over the 15 value tags
  plus '[' ']' and one payload argument per payload tag (`Msg.WF`; floats/doubles are bit
  patterns).  `Spec.encode m` is the OSC 1.0 byte string.  A caller hands the constructors
  `cargs : List CArg` (the filled `rtosc_arg_t` unions) that *denote* `m.args`
  (`Denote cargs m.args`): this covers blob data blocks longer than `len` and the NULL data
  pointer (which denotes `len` zero bytes).  The destination is `buf` (`len = buf.length`).
  Readers run on `Spec.encode m ++ rest` for arbitrary trailing bytes `rest`; every read
  goes through `get?`, so `= some …` also says that nothing outside the block is read.

  Sizes: `Msg.WF.size` asks for an encoding shorter than 2^32 bytes (`unsigned pos` of the C
  code), the iterator theorems for one shorter than 2^31 (`int size` in `rtosc_itr_next`).
  The table theorem `tables_agree` lives in its own module, Props/C01Tables.lean.
-/
import RtoscModel.Proofs.OscAccess
namespace Rtosc.Osc
open Rtosc

/-- **sizeNull_eq_spec_length** — the size pre-computation (`vsosc_null`) returns exactly the
    length of the OSC 1.0 encoding. -/
theorem sizeNull_eq_spec_length (m : Msg) (cargs : List CArg) (hwf : m.WF)
    (hd : Denote cargs m.args) :
    sizeNull m.addr m.tags cargs = some (Spec.encode m).length :=
  sizeNull_spec m cargs hwf hd

/-- **amessage_eq_spec** — `rtosc_amessage` into a buffer that is large enough writes exactly
    `Spec.encode m` (bytes behind it keep their value), returns its length, never stores
    outside the buffer, and that length is a multiple of 4. -/
theorem amessage_eq_spec (m : Msg) (cargs : List CArg) (buf : Bytes) (hwf : m.WF)
    (hd : Denote cargs m.args) (hcap : (Spec.encode m).length ≤ buf.length) :
    amessage (some buf) m.addr m.tags cargs =
      some ⟨some (Spec.encode m ++ buf.drop (Spec.encode m).length), (Spec.encode m).length, false⟩ ∧
    (Spec.encode m).length % 4 = 0 :=
  ⟨amessage_spec m cargs buf hwf hd hcap, encode_length_mod m⟩

/-- **amessage_null_buffer** — with the NULL buffer the constructor returns the length of the
    encoding (the value a large enough buffer receives). -/
theorem amessage_null_buffer (m : Msg) (cargs : List CArg) (hwf : m.WF) (hd : Denote cargs m.args) :
    amessage none m.addr m.tags cargs = some ⟨none, (Spec.encode m).length, false⟩ :=
  amessage_null_spec m cargs hwf hd

/-- **amessage_null_blob** — the result depends only on the denoted values: in particular a blob
    given with the NULL data pointer and length `n` is encoded exactly like `n` zero bytes, and
    a data block longer than `len` like its first `len` bytes. -/
theorem amessage_null_blob (m : Msg) (cargs : List CArg) (buf : Bytes) (hwf : m.WF)
    (hd : Denote cargs m.args) (hcap : (Spec.encode m).length ≤ buf.length) :
    amessage (some buf) m.addr m.tags cargs =
      amessage (some buf) m.addr m.tags (m.args.map Arg.toC) := by
  rw [amessage_spec m cargs buf hwf hd hcap,
    amessage_spec m _ buf hwf (denote_toC m.args hwf.args_ok) hcap]

/-- **vmessage_eq_spec** — `rtosc_message`/`rtosc_vmessage` (the `va_list` holds the promoted
    values of a call site) produce `Spec.encode m`.  `narrow`/`widen` are the target's
    double→float / float→double conversions; the only fact used is that widening then
    narrowing gives back the values under an `'f'` tag (`fArgs`: the only arguments that are
    promoted to `double`; `i`/`c`/`r` values travel as `int` and need nothing). -/
theorem vmessage_eq_spec (narrow : UInt64 → UInt32) (widen : UInt32 → UInt64) (m : Msg)
    (cargs : List CArg) (buf : Bytes) (hwf : m.WF) (hd : Denote cargs m.args)
    (hf : ∀ v ∈ fArgs m.tags cargs, narrow (widen v) = v)
    (hcap : (Spec.encode m).length ≤ buf.length) :
    vmessage narrow (some buf) m.addr m.tags (promote widen m.tags cargs) =
      some ⟨some (Spec.encode m ++ buf.drop (Spec.encode m).length), (Spec.encode m).length, false⟩ := by
  rw [vmessage_promote_f narrow widen (some buf) m.addr m.tags cargs m.args hwf.matches_ hd hf]
  exact amessage_spec m cargs buf hwf hd hcap

/-- **avmessage_eq_spec** — `rtosc_avmessage` on the arg-val list of the message (no ranges, no
    arrays; after fix C01-avmessage) produces `Spec.encode m`. -/
theorem avmessage_eq_spec (m : Msg) (cargs : List CArg) (buf : Bytes) (hwf : m.WF)
    (hd : Denote cargs m.args) (hcap : (Spec.encode m).length ≤ buf.length) :
    avmessage (some buf) m.addr (ArgVal.listOf m.tags cargs) =
      some ⟨some (Spec.encode m ++ buf.drop (Spec.encode m).length), (Spec.encode m).length, false⟩ := by
  have ht : ∀ t ∈ m.tags, t ≠ 45 ∧ t ≠ 97 := fun t h => (isTag_ne_zero t (hwf.tags_ok t h)).2
  simp only [avmessage, avCollect_listOf m.tags cargs m.args hwf.matches_ hd ht]
  exact amessage_spec m cargs buf hwf hd hcap

/-- **three_constructors_agree** — for every destination (any capacity, NULL included) the
    varargs constructor, the argument-array constructor and the arg-val-list constructor
    return the same value and leave the same bytes. -/
theorem three_constructors_agree (narrow : UInt64 → UInt32) (widen : UInt32 → UInt64) (m : Msg)
    (cargs : List CArg) (buffer : Option Bytes) (hwf : m.WF) (hd : Denote cargs m.args)
    (hf : ∀ v ∈ fArgs m.tags cargs, narrow (widen v) = v) :
    vmessage narrow buffer m.addr m.tags (promote widen m.tags cargs) =
      amessage buffer m.addr m.tags cargs ∧
    avmessage buffer m.addr (ArgVal.listOf m.tags cargs) = amessage buffer m.addr m.tags cargs := by
  have ht : ∀ t ∈ m.tags, t ≠ 45 ∧ t ≠ 97 := fun t h => (isTag_ne_zero t (hwf.tags_ok t h)).2
  refine ⟨vmessage_promote_f narrow widen buffer m.addr m.tags cargs m.args hwf.matches_ hd hf, ?_⟩
  simp only [avmessage, avCollect_listOf m.tags cargs m.args hwf.matches_ hd ht]

/-- Trigger of known finding C01-K1: the address is exactly `"#bundle"`.  The encoding of such
    a message starts with the 8 bytes `"#bundle\0"`, which is how `rtosc_message_ring_length`
    recognises a *bundle*.  (OSC 1.0 addresses start with '/', so this is not an OSC address;
    the constructors accept it all the same.) -/
def BundleAddressed (m : Msg) : Prop := m.addr = bundleAddr

instance (m : Msg) : Decidable (BundleAddressed m) := by unfold BundleAddressed; exact inferInstance

/-- the length clause as the property states it ("for any address") -/
def messageLength_encode_statement : Prop :=
  ∀ (m : Msg) (rest : Bytes), m.WF → messageLength (Spec.encode m ++ rest) = some (Spec.encode m).length

/-- **messageLength_encode_counterexample** (C01-K1) — the clause is false for the address
    `"#bundle"`: `rtosc_message(buf, 64, "#bundle", "ii", 1, 0)` returns 20, and
    `rtosc_message_length` of those 20 bytes is 16 (they parse as a bundle with one empty element). -/
theorem messageLength_encode_counterexample : ¬ messageLength_encode_statement := by
  intro h
  have := h ⟨bundleAddr, [105, 105], [.w32 1, .w32 0]⟩ [] (by decide +kernel)
  revert this
  decide +kernel

/-- **ringLength_encode_partial** — `rtosc_message_ring_length` of a ring (split anywhere) that
    holds an encoded message followed by *any* bytes is the length of the message, for every
    address except exactly `"#bundle"` (addresses that merely start with '#', "#bundles/x"
    included, are covered). -/
theorem ringLength_encode_partial (m : Msg) (rest : Bytes) (r : Ring) (hwf : m.WF)
    (hnb : ¬ BundleAddressed m) (h : r.d0 ++ r.d1 = Spec.encode m ++ rest) :
    ringLength r = some (Spec.encode m).length :=
  ringLength_spec' m rest r hwf hnb h

/-- **messageLength_encode_partial** — `rtosc_message_length(msg, len)` on the encoding followed
    by any trailing bytes reports the length of the encoding (address not exactly `"#bundle"`). -/
theorem messageLength_encode_partial (m : Msg) (rest : Bytes) (hwf : m.WF) (hnb : ¬ BundleAddressed m) :
    messageLength (Spec.encode m ++ rest) = some (Spec.encode m).length :=
  ringLength_spec' m rest ⟨Spec.encode m ++ rest, []⟩ hwf hnb (by simp)

/-- the form other properties cite (C06, C08: addresses that do not start with '#') -/
theorem ringLength_encode (m : Msg) (rest : Bytes) (r : Ring) (hwf : m.WF)
    (hnb : m.addr.head? ≠ some 35) (h : r.d0 ++ r.d1 = Spec.encode m ++ rest) :
    ringLength r = some (Spec.encode m).length :=
  ringLength_spec m rest r hwf hnb h

/-- **read_encode (argument string)** — `rtosc_argument_string` points at the type tags, and the
    C string there is exactly `m.tags`. -/
theorem read_encode_argString (m : Msg) (rest : Bytes) (hwf : m.WF) :
    argString (Spec.encode m ++ rest) = some ((padStr m.addr).length + 1) ∧
    cstrAt (Spec.encode m ++ rest) ((padStr m.addr).length + 1) = some m.tags := by
  refine ⟨argString_enc m rest hwf, ?_⟩
  have htags : NoNul m.tags := fun x hx => (isTag_ne_zero x (hwf.tags_ok x hx)).1
  have := drop_tags m rest
  simp only [Aoff] at this
  simp only [cstrAt, this]
  exact cstr_append m.tags _ htags

/-- **read_encode (type by index)** — `rtosc_type(msg, n)` is the tag of the `n`-th value. -/
theorem read_encode_type (m : Msg) (rest : Bytes) (hwf : m.WF) (n : Nat) (t : UInt8) (v : Val)
    (h : (Spec.values m)[n]? = some (t, v)) :
    typeAt (Spec.encode m ++ rest) n = some t :=
  (argumentView_spec m rest hwf n t v h).1

/-- **read_encode (argument by index)** — `rtosc_argument(msg, n)`, pointers followed, is the
    `n`-th value, bit-identical (strings and blob bytes included). -/
theorem read_encode_argument (m : Msg) (rest : Bytes) (hwf : m.WF) (n : Nat) (t : UInt8) (v : Val)
    (h : (Spec.values m)[n]? = some (t, v)) :
    argumentView (Spec.encode m ++ rest) n = some v :=
  (argumentView_spec m rest hwf n t v h).2

/-- **read_encode (iterator)** — `rtosc_itr_begin/next/end` yield exactly the tags and values of
    the message, in order.  (`int size = arg_size(..)` in `rtosc_itr_next` needs the message to
    be shorter than 2^31 bytes.) -/
theorem read_encode_iterator (m : Msg) (rest : Bytes) (hwf : m.WF)
    (h31 : (Spec.encode m).length < 2147483648) :
    iterateView (Spec.encode m ++ rest) = some (Spec.values m) := by
  obtain ⟨l, h1, h2⟩ := iterate_spec m rest hwf h31
  simp only [iterateView, h1]
  exact h2

/-- **narguments_eq_iterator_count** — `rtosc_narguments` is the number of values the iterator
    yields, namely the number of tags that are not brackets (after fix C01-narguments). -/
theorem narguments_eq_iterator_count (m : Msg) (rest : Bytes) (hwf : m.WF)
    (h31 : (Spec.encode m).length < 2147483648) :
    narguments (Spec.encode m ++ rest) = some (Spec.nargs m) ∧
    (iterate (Spec.encode m ++ rest)).map List.length = some (Spec.nargs m) := by
  have hok : TagsOK m.tags := hwf.tags_ok
  have hvl := valuesOf_length m.tags m.args hwf.matches_
  have hlt : (Spec.valuesOf m.tags m.args).length < 4294967296 := by
    have h1 : (m.tags.filter (fun t => !isBracket t)).length ≤ m.tags.length := List.length_filter_le _ _
    have h2 := encode_length m
    omega
  constructor
  · simp only [narguments, argString_enc m rest hwf, drop_tags m rest,
      countArgs_spec m.tags m.args _ hwf.matches_ hok, Option.map_some, Spec.nargs, ← hvl]
    rw [u32_id hlt]
  · obtain ⟨l, h1, h2⟩ := iterate_spec m rest hwf h31
    have := mapM_length _ l _ h2
    simp only [h1, Option.map_some, Spec.nargs, ← hvl]
    rw [← this]; rfl

/-! ### Non-vacuity: the message `"/ab" "[sb]i"` with a 5-byte string, a 3-byte blob and an int
    meets every hypothesis, and the conclusions evaluate as stated. -/

def exMsg : Msg :=
  ⟨[47, 97, 98], [91, 115, 98, 93, 105],
   [.str [104, 101, 108, 108, 111], .blob [1, 2, 3], .w32 0x7fffffff]⟩

def exBytes : Bytes :=
  [47, 97, 98, 0, 44, 91, 115, 98, 93, 105, 0, 0, 104, 101, 108, 108, 111, 0, 0, 0,
   0, 0, 0, 3, 1, 2, 3, 0, 127, 255, 255, 255]

example : exMsg.WF := by decide +kernel
example : Spec.encode exMsg = exBytes := by decide +kernel
example : ¬ BundleAddressed exMsg := by decide
/-- an address that starts with '#' (even with "#bundle") but is not "#bundle" is covered -/
example : ¬ BundleAddressed ⟨[35, 98, 117, 110, 100, 108, 101, 115, 47, 120], [105], [.w32 1]⟩ := by decide
example : messageLength (Spec.encode ⟨[35, 98, 117, 110, 100, 108, 101, 115, 47, 120], [105], [.w32 1]⟩) =
    some 20 := by decide +kernel
/-- the trigger of C01-K1 holds for the witness, which is a well-formed message -/
example : BundleAddressed ⟨bundleAddr, [105, 105], [.w32 1, .w32 0]⟩ ∧
    Msg.WF ⟨bundleAddr, [105, 105], [.w32 1, .w32 0]⟩ := by decide +kernel
example : Denote (exMsg.args.map Arg.toC) exMsg.args := denote_toC _ (by decide)
/-- NULL blob data: a 3-byte blob given as (3, NULL) denotes three zero bytes -/
example : Denote [.str [104], .blob 3 none] [.str [104], .blob [0, 0, 0]] := by
  simp [Denote, CArg.abs, zeros]
example : amessage (some (List.replicate 36 170)) exMsg.addr exMsg.tags (exMsg.args.map Arg.toC) =
    some ⟨some (exBytes ++ [170, 170, 170, 170]), 32, false⟩ := by decide +kernel
example : messageLength (exBytes ++ [1, 2, 3]) = some 32 := by decide +kernel
example : iterateView (exBytes ++ [1, 2, 3]) = some (Spec.values exMsg) := by decide +kernel
example : narguments exBytes = some 3 := by decide +kernel
example : Spec.values exMsg =
    [(115, .arg (.str [104, 101, 108, 108, 111])), (98, .arg (.blob [1, 2, 3])),
     (105, .arg (.w32 0x7fffffff))] := by decide
/-- only the value under the 'f' tag has to round-trip: for "if" with (5, 0.25f) that is 0.25f -/
example : fArgs [105, 102] [.w32 5, .w32 0x3e800000] = [0x3e800000] := by decide
/-- the float hypothesis of `vmessage_eq_spec`/`three_constructors_agree` is met by the exact
    conversions `widenF32`/`narrowF64` on the floats 0.25, -1.5, +inf, a quiet NaN with payload,
    the smallest subnormal and FLT_MAX -/
example : ∀ v ∈ [0x3e800000, 0xbfc00000, 0x7f800000, 0x7fc12345, 0x00000001, 0x7f7fffff],
    narrowF64 (widenF32 v) = v := by decide +kernel
example : vmessage narrowF64 (some (List.replicate 16 170)) [47, 97] [105, 102]
      (promote widenF32 [105, 102] [.w32 5, .w32 0x3e800000]) =
    amessage (some (List.replicate 16 170)) [47, 97] [105, 102] [.w32 5, .w32 0x3e800000] := by
  decide +kernel
example : avmessage (some (List.replicate 24 170)) [47, 97]
      (ArgVal.listOf [84, 105, 105] [.w32 5, .w32 7]) =
    some ⟨some [47, 97, 0, 0, 44, 84, 105, 105, 0, 0, 0, 0, 0, 0, 0, 5, 0, 0, 0, 7, 170, 170, 170, 170],
      20, false⟩ := by decide +kernel
/-- the witness of F1: the type string "[ii]" has 2 arguments -/
example : narguments [47, 97, 0, 0, 44, 91, 105, 105, 93, 0, 0, 0, 0, 0, 0, 1, 0, 0, 0, 2] = some 2 := by
  decide +kernel

end Rtosc.Osc
