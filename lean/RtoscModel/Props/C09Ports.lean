/-
  C09 — the dispatch clause against C04's model of `Ports::dispatch`
  (RtoscModel/Ports/Dispatch.lean: the linear scan without location buffer, the linear scan and
  the hashed lookup with one, the recursion callbacks of port-sugar.h), with and without a
  location buffer.  Property theorems only; the embedding of this property's tree type into
  C04's and the helper lemmas are in RtoscModel/Proofs/WalkPorts.lean.

  Own module (not part of Props/C09.lean) because it imports C04's theorems: a change of C04's
  statements shows here, not in the walk theorems.

  Reading
  * `toTable (toPorts ts)` is the `Ports` object: the table `walk_ports` walks, every port with
    a sub-table given the recursion callback `rRecurCb` (`SNIP`, then the sub-table's
    `dispatch`), no default handlers (`toPTable_render`: it is the rendering of the table with
    structured names that C04's theorems speak about).
  * `PortsFlat ts`: C04's well-formedness — `SNIP` cuts exactly one path component, so sub-tree
    names have one (no '/' in front of the trailing one: what `rRecur*` generate), and no leaf
    name is empty in front of '/' and type part.  Multi-component sub-tree names (`a#3/b#2/c/`)
    are outside C04's model; for them only `walked_address_dispatched` (Props/C09.lean, the
    driver's `dispatchSim`, whose sub-tree callback skips as many components as the name has)
    is proved.
  * the message: `msgBuf ("/" ++ rel) tags k rest` — the address, k+1 NULs, ",tags", NUL, any
    bytes; every message `rtosc_amessage` lays out has this form (`Ports.mkMsg_msgBuf`).
  * `mk`: the function that builds the lookup tables (`MkOK`; `Ports.real_MkOK`: `refreshMagic`).
-/
import RtoscModel.Proofs.WalkPorts
import RtoscModel.Proofs.WalkDigits
namespace Rtosc.Walk
open Rtosc Rtosc.Path Rtosc.Match

/-- **walked_address_dispatches_ports** (the dispatch clause against C04's `Ports::dispatch`): for
    every well-formed tree with one-component sub-tree names (`PortsFlat`) and pairwise apart rows,
    every pair `(port, address)` of `enumerate` and every type string admitted along the index path
    (`admittedAlong`: by the reported leaf's type part and by those of the sub-tree ports on the
    way), the message "/" ++ rel, dispatched at the root (`base_dispatch = true`)
      * without a location buffer (`d.loc = none`: linear search of every table) and
      * with one (`d.loc = some L0`, `loc_size ≠ 0`: every table looked up by the strategy `mk`
        picked for it — linear or perfect hash),
    returns (no read leaves a buffer) and invokes exactly the callbacks of the ports on the index
    path — the recursion callback of every sub-tree port on the way and the callback of the
    reported leaf port —, each once, and no other callback. -/
theorem walked_address_dispatches_ports {mk : List Bytes → Option Ports.Hash.Matcher} (hmk : Ports.MkOK mk)
    (ts : List STree) (hwf : TreeWF ts) (hfl : PortsFlat ts) (hs : SiblingsApart ts)
    (pre : Bytes) (ix : List Nat) (addr : Bytes) (h : (ix, addr) ∈ enumerate ts pre)
    (tags : Bytes) (ht : NulFree tags) (hadm : admittedAlong tags ix ts = true) :
    ∃ rel, addr = pre ++ rel ∧ NulFree rel ∧
      (IdxBounded rel → ∀ (k : Nat) (rest : Bytes) (d : Ports.RtData),
        (d.loc = none ∨ ∃ L0, d.loc = some L0 ∧ d.locSize ≠ 0) →
        ∃ log d', Ports.dispatch mk ⟨toTable (toPorts ts), false⟩ (Ports.msgBuf (47 :: rel) tags k rest) d true
            = some (log, d') ∧
          (∀ w, w ∈ log.map (·.who) ↔ OnPath [] ix w) ∧ (log.map (·.who)).Nodup) := by
  obtain ⟨rel, h1, h2, h3⟩ := ports_dispatch_reported hmk true ts hwf hfl (fun _ => hs) pre ix addr h tags ht hadm
  refine ⟨rel, h1, h2, ?_⟩
  intro hb k rest d hd
  obtain ⟨log, d', hdisp, ha, hb', hnd⟩ := h3 hb k rest d hd
  exact ⟨log, d', hdisp, fun w => ⟨hb' rfl w, ha w⟩, hnd⟩

/-- **walked_address_dispatches_ports_short**: the same with the hypothesis on the reported address
    (`IdxBounded`) replaced by the decidable condition `DigitsShort` on the names of the tree. -/
theorem walked_address_dispatches_ports_short {mk : List Bytes → Option Ports.Hash.Matcher} (hmk : Ports.MkOK mk)
    (ts : List STree) (hwf : TreeWF ts) (hfl : PortsFlat ts) (hs : SiblingsApart ts) (hd : DigitsShort ts)
    (pre : Bytes) (ix : List Nat) (addr : Bytes) (h : (ix, addr) ∈ enumerate ts pre)
    (tags : Bytes) (ht : NulFree tags) (hadm : admittedAlong tags ix ts = true) :
    ∃ rel, addr = pre ++ rel ∧ ∀ (k : Nat) (rest : Bytes) (d : Ports.RtData),
        (d.loc = none ∨ ∃ L0, d.loc = some L0 ∧ d.locSize ≠ 0) →
        ∃ log d', Ports.dispatch mk ⟨toTable (toPorts ts), false⟩ (Ports.msgBuf (47 :: rel) tags k rest) d true
            = some (log, d') ∧
          (∀ w, w ∈ log.map (·.who) ↔ OnPath [] ix w) ∧ (log.map (·.who)).Nodup := by
  obtain ⟨rel, h1, _, h3⟩ := walked_address_dispatches_ports hmk ts hwf hfl hs pre ix addr h tags ht hadm
  obtain ⟨rel', h1', hb⟩ := reported_idxBounded_aux ts hwf hd pre ix addr h
  have : rel' = rel := List.append_cancel_left (h1'.symm.trans h1)
  subst this
  exact ⟨rel', h1, h3 hb⟩

/-- **walked_address_dispatches_ports_among**: without `SiblingsApart` the callbacks of the ports on
    the index path are still among those invoked. -/
theorem walked_address_dispatches_ports_among {mk : List Bytes → Option Ports.Hash.Matcher} (hmk : Ports.MkOK mk)
    (ts : List STree) (hwf : TreeWF ts) (hfl : PortsFlat ts)
    (pre : Bytes) (ix : List Nat) (addr : Bytes) (h : (ix, addr) ∈ enumerate ts pre)
    (tags : Bytes) (ht : NulFree tags) (hadm : admittedAlong tags ix ts = true) :
    ∃ rel, addr = pre ++ rel ∧ NulFree rel ∧
      (IdxBounded rel → ∀ (k : Nat) (rest : Bytes) (d : Ports.RtData),
        (d.loc = none ∨ ∃ L0, d.loc = some L0 ∧ d.locSize ≠ 0) →
        ∃ log d', Ports.dispatch mk ⟨toTable (toPorts ts), false⟩ (Ports.msgBuf (47 :: rel) tags k rest) d true
            = some (log, d') ∧
          (∀ w, OnPath [] ix w → w ∈ log.map (·.who)) ∧ (log.map (·.who)).Nodup) := by
  obtain ⟨rel, h1, h2, h3⟩ := ports_dispatch_reported hmk false ts hwf hfl (by intro h; cases h) pre ix addr h tags ht hadm
  refine ⟨rel, h1, h2, ?_⟩
  intro hb k rest d hd
  obtain ⟨log, d', hdisp, ha, _, hnd⟩ := h3 hb k rest d hd
  exact ⟨log, d', hdisp, ha, hnd⟩

/-- the callbacks of the ports on an index path: the reported leaf is the last of them -/
theorem onPath_leaf (ix : List Nat) (h : ix ≠ []) : OnPath [] ix (.port ix) :=
  ⟨ix, h, List.prefix_refl _, rfl⟩

/-- the `Ports` object of C04's model is the table with structured names that C04's theorems
    quantify over, rendered -/
theorem ports_table_is_rendering (ts : List STree) : (toPTable ts).render = toTable (toPorts ts) :=
  toPTable_render ts

/-- C04's well-formedness of that table follows from `TreeWF` and `PortsFlat` -/
theorem ports_table_wf (ts : List STree) (hwf : TreeWF ts) (hfl : PortsFlat ts) : (toPTable ts).WF :=
  toPTable_wf ts hwf hfl

/-! ## Non-vacuity -/

/-- `self:`, `on::T:F`, `a/` → { `t::T:F`, `v::i` }, `k#2/` → { `y`, `p#3/` → { `q:f:i` } } -/
def flatTree : List STree :=
  [.leaf ⟨[115, 101, 108, 102], [], false, some [[]]⟩ none,
   .leaf ⟨[111, 110], [], false, some [[], [84], [70]]⟩ none,
   .sub ⟨[97], [], true, none⟩ none
     [.leaf ⟨[116], [], false, some [[], [84], [70]]⟩ none, .leaf ⟨[118], [], false, some [[], [105]]⟩ none],
   .sub ⟨[107], [([50], [])], true, none⟩ none
     [.leaf ⟨[121], [], false, none⟩ none,
      .sub ⟨[112], [([51], [])], true, none⟩ none [.leaf ⟨[113], [], false, some [[102], [105]]⟩ none]]]

example : TreeWF flatTree := by decide
example : PortsFlat flatTree := by decide
example : HeadsApart flatTree := by decide
example : SubsUntyped flatTree := by decide
example : DigitsShort flatTree := by decide
/-- "/k1/p2/q" is reported for the port 3.1.0 … -/
example : ([3, 1, 0], [47, 107, 49, 47, 112, 50, 47, 113]) ∈ enumerate flatTree [47] := by decide
/-- … whose type part `:f:i` admits "i" (and "f", and every extension of "i") -/
example : admittedAlong [105] [3, 1, 0] flatTree = true := by decide
example : admittedAlong [102] [3, 1, 0] flatTree = true := by decide
example : admittedAlong [105, 105] [3, 1, 0] flatTree = true := by decide
example : admittedAlong [] [3, 1, 0] flatTree = false := by decide
example : IdxBounded [107, 49, 47, 112, 50, 47, 113] := idxBounded_of_check (by decide)

end Rtosc.Walk
