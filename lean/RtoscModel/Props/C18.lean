/-
  C18 — Path utilities: '..' collapsing, lookup by address, child search.
  Property theorems only; helper lemmas live in Proofs/Path{Collapse,Apropos,Search}.lean,
  the models and specifications in RtoscModel/Path/{Collapse,Apropos,Search}.lean.

  Reading of the statement.
  * Collapsing: an absolute path is `render comps` (every component preceded by `/`;
    components are NUL- and slash-free, possibly empty — a trailing `/` is an empty last
    component).  The specification `cancel` is the left-to-right stack pass.  The memory
    block is `render comps ++ 0 :: tail` (terminator and whatever follows it).
  * Lookup: `walk` enumerates the addresses a port-tree walk reports for a tree of
    literal names, each with the index path of the reported port; `apropos` returns an
    index path.  `TreeOK` says that, in every table, no name is a prefix of another
    (names taken up to `:`), names are literal and non-empty, and ports with a sub-table
    end in `/`.  `Unamb` is the weaker condition that only constrains the rows met on the
    way to one port.
  * Child search: `searchRows` is the table addressed by the location (root, sub-table of
    the port found by `apropos`, or that port alone); `childrenSpec` lists its rows whose
    names start with the prefix, each with its metadata bytes.  `std::sort` is any
    `Sorter` satisfying its contract (`Sorter.Correct`), so the statements hold for every
    admissible result of the unstable sort.  The model contains the repairs
    fixes/C18-pathsearch-metalen.patch and fixes/C18-pathsearch-querysort.patch.
-/
import RtoscModel.Proofs.PathCollapse
import RtoscModel.Proofs.PathApropos
import RtoscModel.Proofs.PathSearch
import RtoscModel.Proofs.PathHash
import RtoscModel.Proofs.PathDir
import RtoscModel.Path.Enum
import RtoscModel.Proofs.PathEnumExt
import RtoscModel.Proofs.PathEnumCanon
namespace Rtosc.Path
open Rtosc

/-! ## Collapsing -/

/-- **collapse_eq_spec**: the string returned by `collapsePath` for an absolute path is
    the path with every `..` cancelled against the nearest preceding ordinary component
    (surplus `..` dropped), all other components unchanged and in order; no access
    leaves the block (the result is `some`). -/
theorem collapse_eq_spec (comps : List Bytes) (tail : Bytes) (hwf : ∀ c ∈ comps, CompWF c) :
    collapseStr (render comps ++ 0 :: tail) =
      some ((render comps).length - (render (cancel comps)).length, render (cancel comps)) := by
  obtain ⟨J, h1, h2⟩ := collapse_core comps tail hwf
  unfold collapseStr
  rw [h1]
  simp only
  rw [List.append_assoc, List.drop_left,
    cstr_append_nul _ _ (render_no_nul _ (cancel_wf comps hwf))]
  simp only [Option.map_some]
  congr 2
  omega

/-- **collapse_in_place**: the result lies inside the same buffer: the block keeps its
    length, the returned pointer is `off` bytes into it, the collapsed path occupies
    exactly the bytes from `off` up to the original terminator, and the terminator and
    everything behind it are untouched. -/
theorem collapse_in_place (comps : List Bytes) (tail : Bytes) (hwf : ∀ c ∈ comps, CompWF c) :
    ∃ buf off, collapse (render comps ++ 0 :: tail) = some (buf, off) ∧
      buf.length = (render comps ++ 0 :: tail).length ∧
      off + (render (cancel comps)).length = (render comps).length ∧
      buf.drop off = render (cancel comps) ++ 0 :: tail := by
  obtain ⟨J, h1, h2⟩ := collapse_core comps tail hwf
  refine ⟨_, _, h1, ?_, h2, ?_⟩
  · simp only [List.length_append, List.length_cons]; omega
  · rw [List.append_assoc, List.drop_left]

/-! ## Lookup by address -/

/-- **apropos_of_walked** (hypothesis along the path only): looking up an address that the
    walk reported returns the port it was reported with, with or without the leading `/`. -/
theorem apropos_of_walked_local (ps : List PortT) (a : Bytes) (ix : List Nat)
    (hw : (a, ix) ∈ walk ps) (hu : Unamb ps ix) :
    apropos ps a = .port ix ∧ apropos ps (SLASH :: a) = .port ix := by
  obtain ⟨h1, _, h3, _⟩ := apropos_addr ix ps a (walk_sound ps a ix hw) hu
  refine ⟨h1, ?_⟩
  have : apropos ps (SLASH :: a) = apropos ps a := by
    unfold apropos
    simp [stripSlash, h3]
  rw [this, h1]

/-- **apropos_of_walked**: provided no sibling's name is a prefix of another's (`TreeOK`),
    looking up any address that the port-tree walk reported returns the port it was
    reported with. -/
theorem apropos_of_walked (ps : List PortT) (hok : TreeOK ps) (a : Bytes) (ix : List Nat)
    (hw : (a, ix) ∈ walk ps) :
    apropos ps a = .port ix ∧ apropos ps (SLASH :: a) = .port ix :=
  apropos_of_walked_local ps a ix hw (unamb_of_treeOK ix ps a hok (walk_sound ps a ix hw))

/-! ### Enumerated rows (`name#N`)

  `apropos_of_walked` above is about trees of literal names (`TreeOK` contains `LitName`).
  For trees that also have enumerated rows the first reading of the clause was
  `apropos_of_walked_enum_statement` ("no expanded name of a row is a prefix of an expanded
  name of another row", `TreeOKE`).  That statement is FALSE of the model and of the code
  (`apropos_of_walked_enum_counterexample`): `rtosc_match_number` reads the index in an address
  with `atoi`, so the row `a#5x` also answers for `a00x`, the address of a literal sibling.
  The clause is proved (`apropos_of_walked_enum`) under the additional hypothesis `TreeNumOK`
  (RtoscModel/Path/EnumNum.lean): "a sibling's name" is read as "a name the sibling's pattern
  accepts" (index written with any number of leading zeros), every enumerated row stands for
  at least one port (`N ≥ 1`), and trying a sibling's pattern on a name does not overflow `atoi`.
  Each of the three parts is needed (`…_counterexample`, `…_zero_count_counterexample`,
  `…_overflow_counterexample`). -/

/-- the lookup clause for trees with literal and enumerated names (`walkE`, `TreeOKE`:
    RtoscModel/Path/Enum.lean) under the hypothesis `TreeOKE` alone — false, see
    `apropos_of_walked_enum_statement_false`; proved with `TreeNumOK` added
    (`apropos_of_walked_enum`) -/
def apropos_of_walked_enum_statement : Prop :=
  ∀ (ps : List PortT), TreeOKE ps → ∀ (a : Bytes) (ix : List Nat), (a, ix) ∈ walkE ps →
    apropos ps a = .port ix ∧ apropos ps (SLASH :: a) = .port ix

/-- **apropos_of_walked_enum** (lookup clause, trees with literal and enumerated names
    `name#N`, `name#N/`, `pre#N post`): provided no sibling's name is a prefix of another's —
    `TreeOKE`: names of the documented form, no expanded name of a row is a prefix of an expanded
    name of another row; `TreeNumOK`: the same for every name the other row's pattern accepts
    (leading zeros), `N ≥ 1`, no `atoi` overflow — looking up any address that the port-tree
    walk reported (`walkE`: every row expanded to its `N` elements, at every level) returns
    the port it was reported with, with or without the leading `/`.  By induction over the
    tree (Proofs/PathEnumExt.lean, `apropos_addrE`). -/
theorem apropos_of_walked_enum (ps : List PortT) (hok : TreeOKE ps) (hnum : TreeNumOK ps)
    (a : Bytes) (ix : List Nat) (hw : (a, ix) ∈ walkE ps) :
    apropos ps a = .port ix ∧ apropos ps (SLASH :: a) = .port ix :=
  apropos_walkedE ps hok hnum a ix hw

/-- **apropos_of_walked_enum_canon**: the same clause with hypotheses that can be read off the
    names.  `CanonList` (RtoscModel/Path/EnumNum.lean; `canonListB` is the same as a finite
    check): every enumerated row has `N ≥ 1`, no `#` follows a digit, and every literal digit
    run in a name is a number below 2^31 printed without leading zeros.  Then
    `rtosc_match_number` meets printed numbers only, and "no expanded name of a row is a prefix of
    an expanded name of another row" (`TreeOKE`) is enough (`treeNumOK_of_canon`). -/
theorem apropos_of_walked_enum_canon (ps : List PortT) (hok : TreeOKE ps) (hc : CanonList ps)
    (a : Bytes) (ix : List Nat) (hw : (a, ix) ∈ walkE ps) :
    apropos ps a = .port ix ∧ apropos ps (SLASH :: a) = .port ix :=
  apropos_of_walked_enum ps hok (treeNumOK_of_canon ps hok hc) a ix hw

/-- the table `a#5x`, `a00x` -/
def cexLeadingZero : List PortT :=
  [.mk [97, 35, 53, 120] none false [], .mk [97, 48, 48, 120] none false []]

/-- **apropos_of_walked_enum_counterexample** (finding C18-K: leading zeros): in the table
    `a#5x`, `a00x` no expanded name (`a0x … a4x`, `a00x`) is a prefix of another, the walk
    reports `a00x` with row 1, and the lookup of `a00x` returns row 0: `rtosc_match_number`
    reads `00` as index 0 of `a#5x`.  (The compiled code returns row 0 as well.) -/
theorem apropos_of_walked_enum_counterexample :
    TreeOKE cexLeadingZero ∧ (([97, 48, 48, 120], [1]) : Bytes × List Nat) ∈ walkE cexLeadingZero ∧
      apropos cexLeadingZero [97, 48, 48, 120] = .port [0] :=
  ⟨treeOKE_leaves2 _ _ (by decide) (by decide) rfl rfl (by decide), by decide, by decide⟩

/-- the lookup clause under `TreeOKE` alone does not hold -/
theorem apropos_of_walked_enum_statement_false : ¬ apropos_of_walked_enum_statement := by
  intro h
  obtain ⟨h1, h2, h3⟩ := apropos_of_walked_enum_counterexample
  have := (h _ h1 _ _ h2).1
  rw [h3] at this
  exact absurd this (by decide)

/-- the table `x#0`, `x` -/
def cexZeroCount : List PortT := [.mk [120, 35, 48] none false [], .mk [120] none false []]

/-- why `N ≥ 1` is asked: the row `x#0` stands for no port, so it has no expanded name that
    could be a prefix of anything, yet `strstr(port.name, path) == port.name` finds it for the
    address `x` of its sibling. -/
theorem apropos_of_walked_enum_zero_count_counterexample :
    TreeOKE cexZeroCount ∧ (([120], [1]) : Bytes × List Nat) ∈ walkE cexZeroCount ∧
      apropos cexZeroCount [120] = .port [0] :=
  ⟨treeOKE_leaves2 _ _ (by decide) (by decide) rfl rfl (by decide), by decide, by decide⟩

/-- the table `a#2`, `a9999999999` -/
def cexOverflow : List PortT :=
  [.mk [97, 35, 50] none false [], .mk [97, 57, 57, 57, 57, 57, 57, 57, 57, 57, 57] none false []]

/-- why `IndexFits` is asked: trying the pattern `a#2` on the sibling's address `a9999999999`
    makes `atoi` read a number above 2^31 (undefined behaviour in C; the model answers
    `unsupported`). -/
theorem apropos_of_walked_enum_overflow_counterexample :
    TreeOKE cexOverflow ∧
      (([97, 57, 57, 57, 57, 57, 57, 57, 57, 57, 57], [1]) : Bytes × List Nat) ∈ walkE cexOverflow ∧
      apropos cexOverflow [97, 57, 57, 57, 57, 57, 57, 57, 57, 57, 57] = .unsupported :=
  ⟨treeOKE_leaves2 _ _ (by decide) (by decide) rfl rfl (by decide), by decide, by decide⟩

/-- **apropos_of_walked_enum_partial**: one enumerated row `pre#N post` (`dn` = the digits of
    `N`, `dk` = the digits of an index `k`).  (1) As a sub-tree row `pre#N post/[:args]` it
    matches the address `pre k post/rest` for `k < N` and leaves exactly `rest` for the
    sub-table; (2) as a leaf row `pre#N post[:args]` it matches `pre k post` to its end for
    `k < N`; (3) an index `k ≥ N` is not matched. -/
theorem apropos_of_walked_enum_partial (pre dn post tail dk : Bytes)
    (hpre : ∀ c ∈ pre, PlainChar c) (hpost : ∀ c ∈ post, PlainChar c) (ht : TailOK tail)
    (hn : Digits dn) (hk : Digits dk) (hpd : isDigit (hd post) = false)
    (hmax : atoi dn < 2147483648) (hval : atoi dk < 2147483648) :
    (atoi dk < atoi dn → ∀ rest : Bytes,
      matchPath (pre ++ 35 :: (dn ++ (post ++ SLASH :: tail))) (pre ++ (dk ++ (post ++ SLASH :: rest))) =
        .ok tail rest) ∧
    (atoi dk < atoi dn →
      ∃ p, matchPath (pre ++ 35 :: (dn ++ (post ++ tail))) (pre ++ (dk ++ post)) = .ok p []) ∧
    (atoi dn ≤ atoi dk →
      matchPath (pre ++ 35 :: (dn ++ (post ++ tail))) (pre ++ (dk ++ post)) = .null) := by
  have hpd' : isDigit (hd (post ++ [SLASH])) = false := by
    cases post with
    | nil => show isDigit SLASH = false; decide
    | cons c _ => simpa using hpd
  have hP : isDigit (hd (post ++ tail)) = false := by
    cases post with
    | nil =>
      rcases ht with rfl | ht
      · decide
      · simp only [List.nil_append]; rw [ht]; decide
    | cons c _ => simpa using hpd
  exact ⟨fun hlt rest => matchPath_enum_dir pre dn post tail dk rest hpre hpost ht hn hk hpd' hmax hlt,
    fun hlt => matchPath_enum_leaf pre dn post tail dk hpre hpost ht hn hk hpd hmax hlt,
    fun hge => matchPath_enum_out_of_range pre dn (post ++ tail) dk post hpre hn hk hP hpd hmax hval hge⟩

/-- `Ports::operator[]` returns the first row whose name is the key followed by `:` or by
    nothing (stated on the loop: the row found satisfies it, every earlier one does not). -/
theorem index_spec (ps : List PortT) (key : Bytes) (hk : ∀ c ∈ key, c ≠ 0) :
    index ps key = ps.findIdx? (fun p => key.isPrefixOf p.name ∧
      (hd (p.name.drop key.length) = COLON ∨ hd (p.name.drop key.length) = 0)) := by
  have hscan : ∀ (k h : Bytes), (∀ c ∈ k, c ≠ 0) →
      indexLoop.scan k h = decide (k.isPrefixOf h = true ∧ (hd (h.drop k.length) = COLON ∨ hd (h.drop k.length) = 0)) := by
    intro k
    induction k with
    | nil => intro h _; simp [indexLoop.scan]
    | cons n nr ih =>
      intro h hk
      have hn : n ≠ 0 := hk n List.mem_cons_self
      cases h with
      | nil => simp [indexLoop.scan, hn, Ne.symm hn]
      | cons c r =>
        by_cases hnc : n = c
        · subst hnc
          simp [indexLoop.scan, hn, ih r (fun x hx => hk x (List.mem_cons_of_mem _ hx))]
        · simp [indexLoop.scan, hnc]
  have hloop : ∀ (l : List PortT) (i : Nat), indexLoop key l i =
      (l.findIdx? (fun p => key.isPrefixOf p.name ∧
        (hd (p.name.drop key.length) = COLON ∨ hd (p.name.drop key.length) = 0))).map (· + i) := by
    intro l
    induction l with
    | nil => intro i; simp [indexLoop]
    | cons p r ih =>
      intro i
      rw [indexLoop, hscan key p.name hk, List.findIdx?_cons]
      by_cases hp : key.isPrefixOf p.name = true ∧
          (hd (p.name.drop key.length) = COLON ∨ hd (p.name.drop key.length) = 0)
      · simp [hp]
      · simp only [hp, decide_false, Bool.false_eq_true, ↓reduceIte]
        rw [ih (i + 1)]
        cases List.findIdx? _ r <;> simp <;> omega
  unfold index
  rw [hloop]
  cases List.findIdx? _ ps <;> simp

/-! ## Child search -/

/-- **search_location_dir**: "the addressed port" of a child search.  The address of a
    directory (the names, up to `:`, of the ports on the way, each ending in `/`; given with or
    without the leading `/`) makes the search run over exactly the rows of that directory's
    sub-table: `rows` in the theorems below is `p.children` for the port `p` with that index
    path.  Hypotheses (`UnambDir`): no other row of a table on the way is a prefix of, or
    prefixed by, the row taken, and the last directory name has its only `/` at its end
    (`dir_multi_slash_counterexample`: the row `a/b/` is not found by the address `a/b/`). -/
theorem search_location_dir (ps : List PortT) (ix : List Nat) (a : Bytes)
    (h : dirAddrOf ps ix = some a) (hu : UnambDir ps ix) :
    ∃ p, portAt ps ix = some p ∧ searchRows ps a = .ok p.children ∧
      searchRows ps (SLASH :: a) = .ok p.children :=
  searchRows_dir ps ix a h hu

/-- **search_children**: with the option `unmodified` the search returns exactly the
    direct children of the addressed port whose names start with the prefix, in table
    order, each paired with its metadata bytes — the blob is exactly the bytes of the
    metadata block (`Pair.view` reads `len` bytes from the data pointer; `childrenSpec`
    holds the whole block), and the length field of every blob is the number of those bytes
    (no more than the block: the last conjunct; a length of block+1 — the defect repaired by
    fixes/C18-pathsearch-metalen.patch — would satisfy the view equation alone). -/
theorem search_children (S : Sorter) {root : List PortT} {str : Bytes} {needle : Option Bytes}
    {maxTypes maxArgs : Nat} {query : Bool} {rows : List PortT}
    (h : SearchHyp root str needle maxTypes maxArgs query rows) :
    ∃ out : List Pair,
      pathSearch S root str needle maxTypes maxArgs .unmodified query =
        .ok (queryTypes query ++ pairTypes out) (queryArgs query str (needle.getD []) ++ pairArgs out) ∧
      out.map Pair.view = childrenSpec rows (needle.getD []) ∧
      ∀ e ∈ out, e.2.len = e.2.bytes.length := by
  obtain ⟨found, hcol, hview, hfit, hfound⟩ := h.found
  exact ⟨found, pathSearch_unmodified S h.resolves hcol hfit, hview,
    fun e he => (bytes_length e.2 (hfound e he).2).symm⟩

/-- **search_sorted**: with the option `sorted` the same children are returned in string
    (`strcmp`) order; which of several equal names comes first is up to `std::sort`, so
    the result is a permutation of the specified list that is sorted by name. -/
theorem search_sorted (S : Sorter) (hS : S.Correct) {root : List PortT} {str : Bytes} {needle : Option Bytes}
    {maxTypes maxArgs : Nat} {query : Bool} {rows : List PortT}
    (h : SearchHyp root str needle maxTypes maxArgs query rows) :
    ∃ out : List Pair,
      pathSearch S root str needle maxTypes maxArgs .sorted query =
        .ok (queryTypes query ++ pairTypes out) (queryArgs query str (needle.getD []) ++ pairArgs out) ∧
      (out.map Pair.view).Perm (childrenSpec rows (needle.getD [])) ∧
      out.Pairwise (fun a b => strLt b.1 a.1 = false) ∧
      ∀ e ∈ out, e.2.len = e.2.bytes.length := by
  obtain ⟨found, hcol, hview, hfit, hfound⟩ := h.found
  obtain ⟨out, h1, h2, h3⟩ := pathSearch_sorted S hS h.resolves hcol hfit
  exact ⟨out, h1, hview ▸ h2.map _, h3,
    fun e he => (bytes_length e.2 (hfound e (h2.mem_iff.mp he)).2).symm⟩

/-- Why outputs are compared "as multisets within runs of equal names": two admissible
    results of the (unstable) sort of the same list carry the same sequence of names and,
    for every name, the same multiset of entries. -/
theorem sort_result_unique {found l1 l2 : List Pair} (h1 : IsSortOf pairLt found l1)
    (h2 : IsSortOf pairLt found l2) :
    l1.map (·.1) = l2.map (·.1) ∧ ∀ k : Bytes, (l1.filter (·.1 = k)).Perm (l2.filter (·.1 = k)) := by
  have hp : l1.Perm l2 := h1.1.trans h2.1.symm
  refine ⟨?_, fun k => hp.filter _⟩
  have hs : ∀ l : List Pair, l.Pairwise (fun a b => pairLt b a = false) →
      (l.map (·.1)).Pairwise (fun a b => strLt b a = false) := by
    intro l hl
    rw [List.pairwise_map]
    exact hl
  exact List.Perm.eq_of_pairwise (le := fun a b => strLt b a = false)
    (fun a b _ _ hab hba => strLt_antisymm a b hba hab) (hs l1 h1.2) (hs l2 h2.2) (hp.map _)

/-- **search_unique_prefix**: with the option `sorted_and_unique_prefix` the result is the
    sorted list without every name that lies below a returned `name/` entry (`below`:
    some entry ending in `/` is a proper prefix of it); duplicates of a `name/` entry
    stay.  As in `search_children`, every blob's length field is the number of metadata
    bytes it is paired with. -/
theorem search_unique_prefix (S : Sorter) (hS : S.Correct) {root : List PortT} {str : Bytes}
    {needle : Option Bytes} {maxTypes maxArgs : Nat} {query : Bool} {rows : List PortT}
    (h : SearchHyp root str needle maxTypes maxArgs query rows) (hne : ∀ p ∈ rows, p.name ≠ []) :
    ∃ out : List Pair,
      pathSearch S root str needle maxTypes maxArgs .sortedUniquePrefix query =
        .ok (queryTypes query ++ pairTypes out) (queryArgs query str (needle.getD []) ++ pairArgs out) ∧
      (out.map Pair.view).Perm ((childrenSpec rows (needle.getD [])).filter fun e =>
        !below ((childrenSpec rows (needle.getD [])).map (·.1)) e.1) ∧
      out.Pairwise (fun a b => strLt b.1 a.1 = false) ∧
      ∀ e ∈ out, e.2.len = e.2.bytes.length := by
  obtain ⟨found, hcol, hview, hfit, hfound⟩ := h.found
  have hne' : ∀ e ∈ found, e.1 ≠ [] := by
    intro e he
    obtain ⟨⟨p, hp, hpe, _⟩, _⟩ := hfound e he
    rw [hpe]; exact hne p hp
  obtain ⟨out, h1, h2, h3⟩ := pathSearch_unique S hS h.resolves hcol hfit hne'
  refine ⟨out, h1, ?_, h3,
    fun e he => (bytes_length e.2 (hfound e (List.mem_filter.mp (h2.mem_iff.mp he)).1).2).symm⟩
  have hnames : (childrenSpec rows (needle.getD [])).map (·.1) = found.map (·.1) := by
    rw [← hview]; simp [Pair.view]
  rw [hnames, ← hview, List.filter_map]
  exact h2.map _

/-- **search_reply_wf**: whatever the option, the message overload produces a well-formed
    reply: the `(types, args)` of the array overload encode to a message whose length is a
    multiple of four and which an independent OSC decoder reads back as address `/paths`,
    the same type string and the same arguments (names and blob contents); the call
    returns that message when it fits `bufsize` and 0 otherwise. -/
theorem search_reply_wf (S : Sorter) (hS : S.Correct) {root : List PortT} {str needle : Bytes}
    {maxPorts : Nat} {query : Bool} {rows : List PortT}
    (h : SearchHyp root str (some needle) (2 * maxPorts + 1) (2 * maxPorts) query rows)
    (hne : ∀ p ∈ rows, p.name ≠ []) (hnames : ∀ p ∈ rows, NoNul p.name)
    (hstr : NoNul str) (hneedle : NoNul needle)
    (hsize : ∀ p ∈ rows, (p.metadata.getD []).length < 4294967296)
    (opts : Opts) (bufsize : Nat) :
    ∃ types args msg,
      pathSearch S root str (some needle) (2 * maxPorts + 1) (2 * maxPorts) opts query = .ok types args ∧
      encodeMsg PATHS types args = some msg ∧ msg.length % 4 = 0 ∧
      decodeMsg msg = some (PATHS, types, args.map Arg.view) ∧
      pathSearchMsg S root str needle maxPorts bufsize opts query =
        if msg.length ≤ bufsize then .ok msg else .tooSmall := by
  obtain ⟨found, hcol, _, hfit, hfound⟩ := h.found
  have hne' : ∀ e ∈ found, e.1 ≠ [] := by
    intro e he
    obtain ⟨⟨p, hp, hpe, _⟩, _⟩ := hfound e he
    rw [hpe]; exact hne p hp
  obtain ⟨out, h1, h2⟩ := pathSearch_any S hS h.resolves hcol hfit hne' opts
  have hwf : WFArgs (queryTypes query ++ pairTypes out) (queryArgs query str needle ++ pairArgs out) := by
    refine wfArgs_append (wf_query query str needle hstr hneedle) (wf_pairs out ?_ ?_)
    · intro e he
      obtain ⟨⟨p, hp, hpe, _⟩, _⟩ := hfound e (h2 e he)
      rw [hpe]; exact hnames p hp
    · intro e he
      obtain ⟨⟨p, hp, _, hlen⟩, hb⟩ := hfound e (h2 e he)
      exact ⟨hb, Nat.lt_of_le_of_lt hlen (hsize p hp)⟩
  have hpaths : NoNul PATHS := by intro c hc; simp [PATHS] at hc; rcases hc with rfl | rfl | rfl | rfl | rfl | rfl <;> decide
  obtain ⟨msg, hm1, hm2, hm3⟩ := enc_dec_msg PATHS _ _ hpaths (noNul_types query out) hwf
  simp only [Option.getD_some] at h1
  refine ⟨_, _, msg, h1, hm1, hm2, hm3, ?_⟩
  unfold pathSearchMsg
  rw [h1]
  simp only [hm1]
  by_cases hb : msg.length ≤ bufsize
  · simp [hb, Nat.not_lt.mpr hb]
  · simp [hb, Nat.lt_of_not_le hb]

/-! ## Non-vacuity: concrete inputs meet the hypotheses and the conclusions evaluate -/

/-- "/foo/../bar//.." + trailing byte: components `foo`, `..`, `bar`, empty, `..` -/
def exComps : List Bytes := [[102, 111, 111], [46, 46], [98, 97, 114], [], [46, 46]]

example : ∀ c ∈ exComps, CompWF c := by
  intro c hc
  simp only [exComps, List.mem_cons, List.not_mem_nil, or_false] at hc
  rcases hc with rfl | rfl | rfl | rfl | rfl <;> intro x hx <;> simp at hx <;>
    (try rcases hx with rfl | rfl | rfl) <;> (try rcases hx with rfl | rfl) <;> decide

example : collapseStr (render exComps ++ 0 :: [7]) = some (11, [47, 98, 97, 114]) := by decide
example : cancel exComps = [[98, 97, 114]] := by decide

/-- the tree of test/path-search.cpp: a/ → { b/c/ → { d/ → { e } }, b/x/ } plus a leaf `z:i` -/
def exTree : List PortT :=
  [.mk [97, 47] none true
     [.mk [98, 47, 99, 47] none true [.mk [100, 47] none true [.mk [101] none false []]],
      .mk [98, 47, 120, 47] none false []],
   .mk [122, 58, 105] (some [58, 107, 0, 61, 118, 0, 0]) false []]

example : walk exTree =
    [([97, 47, 98, 47, 99, 47, 100, 47, 101], [0, 0, 0, 0]), ([97, 47, 98, 47, 120, 47], [0, 1]), ([122], [1])] := by
  decide

example : apropos exTree [47, 97, 47, 98, 47, 99, 47, 100, 47, 101] = .port [0, 0, 0, 0] := by decide

/-- a two-level tree for which the hypotheses are spelled out: a/ → { x, y:i }, b:i -/
def exTree2 : List PortT :=
  [.mk [97, 47] none true [.mk [120] none false [], .mk [121, 58, 105] none false []],
   .mk [98, 58, 105] none false []]

example : (([97, 47, 121], [0, 1]) : Bytes × List Nat) ∈ walk exTree2 := by decide

example : Unamb exTree2 [0, 1] := by
  refine ⟨exTree2[0], ⟨rfl, ?_, by decide, by decide, ?_⟩, by decide,
    (exTree2[0]).children[1], ⟨rfl, ?_, by decide, by decide, ?_⟩⟩
  · intro q hq
    simp only [exTree2, List.mem_cons, List.not_mem_nil, or_false] at hq
    rcases hq with rfl | rfl <;> (unfold LitName; decide)
  · intro j q hq hj
    rcases j with _ | _ | j
    · exact absurd rfl hj
    · simp only [exTree2, List.getElem?_cons_succ, List.getElem?_cons_zero, Option.some.injEq] at hq
      subst hq; decide
    · simp [exTree2] at hq
  · intro q hq
    simp only [exTree2, List.getElem_cons_zero, PortT.children, List.mem_cons, List.not_mem_nil, or_false] at hq
    rcases hq with rfl | rfl <;> (unfold LitName; decide)
  · intro j q hq hj
    rcases j with _ | _ | j
    · simp only [exTree2, List.getElem_cons_zero, PortT.children, List.getElem?_cons_zero, Option.some.injEq] at hq
      subst hq; decide
    · exact absurd rfl hj
    · simp [exTree2, PortT.children] at hq

/-- p#3/ → { x, y#2:i }, q — an enumerated sub-tree with an enumerated leaf -/
def exTreeE : List PortT :=
  [.mk [112, 35, 51, 47] none true [.mk [120] none false [], .mk [121, 35, 50, 58, 105] none false []],
   .mk [113] none false []]

example : walkE exTreeE =
    [([112, 48, 47, 120], [0, 0]), ([112, 48, 47, 121, 48], [0, 1]), ([112, 48, 47, 121, 49], [0, 1]),
     ([112, 49, 47, 120], [0, 0]), ([112, 49, 47, 121, 48], [0, 1]), ([112, 49, 47, 121, 49], [0, 1]),
     ([112, 50, 47, 120], [0, 0]), ([112, 50, 47, 121, 48], [0, 1]), ([112, 50, 47, 121, 49], [0, 1]),
     ([113], [1])] := by decide

/-- every walked address of the example resolves to the port it was reported with; an index
    behind the end does not resolve -/
example : ∀ e ∈ walkE exTreeE, apropos exTreeE e.1 = .port e.2 ∧ apropos exTreeE (SLASH :: e.1) = .port e.2 := by
  decide
example : apropos exTreeE [112, 51, 47, 120] = .null := by decide

/-- the hypotheses of `apropos_of_walked_enum` hold for the example tree (and its conclusion is
    the `decide`d statement above); they fail for the counterexample table -/
example : TreeOKE exTreeE :=
  ⟨tableOKE_two _ _ (by decide) (by decide) (by decide),
   ⟨tableOKE_two _ _ (by decide) (by decide) (by decide), subTablesOKE_leaves _ (by decide)⟩,
   ⟨tableOKE_nil, trivial⟩, trivial⟩

example : TreeNumOK exTreeE :=
  ⟨tableNumOK_two_heads _ _ (by decide) (by decide) (by decide) (by decide) (by decide) (by decide),
   ⟨tableNumOK_two_heads _ _ (by decide) (by decide) (by decide) (by decide) (by decide) (by decide),
    subTablesNumOK_leaves _ (by decide)⟩,
   ⟨tableNumOK_nil, trivial⟩, trivial⟩

/-- `v#12b`, `v12`: rows with a common beginning and literal digits meet the syntactic
    hypotheses of `apropos_of_walked_enum_canon`; the counterexample table does not (`a00x`) -/
def exTreeDigits : List PortT :=
  [.mk [118, 35, 49, 50, 98] none false [], .mk [118, 49, 50] none false []]

example : TreeOKE exTreeDigits := treeOKE_leaves2 _ _ (by decide) (by decide) rfl rfl (by decide)
example : CanonList exTreeDigits := canonList_of_B _ (by decide)
example : CanonList exTreeE := canonList_of_B _ (by decide)
example : (([118, 49, 49, 98], [0]) : Bytes × List Nat) ∈ walkE exTreeDigits := by decide
example : canonListB cexLeadingZero = false := by decide

example : ¬ TreeNumOK cexLeadingZero := by
  intro h
  obtain ⟨h1, h2, h3⟩ := apropos_of_walked_enum_counterexample
  have := (apropos_of_walked_enum _ h1 h _ _ h2).1
  rw [h3] at this
  exact absurd this (by decide)

/-- the hypotheses of `apropos_of_walked_enum_partial` for `p#12/` against `p11/…` -/
example : Digits [49, 50] ∧ Digits [49, 49] ∧ atoi [49, 49] < atoi [49, 50] ∧ (∀ c ∈ [(112 : UInt8)], PlainChar c) := by
  refine ⟨⟨by decide, by decide⟩, ⟨by decide, by decide⟩, by decide, ?_⟩
  intro c hc
  simp only [List.mem_cons, List.not_mem_nil, or_false] at hc
  subst hc
  refine ⟨?_, ?_, ?_, ?_, ?_⟩ <;> decide

/-- the directory `a/` of `exTree2` is addressed by `a/` and `/a/` -/
example : dirAddrOf exTree2 [0] = some [97, 47] := by decide
example : UnambDir exTree2 [0] := by
  refine ⟨exTree2[0], ⟨rfl, ?_, by decide, by decide, ?_⟩, [97], by decide, by decide⟩
  · intro q hq
    simp only [exTree2, List.mem_cons, List.not_mem_nil, or_false] at hq
    rcases hq with rfl | rfl <;> (unfold LitName; decide)
  · intro j q hq hj
    rcases j with _ | _ | j
    · exact absurd rfl hj
    · simp only [exTree2, List.getElem?_cons_succ, List.getElem?_cons_zero, Option.some.injEq] at hq
      subst hq; decide
    · simp [exTree2] at hq
example : apropos exTree2 [47, 97, 47] = .port [0] := by decide

/-- a flat table with duplicates, a `name/` entry, names below it, and metadata blocks of
    different lengths -/
def exTable : List PortT :=
  [.mk [97, 47, 98] (some [58, 107, 0, 0]) false [],                 -- "a/b"  ":k\0\0"
   .mk [97, 47] (some [107, 0, 61, 118, 0, 0]) false [],             -- "a/"   "k\0=v\0\0" (no ':')
   .mk [98] none false [],                                           -- "b"    NULL
   .mk [97, 47] (some [0]) false [],                                 -- "a/"   ""
   .mk [97, 47, 98, 47, 99] (some [58, 97, 0, 0]) false []]          -- "a/b/c"

example : SearchHyp exTable [] (some [97]) 11 10 true
    [exTable[0], exTable[1], exTable[2], exTable[3], exTable[4]] := by
  refine ⟨rfl, ?_, ⟨by decide, by decide⟩⟩
  intro p hp
  simp only [exTable, List.getElem_cons_zero, List.getElem_cons_succ, List.mem_cons, List.not_mem_nil, or_false] at hp
  rcases hp with rfl | rfl | rfl | rfl | rfl <;> simp [MetaOK, PortT.metadata, EndsAtDoubleNul]

example : mergeSorter.Correct := by
  intro α lt l hsw
  refine ⟨List.mergeSort_perm _ _, ?_⟩
  have htrans : ∀ a b c : α, (!lt b a) = true → (!lt c b) = true → (!lt c a) = true := by
    intro a b c h1 h2
    simp only [Bool.not_eq_true'] at h1 h2 ⊢
    exact hsw.negTrans c b a h2 h1
  have htotal : ∀ a b : α, ((!lt b a) || (!lt a b)) = true := by
    intro a b
    cases h1 : lt b a <;> cases h2 : lt a b <;> simp
    have := hsw.trans a b a h2 h1
    rw [hsw.irrefl] at this; cases this
  have := List.pairwise_mergeSort (le := fun a b => !lt b a) htrans htotal l
  exact this.imp (by intro a b h; simpa using h)

example : pathSearch insertionSorter exTable [] (some [97]) 11 10 .sortedUniquePrefix false =
    .ok [115, 98, 115, 98]
      [.s [97, 47], .b ⟨some [107, 0, 61, 118, 0, 0], 6⟩, .s [97, 47], .b ⟨none, 0⟩] := by decide

end Rtosc.Path
