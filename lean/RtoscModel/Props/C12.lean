/-
  C12 — Savefiles restore the saved state and contain only differences from defaults.
  Property theorems only; proofs in Proofs/SaveSem.lean (application semantics, the
  restore induction), Proofs/SaveScan.lean + Proofs/SaveKahn.lean (dependency scan, sort),
  Proofs/SaveLoad.lean (assembly).

  Reading of the statement.  The theorems are about the abstract pipeline
  (RtoscModel/Save/*.lean): `App.saveFile` = `save_to_file` (walk, default lookup incl.
  `default depends`, runtime query, comparison, symbol mapping, array suffix trimming),
  `App.loadFile` = `load_from_file` (headers, scan result, dependency sort, dispatch).
  A file is the sequence of scanned lines; what the text stages (pretty printer and
  scanner, C10/C11; message encoding C01; port matching C04/C05; callbacks C14; value
  comparison C16) must provide is stated as `TextStages` below and is tied to the code by
  the correspondence engine `save`, which compares real file text, return values and
  object fields.
  Quantified over every application with `App.WF`, `MetaCovers`, `MetaRanked` and every
  state reachable through the parameter ports (`App.Reachable`; `inv_reachable` gives the
  invariant `App.Inv` the proofs use).  `App.WF` lets the dependency order be any finite strict
  partial order — two independent ports may share dependants (`rDepends` lists naming
  independent ports; no chain condition: `hypotheses_cover_shared_dependants_and_preset_arrays`)
  — and lets the elements of a `name#N` array take constant or preset-dependent defaults.
-/
import RtoscModel.Proofs.SaveLoad
import RtoscModel.Proofs.SaveArrayLine
import RtoscModel.Proofs.SaveWfBool
import RtoscModel.Proofs.SaveExample
import RtoscModel.Proofs.SaveExampleDiamond
namespace Rtosc.C12
open Rtosc Rtosc.Save

/-- **load_save_restores** and **load_counts_lines**: the savefile produced for a reachable
    state, loaded into a freshly default-initialised instance, reproduces exactly that
    state, and loading reports one message per saved line. -/
theorem load_save_restores (app : App) (hwf : app.WF) (hcov : app.MetaCovers) (hrank : MetaRanked app.apropos)
    (rtoscVer appVer : Nat × Nat × Nat) (hrv : verOk rtoscVer = true) (hav : verOk appVer = true)
    (s : State) (hs : app.Reachable s) :
    app.loadFile (app.saveFile rtoscVer appVer s) app.init = .ok s (app.save s).length :=
  loadFile_saveFile app hwf hcov hrank rtoscVer appVer hrv hav s (inv_reachable app hwf s hs)

/-- **load_counts_lines** (separately): whenever loading a file of parsed lines succeeds,
    the reported count is the number of lines. -/
theorem load_counts_lines (app : App) (ls : List Line) (s s' : State) (n : Nat)
    (h : app.load ls s = .ok s' n) : n = ls.length := by
  unfold App.load at h
  split at h
  · cases h
  · split at h
    · cases h
    · split at h
      · cases h
      · cases h; rfl

/-- **saved_iff_differs**: a parameter appears in the savefile exactly when it is reached
    (its sub-trees are allocated and enabled) and its current value differs from its
    default — the preset-dependent default selected by the port it declares to depend on
    (`evalDflt`); the line then carries the current value. -/
theorem saved_iff_differs (app : App) (hwf : app.WF) (s : State) (i : Nat) (hi : Item.scalar i ∈ app.walk) :
    (∃ l ∈ app.save s, l.addr = (app.param i).addr) ↔
      (guardsOn (app.param i) s = true ∧ s i ≠ evalDflt (app.param i) s) :=
  saved_scalar_iff app hwf s i hi

theorem saved_value (app : App) (hwf : app.WF) (s : State) (i : Nat) (hi : Item.scalar i ∈ app.walk)
    (l : Line) (hl : l ∈ app.save s) (ha : l.addr = (app.param i).addr) :
    l = ⟨(app.param i).addr, .plain [mapArgVal (app.param i).kind (s i)]⟩ :=
  saved_scalar_value app hwf s i hi l hl ha

/-- the same for an array port `name#N`: one line iff some element differs from its own default — constant or
    selected by the preset port (`rDefaultDepends` on an array port) -/
theorem saved_iff_differs_array (app : App) (hwf : app.WF) (s : State) (base : Path) (first len : Nat)
    (hi : Item.array base first len ∈ app.walk) :
    (∃ l ∈ app.save s, l.addr = base) ↔
      (guardsOn (app.param first) s = true ∧
        ∃ k, k < len ∧ s (first + k) ≠ evalDflt (app.param (first + k)) s) :=
  saved_array_iff app hwf s base first len hi

/-- **saved_value** for an array port (what "only differences" means for `name#N`): its line carries the current
    values of the elements `0 … n-1` (option indices as symbols), where element `n-1` is the last one that — as the
    line spells it — differs from its default (`map_arg_vals` runs before `first_equal_index`: an rArrayOption element
    holding an option's index is a symbol by then and never equals its int default; for the other kinds this is "the
    last one that differs from its default"); the elements behind it equal their defaults and are not written. -/
theorem saved_value_array (app : App) (hwf : app.WF) (s : State) (base : Path) (first len : Nat)
    (hi : Item.array base first len ∈ app.walk) (l : Line) (hl : l ∈ app.save s) (ha : l.addr = base) :
    ∃ n, 0 < n ∧ n ≤ len ∧
      l = ⟨base, .arr ((List.range n).map fun k => mapArgVal (app.param (first + k)).kind (s (first + k)))⟩ ∧
      mapArgVal (app.param (first + (n - 1))).kind (s (first + (n - 1))) ≠ evalDflt (app.param (first + (n - 1))) s ∧
      ∀ k, n ≤ k → k < len → s (first + k) = evalDflt (app.param (first + k)) s :=
  saved_array_value app hwf s base first len hi l hl ha

/-- every line belongs to a port of the walk (nothing else is written) -/
theorem saved_only_ports (app : App) (hwf : app.WF) (s : State) (l : Line) (hl : l ∈ app.save s) :
    ∃ it ∈ app.walk, l.addr = app.itemAddr it := by
  obtain ⟨it, hit, _, hs⟩ := (mem_save_iff app hwf s l).1 hl
  exact ⟨it, hit, saveItem_addr app s it l hs⟩

/-- **untouched_saves_header_only**: an untouched application saves only the two header lines. -/
theorem untouched_saves_header_only (app : App) (hwf : app.WF) (rtoscVer appVer : Nat × Nat × Nat) :
    (app.saveFile rtoscVer appVer app.init).body = [] := by
  simp [App.saveFile, save_init app hwf]

/-- **rejects_bad_header**: a first line that is not `% RT OSC v<a>.<b>.<c> savefile` with
    components ≤ 255 gives a negative result. -/
theorem rejects_bad_header (app : App) (f : File) (s : State)
    (h : f.magic = false ∨ verOk f.rtoscVer = false) : app.loadFile f s = .fail := by
  rcases h with h | h <;> simp [App.loadFile, h]

/-- **rejects_other_app**: another application's name (or a malformed application version). -/
theorem rejects_other_app (app : App) (f : File) (s : State)
    (h : f.appName ≠ app.name ∨ verOk f.appVer = false) : app.loadFile f s = .fail := by
  unfold App.loadFile
  split
  · rfl
  · rcases h with h | h <;> simp [h]

/-- **rejects_unparsable**: a message the scanner rejects, at any position. -/
theorem rejects_unparsable (app : App) (f : File) (s : State) (h : none ∈ f.body) :
    app.loadFile f s = .fail := by
  unfold App.loadFile
  split
  · rfl
  · split
    · rfl
    · have := scanBody_none f.body h
      revert this
      cases scanBody f.body with
      | mk ls ok => intro h; simp only at h; simp [h]

/-- **rejects_unmatched**: a line no port accepts (it matches nothing in any state), at any
    position of a file with pairwise different port names. -/
theorem rejects_unmatched (app : App) (hrank : MetaRanked app.apropos) (f : File) (s : State)
    (ls : List Line) (hbody : f.body = ls.map some) (hnd : (ls.map (·.addr)).Nodup)
    (l : Line) (hl : l ∈ ls) (hun : ∀ t, app.applyLine l t = none) :
    app.loadFile f s = .fail := by
  unfold App.loadFile
  split
  · rfl
  · split
    · rfl
    · rw [hbody, scanBody_some]
      simp only [Bool.not_true, Bool.false_eq_true, ↓reduceIte]
      exact load_unmatched' app hrank ls hnd l hl hun s

/-- a line whose address is no port's is such a line -/
theorem unmatched_of_no_port (app : App) (l : Line) (vs : List Val) (hp : l.args = .plain vs)
    (h : app.findAddr l.addr = none) : ∀ t, app.applyLine l t = none := by
  intro t; simp [App.applyLine, hp, App.dispatch, h]

/-- … and so is a line whose argument type the port does not take -/
theorem unmatched_of_wrong_type (app : App) (l : Line) (v : Val) (i : Nat) (hp : l.args = .plain [v])
    (h : app.findAddr l.addr = some i) (hs : store (app.param i).kind v = none) :
    ∀ t, app.applyLine l t = none := by
  intro t
  simp only [App.applyLine, hp, App.dispatch, h]
  split
  · rfl
  · simp [hs]

/-! ### what is assumed about the text stages -/

/-- The lower stages as far as this property needs them: printing a file and scanning the
    text gives the file back (C10: `print_scan_roundtrip`, C11).  Not proved here; compared
    with the implementation by the correspondence engine on the real file text. -/
structure TextStages where
  print : File → String
  scan : String → Option File
  roundtrip : ∀ f : File, (∀ l ∈ f.body, l ≠ none) → scan (print f) = some f

/-- The full statement at the level of file *text*, for given print/scan stages (kept
    visible; `load_save_restores` is its abstract-line form, `…_partial` derives it from the
    round-trip of the text stages). -/
def load_save_restores_statement (print : File → String) (scan : String → Option File) : Prop :=
  ∀ (app : App), app.WF → app.MetaCovers → MetaRanked app.apropos →
  ∀ (rtoscVer appVer : Nat × Nat × Nat), verOk rtoscVer = true → verOk appVer = true →
  ∀ (s : State), app.Reachable s →
    (scan (print (app.saveFile rtoscVer appVer s))).map (fun f => app.loadFile f app.init) =
      some (.ok s (app.save s).length)

/-- the text-level statement holds for every pair of text stages with the round-trip property -/
theorem load_save_restores_partial (T : TextStages) : load_save_restores_statement T.print T.scan := by
  intro app hwf hcov hrank rtoscVer appVer hrv hav s hs
  rw [T.roundtrip _ (by intro l hl; simp [App.saveFile] at hl; obtain ⟨x, _, rfl⟩ := hl; simp)]
  simp only [Option.map_some]
  rw [load_save_restores app hwf hcov hrank rtoscVer appVer hrv hav s hs]

/-! ### non-vacuity -/
open Rtosc.Save.Example in
/-- a reachable, non-default state of the example application: `/p := 1` switches the
    toggle `/t` on through its preset, which allocates the sub-tree; then `/s/a := 7` -/
def exState : State := exApp.run [("/p".toList, [.int 1]), ("/s/a".toList, [.int 7])] exApp.init

open Rtosc.Save.Example in
example : exApp.Reachable exState := ⟨_, rfl⟩

open Rtosc.Save.Example in
/-- the saved lines: `/p 1` and `/s/a 7`; `/t` equals its preset-dependent default and is not saved -/
example : exApp.save exState = [⟨"/p".toList, .plain [.int 1]⟩, ⟨"/s/a".toList, .plain [.int 7]⟩] := by decide

open Rtosc.Save.Example in
example : exApp.loadFile (exApp.saveFile (0, 3, 1) (1, 2, 3) exState) exApp.init = .ok exState 2 :=
  load_save_restores exApp ex_wf ex_covers ex_ranked _ _ rfl rfl exState ⟨_, rfl⟩

/-! ### non-vacuity, second application: shared dependants and a preset-dependent array default

    `DiamondExample.dApp`: `/p` and `/q` are independent of each other and both re-apply the default of `/d`
    (`rDefaultDepends(p)`, `rDepends(q)`): the ancestors of `/d` do not form a chain (`d_not_chain`, the shape of
    the generated applications A6-A9); `/a#2` takes its per-element defaults from the preset `/p` (A9, A10). -/

open Rtosc.Save.DiamondExample in
/-- **the hypotheses of the theorems cover shared dependants and preset-dependent array defaults**: an
    application satisfying `WF`, `MetaCovers` and `MetaRanked` in which two independent ports share a dependant
    (it violates the chain condition `App.AncChain`, which the theorems needed before the confluence proof
    `App.setParam_commute`) and an array port's defaults depend on a preset port. -/
theorem hypotheses_cover_shared_dependants_and_preset_arrays :
    ∃ app : App, app.WF ∧ app.MetaCovers ∧ MetaRanked app.apropos ∧ ¬ app.AncChain ∧
      ∃ base first len par tbl fb, Item.array base first len ∈ app.walk ∧
        (app.param first).dflt = .preset par tbl fb :=
  ⟨dApp, d_wf, d_covers, d_ranked, d_not_chain, "/a".toList, 3, 2, 0, [(1, .int 7)], .int 1,
    List.mem_cons_of_mem _ (List.mem_cons_of_mem _ (List.mem_cons_of_mem _ List.mem_cons_self)), rfl⟩

open Rtosc.Save.DiamondExample in
example : dApp.Reachable dState := ⟨_, rfl⟩

open Rtosc.Save.DiamondExample in
/-- the saved lines: both independent ports, their shared dependant (set after both), and the array line: its
    elements are compared with the defaults `/p = 1` selects ([7 8]), the first one equals its default -/
example : dApp.save dState = [⟨"/p".toList, .plain [.int 1]⟩, ⟨"/q".toList, .plain [.int 5]⟩,
    ⟨"/d".toList, .plain [.int 4]⟩, ⟨"/a".toList, .arr [.int 7, .int 9]⟩] := by decide

open Rtosc.Save.DiamondExample in
example : dApp.loadFile (dApp.saveFile (0, 3, 1) (1, 2, 3) dState) dApp.init = .ok dState 4 :=
  load_save_restores dApp d_wf d_covers d_ranked _ _ rfl rfl dState ⟨_, rfl⟩

open Rtosc.Save.DiamondExample in
/-- the array line is there because the second element differs from its preset-dependent default -/
example : ∃ l ∈ dApp.save dState, l.addr = "/a".toList :=
  (saved_iff_differs_array dApp d_wf dState "/a".toList 3 2
    (List.mem_cons_of_mem _ (List.mem_cons_of_mem _ (List.mem_cons_of_mem _ List.mem_cons_self)))).2
    ⟨by decide, 1, by decide, by decide⟩

open Rtosc.Save.DiamondExample in
/-- … and `saved_value_array` applies to it: the hypotheses hold for the line `/a [7 9]` -/
example : ∃ n, 0 < n ∧ n ≤ 2 ∧
    (⟨"/a".toList, .arr [.int 7, .int 9]⟩ : Line) =
      ⟨"/a".toList, .arr ((List.range n).map fun k => mapArgVal (dApp.param (3 + k)).kind (dState (3 + k)))⟩ :=
  let ⟨n, h1, h2, h3, _⟩ := saved_value_array dApp d_wf dState "/a".toList 3 2
    (List.mem_cons_of_mem _ (List.mem_cons_of_mem _ (List.mem_cons_of_mem _ List.mem_cons_self)))
    ⟨"/a".toList, .arr [.int 7, .int 9]⟩ (by decide) rfl
  ⟨n, h1, h2, h3⟩

open Rtosc.Save.DiamondExample in
/-- the Bool versions of `WF.kind_ok` / `WF.walk_tiles` (Save/WfBool.lean, sound by `App.kindOkB_sound` /
    `App.walkTilesB_sound`) evaluate to true on it -/
example : dApp.kindOkB = true ∧ dApp.walkTilesB = true := by decide

/-! ### non-vacuity, third application: an int port as enabling port, a line with two arguments -/

/-- `/n` (rParamI, 0..3, default 0) enables the embedded sub-tree `/s/` (`rRecur(s, rEnabledBy(n))`): enabled = non-zero -/
def gApp : App :=
  { name := "g".toList,
    params := [{ addr := "/n".toList, kind := .int (some 0) (some 3), dflt := .const (.int 0), guards := [], anc := [],
                 canon := .int 0 },
               { addr := "/s/a".toList, kind := .int none none, dflt := .const (.int 5), guards := [(0, false)], anc := [0],
                 canon := .int 5 }],
    walk := [.scalar 0, .scalar 1], apropos := fun _ => none }

/-- with `/n = 2` the sub-tree is enabled and `/s/a 7` is stored and saved; `/s/a 7 8` (one argument more than the port
    reads: `a::i`, the last alternative is a prefix of the type string) does the same -/
example : gApp.save (gApp.run [("/n".toList, [.int 2]), ("/s/a".toList, [.int 7, .int 8])] gApp.init) =
    [⟨"/n".toList, .plain [.int 2]⟩, ⟨"/s/a".toList, .plain [.int 7]⟩] := by decide +kernel

/-- while `/n` is zero a write below it is ignored: nothing is saved -/
example : gApp.save (gApp.run [("/s/a".toList, [.int 7])] gApp.init) = [] := by decide +kernel

/-- writing zero to `/n` disables the sub-tree again: it is back at its defaults, only nothing is left to save -/
example : gApp.save (gApp.run [("/n".toList, [.int 2]), ("/s/a".toList, [.int 7]), ("/n".toList, [.int 0])] gApp.init) = [] := by
  decide +kernel

/-- a toggle port takes `false 1` (its last alternative `F` is a prefix of the type string) but not `true 1` -/
example : (Rtosc.Save.Example.exApp.dispatch "/t".toList [.bool true, .int 1] Rtosc.Save.Example.exApp.init).isNone = true ∧
    (Rtosc.Save.Example.exApp.dispatch "/t".toList [.bool false, .int 1] Rtosc.Save.Example.exApp.init).isSome = true := by
  decide +kernel

/-! ### known finding C12-K9: +infinity and NaN do not survive the text stages -/

/-- a float the unchanged library writes as a word that does not scan back: +infinity (`inf (inf)`) or a NaN
    without sign bit (`nan (nan)`) — exponent all ones, sign bit clear.  (`-inf (-inf)` and `-nan (-nan)` do scan.) -/
def unscannableFlt (b : UInt32) : Bool := decide (2139095040 ≤ b.toNat ∧ b.toNat < 2147483648)

/-- no float of the line is +infinity or a NaN without sign bit (`inf (inf)` / `nan (nan)` do not scan) -/
def fltScans (l : Line) : Bool :=
  (match l.args with | .plain vs => vs | .arr vs => vs).all fun v =>
    match v with | .flt b => !unscannableFlt b | _ => true

/-- the elements of an array line are not a mixture of enumeration symbols and ints.  `map_arg_vals` replaces every
    int that has a `map N` entry by its symbol, element by element: an `rArrayOption` port with one element holding
    an option's index and another a value that is no option's index (the callback stores any int) is written
    `[sine 7 tri]`; the scanner takes an array whose elements differ in type for a syntax error -/
def uniformArr (l : Line) : Bool :=
  match l.args with
  | .plain _ => true
  | .arr vs => !((vs.any fun v => match v with | .sym _ => true | _ => false) &&
                 (vs.any fun v => match v with | .int _ => true | _ => false))

/-- a savefile line as the text stages of the unchanged library hand it back: does it scan? -/
def scansBack (l : Line) : Bool := fltScans l && uniformArr l

/-- trigger of C12-K9: a line of the savefile of state `s` carries a float value that is +infinity or NaN -/
def hasInfOrNaN (app : App) (s : State) : Bool := (app.save s).any fun l => !fltScans l

/-- trigger of C12-K10: an array line of the savefile of state `s` mixes enumeration symbols and ints -/
def hasMixedArray (app : App) (s : State) : Bool := (app.save s).any fun l => !uniformArr l

/-- the file `load_from_file` gets to see when the text of `save_to_file` is scanned by the unchanged library -/
def scannedFile (app : App) (rtoscVer appVer : Nat × Nat × Nat) (s : State) : File :=
  { magic := true, rtoscVer := rtoscVer, appName := app.name, appVer := appVer,
    body := (app.save s).map fun l => if scansBack l then some l else none }

/-- one unbounded float parameter `/f` with default 1.0 -/
def k9App : App :=
  { name := "k9".toList,
    params := [{ addr := "/f".toList, kind := .flt none none, dflt := .const (.flt 0x3f800000), guards := [], anc := [],
                 canon := .flt 0x3f800000 }],
    walk := [.scalar 0], apropos := fun _ => none }

/-- the state reached by sending `/f +inf` -/
def k9State : State := k9App.run [("/f".toList, [.flt 0x7f800000])] k9App.init

example : k9App.Reachable k9State := ⟨_, rfl⟩

theorem k9_trigger : hasInfOrNaN k9App k9State = true := by decide +kernel

/-- the state reached by sending `/f nan` (quiet NaN, sign bit clear) -/
def k9StateNaN : State := k9App.run [("/f".toList, [.flt 0x7fc00000])] k9App.init

example : k9App.Reachable k9StateNaN := ⟨_, rfl⟩

theorem k9_trigger_nan : hasInfOrNaN k9App k9StateNaN = true := by decide +kernel

/-- **C12-K9 counterexample, NaN** (mirrors the unchanged library): the savefile of a reachable state that
    holds a NaN is rejected when it is loaded back. -/
theorem nan_not_restored_counterexample :
    ¬ (∃ n, k9App.loadFile (scannedFile k9App (0, 3, 1) (1, 2, 3) k9StateNaN) k9App.init = .ok k9StateNaN n) := by
  intro ⟨n, h⟩
  have : k9App.loadFile (scannedFile k9App (0, 3, 1) (1, 2, 3) k9StateNaN) k9App.init = .fail := by
    apply rejects_unparsable
    decide +kernel
  rw [this] at h
  cases h

/-- **C12-K9 counterexample** (mirrors the unchanged library): the savefile of a reachable state that holds
    +infinity is rejected when it is loaded back. -/
theorem posinf_not_restored_counterexample :
    ¬ (∃ n, k9App.loadFile (scannedFile k9App (0, 3, 1) (1, 2, 3) k9State) k9App.init = .ok k9State n) := by
  intro ⟨n, h⟩
  have : k9App.loadFile (scannedFile k9App (0, 3, 1) (1, 2, 3) k9State) k9App.init = .fail := by
    apply rejects_unparsable
    decide +kernel
  rw [this] at h
  cases h

/-! ### known finding C12-K10: an rArrayOption line that mixes symbols and ints does not scan -/

/-- one `rArrayOption(o, 2, rOptions(a, b))` port, both elements 0 (`a`) by default -/
def k10App : App :=
  { name := "k10".toList,
    params := [{ addr := "/o0".toList, kind := .opt ["a".toList, "b".toList], dflt := .const (.int 0), guards := [], anc := [],
                 canon := .int 0 },
               { addr := "/o1".toList, kind := .opt ["a".toList, "b".toList], dflt := .const (.int 0), guards := [], anc := [],
                 canon := .int 0 }],
    walk := [.array "/o".toList 0 2], apropos := fun _ => none }

/-- the state reached by `/o0 5` (no option's index: the callback stores any int) and `/o1 1` (`b`) -/
def k10State : State := k10App.run [("/o0".toList, [.int 5]), ("/o1".toList, [.int 1])] k10App.init

example : k10App.Reachable k10State := ⟨_, rfl⟩

/-- the line is `/o [5 b]` -/
example : k10App.save k10State = [⟨"/o".toList, .arr [.int 5, .sym "b".toList]⟩] := by decide +kernel

theorem k10_trigger : hasMixedArray k10App k10State = true := by decide +kernel

/-- **C12-K10 counterexample** (mirrors the unchanged library): the savefile of a reachable state in which an
    rArrayOption port holds an option's index in one element and another int in another is rejected when it is
    loaded back. -/
theorem mixed_option_array_not_restored_counterexample :
    ¬ (∃ n, k10App.loadFile (scannedFile k10App (0, 3, 1) (1, 2, 3) k10State) k10App.init = .ok k10State n) := by
  intro ⟨n, h⟩
  have : k10App.loadFile (scannedFile k10App (0, 3, 1) (1, 2, 3) k10State) k10App.init = .fail := by
    apply rejects_unparsable
    decide +kernel
  rw [this] at h
  cases h

/-- **load_save_restores through the text stages of the unchanged library, partial**: outside the triggers of
    C12-K9 and C12-K10 the scanned file is the saved file, and loading it restores the state. -/
theorem load_save_restores_scanned_partial (app : App) (hwf : app.WF) (hcov : app.MetaCovers) (hrank : MetaRanked app.apropos)
    (rtoscVer appVer : Nat × Nat × Nat) (hrv : verOk rtoscVer = true) (hav : verOk appVer = true)
    (s : State) (hs : app.Reachable s) (hk : hasInfOrNaN app s = false) (hm : hasMixedArray app s = false) :
    app.loadFile (scannedFile app rtoscVer appVer s) app.init = .ok s (app.save s).length := by
  have hb : scannedFile app rtoscVer appVer s = app.saveFile rtoscVer appVer s := by
    unfold scannedFile App.saveFile
    congr 1
    apply List.map_congr_left
    intro l hl
    have : scansBack l = true := by
      unfold hasInfOrNaN at hk
      unfold hasMixedArray at hm
      rw [List.any_eq_false] at hk hm
      have h1 := hk l hl
      have h2 := hm l hl
      unfold scansBack
      simp only [Bool.not_eq_true, Bool.not_eq_false'] at h1 h2
      rw [h1, h2]; rfl
    simp [this]
  rw [hb]
  exact load_save_restores app hwf hcov hrank rtoscVer appVer hrv hav s hs

end Rtosc.C12
