/-
  C17 — Port metadata is read back exactly as written.
  Property theorems only; helper lemmas live in Proofs/MetaLemmas.lean.

  Reading of the statement: `block = serialize es` is what rMap/rProp/rDoc/rOptions
  produce (":k\0=v\0" / ":k\0" … plus the string literal's NUL); the reader under test
  is `Port::meta()` (which strips the leading ':') followed by range-for / operator[]
  / find / length.  All entries are well-formed (`EntryWF`: key non-empty, NUL-free,
  not starting with ':'; value NUL-free — values MAY contain ':' and '=').
  `macros_serialize` ties `serialize` to the macro texts of port-sugar.h as transcribed in
  RtoscModel/MetaMacros.lean (the transcription itself is checked against the compiled header
  by the `M` ops of the correspondence engine on every run).
-/
import RtoscModel.Proofs.MetaLemmas
import RtoscModel.Proofs.MetaMacros
namespace Rtosc.Meta
open Rtosc

theorem container_serialize (e : Bytes × Option Bytes) (es) :
    container (serialize (e :: es)) = some (some (ent e (rest es))) := by
  simp [container, serialize_eq, rest, portMeta]

private theorem begin_ent (e : Bytes × Option Bytes) (es) (hwf : EntryWF e) :
    begin (some (ent e (rest es))) = some (iterAt e es) := by
  obtain ⟨c, k, hek, hc, hc58, _⟩ := key_cons hwf
  have hshape : ent e (rest es) = c :: (k ++ 0 :: tl e (rest es)) := by simp [ent, hek]
  unfold begin
  simp only [hshape, hc58, ↓reduceIte]
  rw [← hshape]; exact mk'_ent e es hwf

private theorem fuel_ok (e : Bytes × Option Bytes) (es : List (Bytes × Option Bytes)) :
    es.length + 2 ≤ ((some (ent e (rest es)) : Ptr).getD []).length + 2 := by
  have := rest_length es
  have h2 : (rest es).length ≤ (ent e (rest es)).length := by
    simp only [ent, tl]; cases e.2 <;> simp <;> omega
  simp only [Option.getD_some]; omega

/-- **iterate_serialize**: range-for over `Port::meta()` yields exactly the written
    key/value pairs, in order, and never reads outside the block. -/
theorem iterate_serialize (e : Bytes × Option Bytes) (es : List (Bytes × Option Bytes))
    (hwf : ∀ x ∈ e :: es, EntryWF x) :
    (container (serialize (e :: es))).bind (fun m => pairs m) = some (e :: es) := by
  have he := hwf e (List.mem_cons_self)
  have hes : ∀ x ∈ es, EntryWF x := fun x hx => hwf x (List.mem_cons_of_mem _ hx)
  rw [container_serialize]
  simp only [Option.bind_some, pairs, begin_ent e es he]
  exact iterate_iterAt _ e es he hes (fuel_ok e es)

/-- **get_first**: `meta()[key]` is the value of the first entry with that key;
    NULL when the key is absent or that first entry has no value. -/
theorem get_first (e : Bytes × Option Bytes) (es : List (Bytes × Option Bytes)) (key : Bytes)
    (hwf : ∀ x ∈ e :: es, EntryWF x) :
    (container (serialize (e :: es))).bind (fun m => lookup m key) =
      some (match (e :: es).find? (fun x => x.1 = key) with
            | none => none
            | some x => x.2) := by
  have he := hwf e (List.mem_cons_self)
  have hes : ∀ x ∈ es, EntryWF x := fun x hx => hwf x (List.mem_cons_of_mem _ hx)
  rw [container_serialize]
  simp only [Option.bind_some, lookup, begin_ent e es he]
  exact lookupFuel_iterAt _ e es key he hes (fuel_ok e es)

/-- **find_presence**: `meta().find(key)` reports whether some entry has that key. -/
theorem find_presence (e : Bytes × Option Bytes) (es : List (Bytes × Option Bytes)) (key : Bytes)
    (hwf : ∀ x ∈ e :: es, EntryWF x) :
    (container (serialize (e :: es))).bind (fun m => find m key) =
      some ((e :: es).any (fun x => x.1 = key)) := by
  have he := hwf e (List.mem_cons_self)
  have hes : ∀ x ∈ es, EntryWF x := fun x hx => hwf x (List.mem_cons_of_mem _ hx)
  rw [container_serialize]
  simp only [Option.bind_some, find, begin_ent e es he]
  exact findFuel_iterAt _ e es key he hes (fuel_ok e es)

/-- **length_serialize**: `meta().length()` is the byte length of the block the macros
    wrote, leading ':' and terminating NUL included. -/
theorem length_serialize (e : Bytes × Option Bytes) (es : List (Bytes × Option Bytes))
    (hwf : ∀ x ∈ e :: es, EntryWF x) :
    (container (serialize (e :: es))).bind (fun m => length m) =
      some (serialize (e :: es)).length := by
  have he := hwf e (List.mem_cons_self)
  have hes : ∀ x ∈ es, EntryWF x := fun x hx => hwf x (List.mem_cons_of_mem _ hx)
  obtain ⟨c, k, hek, hc, _, _⟩ := key_cons he
  have hshape : ent e (rest es) = c :: (k ++ 0 :: tl e (rest es)) := by simp [ent, hek]
  rw [container_serialize, serialize_eq]
  simp only [Option.bind_some, length, hshape, hc, ↓reduceIte]
  rw [← hshape, lenScan_first e es he hes]
  simp only [Option.map_some, rest, List.length_cons]
  congr 1
  have : 1 ≤ (ent e (rest es)).length := by rw [hshape]; simp
  omega

/-- A container constructed directly over the block (without `Port::meta()`'s strip),
    as `path_search` does, reports one byte MORE than the block holds: the observation
    behind finding C18/K-meta-len. -/
theorem length_unstripped (e : Bytes × Option Bytes) (es : List (Bytes × Option Bytes))
    (hwf : ∀ x ∈ e :: es, EntryWF x) :
    length (some (serialize (e :: es))) = some ((serialize (e :: es)).length + 1) := by
  rw [serialize_eq]
  have h := lenScan_rest (e :: es) hwf
  have h1 := rest_length (e :: es)
  simp only [rest] at h h1 ⊢
  simp only [length, show ((58:UInt8) = 0) = False by decide, ↓reduceIte, h, Option.map_some]
  simp only [List.length_cons, Option.some.injEq]; omega

/-! Non-vacuity: a concrete block with a valueless entry, a value containing ':' and
    '=', a repeated key and an empty value meets the hypotheses, and the four
    conclusions evaluate as stated. -/
def exEntries : List (Bytes × Option Bytes) :=
  [([97], none), ([98, 58], some [58, 61, 49]), ([97], some [120]), ([99], some [])]

example : ∀ x ∈ exEntries, EntryWF x := by
  intro x hx
  simp only [exEntries, List.mem_cons, List.not_mem_nil, or_false] at hx
  rcases hx with rfl | rfl | rfl | rfl <;>
    refine ⟨by simp [NoNul], ⟨_, _, rfl, by decide⟩, ?_⟩ <;> simp [NoNul]

example : (container (serialize exEntries)).bind (fun m => pairs m) = some exEntries := by decide
example : (container (serialize exEntries)).bind (fun m => lookup m [97]) = some none := by decide
example : (container (serialize exEntries)).bind (fun m => length m) = some 24 := by decide

/-- **macros_serialize** ("as the rMap/rProp/rDoc/rOptions macros produce"): the string
    literal obtained by writing rProp / rMap / rDoc / rOpt (rOptions) / rPreset invocations
    side by side is `serialize` of the entries they stand for; `rSpecial` is excluded by the
    hypothesis (it stands for no entry). -/
theorem macros_serialize (ms : List Macro) (h : ∀ m ∈ ms, m.entry.isSome) :
    literal ms = serialize (ms.filterMap Macro.entry) :=
  literal_serialize ms h

/-! Non-vacuity of `macros_serialize`: the metadata of
    `rOption(mode, rOptions(sine, saw), rDefault(saw), "Wave")`, and what the readers make of
    a block with `rSpecial(disable)` (outside the statement: the text is skipped, the key
    `special` has no value). -/
def exMacros : List Macro :=
  [.prop (asc "parameter"), .prop (asc "enumerated")] ++ rOptions [asc "sine", asc "saw"] ++
  [.map (asc "default") (asc "saw"), .doc (asc "Wave")]

example : ∀ m ∈ exMacros, m.entry.isSome := by decide
example : (container (literal exMacros)).bind (fun m => lookup m (asc "map 1")) = some (some (asc "saw")) := by
  decide +kernel
example : (container (literal [.prop (asc "a"), .special (asc "off"), .map (asc "b") (asc "1")])).bind
    (fun m => pairs m) = some [(asc "a", none), (asc "special", none), (asc "b", some (asc "1"))] := by
  decide +kernel

end Rtosc.Meta
