/-
  C13 — Loading a savefile does not depend on the order of its lines.
  Property theorems only; the proofs are in Proofs/SaveKahn.lean (Kahn's algorithm as
  written), Proofs/SaveScan.lean (dependency scan), Proofs/SaveSem.lean (application
  semantics), Proofs/SaveTopo.lean and Proofs/SaveLoad.lean (assembly).

  Reading of the statement.  `App.load` is `dispatch_printed_messages` after scanning: it
  builds `message_map`, runs `scan_deps` for every port name, sorts with Kahn's algorithm
  and dispatches in that order (RtoscModel/Save/{Deps,Load}.lean).  Quantified over
    * every application `app` with `App.WF` (well-formed description; the dependency order is any
      finite strict partial order: independent ports may share dependants, `independent_writes_confluent`),
      `MetaCovers` (the metadata declares every dependence: rDefaultDepends / rDepends / rEnabledBy reach
      every ancestor) and `MetaRanked` (the metadata is acyclic),
    * every file `ls` with `FileOK` (port names pairwise different, as `save_to_file`'s
      `written` set guarantees; array lines stand under array ports; no parameter is
      addressed by two lines), of any length,
    * every permutation of it and every start state.
  `Ports::apropos` enters through `app.apropos` (hypotheses `MetaCovers`/`MetaRanked`);
  it is C18's subject and is tied to the code by the correspondence engine `order`.
-/
import RtoscModel.Proofs.SaveLoad
import RtoscModel.Proofs.SaveExample
import RtoscModel.Proofs.SaveExampleDiamond
namespace Rtosc.C13
open Rtosc Rtosc.Save

/-- **kahn_is_topological**: Kahn's algorithm exactly as written (FIFO queue, `n_input_edges`
    counted and decremented with multiplicity, `--` on `size_t`) terminates within its
    fuel on every acyclic dependees graph, outputs every message exactly once and puts
    every edge's source before its target. -/
theorem kahn_is_topological (deps : List (List Nat))
    (hrange : ∀ l ∈ deps, ∀ j ∈ l, j < deps.length)
    (rank : Nat → Nat) (hacyc : ∀ i, ∀ j ∈ deps.getD i [], rank i < rank j) :
    ∃ order, kahn deps = some order ∧ order.Perm (List.range deps.length) ∧
      ∀ i j, j ∈ deps.getD i [] → ∀ a b : Nat, order[a]? = some i → order[b]? = some j → a < b :=
  kahn_spec deps hrange rank hacyc

/-- non-vacuity: a diamond with a duplicated edge, listed against its dependency order -/
example : ∃ order, kahn [[], [0, 0], [1], [1, 0]] = some order ∧ order.Perm (List.range 4) :=
  ⟨[2, 3, 1, 0], by decide, by decide⟩

/-- **edges_cover_dependencies**: whenever a parameter of line `a` is an ancestor of a
    parameter of line `b` (preset port, `rDepends` port, enabling toggle, transitively),
    `scan_deps` finds a path of edges from `a` to `b` — whatever the position of the two
    lines and also when the ports in between have no line in the file. -/
theorem edges_cover_dependencies (app : App) (hwf : app.WF) (hcov : app.MetaCovers) (hrank : MetaRanked app.apropos)
    (ls : List Line) (hnd : (ls.map (·.addr)).Nodup) (hok : ∀ l ∈ ls, app.LineOK l)
    (deps : List (List Nat)) (hdeps : dependees app.apropos scanFuel (ls.map (·.addr)) = some deps)
    (ia ib : Nat) (a b : Line) (ha : ls[ia]? = some a) (hb : ls[ib]? = some b) (hlt : app.lineLt a b) :
    Relation.TransGen (fun i j => j ∈ deps.getD i []) ia ib :=
  Rtosc.Save.edges_cover_dependencies app hwf hcov hrank ls hnd hok deps hdeps ia ib a b ha hb hlt

/-- **independent_writes_confluent** (the core of the order-independence clause): two writes to ports of which
    neither is an ancestor of the other commute on every state, also when the two ports share dependants: the
    change hooks re-apply the defaults of the dependants, and a shared dependant takes its guard- and
    preset-dependent default from the final state in both orders (confluence; no condition on the shape of the
    dependency order beyond `WF.anc_lt` / `WF.anc_closed`). -/
theorem independent_writes_confluent (app : App) (hwf : app.WF) (pa pb : Nat) (ha : pa < app.size) (hb : pb < app.size)
    (hne : pa ≠ pb) (h1 : pa ∉ (app.param pb).anc) (h2 : pb ∉ (app.param pa).anc) (v w : Val) (s : State) :
    app.setParam pb w (app.setParam pa v s) = app.setParam pa v (app.setParam pb w s) :=
  App.setParam_commute hwf ha hb hne h1 h2 v w s

/-- **independent_lines_commute**: two lines that address different parameters, none of
    which is an ancestor of one of the other's, commute on every state — including
    whether the dispatch matches at all.  The two lines may have dependants in common. -/
theorem independent_lines_commute (app : App) (hwf : app.WF) (a b : Line)
    (hab : ∀ pa ∈ app.lineParams a, ∀ pb ∈ app.lineParams b,
        pa ≠ pb ∧ pa ∉ (app.param pb).anc ∧ pb ∉ (app.param pa).anc) (s : State) :
    (app.applyLine a s).bind (app.applyLine b) = (app.applyLine b s).bind (app.applyLine a) :=
  Rtosc.Save.independent_lines_commute app hwf a b hab s

/-- **kahn_perm_invariant_state**: for any permutation of the message lines, the result
    of loading — success or failure, the resulting state, the reported number of
    messages — is the same. -/
theorem kahn_perm_invariant_state (app : App) (hwf : app.WF) (hcov : app.MetaCovers)
    (hrank : MetaRanked app.apropos) (ls ls' : List Line) (hp : ls.Perm ls') (hf : app.FileOK ls) (s : State) :
    app.load ls' s = app.load ls s :=
  kahn_perm_invariant_state' app hwf hcov hrank ls ls' hp hf s

/-- the applied order always respects the dependences (the clause "a port that another
    port's default, enablement or declared dependency refers to is always applied before
    the dependent port, wherever the two lines stand") -/
theorem dependent_port_applied_first (app : App) (hwf : app.WF) (hcov : app.MetaCovers) (hrank : MetaRanked app.apropos)
    (ls : List Line) (hnd : (ls.map (·.addr)).Nodup) (hok : ∀ l ∈ ls, app.LineOK l) :
    ∃ deps order, dependees app.apropos scanFuel (ls.map (·.addr)) = some deps ∧ kahn deps = some order ∧
      order.Perm (List.range ls.length) ∧
      ∀ (ia ib : Nat) (a b : Line), ls[ia]? = some a → ls[ib]? = some b → app.lineLt a b →
        ∀ pa pb : Nat, order[pa]? = some ia → order[pb]? = some ib → pa < pb :=
  kahn_order_respects app hwf hcov hrank ls hnd hok

/-! ### non-vacuity: the hypotheses hold for a concrete application and file in which the
    order matters: `/s/a` lives in a pointer sub-tree enabled by `/t`, whose default
    depends on `/p`; the file has lines for `/s/a` and `/p` only (`/t` is absent). -/
open Rtosc.Save.Example in
def exFile : List Line := [⟨"/s/a".toList, .plain [.int 7]⟩, ⟨"/p".toList, .plain [.int 1]⟩]

open Rtosc.Save.Example in
theorem exFile_ok : exApp.FileOK exFile where
  addr_nodup := by decide
  line_ok := by intro l hl; simp [exFile] at hl; rcases hl with rfl | rfl <;> trivial
  disjoint := by decide

open Rtosc.Save.Example in
/-- the sub-tree line must follow the `/p` line although `/t` has no line -/
example : exApp.lineLt ⟨"/p".toList, .plain [.int 1]⟩ ⟨"/s/a".toList, .plain [.int 7]⟩ :=
  ⟨0, by decide, 2, by decide, by decide⟩

open Rtosc.Save.Example in
example : exApp.load exFile.reverse exApp.init = exApp.load exFile exApp.init :=
  kahn_perm_invariant_state exApp ex_wf ex_covers ex_ranked exFile exFile.reverse (List.reverse_perm _).symm exFile_ok _

/-! ### non-vacuity for independent ports with a shared dependant and a preset-dependent array
    (`DiamondExample.dApp`: `/p` and `/q` both re-apply the default of `/d`; `/a#2` takes its defaults from `/p`) -/
open Rtosc.Save.DiamondExample in
/-- `/p` (index 0) and `/q` (index 1) are independent and share the dependant `/d` (index 2) -/
example : (0 : Nat) ∉ (dApp.param 1).anc ∧ (1 : Nat) ∉ (dApp.param 0).anc ∧
    (0 : Nat) ∈ (dApp.param 2).anc ∧ (1 : Nat) ∈ (dApp.param 2).anc := by decide

open Rtosc.Save.DiamondExample in
/-- their writes commute although both rewrite `/d` -/
example (s : State) : dApp.setParam 1 (.int 5) (dApp.setParam 0 (.int 1) s) = dApp.setParam 0 (.int 1) (dApp.setParam 1 (.int 5) s) :=
  independent_writes_confluent dApp d_wf 0 1 (by decide) (by decide) (by decide) (by decide) (by decide) _ _ s

open Rtosc.Save.DiamondExample in
/-- the lines of `/p` and `/q` commute on every state -/
example (s : State) :
    (dApp.applyLine ⟨"/p".toList, .plain [.int 1]⟩ s).bind (dApp.applyLine ⟨"/q".toList, .plain [.int 5]⟩)
      = (dApp.applyLine ⟨"/q".toList, .plain [.int 5]⟩ s).bind (dApp.applyLine ⟨"/p".toList, .plain [.int 1]⟩) :=
  independent_lines_commute dApp d_wf _ _ (by decide) s

open Rtosc.Save.DiamondExample in
/-- the shared dependant's line and the array line must follow the lines of the ports they depend on -/
example : dApp.lineLt ⟨"/q".toList, .plain [.int 5]⟩ ⟨"/d".toList, .plain [.int 4]⟩ ∧
    dApp.lineLt ⟨"/p".toList, .plain [.int 1]⟩ ⟨"/a".toList, .arr [.int 7, .int 9]⟩ :=
  ⟨⟨1, by decide, 2, by decide, by decide⟩, ⟨0, by decide, 4, by decide, by decide⟩⟩

open Rtosc.Save.DiamondExample in
/-- a file that lists the dependants first loads like its reverse -/
example : dApp.load dFile.reverse dApp.init = dApp.load dFile dApp.init :=
  kahn_perm_invariant_state dApp d_wf d_covers d_ranked dFile dFile.reverse (List.reverse_perm _).symm dFile_ok _

/-! ### non-vacuity for a sub-tree enabled by a toggle of its own (`rRecur(s, rEnabledBy(s/t))`, the construct
    behind C13-F26): the hypotheses hold for `SelfExample.sApp`; its savefile lists `/s/a` before `/s/t`. -/
open Rtosc.Save.SelfExample in
/-- a path never waits for itself (fixes/C13-scan-deps-self-edge): the toggle's line gets no edge to itself -/
theorem refsOf_not_self (ap : Path → Option DepMeta) (X : Path) : X ∉ refsOf ap X := by
  intro h
  have := (List.mem_filter.1 h).2
  simp at this

open Rtosc.Save.SelfExample in
/-- the line of the toggle must precede the line of the parameter it enables -/
example : sApp.lineLt ⟨"/s/t".toList, .plain [.bool true]⟩ ⟨"/s/a".toList, .plain [.int 7]⟩ :=
  ⟨0, by decide, 1, by decide, by decide⟩

open Rtosc.Save.SelfExample in
example : sApp.load sFile.reverse sApp.init = sApp.load sFile sApp.init :=
  kahn_perm_invariant_state sApp s_wf s_covers s_ranked sFile sFile.reverse (List.reverse_perm _).symm sFile_ok _

open Rtosc.Save.SelfExample in
/-- Kahn's algorithm outputs both lines of that file, the toggle first -/
example : ∃ deps order, dependees sApp.apropos scanFuel (sFile.map (·.addr)) = some deps ∧ kahn deps = some order ∧
    order.Perm (List.range sFile.length) :=
  let ⟨deps, order, h1, h2, h3, _⟩ := dependent_port_applied_first sApp s_wf s_covers s_ranked sFile (by decide)
    (by intro l hl; simp [sFile] at hl; rcases hl with rfl | rfl <;> trivial)
  ⟨deps, order, h1, h2, h3⟩

/-- `rSelf(S, rEnabledBy(t))` in the table of `/s/` (asked from `App.apropos` as `/s/self:`; fixes/C13-scan-deps-self-port):
    every port of the table, at any depth below it, refers to `/s/t`; `/s/t` itself and ports outside do not -/
def selfSelfAp (p : Path) : Option DepMeta :=
  if p = "/s/self:".toList then some ⟨some "t".toList, none, none⟩ else none

example : refsOf selfSelfAp "/s/t".toList = [] := by decide
example : refsOf selfSelfAp "/s/a".toList = ["/s/t".toList] := by decide
example : refsOf selfSelfAp "/s/u/b".toList = ["/s/t".toList] := by decide
example : refsOf selfSelfAp "/x".toList = [] := by decide

end Rtosc.C13
