/-
  C09 — Walking a port tree enumerates exactly its dispatchable addresses.
  Property theorems only; the model is RtoscModel/Walk/{Buf,Model}.lean, the specification
  RtoscModel/Walk/Spec.lean, helper lemmas RtoscModel/Proofs/Walk*.lean.

  Reading of the statement
  * "all generated port trees": `TreeWF ts` — every name has the form
        head #N1 text1 … #Nk textk ['/'] [:types]
    (`WName`: literal text over any characters but NUL `# { * :`, numbers below 2^31, a text
    behind a number does not begin with a digit and is empty only at the end); a sub-tree
    name begins with text, ends in '/' and has every N ≥ 1.  Any depth, any size.
    The table handed to `walk_ports` is `toPorts ts`.
  * "the caller's name buffer": `pre ++ 0 :: J` — the address `pre` of the table
    (non-empty, NUL-free: `PrefixOk`), its terminator, and whatever else the block holds
    (`J`, arbitrary bytes); or `0 :: 0 :: J` for the empty buffer (the byte behind the
    terminator must be NUL: `walk_ports` writes the root '/' without a terminator;
    ports.h asks for an all-zero buffer).  `buffer_size` is never looked at by the
    code; what matters is the real size of the block: `needList ts ≤ J.length`, i.e. the
    block holds the longest address the walk forms plus its terminator — exactly
    (`walk_needs_room`).
  * "reports": the walker callback is called with `(port, name_buffer)`; the model records
    the index path of the port and the C string in the buffer.  `enumerate ts pre` is the
    list the statement fixes.
  * The model contains the repairs fixes/C09-recurse0-strchr.patch (F17: the search for '#'
    started behind the name's terminator; in the repository as commit 1147f04),
    fixes/C09-recurse0-index-text.patch (text behind `#N` in a sub-tree name was replaced by
    "N/…") and fixes/C09-enabled-subport-runtime.patch (a toggle inside a sub-tree was asked
    on the parent's object).

  One deviation remains (known finding C09-K1, acknowledged in test/walk-ports.cpp): for a
  *leaf* name with more than one '#', `bundle_foreach` expands only the first.  Trigger
  predicate `multiHashLeafList`; `walk_eq_enumerate_counterexample`,
  `walk_eq_enumerate_partial`.  The buffer clause holds without the exclusion.

  * "exactly once": `walk_reports_exactly_once` (the list reported has no repetition).  The
    theorems fix the order of the reports (table order, leftmost enumeration outermost); the
    statement does not, and the check compares the reports as a multiset.
  * "every reported address, sent as a message, is dispatched to the very port it was reported
    with": `walked_address_dispatched` / `walked_address_reaches_port` — the model of
    `Ports::dispatch` without location buffer that the correspondence driver runs (`dispatchSim`,
    Walk/Dispatch.lean: `rtosc_match` of C05 on every row, type part included; the callback of a
    sub-tree port skips the components of its name and dispatches to the sub-table) invokes
    exactly the reported port, iff the type string of the message is admitted by every port on the
    way.  The same against C04's model of `Ports::dispatch` (with and without location buffer,
    any lookup strategy) is in the module Props/C09Ports.lean.  `walked_address_dispatches` (the
    statement about `rtosc_match_path` level by level) is kept.
  * The runtime clause is `walk_prunes` (NULL pointers and "enabled by" toggles at every depth;
    its hypotheses `PathPrefix` / `GuardsOK` say where `port_is_enabled` is defined at all) and
    `walk_prunes_partial` (NULL pointers only, without those hypotheses).  The model is that of
    a library built with NDEBUG and with fixes/C09-enabled-loc-copy-size.patch: `buffer_size`
    is not looked at; the scratch buffers `char[1024]` of `walk_ports_recurse` are modelled
    (`SCRATCH`).
-/
import RtoscModel.Proofs.WalkGuard
import RtoscModel.Proofs.WalkSim
import RtoscModel.Proofs.WalkDigits
namespace Rtosc.Walk
open Rtosc Rtosc.Path Rtosc.Match

/-! ## Clause 1: every leaf under every concrete address, exactly once, nothing else -/

/-- The clause as the statement reads, for all well-formed trees.  It does **not** hold of
    the code: `walk_eq_enumerate_counterexample`. -/
def walk_eq_enumerate_statement : Prop :=
  ∀ (ts : List STree) (pre J : Buf), TreeWF ts → PrefixOk pre → needList ts ≤ J.length →
    ∃ b', walkPorts {} (toPorts ts) none (pre ++ 0 :: J) = .ok (enumerate ts pre, b')

/-- **walk_eq_enumerate_partial**: for every well-formed tree in which no leaf name has more
    than one '#' (`¬ multiHashLeafList`, the trigger of finding C09-K1), every address prefix
    and every buffer with enough room, the walker is called exactly with the pairs of
    `enumerate` — each leaf under each concrete address once, in the fixed order, nothing
    else — and no access leaves the buffer (the result is `ok`). -/
theorem walk_eq_enumerate_partial (ts : List STree) (pre J : Buf) (hwf : TreeWF ts)
    (hk1 : multiHashLeafList ts = false) (hpre : PrefixOk pre) (hcap : needList ts ≤ J.length) :
    ∃ b', walkPorts {} (toPorts ts) none (pre ++ 0 :: J) = .ok (enumerate ts pre, b') := by
  obtain ⟨J', h, _⟩ := walkPorts_code ts pre J hwf hpre hcap
  exact ⟨_, by rw [h, codeList_eq_enumList ts pre [] 0 hk1]; rfl⟩

/-- the same from an empty buffer: the addresses start at the root "/" -/
theorem walk_eq_enumerate_root_partial (ts : List STree) (J : Buf) (hwf : TreeWF ts)
    (hk1 : multiHashLeafList ts = false) (hcap : needList ts ≤ J.length) :
    ∃ b', walkPorts {} (toPorts ts) none (0 :: 0 :: J) = .ok (enumerate ts [47], b') := by
  obtain ⟨J', h, _⟩ := walkPorts_code_empty ts J hwf hcap
  exact ⟨_, by rw [h, codeList_eq_enumList ts [47] [] 0 hk1]; rfl⟩

/-- "exactly once", counted: `enumerate` has one entry per leaf and index tuple — the sum over
    the leaves of the product of all `N` on the way (`countList`) — whatever the prefix. -/
theorem enumerate_count (ts : List STree) (pre : Bytes) : (enumerate ts pre).length = countList ts :=
  enumList_length ts pre [] 0

/-- "exactly once": no `(leaf, address)` pair occurs twice in `enumerate` -/
theorem enumerate_nodup (ts : List STree) (hwf : TreeWF ts) (pre : Bytes) : (enumerate ts pre).Nodup :=
  enumList_nodup ts pre [] 0 hwf

/-- **walk_reports_exactly_once**: under the hypotheses of `walk_eq_enumerate_partial` the list of
    walker calls has no repetition and its members are exactly the pairs of `enumerate`: every
    leaf under every concrete address it answers to is reported, once, and nothing else. -/
theorem walk_reports_exactly_once (ts : List STree) (pre J : Buf) (hwf : TreeWF ts)
    (hk1 : multiHashLeafList ts = false) (hpre : PrefixOk pre) (hcap : needList ts ≤ J.length) :
    ∃ calls b', walkPorts {} (toPorts ts) none (pre ++ 0 :: J) = .ok (calls, b') ∧ calls.Nodup ∧
      ∀ c, c ∈ calls ↔ c ∈ enumerate ts pre := by
  obtain ⟨b', h⟩ := walk_eq_enumerate_partial ts pre J hwf hk1 hpre hcap
  exact ⟨_, b', h, enumerate_nodup ts hwf pre, fun _ => Iff.rfl⟩

/-- the leaf `z#2/q#2` -/
def k1Tree : List STree :=
  [.leaf ⟨[122], [([50], [47, 113]), ([50], [])], false, none⟩ none]

/-- **walk_eq_enumerate_counterexample** (finding C09-K1): `z#2/q#2` is a well-formed leaf
    name answering to four addresses; the walk reports two ("/z0/q#2", "/z1/q#2"). -/
theorem walk_eq_enumerate_counterexample : ¬ walk_eq_enumerate_statement := by
  intro h
  obtain ⟨b', hb⟩ := h k1Tree [47] (List.replicate 10 0) (by decide)
    ⟨by simp, by intro c hc; simp at hc; subst hc; decide⟩ (by decide)
  have h1 : (walkPorts {} (toPorts k1Tree) none ([47] ++ 0 :: List.replicate 10 0)).toOption.map (·.1.length)
      = some 4 := by rw [hb]; rfl
  have h2 : (walkPorts {} (toPorts k1Tree) none ([47] ++ 0 :: List.replicate 10 0)).toOption.map (·.1.length)
      = some 2 := by decide
  rw [h2] at h1
  cases h1

/-- the trigger predicate singles this tree out -/
example : multiHashLeafList k1Tree = true := by decide

/-- what the code does on every well-formed tree, K1 included: `codeList` is `enumerate`
    with only the first '#' of a leaf name expanded -/
theorem walk_eq_code (ts : List STree) (pre J : Buf) (hwf : TreeWF ts) (hpre : PrefixOk pre)
    (hcap : needList ts ≤ J.length) :
    ∃ b', walkPorts {} (toPorts ts) none (pre ++ 0 :: J) = .ok (codeList pre [] ts 0, b') := by
  obtain ⟨J', h, _⟩ := walkPorts_code ts pre J hwf hpre hcap
  exact ⟨_, h⟩

/-! ## Clause 2: the buffer afterwards -/

/-- **walk_restores_buffer**: after the walk the caller's buffer has its size and holds, as a
    string, exactly the prefix it started with — for every well-formed tree (leaves with
    several '#' included). -/
theorem walk_restores_buffer (ts : List STree) (pre J : Buf) (hwf : TreeWF ts) (hpre : PrefixOk pre)
    (hcap : needList ts ≤ J.length) :
    ∃ calls b', walkPorts {} (toPorts ts) none (pre ++ 0 :: J) = .ok (calls, b') ∧
      cstrAt b' 0 = .ok pre ∧ b'.length = (pre ++ 0 :: J).length := by
  obtain ⟨J', h, l⟩ := walkPorts_code ts pre J hwf hpre hcap
  exact ⟨_, _, h, cstrAt_zero pre J' hpre.2, by simp [l]⟩

/-- … and the root "/" for an empty buffer -/
theorem walk_restores_buffer_root (ts : List STree) (J : Buf) (hwf : TreeWF ts)
    (hcap : needList ts ≤ J.length) :
    ∃ calls b', walkPorts {} (toPorts ts) none (0 :: 0 :: J) = .ok (calls, b') ∧
      cstrAt b' 0 = .ok [47] ∧ b'.length = (0 :: 0 :: J).length := by
  obtain ⟨J', h, l⟩ := walkPorts_code_empty ts J hwf hcap
  refine ⟨_, _, h, cstrAt_zero [47] J' (by intro c hc; simp at hc; subst hc; decide), by simp [l]⟩

/-! ## Clause 3: every reported address is dispatched to the port it was reported with -/

/-- **walked_address_dispatches**: for every pair `(port, address)` of `enumerate`, the address
    behind the table's prefix is accepted by `rtosc_match_path` level by level along the
    port's index path: at every sub-tree port with `*path_end` exactly where the sub-table's
    part starts, at the leaf as a whole.  (`IdxBounded`: C05's "indices of up to 9 digits" —
    every digit run of the address, literal digits of names included, is below 2^31.) -/
theorem walked_address_dispatches (ts : List STree) (hwf : TreeWF ts) (pre : Bytes)
    (ix : List Nat) (addr : Bytes) (h : (ix, addr) ∈ enumerate ts pre) (ex : Bytes) :
    ∃ rel, addr = pre ++ rel ∧ NulFree rel ∧
      (IdxBounded rel → Delivers false ex ix (toPorts ts) rel) := by
  obtain ⟨n, ixr, rel, h1, h2, h3, h4⟩ := delivers_list false ex ts [] pre [] ix addr
    (by simpa [TreeWF] using hwf) (by intro h; cases h) (by simpa [enumerate] using h)
  refine ⟨rel, h2, h3, ?_⟩
  intro hb
  simpa [h1] using h4 hb

/-- **walked_address_dispatches_only**: if in every table no two rows answer to a common
    address (`SiblingsApart`), then additionally no *other* row accepts the address at any
    level: the message reaches the reported port and only it. -/
theorem walked_address_dispatches_only (ts : List STree) (hwf : TreeWF ts) (hs : SiblingsApart ts)
    (pre : Bytes) (ix : List Nat) (addr : Bytes) (h : (ix, addr) ∈ enumerate ts pre) (ex : Bytes) :
    ∃ rel, addr = pre ++ rel ∧ NulFree rel ∧
      (IdxBounded rel → Delivers true ex ix (toPorts ts) rel) := by
  obtain ⟨n, ixr, rel, h1, h2, h3, h4⟩ := delivers_list true ex ts [] pre [] ix addr
    (by simpa [TreeWF] using hwf) (by intro _; simpa using hs) (by simpa [enumerate] using h)
  refine ⟨rel, h2, h3, ?_⟩
  intro hb
  simpa [h1] using h4 hb

/-- a decidable sufficient condition for two rows to be `Apart`: neither text in front of
    the first '#' is a prefix of the other -/
theorem apart_of_headsApart {w v : WName} (h : headsApart w v = true) : Apart w v := apart_of_heads h

/-! ### … by the dispatch model (`dispatchSim`), type part included -/

/-- the type rule `tagsAdmitted` spelled out (C05 `types_exact`): no type part, or the type
    string is one of the alternatives, or it extends the last alternative, which is not empty -/
theorem tagsAdmitted_spec (ty : Option (List Bytes)) (tags : Bytes) :
    tagsAdmitted ty tags = true ↔
      ∀ ts, ty = some ts → tags ∈ ts ∨ ∃ l, ts.getLast? = some l ∧ l ≠ [] ∧ l <+: tags := by
  cases ty with
  | none => simp [tagsAdmitted]
  | some ts =>
    simp only [Option.some.injEq, forall_eq', tagsAdmitted, Bool.or_eq_true, List.contains_iff_mem]
    constructor
    · rintro (h | h)
      · exact Or.inl h
      · cases hl : ts.getLast? with
        | none => simp [hl] at h
        | some l =>
          simp only [hl, Bool.and_eq_true, Bool.not_eq_eq_eq_not, Bool.not_true, List.isEmpty_eq_false_iff] at h
          exact Or.inr ⟨l, rfl, h.1, List.isPrefixOf_iff_prefix.mp h.2⟩
    · rintro (h | ⟨l, hl, h1, h2⟩)
      · exact Or.inl h
      · right
        simp only [hl, Bool.and_eq_true, Bool.not_eq_eq_eq_not, Bool.not_true, List.isEmpty_eq_false_iff]
        exact ⟨h1, List.isPrefixOf_iff_prefix.mpr h2⟩

/-- **walked_address_dispatched** (the dispatch clause against the dispatch model): for every
    well-formed tree with pairwise apart rows (`SiblingsApart`) and no leaf name that is empty in
    front of a type part (`LeavesNamed`), every pair `(port, address)` of `enumerate` and every
    type string: the message `"/" ++ rel` (`rel`: the address behind the table's prefix) with these
    tags and all-zero arguments, as the harness builds it, makes `dispatchSim` return (no read
    leaves the message) with exactly the reported port called — once, and no other leaf callback —
    if the type string is admitted by every port on the index path (`admittedAlong`: the reported
    leaf *and* the sub-tree ports on the way, whose `rtosc_match` sees the same message), and with
    no callback at all otherwise.  (`IdxBounded`: every digit run of the address is below 2^31; it
    does not follow from `TreeWF` and cannot be dropped: `dispatch_needs_idxBounded`; it follows
    from the decidable condition `DigitsShort` on the names: `walked_address_dispatched_short`.) -/
theorem walked_address_dispatched (ts : List STree) (hwf : TreeWF ts) (hn : LeavesNamed ts) (hs : SiblingsApart ts)
    (pre : Bytes) (ix : List Nat) (addr : Bytes) (h : (ix, addr) ∈ enumerate ts pre) (tags : Bytes)
    (ht : NulFree tags) :
    ∃ rel, addr = pre ++ rel ∧ NulFree rel ∧
      (IdxBounded rel →
        dispatchSim (toPorts ts) (47 :: rel) tags = some (if admittedAlong tags ix ts then [ix] else [])) := by
  obtain ⟨rel, h1, h2, h3⟩ := dispatchSim_reported true ts hwf hn (fun _ => hs) pre ix addr h tags ht
  refine ⟨rel, h1, h2, fun hb => ?_⟩
  obtain ⟨l, hl, _, hl2⟩ := h3 hb
  rw [hl, hl2 rfl]

/-- **walked_address_dispatched_among**: without `SiblingsApart` the reported port is still among
    the callbacks `dispatchSim` makes (and `dispatchSim` still returns). -/
theorem walked_address_dispatched_among (ts : List STree) (hwf : TreeWF ts) (hn : LeavesNamed ts)
    (pre : Bytes) (ix : List Nat) (addr : Bytes) (h : (ix, addr) ∈ enumerate ts pre) (tags : Bytes)
    (ht : NulFree tags) (hadm : admittedAlong tags ix ts = true) :
    ∃ rel, addr = pre ++ rel ∧ NulFree rel ∧
      (IdxBounded rel → ∃ l, dispatchSim (toPorts ts) (47 :: rel) tags = some l ∧ ix ∈ l) := by
  obtain ⟨rel, h1, h2, h3⟩ := dispatchSim_reported false ts hwf hn (by intro h; cases h) pre ix addr h tags ht
  refine ⟨rel, h1, h2, fun hb => ?_⟩
  obtain ⟨l, hl, hl1, _⟩ := h3 hb
  exact ⟨l, hl, hl1 hadm⟩

/-- **walked_address_reaches_port**: in a tree whose sub-tree ports declare no argument types
    (`SubsUntyped`: what `rRecur*` generate) the index path of a reported pair ends at a leaf `w`,
    and a message to the reported address is delivered to exactly that port if its type string is
    admitted by `w`'s own type part (none declared: any type string), to no port otherwise. -/
theorem walked_address_reaches_port (ts : List STree) (hwf : TreeWF ts) (hn : LeavesNamed ts) (hs : SiblingsApart ts)
    (hu : SubsUntyped ts) (pre : Bytes) (ix : List Nat) (addr : Bytes) (h : (ix, addr) ∈ enumerate ts pre) :
    ∃ rel w, addr = pre ++ rel ∧ NulFree rel ∧ leafAt ix ts = some w ∧
      (IdxBounded rel → ∀ tags, NulFree tags →
        dispatchSim (toPorts ts) (47 :: rel) tags = some (if tagsAdmitted w.types tags then [ix] else [])) := by
  obtain ⟨w, hw, _⟩ := dispatchSim_reported_leaf ts hu pre ix addr h []
  obtain ⟨rel, h1, h2, _⟩ := walked_address_dispatched ts hwf hn hs pre ix addr h [] (fun _ h => by simp at h)
  refine ⟨rel, w, h1, h2, hw, ?_⟩
  intro hb tags ht
  obtain ⟨rel', h1', _, h3'⟩ := walked_address_dispatched ts hwf hn hs pre ix addr h tags ht
  have : rel' = rel := List.append_cancel_left (h1'.symm.trans h1)
  subst this
  obtain ⟨w', hw', hadm⟩ := dispatchSim_reported_leaf ts hu pre ix addr h tags
  rw [hw] at hw'
  cases hw'
  rw [h3' hb, hadm]

/-- **reported_idxBounded** (`IdxBounded` from a condition on the names): if in every name of the
    tree a digit run of literal text, together with the digits of a `#N` that follows it, is at
    most nine characters long (`DigitsShort`, decidable), every digit run of every reported address
    is below 2^31. -/
theorem reported_idxBounded (ts : List STree) (hwf : TreeWF ts) (hd : DigitsShort ts) (pre : Bytes)
    (ix : List Nat) (addr : Bytes) (h : (ix, addr) ∈ enumerate ts pre) :
    ∃ rel, addr = pre ++ rel ∧ IdxBounded rel :=
  reported_idxBounded_aux ts hwf hd pre ix addr h

/-- **walked_address_dispatched_short**: `walked_address_dispatched` with the hypothesis on the
    reported address replaced by `DigitsShort` on the tree. -/
theorem walked_address_dispatched_short (ts : List STree) (hwf : TreeWF ts) (hn : LeavesNamed ts)
    (hs : SiblingsApart ts) (hd : DigitsShort ts)
    (pre : Bytes) (ix : List Nat) (addr : Bytes) (h : (ix, addr) ∈ enumerate ts pre) (tags : Bytes)
    (ht : NulFree tags) :
    ∃ rel, addr = pre ++ rel ∧
      dispatchSim (toPorts ts) (47 :: rel) tags = some (if admittedAlong tags ix ts then [ix] else []) := by
  obtain ⟨rel, h1, _, h3⟩ := walked_address_dispatched ts hwf hn hs pre ix addr h tags ht
  obtain ⟨rel', h1', hb⟩ := reported_idxBounded ts hwf hd pre ix addr h
  have : rel' = rel := List.append_cancel_left (h1'.symm.trans h1)
  subst this
  exact ⟨rel', h1, h3 hb⟩

/-- a decidable sufficient condition for `SiblingsApart`: `headsApart` for every two rows of every
    table -/
theorem siblingsApart_of_headsApart {ts : List STree} (h : HeadsApart ts) : SiblingsApart ts :=
  headsApart_siblingsApart h

/-- `a/` → { `:i` } -/
def emptyLeafTree : List STree := [.sub ⟨[97], [], true, none⟩ none [.leaf ⟨[], [], false, some [[105]]⟩ none]]

/-- **dispatch_empty_leaf_counterexample** (why `LeavesNamed`): a leaf whose whole name is a type
    part (`:i`) below `a/` is reported under "/a/"; the message "/a/" ",i" is admitted along the
    path, but when `rtosc_match` reaches the leaf nothing is left of the address and
    `rtosc_argument_string` — which skips the first byte unseen — takes ",i" for the address and
    runs through the arguments: the matcher leaves the message (`none`). -/
theorem dispatch_empty_leaf_counterexample :
    TreeWF emptyLeafTree ∧ HeadsApart emptyLeafTree ∧ ¬ LeavesNamed emptyLeafTree ∧
    ([0, 0], [47, 97, 47]) ∈ enumerate emptyLeafTree [47] ∧ IdxBounded [97, 47] ∧
    admittedAlong [105] [0, 0] emptyLeafTree = true ∧
    dispatchSim (toPorts emptyLeafTree) [47, 97, 47] [105] = none := by
  refine ⟨by decide, by decide, by decide, by decide, idxBounded_of_check (by decide), by decide, by decide⟩

/-- `a#3`, `a4294967297` -/
def wrapTree : List STree :=
  [.leaf ⟨[97], [([51], [])], false, none⟩ none, .leaf ⟨[97, 52, 50, 57, 52, 57, 54, 55, 50, 57, 55], [], false, none⟩ none]

theorem wrapTree_apart : SiblingsApart wrapTree := by
  have hap : Apart ⟨[97], [([51], [])], false, none⟩ ⟨[97, 52, 50, 57, 52, 57, 54, 55, 50, 57, 55], [], false, none⟩ := by
    rintro a ⟨⟨r1, h1, e1⟩, ⟨r2, h2, e2⟩⟩
    simp only [WName.toPat, litSeg, partSegs, List.isEmpty_cons, List.isEmpty_nil, Bool.false_eq_true, ↓reduceIte,
      List.append_nil, List.singleton_append] at h1 h2 e1 e2
    subst e1 e2
    cases h2 with
    | lit s h2' =>
      cases h2'
      generalize hA : ([97, 52, 50, 57, 52, 57, 54, 55, 50, 57, 55] ++ [] : Bytes) = A at h1
      cases h1 with
      | lit s h1' =>
        cases h1' with
        | enum ds idx _ _ _ hlt h1'' =>
          cases h1''
          simp only [List.append_nil, List.cons_append, List.nil_append, List.cons.injEq, true_and] at hA
          subst hA
          revert hlt
          decide
  unfold SiblingsApart
  refine ⟨?_, by simp [wrapTree, kidsApart]⟩
  intro i j t u hij hi hj
  have hi2 : i < 2 := by
    have := (List.getElem?_eq_some_iff.mp hi).1; simpa [wrapTree] using this
  have hj2 : j < 2 := by
    have := (List.getElem?_eq_some_iff.mp hj).1; simpa [wrapTree] using this
  have hcases : (i = 0 ∧ j = 1) ∨ (i = 1 ∧ j = 0) := by omega
  rcases hcases with ⟨rfl, rfl⟩ | ⟨rfl, rfl⟩
  · simp [wrapTree] at hi hj; subst hi hj; exact hap
  · simp [wrapTree] at hi hj; subst hi hj
    intro a ⟨h1, h2⟩; exact hap a ⟨h2, h1⟩

/-- **dispatch_needs_idxBounded** (why `IdxBounded`, and why it does not follow from `TreeWF`):
    literal text of a name may hold a digit run of any length.  The rows `a#3` and `a4294967297`
    answer to no common address (`SiblingsApart`), the walk reports "/a4294967297" for the second —
    and `rtosc_match_number` reads 4294967297 = 2^32 + 1 as the index 1 (`atoi`, then truncation to
    32 bits), so the first row's callback is invoked too. -/
theorem dispatch_needs_idxBounded :
    TreeWF wrapTree ∧ LeavesNamed wrapTree ∧ SiblingsApart wrapTree ∧
    ([1], [47, 97, 52, 50, 57, 52, 57, 54, 55, 50, 57, 55]) ∈ enumerate wrapTree [47] ∧
    ¬ IdxBounded [97, 52, 50, 57, 52, 57, 54, 55, 50, 57, 55] ∧
    dispatchSim (toPorts wrapTree) [47, 97, 52, 50, 57, 52, 57, 54, 55, 50, 57, 55] [] = some [[0], [1]] := by
  refine ⟨by decide, by decide, wrapTree_apart, by decide, ?_, by decide⟩
  intro h
  have := h [97] [52, 50, 57, 52, 57, 54, 55, 50, 57, 55] [] (by simp) (by decide)
  revert this
  decide

/-- `wrapTree` is what `DigitsShort` excludes -/
example : ¬ DigitsShort wrapTree := by decide

/-! ## Clause 4: pruning by the runtime object -/

/-- The clause as the statement reads, on the abstract runtime: a walk with a runtime object
    reports exactly `prunedFull` — `enumerate` without the sub-trees whose object pointer is
    NULL or whose "enabled by" port answers false (an enabling port that lives inside the
    table it disables is still reported, as ports.cpp documents).
    Quantified over: well-formed trees without a leaf name with several '#' (finding C09-K1);
    table addresses "/" or "/c1/…/cn/" with ordinary components (`PathPrefix`: `collapsePath`
    is applied to them); buffers with room for the longest address; addresses of at most 1014
    characters (`SCRATCH`: `walk_ports_recurse` copies them into `char[1024]`); runtime
    objects and guards for which `port_is_enabled` is defined (`GuardsOK`: metadata readable,
    sub-tree names of one path component, every "enabled by" names a row of the table that
    contains the guarded port or — `name/port`, name without '#' — of the guarded sub-tree's own
    table, and the object says what that port answers and which child object every sub-tree
    port has). -/
def walk_prunes_statement : Prop :=
  ∀ (ts : List STree) (obj : Obj) (pre J : Buf), TreeWF ts → multiHashLeafList ts = false →
    PathPrefix pre → needList ts ≤ J.length → pre.length + needList ts + 10 ≤ SCRATCH → GuardsOK ts obj →
    ∃ b', walkPorts {} (toPorts ts) (some obj) (pre ++ 0 :: J) = .ok (prunedFull pre [] (toPorts ts) ts (some obj), b') ∧
      cstrAt b' 0 = .ok pre ∧ b'.length = (pre ++ 0 :: J).length

/-- **walk_prunes**: the pruning clause, for NULL pointers and toggles (T / F / integer answers)
    at every depth; the buffer is restored as in the static walk. -/
theorem walk_prunes : walk_prunes_statement := by
  intro ts obj pre J hwf hmh hpre hcap hlen hg
  obtain ⟨cs, hcs, rfl⟩ := hpre
  obtain ⟨J', h, l⟩ := walkPorts_full ts obj cs J hwf hmh hg hcs hcap hlen
  exact ⟨_, h, cstrAt_zero _ J' (prefix_nulfree hcs), by simp [l]⟩

/-- **walk_prunes_partial** (NULL pointers, whole tree, any prefix and any sub-tree names, K1 leaves
    included): for every well-formed tree none of
    whose ports carries an "enabled by" property (`NoGuards`), every runtime object that
    defines the child object of every sub-tree port it is asked for (`RuntimeDefined`), the
    walk reports exactly `prunedList`: a sub-tree whose object pointer is NULL is skipped,
    every other sub-tree is visited with its own child object — at every depth. -/
theorem walk_prunes_partial (ts : List STree) (rt : Option Obj) (pre J : Buf) (hwf : TreeWF ts)
    (hng : NoGuards ts = true) (hpre : PrefixOk pre) (hcap : needList ts ≤ J.length)
    (hlen : pre.length + needList ts + 10 ≤ SCRATCH) (hdef : RuntimeDefined ts rt) :
    ∃ J', walkPorts {} (toPorts ts) rt (pre ++ 0 :: J) = .ok (prunedList pre [] rt ts 0, pre ++ 0 :: J') ∧
      J'.length = J.length :=
  walkPorts_pruned ts rt pre J hwf hng hpre hcap hlen hdef

/-- **walk_prunes_gate** (one level): what `walk_ports_recurse` decides for a sub-tree
    port once its address (`loc`, short enough for the scratch buffer) is in the buffer — NULL
    child object: skipped without a call;
    child object present and the "enabled by" test false: skipped (with the calls that test
    made); otherwise: the sub-table is walked with the child object. -/
theorem walk_prunes_gate (p : PortT) (i : Nat) (b : Buf) (base : List PortT) (path : List Nat)
    (obj : Obj) (oldEnd : Nat) (loc relAddr : Bytes) (hloc : cstrAt b 0 = .ok loc) (hfit : loc.length + 10 ≤ SCRATCH)
    (hrel : cstrAt b oldEnd = .ok relAddr) :
    (obj.kid relAddr = some none → recurseGate p i b base path (some obj) oldEnd = .ok (none, [])) ∧
    (∀ child cs, obj.kid relAddr = some (some child) →
        portIsEnabled (some (i, p)) b base path (some obj) true (some child) = .ok (false, cs) →
        recurseGate p i b base path (some obj) oldEnd = .ok (none, cs)) ∧
    (∀ child cs, obj.kid relAddr = some (some child) →
        portIsEnabled (some (i, p)) b base path (some obj) true (some child) = .ok (true, cs) →
        recurseGate p i b base path (some obj) oldEnd = .ok (some (some child), cs)) := by
  have hf : ¬ (loc.length + 10 > SCRATCH) := by omega
  refine ⟨?_, ?_, ?_⟩
  · intro h; simp [recurseGate, hloc, hf, hrel, h]
  · intro child cs h1 h2; simp [recurseGate, hloc, hf, hrel, h1, h2]
  · intro child cs h1 h2; simp [recurseGate, hloc, hf, hrel, h1, h2]

/-- an address that does not fit the scratch buffer of `walk_ports_recurse` (more than 1014
    characters) makes the walk with a runtime object leave that buffer -/
theorem walk_scratch_limit (p : PortT) (i : Nat) (b : Buf) (base : List PortT) (path : List Nat)
    (obj : Obj) (oldEnd : Nat) (loc : Bytes) (hloc : cstrAt b 0 = .ok loc) (hbig : 1014 < loc.length) :
    recurseGate p i b base path (some obj) oldEnd = .error .oob := by
  have hf : loc.length + 10 > SCRATCH := by simp only [SCRATCH]; omega
  simp [recurseGate, hloc, hf]

/-- **walk_prunes_toggle**: the "enabled by" test of a port whose metadata names a toggle of
    the same table (`ask`, row `k`; not a sub-port of the port itself) answers what that toggle
    answers on the table's runtime object; the only call it makes is for a disabling toggle of
    the table's own `self:` port (`rel = false`), reported under the collapsed address. -/
theorem walk_prunes_toggle (i : Nat) (p : PortT) (b : Buf) (base : List PortT) (path : List Nat)
    (obj : Obj) (rel : Bool) (portRt : Option Obj) (mptr : Meta.Ptr) (ep loc collapsed : Bytes) (off k : Nat)
    (ask : PortT) (v : Bool)
    (hm : Meta.portMeta p.metadata = some mptr) (hl : Meta.lookup mptr ENABLED_BY = some (some ep))
    (hsub : (subportScan p.name ep).1 = false) (hk : index base ep = some k) (hask : base[k]? = some ask)
    (hloc : cstrAt b 0 = .ok loc)
    (hcol : collapseStr (loc ++ (if rel then DOTDOTSLASH else []) ++ ep ++ [0]) = some (off, collapsed))
    (hv : obj.toggle (lit ask.name) = some v) :
    portIsEnabled (some (i, p)) b base path (some obj) rel portRt =
      .ok (v, if !v && !rel then [(path ++ [k], collapsed)] else []) := by
  have hs : subportScan p.name ep = (false, (subportScan p.name ep).2) := by
    rw [← hsub]
  simp only [portIsEnabled, hm, hl]
  rw [hs]
  simp only [Bool.false_eq_true, ↓reduceIte, hk, hask, hloc, hcol, hv, Bool.false_or]
  cases v <;> cases rel <;> simp

/-- **walk_prunes_subport_toggle**: when the metadata of a sub-tree port names a toggle *inside*
    the sub-tree (`name/toggle`; `ask` is row `k` of the sub-table), the toggle is asked on the
    sub-tree's own object `child` — the unrepaired code asked the parent's object
    (fixes/C09-enabled-subport-runtime.patch) —, and a toggle that answers false is itself
    still reported. -/
theorem walk_prunes_subport_toggle (i : Nat) (p : PortT) (b : Buf) (base : List PortT) (path : List Nat)
    (obj child : Obj) (mptr : Meta.Ptr) (ep e loc collapsed : Bytes) (off j k : Nat) (q ask : PortT) (v : Bool)
    (hm : Meta.portMeta p.metadata = some mptr) (hl : Meta.lookup mptr ENABLED_BY = some (some ep))
    (hsub : subportScan p.name ep = (true, e)) (hj : index base p.name = some j) (hq : base[j]? = some q)
    (hqp : q.hasPorts = true) (hk : index q.children (e.drop 1) = some k) (hask : q.children[k]? = some ask)
    (hloc : cstrAt b 0 = .ok loc)
    (hcol : collapseStr (loc ++ DOTDOTSLASH ++ ep ++ [0]) = some (off, collapsed))
    (hv : child.toggle (lit ask.name) = some v) :
    portIsEnabled (some (i, p)) b base path (some obj) true (some child) =
      .ok (v, if !v then [(path ++ [j] ++ [k], collapsed)] else []) := by
  simp only [portIsEnabled, hm, hl, hsub, ↓reduceIte, hj, hq, hqp, hk, hask, hloc, hcol, Option.getD_some, hv,
    Bool.true_or]
  cases v <;> simp

/-! ## Remarks outside the statement (recorded, not alarms) -/

/-- The buffer need is exact: with one byte less the walk leaves the buffer
    (tree `a#2/ → x#12`, prefix "/": the longest address "/a0/x11" has 7 characters). -/
theorem walk_needs_room :
    needList [.sub ⟨[97], [([50], [])], true, none⟩ none [.leaf ⟨[120], [([49, 50], [])], false, none⟩ none]] = 6 ∧
    (walkPorts {} (toPorts [.sub ⟨[97], [([50], [])], true, none⟩ none [.leaf ⟨[120], [([49, 50], [])], false, none⟩ none]])
      none ([47] ++ 0 :: List.replicate 6 0)).toOption.map (·.1.length) = some 24 ∧
    isOob (walkPorts {} (toPorts [.sub ⟨[97], [([50], [])], true, none⟩ none [.leaf ⟨[120], [([49, 50], [])], false, none⟩ none]])
      none ([47] ++ 0 :: List.replicate 5 0)) = true := by
  refine ⟨by decide, by decide, by decide⟩

/-- An empty buffer must be followed by a second NUL: `walk_ports` writes the root '/'
    without a terminator (ports.h: "must be reset to zero over the full length").  With
    "\0zz" the walk runs off the block. -/
theorem empty_buffer_needs_zero :
    isOob (walkPorts {} (toPorts [.leaf ⟨[120], [], false, none⟩ none]) none [0, 122, 122]) = true := by
  decide

/-- A sub-tree name that begins with '#' is outside `TreeWF`: the search for the next '#'
    starts at the second character, so `#2/` is copied literally. -/
theorem leading_hash_literal :
    (walkPorts {} [.mk [35, 50, 47] none true [.mk [120] none false []]] none ([47] ++ List.replicate 8 0)).toOption.map (·.1)
      = some [([0, 0], [47, 35, 50, 47, 120])] := by
  decide

/-! ## Non-vacuity -/

/-- `a#3/b#2/c/` → { `x#2y:i`, `e/f/` },  `z#2`,  `k#2b/:i` → { `w` } -/
def exTree : List STree :=
  [.sub ⟨[97], [([51], [47, 98]), ([50], [47, 99])], true, none⟩ none
      [.leaf ⟨[120], [([50], [121])], false, some [[105]]⟩ none, .leaf ⟨[101, 47, 102], [], true, none⟩ none],
   .leaf ⟨[122], [([50], [])], false, none⟩ none,
   .sub ⟨[107], [([50], [98])], true, some [[105]]⟩ none [.leaf ⟨[119], [], false, none⟩ none]]

example : TreeWF exTree := by decide
example : multiHashLeafList exTree = false := by decide
example : (toPorts exTree).map (·.name) =
    [[97, 35, 51, 47, 98, 35, 50, 47, 99, 47], [122, 35, 50], [107, 35, 50, 98, 47, 58, 105]] := by decide
example : needList exTree = 12 := by decide
example : PrefixOk [47] := ⟨by simp, by intro c hc; simp at hc; subst hc; decide⟩
example : (enumerate exTree [47]).length = 22 := by decide
example : countList exTree = 22 := by decide
/-- "/a2/b1/c/x1y" is reported for the port with index path 0.0 -/
example : ([0, 0], [47, 97, 50, 47, 98, 49, 47, 99, 47, 120, 49, 121]) ∈ enumerate exTree [47] := by decide
example : IdxBounded [97, 50, 47, 98, 49, 47, 99, 47, 120, 49, 121] := idxBounded_of_check (by decide)
/-- the model on this tree, in a buffer of exactly the needed size with junk behind the terminator -/
example : (walkPorts {} (toPorts exTree) none ([47] ++ 0 :: List.replicate 12 0x55)).toOption.map (·.1)
    = some (enumerate exTree [47]) := by decide
/-- the rows of `exTree` are pairwise apart by the decidable criterion -/
example : headsApart ⟨[97], [([51], [47, 98]), ([50], [47, 99])], true, none⟩ ⟨[122], [([50], [])], false, none⟩ = true := by
  decide

/-- dispatch of "/a2/b1/c/x1y" (port 0.0, `x#2y:i` below `a#3/b#2/c/`): with the tag `i` exactly that
    port, without it no port -/
example : LeavesNamed exTree := by decide
example : HeadsApart exTree := by decide
example : DigitsShort exTree := by decide
example : admittedAlong [105] [0, 0] exTree = true := by decide
example : dispatchSim (toPorts exTree) [47, 97, 50, 47, 98, 49, 47, 99, 47, 120, 49, 121] [105] = some [[0, 0]] := by
  decide
example : admittedAlong [] [0, 0] exTree = false := by decide
example : dispatchSim (toPorts exTree) [47, 97, 50, 47, 98, 49, 47, 99, 47, 120, 49, 121] [] = some [] := by decide
/-- `k#2b/:i` is a typed sub-tree port: "/k1b/w" reaches `w` only with the tag `i` -/
example : typesAlong [2, 0] exTree = [some [[105]], none] := by decide
example : dispatchSim (toPorts exTree) [47, 107, 49, 98, 47, 119] [105] = some [[2, 0]] := by decide
example : dispatchSim (toPorts exTree) [47, 107, 49, 98, 47, 119] [] = some [] := by decide

/-- a runtime for `exTree` in which `a1/b0/c/` is NULL and `k0b/` is NULL -/
def exObj : Obj :=
  .mk [] [([97, 48, 47, 98, 48, 47, 99, 47], some (.mk [] [])), ([97, 48, 47, 98, 49, 47, 99, 47], some (.mk [] [])),
          ([97, 49, 47, 98, 48, 47, 99, 47], none), ([97, 49, 47, 98, 49, 47, 99, 47], some (.mk [] [])),
          ([97, 50, 47, 98, 48, 47, 99, 47], some (.mk [] [])), ([97, 50, 47, 98, 49, 47, 99, 47], some (.mk [] [])),
          ([107, 48, 98, 47], none), ([107, 49, 98, 47], some (.mk [] []))]

example : NoGuards exTree = true := by decide
example : RuntimeDefined exTree (some exObj) := by decide
example : (prunedList [47] [] (some exObj) exTree 0).length = 18 := by decide

/-- a guarded tree: `self:` (enabled by `on`), `on::T:F`, `a_on::T:F`, `en::i`,
    `a/` (enabled by `a_on`) → { `self:` (enabled by `t`), `t::T:F`, `v::i` },
    `x/` (enabled by `x/t`) → { `t::T:F`, `w` },  `s#2/` (enabled by `en`) → { `y` } -/
def gTree : List STree :=
  [.leaf ⟨[115, 101, 108, 102], [], false, (some [[]])⟩ (some [58, 101, 110, 97, 98, 108, 101, 100, 32, 98, 121, 0, 61, 111, 110, 0, 0]),
   .leaf ⟨[111, 110], [], false, (some [[], [84], [70]])⟩ none,
   .leaf ⟨[97, 95, 111, 110], [], false, (some [[], [84], [70]])⟩ none,
   .leaf ⟨[101, 110], [], false, (some [[], [105]])⟩ none,
   .sub ⟨[97], [], true, none⟩ (some [58, 101, 110, 97, 98, 108, 101, 100, 32, 98, 121, 0, 61, 97, 95, 111, 110, 0, 0])
      [.leaf ⟨[115, 101, 108, 102], [], false, (some [[]])⟩ (some [58, 101, 110, 97, 98, 108, 101, 100, 32, 98, 121, 0, 61, 116, 0, 0]), .leaf ⟨[116], [], false, (some [[], [84], [70]])⟩ none, .leaf ⟨[118], [], false, (some [[], [105]])⟩ none],
   .sub ⟨[120], [], true, none⟩ (some [58, 101, 110, 97, 98, 108, 101, 100, 32, 98, 121, 0, 61, 120, 47, 116, 0, 0])
      [.leaf ⟨[116], [], false, (some [[], [84], [70]])⟩ none, .leaf ⟨[119], [], false, none⟩ none],
   .sub ⟨[115], [([50], [])], true, none⟩ (some [58, 101, 110, 97, 98, 108, 101, 100, 32, 98, 121, 0, 61, 101, 110, 0, 0])
      [.leaf ⟨[121], [], false, none⟩ none]]

/-- `on` = T, `a_on` = T, `en` = 256; `a/` switches itself off (`t` = F), `x/` is switched off by
    its own `t` = F, `s0/` is NULL, `s1/` is there -/
def gObj : Obj :=
  .mk [([111, 110], .T), ([97, 95, 111, 110], .T), ([101, 110], .i 256)] [([97, 47], some (.mk [([116], .F)] [])), ([120, 47], some (.mk [([116], .F)] [])), ([115, 48, 47], none), ([115, 49, 47], some (.mk [] []))]

example : TreeWF gTree := by decide
example : multiHashLeafList gTree = false := by decide
example : GuardsOK gTree gObj := by decide
example : PathPrefix [47, 122, 122, 47] := ⟨[[122, 122]], by
  intro c hc; simp at hc; subst hc; exact compOk_of_B (by decide), by decide⟩
/-- reported: /zz/self /zz/on /zz/a_on /zz/en, the toggle /zz/a/t of the table that switches
    itself off, the toggle /zz/x/t that switches x/ off, /zz/s1/y (the integer 256 enables) -/
example : prunedFull [47, 122, 122, 47] [] (toPorts gTree) gTree (some gObj) =
    [([0], [47, 122, 122, 47, 115, 101, 108, 102]), ([1], [47, 122, 122, 47, 111, 110]),
     ([2], [47, 122, 122, 47, 97, 95, 111, 110]), ([3], [47, 122, 122, 47, 101, 110]),
     ([4, 1], [47, 122, 122, 47, 97, 47, 116]), ([5, 0], [47, 122, 122, 47, 120, 47, 116]),
     ([6, 0], [47, 122, 122, 47, 115, 49, 47, 121])] := by decide
/-- … and the model reports just that -/
example : (walkPorts {} (toPorts gTree) (some gObj) ([47, 122, 122, 47] ++ 0 :: List.replicate 12 0x55)).toOption.map (·.1)
    = some (prunedFull [47, 122, 122, 47] [] (toPorts gTree) gTree (some gObj)) := by decide

end Rtosc.Walk
