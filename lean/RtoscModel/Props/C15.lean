/-
  C15 — Undo history rewinds and replays recorded changes exactly.
  Property theorems only; definitions are in RtoscModel/Undo.lean (model of
  src/cpp/undo-history.cpp with fixes/C15-merge-scan.patch) and RtoscModel/UndoSpec.lean
  (vocabulary of the statement); helper lemmas in Proofs/UndoLemmas.lean.

  Reading of the statement.  A history is a list of events, oldest first, and a cursor
  `pos`; `applied s` are the events before the cursor, `undone s` those after it.  All
  theorems hold for every state with `WF s` (cursor inside the history) — which is every
  state reachable through the public interface (`reachable_wf`) — and for histories of any
  length.  "Sets its address to the old value" is the message `undoMsg e`; the code can only
  build it when it fits its 256-byte buffer (`AddrsFit`: addresses shorter than 248 bytes).
  The constants 20 and 2 are `Generated.maxHistory` / `Generated.mergeWindow`, regenerated
  from the source on every run; `cap_retained` and `merge_within_window` pin them to the
  numbers of the statement.
-/
import RtoscModel.Proofs.UndoLemmas
namespace Rtosc.Undo
open Rtosc

/-- Every state reachable from a fresh `UndoHistory` by `recordEvent`/`seekHistory` has its
    cursor inside the history (so no theorem below is vacuous on real runs, and the model's
    `none` = out-of-range deque access never occurs). -/
theorem reachable_wf (s : State) (h : Reachable s) : WF s := (reachable_wf_size s h).1

/-- **seek_back_emits** — "seeking back k steps emits, newest first, one message per event
    that sets its address to the event's old value" (and leaves the events untouched, cursor
    `k` lower; `k` larger than the cursor: see `seek_clamped`). -/
theorem seek_back_emits (s : State) (hw : WF s) (hf : AddrsFit s) (k : Nat) :
    seekHistory s (-(k : Int)) =
      some (⟨s.hist, s.pos - k⟩, ((applied s).reverse.take k).map (fun x => undoMsg x.2)) := by
  rw [seek_neg s hw k, map_rewind_fit]
  · rfl
  · intro x hx
    exact hf x (List.mem_of_mem_take (List.mem_reverse.mp (List.mem_of_mem_take hx)))

/-- **seek_fwd_emits** — "seeking forward replays the new values oldest first". -/
theorem seek_fwd_emits (s : State) (hw : WF s) (hf : AddrsFit s) (k : Nat) :
    seekHistory s (k : Int) =
      some (⟨s.hist, min (s.pos + k) s.hist.length⟩,
            ((undone s).take k).map (fun x => redoMsg x.2)) := by
  rw [seek_pos s hw k, flatMap_replay_fit]
  · rfl
  · intro x hx
    exact hf x (List.mem_of_mem_drop (List.mem_of_mem_take hx))

/-- **seek_clamped** — "seeks beyond either end stop at the end": for every distance the
    seek succeeds, keeps the events, ends at the clamped position and emits exactly one
    message per step actually taken. -/
theorem seek_clamped (s : State) (hw : WF s) (hf : AddrsFit s) (d : Int) :
    ∃ s' ms, seekHistory s d = some (s', ms) ∧ s'.hist = s.hist ∧
      (s'.pos : Int) = clampPos s d ∧ (ms.length : Int) = ((s'.pos : Int) - (s.pos : Int)).natAbs := by
  have hw' : s.pos ≤ s.hist.length := hw
  rcases Int.eq_nat_or_neg d with ⟨k, rfl | rfl⟩
  · refine ⟨_, _, seek_fwd_emits s hw hf k, rfl, ?_, ?_⟩
    · simp only [clampPos]; omega
    · simp only [undone, List.length_map, List.length_take, List.length_drop]; omega
  · refine ⟨_, _, seek_back_emits s hw hf k, rfl, ?_, ?_⟩
    · simp only [clampPos]; omega
    · simp only [applied, List.length_map, List.length_take, List.length_reverse]; omega

/-- **record_truncates_redo** — "recording after an undo discards the undone tail": the
    result does not depend on the undone events, and afterwards nothing is left to redo. -/
theorem record_truncates_redo (now : Int) (ev : Event) (s : State) (hw : WF s) :
    recordEvent now ev s = recordEvent now ev ⟨applied s, s.pos⟩ ∧
    undone (recordEvent now ev s) = [] ∧
    ∀ k : Nat, seekHistory (recordEvent now ev s) (k : Int) = some (recordEvent now ev s, []) := by
  have hlen : (s.hist.take s.pos).length = s.pos := take_len hw
  have hw2 : WF ⟨applied s, s.pos⟩ := by simp [WF, applied, hlen]
  have hps := record_pos_size now ev s hw
  have hu : undone (recordEvent now ev s) = [] := by
    unfold undone; rw [hps]; exact List.drop_length
  refine ⟨?_, hu, ?_⟩
  · rw [recordEvent_eq now ev s hw, recordEvent_eq now ev _ hw2]
    simp only [applied, List.take_take, Nat.min_self]
  · intro k
    rw [seek_pos _ (wf_record now ev s hw) k]
    unfold undone at hu
    rw [hu, hps]
    generalize recordEvent now ev s = r at hps
    obtain ⟨rh, rp⟩ := r
    simp only at hps
    subst hps
    simp

/-- The merge window of the statement: two seconds. -/
theorem window_is_two : Generated.mergeWindow = 2 := by decide

/-- The size of the library's set-message buffer (`static char tmp[N]` and the length handed
    to `rtosc_amessage` in `rewind`/`replay`), regenerated from the source on every run, is
    256: the domain `AddrsFit` of the theorems cannot shrink (or move) without this theorem
    failing. -/
theorem tmpSize_is_256 : Generated.tmpSize = 256 := by decide

/-- The domain hypothesis `AddrsFit` / `OpsFit` in plain words: an address yields a
    set-message that fits the buffer iff it is shorter than 248 bytes (the bound used by the
    generator, the harness and the reference oracle of the check). -/
theorem fits_iff_short (a : Bytes) : fits a = true ↔ a.length < 248 := by
  simp only [fits, setMsgLen, pad4, tmpSize_is_256, decide_eq_true_eq]
  omega

/-- **merge_within_window** — "events for the same address recorded within two seconds merge
    into one (first old value, last new value)": if the most recent applied event for the
    address (`e`, recorded or last extended at `t`; nothing for that address after it) is at
    most two seconds old, the history keeps its length and that event becomes
    `addr: e.old → ev.new`, stamped `now`; all other events are untouched. -/
theorem merge_within_window (now : Int) (ev : Event) (s : State) (hw : WF s)
    (pre post : List Entry) (t : Int) (e : Event)
    (hd : applied s = pre ++ (t, e) :: post) (he : e.addr = ev.addr)
    (hpost : ∀ x ∈ post, x.2.addr ≠ ev.addr) (hwin : now - t ≤ 2) :
    recordEvent now ev s =
      ⟨pre ++ (now, ⟨ev.addr, ev.tag, e.old, ev.new⟩) :: post, s.pos⟩ :=
  record_merge now ev s hw pre post t e hd he hpost (by rw [window_is_two]; exact hwin)

/-- **append_outside_window** — the converse: with no applied event for the address, or
    the most recent one older than two seconds, the event is appended as a new entry (and
    the oldest entry dropped when that exceeds the cap). -/
theorem append_outside_window (now : Int) (ev : Event) (s : State) (hw : WF s)
    (hno : (∀ x ∈ applied s, x.2.addr ≠ ev.addr) ∨
           ∃ pre post t e, applied s = pre ++ (t, e) :: post ∧ e.addr = ev.addr ∧
             (∀ x ∈ post, x.2.addr ≠ ev.addr) ∧ now - t > 2) :
    recordEvent now ev s =
      if s.pos + 1 > 20
      then ⟨(applied s ++ [(now, ev)]).drop 1, s.pos⟩
      else ⟨applied s ++ [(now, ev)], s.pos + 1⟩ :=
  record_append now ev s hw hno

/-- `merge_within_window` and `append_outside_window` cover every case: either no applied
    event has the address, or there is a most recent one (whose age is either ≤ 2 or > 2). -/
theorem merge_or_append_exhaustive (l : List Entry) (a : Bytes) :
    (∀ x ∈ l, x.2.addr ≠ a) ∨
    ∃ pre post t e, l = pre ++ (t, e) :: post ∧ e.addr = a ∧ ∀ x ∈ post, x.2.addr ≠ a := by
  induction l with
  | nil => left; simp
  | cons y l ih =>
    rcases ih with h | ⟨pre, post, t, e, hl, he, hp⟩
    · by_cases hy : y.2.addr = a
      · right; exact ⟨[], l, y.1, y.2, by simp, hy, h⟩
      · left; intro x hx
        rcases List.mem_cons.mp hx with rfl | hx
        · exact hy
        · exact h x hx
    · right; exact ⟨y :: pre, post, t, e, by simp [hl], he, hp⟩

/-- **cap_retained** — "only the 20 most recent events are retained": the constant is 20,
    no reachable history is longer, and appending to a full history drops exactly the
    oldest event. -/
theorem cap_retained :
    Generated.maxHistory = 20 ∧
    (∀ s, Reachable s → size s ≤ 20) ∧
    (∀ (now : Int) (ev : Event) (s : State), s.pos = 20 → s.hist.length = 20 →
       (∀ x ∈ s.hist, x.2.addr ≠ ev.addr) →
       recordEvent now ev s = ⟨s.hist.drop 1 ++ [(now, ev)], 20⟩) := by
  refine ⟨by decide, fun s h => (reachable_wf_size s h).2, ?_⟩
  intro now ev s hp hl hno
  have hw : WF s := by unfold WF; omega
  have ht : s.hist.take s.pos = s.hist := by rw [hp, ← hl]; exact List.take_length
  rw [record_append now ev s hw (Or.inl (by rw [ht]; exact hno)), ht, hp]
  have h20 : Generated.maxHistory = 20 := by decide
  simp [h20, List.drop_append_of_le_length (show 1 ≤ s.hist.length by omega)]

/-- **undo_all_restores** — "undoing everything retained returns every touched parameter to
    the value it had before its oldest retained change": after a seek back by at least the
    cursor, dispatching the emitted messages into any store leaves each address that has an
    applied event at the old value of its *oldest* applied event, and every other address
    as it was. -/
theorem undo_all_restores (s : State) (hw : WF s) (hf : AddrsFit s) (d : Int)
    (hd : d ≤ -(s.pos : Int)) :
    ∃ ms, seekHistory s d = some (⟨s.hist, 0⟩, ms) ∧
      ∀ (σ : Store) (a : Bytes), applyEmits σ ms a =
        match oldestFor (applied s) a with
        | some x => x.2.old
        | none => σ a := by
  obtain ⟨k, rfl⟩ : ∃ k : Nat, d = -(k : Int) := ⟨d.natAbs, by omega⟩
  have hk : s.pos ≤ k := by omega
  refine ⟨((applied s).reverse.take k).map (fun x => undoMsg x.2), ?_, ?_⟩
  · rw [seek_back_emits s hw hf k]
    have : s.pos - k = 0 := by omega
    rw [this]
  · intro σ a
    have hl : (applied s).reverse.length ≤ k := by
      simp only [applied, List.length_reverse, List.length_take]; omega
    rw [List.take_of_length_le hl]
    exact applyEmits_undo (applied s) σ a

/-- **redo_all_restores** — "and redoing returns the latest values": after a seek forward
    to the end, each address with an undone event holds the new value of its *newest*
    event, every other address is as it was. -/
theorem redo_all_restores (s : State) (hw : WF s) (hf : AddrsFit s) (d : Int)
    (hd : (s.hist.length : Int) - (s.pos : Int) ≤ d) :
    ∃ ms, seekHistory s d = some (⟨s.hist, s.hist.length⟩, ms) ∧
      ∀ (σ : Store) (a : Bytes), applyEmits σ ms a =
        match newestFor (undone s) a with
        | some x => x.2.new
        | none => σ a := by
  have hw' : s.pos ≤ s.hist.length := hw
  obtain ⟨k, rfl⟩ : ∃ k : Nat, d = (k : Int) := ⟨d.toNat, by omega⟩
  refine ⟨((undone s).take k).map (fun x => redoMsg x.2), ?_, ?_⟩
  · rw [seek_fwd_emits s hw hf k]
    have : min (s.pos + k) s.hist.length = s.hist.length := by omega
    rw [this]
  · intro σ a
    have hl : (undone s).length ≤ k := by
      simp only [undone, List.length_drop]; omega
    rw [List.take_of_length_le hl]
    exact applyEmits_redo (undone s) σ a

/-- **chain_invariant_reachable** — end to end: in an application whose parameter ports
    report every change with the true old value (`App.step`, as `rCAPPLY` does) and into
    which undo/redo messages are dispatched back, every history of sets, seeks and clock
    advances runs without an out-of-range access, keeps the cursor inside at most 20
    events, and keeps the chain invariant between history and parameter store — including
    merges into an entry that is not the newest, the cap, and recording after an undo. -/
theorem chain_invariant_reachable (σ0 : Store) (t0 : Int) (ops : List Op) (hf : OpsFit ops) :
    ∃ A, (App.init σ0 t0).run ops = some A ∧ WF A.u ∧ size A.u ≤ 20 ∧ AddrsFit A.u ∧
      Inv A.u A.σ := by
  obtain ⟨A, hr, hg⟩ := run_good ops _ hf (good_init σ0 t0)
  exact ⟨A, hr, hg.wf, hg.size, hg.fit, hg.inv⟩

/-- **undo_redo_roundtrip** — with the chain invariant, undoing `k` steps and redoing
    them gives back exactly the parameter store and the history state: "redoing returns the
    latest values" as an equation on the whole application state. -/
theorem undo_redo_roundtrip (s : State) (σ : Store) (hw : WF s) (hf : AddrsFit s)
    (hi : Inv s σ) (k : Nat) (hk : k ≤ s.pos) :
    ∃ s1 ms1 ms2, seekHistory s (-(k : Int)) = some (s1, ms1) ∧
      seekHistory s1 (k : Int) = some (s, ms2) ∧
      applyEmits (applyEmits σ ms1) ms2 = σ := by
  have hw' : s.pos ≤ s.hist.length := hw
  have hw1 : WF ⟨s.hist, s.pos - k⟩ := by unfold WF; show s.pos - k ≤ s.hist.length; omega
  refine ⟨_, _, ((undone ⟨s.hist, s.pos - k⟩).take k).map (fun x => redoMsg x.2),
    seek_back_emits s hw hf k, ?_, ?_⟩
  · rw [seek_fwd_emits _ hw1 hf k]
    have : min (s.pos - k + k) s.hist.length = s.pos := by omega
    simp only [this]
  · simp only [applied, undone]
    rw [reverse_take_take s.hist s.pos k hk hw']
    funext a
    rw [applyEmits_redo]
    cases hfind : List.find? (fun x => decide (x.2.addr = a)) ((s.hist.drop (s.pos - k)).take k).reverse with
    | some x =>
      simp only
      have h1 := hi.1
      simp only [applied] at h1
      have hsplit : (s.hist.take s.pos).reverse =
          ((s.hist.drop (s.pos - k)).take k).reverse ++ ((s.hist.take s.pos).reverse.drop k) := by
        rw [← reverse_take_take s.hist s.pos k hk hw', List.take_append_drop]
      rw [hsplit] at h1
      exact (RChain_current _ σ a x h1 (by rw [List.find?_append, hfind]; rfl)).symm
    | none =>
      simp only
      rw [applyEmits_undo, find_reverse_none _ _ hfind]

/-! ### Non-vacuity: a concrete history exercising every hypothesis -/

private def eA1 : Event := ⟨[47, 97], 105, 0, 1⟩     -- "/a" i 0→1
private def eB  : Event := ⟨[47, 98], 102, 0, 5⟩     -- "/b" f
private def eA2 : Event := ⟨[47, 97], 105, 1, 2⟩     -- "/a" i 1→2
private def s3 : State := ⟨[(0, eA1), (1, eB), (5, eA2)], 2⟩

example : WF s3 := by unfold WF; decide
example : AddrsFit s3 := by unfold AddrsFit; decide
example : Reachable s3 := by
  have h1 := Reachable.record 0 eA1 Reachable.init
  have h2 := Reachable.record 1 eB h1
  have h3 := Reachable.record 5 eA2 h2
  have h4 : seekHistory (recordEvent 5 eA2 (recordEvent 1 eB (recordEvent 0 eA1 init))) (-1)
      = some (s3, [undoMsg eA2]) := by decide
  exact Reachable.seek (-1) _ h3 h4
/-- `seek_back_emits` on a real case: two steps back from `s3` emit "/b"←0 then "/a"←0. -/
example : seekHistory s3 (-2) = some (⟨s3.hist, 0⟩, [undoMsg eB, undoMsg eA1]) := by decide
/-- the merge hypotheses are satisfiable: "/a" at t=0, then "/b", then "/a" again at t=2
    merges into the entry that is *not* the newest. -/
example : recordEvent 2 eA2 ⟨[(0, eA1), (1, eB)], 2⟩ = ⟨[(2, ⟨[47, 97], 105, 0, 2⟩), (1, eB)], 2⟩ := by
  decide
example : ∃ pre post t e, applied (⟨[(0, eA1), (1, eB)], 2⟩ : State) = pre ++ (t, e) :: post ∧
    e.addr = eA2.addr ∧ (∀ x ∈ post, x.2.addr ≠ eA2.addr) ∧ (2 : Int) - t ≤ 2 :=
  ⟨[], [(1, eB)], 0, eA1, by decide, by decide, by decide, by decide⟩
/-- the witness of fixes/C15-merge-scan.patch: after that merge, "/a" recorded at t=4 is
    within two seconds of the merged entry (t=2) although "/b" (t=1) in between is older. -/
example : recordEvent 4 ⟨[47, 97], 105, 2, 3⟩ ⟨[(2, ⟨[47, 97], 105, 0, 2⟩), (1, eB)], 2⟩
    = ⟨[(4, ⟨[47, 97], 105, 0, 3⟩), (1, eB)], 2⟩ := by decide
/-- `Inv` is satisfiable with a non-empty history on both sides of the cursor. -/
example : Inv s3 (fun a => if a = [47, 97] then 1 else if a = [47, 98] then 5 else 0) := by
  simp [Inv, applied, undone, s3, RChain, Chain, Store.set, eA1, eB, eA2]
/-- both sides of the domain bound are inhabited: 247 bytes fit, 248 do not. -/
example : fits (List.replicate 247 97) = true ∧ fits (List.replicate 248 97) = false := by
  constructor
  · exact (fits_iff_short _).mpr (by rw [List.length_replicate]; omega)
  · cases h : fits (List.replicate 248 97) with
    | false => rfl
    | true => exact absurd ((fits_iff_short _).mp h) (by rw [List.length_replicate]; omega)
example : OpsFit [.set [47, 97] 105 1, .tick 1, .seek (-1), .seek 1] := by
  intro o ho; simp at ho; rcases ho with rfl | rfl | rfl | rfl <;> simp [OpFit] <;> decide

end Rtosc.Undo
