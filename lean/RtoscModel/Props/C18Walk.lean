/-
  C18 — lookup clause, continued: "an address that a port-tree walk reported" is C09's notion.
  `walk` / `walkE` (C18's own short specifications of the addresses walk_ports reports) are
  C09's enumeration specification `Walk.enumerate` (RtoscModel/Walk/Spec.lean), so the lookup
  theorems of Props/C18.lean are theorems about the addresses C09's specification lists.
  Own module: it imports C09's specification; Props/C18.lean does not.
  Property theorems only; the proofs are in Proofs/PathWalkLink.lean and Proofs/PathEnumExt.lean.
-/
import RtoscModel.Props.C18
import RtoscModel.Proofs.PathWalkLink
namespace Rtosc.Path
open Rtosc

/-- **walked_is_enumerate** (lookup clause, "an address that a port-tree walk reported"): for
    every tree of C09's well-formed port names (`Walk.TreeWF`: head `#N` text … `/` `:types`) in
    which no name has more than one `#`, C09's specification `enumerate ts pre` — every leaf under
    every concrete address, `pre` the address of the table — is `walkE` of the same table
    (`Walk.toPorts ts`), address for address and port for port, in the same order. -/
theorem walked_is_enumerate (ts : List Walk.STree) (pre : Bytes) (hwf : Walk.TreeWF ts)
    (hsh : singleHashList ts = true) :
    Walk.enumerate ts pre = (walkE (Walk.toPorts ts)).map (fun e => (e.2, pre ++ e.1)) :=
  enumerate_eq_walkE ts pre hwf hsh

/-- **walked_is_enumerate_literal**: on trees of literal names (`TreeOK`, the hypothesis of
    `apropos_of_walked`) `walkE` is `walk`, so `enumerate` is `walk` there. -/
theorem walked_is_enumerate_literal (ts : List Walk.STree) (pre : Bytes) (hwf : Walk.TreeWF ts)
    (hsh : singleHashList ts = true) (hok : TreeOK (Walk.toPorts ts)) :
    Walk.enumerate ts pre = (walk (Walk.toPorts ts)).map (fun e => (e.2, pre ++ e.1)) := by
  rw [enumerate_eq_walkE ts pre hwf hsh, walkE_eq_walk _ hok]

/-- **apropos_of_enumerated**: the lookup clause stated with C09's notion of a walked address.
    Every `(port, address)` that C09's specification of the walk lists for the root table
    (addresses begin with `/`) is resolved by `Ports::apropos` to that port, provided no
    sibling's name is a prefix of another's (`TreeOKE`, `TreeNumOK`). -/
theorem apropos_of_enumerated (ts : List Walk.STree) (hwf : Walk.TreeWF ts)
    (hsh : singleHashList ts = true) (hok : TreeOKE (Walk.toPorts ts)) (hnum : TreeNumOK (Walk.toPorts ts))
    (c : Walk.Call) (hc : c ∈ Walk.enumerate ts [SLASH]) :
    apropos (Walk.toPorts ts) c.2 = .port c.1 := by
  rw [enumerate_eq_walkE ts [SLASH] hwf hsh] at hc
  obtain ⟨⟨a, ix⟩, hm, rfl⟩ := List.mem_map.mp hc
  exact (apropos_of_walked_enum _ hok hnum a ix hm).2

/-! ## Non-vacuity -/

/-- `exTreeE` (p#3/ → { x, y#2:i }, q) written with C09's structured names -/
def exSTreeE : List Walk.STree :=
  [.sub ⟨[112], [([51], [])], true, none⟩ none
     [.leaf ⟨[120], [], false, none⟩ none, .leaf ⟨[121], [([50], [])], false, some [[105]]⟩ none],
   .leaf ⟨[113], [], false, none⟩ none]

example : Walk.TreeWF exSTreeE ∧ singleHashList exSTreeE = true := by decide
example : (Walk.toPorts exSTreeE).map PortT.name = exTreeE.map PortT.name := by decide
example : Walk.enumerate exSTreeE [SLASH] = (walkE exTreeE).map (fun e => (e.2, SLASH :: e.1)) := by decide
example : ∀ c ∈ Walk.enumerate exSTreeE [SLASH], apropos (Walk.toPorts exSTreeE) c.2 = .port c.1 := by decide

end Rtosc.Path
