/-
  C15 — end-to-end clause over C14's port model ("end-to-end histories in which the events
  come from C14's parameter ports and the undo messages are dispatched back into them").

  `Props/C15.lean` proves the end-to-end theorems (`chain_invariant_reachable`,
  `undo_all_restores`, `redo_all_restores`) over the hand-written application `App`
  ("a set that changes a value is recorded with the true old value").  This file proves that
  an application built from C14's real ports refines `App`:

    * the application `PApp` (RtoscModel/UndoPorts.lean): a table of ports of C14's model
      (`Param.dispatch` = the restricted `rtosc_match` + the macro-generated callbacks
      `rParamCb` / `rParamICb` / `rParamFCb` / `rOptionCb` / `rToggleCb`), whose `/undo_change`
      replies go to `UndoHistory::recordEvent` and into which the history's undo/redo messages
      are dispatched back with recording disabled — the wiring of test/undo-test.cpp and of the
      `E` lines of harness/undo.cpp;
    * the abstraction `PApp.abs`: the store of `App` holds, at the address of every port whose
      callback contains `rCAPPLY`, the 4-byte encoding of the field behind the port;
    * `port_msg_refines_set`: a message to such a port is the step `App.step (.set addr tag v)`
      with `v` = the value the port stored (C14: the clamped value): the `/undo_change` events
      the port emits are exactly the event `App.step` records — old value = the field before,
      new value = the stored value, none when the stored value did not change;
    * `ports_refine_app`: whole runs; `ports_chain_invariant_reachable`,
      `ports_undo_all_restores`, `ports_redo_all_restores`: the end-to-end theorems for
      histories of real ports.

  Domain (explicit predicates, Proofs/UndoPortsKinds.lean): `PortOK` — a scalar macro port
  (`rParam`, `rParamI`, `rParamF`, `rOption`, `rToggle`) whose metadata the callback can read,
  with a declared range C14's clamping theorems cover, at an address other than
  "/undo_change" that is shorter than 248 bytes; distinct addresses; `Stable` initial field
  values (inside the declared range; floats: neither NaN nor -0); `ArgsOK` messages (a query, or
  a first argument of the port's type; floats: neither NaN nor -0).  Each restriction is
  necessary: see the three `…_counterexample` theorems at the end.
-/
import RtoscModel.Props.C15
import RtoscModel.Proofs.UndoPortsKinds
namespace Rtosc.Undo
open Rtosc Rtosc.Param

/-- the port tables the theorems quantify over: macro-generated scalar ports in the domain
    of C14's theorems, at pairwise different addresses -/
structure TableOK (tbl : List PStat) : Prop where
  nodup : (tbl.map PStat.loc).Nodup
  ports : ∀ c ∈ tbl, PortOK c

/-- one field per port, each holding a stable value -/
def FieldsOK (tbl : List PStat) (fs : List Field) : Prop :=
  fs.length = tbl.length ∧ ∀ (i : Nat) c f, tbl[i]? = some c → fs[i]? = some f → Stable c f

/-- the operation lists the theorems quantify over: messages in the domain `ArgsOK` sent to
    ports of the table, seeks of any distance, clock steps -/
def MsgsOK (tbl : List PStat) (ops : List POp) : Prop := POpsOK ArgsOK tbl ops

theorem TableOK.tblOK {tbl : List PStat} (h : TableOK tbl) : TblOK Stable ArgsOK tbl :=
  ⟨h.nodup, fun c hc => portSem_of_portOK c (h.ports c hc)⟩

theorem pinv_init {tbl : List PStat} {fs : List Field} (hf : FieldsOK tbl fs) (t0 : Int) :
    PInv Stable tbl (PApp.init fs t0) :=
  ⟨hf.1, hf.2, by intro x hx; simp [PApp.init, Undo.init] at hx⟩

/-- the state of the port application after a message reached the callback of port `i`
    (address `c.loc`), whose field went from `f` to `f'` -/
def PApp.afterMsg (P : PApp) (i : Nat) (c : PStat) (f f' : Field) : PApp :=
  { P with
    u := if c.undoable = true ∧ encFld f' ≠ encFld f
         then recordEvent P.clock ⟨c.loc, c.tag, encFld f, encFld f'⟩ P.u else P.u
    flds := P.flds.set i f' }

/-- **port_msg_refines_set** — C14's callbacks refine `App.step`: a message in the domain sent to
    port `i` of the table either does not match the port's type pattern (nothing happens), or
    runs the callback, and then
    * the field holds a stable value `f'` (C14 `stored_is_clamped_*`: the clamped value),
    * the undo history received exactly one event `<address> <tag> old = f, new = f'` if the
      port is undoable and the value changed, and nothing otherwise (C14
      `undo_event_iff_changed_*`; a toggle port never reports),
    * for an undoable port this is literally the step `App.step (.set <address> <tag> f')` of
      the hand-written application on the abstracted state. -/
theorem port_msg_refines_set (σ0 : Store) {tbl : List PStat} (ht : TableOK tbl) (P : PApp)
    (hi : PInv Stable tbl P) (i : Nat) (c : PStat) (args : List Arg)
    (hc : tbl[i]? = some c) (ha : ArgsOK c args) :
    ∃ f, P.flds[i]? = some f ∧
      (P.step tbl (.msg i args) = some (P, []) ∨
       ∃ f', Stable c f' ∧ P.step tbl (.msg i args) = some (P.afterMsg i c f f', []) ∧
         (c.undoable = true →
           (P.abs σ0 tbl).step (.set c.loc c.tag (encFld f')) = some ((P.afterMsg i c f f').abs σ0 tbl, []))) := by
  have hcm : c ∈ tbl := List.mem_iff_getElem?.mpr ⟨i, hc⟩
  have hilt : i < tbl.length := by
    cases Nat.lt_or_ge i tbl.length with
    | inl h => exact h
    | inr h => rw [List.getElem?_eq_none h] at hc; cases hc
  have hif : i < P.flds.length := by have := hi.len; omega
  have hfi : P.flds[i]? = some P.flds[i] := List.getElem?_eq_getElem hif
  have hst := hi.stable i c _ hc hfi
  refine ⟨P.flds[i], hfi, ?_⟩
  rcases (ht.tblOK.sem c hcm).set_ok _ args hst ha with hd | ⟨f', ev, hd, hst', hdec⟩
  · left; simp only [PApp.step, hc, hfi, hd]
  · right
    refine ⟨f', hst', ?_, ?_⟩
    · simp only [PApp.step, hc, hfi, hd, hdec, PApp.afterMsg]
      by_cases hcond : c.undoable = true ∧ encFld f' ≠ encFld P.flds[i]
      · simp only [if_pos hcond, recordAll]
      · simp only [if_neg hcond, recordAll]
    · intro hu
      have hat := absStore_at σ0 tbl P.flds i c _ ht.nodup hc hfi hu
      have hset := absStore_set σ0 tbl P.flds i c f' ht.nodup hc hif
      simp only [App.step, PApp.abs, PApp.afterMsg, hat, hset, hu, if_true, true_and]
      by_cases he : encFld P.flds[i] = encFld f'
      · have he' : ¬ encFld f' ≠ encFld P.flds[i] := fun h => h he.symm
        simp only [if_pos he, if_neg he']
        rw [set_self _ _ _ (by rw [hat, he])]
      · have he' : encFld f' ≠ encFld P.flds[i] := fun h => he h.symm
        simp only [if_neg he, if_pos he']

/-- **ports_refine_app** — whole histories: from stable initial fields every operation list
    in the domain runs on the port application without an error of C14's model and without an
    out-of-range access of the history, and the final state abstracts to the final state of
    the hand-written `App` run, from the abstracted initial state, on a list of fitting
    operations (by `port_msg_refines_set`: one `set address tag stored-value` per message that
    reached the callback of an undoable port, the seeks and the clock steps, in order). -/
theorem ports_refine_app (σ0 : Store) {tbl : List PStat} (ht : TableOK tbl) {fs0 : List Field}
    (hf : FieldsOK tbl fs0) (t0 : Int) (ops : List POp) (ho : MsgsOK tbl ops) :
    ∃ P ops', (PApp.init fs0 t0).run tbl ops = some P ∧ FieldsOK tbl P.flds ∧ OpsFit ops' ∧
      (App.init (absStore σ0 tbl fs0) t0).run ops' = some (P.abs σ0 tbl) := by
  obtain ⟨P, ops', h1, h2, _, h4, h5⟩ :=
    run_sim σ0 ht.tblOK ops (PApp.init fs0 t0) (pinv_init hf t0) (good_init _ t0) ho
  exact ⟨P, ops', h1, ⟨h2.len, h2.stable⟩, h4, h5⟩

/-- **ports_chain_invariant_reachable** — `chain_invariant_reachable` for real ports: every
    history of messages to C14's ports, seeks and clock steps keeps the cursor inside at
    most 20 events and keeps the chain invariant between the history and the *fields behind
    the ports* (`absStore`: each undoable port's address ↦ the encoding of its field). -/
theorem ports_chain_invariant_reachable (σ0 : Store) {tbl : List PStat} (ht : TableOK tbl)
    {fs0 : List Field} (hf : FieldsOK tbl fs0) (t0 : Int) (ops : List POp) (ho : MsgsOK tbl ops) :
    ∃ P, (PApp.init fs0 t0).run tbl ops = some P ∧ FieldsOK tbl P.flds ∧ WF P.u ∧ size P.u ≤ 20 ∧
      AddrsFit P.u ∧ Inv P.u (absStore σ0 tbl P.flds) := by
  obtain ⟨P, ops', h1, h2, hg, _, _⟩ :=
    run_sim σ0 ht.tblOK ops (PApp.init fs0 t0) (pinv_init hf t0) (good_init _ t0) ho
  exact ⟨P, h1, ⟨h2.len, h2.stable⟩, hg.wf, hg.size, hg.fit, hg.inv⟩

/-- **ports_undo_all_restores** — `undo_all_restores` for real ports: after any history in
    the domain, a seek back by at least the cursor dispatches the emitted set-messages into
    the ports, and then the field behind every undoable port that has an applied event holds
    the (stable, hence uniquely decoded: `encFld_inj`) value whose encoding is the old value of
    its *oldest* applied event; the field of every other undoable port is as it was. -/
theorem ports_undo_all_restores {tbl : List PStat} (ht : TableOK tbl) {fs0 : List Field}
    (hf : FieldsOK tbl fs0) (t0 : Int) (ops : List POp) (ho : MsgsOK tbl ops) :
    ∃ P, (PApp.init fs0 t0).run tbl ops = some P ∧
      ∀ d : Int, d ≤ -(P.u.pos : Int) →
        ∃ P' ms, P.step tbl (.seek d) = some (P', ms) ∧ P'.u = ⟨P.u.hist, 0⟩ ∧ FieldsOK tbl P'.flds ∧
          ∀ (i : Nat) c f f', tbl[i]? = some c → c.undoable = true →
            P.flds[i]? = some f → P'.flds[i]? = some f' →
            encFld f' = match oldestFor (applied P.u) c.loc with
                        | some x => x.2.old
                        | none => encFld f := by
  let σ0 : Store := fun _ => 0
  obtain ⟨P, ops', h1, hi, hg, _, _⟩ :=
    run_sim σ0 ht.tblOK ops (PApp.init fs0 t0) (pinv_init hf t0) (good_init _ t0) ho
  refine ⟨P, h1, ?_⟩
  intro d hd
  obtain ⟨ms, hsk, hap⟩ := undo_all_restores P.u hg.wf hg.fit d hd
  obtain ⟨fs', hs1, hs2, hs3, hs4⟩ := seek_sim σ0 ht.tblOK P hi hg.wf d _ ms hsk
  refine ⟨_, ms, hs1, rfl, ⟨hs2, hs3⟩, ?_⟩
  intro i c f f' hc hu hfi hfi'
  have h1 := absStore_at σ0 tbl fs' i c f' ht.nodup hc hfi' hu
  have h2 := absStore_at σ0 tbl P.flds i c f ht.nodup hc hfi hu
  rw [← h1, hs4, hap]
  cases oldestFor (applied P.u) c.loc with
  | none => exact h2
  | some x => rfl

/-- **ports_redo_all_restores** — `redo_all_restores` for real ports: a seek forward to the
    end leaves the field behind every undoable port that has an undone event at the value
    whose encoding is the new value of its *newest* event, every other undoable port as it was. -/
theorem ports_redo_all_restores {tbl : List PStat} (ht : TableOK tbl) {fs0 : List Field}
    (hf : FieldsOK tbl fs0) (t0 : Int) (ops : List POp) (ho : MsgsOK tbl ops) :
    ∃ P, (PApp.init fs0 t0).run tbl ops = some P ∧
      ∀ d : Int, (P.u.hist.length : Int) - (P.u.pos : Int) ≤ d →
        ∃ P' ms, P.step tbl (.seek d) = some (P', ms) ∧ P'.u = ⟨P.u.hist, P.u.hist.length⟩ ∧
          FieldsOK tbl P'.flds ∧
          ∀ (i : Nat) c f f', tbl[i]? = some c → c.undoable = true →
            P.flds[i]? = some f → P'.flds[i]? = some f' →
            encFld f' = match newestFor (undone P.u) c.loc with
                        | some x => x.2.new
                        | none => encFld f := by
  let σ0 : Store := fun _ => 0
  obtain ⟨P, ops', h1, hi, hg, _, _⟩ :=
    run_sim σ0 ht.tblOK ops (PApp.init fs0 t0) (pinv_init hf t0) (good_init _ t0) ho
  refine ⟨P, h1, ?_⟩
  intro d hd
  obtain ⟨ms, hsk, hap⟩ := redo_all_restores P.u hg.wf hg.fit d hd
  obtain ⟨fs', hs1, hs2, hs3, hs4⟩ := seek_sim σ0 ht.tblOK P hi hg.wf d _ ms hsk
  refine ⟨_, ms, hs1, rfl, ⟨hs2, hs3⟩, ?_⟩
  intro i c f f' hc hu hfi hfi'
  have h1 := absStore_at σ0 tbl fs' i c f' ht.nodup hc hfi' hu
  have h2 := absStore_at σ0 tbl P.flds i c f ht.nodup hc hfi hu
  rw [← h1, hs4, hap]
  cases newestFor (undone P.u) c.loc with
  | none => exact h2
  | some x => rfl

/-- **ports_undo_redo_roundtrip** — undoing `k ≤ pos` steps and redoing them gives back the
    field behind every undoable port (and the history state). -/
theorem ports_undo_redo_roundtrip {tbl : List PStat} (ht : TableOK tbl) {fs0 : List Field}
    (hf : FieldsOK tbl fs0) (t0 : Int) (ops : List POp) (ho : MsgsOK tbl ops) :
    ∃ P, (PApp.init fs0 t0).run tbl ops = some P ∧
      ∀ k : Nat, k ≤ P.u.pos →
        ∃ P1 ms1 P2 ms2, P.step tbl (.seek (-(k : Int))) = some (P1, ms1) ∧
          P1.step tbl (.seek (k : Int)) = some (P2, ms2) ∧ P2.u = P.u ∧
          ∀ (i : Nat) c f f', tbl[i]? = some c → c.undoable = true →
            P.flds[i]? = some f → P2.flds[i]? = some f' → f' = f := by
  let σ0 : Store := fun _ => 0
  obtain ⟨P, ops', h1, hi, hg, _, _⟩ :=
    run_sim σ0 ht.tblOK ops (PApp.init fs0 t0) (pinv_init hf t0) (good_init _ t0) ho
  refine ⟨P, h1, ?_⟩
  intro k hk
  obtain ⟨s1, ms1, ms2, hb, hfw, hrt⟩ := undo_redo_roundtrip P.u _ hg.wf hg.fit hg.inv k hk
  obtain ⟨fs1, hs1, hl1, hst1, ha1⟩ := seek_sim σ0 ht.tblOK P hi hg.wf _ _ ms1 hb
  have hh := seek_hist P.u s1 _ ms1 hg.wf hb
  have hi1 : PInv Stable tbl { P with u := s1, flds := fs1 } :=
    ⟨hl1, hst1, by intro x hx; exact hi.hist x (by rw [← hh.1]; exact hx)⟩
  obtain ⟨fs2, hs2, hl2, hst2, ha2⟩ := seek_sim σ0 ht.tblOK _ hi1 hh.2 _ _ ms2 hfw
  refine ⟨_, ms1, _, ms2, hs1, hs2, rfl, ?_⟩
  intro i c f f' hc hu hfi hfi'
  have e1 := absStore_at σ0 tbl fs2 i c f' ht.nodup hc hfi' hu
  have e2 := absStore_at σ0 tbl P.flds i c f ht.nodup hc hfi hu
  have : encFld f' = encFld f := by
    rw [← e1, ha2]
    show applyEmits (absStore σ0 tbl fs1) ms2 c.loc = _
    have hrt' : applyEmits (applyEmits (absStore σ0 tbl P.flds) ms1) ms2 = absStore σ0 tbl P.flds := hrt
    rw [ha1, hrt', e2]
  exact encFld_inj c hu f' f (hst2 i c f' hc hfi') (hi.stable i c f hc hfi) this

/-! ### Non-vacuity: the object of harness/undo.cpp (`rParam(a)`, `rParamI(i)`) plus an
    `rParamF`, an `rOption` and an `rToggle` port -/

/-- metadata of `rParam(a, "a")`: `:parameter :min=0 :max=127 :documentation=a` -/
def exBlkParam : Bytes :=
  [58, 112, 97, 114, 97, 109, 101, 116, 101, 114, 0, 58, 109, 105, 110, 0, 61, 48, 0, 58, 109, 97, 120, 0, 61, 49, 50, 55, 0, 58, 100, 111, 99, 117, 109, 101, 110, 116, 97, 116, 105, 111, 110, 0, 61, 97, 0, 0]
/-- metadata of `rParamI(i, "i")`: `:parameter :documentation=i` -/
def exBlkParamI : Bytes :=
  [58, 112, 97, 114, 97, 109, 101, 116, 101, 114, 0, 58, 100, 111, 99, 117, 109, 101, 110, 116, 97, 116, 105, 111, 110, 0, 61, 105, 0, 0]

/-- `rParam(a, "a")` on a `char` field at "/a" -/
def exA : PStat := ⟨{ kind := .param, ty := .i8, len := 0, pattern := [97, 58, 58, 99], block := exBlkParam }, [47], [97]⟩
/-- `rParamI(i, "i")` on an `int` field at "/i" -/
def exI : PStat := ⟨{ kind := .paramI, ty := .i32, len := 0, pattern := [105, 58, 58, 105], block := exBlkParamI }, [47], [105]⟩
/-- `rParamF(f, rLinear(-1.5, 2.25), "d")` at "/f" (C14's `exBlockF`) -/
def exF : PStat := ⟨{ kind := .paramF, ty := .i32, len := 0, pattern := [102, 58, 58, 102], block := exBlockF }, [47], [102]⟩
/-- `rOption(o, rOptions(red, blue), rLinear(0, 1), "d")` on a `char` field at "/o" (C14's `exBlockO`) -/
def exO : PStat := ⟨{ kind := .option, ty := .i8, len := 0, pattern := [111, 58, 58, 105, 58, 99, 58, 83], block := exBlockO }, [47], [111]⟩
/-- `rToggle(t, "t")` at "/t" -/
def exT : PStat := ⟨{ kind := .toggle, ty := .i32, len := 0, pattern := [116, 58, 58, 84, 58, 70], block := exBlkParamI }, [47], [116]⟩

def exTbl : List PStat := [exA, exI, exF, exO, exT]

theorem plain1 (x : UInt8) (h : x ≠ 58 ∧ x ≠ 123 ∧ x ≠ 42 ∧ x ≠ 47 ∧ x ≠ 35) : PlainName [x] := by
  intro c hc
  simp only [List.mem_cons, List.not_mem_nil, or_false] at hc
  subst hc; exact h

theorem exA_ok : PortOK exA := by
  obtain ⟨l1, l2⟩ := iLo_ok exA (some 0) (by decide)
  obtain ⟨h1, h2⟩ := iHi_ok exA (some 127) (by decide)
  refine ⟨by decide, plain1 _ (by decide), blk_of_isSome exA (by decide), by decide, by decide, ?_⟩
  have hk : exA.port.kind = .param := rfl
  simp only [KindOK, hk]
  refine ⟨l1, h1, ?_, ?_, ?_⟩
  · intro l hl; rw [l2] at hl; cases hl; decide
  · intro h hh; rw [h2] at hh; cases hh; decide
  · intro l h hl hh; rw [l2] at hl; rw [h2] at hh; cases hl; cases hh; decide

theorem exI_ok : PortOK exI := by
  obtain ⟨l1, l2⟩ := iLo_ok exI none (by decide)
  obtain ⟨h1, h2⟩ := iHi_ok exI none (by decide)
  refine ⟨by decide, plain1 _ (by decide), blk_of_isSome exI (by decide), by decide, by decide, ?_⟩
  have hk : exI.port.kind = .paramI := rfl
  simp only [KindOK, hk]
  refine ⟨l1, h1, ?_, ?_, ?_⟩
  · intro l hl; rw [l2] at hl; cases hl
  · intro h hh; rw [h2] at hh; cases hh
  · intro l h hl; rw [l2] at hl; cases hl

theorem exF_ok : PortOK exF := by
  obtain ⟨l1, l2⟩ := fLo_ok exF (some 0xbfc00000) (by decide)
  obtain ⟨h1, h2⟩ := fHi_ok exF (some 0x40100000) (by decide)
  refine ⟨by decide, plain1 _ (by decide), blk_of_isSome exF (by decide), by decide, by decide, ?_⟩
  have hk : exF.port.kind = .paramF := rfl
  simp only [KindOK, hk]
  refine ⟨l1, h1, ?_, ?_⟩
  · intro l hl; rw [l2] at hl; cases hl; decide
  · intro h hh; rw [h2] at hh; cases hh; decide

theorem exO_ok : PortOK exO := by
  obtain ⟨l1, l2⟩ := iLo_ok exO (some 0) (by decide)
  obtain ⟨h1, h2⟩ := iHi_ok exO (some 1) (by decide)
  refine ⟨by decide, plain1 _ (by decide), blk_of_isSome exO (by decide), by decide, by decide, ?_⟩
  have hk : exO.port.kind = .option := rfl
  simp only [KindOK, hk]
  refine ⟨l1, h1, ?_, ?_⟩
  · intro l hl; rw [l2] at hl; cases hl; decide
  · intro h hh; rw [h2] at hh; cases hh; decide

theorem exT_ok : PortOK exT :=
  ⟨by decide, plain1 _ (by decide), blk_of_isSome exT (by decide), by decide, by decide, by have hk : exT.port.kind = .toggle := rfl; simp only [KindOK, hk]⟩

/-- the hypotheses of all theorems above are satisfiable together -/
theorem exTbl_ok : TableOK exTbl := by
  refine ⟨by decide, ?_⟩
  intro c hc
  simp only [exTbl, List.mem_cons, List.not_mem_nil, or_false] at hc
  rcases hc with rfl | rfl | rfl | rfl | rfl
  · exact exA_ok
  · exact exI_ok
  · exact exF_ok
  · exact exO_ok
  · exact exT_ok

/-- initial fields `a = 0`, `i = 0`, `f = 0.0`, `o = 0`, `t = false` -/
def exFlds : List Field := [.ints [0], .ints [0], .flts [0], .ints [0], .bools [false]]


theorem exA_bounds : iLo exA = some 0 ∧ iHi exA = some 127 :=
  ⟨(iLo_ok exA (some 0) (by decide)).2, (iHi_ok exA (some 127) (by decide)).2⟩
theorem exI_bounds : iLo exI = none ∧ iHi exI = none :=
  ⟨(iLo_ok exI none (by decide)).2, (iHi_ok exI none (by decide)).2⟩
theorem exF_bounds : fLo exF = some 0xbfc00000 ∧ fHi exF = some 0x40100000 :=
  ⟨(fLo_ok exF (some 0xbfc00000) (by decide)).2, (fHi_ok exF (some 0x40100000) (by decide)).2⟩
theorem exO_bounds : iLo exO = some 0 ∧ iHi exO = some 1 :=
  ⟨(iLo_ok exO (some 0) (by decide)).2, (iHi_ok exO (some 1) (by decide)).2⟩

theorem exA_stable0 : Stable exA (.ints [0]) := by
  have hk : exA.port.kind = .param := rfl
  simp only [Stable, hk, StableI, exA_bounds.1, exA_bounds.2]; decide
theorem exI_stable0 : Stable exI (.ints [0]) := by
  have hk : exI.port.kind = .paramI := rfl
  simp only [Stable, hk, StableI, exI_bounds.1, exI_bounds.2]; decide
theorem exF_stable0 : Stable exF (.flts [0]) := by
  have hk : exF.port.kind = .paramF := rfl
  simp only [Stable, hk, StableF, exF_bounds.1, exF_bounds.2]; decide
theorem exO_stable0 : Stable exO (.ints [0]) := by
  have hk : exO.port.kind = .option := rfl
  simp only [Stable, hk, StableI, exO_bounds.1, exO_bounds.2]; decide
theorem exT_stable (b : Bool) : Stable exT (.bools [b]) := by
  have hk : exT.port.kind = .toggle := rfl
  simp only [Stable, hk, StableT]

/-- the initial fields are stable -/
theorem exFlds_ok : FieldsOK exTbl exFlds := by
  refine ⟨rfl, ?_⟩
  intro i c f hc hf
  match i, hc, hf with
  | 0, hc, hf => cases hc; cases hf; exact exA_stable0
  | 1, hc, hf => cases hc; cases hf; exact exI_stable0
  | 2, hc, hf => cases hc; cases hf; exact exF_stable0
  | 3, hc, hf => cases hc; cases hf; exact exO_stable0
  | 4, hc, hf => cases hc; cases hf; exact exT_stable false
  | n + 5, hc, _ => simp [exTbl] at hc

/-- a history in the domain: `a ← 100`, `i ← 7`, 5 s, `a ← 300` (a `char`: 44), `t ← true`,
    `f ← 7.0` (clamped to 2.25), `o ← 5` (clamped to 1), a query, undo all, redo all -/
def exOps : List POp :=
  [.msg 0 [.c 100], .msg 1 [.i 7], .tick 5, .msg 0 [.c 300], .msg 4 [.T], .msg 2 [.f 0x40e00000],
   .msg 3 [.i 5], .msg 1 [], .seek (-100), .seek 100]

example : MsgsOK exTbl exOps := by
  intro o ho
  simp only [exOps, List.mem_cons, List.not_mem_nil, or_false] at ho
  rcases ho with rfl | rfl | rfl | rfl | rfl | rfl | rfl | rfl | rfl | rfl
  · exact ⟨exA, rfl, Or.inr ⟨_, _, 100, rfl, rfl⟩⟩
  · exact ⟨exI, rfl, Or.inr ⟨_, _, 7, rfl, rfl⟩⟩
  · trivial
  · exact ⟨exA, rfl, Or.inr ⟨_, _, 300, rfl, rfl⟩⟩
  · exact ⟨exT, rfl, Or.inr ⟨_, _, true, rfl, rfl⟩⟩
  · exact ⟨exF, rfl, Or.inr ⟨_, _, rfl, by decide⟩⟩
  · exact ⟨exO, rfl, Or.inr ⟨_, _, 5, rfl, Or.inl rfl, by decide⟩⟩
  · exact ⟨exI, rfl, Or.inl rfl⟩
  · trivial
  · trivial

/-- what is observable of a run: the history and the fields -/
def observe (r : Option PApp) : Option (State × List Field) := r.map fun P => (P.u, P.flds)

/-- the model computes: the run above records five events (the toggle none, the query none),
    undo-all restores every undoable field to its initial value, redo-all to the latest -/
example : observe ((PApp.init exFlds 0).run exTbl (exOps.take 9)) =
    some (⟨[(0, ⟨[47, 97], 99, 0, 100⟩), (0, ⟨[47, 105], 105, 0, 7⟩), (5, ⟨[47, 97], 99, 100, 44⟩),
            (5, ⟨[47, 102], 102, 0, 0x40100000⟩), (5, ⟨[47, 111], 105, 0, 1⟩)], 0⟩,
          [.ints [0], .ints [0], .flts [0], .ints [0], .bools [true]]) := by decide +kernel
example : observe ((PApp.init exFlds 0).run exTbl exOps) =
    some (⟨[(0, ⟨[47, 97], 99, 0, 100⟩), (0, ⟨[47, 105], 105, 0, 7⟩), (5, ⟨[47, 97], 99, 100, 44⟩),
            (5, ⟨[47, 102], 102, 0, 0x40100000⟩), (5, ⟨[47, 111], 105, 0, 1⟩)], 5⟩,
          [.ints [44], .ints [7], .flts [0x40100000], .ints [1], .bools [true]]) := by decide +kernel

/-! ### The restrictions are necessary: three findings about the ports (each evaluated on the model)

  The hand-written `App.step` ("a change is recorded with the true old value, and a
  set-message dispatched back stores its value") is *not* refined by C14's ports outside the
  domain above.  None of the three is a defect of `UndoHistory`; they are properties of the
  port macros that an application using undo has to know. -/

/-- **Finding 1 — an initial value outside the declared range is not restored.**  An
    `rOption` port declared `0..1` whose field starts at 5 (e.g. set by a constructor): the
    message `o ← 1` is recorded as `5 → 1`; undoing it sends `o ← 5`, which the port clamps to
    1.  All hypotheses of `ports_undo_all_restores` hold except `FieldsOK` (5 is not `Stable`),
    and its conclusion fails: the field is 1, the old value of the oldest applied event is 5. -/
theorem undo_all_unstable_initial_counterexample :
    TableOK [exO] ∧ MsgsOK [exO] [.msg 0 [.i 1]] ∧ ¬ Stable exO (.ints [5]) ∧
    observe ((PApp.init [.ints [5]] 0).run [exO] [.msg 0 [.i 1], .seek (-1)]) =
      some (⟨[(0, ⟨[47, 111], 105, 5, 1⟩)], 0⟩, [.ints [1]]) := by
  refine ⟨⟨by decide, ?_⟩, ?_, ?_, by decide +kernel⟩
  · intro c hc; simp only [List.mem_cons, List.not_mem_nil, or_false] at hc; subst hc; exact exO_ok
  · intro o ho; simp only [List.mem_cons, List.not_mem_nil, or_false] at ho; subst ho
    exact ⟨exO, rfl, Or.inr ⟨_, _, 1, rfl, Or.inl rfl, by decide⟩⟩
  · have hk : exO.port.kind = .option := rfl
    simp only [Stable, hk, StableI, exO_bounds.1, exO_bounds.2]; decide

/-- **Finding 2 — `+0.0 → -0.0` on an `rParamF` port changes the stored bits without an undo
    event** (`rCAPPLY` compares with the IEEE `!=`), whereas `App.step` on the abstracted state
    records the change; a later redo then returns `+0.0` where the field held `-0.0`.  This is
    why `ArgsOK` / `Stable` / `KindOK` exclude `-0.0` (and NaN, which is reported as changed
    even when the bits are equal): modulo IEEE equality the port does refine `App.step`. -/
theorem negzero_not_recorded_counterexample :
    TableOK [exF] ∧ FieldsOK [exF] [.flts [0]] ∧ ¬ ArgsOK exF [.f 0x80000000] ∧
    observe ((PApp.init [.flts [0]] 0).run [exF] [.msg 0 [.f 0x80000000]]) =
      some (⟨[], 0⟩, [.flts [0x80000000]]) ∧
    ((App.init (absStore (fun _ => 0) [exF] [.flts [0]]) 0).step (.set exF.loc 102 0x80000000)).map
      (fun r => r.1.u) = some ⟨[(0, ⟨exF.loc, 102, 0, 0x80000000⟩)], 1⟩ := by
  refine ⟨⟨by decide, ?_⟩, ⟨rfl, ?_⟩, ?_, by decide +kernel, by decide +kernel⟩
  · intro c hc; simp only [List.mem_cons, List.not_mem_nil, or_false] at hc; subst hc; exact exF_ok
  · intro i c f hc hf
    match i, hc, hf with
    | 0, hc, hf => cases hc; cases hf; exact exF_stable0
    | n + 1, hc, _ => simp at hc
  · have hk : exF.port.kind = .paramF := rfl
    simp only [ArgsOK, hk]
    intro h
    rcases h with h | ⟨rest, b, h, hb⟩
    · cases h
    · cases h; exact hb.2 rfl

/-- **Finding 3 — `rToggle` ports are not undoable**: `rToggleCb` has no `rCAPPLY`, so a
    toggle change is broadcast but never reaches the undo history.  All hypotheses hold; the
    field changed, the history is empty, undoing everything leaves the new value.  This is why
    the theorems speak about `c.undoable` ports only. -/
theorem toggle_not_recorded_counterexample :
    TableOK [exT] ∧ FieldsOK [exT] [.bools [false]] ∧ MsgsOK [exT] [.msg 0 [.T], .seek (-1)] ∧
    observe ((PApp.init [.bools [false]] 0).run [exT] [.msg 0 [.T], .seek (-1)]) =
      some (⟨[], 0⟩, [.bools [true]]) := by
  refine ⟨⟨by decide, ?_⟩, ⟨rfl, ?_⟩, ?_, by decide +kernel⟩
  · intro c hc; simp only [List.mem_cons, List.not_mem_nil, or_false] at hc; subst hc; exact exT_ok
  · intro i c f hc hf
    match i, hc, hf with
    | 0, hc, hf => cases hc; cases hf; exact exT_stable false
    | n + 1, hc, _ => simp at hc
  · intro o ho; simp only [List.mem_cons, List.not_mem_nil, or_false] at ho
    rcases ho with rfl | rfl
    · exact ⟨exT, rfl, Or.inr ⟨_, _, true, rfl, rfl⟩⟩
    · trivial

end Rtosc.Undo
