/-
  C05 — Path-pattern matching follows the documented pattern language.
  Property theorems only; helper lemmas live in Proofs/MatchLemmas.lean.

  Reading of the statement
  * "every pattern of the documented form": `Pat.WF0 p` (Match/Spec.lean) — literal text
    over any characters but NUL `# { * :`, `#N` with N < 2^31, `{a,b,…}` over any
    characters but NUL `,` `}`, optional trailing '/', optional `:types` alternatives.
    The pattern string is `p.cstr` (rendering + NUL).
  * "a message": an address `addr` and a type string `tags` (C strings: no NUL inside),
    laid out as `mkMsg addr tags rest` (address and ",tags" each NUL-padded to a
    multiple of four, then `rest` = argument payload and whatever else the buffer holds).
    `rtosc_match_path` also accepts a plain C string: `addr ++ 0 :: ex`.
  * "indices … up to 9 digits": `IdxBounded addr` — every digit run of the address
    denotes a number below 2^31 (beyond that `atoi` wraps, see `atoi_wraps`).
  * "matches": `rtosc_match_path` returns non-NULL (`PathMatches`), `rtosc_match`
    returns true (`MsgMatches`).
  * The address part is an equivalence (`match_iff_spec`); for the type string the
    statement gives a sandwich (`types_sandwich`), the exact behaviour is `types_exact`.

  Deviations of the code from the statement found with the proof / the correspondence:
  * K2 (fixed, fixes/C05-colon-address.patch): a ':' in the pattern was compared with the
    address, so the address "a:i" matched the pattern "a:i" whatever its arguments.
    The model mirrors the repaired code; `colon_address_counterexample` records what the
    unrepaired cascade did.
  * the over-read of `rtosc_match_args` behind the type string (fixed,
    fixes/C05-args-overread.patch): `args_overread_counterexample`; the model mirrors the
    repaired loop, so no theorem carries a condition on the buffer behind the type string
    (`msg_total`).
  * K1 (known finding C05-K1): a `{}` group commits to the first alternative that is a
    prefix of the address (no backtracking), so `{a,ab}c` does not match "abc".
    Trigger predicate `Pat.hasPrefixAlts`; `match_complete_counterexample`,
    `match_complete_partial`.  Soundness (`match_sound`, `enum_bound_strict`, the
    right-hand side of the sandwich) does not need the exclusion.
-/
import RtoscModel.Proofs.MatchLemmas
namespace Rtosc.Match
open Rtosc

/-- `rtosc_match_path(pattern, msg, …) != NULL` -/
def PathMatches (pat msg : Bytes) : Prop := ∃ r, path pat msg = .ok r

/-- `rtosc_match(pattern, msg, …)` returns true -/
def MsgMatches (pat msg : Bytes) : Prop := (full pat msg).map (·.1) = some true

instance (pat msg : Bytes) : Decidable (MsgMatches pat msg) := by unfold MsgMatches; infer_instance

/-- **match_sound** (the "no … ever matches" half, for *every* pattern of the documented
    form, prefix-related alternatives included): if `rtosc_match_path` accepts an
    address, the address spells the pattern as the statement says — literal text
    character for character, at each `#N` a whole decimal index < N, one of the
    alternatives, and it ends where the pattern's path ends (or continues after the
    trailing '/').  The returned pointer is the pattern's type part. -/
theorem match_sound {p : Pat} (hwf : p.WF0) {addr : Bytes} (ex : Bytes)
    (ha : NulFree addr) (hb : IdxBounded addr)
    (hm : PathMatches p.cstr (addr ++ 0 :: ex)) : PathSpec p addr := by
  obtain ⟨r, hr⟩ := hm
  rw [path_rendered hwf ex ha hb] at hr
  cases hg : greedy p.segs p.sub addr with
  | none => simp [hg] at hr
  | some t =>
    obtain ⟨rest, h1, h2⟩ := greedy_sound p.sub p.segs addr t hg
    refine ⟨rest, h1, ?_⟩
    cases hs : p.sub with
    | true => simp only [hs, ↓reduceIte] at h2 ⊢; exact ⟨t, h2⟩
    | false => simp only [hs, Bool.false_eq_true, ↓reduceIte] at h2 ⊢; exact h2.1

/-- The completeness half as the statement reads, for all patterns of the documented
    form.  It does **not** hold of the code: `match_complete_counterexample`. -/
def match_complete_statement : Prop :=
  ∀ (p : Pat), p.WF0 → ∀ (addr ex : Bytes), NulFree addr → IdxBounded addr →
    PathSpec p addr → PathMatches p.cstr (addr ++ 0 :: ex)

/-- **match_complete_partial**: every address that spells the pattern is accepted,
    provided no `{}` group has an alternative that is a proper prefix of another one
    (`¬ p.hasPrefixAlts`, the trigger of finding C05-K1). -/
theorem match_complete_partial {p : Pat} (hwf : p.WF0) (hk1 : p.hasPrefixAlts = false)
    {addr : Bytes} (ex : Bytes) (ha : NulFree addr) (hb : IdxBounded addr)
    (hs : PathSpec p addr) : PathMatches p.cstr (addr ++ 0 :: ex) := by
  have hpf : segsPrefixFree p.segs = true := by
    simpa [Pat.hasPrefixAlts, Pat.prefixFree] using hk1
  obtain ⟨rest, h1, h2⟩ := hs
  have hg := greedy_complete p.sub [] h1 hpf
  rw [List.append_nil] at hg
  rw [PathMatches, path_rendered hwf ex ha hb, hg]
  cases hsub : p.sub with
  | true =>
    simp only [hsub, ↓reduceIte] at h2
    obtain ⟨t, rfl⟩ := h2
    exact ⟨(renderTypes p.types ++ [0], t ++ 0 :: ex), by simp [greedy]⟩
  | false =>
    simp only [hsub, Bool.false_eq_true, ↓reduceIte] at h2
    subst h2
    exact ⟨(renderTypes p.types ++ [0], 0 :: ex), by simp [greedy]⟩

/-- **match_iff_spec**: for every well-formed pattern and every address,
    `rtosc_match_path` accepts exactly the addresses the statement describes. -/
theorem match_iff_spec {p : Pat} (hwf : p.WF) {addr : Bytes} (ex : Bytes)
    (ha : NulFree addr) (hb : IdxBounded addr) :
    PathMatches p.cstr (addr ++ 0 :: ex) ↔ PathSpec p addr := by
  have hpf : p.hasPrefixAlts = false := by
    have := wf_prefixFree hwf
    simpa [Pat.hasPrefixAlts, Pat.prefixFree] using this
  exact ⟨match_sound (wf_wf0 hwf) ex ha hb, match_complete_partial (wf_wf0 hwf) hpf ex ha hb⟩

/-- **match_total**: on these inputs `rtosc_match_path` never reads outside the two
    strings; it returns NULL or a pointer to the pattern's type part, with `*path_end`
    inside the address. -/
theorem match_total {p : Pat} (hwf : p.WF0) {addr : Bytes} (ex : Bytes)
    (ha : NulFree addr) (hb : IdxBounded addr) :
    path p.cstr (addr ++ 0 :: ex) = .fail ∨
    ∃ t, path p.cstr (addr ++ 0 :: ex) = .ok (renderTypes p.types ++ [0], t ++ 0 :: ex) ∧
      t.length ≤ addr.length := by
  rw [path_rendered hwf ex ha hb]
  cases hg : greedy p.segs p.sub addr with
  | none => exact Or.inl rfl
  | some t =>
    refine Or.inr ⟨t, rfl, ?_⟩
    obtain ⟨rest, h1, h2⟩ := greedy_sound p.sub p.segs addr t hg
    have hlen : ∀ {segs a r}, SpellsAll segs a r → r.length ≤ a.length := by
      intro segs a r h
      induction h with
      | nil r => exact Nat.le_refl _
      | lit s _ ih => simp only [List.length_append]; omega
      | enum ds idx _ _ _ _ _ ih => simp only [List.length_append]; omega
      | alts as x _ _ ih => simp only [List.length_append]; omega
    have := hlen h1
    cases hs : p.sub with
    | true => simp only [hs, ↓reduceIte] at h2; subst h2; simp only [List.length_cons] at this; omega
    | false => simp only [hs, Bool.false_eq_true, ↓reduceIte] at h2; simp [h2.2]

/-- **enum_bound_strict** (the array-safety corollary): an address that spells the
    segments in front of an enumeration `#N` and then carries the index `idx` — the
    whole digit run found there — with `idx ≥ N` is rejected, whatever follows. -/
theorem enum_bound_strict {p : Pat} (hwf : p.WF) {pre post : List Seg} {ds : Bytes}
    (hp : p.segs = pre ++ .enum ds :: post)
    {addr idx r : Bytes} (hsp : SpellsAll pre addr (idx ++ r))
    (hdig : ∀ c ∈ idx, isDigit c = true) (hmax : ∀ c t, r = c :: t → isDigit c = false)
    (hN : decVal ds ≤ decVal idx)
    (ex : Bytes) (ha : NulFree addr) (hb : IdxBounded addr) :
    path p.cstr (addr ++ 0 :: ex) = .fail := by
  have hpf := wf_prefixFree hwf
  rw [hp] at hpf
  have hpre : segsPrefixFree pre = true := by
    simp only [segsPrefixFree, List.all_append, Bool.and_eq_true] at hpf ⊢
    exact hpf.1
  have hg := greedy_complete p.sub (.enum ds :: post) hsp hpre
  obtain ⟨h1, h2⟩ := takeWhile_run hdig hmax
  rw [path_rendered (wf_wf0 hwf) ex ha hb, hp, hg]
  have : ¬ (idx ≠ [] ∧ decVal idx < decVal ds) := fun h => by omega
  simp [greedy, h1, this]

/-- the same for `rtosc_match`: no message with such an address matches -/
theorem enum_bound_strict_msg {p : Pat} (hwf : p.WF) {pre post : List Seg} {ds : Bytes}
    (hp : p.segs = pre ++ .enum ds :: post)
    {addr idx r : Bytes} (hsp : SpellsAll pre addr (idx ++ r))
    (hdig : ∀ c ∈ idx, isDigit c = true) (hmax : ∀ c t, r = c :: t → isDigit c = false)
    (hN : decVal ds ≤ decVal idx)
    (tags rest : Bytes) (ha : NulFree addr) (hb : IdxBounded addr) :
    full p.cstr (mkMsg addr tags rest) = some (false, none) := by
  obtain ⟨ex, hex⟩ := mkMsg_shape addr tags rest
  have := enum_bound_strict hwf hp hsp hdig hmax hN ex ha hb
  rw [← hex] at this
  simp [full, this]

/-- **msg_total** (memory safety of the whole of `rtosc_match`, after the repair
    fixes/C05-args-overread.patch): for every pattern of the documented form and every
    message laid out as `rtosc_amessage` does — *whatever* follows the padded type string,
    in particular nothing (`rest = []`, a buffer of exactly the message's size) —
    `rtosc_match` returns a verdict without reading outside the pattern or the message. -/
theorem msg_total {p : Pat} (hwf : p.WF0) {addr tags : Bytes} (rest : Bytes)
    (ha : NulFree addr) (hb : IdxBounded addr) (ht : NulFree tags) :
    ∃ r, full p.cstr (mkMsg addr tags rest) = some r := by
  obtain ⟨ex, _, hfull⟩ := full_rendered hwf rest ha hb ht
  rw [hfull]
  cases greedy p.segs p.sub addr with
  | none => exact ⟨_, rfl⟩
  | some t => exact ⟨_, rfl⟩

/-- **msg_sound** (the "no … ever matches" half for whole messages, for *every* pattern
    of the documented form, prefix-related alternatives included): a message that
    `rtosc_match` accepts has an address that spells the pattern, and — if the pattern
    gives type alternatives — a type string equal to or an extension of one of them. -/
theorem msg_sound {p : Pat} (hwf : p.WF0) {addr tags : Bytes} (rest : Bytes)
    (ha : NulFree addr) (hb : IdxBounded addr) (ht : NulFree tags)
    (hm : MsgMatches p.cstr (mkMsg addr tags rest)) : SpecMayMatch p addr tags := by
  obtain ⟨ex, hex, hfull⟩ := full_rendered hwf rest ha hb ht
  cases hg : greedy p.segs p.sub addr with
  | none => simp only [hg] at hfull; simp [MsgMatches, hfull] at hm
  | some t =>
    have hps : PathSpec p addr :=
      match_sound hwf ex ha hb ⟨(renderTypes p.types ++ [0], t ++ 0 :: ex), by
        rw [path_rendered hwf ex ha hb, hg]⟩
    refine ⟨hps, ?_⟩
    intro ts htypes
    simp only [hg, htypes] at hfull
    have htw := wf0_types hwf
    simp only [htypes, typesWf, Bool.and_eq_true, Bool.not_eq_eq_eq_not, Bool.not_true,
      List.isEmpty_eq_false_iff] at htw
    simp only [MsgMatches, hfull, Option.map_some, Option.some.injEq] at hm
    exact typesCode_loose htw.1 hm

/-- **msg_complete_partial**: a message whose address spells the pattern and whose type
    string is one of the alternatives (any type string if the pattern gives none) is
    accepted, provided no `{}` group has an alternative that is a proper prefix of
    another one (trigger of finding C05-K1).  No condition on the buffer behind the type
    string any more. -/
theorem msg_complete_partial {p : Pat} (hwf : p.WF0) (hk1 : p.hasPrefixAlts = false)
    {addr tags : Bytes} (rest : Bytes)
    (ha : NulFree addr) (hb : IdxBounded addr) (ht : NulFree tags)
    (hs : SpecMatch p addr tags) : MsgMatches p.cstr (mkMsg addr tags rest) := by
  obtain ⟨ex, hex, hfull⟩ := full_rendered hwf rest ha hb ht
  obtain ⟨hps, hty⟩ := hs
  obtain ⟨r, hr⟩ := match_complete_partial hwf hk1 ex ha hb hps
  rw [path_rendered hwf ex ha hb] at hr
  cases hg : greedy p.segs p.sub addr with
  | none => simp [hg] at hr
  | some t =>
    simp only [hg] at hfull
    cases htypes : p.types with
    | none => simp only [htypes] at hfull; simp [MsgMatches, hfull]
    | some ts =>
      simp only [htypes] at hfull
      simp [MsgMatches, hfull, typesCode_of_mem (hty ts htypes)]

/-- **types_sandwich**: for a well-formed pattern and any buffer content `rest` behind the
    message's type string (none at all included),
    (left) a message whose address spells the pattern and whose type string equals one
    of the alternatives (or any type string if the pattern gives none) matches;
    (right) a message that matches has such an address, and its type string is equal to
    or an extension of one of the alternatives.  (right) holds for every pattern of the
    documented form (`msg_sound`); (left) needs the K1 exclusion only
    (`msg_complete_partial`). -/
theorem types_sandwich {p : Pat} (hwf : p.WF) {addr tags : Bytes} (rest : Bytes)
    (ha : NulFree addr) (hb : IdxBounded addr) (ht : NulFree tags) :
    (SpecMatch p addr tags → MsgMatches p.cstr (mkMsg addr tags rest)) ∧
    (MsgMatches p.cstr (mkMsg addr tags rest) → SpecMayMatch p addr tags) := by
  have hpf : p.hasPrefixAlts = false := by
    have := wf_prefixFree hwf
    simpa [Pat.hasPrefixAlts, Pat.prefixFree] using this
  exact ⟨msg_complete_partial (wf_wf0 hwf) hpf rest ha hb ht, msg_sound (wf_wf0 hwf) rest ha hb ht⟩

/-- **types_exact**: what the type matcher really does — every alternative but the last
    must equal the type string, the last one matches every extension of itself (an
    empty last alternative matches only the empty type string). -/
theorem types_exact {p : Pat} (hwf : p.WF) {addr tags : Bytes} (rest : Bytes)
    (ha : NulFree addr) (hb : IdxBounded addr) (ht : NulFree tags) :
    MsgMatches p.cstr (mkMsg addr tags rest) ↔
      PathSpec p addr ∧ ∀ ts, p.types = some ts →
        tags ∈ ts ∨ ∃ l, ts.getLast? = some l ∧ l ≠ [] ∧ l <+: tags := by
  obtain ⟨ex, hex, hfull⟩ := full_rendered (wf_wf0 hwf) rest ha hb ht
  have hiff := match_iff_spec hwf ex ha hb
  rw [PathMatches, path_rendered (wf_wf0 hwf) ex ha hb] at hiff
  cases hg : greedy p.segs p.sub addr with
  | none =>
    simp only [hg] at hfull hiff
    have : ¬ PathSpec p addr := fun h => by simpa using hiff.mpr h
    simp [MsgMatches, hfull, this]
  | some t =>
    have hps : PathSpec p addr := hiff.mp ⟨(renderTypes p.types ++ [0], t ++ 0 :: ex), by simp [hg]⟩
    simp only [hg] at hfull
    cases htypes : p.types with
    | none => simp only [htypes] at hfull; simp [MsgMatches, hfull, hps]
    | some ts =>
      simp only [htypes] at hfull
      have htw := wf0_types (wf_wf0 hwf)
      simp only [htypes, typesWf, Bool.and_eq_true, Bool.not_eq_eq_eq_not, Bool.not_true,
        List.isEmpty_eq_false_iff] at htw
      simp only [MsgMatches, hfull, Option.map_some, Option.some.injEq, hps, true_and,
        forall_eq']
      exact typesCode_exact htw.1

/-- **copies_agree**: the two further copies of the type matcher in ports.cpp compute,
    on every pattern and every buffer (no well-formedness needed), exactly what
    `rtosc_match_args` of dispatch.c computes — out-of-bounds reads included. -/
theorem copies_agree (pattern buf : Bytes) :
    argMatcher pattern buf = args pattern buf ∧
    portMatcherArgs pattern buf = argsOfMsg pattern buf := by
  constructor
  · exact argMatcherFuel_eq _ pattern buf (Nat.lt_succ_self _)
  · rw [portMatcherArgs, portMatcherFuel_eq]
    cases pattern with
    | nil => rfl
    | cons c p =>
      simp only [argsOfMsg]
      by_cases hc : c ≠ 58
      · simp [hc]
      · simp only [hc, ↓reduceIte]
        cases argString buf with
        | none => rfl
        | some a => exact argMatcherFuel_eq _ (c :: p) a (Nat.lt_succ_self _)

/-! ### The two deviations -/

/-- pattern `{a,ab}c` -/
def k1Pat : Pat := { segs := [.alts [[97], [97, 98]], .lit [99]], sub := false, types := none }

/-- **match_complete_counterexample** (finding C05-K1): `{a,ab}c` is of the documented
    form, the address "abc" spells it (alternative "ab", then "c"), and
    `rtosc_match_path` returns NULL: the group committed to "a". -/
theorem match_complete_counterexample : ¬ match_complete_statement := by
  intro h
  have hs : PathSpec k1Pat [97, 98, 99] :=
    ⟨[], SpellsAll.alts _ [97, 98] (by simp) (SpellsAll.lit [99] (SpellsAll.nil [])), by simp [k1Pat]⟩
  have hb : IdxBounded [97, 98, 99] := IdxBounded_of_length (by simp)
  have hn : NulFree [97, 98, 99] := by intro c hc; simp at hc; rcases hc with rfl | rfl | rfl <;> decide
  obtain ⟨r, hr⟩ := h k1Pat (by decide) [97, 98, 99] [] hn hb hs
  have : path k1Pat.cstr ([97, 98, 99] ++ [0]) = .fail := by decide
  rw [this] at hr
  cases hr

/-- the trigger predicate singles this pattern out -/
example : k1Pat.hasPrefixAlts = true := by decide

/-- pattern `a:i` -/
def k2Pat : Pat := { segs := [.lit [97]], sub := false, types := some [[105]] }

/-- **colon_address_counterexample** (K2, repaired by fixes/C05-colon-address.patch):
    on the unrepaired cascade the message with address "a:i" and type string "s"
    matches the pattern `a:i` — although the address does not end where the pattern's
    path ends and "s" is not one of the listed type strings.  The repaired cascade (the model
    of this file) rejects it. -/
theorem colon_address_counterexample :
    fullUnfixed k2Pat.cstr (mkMsg [97, 58, 105] [115] []) = some true ∧
    ¬ SpecMayMatch k2Pat [97, 58, 105] [115] ∧
    (full k2Pat.cstr (mkMsg [97, 58, 105] [115] [])).map (·.1) = some false := by
  refine ⟨by decide, ?_, by decide⟩
  intro ⟨hps, _⟩
  have hb : IdxBounded [97, 58, 105] := IdxBounded_of_length (by simp)
  have hn : NulFree [97, 58, 105] := by intro c hc; simp at hc; rcases hc with rfl | rfl | rfl <;> decide
  obtain ⟨r, hr⟩ := (match_iff_spec (p := k2Pat) (by decide) [] hn hb).mpr hps
  have : path k2Pat.cstr ([97, 58, 105] ++ [0]) = .fail := by decide
  rw [this] at hr
  cases hr

/-! ### Remarks outside the statement (recorded, not alarms) -/

/-- Beyond the bound of `IdxBounded` the index wraps as `atoi` does:
    `#2` accepts the address "4294967296" (= 2^32). -/
theorem atoi_wraps :
    PathMatches ([35, 50] ++ [0]) ([52, 50, 57, 52, 57, 54, 55, 50, 57, 54] ++ [0]) :=
  ⟨([0], [0]), by decide⟩

/-- **args_overread_counterexample** (genuine defect, repaired by
    fixes/C05-args-overread.patch): the unrepaired `rtosc_match_args` advanced and read
    `arg_str` once per pattern character, also behind the NUL of the type string.  With the
    pattern `a:iiii` and the argument-less message "a\0\0\0,\0\0\0" in a buffer of exactly
    its eight bytes the comparison left the buffer (ASan: heap-buffer-overflow READ at
    dispatch.c:124); the repaired loop (the model of this file) stops at the NUL and
    answers `false`. -/
theorem args_overread_counterexample :
    (argString (mkMsg [97] [] [])).bind (argsUnfixed [58, 105, 105, 105, 105, 0]) = none ∧
    (argString (mkMsg [97] [] [])).bind (args [58, 105, 105, 105, 105, 0]) = some false ∧
    full ([97, 58, 105, 105, 105, 105] ++ [0]) (mkMsg [97] [] []) = some (false, some [0, 0, 0, 44, 0, 0, 0]) := by
  refine ⟨by decide, by decide, by decide⟩

/-! ### Non-vacuity -/

/-- `ab#12/c{x,yz}/:i:ff:` — literal text with an inner '/', an enumeration, a group,
    a trailing '/', three type alternatives (the last one empty) -/
def exPat : Pat :=
  { segs := [.lit [97, 98], .enum [49, 50], .lit [47, 99], .alts [[120], [121, 122]]],
    sub := true, types := some [[105], [102, 102], []] }

example : exPat.WF := by decide
example : exPat.cstr = [97, 98, 35, 49, 50, 47, 99, 123, 120, 44, 121, 122, 125, 47,
    58, 105, 58, 102, 102, 58, 0] := by decide

/-- "ab007/cyz/rest" -/
def exAddr : Bytes := [97, 98, 48, 48, 55, 47, 99, 121, 122, 47, 114, 101, 115, 116]

example : NulFree exAddr := by
  unfold NulFree exAddr; decide
example : IdxBounded exAddr := idxBounded_of_check (by decide)

/-- the address spells the pattern (index 007 < 12, alternative "yz", continues after
    the trailing '/') -/
example : PathSpec exPat exAddr :=
  ⟨[47, 114, 101, 115, 116],
   SpellsAll.lit [97, 98]
     (SpellsAll.enum [49, 50] [48, 48, 55] (by simp) (by decide) (by intro c t h; cases h; decide)
       (by decide)
       (SpellsAll.lit [47, 99] (SpellsAll.alts _ [121, 122] (by simp) (SpellsAll.nil _)))),
   ⟨_, rfl⟩⟩

example : SpecMatch exPat exAddr [102, 102] :=
  ⟨⟨[47, 114, 101, 115, 116],
    SpellsAll.lit [97, 98]
      (SpellsAll.enum [49, 50] [48, 48, 55] (by simp) (by decide) (by intro c t h; cases h; decide)
        (by decide)
        (SpellsAll.lit [47, 99] (SpellsAll.alts _ [121, 122] (by simp) (SpellsAll.nil _)))),
    ⟨_, rfl⟩⟩,
   by intro ts h; cases h; simp⟩

example : MsgMatches exPat.cstr (mkMsg exAddr [102, 102] [0, 0, 0, 0, 0, 0, 0, 0]) := by decide
example : ¬ MsgMatches exPat.cstr (mkMsg exAddr [102] [0, 0, 0, 0]) := by decide
/-- a message in a buffer of exactly its size (no byte behind the padded type string) and a
    pattern whose alternatives are longer than the type string: decided, no out-of-bounds read -/
example : ¬ MsgMatches exPat.cstr (mkMsg exAddr [102] []) := by decide
example : (full exPat.cstr (mkMsg exAddr [102] [])).isSome = true := by decide
example : MsgMatches exPat.cstr (mkMsg exAddr [] []) := by decide

/-- an instance of `enum_bound_strict`: index 12 is not below 12 -/
example : path exPat.cstr ([97, 98, 49, 50, 47, 99, 120, 47] ++ [0]) = .fail := by decide

/-- the copies are exercised on a pattern with a retry and a prefix match -/
example : argMatcher [58, 105, 58, 102, 0] [102, 102, 0] = some true := by decide

end Rtosc.Match
