/-
  C05 — Path-pattern matching follows the documented pattern language.
  Property theorems only; helper lemmas live in Proofs/MatchLemmas.lean.

  Reading of the statement
  * "every pattern of the documented form": `Pat.WF0 p` (Match/Spec.lean) — literal text
    over any characters but NUL `# { * :`, `#N` with N < 2^31, `{a,b,…}` over any
    characters but NUL `,` `}`, optional trailing '/', optional `:types` alternatives.
    The pattern string is `p.cstr` (rendering + NUL).
  * "a message": an address `addr` and a type string `tags` (C strings: no NUL inside),
    laid out as `mkMsg addr tags rest` (address and ",tags" each NUL-padded to a
    multiple of four, then `rest` = argument payload and whatever else the buffer holds).
    `rtosc_match_path` also accepts a plain C string: `addr ++ 0 :: ex`.
  * "indices … up to 9 digits": `EnumIdxBounded p addr` (Match/SpecExt.lean) — the digit
    runs of the address that stand at enumerations of the pattern denote numbers below 2^31
    (beyond that `atoi` wraps, see `atoi_wraps`, `match_sound_needs_enumIdx`).  The theorems
    of the first part carry the stronger `IdxBounded addr` (every digit run of the whole
    address); the `…_enum` theorems of the extension restate them with the weaker one, and
    completeness (`match_complete`, `msg_complete`) and memory safety (`match_total_all`,
    `msg_total_all`) need no hypothesis on digit runs at all.
  * "matches": `rtosc_match_path` returns non-NULL (`PathMatches`), `rtosc_match`
    returns true (`MsgMatches`).
  * The address part is an equivalence (`match_iff_spec`); for the type string the
    statement gives a sandwich (`types_sandwich`), the exact behaviour is `types_exact`.

  Deviations of the code from the statement found with the proof / the correspondence:
  * K2 (fixed, fixes/C05-colon-address.patch): a ':' in the pattern was compared with the
    address, so the address "a:i" matched the pattern "a:i" whatever its arguments.
    The model mirrors the repaired code; `colon_address_counterexample` records what the
    unrepaired cascade did.
  * the over-read of `rtosc_match_args` behind the type string (fixed,
    fixes/C05-args-overread.patch): `args_overread_counterexample`; the model mirrors the
    repaired loop, so no theorem carries a condition on the buffer behind the type string
    (`msg_total`).
  * K1 (known finding C05-K1): a `{}` group commits to the first alternative that is a
    prefix of the address (no backtracking), so `{a,ab}c` does not match "abc".
    Trigger predicate `Pat.hasPrefixAlts`; `match_complete_counterexample`,
    `match_complete_partial`.  Soundness (`match_sound`, `enum_bound_strict`, the
    right-hand side of the sandwich) does not need the exclusion.
    What the code does on the K1 class is stated exactly: it accepts an address iff the
    *leftmost-alternative reading* spells the pattern (`match_iff_leftmost`,
    `msg_iff_leftmost`, `k1_exact`, `enum_bound_leftmost`).
-/
import RtoscModel.Proofs.MatchLemmas
import RtoscModel.Proofs.MatchExtLeft
namespace Rtosc.Match
open Rtosc

/-- `rtosc_match_path(pattern, msg, …) != NULL` -/
def PathMatches (pat msg : Bytes) : Prop := ∃ r, path pat msg = .ok r

/-- `rtosc_match(pattern, msg, …)` returns true -/
def MsgMatches (pat msg : Bytes) : Prop := (full pat msg).map (·.1) = some true

instance (pat msg : Bytes) : Decidable (MsgMatches pat msg) := by unfold MsgMatches; infer_instance

/-- **match_sound** (the "no … ever matches" half, for *every* pattern of the documented
    form, prefix-related alternatives included): if `rtosc_match_path` accepts an
    address, the address spells the pattern as the statement says — literal text
    character for character, at each `#N` a whole decimal index < N, one of the
    alternatives, and it ends where the pattern's path ends (or continues after the
    trailing '/').  The returned pointer is the pattern's type part. -/
theorem match_sound {p : Pat} (hwf : p.WF0) {addr : Bytes} (ex : Bytes)
    (ha : NulFree addr) (hb : IdxBounded addr)
    (hm : PathMatches p.cstr (addr ++ 0 :: ex)) : PathSpec p addr := by
  obtain ⟨r, hr⟩ := hm
  rw [path_rendered hwf ex ha hb] at hr
  cases hg : greedy p.segs p.sub addr with
  | none => simp [hg] at hr
  | some t =>
    obtain ⟨rest, h1, h2⟩ := greedy_sound p.sub p.segs addr t hg
    refine ⟨rest, h1, ?_⟩
    cases hs : p.sub with
    | true => simp only [hs, ↓reduceIte] at h2 ⊢; exact ⟨t, h2⟩
    | false => simp only [hs, Bool.false_eq_true, ↓reduceIte] at h2 ⊢; exact h2.1

/-- The completeness half as the statement reads, for all patterns of the documented
    form.  It does **not** hold of the code: `match_complete_counterexample`. -/
def match_complete_statement : Prop :=
  ∀ (p : Pat), p.WF0 → ∀ (addr ex : Bytes), NulFree addr → IdxBounded addr →
    PathSpec p addr → PathMatches p.cstr (addr ++ 0 :: ex)

/-- **match_complete_partial**: every address that spells the pattern is accepted,
    provided no `{}` group has an alternative that is a proper prefix of another one
    (`¬ p.hasPrefixAlts`, the trigger of finding C05-K1). -/
theorem match_complete_partial {p : Pat} (hwf : p.WF0) (hk1 : p.hasPrefixAlts = false)
    {addr : Bytes} (ex : Bytes) (ha : NulFree addr) (hb : IdxBounded addr)
    (hs : PathSpec p addr) : PathMatches p.cstr (addr ++ 0 :: ex) := by
  have hpf : segsPrefixFree p.segs = true := by
    simpa [Pat.hasPrefixAlts, Pat.prefixFree] using hk1
  obtain ⟨rest, h1, h2⟩ := hs
  have hg := greedy_complete p.sub [] h1 hpf
  rw [List.append_nil] at hg
  rw [PathMatches, path_rendered hwf ex ha hb, hg]
  cases hsub : p.sub with
  | true =>
    simp only [hsub, ↓reduceIte] at h2
    obtain ⟨t, rfl⟩ := h2
    exact ⟨(renderTypes p.types ++ [0], t ++ 0 :: ex), by simp [greedy]⟩
  | false =>
    simp only [hsub, Bool.false_eq_true, ↓reduceIte] at h2
    subst h2
    exact ⟨(renderTypes p.types ++ [0], 0 :: ex), by simp [greedy]⟩

/-- **match_iff_spec**: for every well-formed pattern and every address,
    `rtosc_match_path` accepts exactly the addresses the statement describes. -/
theorem match_iff_spec {p : Pat} (hwf : p.WF) {addr : Bytes} (ex : Bytes)
    (ha : NulFree addr) (hb : IdxBounded addr) :
    PathMatches p.cstr (addr ++ 0 :: ex) ↔ PathSpec p addr := by
  have hpf : p.hasPrefixAlts = false := by
    have := wf_prefixFree hwf
    simpa [Pat.hasPrefixAlts, Pat.prefixFree] using this
  exact ⟨match_sound (wf_wf0 hwf) ex ha hb, match_complete_partial (wf_wf0 hwf) hpf ex ha hb⟩

/-- **match_total**: on these inputs `rtosc_match_path` never reads outside the two
    strings; it returns NULL or a pointer to the pattern's type part, with `*path_end`
    inside the address. -/
theorem match_total {p : Pat} (hwf : p.WF0) {addr : Bytes} (ex : Bytes)
    (ha : NulFree addr) (hb : IdxBounded addr) :
    path p.cstr (addr ++ 0 :: ex) = .fail ∨
    ∃ t, path p.cstr (addr ++ 0 :: ex) = .ok (renderTypes p.types ++ [0], t ++ 0 :: ex) ∧
      t.length ≤ addr.length := by
  rw [path_rendered hwf ex ha hb]
  cases hg : greedy p.segs p.sub addr with
  | none => exact Or.inl rfl
  | some t =>
    refine Or.inr ⟨t, rfl, ?_⟩
    obtain ⟨rest, h1, h2⟩ := greedy_sound p.sub p.segs addr t hg
    have hlen : ∀ {segs a r}, SpellsAll segs a r → r.length ≤ a.length := by
      intro segs a r h
      induction h with
      | nil r => exact Nat.le_refl _
      | lit s _ ih => simp only [List.length_append]; omega
      | enum ds idx _ _ _ _ _ ih => simp only [List.length_append]; omega
      | alts as x _ _ ih => simp only [List.length_append]; omega
    have := hlen h1
    cases hs : p.sub with
    | true => simp only [hs, ↓reduceIte] at h2; subst h2; simp only [List.length_cons] at this; omega
    | false => simp only [hs, Bool.false_eq_true, ↓reduceIte] at h2; simp [h2.2]

/-- **enum_bound_strict** (the array-safety corollary): an address that spells the
    segments in front of an enumeration `#N` and then carries the index `idx` — the
    whole digit run found there — with `idx ≥ N` is rejected, whatever follows. -/
theorem enum_bound_strict {p : Pat} (hwf : p.WF) {pre post : List Seg} {ds : Bytes}
    (hp : p.segs = pre ++ .enum ds :: post)
    {addr idx r : Bytes} (hsp : SpellsAll pre addr (idx ++ r))
    (hdig : ∀ c ∈ idx, isDigit c = true) (hmax : ∀ c t, r = c :: t → isDigit c = false)
    (hN : decVal ds ≤ decVal idx)
    (ex : Bytes) (ha : NulFree addr) (hb : IdxBounded addr) :
    path p.cstr (addr ++ 0 :: ex) = .fail := by
  have hpf := wf_prefixFree hwf
  rw [hp] at hpf
  have hpre : segsPrefixFree pre = true := by
    simp only [segsPrefixFree, List.all_append, Bool.and_eq_true] at hpf ⊢
    exact hpf.1
  have hg := greedy_complete p.sub (.enum ds :: post) hsp hpre
  obtain ⟨h1, h2⟩ := takeWhile_run hdig hmax
  rw [path_rendered (wf_wf0 hwf) ex ha hb, hp, hg]
  have : ¬ (idx ≠ [] ∧ decVal idx < decVal ds) := fun h => by omega
  simp [greedy, h1, this]

/-- the same for `rtosc_match`: no message with such an address matches -/
theorem enum_bound_strict_msg {p : Pat} (hwf : p.WF) {pre post : List Seg} {ds : Bytes}
    (hp : p.segs = pre ++ .enum ds :: post)
    {addr idx r : Bytes} (hsp : SpellsAll pre addr (idx ++ r))
    (hdig : ∀ c ∈ idx, isDigit c = true) (hmax : ∀ c t, r = c :: t → isDigit c = false)
    (hN : decVal ds ≤ decVal idx)
    (tags rest : Bytes) (ha : NulFree addr) (hb : IdxBounded addr) :
    full p.cstr (mkMsg addr tags rest) = some (false, none) := by
  obtain ⟨ex, hex⟩ := mkMsg_shape addr tags rest
  have := enum_bound_strict hwf hp hsp hdig hmax hN ex ha hb
  rw [← hex] at this
  simp [full, this]

/-- **msg_total** (memory safety of the whole of `rtosc_match`, after the repair
    fixes/C05-args-overread.patch): for every pattern of the documented form and every
    message laid out as `rtosc_amessage` does — *whatever* follows the padded type string,
    in particular nothing (`rest = []`, a buffer of exactly the message's size) —
    `rtosc_match` returns a verdict without reading outside the pattern or the message. -/
theorem msg_total {p : Pat} (hwf : p.WF0) {addr tags : Bytes} (rest : Bytes)
    (ha : NulFree addr) (hb : IdxBounded addr) (ht : NulFree tags) :
    ∃ r, full p.cstr (mkMsg addr tags rest) = some r := by
  obtain ⟨ex, _, hfull⟩ := full_rendered hwf rest ha hb ht
  rw [hfull]
  cases greedy p.segs p.sub addr with
  | none => exact ⟨_, rfl⟩
  | some t => exact ⟨_, rfl⟩

/-- **msg_sound** (the "no … ever matches" half for whole messages, for *every* pattern
    of the documented form, prefix-related alternatives included): a message that
    `rtosc_match` accepts has an address that spells the pattern, and — if the pattern
    gives type alternatives — a type string equal to or an extension of one of them. -/
theorem msg_sound {p : Pat} (hwf : p.WF0) {addr tags : Bytes} (rest : Bytes)
    (ha : NulFree addr) (hb : IdxBounded addr) (ht : NulFree tags)
    (hm : MsgMatches p.cstr (mkMsg addr tags rest)) : SpecMayMatch p addr tags := by
  obtain ⟨ex, hex, hfull⟩ := full_rendered hwf rest ha hb ht
  cases hg : greedy p.segs p.sub addr with
  | none => simp only [hg] at hfull; simp [MsgMatches, hfull] at hm
  | some t =>
    have hps : PathSpec p addr :=
      match_sound hwf ex ha hb ⟨(renderTypes p.types ++ [0], t ++ 0 :: ex), by
        rw [path_rendered hwf ex ha hb, hg]⟩
    refine ⟨hps, ?_⟩
    intro ts htypes
    simp only [hg, htypes] at hfull
    have htw := wf0_types hwf
    simp only [htypes, typesWf, Bool.and_eq_true, Bool.not_eq_eq_eq_not, Bool.not_true,
      List.isEmpty_eq_false_iff] at htw
    simp only [MsgMatches, hfull, Option.map_some, Option.some.injEq] at hm
    exact typesCode_loose htw.1 hm

/-- **msg_complete_partial**: a message whose address spells the pattern and whose type
    string is one of the alternatives (any type string if the pattern gives none) is
    accepted, provided no `{}` group has an alternative that is a proper prefix of
    another one (trigger of finding C05-K1).  No condition on the buffer behind the type
    string any more. -/
theorem msg_complete_partial {p : Pat} (hwf : p.WF0) (hk1 : p.hasPrefixAlts = false)
    {addr tags : Bytes} (rest : Bytes)
    (ha : NulFree addr) (hb : IdxBounded addr) (ht : NulFree tags)
    (hs : SpecMatch p addr tags) : MsgMatches p.cstr (mkMsg addr tags rest) := by
  obtain ⟨ex, hex, hfull⟩ := full_rendered hwf rest ha hb ht
  obtain ⟨hps, hty⟩ := hs
  obtain ⟨r, hr⟩ := match_complete_partial hwf hk1 ex ha hb hps
  rw [path_rendered hwf ex ha hb] at hr
  cases hg : greedy p.segs p.sub addr with
  | none => simp [hg] at hr
  | some t =>
    simp only [hg] at hfull
    cases htypes : p.types with
    | none => simp only [htypes] at hfull; simp [MsgMatches, hfull]
    | some ts =>
      simp only [htypes] at hfull
      simp [MsgMatches, hfull, typesCode_of_mem (hty ts htypes)]

/-- **types_sandwich**: for a well-formed pattern and any buffer content `rest` behind the
    message's type string (none at all included),
    (left) a message whose address spells the pattern and whose type string equals one
    of the alternatives (or any type string if the pattern gives none) matches;
    (right) a message that matches has such an address, and its type string is equal to
    or an extension of one of the alternatives.  (right) holds for every pattern of the
    documented form (`msg_sound`); (left) needs the K1 exclusion only
    (`msg_complete_partial`). -/
theorem types_sandwich {p : Pat} (hwf : p.WF) {addr tags : Bytes} (rest : Bytes)
    (ha : NulFree addr) (hb : IdxBounded addr) (ht : NulFree tags) :
    (SpecMatch p addr tags → MsgMatches p.cstr (mkMsg addr tags rest)) ∧
    (MsgMatches p.cstr (mkMsg addr tags rest) → SpecMayMatch p addr tags) := by
  have hpf : p.hasPrefixAlts = false := by
    have := wf_prefixFree hwf
    simpa [Pat.hasPrefixAlts, Pat.prefixFree] using this
  exact ⟨msg_complete_partial (wf_wf0 hwf) hpf rest ha hb ht, msg_sound (wf_wf0 hwf) rest ha hb ht⟩

/-- **types_exact**: what the type matcher really does — every alternative but the last
    must equal the type string, the last one matches every extension of itself (an
    empty last alternative matches only the empty type string). -/
theorem types_exact {p : Pat} (hwf : p.WF) {addr tags : Bytes} (rest : Bytes)
    (ha : NulFree addr) (hb : IdxBounded addr) (ht : NulFree tags) :
    MsgMatches p.cstr (mkMsg addr tags rest) ↔
      PathSpec p addr ∧ ∀ ts, p.types = some ts →
        tags ∈ ts ∨ ∃ l, ts.getLast? = some l ∧ l ≠ [] ∧ l <+: tags := by
  obtain ⟨ex, hex, hfull⟩ := full_rendered (wf_wf0 hwf) rest ha hb ht
  have hiff := match_iff_spec hwf ex ha hb
  rw [PathMatches, path_rendered (wf_wf0 hwf) ex ha hb] at hiff
  cases hg : greedy p.segs p.sub addr with
  | none =>
    simp only [hg] at hfull hiff
    have : ¬ PathSpec p addr := fun h => by simpa using hiff.mpr h
    simp [MsgMatches, hfull, this]
  | some t =>
    have hps : PathSpec p addr := hiff.mp ⟨(renderTypes p.types ++ [0], t ++ 0 :: ex), by simp [hg]⟩
    simp only [hg] at hfull
    cases htypes : p.types with
    | none => simp only [htypes] at hfull; simp [MsgMatches, hfull, hps]
    | some ts =>
      simp only [htypes] at hfull
      have htw := wf0_types (wf_wf0 hwf)
      simp only [htypes, typesWf, Bool.and_eq_true, Bool.not_eq_eq_eq_not, Bool.not_true,
        List.isEmpty_eq_false_iff] at htw
      simp only [MsgMatches, hfull, Option.map_some, Option.some.injEq, hps, true_and,
        forall_eq']
      exact typesCode_exact htw.1

/-- **copies_agree**: the two further copies of the type matcher in ports.cpp compute,
    on every pattern and every buffer (no well-formedness needed), exactly what
    `rtosc_match_args` of dispatch.c computes — out-of-bounds reads included. -/
theorem copies_agree (pattern buf : Bytes) :
    argMatcher pattern buf = args pattern buf ∧
    portMatcherArgs pattern buf = argsOfMsg pattern buf := by
  constructor
  · exact argMatcherFuel_eq _ pattern buf (Nat.lt_succ_self _)
  · rw [portMatcherArgs, portMatcherFuel_eq]
    cases pattern with
    | nil => rfl
    | cons c p =>
      simp only [argsOfMsg]
      by_cases hc : c ≠ 58
      · simp [hc]
      · simp only [hc, ↓reduceIte]
        cases argString buf with
        | none => rfl
        | some a => exact argMatcherFuel_eq _ (c :: p) a (Nat.lt_succ_self _)

/-! ### The two deviations -/

/-- pattern `{a,ab}c` -/
def k1Pat : Pat := { segs := [.alts [[97], [97, 98]], .lit [99]], sub := false, types := none }

/-- **match_complete_counterexample** (finding C05-K1): `{a,ab}c` is of the documented
    form, the address "abc" spells it (alternative "ab", then "c"), and
    `rtosc_match_path` returns NULL: the group committed to "a". -/
theorem match_complete_counterexample : ¬ match_complete_statement := by
  intro h
  have hs : PathSpec k1Pat [97, 98, 99] :=
    ⟨[], SpellsAll.alts _ [97, 98] (by simp) (SpellsAll.lit [99] (SpellsAll.nil [])), by simp [k1Pat]⟩
  have hb : IdxBounded [97, 98, 99] := IdxBounded_of_length (by simp)
  have hn : NulFree [97, 98, 99] := by intro c hc; simp at hc; rcases hc with rfl | rfl | rfl <;> decide
  obtain ⟨r, hr⟩ := h k1Pat (by decide) [97, 98, 99] [] hn hb hs
  have : path k1Pat.cstr ([97, 98, 99] ++ [0]) = .fail := by decide
  rw [this] at hr
  cases hr

/-- the trigger predicate singles this pattern out -/
example : k1Pat.hasPrefixAlts = true := by decide

/-- pattern `a:i` -/
def k2Pat : Pat := { segs := [.lit [97]], sub := false, types := some [[105]] }

/-- **colon_address_counterexample** (K2, repaired by fixes/C05-colon-address.patch):
    on the unrepaired cascade the message with address "a:i" and type string "s"
    matches the pattern `a:i` — although the address does not end where the pattern's
    path ends and "s" is not one of the listed type strings.  The repaired cascade (the model
    of this file) rejects it. -/
theorem colon_address_counterexample :
    fullUnfixed k2Pat.cstr (mkMsg [97, 58, 105] [115] []) = some true ∧
    ¬ SpecMayMatch k2Pat [97, 58, 105] [115] ∧
    (full k2Pat.cstr (mkMsg [97, 58, 105] [115] [])).map (·.1) = some false := by
  refine ⟨by decide, ?_, by decide⟩
  intro ⟨hps, _⟩
  have hb : IdxBounded [97, 58, 105] := IdxBounded_of_length (by simp)
  have hn : NulFree [97, 58, 105] := by intro c hc; simp at hc; rcases hc with rfl | rfl | rfl <;> decide
  obtain ⟨r, hr⟩ := (match_iff_spec (p := k2Pat) (by decide) [] hn hb).mpr hps
  have : path k2Pat.cstr ([97, 58, 105] ++ [0]) = .fail := by decide
  rw [this] at hr
  cases hr

/-! ### Remarks outside the statement (recorded, not alarms) -/

/-- Beyond the bound of `IdxBounded` the index wraps as `atoi` does:
    `#2` accepts the address "4294967296" (= 2^32). -/
theorem atoi_wraps :
    PathMatches ([35, 50] ++ [0]) ([52, 50, 57, 52, 57, 54, 55, 50, 57, 54] ++ [0]) :=
  ⟨([0], [0]), by decide⟩

/-- **args_overread_counterexample** (genuine defect, repaired by
    fixes/C05-args-overread.patch): the unrepaired `rtosc_match_args` advanced and read
    `arg_str` once per pattern character, also behind the NUL of the type string.  With the
    pattern `a:iiii` and the argument-less message "a\0\0\0,\0\0\0" in a buffer of exactly
    its eight bytes the comparison left the buffer (ASan: heap-buffer-overflow READ at
    dispatch.c:124); the repaired loop (the model of this file) stops at the NUL and
    answers `false`. -/
theorem args_overread_counterexample :
    (argString (mkMsg [97] [] [])).bind (argsUnfixed [58, 105, 105, 105, 105, 0]) = none ∧
    (argString (mkMsg [97] [] [])).bind (args [58, 105, 105, 105, 105, 0]) = some false ∧
    full ([97, 58, 105, 105, 105, 105] ++ [0]) (mkMsg [97] [] []) = some (false, some [0, 0, 0, 44, 0, 0, 0]) := by
  refine ⟨by decide, by decide, by decide⟩

/-! ### Non-vacuity -/

/-- `ab#12/c{x,yz}/:i:ff:` — literal text with an inner '/', an enumeration, a group,
    a trailing '/', three type alternatives (the last one empty) -/
def exPat : Pat :=
  { segs := [.lit [97, 98], .enum [49, 50], .lit [47, 99], .alts [[120], [121, 122]]],
    sub := true, types := some [[105], [102, 102], []] }

example : exPat.WF := by decide
example : exPat.cstr = [97, 98, 35, 49, 50, 47, 99, 123, 120, 44, 121, 122, 125, 47,
    58, 105, 58, 102, 102, 58, 0] := by decide

/-- "ab007/cyz/rest" -/
def exAddr : Bytes := [97, 98, 48, 48, 55, 47, 99, 121, 122, 47, 114, 101, 115, 116]

example : NulFree exAddr := by
  unfold NulFree exAddr; decide
example : IdxBounded exAddr := idxBounded_of_check (by decide)

/-- the address spells the pattern (index 007 < 12, alternative "yz", continues after
    the trailing '/') -/
example : PathSpec exPat exAddr :=
  ⟨[47, 114, 101, 115, 116],
   SpellsAll.lit [97, 98]
     (SpellsAll.enum [49, 50] [48, 48, 55] (by simp) (by decide) (by intro c t h; cases h; decide)
       (by decide)
       (SpellsAll.lit [47, 99] (SpellsAll.alts _ [121, 122] (by simp) (SpellsAll.nil _)))),
   ⟨_, rfl⟩⟩

example : SpecMatch exPat exAddr [102, 102] :=
  ⟨⟨[47, 114, 101, 115, 116],
    SpellsAll.lit [97, 98]
      (SpellsAll.enum [49, 50] [48, 48, 55] (by simp) (by decide) (by intro c t h; cases h; decide)
        (by decide)
        (SpellsAll.lit [47, 99] (SpellsAll.alts _ [121, 122] (by simp) (SpellsAll.nil _)))),
    ⟨_, rfl⟩⟩,
   by intro ts h; cases h; simp⟩

example : MsgMatches exPat.cstr (mkMsg exAddr [102, 102] [0, 0, 0, 0, 0, 0, 0, 0]) := by decide
example : ¬ MsgMatches exPat.cstr (mkMsg exAddr [102] [0, 0, 0, 0]) := by decide
/-- a message in a buffer of exactly its size (no byte behind the padded type string) and a
    pattern whose alternatives are longer than the type string: decided, no out-of-bounds read -/
example : ¬ MsgMatches exPat.cstr (mkMsg exAddr [102] []) := by decide
example : (full exPat.cstr (mkMsg exAddr [102] [])).isSome = true := by decide
example : MsgMatches exPat.cstr (mkMsg exAddr [] []) := by decide

/-- an instance of `enum_bound_strict`: index 12 is not below 12 -/
example : path exPat.cstr ([97, 98, 49, 50, 47, 99, 120, 47] ++ [0]) = .fail := by decide

/-- the copies are exercised on a pattern with a retry and a prefix match -/
example : argMatcher [58, 105, 58, 102, 0] [102, 102, 0] = some true := by decide

/-! ## Proof extension: the hypothesis on digit runs weakened, full completeness,
    the leftmost-alternative reading -/

/-! ### (1) `IdxBounded` weakened to the digit runs at enumerations -/

/-- **idxBounded_enumIdx**: the old hypothesis (every digit run of the whole address below
    2^31) implies the new one (only the digit runs that stand at enumerations of the
    pattern), for every pattern. -/
theorem idxBounded_enumIdx (p : Pat) {addr : Bytes} (hb : IdxBounded addr) : EnumIdxBounded p addr :=
  enumRunsBounded_of_idxBounded p.segs hb

/-- **enumIdxBounded_iff_check**: the new hypothesis is decidable (evaluated by `enumIdxCheck`). -/
theorem enumIdxBounded_iff_check (p : Pat) (addr : Bytes) :
    EnumIdxBounded p addr ↔ enumIdxCheck p.segs addr = true :=
  enumRunsBounded_iff_check p.segs addr

/-- **enumIdxBounded_of_all_readings**: the form of the hypothesis that does not mention the
    leftmost reading — the digit run behind *every* reading of the segments in front of an
    enumeration is below 2^31 — implies it. -/
theorem enumIdxBounded_of_all_readings {p : Pat} {addr : Bytes}
    (h : ∀ pre ds post x, p.segs = pre ++ .enum ds :: post → SpellsAll pre addr x →
      decVal (x.takeWhile isDigit) < 2 ^ 31) : EnumIdxBounded p addr :=
  enumRunsBounded_of_all h

/-- **match_total_all** (memory safety of `rtosc_match_path` with *no* hypothesis on the digit
    runs): for every pattern of the documented form and every C-string address the walk
    reads nothing outside the two strings; it returns NULL or a pointer to the pattern's type
    part, with `*path_end` pointing into the address. -/
theorem match_total_all {p : Pat} (hwf : p.WF0) {addr : Bytes} (ex : Bytes) (ha : NulFree addr) :
    path p.cstr (addr ++ 0 :: ex) = .fail ∨
    ∃ t, path p.cstr (addr ++ 0 :: ex) = .ok (renderTypes p.types ++ [0], t ++ 0 :: ex) ∧
      t <:+ addr := by
  rw [path_renderedU hwf ex ha]
  cases hg : greedyU p.segs p.sub addr with
  | none => exact Or.inl rfl
  | some t => exact Or.inr ⟨t, rfl, greedyU_suffix p.sub p.segs addr t hg⟩

/-- **msg_total_all** (memory safety of `rtosc_match` with no hypothesis on the digit runs):
    every message laid out as `rtosc_amessage` does, in a buffer of any size from exactly
    the message's own on, gets a verdict. -/
theorem msg_total_all {p : Pat} (hwf : p.WF0) {addr tags : Bytes} (rest : Bytes)
    (ha : NulFree addr) (ht : NulFree tags) :
    ∃ r, full p.cstr (mkMsg addr tags rest) = some r := by
  obtain ⟨ex, _, hfull⟩ := full_renderedU hwf rest ha ht
  rw [hfull]
  cases greedyU p.segs p.sub addr with
  | none => exact ⟨_, rfl⟩
  | some t => exact ⟨_, rfl⟩

/-! ### (3) the leftmost-alternative reading: what the matcher accepts on *every* pattern of
    the documented form (the K1 class included) -/

/-- **leftmost_spells**: a leftmost reading is a reading in the sense of the statement. -/
theorem leftmost_spells {p : Pat} {addr : Bytes} (h : PathSpecLeftmost p addr) : PathSpec p addr := by
  obtain ⟨rest, h1, h2⟩ := h
  exact ⟨rest, h1.spells, h2⟩

/-- **leftmost_iff_spec**: on prefix-free groups the two notions coincide. -/
theorem leftmost_iff_spec {p : Pat} (hpf : p.hasPrefixAlts = false) (addr : Bytes) :
    PathSpecLeftmost p addr ↔ PathSpec p addr := by
  have hpf' : segsPrefixFree p.segs = true := by
    simpa [Pat.hasPrefixAlts, Pat.prefixFree] using hpf
  constructor
  · exact leftmost_spells
  · rintro ⟨rest, h1, h2⟩
    exact ⟨rest, spellsAll_leftmost h1 hpf', h2⟩

/-- **match_leftmost_complete** (completeness for *every* pattern of the documented form,
    no hypothesis on digit runs): an address whose leftmost-alternative reading spells the
    pattern is accepted. -/
theorem match_leftmost_complete {p : Pat} (hwf : p.WF0) {addr : Bytes} (ex : Bytes)
    (ha : NulFree addr) (hs : PathSpecLeftmost p addr) : PathMatches p.cstr (addr ++ 0 :: ex) := by
  obtain ⟨rest, h1, _⟩ := hs
  have hb := enumIdxBounded_of_leftmost hwf h1
  obtain ⟨t, ht⟩ := (greedy_iff_leftmost p addr).mpr ⟨rest, h1, ‹_›⟩
  exact ⟨_, by rw [path_rendered_enum hwf ex ha hb, ht]⟩

/-- **match_iff_leftmost** (the K1 class made precise): for every pattern of the documented
    form — groups with prefix-related alternatives included — `rtosc_match_path` accepts
    an address iff its *leftmost-alternative reading* spells the pattern: literal text
    character for character, at each `#N` a whole decimal index < N, at each `{}` group the
    first alternative (in pattern order) that is a prefix of what is left of the address,
    and the address ends where the pattern's path ends (or continues after the trailing '/'). -/
theorem match_iff_leftmost {p : Pat} (hwf : p.WF0) {addr : Bytes} (ex : Bytes)
    (ha : NulFree addr) (hb : EnumIdxBounded p addr) :
    PathMatches p.cstr (addr ++ 0 :: ex) ↔ PathSpecLeftmost p addr := by
  refine ⟨?_, match_leftmost_complete hwf ex ha⟩
  rintro ⟨r, hr⟩
  rw [path_rendered_enum hwf ex ha hb] at hr
  apply (greedy_iff_leftmost p addr).mp
  cases hg : greedy p.segs p.sub addr with
  | none => simp [hg] at hr
  | some t => exact ⟨t, rfl⟩

/-- **k1_exact**: the addresses finding C05-K1 is about — they spell the pattern, the code
    rejects them — are exactly those that spell it by a reading other than the leftmost one only. -/
theorem k1_exact {p : Pat} (hwf : p.WF0) {addr : Bytes} (ex : Bytes)
    (ha : NulFree addr) (hb : EnumIdxBounded p addr) :
    (PathSpec p addr ∧ ¬ PathMatches p.cstr (addr ++ 0 :: ex)) ↔
    (PathSpec p addr ∧ ¬ PathSpecLeftmost p addr) := by
  rw [match_iff_leftmost hwf ex ha hb]

/-- **leftmost_unique**: an address has at most one leftmost reading. -/
theorem leftmost_unique {segs : List Seg} {a r1 r2 : Bytes}
    (h1 : SpellsLeftmost segs a r1) (h2 : SpellsLeftmost segs a r2) : r1 = r2 :=
  spellsLeftmost_unique h1 h2 rfl

/-! ### soundness under the weakened hypothesis, completeness without any -/

/-- **match_sound_enum**: `match_sound` with `IdxBounded` weakened to the digit runs that
    stand at enumerations of the pattern. -/
theorem match_sound_enum {p : Pat} (hwf : p.WF0) {addr : Bytes} (ex : Bytes)
    (ha : NulFree addr) (hb : EnumIdxBounded p addr)
    (hm : PathMatches p.cstr (addr ++ 0 :: ex)) : PathSpec p addr :=
  leftmost_spells ((match_iff_leftmost hwf ex ha hb).mp hm)

/-- **match_complete** (completeness of `rtosc_match_path` at full strength for patterns with
    prefix-free groups): every C-string address that spells the pattern is accepted — no
    hypothesis on digit runs (the indices the address carries are below N < 2^31 because it
    spells the pattern; digit runs elsewhere are compared as text). -/
theorem match_complete {p : Pat} (hwf : p.WF) {addr : Bytes} (ex : Bytes) (ha : NulFree addr)
    (hs : PathSpec p addr) : PathMatches p.cstr (addr ++ 0 :: ex) := by
  have hpf : p.hasPrefixAlts = false := by
    have := wf_prefixFree hwf
    simpa [Pat.hasPrefixAlts, Pat.prefixFree] using this
  exact match_leftmost_complete (wf_wf0 hwf) ex ha ((leftmost_iff_spec hpf addr).mpr hs)

/-- **match_iff_spec_enum**: `match_iff_spec` with `IdxBounded` weakened to the digit runs
    that stand at enumerations of the pattern. -/
theorem match_iff_spec_enum {p : Pat} (hwf : p.WF) {addr : Bytes} (ex : Bytes)
    (ha : NulFree addr) (hb : EnumIdxBounded p addr) :
    PathMatches p.cstr (addr ++ 0 :: ex) ↔ PathSpec p addr :=
  ⟨match_sound_enum (wf_wf0 hwf) ex ha hb, match_complete hwf ex ha⟩

/-- **match_sound_needs_enumIdx**: the weakened hypothesis cannot be dropped: `#2` accepts the
    address "4294967296" (`atoi` wraps to 0), which carries an index ≥ 2 at the enumeration. -/
theorem match_sound_needs_enumIdx :
    let p : Pat := { segs := [.enum [50]], sub := false, types := none }
    let addr : Bytes := [52, 50, 57, 52, 57, 54, 55, 50, 57, 54]
    p.WF ∧ NulFree addr ∧ PathMatches p.cstr (addr ++ [0]) ∧ ¬ PathSpec p addr ∧
      ¬ EnumIdxBounded p addr := by
  intro p addr
  have hwf : p.WF := by decide
  have hn : NulFree addr := by unfold NulFree; decide
  have hm : PathMatches p.cstr (addr ++ [0]) := ⟨([0], [0]), by decide⟩
  have hnb : ¬ EnumIdxBounded p addr := by decide
  refine ⟨hwf, hn, hm, ?_, hnb⟩
  intro hs
  have hb := enumIdxBounded_of_leftmost (wf_wf0 hwf)
    ((leftmost_iff_spec (by decide) addr).mpr hs).choose_spec.1
  exact hnb hb

/-- **msg_iff_leftmost** (goal: the K1 class made precise, for whole messages): for every
    pattern of the documented form `rtosc_match` accepts a message iff the leftmost-alternative
    reading of its address spells the pattern and its type string is one of the alternatives
    or an extension of the last one. -/
theorem msg_iff_leftmost {p : Pat} (hwf : p.WF0) {addr tags : Bytes} (rest : Bytes)
    (ha : NulFree addr) (hb : EnumIdxBounded p addr) (ht : NulFree tags) :
    MsgMatches p.cstr (mkMsg addr tags rest) ↔ PathSpecLeftmost p addr ∧ TypesCode p tags := by
  obtain ⟨ex, hex, hfull⟩ := full_rendered_enum hwf rest ha hb ht
  have hiff := greedy_iff_leftmost p addr
  cases hg : greedy p.segs p.sub addr with
  | none =>
    simp only [hg] at hfull hiff
    have : ¬ PathSpecLeftmost p addr := fun h => by simpa using hiff.mpr h
    simp [MsgMatches, hfull, this]
  | some t =>
    have hps : PathSpecLeftmost p addr := hiff.mp ⟨t, hg⟩
    simp only [hg] at hfull
    cases htypes : p.types with
    | none => simp only [htypes] at hfull; simp [MsgMatches, hfull, hps, TypesCode, htypes]
    | some ts =>
      simp only [htypes] at hfull
      have htw := wf0_types hwf
      simp only [htypes, typesWf, Bool.and_eq_true, Bool.not_eq_eq_eq_not, Bool.not_true,
        List.isEmpty_eq_false_iff] at htw
      simp only [MsgMatches, hfull, Option.map_some, Option.some.injEq, hps, true_and, TypesCode,
        htypes, forall_eq']
      exact typesCode_exact htw.1

/-- **msg_sound_enum**: `msg_sound` with `IdxBounded` weakened to the digit runs that stand at
    enumerations of the pattern. -/
theorem msg_sound_enum {p : Pat} (hwf : p.WF0) {addr tags : Bytes} (rest : Bytes)
    (ha : NulFree addr) (hb : EnumIdxBounded p addr) (ht : NulFree tags)
    (hm : MsgMatches p.cstr (mkMsg addr tags rest)) : SpecMayMatch p addr tags := by
  obtain ⟨hps, hty⟩ := (msg_iff_leftmost hwf rest ha hb ht).mp hm
  refine ⟨leftmost_spells hps, ?_⟩
  intro ts htypes
  rcases hty ts htypes with h | ⟨l, hl, _, hpre⟩
  · exact ⟨tags, h, List.prefix_refl _⟩
  · exact ⟨l, List.mem_of_getLast? hl, hpre⟩

/-- **msg_leftmost_complete** (message-level completeness for *every* pattern of the
    documented form): a message whose address spells the pattern by its leftmost-alternative
    reading and whose type string is one of the alternatives (any type string, C string or
    not, if the pattern gives none) is accepted — whatever digit runs the address holds and
    whatever follows the message in its buffer. -/
theorem msg_leftmost_complete {p : Pat} (hwf : p.WF0) {addr tags : Bytes} (rest : Bytes)
    (ha : NulFree addr) (hs : PathSpecLeftmost p addr) (hty : TypesExact p tags) :
    MsgMatches p.cstr (mkMsg addr tags rest) := by
  have hb : EnumIdxBounded p addr := enumIdxBounded_of_leftmost hwf hs.choose_spec.1
  obtain ⟨t, hg⟩ := (greedy_iff_leftmost p addr).mpr hs
  cases htypes : p.types with
  | none =>
    obtain ⟨ex, _, hfull⟩ := full_renderedU_untyped hwf htypes tags rest ha
    rw [greedyU_eq_greedy_of hwf hb, hg] at hfull
    simp [MsgMatches, hfull]
  | some ts =>
    have hmem := hty ts htypes
    have ht : NulFree tags := wf0_types_nulFree hwf htypes hmem
    refine (msg_iff_leftmost hwf rest ha hb ht).mpr ⟨hs, ?_⟩
    intro ts' h'
    rw [htypes] at h'
    cases h'
    exact Or.inl hmem

/-- **msg_complete** (message-level completeness at full strength, the clause "a message
    matches … when its address spells … and, if type alternatives are given, its type tag
    string equals one of them"): for every well-formed pattern (prefix-free groups) and every
    message whose address — a C string — spells the pattern and whose type string is one of
    the alternatives (any type string if the pattern gives none), `rtosc_match` accepts.  No
    hypothesis on the digit runs of the address, none on the type string beyond the statement's,
    none on the buffer behind the message. -/
theorem msg_complete {p : Pat} (hwf : p.WF) {addr tags : Bytes} (rest : Bytes)
    (ha : NulFree addr) (hs : SpecMatch p addr tags) : MsgMatches p.cstr (mkMsg addr tags rest) := by
  have hpf : p.hasPrefixAlts = false := by
    have := wf_prefixFree hwf
    simpa [Pat.hasPrefixAlts, Pat.prefixFree] using this
  exact msg_leftmost_complete (wf_wf0 hwf) rest ha ((leftmost_iff_spec hpf addr).mpr hs.1) hs.2

/-- **types_exact_enum**: `types_exact` with `IdxBounded` weakened to the digit runs that
    stand at enumerations of the pattern. -/
theorem types_exact_enum {p : Pat} (hwf : p.WF) {addr tags : Bytes} (rest : Bytes)
    (ha : NulFree addr) (hb : EnumIdxBounded p addr) (ht : NulFree tags) :
    MsgMatches p.cstr (mkMsg addr tags rest) ↔ PathSpec p addr ∧ TypesCode p tags := by
  have hpf : p.hasPrefixAlts = false := by
    have := wf_prefixFree hwf
    simpa [Pat.hasPrefixAlts, Pat.prefixFree] using this
  rw [msg_iff_leftmost (wf_wf0 hwf) rest ha hb ht, leftmost_iff_spec hpf addr]

/-- **types_sandwich_enum**: `types_sandwich` with (left) no hypothesis on digit runs or on
    the type string, (right) `IdxBounded` weakened. -/
theorem types_sandwich_enum {p : Pat} (hwf : p.WF) {addr tags : Bytes} (rest : Bytes)
    (ha : NulFree addr) :
    (SpecMatch p addr tags → MsgMatches p.cstr (mkMsg addr tags rest)) ∧
    (EnumIdxBounded p addr → NulFree tags →
      MsgMatches p.cstr (mkMsg addr tags rest) → SpecMayMatch p addr tags) :=
  ⟨msg_complete hwf rest ha, fun hb ht => msg_sound_enum (wf_wf0 hwf) rest ha hb ht⟩

/-! ### the enumeration bound -/

/-- **enum_bound_leftmost** (the array-safety corollary for *every* pattern of the documented
    form): an address whose leftmost reading of the segments in front of an enumeration `#N`
    is followed by an index `idx` — the whole digit run found there, itself below 2^31 —
    with `idx ≥ N` is rejected, whatever follows.  No hypothesis on any other digit run. -/
theorem enum_bound_leftmost {p : Pat} (hwf : p.WF0) {pre post : List Seg} {ds : Bytes}
    (hp : p.segs = pre ++ .enum ds :: post)
    {addr idx r : Bytes} (hsp : SpellsLeftmost pre addr (idx ++ r))
    (hdig : ∀ c ∈ idx, isDigit c = true) (hmax : ∀ c t, r = c :: t → isDigit c = false)
    (hN : decVal ds ≤ decVal idx) (hidx : decVal idx < 2 ^ 31)
    (ex : Bytes) (ha : NulFree addr) :
    path p.cstr (addr ++ 0 :: ex) = .fail := by
  obtain ⟨h1, h2⟩ := takeWhile_run hdig hmax
  have hNs := segsWf_enum (wf0_segs hwf)
  rw [hp] at hNs
  have hck : enumIdxCheck p.segs addr = true := by
    rw [hp, enumIdxCheck_prefix hsp (fun ds' h => hNs ds' (by simp [h]))]
    have : ¬ (idx ≠ [] ∧ decVal idx < decVal ds) := fun h => by omega
    simp [enumIdxCheck, h1, hidx, this]
  have hg := greedy_leftmost_complete p.sub (.enum ds :: post) hsp
  rw [path_rendered_enum hwf ex ha ((enumIdxBounded_iff_check p addr).mpr hck), hp, hg]
  have : ¬ (idx ≠ [] ∧ decVal idx < decVal ds) := fun h => by omega
  simp [greedy, h1, this]

/-- **enum_bound_strict_idx**: `enum_bound_strict` with `IdxBounded addr` weakened to a bound
    on the one index in question. -/
theorem enum_bound_strict_idx {p : Pat} (hwf : p.WF) {pre post : List Seg} {ds : Bytes}
    (hp : p.segs = pre ++ .enum ds :: post)
    {addr idx r : Bytes} (hsp : SpellsAll pre addr (idx ++ r))
    (hdig : ∀ c ∈ idx, isDigit c = true) (hmax : ∀ c t, r = c :: t → isDigit c = false)
    (hN : decVal ds ≤ decVal idx) (hidx : decVal idx < 2 ^ 31)
    (ex : Bytes) (ha : NulFree addr) :
    path p.cstr (addr ++ 0 :: ex) = .fail := by
  have hpf := wf_prefixFree hwf
  rw [hp] at hpf
  have hpre : segsPrefixFree pre = true := by
    simp only [segsPrefixFree, List.all_append, Bool.and_eq_true] at hpf ⊢
    exact hpf.1
  exact enum_bound_leftmost (wf_wf0 hwf) hp (spellsAll_leftmost hsp hpre) hdig hmax hN hidx ex ha

/-- the same for `rtosc_match`: no message with such an address matches -/
theorem enum_bound_leftmost_msg {p : Pat} (hwf : p.WF0) {pre post : List Seg} {ds : Bytes}
    (hp : p.segs = pre ++ .enum ds :: post)
    {addr idx r : Bytes} (hsp : SpellsLeftmost pre addr (idx ++ r))
    (hdig : ∀ c ∈ idx, isDigit c = true) (hmax : ∀ c t, r = c :: t → isDigit c = false)
    (hN : decVal ds ≤ decVal idx) (hidx : decVal idx < 2 ^ 31)
    (tags rest : Bytes) (ha : NulFree addr) :
    full p.cstr (mkMsg addr tags rest) = some (false, none) := by
  obtain ⟨ex, hex⟩ := mkMsg_shape addr tags rest
  have := enum_bound_leftmost hwf hp hsp hdig hmax hN hidx ex ha
  rw [← hex] at this
  simp [full, this]

/-- pattern `{a1,a}#5` -/
def k1EnumPat : Pat := { segs := [.alts [[97, 49], [97]], .enum [53]], sub := false, types := none }

/-- **enum_bound_needs_leftmost**: with prefix-related alternatives the enumeration bound holds
    of the leftmost reading only.  `{a1,a}#5` and the address "a12": read with the alternative
    "a" the index is 12 ≥ 5, and the address is accepted all the same — by its leftmost reading
    (alternative "a1", index 2 < 5), which is a reading in the sense of the statement, so the
    accepted index is below N (`match_sound_enum`). -/
theorem enum_bound_needs_leftmost :
    k1EnumPat.WF0 ∧ SpellsAll [.alts [[97, 49], [97]]] [97, 49, 50] ([49, 50] ++ []) ∧
    decVal [53] ≤ decVal [49, 50] ∧
    PathMatches k1EnumPat.cstr ([97, 49, 50] ++ [0]) ∧ PathSpecLeftmost k1EnumPat [97, 49, 50] := by
  have hm : PathMatches k1EnumPat.cstr ([97, 49, 50] ++ [0]) := ⟨([0], [0]), by decide⟩
  have hn : NulFree [97, 49, 50] := by unfold NulFree; decide
  refine ⟨by decide, SpellsAll.alts _ [97] (by simp) (SpellsAll.nil _), by decide, hm,
    (match_iff_leftmost (p := k1EnumPat) (by decide) [] hn (by decide)).mp hm⟩

/-! ### Non-vacuity of the extension -/

/-- `v4294967296x#12{y,yz}z:i` — literal text that holds a digit run ≥ 2^32, an enumeration,
    a group with prefix-related alternatives (K1 class), a type alternative -/
def exPat2 : Pat :=
  { segs := [.lit [118, 52, 50, 57, 52, 57, 54, 55, 50, 57, 54, 120], .enum [49, 50],
             .alts [[121], [121, 122]], .lit [122]],
    sub := false, types := some [[105]] }

/-- "v4294967296x007yz" -/
def exAddr2 : Bytes := [118, 52, 50, 57, 52, 57, 54, 55, 50, 57, 54, 120, 48, 48, 55, 121, 122]

example : exPat2.WF0 := by decide
example : exPat2.hasPrefixAlts = true := by decide
example : NulFree exAddr2 := by unfold NulFree exAddr2; decide
/-- the weakened hypothesis holds … -/
example : EnumIdxBounded exPat2 exAddr2 := by decide
/-- … the old one does not: the digit run inside the literal text is 2^32 -/
example : ¬ IdxBounded exAddr2 := fun h =>
  absurd (h [118] [52, 50, 57, 52, 57, 54, 55, 50, 57, 54] [120, 48, 48, 55, 121, 122] rfl (by decide))
    (by decide)
/-- the leftmost reading: literal text, index 007 < 12, alternative "y", then "z" -/
example : PathSpecLeftmost exPat2 exAddr2 :=
  ⟨[], SpellsLeftmost.lit _
    (SpellsLeftmost.enum [49, 50] [48, 48, 55] (by simp) (by decide) (by intro c t h; cases h; decide)
      (by decide)
      (SpellsLeftmost.alts _ [] [121] [[121, 122]] rfl (by simp)
        (SpellsLeftmost.lit [122] (SpellsLeftmost.nil [])))), by simp [exPat2]⟩
example : MsgMatches exPat2.cstr (mkMsg exAddr2 [105] []) := by decide
/-- "v4294967296x007yzz" spells the pattern (alternative "yz", then "z") but not by its
    leftmost reading: rejected (finding C05-K1) -/
example : ¬ MsgMatches exPat2.cstr (mkMsg (exAddr2 ++ [122]) [105] []) := by decide

/-- the K1 witness `{a,ab}c` / "abc" in the terms of `k1_exact`: it spells the pattern, but
    not by its leftmost reading -/
example : PathSpec k1Pat [97, 98, 99] ∧ ¬ PathSpecLeftmost k1Pat [97, 98, 99] := by
  have hn : NulFree [97, 98, 99] := by unfold NulFree; decide
  refine ⟨⟨[], SpellsAll.alts _ [97, 98] (by simp) (SpellsAll.lit [99] (SpellsAll.nil [])), by simp [k1Pat]⟩, ?_⟩
  intro h
  obtain ⟨r, hr⟩ := match_leftmost_complete (p := k1Pat) (by decide) [] hn h
  have : path k1Pat.cstr ([97, 98, 99] ++ [0]) = .fail := by decide
  rw [this] at hr
  cases hr

/-- `msg_complete` on the example of the first part: no bound on digit runs asked for -/
example : MsgMatches exPat.cstr (mkMsg exAddr [102, 102] []) :=
  msg_complete (by decide) [] (by unfold NulFree exAddr; decide)
    ⟨⟨[47, 114, 101, 115, 116],
      SpellsAll.lit [97, 98]
        (SpellsAll.enum [49, 50] [48, 48, 55] (by simp) (by decide) (by intro c t h; cases h; decide)
          (by decide)
          (SpellsAll.lit [47, 99] (SpellsAll.alts _ [121, 122] (by simp) (SpellsAll.nil _)))),
      ⟨_, rfl⟩⟩,
     by intro ts h; cases h; simp⟩

end Rtosc.Match
