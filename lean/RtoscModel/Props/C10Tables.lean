/-
  C10 — the table obligations, in a module of their own: when a constant or table of
  src/cpp/pretty-format.c changes (compression threshold, escape tables, try-order of the numeric
  formats in scanf_fmtstr, reserved words, default print options), this module stops checking and
  names the table; the other C10 theorems (Props/C10.lean) are untouched.

  `Generated/PrettyConst.lean` is regenerated from /repo by `translate_pretty_tables`
  (tools/props/c10.py).  If a table disagrees, the `#eval` below prints, into the build log that
  goes into the replay file, *which* table and *which* entry no longer agree.  (For a scratch tree
  the shared generated file is not rewritten: the translator compares that tree's tables with the
  committed ones and reports each differing entry as an obligation of its own.)

  The try-order of scanf_fmtstr is compared as an ORDERED list (the model `scanfFmtstr` takes the
  first format that consumes the whole numeric word), up to ONE commutation that is proved not to
  change any answer: "%*lfd%n" and "%*ff%n" are neighbours and can never both consume the same
  non-empty word (`scanfFmtstr_swap_lfd_ff`, Proofs/PrettyTryOrder.lean), so the source may try
  them in either order.  Any other reordering is reported as a broken obligation that names the
  entry.
-/
import RtoscModel.Pretty.Check
import RtoscModel.Proofs.PrettyTryOrder
import RtoscModel.Generated.PrettyConst
namespace Rtosc.Pretty
open Rtosc Rtosc.Libc

/-- the order in which the model tries the numeric formats -/
def modelTryOrder : List NumFmt := [.h, .d, .ii, .x, .lfd, .ff, .f]

def NumFmt.name : NumFmt → String
  | .h => "h" | .d => "d" | .ii => "ii" | .x => "x" | .lfd => "lfd" | .ff => "ff" | .f => "f"

theorem scanfFmtstr_order (s : Bytes) :
    scanfFmtstr s = modelTryOrder.find? (fun nf => scanRd nf.tryDirs s = numWordLen s) := rfl

/-- the model's try-order in the shape of the generated table -/
def modelTryTable : List (String × UInt8) := modelTryOrder.map (fun nf => (nf.name, nf.type))

/-- the same order with the two mutually exclusive neighbours "%*lfd%n" / "%*ff%n" swapped -/
def swappedTryOrder : List NumFmt := [.h, .d, .ii, .x, .ff, .lfd, .f]

def swappedTryTable : List (String × UInt8) := swappedTryOrder.map (fun nf => (nf.name, nf.type))

/-- trying in the swapped order gives the same answer on every text -/
theorem scanfFmtstr_order_swapped (s : Bytes) :
    scanfFmtstr s = swappedTryOrder.find? (fun nf => scanRd nf.tryDirs s = numWordLen s) :=
  scanfFmtstr_swap_lfd_ff s

/-- `default_print_options` as the model has it, in the shape of the generated constant -/
def modelDefaultOpt : Bool × Nat × Int × Bool :=
  (defaultOpt.lossless, defaultOpt.prec, defaultOpt.linelength, defaultOpt.compress)

/-- one line per disagreement between the source's tables and the model -/
def tableReport : List String :=
  let pre := "C10 tables_agree (src/cpp/pretty-format.c): "
  (if Generated.translatorOK then [] else [pre ++ "the translator could not read the tables"]) ++
  (if rangeMin = Generated.rangeMin then [] else
    [pre ++ s!"range_min is {Generated.rangeMin} in the source, {rangeMin} in the model"]) ++
  (Generated.escapeTable.filterMap fun p =>
    if asEscapedChar p.1 true = some p.2 ∧ asEscapedChar p.1 false = some p.2 then none
    else some (pre ++ s!"as_escaped_char: case {p.1} returns {p.2} in the source, the model " ++
      s!"{(asEscapedChar p.1 true).map (·.toNat)} / {(asEscapedChar p.1 false).map (·.toNat)}")) ++
  (Generated.escapeDefault.filterMap fun p =>
    if asEscapedChar p.2.1 p.1 = some p.2.2 then none
    else some (pre ++ s!"as_escaped_char default branch: chr={p.1} character {p.2.1} returns {p.2.2} in the source")) ++
  (Generated.unescapeTable.filterMap fun p =>
    if getEscapedChar p.1 true = p.2 ∧ getEscapedChar p.1 false = p.2 then none
    else some (pre ++ s!"get_escaped_char: case {p.1} returns {p.2} in the source, the model " ++
      s!"{getEscapedChar p.1 true} / {getEscapedChar p.1 false}")) ++
  (Generated.unescapeDefault.filterMap fun p =>
    if getEscapedChar p.2.1 p.1 = p.2.2 then none
    else some (pre ++ s!"get_escaped_char default branch: chr={p.1} letter {p.2.1} returns {p.2.2} in the source")) ++
  ((List.range (max modelTryTable.length Generated.tryOrder.length)).filterMap fun i =>
    if modelTryTable[i]? = Generated.tryOrder[i]? ∨ swappedTryTable = Generated.tryOrder then none
    else some (pre ++ s!"scanf_fmtstr: try number {i} is {Generated.tryOrder[i]?} in the source, " ++
      s!"{modelTryTable[i]?} in the model")) ++
  ((Generated.reservedWords.filter fun w => !reservedWords.contains (lit w)).map fun w =>
    pre ++ s!"is_reserved_word: \"{w}\" is reserved in the source, not in the model") ++
  ((reservedWords.filter fun w => !(Generated.reservedWords.map lit).contains w).map fun w =>
    pre ++ s!"is_reserved_word: the bytes {w} are a reserved word of the model, not of the source") ++
  (if modelDefaultOpt = Generated.defaultOpt then [] else
    [pre ++ "default_print_options (lossless, precision, line length, compress_ranges) differ from the model's defaultOpt"])

-- prints nothing when every table agrees
#eval (tableReport.forM fun l => IO.println l : IO Unit)

/-- the translator could read every table -/
theorem translator_ok : Generated.translatorOK = true := by decide

/-- `range_min` -/
theorem rangeMin_agrees : rangeMin = Generated.rangeMin := by decide

/-- `as_escaped_char`: `case` labels and `default:` branch -/
theorem escapeTables_agree :
    (∀ p ∈ Generated.escapeTable, asEscapedChar p.1 true = some p.2 ∧ asEscapedChar p.1 false = some p.2) ∧
    (∀ p ∈ Generated.escapeDefault, asEscapedChar p.2.1 p.1 = some p.2.2) := ⟨by decide, by decide⟩

/-- `get_escaped_char`: `case` labels and `default:` branch -/
theorem unescapeTables_agree :
    (∀ p ∈ Generated.unescapeTable, getEscapedChar p.1 true = p.2 ∧ getEscapedChar p.1 false = p.2) ∧
    (∀ p ∈ Generated.unescapeDefault, getEscapedChar p.2.1 p.1 = p.2.2) := ⟨by decide, by decide⟩

/-- `scanf_fmtstr`: the formats in the order they are tried: the model's order, or the one with the
    mutually exclusive neighbours "%*lfd%n" / "%*ff%n" swapped, which gives the same answers
    (`scanfFmtstr_order` / `scanfFmtstr_order_swapped`) -/
theorem tryOrder_agrees :
    modelTryOrder.map (fun nf => (nf.name, nf.type)) = Generated.tryOrder ∨
    swappedTryOrder.map (fun nf => (nf.name, nf.type)) = Generated.tryOrder := by decide

/-- `is_reserved_word`: the same SET of words (the order of `words[]` does not matter) -/
theorem reservedWords_agree :
    (reservedWords.all (fun w => (Generated.reservedWords.map lit).contains w) &&
      (Generated.reservedWords.map lit).all (fun w => reservedWords.contains w)) = true := by decide +kernel

/-- `default_print_options` (what the printers use when they are called with `opt == NULL`) -/
theorem defaultOpt_agrees : modelDefaultOpt = Generated.defaultOpt := by decide

/-- **tables_agree**: the model is written over the constants the source has today: compression
    threshold, both escape tables (`case` labels and `default:` branch), the try-order of the
    numeric formats (up to the one proved commutation) and the set of reserved words (regenerated from src/cpp/pretty-format.c on
    every run; `translatorOK` is false when the tables could not be read). -/
theorem tables_agree :
    Generated.translatorOK = true ∧
    rangeMin = Generated.rangeMin ∧
    (∀ p ∈ Generated.escapeTable, asEscapedChar p.1 true = some p.2 ∧ asEscapedChar p.1 false = some p.2) ∧
    (∀ p ∈ Generated.escapeDefault, asEscapedChar p.2.1 p.1 = some p.2.2) ∧
    (∀ p ∈ Generated.unescapeTable, getEscapedChar p.1 true = p.2 ∧ getEscapedChar p.1 false = p.2) ∧
    (∀ p ∈ Generated.unescapeDefault, getEscapedChar p.2.1 p.1 = p.2.2) ∧
    (modelTryOrder.map (fun nf => (nf.name, nf.type)) = Generated.tryOrder ∨
      swappedTryOrder.map (fun nf => (nf.name, nf.type)) = Generated.tryOrder) ∧
    (reservedWords.all (fun w => (Generated.reservedWords.map lit).contains w) &&
      (Generated.reservedWords.map lit).all (fun w => reservedWords.contains w)) = true :=
  ⟨translator_ok, rangeMin_agrees, escapeTables_agree.1, escapeTables_agree.2, unescapeTables_agree.1,
    unescapeTables_agree.2, tryOrder_agrees, reservedWords_agree⟩

/-- **escape_tables_inverse**: `get_escaped_char` undoes `as_escaped_char` -/
theorem escape_tables_inverse : ∀ p ∈ Generated.escapeTable, (p.2, p.1) ∈ Generated.unescapeTable := by
  decide

end Rtosc.Pretty
