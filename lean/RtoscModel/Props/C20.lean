/-
  C20 — A learned MIDI controller drives exactly its parameter, within its range.
  Property theorems only; helper lemmas live in Proofs/Midi*.lean.

  Reading of the statement.  The system is the pair of halves of `midimapper.cpp` plus the
  two FIFO channels between them (`Midi.Sys`); a history is ANY sequence of API calls
  (`map`, `unMap`, `clear` on the non-realtime half, an incoming controller value on the
  realtime half) and single-message deliveries (`deliverRT`, `deliverNRT`), i.e. every
  interleaving that respects per-channel FIFO order (`Trace P h s`: history `h` leads from
  the initial state to `s`; `Reach P s`: some history does).  Inputs are well-formed
  (`Op.wf`): addresses exist, controller values are 7-bit.  "Which parameter a controller
  drives" is `binding` (first mapping entry of the snapshot + address of its callback).

  Two defect classes of the unchanged code are excluded by decidable trigger predicates
  (`triggerK1`, `triggerK2`, evaluated step by step as `hazard`); the clauses about the
  learn handshake are therefore `…_partial`, their unrestricted forms are kept as
  `…_statement` and are refuted on concrete witnesses (`…_counterexample`).  The numeric
  clauses hold for every history, hazards included: `value_in_range_monotone` about the exact
  value of the linear map, `emitted_int_in_range_monotone` / `emitted_float_in_range_monotone`
  about the value that is actually sent (after the rounding to `float` and, for an `i` port,
  the truncation to `int`), `emitted_float_bits_in_range_monotone` / `emitted_value_in_range_monotone`
  about the emitted argument itself (the `int`, or the 32 bits of the `float` read back as an
  IEEE-754 binary32).  An `i` port needs INTEGRAL bounds for that
  (`int_port_fractional_bound_counterexample`).

  The system-level numeric clause — WHICH 14-bit value is sent — is `emits_composed_value_partial`
  (hazard-free histories; `emits_composed_value_counterexample` with a K2 hazard): one message per
  value, composed from the incoming value and the LAST value (`lastVals`, a function of the history)
  of the controller bound to the other half of the same address, in range, monotone.
-/
import RtoscModel.Proofs.MidiClauses
import RtoscModel.Proofs.MidiRound
import RtoscModel.Proofs.MidiRing
import RtoscModel.Proofs.MidiClone
import RtoscModel.Proofs.MidiExtEmit
import RtoscModel.Proofs.MidiExtRun
set_option linter.unusedSimpArgs false
namespace Rtosc.Midi

/-! ## Clauses that hold for every history, hazards included -/

/-- **one_message_per_value** — "every value v it sends produces exactly one message to
    that address" and "controllers that are not assigned produce no parameter message",
    as seen by the realtime half: a controller value produces exactly one backend message,
    addressed to the parameter the controller is bound to in the snapshot the realtime half
    acts on, and none when it is bound to nothing.  (Any state, any non-crashing step.) -/
theorem one_message_per_value {P s id val s' out} (h : step P s (.cc id val) = some (s', out)) :
    (∀ a k, s.rt.binding id = some (a, k) → ∃ m, out = [m] ∧ m.addr = a) ∧
    (s.rt.binding id = none → out = []) ∧ out.length ≤ 1 := by
  rcases cc_step_spec h with ⟨hb, rfl⟩ | ⟨st, e, old, cb, _, _, _, _, hb, rfl, _⟩
  · refine ⟨?_, fun _ => rfl, by simp⟩
    intro a k h'; rw [hb] at h'; cases h'
  · refine ⟨?_, ?_, by simp⟩
    · intro a k h'; rw [hb] at h'; cases h'
      exact ⟨_, rfl, Cb.fire_addr _ _⟩
    · intro h'; rw [hb] at h'; cases h'

/-- Nothing but an incoming controller value ever reaches the backend. -/
theorem other_steps_silent {P s op s' out} (h : step P s op = some (s', out))
    (hop : ∀ id v, op ≠ .cc id v) : out = [] :=
  nocc_step_silent h hop

/-- **value_in_range_monotone** — "whose value lies within the parameter's [min,max] and
    grows monotonically with v (7-bit coarse, 14-bit …)".  In every reachable state (any
    delivery order, hazards included) the message a controller value `val` produces is the
    callback of the PORT AT THE MESSAGE'S ADDRESS applied to the 14-bit value that has `val`
    in the controller's half (coarse: upper 7 bits, fine: lower 7 bits) and some 7-bit `o`
    in the other half; the exact value `bijNum/2^17` of the linear map lies in
    `[min8/8, max8/8]` and is monotone in `val` (and in `o`).  `Cb.fire` rounds exactly this
    number to `float` (and truncates it for an `i` port): `emitted_int_in_range_monotone` and
    `emitted_float_in_range_monotone` below carry range and monotonicity over to the value
    that is sent; the special case of an `i` port with range 0..127 is
    `special_case_in_range_monotone`.  `o` is the other half of the value slot as the realtime
    half holds it; that it is the last value of the address's OTHER controller is
    `emits_composed_value_partial` (hazard-free histories). -/
theorem value_in_range_monotone {P s} (r : Reach P s) {id val s' m} (hv : val ≤ 127)
    (h : step P s (.cc id val) = some (s', [m])) :
    ∃ p k o, P[m.addr]? = some p ∧ s.rt.binding id = some (m.addr, k) ∧ o < 128 ∧
      m = (portCb m.addr p).fire (compose14 k val o) ∧ compose14 k val o < 16384 ∧
      (p.min8 ≤ p.max8 →
        16384 * p.min8 ≤ bijNum p.min8 p.max8 (compose14 k val o) ∧
        bijNum p.min8 p.max8 (compose14 k val o) ≤ 16384 * p.max8) ∧
      (p.min8 ≤ p.max8 → ∀ val' o', val ≤ val' → o ≤ o' →
        bijNum p.min8 p.max8 (compose14 k val o) ≤ bijNum p.min8 p.max8 (compose14 k val' o')) := by
  have i0 := inv0_of_reach r
  rcases cc_step_spec h with ⟨_, hout⟩ | ⟨st, e, old, cb, hst, hf, hold, hcb, hb, hout, _⟩
  · cases hout
  · simp only [List.cons.injEq, and_true] at hout
    obtain ⟨hcbs, hsmall⟩ := i0.rt st hst
    obtain ⟨p, hp, hcbeq⟩ := hcbs cb (List.mem_of_getElem? hcb)
    have holdlt : old < 16384 := hsmall old (List.mem_of_getElem? hold)
    obtain ⟨o, ho, hblit, _⟩ := blit_compose e.coarse val old hv holdlt
    have haddr : m.addr = cb.addr := by rw [hout]; exact Cb.fire_addr _ _
    have hlt := compose14_lt (k := e.coarse) hv ho
    refine ⟨p, e.coarse, o, by rw [haddr]; exact hp, by rw [haddr]; exact hb, ho, ?_, hlt, ?_, ?_⟩
    · rw [haddr, ← hcbeq, hout, hblit]
    · intro hmm; exact bijNum_range hmm (by omega)
    · intro hmm val' o' h1 h2; exact bijNum_mono hmm (compose14_mono h1 h2)

/-- The `i` port with range 0..127 (`generateNewBijection`'s special case) sends the upper
    seven bits of the 14-bit value: within 0..127 and monotone. -/
theorem special_case_in_range_monotone (a x y : Nat) (hx : x < 16384) (hy : y < 16384) (hxy : x ≤ y) :
    ((⟨a, true, 0, 1016⟩ : Cb).fire x).val = .int ((x / 128 : Nat) : Int) ∧ x / 128 ≤ 127 ∧
    x / 128 ≤ y / 128 := by
  refine ⟨?_, by omega, Nat.div_le_div_right hxy⟩
  simp [Cb.fire, special_eq x hx]

/-! ### The value that is sent (after rounding / truncation), and its type -/

theorem bijNum_bitLen {mn mx : Int} {x : Nat} (h : mn ≤ mx) (hx : x ≤ 16384) (h1 : -8388608 ≤ mn)
    (h2 : mx ≤ 8388608) : bitLen (bijNum mn mx x).natAbs ≤ 38 := by
  obtain ⟨a, b⟩ := bijNum_range h hx
  rw [bitLen_le_iff]
  have : (2 : Nat) ^ 38 = 274877906944 := by decide
  omega

/-- **emitted_int_in_range_monotone** — "whose value lies within the parameter's [min,max] and
    grows monotonically with v", for the `int` that an `i` port is actually sent: for INTEGRAL
    bounds `lo ≤ hi` (`min8 = 8·lo`, `max8 = 8·hi`, `|·| ≤ 2^20`, every range the protocol can
    spell) other than the 0..127 special case (`special_case_in_range_monotone`), the message
    the callback writes for the 14-bit value `x` is `'i'`-typed, goes to the callback's address,
    carries `(int)(float)(x/16384.0*(max-min)+min)` — which lies in `[lo, hi]` — and does not
    decrease when `x` grows. -/
theorem emitted_int_in_range_monotone {a : Nat} {lo hi : Int} (hlh : lo ≤ hi) (h1 : -1048576 ≤ lo)
    (h2 : hi ≤ 1048576) (hspecial : ¬(lo = 0 ∧ hi = 127)) {x y : Nat} (hx : x < 16384) (_hy : y < 16384)
    (hxy : x ≤ y) :
    ∃ vx vy : Int, ((⟨a, true, 8 * lo, 8 * hi⟩ : Cb).fire x) = ⟨a, .int vx⟩ ∧
      ((⟨a, true, 8 * lo, 8 * hi⟩ : Cb).fire y) = ⟨a, .int vy⟩ ∧ lo ≤ vx ∧ vx ≤ hi ∧ vx ≤ vy := by
  refine ⟨truncF32OfDyadic (bijNum (8 * lo) (8 * hi) x) 17, truncF32OfDyadic (bijNum (8 * lo) (8 * hi) y) 17,
    ?_, ?_, ?_⟩
  · simp [Cb.fire]; omega
  · simp [Cb.fire]; omega
  · have hm : 8 * lo ≤ 8 * hi := by omega
    obtain ⟨r1, r2⟩ := bijNum_range hm (x := x) (by omega)
    have hb := bijNum_bitLen hm (x := x) (by omega) (by omega) (by omega)
    have p17 : (2 : Int) ^ 17 = 131072 := by decide
    obtain ⟨q1, q2⟩ := truncF32OfDyadic_range (num := bijNum (8 * lo) (8 * hi) x) (lo := lo) (hi := hi)
      (e := 17) (by omega) (by omega) (by omega)
    exact ⟨q1, q2, truncF32OfDyadic_mono 17 (bijNum_mono hm hxy)⟩

/-- **Why the bounds of an `i` port must be integral** (the boundary of the assumption "int
    parameters have int ranges"): with `min = 0.125`, `max = 100.125` the unchanged code sends
    `(int)0.125 = 0` for the value 0, which is below `min`. -/
theorem int_port_fractional_bound_counterexample :
    ((⟨0, true, 1, 801⟩ : Cb).fire 0).val = .int 0 ∧ ¬((1 : Int) ≤ 8 * 0) := by
  decide

/-- **emitted_float_in_range_monotone** — the same clause for the `float` an `f` port is sent.
    `f32OfDyadic num 17` encodes sign, significand and exponent computed by `f32Round |num| 17`;
    that pair denotes `rnd |num| / 2^17` (`f32Round_value`), `rnd` being round-to-nearest-even to
    24 significant bits.  The rounded value `rndZ num / 2^17` lies in `[min8/8, max8/8]` (both
    ends are themselves `float`s) and does not decrease when `x` grows — for EVERY range the
    protocol can spell (`|min8|, |max8| ≤ 2^23`).  (That the 32 bits sent are the IEEE-754
    encoding of exactly this number: `float_bits_denote_rounded_value`; the clause restated on the
    bit pattern: `emitted_float_bits_in_range_monotone`.) -/
theorem emitted_float_in_range_monotone {mn mx : Int} (h : mn ≤ mx) (h1 : -8388608 ≤ mn) (h2 : mx ≤ 8388608)
    {x y : Nat} (hx : x < 16384) (_hy : y < 16384) (hxy : x ≤ y) :
    16384 * mn ≤ rndZ (bijNum mn mx x) ∧ rndZ (bijNum mn mx x) ≤ 16384 * mx ∧
    rndZ (bijNum mn mx x) ≤ rndZ (bijNum mn mx y) := by
  obtain ⟨r1, r2⟩ := bijNum_range h (x := x) (by omega)
  have hb := bijNum_bitLen h (x := x) (by omega) h1 h2
  have p14 : (2 : Int) ^ 14 = 16384 := by decide
  obtain ⟨q1, q2⟩ := rndZ_range (num := bijNum mn mx x) (lo := mn) (hi := mx) (t := 14) (by omega) (by omega)
    (by omega)
  exact ⟨by omega, by omega, rndZ_mono (bijNum_mono h hxy)⟩

/-- **float_bits_denote_rounded_value** — the packing step of the float path: the 32 bits
    `f32OfDyadic num e` written into the message are a FINITE IEEE-754 binary32 pattern (`f32Finite`:
    32 bits, exponent field not 255) and, read back field by field (`f32Scaled`: sign = bit 31, biased
    exponent = bits 30..23, fraction = bits 22..0; the value times `2^149`), denote exactly
    `rndZ num / 2^e`, the round-to-nearest-even of `num / 2^e` — for every numerator of at most 100 bits
    and `e ≤ 125` (the linear map uses `e = 17` and at most 38 bits). -/
theorem float_bits_denote_rounded_value {num : Int} {e : Nat} (he : e ≤ 125) (hl : bitLen num.natAbs ≤ 100) :
    f32Scaled (f32OfDyadic num e) = rndZ num * 2 ^ (149 - e) ∧ f32Finite (f32OfDyadic num e) :=
  f32OfDyadic_scaled he hl

/-- **emitted_float_bits_in_range_monotone** — "whose value lies within the parameter's [min,max] and
    grows monotonically with v", for the 32 BITS an `f` port is actually sent: for every range the
    protocol can spell the message written for the 14-bit value `x` is `'f'`-typed, goes to the
    callback's address, and its bit pattern is a finite binary32 whose exact value lies in
    `[min8/8, max8/8]` (`f32Scaled` is the value times `2^149`, so the bounds are `min8 * 2^146`,
    `max8 * 2^146`) and does not decrease when `x` grows. -/
theorem emitted_float_bits_in_range_monotone {a : Nat} {mn mx : Int} (h : mn ≤ mx) (h1 : -8388608 ≤ mn)
    (h2 : mx ≤ 8388608) {x y : Nat} (hx : x < 16384) (hy : y < 16384) (hxy : x ≤ y) :
    ∃ bx bY : Nat, ((⟨a, false, mn, mx⟩ : Cb).fire x) = ⟨a, .flt bx⟩ ∧
      ((⟨a, false, mn, mx⟩ : Cb).fire y) = ⟨a, .flt bY⟩ ∧ f32Finite bx ∧
      mn * 2 ^ 146 ≤ f32Scaled bx ∧ f32Scaled bx ≤ mx * 2 ^ 146 ∧ f32Scaled bx ≤ f32Scaled bY := by
  have hp : PortOk ⟨false, mn, mx⟩ := ⟨h, h1, h2, fun hh => by cases hh⟩
  have hns : ¬((⟨a, false, mn, mx⟩ : Cb).min8 = 0 ∧ (⟨a, false, mn, mx⟩ : Cb).max8 = 127 * 8 ∧
      (⟨a, false, mn, mx⟩ : Cb).isInt = true) := fun hh => by cases hh.2.2
  have ex := fire_flt ⟨a, false, mn, mx⟩ x hns (by simp)
  have ey := fire_flt ⟨a, false, mn, mx⟩ y hns (by simp)
  obtain ⟨_, _, f1, f2, f3, f4⟩ := fire_in_range_monotone a hp hx hy hxy
  simp only [portCb] at f1 f2 f3 f4
  rw [ex] at f1 f2 f3 f4
  rw [ey] at f4
  exact ⟨_, _, ex, ey, f1, f2, f3, f4⟩

/-- **emitted_value_in_range_monotone** — the same clause for EVERY port the property quantifies over
    (`PortOk`: `min ≤ max`, multiples of 1/8 up to `2^20` in size, integral bounds for an `i` port; the
    0..127 special case included), in one statement about the emitted argument (`Val.scaled`: the `int`,
    or the `float` read back from its bits, times `2^149`): the message goes to the port's address, has
    the port's type, is a finite number within `[min, max]`, and does not decrease when the 14-bit
    value grows. -/
theorem emitted_value_in_range_monotone (a : Nat) {p : PortSpec} (hp : PortOk p) {x y : Nat} (hx : x < 16384)
    (hy : y < 16384) (hxy : x ≤ y) :
    ((portCb a p).fire x).addr = a ∧ ((portCb a p).fire x).val.isInt = p.isInt ∧
    ((portCb a p).fire x).val.finite ∧
    p.min8 * 2 ^ 146 ≤ ((portCb a p).fire x).val.scaled ∧
    ((portCb a p).fire x).val.scaled ≤ p.max8 * 2 ^ 146 ∧
    ((portCb a p).fire x).val.scaled ≤ ((portCb a p).fire y).val.scaled :=
  fire_in_range_monotone a hp hx hy hxy

/-- value 12288 of 16384 on a port -1..1 sends the bits of 0.5 -/
example : (⟨1, false, -8, 8⟩ : Cb).fire 12288 = ⟨1, .flt 0x3f000000⟩ ∧ f32Scaled 0x3f000000 = 2 ^ 148 := by decide
example : exPorts.all (fun p => decide (PortOk p)) = true := by decide

/-- **message_type_follows_port** — "(address, type, value)": the message a callback writes is
    `'i'`-typed exactly when `generateNewBijection` classified the port as `'i'`, … -/
theorem message_type_follows_port (c : Cb) (x : Nat) : (∃ v, (c.fire x).val = .int v) ↔ c.isInt = true := by
  unfold Cb.fire
  split
  · rename_i h; simp [h.2.2]
  · split <;> rename_i h' <;> simp [h']

/-- … and `generateNewBijection` (`strstr(port.name, ":i")`) classifies a port as `'i'` exactly
    when its signature accepts an `i` argument, for every name the protocol can declare:
    `":i"`, `"::i"`, `":f:i"`, `":i:f"` → `'i'`;  `":f"`, `"::f"` → `'f'`; any padding of the name. -/
theorem port_type_follows_signature (d : PortDecl) (hk : d.idx ≤ 9) : d.toSpec.isInt = d.sig.acceptsInt :=
  PortDecl.toSpec_isInt d hk

example : (⟨3, .oi, ['d', 'L'], 0, 800, 2, 30⟩ : PortDecl).toSpec = ⟨true, 0, 800⟩ := by decide
example : ∃ vx vy : Int, ((⟨0, true, 8 * 64, 8 * 127⟩ : Cb).fire 0) = ⟨0, .int vx⟩ ∧
    ((⟨0, true, 8 * 64, 8 * 127⟩ : Cb).fire 16383) = ⟨0, .int vy⟩ ∧ (64 : Int) ≤ vx ∧ vx ≤ 127 ∧ vx ≤ vy :=
  emitted_int_in_range_monotone (by decide) (by decide) (by decide) (by decide) (by decide) (by decide) (by decide)

/-- **fine_composes_14bit** — "(7-bit coarse, 14-bit when a fine controller has been learned
    for the same address)": when a coarse controller `c` and a fine controller `f` share a
    value slot, the value sent after `c` said `vc` and then `f` said `vf` is the slot's
    callback applied to `vc·128 + vf`. -/
theorem fine_composes_14bit {st st1 st2 : Storage} {c f slot vc vf : Nat} {m1 m2 : Msg}
    (hc : st.mapping.find? (fun e => e.id == c) = some ⟨c, true, slot⟩)
    (hf : st.mapping.find? (fun e => e.id == f) = some ⟨f, false, slot⟩)
    (hvc : vc ≤ 127) (hvf : vf ≤ 127)
    (h1 : st.handleCC c vc = some (st1, some m1)) (h2 : st1.handleCC f vf = some (st2, some m2)) :
    ∃ cb, st.callbacks[slot]? = some cb ∧ m2 = cb.fire (vc * 128 + vf) := by
  unfold Storage.handleCC at h1
  simp only [hc] at h1
  cases hv : st.values[slot]? with
  | none => simp [hv] at h1
  | some old =>
    cases hcb : st.callbacks[slot]? with
    | none => simp [hv, hcb] at h1
    | some cb =>
      simp [hv, hcb] at h1
      obtain ⟨rfl, _⟩ := h1
      have hlt : slot < st.values.length := (List.getElem?_eq_some_iff.mp hv).1
      unfold Storage.handleCC at h2
      simp [hf, hcb, hlt] at h2
      refine ⟨cb, rfl, ?_⟩
      rw [← h2.2, blit_coarse, blit_fine _ _ (by omega) (by omega)]
      congr 1; omega

/-- **The realtime half acts on a past table** — whatever the delivery order (hazards
    included), the parameter a controller drives according to the realtime half is the one
    the non-realtime half had decided at some moment of the history (now or earlier): the
    halves never disagree about more than "how up to date". Together with
    `one_message_per_value` this ties every backend message to a decision of the
    non-realtime half, whose decisions the `_partial` theorems below describe. -/
theorem rt_acts_on_past_table {P h s} (t : Trace P h s) :
    ∃ n ∈ pastNrts h s, s.rt.binding = n.binding := by
  obtain ⟨⟨n, hn, hv⟩, _⟩ := views_are_past t
  exact ⟨n, hn, binding_of_viewOf hv⟩

/-- **pending_queue_is_ring** — the realtime half's set of controllers whose learn request is under
    way is, in the code, a ring of 32 `int` cells with two cursors (`PendingQueue`); the model's FIFO
    list is a sound abstraction of it for sessions of ANY length: after any sequence of
    `insert`/`pop` from the initial state the ring holds exactly the list (oldest first), and `has`
    scans to the same answer as `List.contains`. -/
theorem pending_queue_is_ring (ops : List QOp) :
    RingOk (ops.foldl Ring.apply Ring.init) (ops.foldl pendApply []) ∧
    ∀ x, (ops.foldl Ring.apply Ring.init).has x = (ops.foldl pendApply []).contains x :=
  pending_list_refines_ring ops

/-! ## Clauses about the learn handshake: hazard-free histories -/

/-- the unrestricted form of `assigned_to_oldest` (false of the unchanged code, see
    `assigned_to_oldest_step_counterexample`) -/
def assigned_to_oldest_statement : Prop :=
  ∀ (P : List PortSpec) (h : List (Sys × Op)) (s : Sys), Trace P h s →
    ∀ id rest a k q, s.toNRT = id :: rest → s.nrt.learnQ = (a, k) :: q →
    ∃ s', step P s .deliverNRT = some (s', []) ∧ s'.nrt.learnQ = q ∧ s'.nrt.binding id = some (a, k) ∧
      (∀ id' b, s.nrt.binding id' = some b → s'.nrt.binding id' = some b)

/-- **assigned_to_oldest** (partial: hazard-free histories) — "a not yet assigned controller
    … is assigned to the oldest queued address": when the controller's request reaches the
    non-realtime half while addresses are queued, the step does not crash, the controller is
    bound to the HEAD of the learn queue (coarse/fine as queued), the queue loses exactly
    that head, every other controller keeps its binding, and the snapshot carrying the new
    binding is sent as the newest message to the realtime half. -/
theorem assigned_to_oldest_partial {P h s} (t : Trace P h s) (hf : HazardFree h)
    {id rest a k q} (hq : s.toNRT = id :: rest) (hl : s.nrt.learnQ = (a, k) :: q) :
    ∃ s' ns, step P s .deliverNRT = some (s', []) ∧ hazard s .deliverNRT = false ∧
      s'.nrt.learnQ = q ∧ s'.nrt.binding id = some (a, k) ∧
      (∀ id' b, s.nrt.binding id' = some b → s'.nrt.binding id' = some b) ∧
      s'.toRT = s.toRT ++ [.bind ns (some id)] ∧ s'.nrt.storage = some ns ∧ s'.toNRT = rest := by
  obtain ⟨s2, ns, h2, hz, _, _, e1, e2, e3, e4, e5, e6⟩ := deliverNRT_ok (inv_of_trace t hf) hq hl
  exact ⟨s2, ns, h2, hz, e4, e5, e6, e2, e3, e1⟩

/-- the unrestricted form of `learn_completes` (false of the unchanged code, see
    `assigned_to_oldest_counterexample`) -/
def learn_completes_statement : Prop :=
  ∀ (P : List PortSpec) (h : List (Sys × Op)) (s : Sys), Trace P h s → s.quiescent →
    ∀ a k q id val, s.nrt.learnQ = (a, k) :: q → s.rt.binding id = none → val ≤ 127 →
    ∃ s3 outs, run P s [.cc id val, .deliverNRT, .deliverRT] = some (s3, outs) ∧
      s3.rt.binding id = some (a, k)

/-- **learn_completes** (partial) — the whole clause "after a parameter address has been
    queued for MIDI learning and a not yet assigned controller arrives, that controller is
    assigned to the oldest queued address and from then on every value it sends produces
    exactly one message to that address", end to end: in any state reached by a hazard-free
    history in which nothing is under way, if `(a,k)` heads the learn queue and controller
    `id` is bound to nothing, then the controller's value, the delivery of its request and
    the delivery of the answer (none of them a hazard, none of them crashing, none of them
    producing a message) lead to a state in which again nothing is under way, `id` drives
    `(a,k)` in both halves, the queue has lost its head, all other bindings are as before —
    and every further value of `id` produces exactly one message, to address `a`. -/
theorem learn_completes_partial {P h s} (t : Trace P h s) (hf : HazardFree h) (hquiet : s.quiescent)
    {a k q id val} (hl : s.nrt.learnQ = (a, k) :: q) (hb : s.rt.binding id = none) :
    ∃ s3, run P s [.cc id val, .deliverNRT, .deliverRT] = some (s3, [[], [], []]) ∧
      anyStep hazard P s [.cc id val, .deliverNRT, .deliverRT] = false ∧
      s3.quiescent ∧ s3.nrt.learnQ = q ∧
      s3.rt.binding id = some (a, k) ∧ s3.nrt.binding id = some (a, k) ∧
      (∀ id' b, s.rt.binding id' = some b → s3.rt.binding id' = some b) ∧
      (∀ v s4 out, step P s3 (.cc id v) = some (s4, out) → ∃ m, out = [m] ∧ m.addr = a) := by
  obtain ⟨s1, s2, s3, h1, z1, h2, z2, h3, z3, _, hq3, hl3, hb3, hn3, hold⟩ :=
    learn_handshake (val := val) (inv_of_trace t hf) hquiet hl hb
  refine ⟨s3, by simp [run, h1, h2, h3], by simp [anyStep, h1, h2, h3, z1, z2, z3], hq3, hl3, hb3, hn3,
    hold, ?_⟩
  intro v s4 out h4
  exact (one_message_per_value h4).1 a k hb3

/-- the unrestricted form of `unassigned_silent` -/
def unassigned_silent_statement : Prop :=
  ∀ (P : List PortSpec) (h : List (Sys × Op)) (s : Sys), Trace P h s →
    ∀ id val s' m, step P s (.cc id val) = some (s', [m]) → Assigned h id

/-- **unassigned_silent** (partial) — "controllers that were never assigned produce no
    parameter message": along a hazard-free history, a controller whose value produces a
    message was assigned by a learn step of that very history (its request reached
    `useFreeID` while an address was queued). -/
theorem unassigned_silent_partial {P h s} (t : Trace P h s) (hf : HazardFree h)
    {id val s' m} (hs : step P s (.cc id val) = some (s', [m])) : Assigned h id := by
  apply known_assigned t hf
  rcases cc_step_spec hs with ⟨_, hout⟩ | ⟨st, e, _, _, hst, hfind, _⟩
  · cases hout
  · right; right
    have hid : e.id = id := by have := List.find?_some hfind; simpa using this
    simpa [omap, hst] using mem_ids.mpr ⟨e, List.mem_of_find?_eq_some hfind, hid⟩

/-- the unrestricted form of `bindings_independent` for `unMap` -/
def bindings_independent_statement : Prop :=
  ∀ (P : List PortSpec) (h : List (Sys × Op)) (s : Sys), Trace P h s →
    ∀ a k s' out, a < P.length → step P s (.unmap a k) = some (s', out) →
    ∀ id b, s.nrt.binding id = some b → b ≠ (a, k) → s'.nrt.binding id = some b

/-- **bindings_independent** (partial) — "other addresses' bindings are unaffected": along a
    hazard-free history,
    * `map(a,k)` / `unMap(a,k)` keep every binding to a parameter other than `(a,k)`;
    * a learn step keeps every existing binding;
    * an incoming controller value and a delivery to the realtime half do not touch the
      non-realtime half at all, and a controller value leaves every binding of the realtime
      half as it is (it only writes the value slot of its own parameter). -/
theorem bindings_independent_partial {P h s} (t : Trace P h s) (hf : HazardFree h)
    {op s' out} (hwf : op.wf P) (hz : hazard s op = false) (hs : step P s op = some (s', out)) :
    (∀ a k, (op = .map a k ∨ op = .unmap a k) →
      ∀ id b, s.nrt.binding id = some b → b ≠ (a, k) → s'.nrt.binding id = some b) ∧
    (op = .deliverNRT → ∀ id b, s.nrt.binding id = some b → s'.nrt.binding id = some b) ∧
    ((∃ id v, op = .cc id v) ∨ op = .deliverRT → s'.nrt = s.nrt) ∧
    (∀ id v, op = .cc id v → s'.rt.binding = s.rt.binding) := by
  have hi := inv_of_trace t hf
  refine ⟨?_, ?_, ?_, ?_⟩
  · rintro a k (rfl | rfl) id b hb hne
    · simp only [step] at hs
      cases hm : s.nrt.map a k with
      | none => simp [hm] at hs
      | some r =>
        obtain ⟨n', ms⟩ := r
        simp [hm] at hs; obtain ⟨rfl, _⟩ := hs
        exact map_bindings hi.nrt hwf hm id b hb hne
    · simp only [step] at hs
      cases hm : s.nrt.unMap a k with
      | none => simp [hm] at hs
      | some r =>
        obtain ⟨n', ms⟩ := r
        simp [hm] at hs; obtain ⟨rfl, _⟩ := hs
        exact (unMap_bindings hi.nrt hm).1 id b hb hne
  · rintro rfl id b hb
    cases hq : s.toNRT with
    | nil => simp [step, hq] at hs; obtain ⟨rfl, _⟩ := hs; exact hb
    | cons id0 rest =>
      cases hl : s.nrt.learnQ with
      | nil => simp [hazard, hazardK1, hq, hl] at hz
      | cons x q =>
        obtain ⟨s2, ns, h2, _, _, _, _, _, _, _, _, hold⟩ := deliverNRT_ok hi hq hl
        rw [h2] at hs; cases hs; exact hold id b hb
  · rintro (⟨id, v, rfl⟩ | rfl)
    · obtain ⟨s2, o2, h2, _, hn, _⟩ := step_cc_ok hi id v (hazard_false hz).2
      rw [h2] at hs; cases hs; exact hn
    · obtain ⟨s2, h2, _, hn, _⟩ := step_deliverRT_ok hi (hazard_false hz).2
      rw [h2] at hs; cases hs; exact hn
  · rintro id v rfl
    simp only [step] at hs
    cases hm : s.rt.handleCC id v with
    | none => simp [hm] at hs
    | some r =>
      obtain ⟨r', m, req⟩ := r
      simp [hm] at hs; obtain ⟨rfl, _⟩ := hs
      -- the snapshot keeps its mapping and callbacks
      unfold RT.handleCC at hm
      funext x
      cases hst : s.rt.storage with
      | none =>
        simp [hst] at hm
        split at hm <;> (simp at hm; obtain ⟨rfl, _⟩ := hm; simp [RT.binding, hst])
      | some st =>
        simp only [hst] at hm
        cases hh : st.handleCC id v with
        | none => simp [hh] at hm
        | some y =>
          obtain ⟨st2, m2⟩ := y
          obtain ⟨_, a2, a3⟩ := handleCC_small (st := st) hwf
            ((inv0_of_reach (reach_of_trace t)).rt st hst).2 hh
          have hbind : st2.binding = st.binding := binding_congr a3 a2
          simp only [hh, Option.map_some] at hm
          cases m2 with
          | some mm => simp at hm; obtain ⟨rfl, _⟩ := hm; simp [RT.binding, hst, hbind]
          | none =>
            simp only at hm
            split at hm <;> (simp at hm; obtain ⟨rfl, _⟩ := hm; simp [RT.binding, hst, hbind])

/-- the unrestricted form of `unmap_stops` (non-realtime half) -/
def unmap_stops_statement : Prop :=
  ∀ (P : List PortSpec) (h : List (Sys × Op)) (s : Sys), Trace P h s → ∀ a k, a < P.length →
    ∃ s1, step P s (.unmap a k) = some (s1, []) ∧ ∀ id, s1.nrt.binding id ≠ some (a, k)

/-- **unmap_stops** (partial) — "unmapping an address stops its controller from driving it":
    along a hazard-free history `unMap(a,k)` does not crash and leaves no controller bound
    to `(a,k)` in the non-realtime half; and from a state in which nothing is under way,
    once the resulting `midi-bind` (if any) has been delivered, no controller value produces
    a message for `(a,k)` any more while every other binding of the realtime half is as
    before. -/
theorem unmap_stops_partial {P h s} (t : Trace P h s) (hf : HazardFree h) (a : Nat) (k : Bool) :
    (∃ s1, step P s (.unmap a k) = some (s1, []) ∧ ∀ id, s1.nrt.binding id ≠ some (a, k)) ∧
    (s.quiescent → ∃ s2, run P s [.unmap a k, .deliverRT] = some (s2, [[], []]) ∧
      anyStep hazard P s [.unmap a k, .deliverRT] = false ∧ s2.quiescent ∧
      (∀ id, s2.rt.binding id ≠ some (a, k)) ∧
      (∀ id b, s.rt.binding id = some b → b ≠ (a, k) → s2.rt.binding id = some b) ∧
      (∀ id v s3 out, s.rt.binding id = some (a, k) → step P s2 (.cc id v) = some (s3, out) → out = [])) := by
  have hi := inv_of_trace t hf
  constructor
  · obtain ⟨s1, ms, h1, _, _, _, _, hun⟩ := unmap_step_ok hi a k
    exact ⟨s1, h1, (unMap_bindings hi.nrt hun).2⟩
  · intro hquiet
    obtain ⟨s1, s2, h1, z1, h2, z2, hi2, hq2, hstop, hkeep⟩ := unmap_handshake hi hquiet a k
    refine ⟨s2, by simp [run, h1, h2], by simp [anyStep, h1, h2, z1, z2], hq2, hstop, hkeep, ?_⟩
    intro id v s3 out hb h3
    -- `id` was the controller of (a,k); it is bound to nothing now
    cases hb2 : s2.rt.binding id with
    | none => exact (one_message_per_value h3).2.1 hb2
    | some b =>
      exfalso
      -- a surviving binding of `id` would have to be its old one, (a,k)
      have hq := quiescent_bindings hi hquiet
      obtain ⟨s1', ms, h1', hi1, e1rt, _, _, hun⟩ := unmap_step_ok hi a k
      rw [h1] at h1'; cases h1'
      -- after unMap the nRT half binds `id` to nothing: its only entry was the one removed
      have hn : s.nrt.binding id = some (a, k) := by rw [← hq]; exact hb
      obtain ⟨im, hl, hsel⟩ := binding_sel hi.nrt hn
      obtain ⟨n', ms', heq, _, _, _, _, _, hcase⟩ := unMap_ok hi.nrt a k
      rw [hun] at heq; cases heq
      rcases hcase with ⟨_, _⟩ | ⟨c, st, ns, im2, hst, _, hl2, hs2, hns, hst', _⟩
      · -- impossible: something was bound, so a bind was sent
        rcases unMap_eq hi.nrt a k with ⟨hl0, _⟩ | ⟨im0, hl0, hs0, _⟩ | ⟨im0, c0, st0, hl0, hs0, hst0, _, heq0⟩
        · rw [hl] at hl0; cases hl0
        · rw [hl] at hl0; cases hl0; rw [hsel] at hs0; cases hs0
        · rw [hun] at heq0; simp at heq0; simp_all
      · rw [hl] at hl2; cases hl2; rw [hsel] at hs2; cases hs2
        -- s2's RT snapshot has the shape of `ns`, in which `id` does not occur
        have hq2' := quiescent_bindings hi2 hq2
        have : s2.nrt.binding id = none := by
          have e : s2.nrt = s1.nrt := by
            obtain ⟨s2', h2', _, hn2, _⟩ := step_deliverRT_ok hi1 (hazard_false z2).2
            rw [h2] at h2'; cases h2'; exact hn2
          rw [e]; simp only [NRT.binding, hst', hns]
          exact (binding_filter st id _).2
        rw [hq2', this] at hb2; cases hb2

/-- the unrestricted form of `nrt_refines_table` -/
def nrt_refines_table_statement : Prop :=
  ∀ (P : List PortSpec) (h : List (Sys × Op)) (s : Sys), Trace P h s →
    ∀ op s' out, op.wf P → step P s op = some (s', out) →
    tableOf s'.nrt = (tableOf s.nrt).step op s.toNRT.head?

/-- **The non-realtime half refines the specification of the learn table** (partial) — along
    a hazard-free history every step changes the pair (learn queue, controller ↦ parameter)
    exactly as `Table.step` prescribes: `map` queues once and forgets the old controller,
    `unMap` stops exactly the controller of `(a,k)`, a request is served with the OLDEST
    queued address, everything else leaves the table alone.  This one statement contains
    `assigned_to_oldest`, `bindings_independent` and `unmap_stops` for the non-realtime half. -/
theorem nrt_refines_table_partial {P h s} (t : Trace P h s) (hf : HazardFree h)
    {op s' out} (hwf : op.wf P) (hz : hazard s op = false) (hs : step P s op = some (s', out)) :
    tableOf s'.nrt = (tableOf s.nrt).step op s.toNRT.head? := by
  have hi := inv_of_trace t hf
  cases op with
  | map a k =>
    simp only [step] at hs
    cases hm : s.nrt.map a k with
    | none => simp [hm] at hs
    | some r =>
      obtain ⟨n', ms⟩ := r
      simp [hm] at hs; obtain ⟨rfl, _⟩ := hs
      exact map_table hi.nrt hwf hm
  | unmap a k =>
    simp only [step] at hs
    cases hm : s.nrt.unMap a k with
    | none => simp [hm] at hs
    | some r =>
      obtain ⟨n', ms⟩ := r
      simp [hm] at hs; obtain ⟨rfl, _⟩ := hs
      exact unMap_table hi.nrt hm
  | clear =>
    simp [step, NRT.clear] at hs; obtain ⟨rfl, _⟩ := hs
    simp only [tableOf, Table.step, Table.clear, Table.mk.injEq, true_and]
    funext x; simp [NRT.binding, Storage.binding, Storage.empty]
  | cc id v =>
    have := (bindings_independent_partial t hf hwf hz hs).2.2.1 (Or.inl ⟨id, v, rfl⟩)
    simp [Table.step, this]
  | deliverRT =>
    have := (bindings_independent_partial t hf hwf hz hs).2.2.1 (Or.inr rfl)
    simp [Table.step, this]
  | deliverNRT =>
    cases hq : s.toNRT with
    | nil => simp [step, hq] at hs; obtain ⟨rfl, _⟩ := hs; simp [Table.step]
    | cons id rest =>
      cases hl : s.nrt.learnQ with
      | nil => simp [hazard, hazardK1, hq, hl] at hz
      | cons x q =>
        obtain ⟨a, k⟩ := x
        simp only [step, hq] at hs
        cases hu : NRT.useFreeID P s.nrt id with
        | none => simp [hu] at hs
        | some r =>
          obtain ⟨n', ms⟩ := r
          simp [hu] at hs; obtain ⟨rfl, _⟩ := hs
          simpa [Table.step] using useFreeID_table hi.nrt hl (hi.c1 id (by simp [hq])) hu

/-- **K1 needs `clear`** — in a history without `clear` no request ever meets an empty
    learn queue (watches and queued addresses stay in balance): `triggerK1` is false. -/
theorem triggerK1_needs_clear (P : List PortSpec) (ops : List Op) (h : Op.clear ∉ ops) :
    triggerK1 P ops = false :=
  k1_free_without_clear P ops Sys.init h (by simp [Sys.credits, Sys.init, RT.init, NRT.init, watchesOf])

/-- the unrestricted form of `no_crash` -/
def no_crash_statement : Prop :=
  ∀ (P : List PortSpec) (h : List (Sys × Op)) (s : Sys), Trace P h s →
    ∀ op, op.wf P → ∃ s' out, step P s op = some (s', out)

/-- **no_crash** (partial) — along a hazard-free history no step on well-formed input
    indexes outside a vector (`killMap`, `handleCC`, `cloneValues`). -/
theorem no_crash_partial {P h s} (t : Trace P h s) (hf : HazardFree h) {op} (hwf : op.wf P)
    (hz : hazard s op = false) : ∃ s' out, step P s op = some (s', out) := by
  obtain ⟨s', out, he, _⟩ := inv_step (inv_of_trace t hf) hwf hz
  exact ⟨s', out, he⟩

/-- The executable trigger predicates decide hazard-freedom: a run of the compiled model
    from the initial state on which both triggers are false is a hazard-free history (so all
    `_partial` theorems apply to its end state and, by the same argument, to every prefix). -/
theorem safe_run_is_hazard_free_trace {P : List PortSpec} {ops s outs} (hwf : ∀ op ∈ ops, op.wf P)
    (k1 : triggerK1 P ops = false) (k2 : triggerK2 P ops = false)
    (hr : run P Sys.init ops = some (s, outs)) : ∃ h, Trace P h s ∧ HazardFree h := by
  obtain ⟨h, t, hf, _⟩ := inv_of_run hwf k1 k2 hr
  exact ⟨h, t, hf⟩

/-! ## The two defect classes: witnesses -/

/-- K1 (DESIGN K7) `map A; clear; CC7; map B`, every message delivered at once -/
def k1Ops : List Op :=
  [.map 0 true, .deliverRT, .clear, .deliverRT, .cc 7 1, .deliverNRT, .deliverRT, .map 1 true, .deliverRT]

def k1State : Sys := ((run exPorts Sys.init k1Ops).map (·.1)).getD Sys.init

/-- K2: `p2` learned to 9; `p0`, `p1` queued; CC5 requests; `unMap p2` sends a `midi-bind`
    that answers nothing and pops 5 from `pending`; CC5 requests again; both requests are
    served: 5 is assigned to `p0` AND `p1`. -/
def k2Ops : List Op :=
  [.map 2 true, .deliverRT, .cc 9 1, .deliverNRT, .deliverRT, .map 0 true, .map 1 true, .deliverRT, .deliverRT,
   .cc 5 1, .unmap 2 true, .deliverRT, .cc 5 2, .deliverNRT, .deliverNRT, .deliverRT, .deliverRT]

def k2State : Sys := ((run exPorts Sys.init k2Ops).map (·.1)).getD Sys.init

/-- `k2Ops` up to the moment the SECOND request of controller 5 is about to be delivered -/
def k2PrefixOps : List Op := k2Ops.take 14

def k2PrefixState : Sys := ((run exPorts Sys.init k2PrefixOps).map (·.1)).getD Sys.init

/-- `k2Ops`, then `unMap(p1, coarse)`; the next `unMap(p0, coarse)` overflows -/
def k4Ops : List Op := k2Ops ++ [.unmap 1 true]

def k4State : Sys := ((run exPorts Sys.init k4Ops).map (·.1)).getD Sys.init

/-- `k2Ops`, then `unMap(p1, coarse)` delivered -/
def k3Ops : List Op := k2Ops ++ [.unmap 1 true, .deliverRT]

def k3State : Sys := ((run exPorts Sys.init k3Ops).map (·.1)).getD Sys.init

/-- **K1 refutes the unrestricted `learn_completes`**: after `map A; clear; CC7; map B`
    (all delivered; `triggerK1` fires at the delivery of CC7's request to the emptied queue)
    nothing is under way, `p1` is queued, controller 7 is bound to nothing — and the
    handshake does not even start: 7 is still in `pending`, no request is sent, 7 stays
    unbound. -/
theorem assigned_to_oldest_counterexample : ¬ learn_completes_statement := by
  intro hst
  have t := trace_of_concrete_run (ops := k1Ops) (by decide) (by decide)
  obtain ⟨s3, outs, hr, hb⟩ := hst exPorts _ k1State t (by decide) 1 true [] 7 1 (by decide) (by decide) (by decide)
  have : (run exPorts k1State [.cc 7 1, .deliverNRT, .deliverRT]).map (fun r => r.1.rt.binding 7) = some none := by
    decide
  rw [hr] at this; simp [hb] at this

theorem k1_trigger : triggerK1 exPorts k1Ops = true ∧ triggerK2 exPorts k1Ops = false := by decide

/-- **K2 refutes the unrestricted `assigned_to_oldest`**: controller 5's second request is
    delivered while `p1` heads the queue and 5 already drives `p0`; afterwards 5 still
    drives `p0` (the first mapping entry wins): it was not assigned to the oldest queued
    address, and `p1`'s learn request is gone. -/
theorem assigned_to_oldest_step_counterexample : ¬ assigned_to_oldest_statement := by
  intro hst
  have t := trace_of_concrete_run (ops := k2PrefixOps) (by decide) (by decide)
  obtain ⟨s', hs, _, hb, _⟩ := hst exPorts _ k2PrefixState t 5 [] 1 true [] (by decide) (by decide)
  have h2 : (step exPorts k2PrefixState .deliverNRT).map (fun r => r.1.nrt.binding 5) = some (some (0, true)) := by
    decide
  rw [hs] at h2; simp [hb] at h2

/-- **K2 refutes the unrestricted `bindings_independent`**: in the state after `k2Ops`
    controller 5 drives `p0`; `unMap(p1, coarse)` — another address — removes that binding. -/
theorem bindings_independent_counterexample : ¬ bindings_independent_statement := by
  intro hst
  have t := trace_of_concrete_run (ops := k2Ops) (by decide) (by decide)
  cases hs : step exPorts k2State (.unmap 1 true) with
  | none => have : (step exPorts k2State (.unmap 1 true)).isSome = true := by decide
            simp [hs] at this
  | some r =>
    have := hst exPorts _ k2State t 1 true r.1 r.2 (by decide) hs 5 (0, true) (by decide) (by decide)
    have h2 : (step exPorts k2State (.unmap 1 true)).map (fun r => r.1.nrt.binding 5) = some none := by decide
    rw [hs] at h2; simp [this] at h2

/-- **K2 refutes the unrestricted `unassigned_silent`**: after `k2Ops; unMap(p1,coarse)`
    delivered, controller 0 — which never sent a value, let alone was assigned — drives
    `p2` (the default-constructed cell `killMap` leaves behind). -/
theorem unassigned_silent_counterexample : ¬ unassigned_silent_statement := by
  intro hst
  have t := trace_of_concrete_run (ops := k3Ops) (by decide) (by decide)
  obtain ⟨s', m, hs⟩ := step_one_msg (P := exPorts) (s := k3State) (op := .cc 0 7) (by decide)
  have hass := hst exPorts _ k3State t 0 7 s' m hs
  have hno : ¬ Assigned (histOf exPorts Sys.init k3Ops) 0 := by decide
  exact hno hass

/-- **K2 reaches a heap overflow**: after `k2Ops; unMap(p1,coarse)`, `unMap(p0,coarse)`
    makes `killMap` copy one cell past its new vector (`step = none` is the crash the
    harness reports as `heap-buffer-overflow` under ASan). -/
theorem no_crash_counterexample : ¬ no_crash_statement := by
  intro hst
  have t := trace_of_concrete_run (ops := k4Ops) (by decide) (by decide)
  obtain ⟨s', out, hs⟩ := hst exPorts _ k4State t (.unmap 0 true) (by decide)
  have : step exPorts k4State (.unmap 0 true) = none := by decide
  rw [this] at hs; cases hs

theorem k2_trigger : triggerK1 exPorts k4Ops = false ∧ triggerK2 exPorts k4Ops = true := by decide

/-! ## The other half of a 14-bit value across a `midi-bind` -/

/-- the unrestricted form of `half_survives_bind` (false of the unchanged code after a K2 hazard, see
    `half_survives_bind_counterexample`) -/
def half_survives_bind_statement : Prop :=
  ∀ (P : List PortSpec) (h : List (Sys × Op)) (s : Sys), Trace P h s →
    ∀ ns ans rest old, s.toRT = .bind ns ans :: rest → s.rt.storage = some old →
    ∃ s' ns', step P s .deliverRT = some (s', []) ∧ s'.rt.storage = some ns' ∧ ns'.mapping = ns.mapping ∧
      ∀ d ∈ ns.mapping, ∀ e ∈ old.mapping, d.id = e.id →
        ∃ sv, old.values[e.slot]? = some sv ∧ halfAt d.slot d.coarse ns'.values = some (half e.coarse sv)

/-- **half_survives_bind** (partial: hazard-free histories) — "(7-bit coarse, 14-bit when a fine
    controller has been learned for the same address)" across snapshot changes: whenever the realtime
    half replaces the snapshot it acts on (`midi-bind`, i.e. after every learn / unMap / clear), every
    controller that is bound before and after keeps the 7-bit value it last sent, in the half
    (coarse: upper, fine: lower) of the value slot the NEW snapshot gives it.  Together with
    `fine_composes_14bit` (one snapshot) and `value_in_range_monotone` (the value sent is the
    callback applied to the slot) this makes the `o` of `value_in_range_monotone` the last value of
    the address's other controller for as long as both stay bound. -/
theorem half_survives_bind_partial {P h s} (t : Trace P h s) (hf : HazardFree h) {ns ans rest old}
    (hq : s.toRT = .bind ns ans :: rest) (hold : s.rt.storage = some old)
    (hz : hazard s .deliverRT = false) :
    ∃ s' ns', step P s .deliverRT = some (s', []) ∧ s'.rt.storage = some ns' ∧ ns'.mapping = ns.mapping ∧
      ∀ d ∈ ns.mapping, ∀ e ∈ old.mapping, d.id = e.id →
        ∃ sv, old.values[e.slot]? = some sv ∧ halfAt d.slot d.coarse ns'.values = some (half e.coarse sv) :=
  half_survives_bind t hf hq hold hz

/-- `k2Ops` (controller 5 assigned to `p0` AND `p1`), then 5 says 100 (it drives `p0`), `p2` is queued
    again and learned by controller 9; the `midi-bind` carrying that snapshot is about to be delivered -/
def cxOps : List Op := k2Ops ++ [.cc 5 100, .map 2 true, .deliverRT, .cc 9 1, .deliverNRT]

def cxState : Sys := ((run exPorts Sys.init cxOps).map (·.1)).getD Sys.init
def cxOld : Storage := cxState.rt.storage.getD Storage.empty
def cxNs : Storage := match cxState.toRT with | .bind ns _ :: _ => ns | _ => Storage.empty

/-- **K2 refutes the unrestricted `half_survives_bind`**: after a K2 hazard one controller can have two
    mapping entries; `cloneValues` then lets the LAST old entry of a controller win, so controller 5 —
    bound to `p0` before and after the `midi-bind`, last value 100 — finds 0 in its half of `p0`'s value
    slot: the next fine value for `p0` is composed with 0 instead of 100. -/
theorem half_survives_bind_counterexample : ¬ half_survives_bind_statement := by
  intro hst
  have t := trace_of_concrete_run (ops := cxOps) (by decide) (by decide)
  obtain ⟨s', ns', hstep, hst', _, hall⟩ := hst exPorts _ cxState t cxNs (some 9) [] cxOld (by decide) (by decide)
  obtain ⟨sv, hsv, hh⟩ := hall ⟨5, true, 1⟩ (by decide) ⟨5, true, 1⟩ (by decide) rfl
  have h1 : cxOld.values[1]? = some 12800 := by decide
  have h2 : (step exPorts cxState .deliverRT).map (fun r => r.1.rt.storage.map (fun st => halfAt 1 true st.values)) =
      some (some (some 0)) := by decide
  rw [hstep] at h2
  simp only [Option.map_some, hst', Option.some.injEq] at h2
  simp only at hsv hh
  rw [h1] at hsv; cases hsv
  rw [h2] at hh
  revert hh; decide

/-- **half_survives_bind for every reachable state with well-formed snapshots** — the hypothesis the
    counterexample violates, made explicit: in ANY reachable state (hazards allowed) in which the
    delivered snapshot `ns` and the snapshot `old` the realtime half acts on have their slots inside
    the vectors and pairwise distinct controller IDs (`StOk`) and no two entries of `ns` own the same
    half of a slot (`PairInj`), the delivery does not crash and every controller bound before and after
    keeps its 7-bit value.  (In `cxState`, `StOk cxOld` fails: controller 5 occurs twice.) -/
theorem half_survives_bind_wellformed {P s} (r : Reach P s) {ns ans rest old}
    (hq : s.toRT = .bind ns ans :: rest) (hold : s.rt.storage = some old)
    (hns : StOk ns) (hok : StOk old) (hinj : PairInj ns.mapping) :
    ∃ s' ns', step P s .deliverRT = some (s', []) ∧ s'.rt.storage = some ns' ∧ ns'.mapping = ns.mapping ∧
      ∀ d ∈ ns.mapping, ∀ e ∈ old.mapping, d.id = e.id →
        ∃ sv, old.values[e.slot]? = some sv ∧ halfAt d.slot d.coarse ns'.values = some (half e.coarse sv) :=
  half_survives_bind_of_wellformed r hq hold hns hok hinj

example : ¬ (ids cxOld.mapping).Nodup := by decide

/-! ## End to end: which value a bound controller sends -/

/-- the unrestricted form of `emits_composed_value` (false of the unchanged code after a K2 hazard, see
    `emits_composed_value_counterexample`) -/
def emits_composed_value_statement : Prop :=
  ∀ (P : List PortSpec) (h : List (Sys × Op)) (s : Sys), (∀ p ∈ P, PortOk p) → Trace P h s →
    ∀ id val s' out, val ≤ 127 → step P s (.cc id val) = some (s', out) → EmitsComposed P h s id val out

/-- **emits_composed_value** (partial: hazard-free histories) — "from then on every value v it sends
    produces exactly one message to that address whose value lies within the parameter's [min,max] and
    grows monotonically with v (7-bit coarse, 14-bit when a fine controller has been learned for the
    same address)", as ONE statement about every controller value of every hazard-free history, in
    every delivery order (`Trace` quantifies over all interleavings of API calls and deliveries; the
    theorem speaks about an arbitrary step of an arbitrary history, hence about the whole sequence of
    backend messages).  `EmitsComposed P h s id val out`:
    * a controller the realtime half has bound to nothing produces no message;
    * a controller bound to `(a, k)` produces exactly one message: the one the port at `a` writes for
      the 14-bit value with `val` in the controller's half (`k`: coarse = upper 7 bits, fine = lower)
      and `o` in the other half, where `o = lastVals h id'` is the LAST value that the controller `id'`
      bound to the other half of `a` sent while bound (0 if it sent none) — `lastVals` is a function of
      the history alone: it survives every `midi-bind` (`cloneValues`, whatever slots the snapshots
      assign) and every value of other controllers — and `o = 0` when no controller is bound to the
      other half;
    * for this fixed other half, the message written for any 7-bit value goes to `a`, has the port's
      type, is a finite number inside `[min, max]` (as emitted: the `int`, or the `float` decoded from
      its 32 bits) and does not decrease when the value grows. -/
theorem emits_composed_value_partial {P : List PortSpec} {h s} (hP : ∀ p ∈ P, PortOk p) (t : Trace P h s)
    (hf : HazardFree h) {id val s' out} (hv : val ≤ 127) (hs : step P s (.cc id val) = some (s', out)) :
    EmitsComposed P h s id val out :=
  emitsComposed_of_trace hP t hf hv hs

/-- **run_emits_composed_values** — the same clause as a statement about the message SEQUENCE of a
    whole history, in the vocabulary of the executable model that is compared with the code: for every
    port table of well-formed ports and every list of well-formed steps (API calls, controller values,
    deliveries in any order) on which neither trigger predicate fires, the run from the initial state
    puts out exactly one list of backend messages per step; the list of a step that is not a controller
    value is empty, and the list of step `i = cc id val` is what `EmitsComposed` says for the state `si`
    and the history reached by the first `i` steps: none if `id` is bound to nothing, else exactly one
    message, composed from `val` and the last value of the other half's controller, in range, of the
    port's type, monotone in the value. -/
theorem run_emits_composed_values {P : List PortSpec} {ops s outs} (hP : ∀ p ∈ P, PortOk p)
    (hwf : ∀ op ∈ ops, op.wf P) (k1 : triggerK1 P ops = false) (k2 : triggerK2 P ops = false)
    (hr : run P Sys.init ops = some (s, outs)) :
    outs.length = ops.length ∧
    ∀ i op, ops[i]? = some op →
      ∃ si oi out, run P Sys.init (ops.take i) = some (si, oi) ∧ outs[i]? = some out ∧
        StepEmits P (histOf P Sys.init (ops.take i)) si op out :=
  run_stepEmits hP hwf k1 k2 hr

/-- `k2Ops` (controller 5 assigned to `p0` AND `p1`), then 5 says 100 (it drives `p0`, coarse), then
    controller 7 is learned as the FINE controller of `p0` -/
def cyOps : List Op := k2Ops ++ [.cc 5 100, .map 0 false, .deliverRT, .cc 7 1, .deliverNRT, .deliverRT]

def cyState : Sys := ((run exPorts Sys.init cyOps).map (·.1)).getD Sys.init

/-- **K2 refutes the unrestricted `emits_composed_value`**: in `cyState` controller 5 is the coarse and
    controller 7 the fine controller of `p0`, the last value of 5 is 100 — but the `midi-bind` that
    brought controller 7 zeroed 5's half (5 has two mapping entries, `half_survives_bind_counterexample`):
    the value 3 of controller 7 sends `(int)0` to `p0` (0..127: the upper seven bits) instead of 100. -/
theorem emits_composed_value_counterexample : ¬ emits_composed_value_statement := by
  intro hst
  have t := trace_of_concrete_run (ops := cyOps) (by decide) (by decide)
  cases hs : step exPorts cyState (.cc 7 3) with
  | none => have : (step exPorts cyState (.cc 7 3)).isSome = true := by decide
            simp [hs] at this
  | some r =>
    obtain ⟨_, h2⟩ := hst exPorts _ cyState (by decide) t 7 3 r.1 r.2 (by decide) hs
    obtain ⟨p, o, hp, _, c1, _, hout, _⟩ := h2 0 false (by decide)
    have ho : o = 100 := by
      rw [c1 5 (by decide)]; decide
    subst ho
    have hp' : p = ⟨true, 0, 1016⟩ := by
      have : exPorts[0]? = some ⟨true, 0, 1016⟩ := by decide
      rw [this] at hp; exact (Option.some.inj hp).symm
    subst hp'
    have hact : (step exPorts cyState (.cc 7 3)).map (·.2) = some [⟨0, .int 0⟩] := by decide
    rw [hs] at hact
    simp only [Option.map_some, Option.some.injEq] at hact
    rw [hact] at hout
    revert hout; decide

example : triggerK2 exPorts cyOps = true := by decide

/-! ## Non-vacuity: concrete hazard-free histories meet the hypotheses -/

/-- coarse and fine controller learned for `p1`, values sent, coarse unmapped — delivered
    in a non-trivial order -/
def okOps : List Op :=
  [.map 1 true, .map 1 false, .map 0 true, .deliverRT, .deliverRT, .cc 5 100, .cc 6 3, .deliverNRT,
   .deliverRT, .deliverRT, .deliverNRT, .deliverRT, .cc 5 100, .cc 6 3, .cc 7 9, .deliverNRT, .deliverRT,
   .cc 7 127, .unmap 1 true, .cc 5 1, .deliverRT, .cc 5 2, .cc 6 4]

example : okOps.all (fun op => decide (op.wf exPorts)) = true := by decide
example : triggerK1 exPorts okOps = false ∧ triggerK2 exPorts okOps = false := by decide
example : (run exPorts Sys.init okOps).map (fun r => r.2.filter (· ≠ []) |>.map (List.map Msg.addr)) =
    some [[1], [1], [0], [1], [1]] := by decide
/-- the hypotheses of `learn_completes_partial` are met by the state after `map p0; deliver` -/
example : let s := ((run exPorts Sys.init [.map 0 true, .deliverRT]).map (·.1)).getD Sys.init
    s.quiescent ∧ s.nrt.learnQ = [(0, true)] ∧ s.rt.binding 5 = none := by decide
/-- the hypotheses of `half_survives_bind_partial` are met: controller 5 drives `p0` and has sent 77,
    the snapshot that adds controller 6 for `p1` is the oldest message to the realtime half -/
example : let ops := [Op.map 0 true, .deliverRT, .cc 5 1, .deliverNRT, .deliverRT, .cc 5 77, .map 1 true,
      .deliverRT, .cc 6 1, .deliverNRT]
    let s := ((run exPorts Sys.init ops).map (·.1)).getD Sys.init
    (match s.toRT with | .bind ns _ :: _ => ns.mapping.length == 2 | _ => false) = true ∧
    (s.rt.storage.map (fun st => st.values)) = some [77 * 128] ∧ hazard s .deliverRT = false ∧
    triggerK1 exPorts ops = false ∧ triggerK2 exPorts ops = false := by decide

/-- the hypotheses of `emits_composed_value_partial` are met non-trivially: after the first 13 steps of
    `okOps` (hazard-free) controller 5 is the coarse and 6 the fine controller of `p1`, 5's last value is
    100 (sent before AND carried across two `midi-bind`s), and the value 3 of controller 6 sends the
    `float` for `100·128 + 3` -/
example : let ops := okOps.take 13
    let s := ((run exPorts Sys.init ops).map (·.1)).getD Sys.init
    hazardFree exPorts ops = true ∧ s.rt.binding 5 = some (1, true) ∧ s.rt.binding 6 = some (1, false) ∧
    lastVals (histOf exPorts Sys.init ops) 5 = 100 ∧
    (step exPorts s (.cc 6 3)).map (·.2) = some [(portCb 1 ⟨false, -8, 8⟩).fire (compose14 false 3 100)] := by
  decide

end Rtosc.Midi
