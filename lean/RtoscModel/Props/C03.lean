/-
C03 — Realtime safety: the message path never allocates and never locks.

The model is GENERATED, once per build configuration: `tools/callgraph.py` extracts on every run the call graph
of the working tree's realtime-path sources (rtosc.c, dispatch.c, ports.cpp, thread-link.cpp, … and whatever
they need from the other translation units) linked with `harness/rt_entries.cpp` (every callback macro of
port-sugar.h instantiated on a sample object + the realtime entry points) from LLVM IR built

* `Gen`   (`CallGraph/Generated.lean`)   at the lowest language level the headers support (-std=c++11, -O1), and
* `Gen17` (`CallGraph/Generated17.lean`) the way CMakeLists.txt builds the library (-std=gnu++17 / -std=c99, -O3).

The theorems below are re-checked by the kernel on that data on every run; the generic induction and the
statement `Graph.Safe` are in `RtoscModel/CallGraph/Reach.lean`.  `Graph.Safe` quantifies over an arbitrary
"calls" relation of executions and has two explicit hypotheses: the extracted graph over-approximates the calls
that can happen (trusted: extractor, clang), and the edges listed in `excludedEdges` are never executed (stated
preconditions: no empty `std::function` is invoked — the dynamic engine checks this for every table built with
the library's macros —, assertions are compiled out (NDEBUG), no exception unwinds).
Assumption: the external leaves in `whitelist` neither allocate nor lock.
What ties the node numbers to symbols: `api_entries_pinned` (every public realtime API function is an entry of
the graph) and `forbidden_names_pinned` (every node that carries the name of an allocator / deallocator / lock /
exception primitive, and each pseudo node, is in the forbidden set).
-/
import RtoscModel.CallGraph.Reach
import RtoscModel.CallGraph.Generated
import RtoscModel.CallGraph.Generated17

namespace Rtosc.CallGraph

/-- The public realtime API of the property statement (building, measuring, reading messages and bundles,
matching, dispatch, default reply/broadcast forwarding, ThreadLink write/read/hasNext), by mangled name.
Every one of them must be a node of each generated graph AND an entry. -/
def requiredEntries : List Name := [
  name! "rtosc_message", name! "rtosc_vmessage", name! "rtosc_amessage", name! "rtosc_message_length",
  name! "rtosc_message_ring_length", name! "rtosc_valid_message_p", name! "rtosc_argument_string",
  name! "rtosc_narguments", name! "rtosc_type", name! "rtosc_argument", name! "rtosc_itr_begin", name! "rtosc_itr_next",
  name! "rtosc_itr_end", name! "rtosc_bundle", name! "rtosc_bundle_elements", name! "rtosc_bundle_fetch",
  name! "rtosc_bundle_size", name! "rtosc_bundle_p", name! "rtosc_bundle_timetag", name! "rtosc_match",
  name! "rtosc_match_path", name! "rtosc_match_options",
  name! "_ZNK5rtosc5Ports8dispatchEPKcRNS_6RtDataEb",
  name! "_ZN5rtosc6RtData5replyEPKcS2_z", name! "_ZN5rtosc6RtData5replyEPKc",
  name! "_ZN5rtosc6RtData9broadcastEPKcS2_z", name! "_ZN5rtosc6RtData9broadcastEPKc",
  name! "_ZN5rtosc10ThreadLink5writeEPKcS2_z", name! "_ZN5rtosc10ThreadLink10writeArrayEPKcS2_PK11rtosc_arg_t",
  name! "_ZN5rtosc10ThreadLink9raw_writeEPKc", name! "_ZNK5rtosc10ThreadLink7hasNextEb",
  name! "_ZNK5rtosc10ThreadLink7hasNextEv", name! "_ZNK5rtosc10ThreadLink16hasNextLookaheadEv",
  name! "_ZN5rtosc10ThreadLink4readEb", name! "_ZN5rtosc10ThreadLink4readEv",
  name! "_ZN5rtosc10ThreadLink14read_lookaheadEv", name! "_ZNK5rtosc10ThreadLink4peakEv"]

/-- pseudo nodes of the extractor: always present, always forbidden -/
def pseudoNodes : List Name := [
  name! "<indirect call with no address-taken candidate>", name! "<inline asm>", name! "<call the extractor could not parse>",
  name! "<atomic read-modify-write in a loop>"]

/-- names of the `observe_at` clause (allocator, deallocator, operator new/delete, pthread mutex) and of the
exception primitives: a node carrying one of these names must be in the forbidden set -/
def forbiddenNames : List Name := pseudoNodes ++ [
  name! "malloc", name! "calloc", name! "realloc", name! "free", name! "posix_memalign", name! "aligned_alloc", name! "memalign", name! "valloc", name! "strdup",
  name! "_Znwm", name! "_Znam", name! "_ZnwmRKSt9nothrow_t", name! "_ZnamRKSt9nothrow_t", name! "_ZnwmSt11align_val_t",
  name! "_ZdlPv", name! "_ZdaPv", name! "_ZdlPvm", name! "_ZdaPvm", name! "_ZdlPvSt11align_val_t",
  name! "pthread_mutex_lock", name! "pthread_mutex_trylock", name! "pthread_mutex_timedlock", name! "pthread_mutex_unlock",
  name! "pthread_rwlock_rdlock", name! "pthread_rwlock_wrlock", name! "pthread_cond_wait", name! "pthread_spin_lock",
  name! "_ZNSt5mutex4lockEv", name! "__cxa_guard_acquire",
  name! "__cxa_allocate_exception", name! "__cxa_throw", name! "_ZSt25__throw_bad_function_callv", name! "_ZSt17__throw_bad_allocv",
  name! "_ZSt20__throw_length_errorPKc", name! "_ZSt20__throw_out_of_rangePKc", name! "_ZSt24__throw_out_of_range_fmtPKcz"]

/-! ## configuration `min` (c++11, -O1): `Gen.graph` -/

/-- Obligation 1: the certificate is closed under every call edge of the generated graph. -/
theorem min_cert_closed : Closed Gen.graph.cert Gen.graph.edges :=
  closedChunksB_sound (by decide +kernel)

/-- Obligation 2: the certificate contains every realtime entry point. -/
theorem min_cert_contains_entries : ContainsAll Gen.graph.cert Gen.graph.entries :=
  containsAllB_sound (by decide +kernel)

/-- Obligation 3: the certificate contains no allocator, deallocator, lock, exception-allocation or stream
function, none of the pseudo nodes standing for calls the extractor could not resolve, and not the pseudo node
that every function containing an atomic read-modify-write instruction inside a loop has an edge to. -/
theorem min_cert_avoids_forbidden : Avoids Gen.graph.cert Gen.graph.forbidden :=
  avoidsB_sound (by decide +kernel)

/-- Obligation 4: every function without a body that the certificate contains is on the explicit whitelist of
leaves assumed not to allocate or lock (an unknown external fails here). -/
theorem min_cert_externals_whitelisted : OnlyListed Gen.graph.cert Gen.graph.externals Gen.graph.whitelist :=
  onlyListedB_sound (by decide +kernel)

/-- Obligation 5: whitelist and forbidden set are disjoint. -/
theorem min_whitelist_not_forbidden : ∀ n ∈ Gen.graph.whitelist, n ∉ Gen.graph.forbidden := by decide +kernel

/-- Obligation 6: every function of the public realtime API is a node of the graph and an entry. -/
theorem min_api_entries_pinned : ∀ s ∈ requiredEntries, ∃ i, Gen.graph.nodeNames[i]? = some s ∧ i ∈ Gen.graph.entries :=
  namedAllInB_sound (by decide +kernel)

/-- Obligation 7: the pseudo nodes exist and are forbidden, and every node that carries the name of an allocator,
deallocator, mutex or exception primitive is in the forbidden set. -/
theorem min_forbidden_names_pinned :
    (∀ s ∈ pseudoNodes, ∃ i, Gen.graph.nodeNames[i]? = some s ∧ i ∈ Gen.graph.forbidden) ∧
    (∀ i s, Gen.graph.nodeNames[i]? = some s → s ∈ forbiddenNames → i ∈ Gen.graph.forbidden) :=
  ⟨namedAllInB_sound (by decide +kernel), namedOnlyInB_sound (by decide +kernel)⟩

theorem min_safe : Gen.graph.Safe :=
  Gen.graph.safe_of_cert ⟨min_cert_contains_entries, min_cert_closed, min_cert_avoids_forbidden, min_cert_externals_whitelisted⟩

/-! ## configuration `shipped` (as CMakeLists.txt builds the library): `Gen17.graph` -/

theorem shipped_cert_closed : Closed Gen17.graph.cert Gen17.graph.edges :=
  closedChunksB_sound (by decide +kernel)

theorem shipped_cert_contains_entries : ContainsAll Gen17.graph.cert Gen17.graph.entries :=
  containsAllB_sound (by decide +kernel)

theorem shipped_cert_avoids_forbidden : Avoids Gen17.graph.cert Gen17.graph.forbidden :=
  avoidsB_sound (by decide +kernel)

theorem shipped_cert_externals_whitelisted : OnlyListed Gen17.graph.cert Gen17.graph.externals Gen17.graph.whitelist :=
  onlyListedB_sound (by decide +kernel)

theorem shipped_whitelist_not_forbidden : ∀ n ∈ Gen17.graph.whitelist, n ∉ Gen17.graph.forbidden := by decide +kernel

theorem shipped_api_entries_pinned :
    ∀ s ∈ requiredEntries, ∃ i, Gen17.graph.nodeNames[i]? = some s ∧ i ∈ Gen17.graph.entries :=
  namedAllInB_sound (by decide +kernel)

theorem shipped_forbidden_names_pinned :
    (∀ s ∈ pseudoNodes, ∃ i, Gen17.graph.nodeNames[i]? = some s ∧ i ∈ Gen17.graph.forbidden) ∧
    (∀ i s, Gen17.graph.nodeNames[i]? = some s → s ∈ forbiddenNames → i ∈ Gen17.graph.forbidden) :=
  ⟨namedAllInB_sound (by decide +kernel), namedOnlyInB_sound (by decide +kernel)⟩

theorem shipped_safe : Gen17.graph.Safe :=
  Gen17.graph.safe_of_cert ⟨shipped_cert_contains_entries, shipped_cert_closed, shipped_cert_avoids_forbidden,
    shipped_cert_externals_whitelisted⟩

/-- **C03** (over the regenerated call graphs of both configurations; see `Graph.Safe` for the two explicit
hypotheses): no call path of any length from a realtime entry point (building, measuring and reading messages
and bundles, matching, `Ports::dispatch` with and without location tracking into every sugar callback, default
`RtData::reply/broadcast` forwarding, `ThreadLink` write/read/hasNext) reaches a function that allocates, frees,
locks or contains an atomic read-modify-write instruction inside a loop; and every function without a body that such a path
reaches is a whitelisted leaf. -/
theorem rt_path_never_allocates_or_locks : Gen.graph.Safe ∧ Gen17.graph.Safe :=
  ⟨min_safe, shipped_safe⟩

/-! ### non-vacuity -/

/-- the hypotheses of `Graph.Safe` are satisfiable: the graph's own edge relation is a `Calls` relation that
fulfils both of them, so the conclusion holds for every path of the graph itself -/
example : ∀ e ∈ Gen17.graph.entries, ∀ n, ReachR (fun a b => (a, b) ∈ Gen17.graph.edges) e n →
    n ∉ Gen17.graph.forbidden :=
  fun e he n hr => (shipped_safe (fun a b => (a, b) ∈ Gen17.graph.edges) (fun _ _ h => Or.inl h)
    (fun _ _ _ hne hc => hne hc) e he n hr).1

/-- there are entries, forbidden functions and excluded edges -/
example : Gen.graph.entries ≠ [] ∧ Gen.graph.forbidden ≠ [] ∧ Gen.graph.excludedEdges ≠ [] ∧
    Gen17.graph.entries ≠ [] ∧ Gen17.graph.forbidden ≠ [] ∧ Gen17.graph.excludedEdges ≠ [] := by decide +kernel

/-- the graphs do contain calls into forbidden functions (construction-time code such as `Ports::refreshMagic`
and the `ThreadLink` constructor): the check is not about a graph from which the allocator has been left out -/
example : (Gen.graph.edges.any fun p => Gen.graph.forbidden.contains p.2) = true ∧
    (Gen17.graph.edges.any fun p => Gen17.graph.forbidden.contains p.2) = true := by decide +kernel

/-- the allocator really is a node of both graphs (so `…_forbidden_names_pinned` is not about absent names) -/
example : ([name! "_Znwm", name! "_ZdlPv"].all fun s => Gen.graph.nodeNames.contains s) = true ∧
    ([name! "_Znwm"].all fun s => Gen17.graph.nodeNames.contains s) = true := by decide +kernel

/-- the certificates are not everything: some defined function lies outside of them -/
example : ((List.range Gen.graph.numNodes).any fun n => !Gen.graph.cert.testBit n && !Gen.graph.externals.contains n) = true ∧
    ((List.range Gen17.graph.numNodes).any fun n => !Gen17.graph.cert.testBit n && !Gen17.graph.externals.contains n) = true := by
  decide +kernel

/-- the sample paths emitted by the translator are real call paths from an entry, several edges long, and
their end points are therefore covered by the theorem -/
example : isPathB Gen.graph.edges Gen.graph.samplePath = true ∧ Gen.graph.samplePath.length ≥ 4 ∧
    (Gen.graph.samplePath.head?.any fun a => Gen.graph.entries.contains a) = true ∧
    isPathB Gen17.graph.edges Gen17.graph.samplePath = true ∧ Gen17.graph.samplePath.length ≥ 3 ∧
    (Gen17.graph.samplePath.head?.any fun a => Gen17.graph.entries.contains a) = true := by decide +kernel

end Rtosc.CallGraph
