/-
C03 — Realtime safety: the message path never allocates and never locks.

The model is GENERATED: `RtoscModel/CallGraph/Generated.lean` is the call graph that
`tools/callgraph.py` extracts on every run from the LLVM IR of the working tree's realtime-path
sources (rtosc.c, dispatch.c, ports.cpp, thread-link.cpp, …) linked with `harness/rt_entries.cpp`
(every callback macro of port-sugar.h instantiated on a sample object + the realtime entry
points).  The theorems below are re-checked by the kernel on that data on every run; the
generic induction is in `RtoscModel/CallGraph/Reach.lean`.

Stated preconditions (edges listed in `Gen.excludedEdges`): no empty `std::function` is ever
invoked (`std::__throw_bad_function_call`), assertions are compiled out (NDEBUG), no exception
unwinds (landing pads are dead because everything that could throw is in the forbidden set).
Assumption: the external leaves in `Gen.whitelist` neither allocate nor lock.
-/
import RtoscModel.CallGraph.Reach
import RtoscModel.CallGraph.Generated

namespace Rtosc.CallGraph
open Gen

/-- the edge list of the generated call graph -/
def edges : List Edge := edgeChunks.flatten

/-- Obligation 1: the certificate is closed under every call edge of the generated graph. -/
theorem cert_closed : Closed cert edges :=
  closedChunksB_sound (by decide +kernel)

/-- Obligation 2: the certificate contains every realtime entry point. -/
theorem cert_contains_entries : ContainsAll cert entries :=
  containsAllB_sound (by decide +kernel)

/-- Obligation 3: the certificate contains no allocator, deallocator, lock, exception-allocation
or stream function, and none of the pseudo nodes standing for calls the extractor could not
resolve. -/
theorem cert_avoids_forbidden : Avoids cert forbidden :=
  avoidsB_sound (by decide +kernel)

/-- Obligation 4: every function without a body that the certificate contains is on the explicit
whitelist of leaves assumed not to allocate or lock (an unknown external fails here). -/
theorem cert_externals_whitelisted : OnlyListed cert externals whitelist :=
  onlyListedB_sound (by decide +kernel)

/-- Obligation 5: whitelist and forbidden set are disjoint. -/
theorem whitelist_not_forbidden : ∀ n ∈ whitelist, n ∉ forbidden := by decide +kernel

/-- **C03**: no call path of any length from a realtime entry point (building, measuring and
reading messages and bundles, matching, `Ports::dispatch` with and without location tracking into
every sugar callback, default `RtData::reply/broadcast` forwarding, `ThreadLink`
write/read/hasNext) reaches a function that allocates, frees or locks; and every function
without a body that such a path reaches is a whitelisted leaf. -/
theorem rt_path_never_allocates_or_locks :
    ∀ e ∈ entries, ∀ n, Reach edges e n → n ∉ forbidden ∧ (n ∈ externals → n ∈ whitelist) := by
  intro e he n hr
  have hin : inMask cert n := closed_contains_reachable cert_contains_entries cert_closed e he n hr
  exact ⟨fun hf => cert_avoids_forbidden n hf hin, fun hx => cert_externals_whitelisted n hx hin⟩

/-! ### non-vacuity -/

/-- there are entries and forbidden functions -/
example : entries ≠ [] ∧ forbidden ≠ [] := by decide +kernel

/-- the graph does contain calls into forbidden functions (construction-time code such as
`Ports::refreshMagic` and the `ThreadLink` constructor): the check is not about a graph from
which the allocator has been left out -/
example : (edges.any fun p => forbidden.contains p.2) = true := by decide +kernel

/-- the certificate is not everything: some defined function lies outside of it -/
example : ((List.range numNodes).any fun n => !cert.testBit n && !externals.contains n) = true := by
  decide +kernel

/-- the sample path emitted by the translator is a real call path from an entry, several
edges long, and its end point is therefore covered by the theorem -/
example : isPathB edges samplePath = true ∧ samplePath.length ≥ 4 ∧
    (samplePath.head?.any fun a => entries.contains a) = true := by decide +kernel

end Rtosc.CallGraph
