/-
  C04 — Dispatch delivers a message to exactly the port it addresses.
  Property theorems only; models in Ports/{Tree,Hash,Dispatch,Spec}.lean, helper lemmas in
  Proofs/Ports*.lean.

  Reading of the statement
  * "any port tree whose port names use literal text and `#N` enumerations": a `PPorts` /
    `PTable` — ports in table order, each with a structured name (`Pat` of C05: literal
    text, `#N`, optional trailing '/', optional `:types`), optionally a sub-table, every
    table with or without default handler — that is well formed (`PTable.WF`): names of
    the documented form without `{}` groups (any byte but NUL and the pattern syntax
    `# { * :`, also bytes >= 127: fixes/C04-06); a port with a sub-table
    is named `component/` (one component: the recursion callbacks cut exactly one,
    `SNIP`).  `PPorts.render` is the `Ports` object the code sees.  Tables of any size,
    nesting of any depth.
  * "a message": address `addr`, type string `tags` (C strings), laid out as
    `msgBuf addr tags k rest` (address, k+1 NULs, ",tags", NUL, rest of the buffer — any
    bytes, also none: nothing behind the type string's NUL is read, fixes/C05-args-overread);
    `mkMsg_msgBuf`: every message laid out by `rtosc_amessage` has this form.  Digit runs
    of the address are below 2^31 (as in C05) — `InScope`.
  * "invokes a port's callback": an entry of the callback log that `dispatch` returns
    (`Call`: who, the `msg` pointer, `d.loc`, `d.obj`, `d.port` as the callback sees them).
    Callbacks of ports with a sub-table behave like `rRecurCb`; for `rRecurpCb` / `rRecursCb` /
    `rRecurspCb` (ports `name#N/`: which array element is handed down) see
    `sugar_obj_handed_down`.
  * "its address matches that port's path at every level of the tree and its type tags
    are admitted": `AnswersRoot` (Ports/Spec.lean), built level by level from C05's
    `PathSpec` and the type rule of C05 (`TypesAdmit`: what the type matcher really does,
    `types_exact` of C05).  The default handler of a reached table in which no port admits
    the message counts as a callback (the quantifier includes tables with default handler).
    Independently of that rule the statement is also given in MUST / MAY / MUSTNOT form
    (`MustAnswer`, `MayAnswer`, Proofs/PortsExtSandwich.lean), built from C05's two-sided
    statement only: a type string that is one of the listed alternatives MUST match, one
    that does not even extend a listed alternative MUST NOT (`dispatch_must_mustnot`,
    `dispatch_sandwich`).
  * "the table-lookup strategy the library picked": `mk`, the function that builds the
    lookup tables of a table from its names.  Everything is proved for every `mk` whose
    results satisfy `HashOK` when they are used at all (`MkOK`); `refreshMagic` with
    *any* heuristic search is such a function (`generate_establishes_HashOK`,
    `matcherOf_MkOK`): the guards carry the proof, not `find_pos` / `find_assoc`.

  The model mirrors ports.cpp with six repairs applied (fixes/C04-01 … C04-06); what the
  unrepaired code did is recorded by the `…_counterexample` theorems at the end.
-/
import RtoscModel.Proofs.PortsRoot
import RtoscModel.Proofs.PortsBuild
import RtoscModel.Proofs.PortsObj
import RtoscModel.Proofs.PortsExtSandwich
import RtoscModel.Proofs.PortsExtLoc
import RtoscModel.Proofs.PortsExtSugar
import RtoscModel.Proofs.PortsExtEntry
namespace Rtosc.Ports
open Rtosc Rtosc.Match Rtosc.Ports.Hash

/-- the message buffer -/
abbrev msgBuf (addr tags : Bytes) (k : Nat) (rest : Bytes) : Bytes := addr ++ 0 :: msgTail k tags rest

theorem some_pair {α β : Type} {o : Option (α × β)} {x : α × β} (h : o = some x) :
    ∃ a b, o = some (a, b) ∧ a = x.1 ∧ b = x.2 := ⟨x.1, x.2, h, rfl, rfl⟩

theorem whos_of_views {l1 l2 : List Call} (h : views l1 = views l2) :
    l1.map (·.who) = l2.map (·.who) := by
  have := congrArg (List.map View.who) h
  simp only [views, List.map_map] at this
  exact this

/-- every message laid out by `rtosc_amessage` (C05: `mkMsg`) is such a buffer -/
theorem mkMsg_msgBuf (addr tags rest : Bytes) :
    ∃ k j, mkMsg addr tags rest = msgBuf addr tags k (List.replicate j 0 ++ rest) := by
  obtain ⟨k1, h1⟩ := pad4_eq addr
  obtain ⟨k2, h2⟩ := pad4_eq (44 :: tags)
  exact ⟨k1, k2, by simp [mkMsg, h1, h2, msgBuf, msgTail]⟩

/-- the inputs the property quantifies over -/
structure InScope (P : PPorts) (addr tags rest : Bytes) : Prop where
  wf : P.tab.WF
  addr_nul : NulFree addr
  addr_idx : IdxBounded addr
  tags_nul : NulFree tags

theorem InScope.msgOK {P : PPorts} {addr tags rest : Bytes} (h : InScope P addr tags rest) :
    MsgOK addr tags rest 0 := ⟨h.addr_nul, h.addr_idx, h.tags_nul⟩

/-! ## The lookup tables -/

/-- **generate_establishes_HashOK**: whatever `find_pos` and `find_assoc` return — any
    two functions —, a table for which `refreshMagic` leaves a non-empty `pos` satisfies
    `HashOK`: no `#`, no inner '/', `fixed` / `arg_spec` / `enump` belong to the names,
    `remap[hash(key i)] = i` for every port (hence pairwise different keys) and all
    entries of `remap` are port numbers. -/
theorem generate_establishes_HashOK (S : Search) (names : List Bytes) (pm : Matcher)
    (h : matcherOf S names = some pm) (hpos : pm.pos ≠ []) : HashOK names pm :=
  matcherOf_HashOK S names pm h hpos

/-- **hashed_sound**: for *arbitrary* `pos`, `assoc`, `remap` (and arbitrary other
    entries of `fixed` / `arg_spec`), a port that the hashed branch selects — `hard_match`
    succeeded for `port_num = remap[hash]` — satisfies `rtosc_match`, provided its name is
    literal and its own `fixed` / `arg_spec` entries are the ones `generate_minimal_hash`
    stores (`splitName_render`). -/
theorem hashed_sound {p : Pat} (hp : nameWf p = true) (hl : allLit p.segs = true)
    (pm : Matcher) (j : Nat) (hfix : pm.fixed[j]? = some (splitName p.render).1)
    (hspec : pm.argSpec[j]? = some (splitName p.render).2)
    {addr tags : Bytes} (k : Nat) (rest : Bytes) (ha : NulFree addr) (hb : IdxBounded addr) (ht : NulFree tags)
    (hlk : lookup pm (msgBuf addr tags k rest) = some (.slot j true)) :
    ∃ e, full (p.render ++ [0]) (msgBuf addr tags k rest) = some (true, e) := by
  obtain ⟨hp0, hpne, hpna, _⟩ := nameWf_unpack hp
  rw [splitName_render hp0 hpne hpna] at hfix hspec
  have := lookup_sound hp0 hpne hl pm j hfix hspec k rest ha ht hlk
  obtain ⟨e, he, _⟩ := full_render hp0 hpne hpna k rest ha hb ht
  exact ⟨e, by rw [msgBuf, he, this]⟩

/-- **hashed_complete**: under `HashOK`, a port that `rtosc_match`es the message is the one
    the hashed branch selects. -/
theorem hashed_complete {names : List Bytes} {pm : Matcher} (hok : HashOK names pm)
    {p : Pat} (hp : nameWf p = true) (i : Nat) (hi : names[i]? = some p.render)
    {addr tags : Bytes} (k : Nat) (rest : Bytes) (ha : NulFree addr) (hb : IdxBounded addr) (ht : NulFree tags)
    (hm : ∃ e, full (p.render ++ [0]) (msgBuf addr tags k rest) = some (true, e)) :
    lookup pm (msgBuf addr tags k rest) = some (.slot i true) := by
  obtain ⟨hp0, hpne, hpna, _⟩ := nameWf_unpack hp
  obtain ⟨e, he, _⟩ := full_render hp0 hpne hpna k rest ha hb ht
  obtain ⟨e', he'⟩ := hm
  rw [msgBuf, he] at he'
  cases hmb : matchB p addr tags with
  | none => rw [hmb] at he'; simp at he'
  | some t => exact lookup_complete hok hp0 hpne hpna i hi k rest ha ht hmb

/-- `refreshMagic` with any heuristic search is a table-construction function for which
    everything below holds; in particular the real one. -/
theorem real_MkOK : MkOK (matcherOf realSearch) := matcherOf_MkOK realSearch

/-! ## Dispatch -/

/-- **dispatch_linear_iff** (no location buffer; the lookup is the linear scan): a
    callback is in the log if and only if the message's address matches the port's path at
    every level and its type tags are admitted (`AnswersRoot`). -/
theorem dispatch_linear_iff (mk : List Bytes → Option Matcher) {P : PPorts} {addr tags rest : Bytes}
    (h : InScope P addr tags rest) (k : Nat) (base : Bool) (d : RtData) (hd : d.loc = none) :
    ∃ log d', dispatch mk P.render (msgBuf addr tags k rest) d base = some (log, d') ∧
      ∀ w, w ∈ log.map (·.who) ↔ AnswersRoot P (rootAddr base addr) tags w := by
  have hm := h.msgOK
  obtain ⟨log, d', hdisp, hlog, _⟩ := some_pair (dispatch_noLoc mk h.wf k hm base d hd)
  refine ⟨log, d', hdisp, ?_⟩
  subst hlog
  intro w
  have h1 := whos_finNo P.dflt [] d.obj (rootAddr base addr ++ 0 :: msgTail k tags rest)
    (semNo P.tab [] 0 d.obj (rootAddr base addr) tags (msgTail k tags rest) (rootDataNo base d) false) w
  simp only [whos] at h1
  rw [h1, AnswersRoot]
  have h2 := semNo_answers P.tab h.wf [] 0 d.obj (rootAddr base addr) tags (msgTail k tags rest)
    (rootDataNo base d) false w
  simp only [whos] at h2
  rw [h2, semNo_flag]
  have hany := any_iff_anyAdmits h.wf (rootAddr base addr) tags
  simp only [Bool.false_or]
  constructor
  · rintro (h | ⟨h1, h2, h3⟩)
    · exact Or.inl h
    · exact Or.inr ⟨h1, (fun hh => by rw [hany.mpr hh] at h2; cases h2), h3⟩
  · rintro (h | ⟨h1, h2, h3⟩)
    · exact Or.inl h
    · refine Or.inr ⟨h1, ?_, h3⟩
      cases hb : P.tab.pats.any (fun q => (matchB q (rootAddr base addr) tags).isSome) with
      | false => rfl
      | true => exact absurd (hany.mp hb) h2

/-- the two runs of one message: with location buffer (`dL`) and without (`dN`), started
    with the same object and port pointer -/
structure TwoRuns (dL dN : RtData) (L0 : Bytes) : Prop where
  loc : dL.loc = some L0
  size : dL.locSize ≠ 0
  noloc : dN.loc = none
  obj : dN.obj = dL.obj
  port : dN.port = dL.port

theorem rootData_inStep {dL dN : RtData} {L0 : Bytes} (h : TwoRuns dL dN L0) (base : Bool) :
    InStep (rootDataNo base dN) (rootDataLoc base dL) := by
  refine ⟨?_, ?_⟩
  · rw [rootDataLoc_obj]; cases base <;> simp [rootDataNo, h.obj]
  · rw [rootDataLoc_port]; cases base <;> simp [rootDataNo, h.port]

/-- **loc_independent**: with and without location buffer — i.e. whichever lookup strategy
    each table of the tree got — the same callbacks are invoked, in the same order, each
    handed the same message pointer, object and port pointer. -/
theorem loc_independent {mk : List Bytes → Option Matcher} (hmk : MkOK mk) {P : PPorts} {addr tags rest : Bytes}
    (h : InScope P addr tags rest) (k : Nat) (base : Bool) {dL dN : RtData} {L0 : Bytes} (hr : TwoRuns dL dN L0) :
    ∃ logL dL' logN dN',
      dispatch mk P.render (msgBuf addr tags k rest) dL base = some (logL, dL') ∧
      dispatch mk P.render (msgBuf addr tags k rest) dN base = some (logN, dN') ∧
      views logL = views logN := by
  have hm := h.msgOK
  obtain ⟨logL, dL', hdL, hlogL, _⟩ := some_pair (dispatch_loc hmk h.wf k hm base dL L0 hr.loc hr.size)
  obtain ⟨logN, dN', hdN, hlogN, _⟩ := some_pair (dispatch_noLoc mk h.wf k hm base dN hr.noloc)
  refine ⟨logL, dL', logN, dN', hdL, hdN, ?_⟩
  subst hlogL hlogN
  obtain ⟨v1, v2, v3⟩ := sem_views P.tab [] 0 dL.obj (rootLoc base L0) (rootAddr base addr) tags
    (msgTail k tags rest) (rootDataNo base dN) (rootDataLoc base dL) false (rootData_inStep hr base)
  rw [hr.obj]
  exact (fin_views P.dflt [] dL.obj _ _ _ v1 v2 v3).1.symm

/-- **dispatch_iff** (with location buffer, any lookup strategy): the same equivalence. -/
theorem dispatch_loc_iff {mk : List Bytes → Option Matcher} (hmk : MkOK mk) {P : PPorts} {addr tags rest : Bytes}
    (h : InScope P addr tags rest) (k : Nat) (base : Bool) (d : RtData) (L0 : Bytes)
    (hd : d.loc = some L0) (hsz : d.locSize ≠ 0) :
    ∃ log d', dispatch mk P.render (msgBuf addr tags k rest) d base = some (log, d') ∧
      ∀ w, w ∈ log.map (·.who) ↔ AnswersRoot P (rootAddr base addr) tags w := by
  have hr : TwoRuns d { d with loc := none } L0 := ⟨hd, hsz, rfl, rfl, rfl⟩
  obtain ⟨logL, dL', logN, dN', h1, h2, hv⟩ := loc_independent hmk h k base hr
  obtain ⟨logN', dN'', h3, h4⟩ := dispatch_linear_iff mk h k base { d with loc := none } rfl
  rw [h2] at h3
  cases h3
  refine ⟨logL, dL', h1, ?_⟩
  intro w
  rw [← h4 w]
  rw [whos_of_views hv]

/-- **dispatch_unique**: no callback is invoked twice.  Together with the equivalences: a
    message addressed to one leaf port invokes that one callback exactly once and no other. -/
theorem dispatch_unique {mk : List Bytes → Option Matcher} (hmk : MkOK mk) {P : PPorts} {addr tags rest : Bytes}
    (h : InScope P addr tags rest) (k : Nat) (base : Bool) {dL dN : RtData} {L0 : Bytes} (hr : TwoRuns dL dN L0) :
    ∃ logL dL' logN dN',
      dispatch mk P.render (msgBuf addr tags k rest) dL base = some (logL, dL') ∧
      dispatch mk P.render (msgBuf addr tags k rest) dN base = some (logN, dN') ∧
      (logL.map (·.who)).Nodup ∧ (logN.map (·.who)).Nodup := by
  obtain ⟨logL, dL', logN, dN', h1, h2, hv⟩ := loc_independent hmk h k base hr
  have hm := h.msgOK
  have h2' := dispatch_noLoc mk h.wf k hm base dN hr.noloc
  rw [h2] at h2'
  have hN : (logN.map (·.who)).Nodup := by
    have hlog := congrArg (fun o => o.map (·.1)) h2'
    simp only [Option.map_some, Option.some.injEq] at hlog
    rw [hlog]
    have hnd := semNo_nodup P.tab [] 0 dN.obj (rootAddr base addr) tags (msgTail k tags rest)
      (rootDataNo base dN) false
    rcases whos_finNo_eq P.dflt [] dN.obj (rootAddr base addr ++ 0 :: msgTail k tags rest)
      (semNo P.tab [] 0 dN.obj (rootAddr base addr) tags (msgTail k tags rest) (rootDataNo base dN) false) with hh | hh
    · simp only [whos] at hh hnd; rw [hh]; exact hnd
    · simp only [whos] at hh hnd
      rw [hh]
      refine List.nodup_append.mpr ⟨hnd, by simp, ?_⟩
      intro w hw b hb
      simp only [List.mem_singleton] at hb
      subst hb
      intro hwb
      subst hwb
      obtain ⟨j, s, _, hp⟩ := semNo_paths _ _ _ _ _ _ _ _ _ _ hw
      simp [Who.path] at hp
  refine ⟨logL, dL', logN, dN', h1, h2, ?_, hN⟩
  rw [whos_of_views hv]
  exact hN

/-! ### with a location buffer -/

/-- the facts about one dispatch with location buffer, bundled: the log and final `RtData`
    are those of `semLoc` -/
theorem dispatch_loc_sem {mk : List Bytes → Option Matcher} (hmk : MkOK mk) {P : PPorts} {addr tags rest : Bytes}
    (h : InScope P addr tags rest) (k : Nat) (base : Bool) (d : RtData) (L0 : Bytes)
    (hd : d.loc = some L0) (hsz : d.locSize ≠ 0) :
    dispatch mk P.render (msgBuf addr tags k rest) d base =
      some (finLoc P.dflt [] d.obj (rootAddr base addr ++ 0 :: msgTail k tags rest)
        (semLoc P.tab [] 0 d.obj (rootLoc base L0) (rootAddr base addr) tags (msgTail k tags rest)
          (rootDataLoc base d) false)) := by
  have hm := h.msgOK
  exact dispatch_loc hmk h.wf k hm base d L0 hd hsz

/-- **loc_restored**: after the dispatch `loc` holds what it held when the root table was
    entered: "/" after a base dispatch (or when it was empty), else its old content. -/
theorem loc_restored {mk : List Bytes → Option Matcher} (hmk : MkOK mk) {P : PPorts} {addr tags rest : Bytes}
    (h : InScope P addr tags rest) (k : Nat) (base : Bool) (d : RtData) (L0 : Bytes)
    (hd : d.loc = some L0) (hsz : d.locSize ≠ 0) :
    ∃ log d', dispatch mk P.render (msgBuf addr tags k rest) d base = some (log, d') ∧
      d'.loc = some (rootLoc base L0) := by
  obtain ⟨log, d', hdisp, hlog, hd'⟩ := some_pair (dispatch_loc_sem hmk h k base d L0 hd hsz)
  refine ⟨log, d', hdisp, ?_⟩
  subst hlog hd'
  rw [finLoc_loc]
  exact semLoc_loc _ _ _ _ _ _ _ _ _ _ (rootDataLoc_loc base d L0 hd)

/-- **loc_full_address**: every callback sees in `loc` the address up to and including the
    part its own name accounts for (`LocOK`): `loc ++ rest = "/" ++ address` where `rest`
    is what the port's name leaves over — nothing, unless the name ends in '/'.  A
    callback of a port without trailing '/' therefore sees the full address.  (The
    invariant of ports.h: "d.loc + m make the port's full path".) -/
theorem loc_full_address {mk : List Bytes → Option Matcher} (hmk : MkOK mk) {P : PPorts} {addr tags rest : Bytes}
    (h : InScope P addr tags rest) (k : Nat) (base : Bool) (d : RtData) (L0 : Bytes)
    (hd : d.loc = some L0) (hsz : d.locSize ≠ 0) :
    ∃ log d', dispatch mk P.render (msgBuf addr tags k rest) d base = some (log, d') ∧
      ∀ c ∈ log, LocOK (rootLoc base L0 ++ rootAddr base addr) (msgTail k tags rest) c := by
  obtain ⟨log, d', hdisp, hlog, hd'⟩ := some_pair (dispatch_loc_sem hmk h k base d L0 hd hsz)
  refine ⟨log, d', hdisp, ?_⟩
  subst hlog hd'
  intro c hc
  have hloc := rootDataLoc_loc base d L0 hd
  rcases mem_finLoc hc with hc | ⟨_, _, rfl⟩
  · exact semLoc_locOK P.tab h.wf _ _ _ _ _ _ _ _ _ hloc c hc
  · refine ⟨rootLoc base L0, rootAddr base addr, ?_, rfl, ?_⟩
    · simp only [dfltCallOf]
      exact semLoc_loc _ _ _ _ _ _ _ _ _ _ hloc
    · simp [dfltCallOf]

/-- **loc_full_address_exact** ("the callback sees the full address in it", at the strength of the
    sentence): every log entry names a port of the tree (`PPorts.portAt`: the port with that path of
    table indices), and for that port's own name `p`: `loc = pre ++ mid`, the message pointer the
    callback is handed is `mid ++ rest` (the invariant of ports.h: "d.loc + m make the port's full
    path"), `pre ++ mid ++ rest` is "/" ++ address, and `mid` is exactly what the name accounts for
    (`Accounts`: `mid ++ rest` spells the segments of `p` — literal text, at `#N` the whole run of
    digits, below N — and what is left is "/" ++ rest for a name with trailing '/', nothing for a name
    without).  Hence the callback of a port without trailing '/' sees the full address
    (second conjunct).  A default handler sees `loc ++ (address at its message pointer)` = the full
    address.  `loc_full_address` (`LocOK`: some prefix that is everything or ends in '/') is the
    corollary `locExact_locOK`. -/
theorem loc_full_address_exact {mk : List Bytes → Option Matcher} (hmk : MkOK mk) {P : PPorts} {addr tags rest : Bytes}
    (h : InScope P addr tags rest) (k : Nat) (base : Bool) (d : RtData) (L0 : Bytes)
    (hd : d.loc = some L0) (hsz : d.locSize ≠ 0) :
    ∃ log d', dispatch mk P.render (msgBuf addr tags k rest) d base = some (log, d') ∧
      ∀ c ∈ log, LocExact P (rootLoc base L0 ++ rootAddr base addr) (msgTail k tags rest) c ∧
        ∀ q p, c.who = .port q → P.portAt q = some p → p.sub = false →
          c.loc = some (rootLoc base L0 ++ rootAddr base addr) := by
  obtain ⟨log, d', hdisp, hlog, hd'⟩ := some_pair (dispatch_loc_sem hmk h k base d L0 hd hsz)
  refine ⟨log, d', hdisp, ?_⟩
  subst hlog hd'
  intro c hc
  have hloc := rootDataLoc_loc base d L0 hd
  have hex : LocExact P (rootLoc base L0 ++ rootAddr base addr) (msgTail k tags rest) c := by
    rcases mem_finLoc hc with hc | ⟨_, _, rfl⟩
    · exact locExact_of_at (semLoc_locExact P.tab h.wf _ _ _ _ _ _ _ _ _ hloc c hc)
    · refine ⟨rootLoc base L0, rootAddr base addr, ?_, rfl, ?_⟩
      · simp only [dfltCallOf]
        exact semLoc_loc _ _ _ _ _ _ _ _ _ _ hloc
      · simp [dfltCallOf]
  exact ⟨hex, fun q p hq hp hs => locExact_leaf_full hex hq hp hs⟩

/-- **matches_eq_leaf_callbacks**: after a root dispatch `d.matches` is the number of
    leaf callbacks invoked (callbacks of ports without sub-table, and default handlers);
    without `base_dispatch` it has grown by that number. -/
theorem matches_eq_leaf_callbacks {mk : List Bytes → Option Matcher} (hmk : MkOK mk) {P : PPorts}
    {addr tags rest : Bytes} (h : InScope P addr tags rest) (k : Nat) (base : Bool) (d : RtData) (L0 : Bytes)
    (hd : d.loc = some L0) (hsz : d.locSize ≠ 0) :
    ∃ log d', dispatch mk P.render (msgBuf addr tags k rest) d base = some (log, d') ∧
      d'.nmatches = (if base then 0 else d.nmatches) + leafCount log := by
  obtain ⟨log, d', hdisp, hlog, hd'⟩ := some_pair (dispatch_loc_sem hmk h k base d L0 hd hsz)
  refine ⟨log, d', hdisp, ?_⟩
  subst hlog hd'
  have := finLoc_count P.dflt [] d.obj (rootAddr base addr ++ 0 :: msgTail k tags rest) _ _
    (semLoc_count P.tab [] 0 d.obj (rootLoc base L0) (rootAddr base addr) tags (msgTail k tags rest)
      (rootDataLoc base d) false)
  rw [rootDataLoc_nmatches] at this
  exact this

/-- **port_pointer_own** and **obj_handed_down**: the callback of a port sees the pointer of
    its own port in `d.port` and, in `d.obj`, the object of the table it belongs to — the
    one its parent port handed down (the root object has the empty path); a default
    handler sees the object of its table. -/
theorem port_pointer_own {mk : List Bytes → Option Matcher} (hmk : MkOK mk) {P : PPorts} {addr tags rest : Bytes}
    (h : InScope P addr tags rest) (k : Nat) (base : Bool) (d : RtData) (L0 : Bytes)
    (hd : d.loc = some L0) (hsz : d.locSize ≠ 0) (hobj : d.obj = []) :
    ∃ log d', dispatch mk P.render (msgBuf addr tags k rest) d base = some (log, d') ∧
      ∀ c ∈ log, (∀ q, c.who = .port q → c.dport = some q ∧ c.obj = q.dropLast) ∧
                 (∀ q, c.who = .dflt q → c.obj = q) := by
  obtain ⟨log, d', hdisp, hlog, hd'⟩ := some_pair (dispatch_loc_sem hmk h k base d L0 hd hsz)
  refine ⟨log, d', hdisp, ?_⟩
  subst hlog hd'
  intro c hc
  rw [hobj] at hc
  have hro : (rootDataLoc base d).obj = [] := by rw [rootDataLoc_obj, hobj]
  rcases mem_finLoc hc with hc | ⟨_, _, rfl⟩
  · exact semLoc_ptr P.tab [] 0 _ _ _ _ _ _ hro c hc
  · refine ⟨fun q hq => by simp [dfltCallOf] at hq, ?_⟩
    intro q hq
    simp only [dfltCallOf, Who.dflt.injEq] at hq
    subst hq
    simp only [dfltCallOf]
    exact semLoc_obj _ _ _ _ _ _ _ _ _ _ hro

/-- the same without location buffer (by `loc_independent` the entries agree) -/
theorem obj_handed_down {mk : List Bytes → Option Matcher} (hmk : MkOK mk) {P : PPorts} {addr tags rest : Bytes}
    (h : InScope P addr tags rest) (k : Nat) (base : Bool) (d : RtData) (hd : d.loc = none) (hobj : d.obj = []) :
    ∃ log d', dispatch mk P.render (msgBuf addr tags k rest) d base = some (log, d') ∧
      ∀ c ∈ log, (∀ q, c.who = .port q → c.dport = some q ∧ c.obj = q.dropLast) ∧
                 (∀ q, c.who = .dflt q → c.obj = q) := by
  have hr : TwoRuns { d with loc := some [], locSize := 1 } d [] := ⟨rfl, by simp, hd, rfl, rfl⟩
  obtain ⟨logL, dL', logN, dN', h1, h2, hv⟩ := loc_independent hmk h k base hr
  obtain ⟨logL', dL'', h3, h4⟩ := port_pointer_own hmk h k base { d with loc := some [], locSize := 1 } []
    rfl (by simp) hobj
  rw [h1] at h3
  cases h3
  refine ⟨logN, dN', h2, ?_⟩
  intro c hc
  have hcv : c.view ∈ views logL := by rw [hv]; exact List.mem_map.mpr ⟨c, hc, rfl⟩
  obtain ⟨c', hc', hcc⟩ := List.mem_map.mp hcv
  have := h4 c' hc'
  have e1 : c'.who = c.who := congrArg View.who hcc
  have e2 : c'.dport = c.dport := congrArg View.dport hcc
  have e3 : c'.obj = c.obj := congrArg View.obj hcc
  rw [e1, e2, e3] at this
  exact this

/-! ### operation histories on one `RtData`

An application sets up its `RtData` once (object, location buffer) and dispatches every incoming
message with it: "the runtime object handed down by the parent levels" is, for the root table, what
the dispatch before left in `d.obj`. -/

/-- **obj_restored**: a dispatch leaves in `d.obj` the object it was called with (and does not touch
    `loc_size`): the next dispatch made with the same `RtData` hands the root table the same object. -/
theorem obj_restored {mk : List Bytes → Option Matcher} (hmk : MkOK mk) {P : PPorts} {addr tags rest : Bytes}
    (h : InScope P addr tags rest) (k : Nat) (base : Bool) (d : RtData) (L0 : Bytes)
    (hd : d.loc = some L0) (hsz : d.locSize ≠ 0) :
    ∃ log d', dispatch mk P.render (msgBuf addr tags k rest) d base = some (log, d') ∧
      d'.obj = d.obj ∧ d'.locSize = d.locSize := by
  obtain ⟨log, d', hdisp, hlog, hd'⟩ := some_pair (dispatch_loc_sem hmk h k base d L0 hd hsz)
  refine ⟨log, d', hdisp, ?_, ?_⟩
  · subst hlog hd'
    exact finLoc_obj _ _ _ _ _ (semLoc_obj _ _ _ _ _ _ _ _ _ _ (rootDataLoc_obj base d))
  · subst hlog hd'
    rw [finLoc_locSize, semLoc_locSize, rootDataLoc_locSize]

/-- the same without location buffer (`loc` stays NULL) -/
theorem obj_restored_noloc (mk : List Bytes → Option Matcher) {P : PPorts} {addr tags rest : Bytes}
    (h : InScope P addr tags rest) (k : Nat) (base : Bool) (d : RtData) (hd : d.loc = none) :
    ∃ log d', dispatch mk P.render (msgBuf addr tags k rest) d base = some (log, d') ∧
      d'.obj = d.obj ∧ d'.loc = none := by
  obtain ⟨log, d', hdisp, hlog, hd'⟩ := some_pair (dispatch_noLoc mk h.wf k h.msgOK base d hd)
  refine ⟨log, d', hdisp, ?_, ?_⟩
  · subst hlog hd'
    exact finNo_obj _ _ _ _ _ (semNo_obj _ _ _ _ _ _ _ _ _ (rootDataNo_obj base d))
  · subst hlog hd'
    rw [finNo_loc, semNo_loc, rootDataNo_loc, hd]

/-- one message of an operation history: address, type string, padding, rest of its buffer, `base_dispatch` -/
structure HMsg where
  addr : Bytes
  tags : Bytes
  k : Nat
  rest : Bytes
  base : Bool

/-- an operation history on one `RtData`: every dispatch starts with what the one before left behind -/
def runHistory (mk : List Bytes → Option Matcher) (P : Ports) : RtData → List HMsg → Option (List (List Call) × RtData)
  | d, [] => some ([], d)
  | d, m :: r =>
    match dispatch mk P (msgBuf m.addr m.tags m.k m.rest) d m.base with
    | none => none
    | some (log, d') =>
      match runHistory mk P d' r with
      | none => none
      | some (logs, d'') => some (log :: logs, d'')

/-- **history_obj_handed_down**: for every history of dispatches on one `RtData` that the caller set up once
    (root object, location buffer): in every dispatch of the history every callback is handed the object of
    its table — the root table's callbacks the caller's object — and its own port pointer, and the
    `RtData` still holds the caller's object afterwards. -/
theorem history_obj_handed_down {mk : List Bytes → Option Matcher} (hmk : MkOK mk) {P : PPorts} :
    ∀ (ms : List HMsg), (∀ m ∈ ms, InScope P m.addr m.tags m.rest) →
    ∀ (d : RtData) (L0 : Bytes), d.loc = some L0 → d.locSize ≠ 0 → d.obj = [] →
    ∃ logs d', runHistory mk P.render d ms = some (logs, d') ∧ d'.obj = [] ∧
      ∀ log ∈ logs, ∀ c ∈ log, (∀ q, c.who = .port q → c.dport = some q ∧ c.obj = q.dropLast) ∧
                               (∀ q, c.who = .dflt q → c.obj = q) := by
  intro ms
  induction ms with
  | nil => intro _ d L0 _ _ hobj; exact ⟨[], d, rfl, hobj, by simp⟩
  | cons m r ih =>
    intro hs d L0 hd hsz hobj
    have hm := hs m (List.mem_cons_self)
    obtain ⟨log, d1, h1, hptr⟩ := port_pointer_own hmk hm m.k m.base d L0 hd hsz hobj
    obtain ⟨log', d1', h1', ho, hs1⟩ := obj_restored hmk hm m.k m.base d L0 hd hsz
    obtain ⟨log'', d1'', h1'', hl⟩ := loc_restored hmk hm m.k m.base d L0 hd hsz
    rw [h1] at h1' h1''
    cases h1'; cases h1''
    obtain ⟨logs, d2, h2, ho2, hptr2⟩ := ih (fun x hx => hs x (List.mem_cons_of_mem _ hx)) d1 _ hl
      (by rw [hs1]; exact hsz) (by rw [ho, hobj])
    refine ⟨log :: logs, d2, ?_, ho2, ?_⟩
    · simp only [runHistory, h1, h2]
    · intro lg hlg
      rcases List.mem_cons.mp hlg with rfl | hlg
      · exact hptr
      · exact hptr2 lg hlg

/-- **history_obj_restored_noloc**: the same for histories dispatched WITHOUT location buffer: every dispatch
    of the history is defined, and the `RtData` still holds the caller's object (and no location buffer)
    afterwards — so every dispatch of the history hands the root table's callbacks the caller's object
    (`dispatch_linear_iff` says which callbacks those are). -/
theorem history_obj_restored_noloc (mk : List Bytes → Option Matcher) {P : PPorts} :
    ∀ (ms : List HMsg), (∀ m ∈ ms, InScope P m.addr m.tags m.rest) →
    ∀ (d : RtData), d.loc = none →
    ∃ logs d', runHistory mk P.render d ms = some (logs, d') ∧ logs.length = ms.length ∧
      d'.obj = d.obj ∧ d'.loc = none := by
  intro ms
  induction ms with
  | nil => intro _ d hd; exact ⟨[], d, rfl, rfl, rfl, hd⟩
  | cons m r ih =>
    intro hs d hd
    have hm := hs m (List.mem_cons_self)
    obtain ⟨log, d1, h1, ho, hl⟩ := obj_restored_noloc mk hm m.k m.base d hd
    obtain ⟨logs, d2, h2, hlen, ho2, hl2⟩ := ih (fun x hx => hs x (List.mem_cons_of_mem _ hx)) d1 hl
    refine ⟨log :: logs, d2, ?_, by simp [hlen], by rw [ho2, ho], hl2⟩
    simp only [runHistory, h1, h2]

/-- **loc_in_bounds**: `dispatch` never compares with `loc_size`; no write leaves a buffer
    that holds the content of `loc` on entry, the address and a terminator. -/
theorem loc_in_bounds {mk : List Bytes → Option Matcher} (hmk : MkOK mk) {P : PPorts} {addr tags rest : Bytes}
    (h : InScope P addr tags rest) (k : Nat) (base : Bool) (d : RtData) (L0 : Bytes)
    (hd : d.loc = some L0) (hsz : d.locSize ≠ 0) (hhigh : d.locHigh ≤ d.locSize)
    (hroom : (rootLoc base L0).length + (rootAddr base addr).length + 1 ≤ d.locSize) :
    ∃ log d', dispatch mk P.render (msgBuf addr tags k rest) d base = some (log, d') ∧
      d'.locHigh ≤ d.locSize := by
  obtain ⟨log, d', hdisp, hlog, hd'⟩ := some_pair (dispatch_loc_sem hmk h k base d L0 hd hsz)
  refine ⟨log, d', hdisp, ?_⟩
  subst hlog hd'
  rw [finLoc_high]
  refine Nat.le_trans (semLoc_high P.tab h.wf _ _ _ _ _ _ _ _ _) ?_
  have h1 : 1 ≤ d.locSize := Nat.pos_of_ne_zero hsz
  have : (rootDataLoc base d).locHigh ≤ d.locSize := by
    cases base with
    | true =>
      simp only [rootDataLoc, ↓reduceIte, RtData.locStr, Option.getD_some, List.isEmpty_nil]
      omega
    | false =>
      simp only [rootDataLoc, Bool.false_eq_true, ↓reduceIte]
      split
      · simp only; omega
      · exact hhigh
  omega

/-! ## Tables built by `ClonePorts` / `MergePorts`; enumerated recursion callbacks

The theorems above hold for every table, hence for the ones these constructors build; what
the constructors themselves do is modelled in Ports/Build.lean and compared with the code on
every run (`T…c[…]{…}` / `T…m[…]{…}` tables).  Which callback object a port of the new table
carries is checked on the implementation only (source tables have callbacks of their own). -/

/-- **clone_names**: `ClonePorts(src, list)` has exactly the listed names, in list order. -/
theorem clone_names (src : List Entry) (list : List Bytes) (res : List Entry)
    (h : clonePorts src list = some res) : res.map Entry.name = list :=
  clonePorts_names src list res h

/-- **merge_no_repeats**: `MergePorts` keeps only ports of the merged tables and never two
    with the same name. -/
theorem merge_no_repeats (parts : List (List Entry)) :
    ((mergePorts parts).map Entry.name).Nodup ∧ ∀ e ∈ mergePorts parts, ∃ p ∈ parts, e ∈ p :=
  ⟨mergePorts_nodup parts, mergePorts_sub parts⟩

/-- **recurs_index**: the element `rRecursCb` / `rRecurspCb` hand down (`&obj->name[idx]`,
    `rBOILS_BEGIN`) for a port `lit#N…` and a message spelling `lit`, a run of digits and then
    a non-digit is the value of that run — the index the address spells for the `#N`.
    (One name, one level; the hand-down of that element through a whole `Ports::dispatch` is
    `sugar_obj_handed_down` below.) -/
theorem recurs_index (lit rest ds tail : Bytes) (c : UInt8)
    (hlit : ∀ x ∈ lit, x ≠ 35) (hds : ∀ x ∈ ds, isDigit x = true) (hc : isDigit c = false) :
    Sugar.recursIdx (lit ++ 35 :: rest) (lit ++ (ds ++ c :: tail)) = some (decVal ds) :=
  Sugar.recursIdx_spelled lit rest ds tail c hlit hds hc

example : Sugar.recursIdx [109, 105, 100, 115, 35, 52, 47] ([109, 105, 100, 115, 48, 51, 47, 120, 0]) = some 3 := by decide
example : (mergePorts [[.leaf [97], .leaf [98]], [.leaf [98], .leaf [99]]]).map Entry.name = [[97], [98], [99]] := by decide
example : (clonePorts [.leaf [97], .leaf [98], .leaf [99]] [[99], [97]]).map (·.map Entry.name) = some [[99], [97]] := by decide

/-- **merge_exact**: the table `MergePorts` builds is exactly this: the ports of all the merged tables, in
    order, a port being kept iff no port with its name came before (`keepNew`, Proofs/PortsBuild.lean: a
    three-line recursion with the names met so far).  A `mergePorts` that drops, reorders or prefers a later
    port does not satisfy it; the three readings below (completeness, first occurrence kept, order) and
    `merge_no_repeats` follow from it. -/
theorem merge_exact (parts : List (List Entry)) : mergePorts parts = keepNew [] parts.flatten :=
  mergePorts_eq_keepNew parts

/-- **merge_first_occurrence**: for every name, the port `MergePorts` holds under that name is the FIRST
    port with that name among the merged tables taken in order (with its sub-table: an `Entry` carries it);
    it holds none iff none of them has the name. -/
theorem merge_first_occurrence (parts : List (List Entry)) (n : Bytes) :
    (mergePorts parts).find? (fun e => e.name = n) = parts.flatten.find? (fun e => e.name = n) := by
  rw [mergePorts_eq_keepNew, keepNew_find]; simp

/-- **merge_complete**: every name of every merged table is a name of the result. -/
theorem merge_complete (parts : List (List Entry)) :
    ∀ p ∈ parts, ∀ e ∈ p, ∃ e' ∈ mergePorts parts, e'.name = e.name := by
  intro p hp e he
  have hmem : e ∈ parts.flatten := List.mem_flatten.mpr ⟨p, hp, he⟩
  have hsome : (parts.flatten.find? (fun x => x.name = e.name)).isSome = true :=
    List.find?_isSome.mpr ⟨e, hmem, by simp⟩
  rw [← merge_first_occurrence] at hsome
  obtain ⟨e', he'⟩ := Option.isSome_iff_exists.mp hsome
  exact ⟨e', List.mem_of_find?_eq_some he', by simpa using List.find?_some he'⟩

/-- **merge_order**: the ports of the result stand in the order of the merged tables. -/
theorem merge_order (parts : List (List Entry)) : (mergePorts parts).Sublist parts.flatten := by
  rw [mergePorts_eq_keepNew]; exact keepNew_sublist [] _

/-- **clone_last_source_port**: the i-th port of `ClonePorts(src, list)` is the LAST port of the source that
    has the i-th listed name — the whole port (`Entry`: name and sub-table), not only its name; the result
    has as many ports as the list has names (`clone_names`). -/
theorem clone_last_source_port (src : List Entry) (list : List Bytes) (res : List Entry)
    (h : clonePorts src list = some res) (i : Nat) :
    res[i]? = (list[i]?).bind (fun n => src.reverse.find? (fun p => p.name = n)) :=
  clonePorts_get src list res h i

example : mergePorts [[.leaf [97], .node [98] .nil false], [.leaf [98], .leaf [99], .leaf [97]]]
    = [.leaf [97], .node [98] .nil false, .leaf [99]] := by decide
example : clonePorts [.leaf [97], .node [97] .nil true, .leaf [99]] [[99], [97]] = some [.leaf [99], .node [97] .nil true] := by decide

/-! ## The object handed down through the library's recursion macros

`obj_handed_down` names the object a callback is handed by the path of its table: the sub-tree callback of
the model is `rRecurCb` (`data.obj = &obj->name`).  The library has three more: `rRecurpCb` (`obj->name`, a
pointer member), and for ports `name#N/` `rRecursCb` / `rRecurspCb`, which hand down the array element
`&obj->name[idx]` / `obj->name[idx]` with `idx` computed from the message by `rBOILS_BEGIN`.  In the model an
object is then the path of its table together with the element each enumerated port on the path selects
(`Sugar.objIdx`: `rBOILS_BEGIN` on the name and the message pointer of that level, `SNIP`, next level — what
the driver prints on the `R` lines, where it is compared with the library's own macros).  Pointer members are
taken to be non-NULL (`rRecurpCb` returns without dispatching on NULL: not modelled). -/

/-- **sugar_obj_handed_down** ("with the runtime object handed down by the parent levels", for trees whose
    sub-tree ports are the ones `rRecur` / `rRecurp` / `rRecurs` / `rRecursp` generate — `name/` or `name#N/`,
    no type specification: `sugarNodes`): with or without location buffer, every callback is handed the
    object of its own table (`c.obj` is the path of its port without the last index; a default handler: the path of
    its table), and of that object the elements which `rRecursCb` / `rRecurspCb` select level by level
    (`Sugar.objIdx` on the message as the root table sees it) are exactly the elements the address names —
    per sub-tree port on the way the value of the run of digits the address has where the name has its
    `#N` (`PPorts.elems`, which knows nothing of `rBOILS_BEGIN` / `atoi` / `SNIP`) —, and each of them exists:
    the index is below N (`ElemsInRange`: no access outside `obj->name[N]`). -/
theorem sugar_obj_handed_down {mk : List Bytes → Option Matcher} (hmk : MkOK mk) {P : PPorts} {addr tags rest : Bytes}
    (h : InScope P addr tags rest) (hs : P.tab.sugarNodes = true) (k : Nat) (base : Bool) (d : RtData)
    (hd : d.Usable) (hobj : d.obj = []) :
    ∃ log d', dispatch mk P.render (msgBuf addr tags k rest) d base = some (log, d') ∧
      ∀ c ∈ log, ((∀ q, c.who = .port q → c.obj = q.dropLast) ∧ (∀ q, c.who = .dflt q → c.obj = q)) ∧
        SugarObj P (rootAddr base addr) (msgTail k tags rest) c := by
  -- without location buffer: on `semNo`
  have hno : ∀ dn : RtData, dn.loc = none → dn.obj = [] →
      ∃ log d', dispatch mk P.render (msgBuf addr tags k rest) dn base = some (log, d') ∧
        ∀ c ∈ log, SugarObj P (rootAddr base addr) (msgTail k tags rest) c := by
    intro dn hdn hobjn
    obtain ⟨log, d', hdisp, hlog, hd'⟩ := some_pair (dispatch_noLoc mk h.wf k h.msgOK base dn hdn)
    refine ⟨log, d', hdisp, ?_⟩
    subst hlog hd'
    rw [hobjn]
    intro c hc
    have hnul : NulFree (rootAddr base addr) := (h.msgOK.root base).a_nul
    have hro : (rootDataNo base dn).obj = [] := by rw [rootDataNo_obj, hobjn]
    have key : ∃ s, c.obj = [] ++ s ∧ ElemsAgree P.tab 0 (rootAddr base addr) (msgTail k tags rest) s := by
      simp only [finNo] at hc
      split at hc
      · rcases List.mem_append.mp hc with hc | hc
        · exact semNo_elems P.tab h.wf hs [] 0 _ _ _ _ _ hnul hro c hc
        · simp only [List.mem_singleton] at hc
          subst hc
          refine ⟨[], ?_, elemsAgree_nil _ _ _ _⟩
          simp only [dfltCallOf, List.append_nil]
          exact semNo_obj _ _ _ _ _ _ _ _ _ hro
      · exact semNo_elems P.tab h.wf hs [] 0 _ _ _ _ _ hnul hro c hc
    obtain ⟨s, h1, es, h2, h3, h4⟩ := key
    rw [List.nil_append] at h1
    refine ⟨es, by rw [h1]; exact h2, ?_, h4⟩
    rw [h1, ← objIdxFrom_eq]
    exact h3
  rcases hd with hd | ⟨L0, hd, hsz⟩
  · obtain ⟨log, d', h1, h2⟩ := hno d hd hobj
    obtain ⟨log', d'', h3, h4⟩ := obj_handed_down hmk h k base d hd hobj
    rw [h1] at h3
    cases h3
    exact ⟨log, d', h1, fun c hc => ⟨⟨fun q hq => ((h4 c hc).1 q hq).2, (h4 c hc).2⟩, h2 c hc⟩⟩
  · have hr : TwoRuns d { d with loc := none } L0 := ⟨hd, hsz, rfl, rfl, rfl⟩
    obtain ⟨logL, dL', logN, dN', h1, h2, hv⟩ := loc_independent hmk h k base hr
    obtain ⟨logN', dN'', h3, h4⟩ := hno { d with loc := none } rfl hobj
    rw [h2] at h3
    cases h3
    obtain ⟨logL', dL'', h5, h6⟩ := port_pointer_own hmk h k base d L0 hd hsz hobj
    rw [h1] at h5
    cases h5
    refine ⟨logL, dL', h1, fun c hc => ⟨⟨fun q hq => ((h6 c hc).1 q hq).2, (h6 c hc).2⟩, ?_⟩⟩
    have hcv : c.view ∈ views logN := by rw [← hv]; exact List.mem_map.mpr ⟨c, hc, rfl⟩
    obtain ⟨c', hc', hcc⟩ := List.mem_map.mp hcv
    have e3 : c'.obj = c.obj := congrArg View.obj hcc
    have := h4 c' hc'
    unfold SugarObj at this ⊢
    rw [e3] at this
    exact this

/-- **callback_own_match**: the tie between the log and the recursion callbacks — with or without location
    buffer, every callback in the log is the callback of a port of the tree (`PPorts.portAt`) whose own name
    admits the message *at the message pointer the callback is handed*: `msg` points at an address `a'` with
    `Admits p a' tags` (in particular `PathSpec p a'`).  `rBOILS_BEGIN` inside `rRecursCb` / `rRecurspCb` works on
    exactly these two inputs (`msg` and `data.port->name`, `port_pointer_own`): `recurs_cb_index` applies to
    every invocation. -/
theorem callback_own_match {mk : List Bytes → Option Matcher} (hmk : MkOK mk) {P : PPorts} {addr tags rest : Bytes}
    (h : InScope P addr tags rest) (k : Nat) (base : Bool) (d : RtData) (hd : d.Usable) :
    ∃ log d', dispatch mk P.render (msgBuf addr tags k rest) d base = some (log, d') ∧
      ∀ c ∈ log, ∀ q, c.who = .port q →
        ∃ p a', P.portAt q = some p ∧ c.m = a' ++ 0 :: msgTail k tags rest ∧ Admits p a' tags := by
  have hno : ∀ dn : RtData, dn.loc = none →
      ∃ log d', dispatch mk P.render (msgBuf addr tags k rest) dn base = some (log, d') ∧
        ∀ c ∈ log, ∀ q, c.who = .port q →
          ∃ p a', P.portAt q = some p ∧ c.m = a' ++ 0 :: msgTail k tags rest ∧ Admits p a' tags := by
    intro dn hdn
    obtain ⟨log, d', hdisp, hlog, hd'⟩ := some_pair (dispatch_noLoc mk h.wf k h.msgOK base dn hdn)
    refine ⟨log, d', hdisp, ?_⟩
    subst hlog hd'
    intro c hc q hq
    have hmem : c ∈ (semNo P.tab [] 0 dn.obj (rootAddr base addr) tags (msgTail k tags rest)
        (rootDataNo base dn) false).1 := by
      simp only [finNo] at hc
      split at hc
      · rcases List.mem_append.mp hc with hc | hc
        · exact hc
        · simp only [List.mem_singleton] at hc
          subst hc
          simp [dfltCallOf] at hq
      · exact hc
    obtain ⟨j, s, p, a', h1, _, h3, h4, h5⟩ := semNo_entry P.tab h.wf _ _ _ _ _ _ _ _ c hmem q hq
    exact ⟨p, a', by rw [h1]; exact h3, h4, h5⟩
  rcases hd with hd | ⟨L0, hd, hsz⟩
  · exact hno d hd
  · have hr : TwoRuns d { d with loc := none } L0 := ⟨hd, hsz, rfl, rfl, rfl⟩
    obtain ⟨logL, dL', logN, dN', h1, h2, hv⟩ := loc_independent hmk h k base hr
    obtain ⟨logN', dN'', h3, h4⟩ := hno { d with loc := none } rfl
    rw [h2] at h3
    cases h3
    refine ⟨logL, dL', h1, fun c hc q hq => ?_⟩
    have hcv : c.view ∈ views logN := by rw [← hv]; exact List.mem_map.mpr ⟨c, hc, rfl⟩
    obtain ⟨c', hc', hcc⟩ := List.mem_map.mp hcv
    have e1 : c'.who = c.who := congrArg View.who hcc
    have e2 : c'.m = c.m := congrArg View.m hcc
    have := h4 c' hc' q (by rw [e1]; exact hq)
    rw [e2] at this
    exact this

/-- **recurs_cb_index**: one invocation of a recursion callback — on every message pointer at an address that
    spells a name `…#N…/` (`PathSpec`; name of the documented form, no type specification) `rBOILS_BEGIN`
    computes the element the address names for the name's first `#N`, and that element exists (index < N: no
    access outside `obj->name[N]`); for a name without '#' (`rRecurCb` / `rRecurpCb`) no element is computed. -/
theorem recurs_cb_index {p : Pat} (hnw : nameWf p = true) (hty : p.types = none) {a : Bytes}
    (hps : PathSpec p a) (ex : Bytes) :
    (if hasChar 35 p.render then (Sugar.recursIdx p.render (a ++ 0 :: ex)).map some else some none) =
      some ((spelledElem p.segs a).map (·.1)) ∧
    ∀ v n, spelledElem p.segs a = some (v, n) → v < n :=
  recursIdx_of_pathSpec hnw hty hps ex

/-- the message pointer the root table sees, as the driver computes it for `Sugar.objIdx` on the `R` lines, is
    the one `sugar_obj_handed_down` speaks about -/
theorem sugar_root_msg {addr tags rest : Bytes} (k : Nat) (base : Bool) :
    (if base && (msgBuf addr tags k rest).head? == some 47 then (msgBuf addr tags k rest).drop 1
     else msgBuf addr tags k rest) = rootAddr base addr ++ 0 :: msgTail k tags rest := by
  cases base with
  | false => simp [rootAddr, msgBuf]
  | true =>
    cases addr with
    | nil => simp [rootAddr, stripSlash, msgBuf]
    | cons c r =>
      by_cases hc : c = 47
      · subst hc; simp [rootAddr, stripSlash, msgBuf]
      · simp only [msgBuf, List.cons_append, List.head?_cons, Bool.true_and, rootAddr, ↓reduceIte]
        have : (some c == some (47 : UInt8)) = false := by simp [hc]
        rw [this]
        simp only [Bool.false_eq_true, ↓reduceIte]
        unfold stripSlash
        split
        · next heq => simp only [List.cons.injEq] at heq; exact absurd heq.1 hc
        · rfl

/-! ## The statement in MUST / MAY / MUSTNOT form

`dispatch_linear_iff` / `dispatch_loc_iff` characterise the callback log by `AnswersRoot`, whose type rule
`TypesAdmit` is what `rtosc_match_args` really does (C05 `types_exact`: a type string that extends the LAST
listed alternative is admitted) — exact, but inside the region the statement leaves open it is the code's own
behaviour.  The statement itself fixes two sides only (C05 `types_sandwich`): a type string that IS one of the
listed alternatives must match (`SpecMatch`), one that does not even extend a listed alternative must not
(outside `SpecMayMatch`).  `MustAnswer` / `MayAnswer` (Proofs/PortsExtSandwich.lean) lift the two sides to
the tree: `MustAnswer` — every level on the way certainly matches, and for a default handler certainly no
port of its table matches; `MayAnswer` — … possibly …; a callback outside `MayAnswer` MUST NOT be invoked.
This is the form the Python oracle of the correspondence evaluates on the implementation's output. -/

/-- **matcher_between** (one name): `rtosc_match` on a name of the documented form lies between the two sides —
    it accepts every message that MUST match and only messages that MAY match. -/
theorem matcher_between {p : Pat} (hp : nameWf p = true) {a tags : Bytes} (k : Nat) (rest : Bytes)
    (ha : NulFree a) (hb : IdxBounded a) (ht : NulFree tags) :
    (SpecMatch p a tags → ∃ e, full (p.render ++ [0]) (msgBuf a tags k rest) = some (true, e)) ∧
    (∀ e, full (p.render ++ [0]) (msgBuf a tags k rest) = some (true, e) → SpecMayMatch p a tags) := by
  obtain ⟨hp0, hpne, hpna, _⟩ := nameWf_unpack hp
  obtain ⟨e, he, _⟩ := full_render hp0 hpne hpna k rest ha hb ht
  have hiff := matchB_iff_admits hp a tags
  constructor
  · intro hs
    have : (matchB p a tags).isSome = true := hiff.mpr ((admits_sandwiched p a tags).1 hs)
    exact ⟨e, by rw [msgBuf, he, this]⟩
  · intro e' he'
    rw [msgBuf, he] at he'
    simp only [Option.some.injEq, Prod.mk.injEq] at he'
    exact (admits_sandwiched p a tags).2 (hiff.mp he'.1)

/-- with or without location buffer: the log is `AnswersRoot` (`dispatch_linear_iff` and `dispatch_loc_iff`
    in one statement) -/
theorem dispatch_iff {mk : List Bytes → Option Matcher} (hmk : MkOK mk) {P : PPorts} {addr tags rest : Bytes}
    (h : InScope P addr tags rest) (k : Nat) (base : Bool) (d : RtData) (hd : d.Usable) :
    ∃ log d', dispatch mk P.render (msgBuf addr tags k rest) d base = some (log, d') ∧
      ∀ w, w ∈ log.map (·.who) ↔ AnswersRoot P (rootAddr base addr) tags w := by
  rcases hd with hd | ⟨L0, hd, hsz⟩
  · exact dispatch_linear_iff mk h k base d hd
  · exact dispatch_loc_iff hmk h k base d L0 hd hsz

/-- **dispatch_must_mustnot** ("a message invokes a port's callback if and only if its address matches that
    port's path at every level of the tree and its type tags are admitted", with "admitted" read as the
    two-sided statement of C05 and nothing else): with or without location buffer, whichever lookup strategy —
    every callback the message MUST invoke is in the log, and the log holds nothing the message MUST NOT
    invoke. -/
theorem dispatch_must_mustnot {mk : List Bytes → Option Matcher} (hmk : MkOK mk) {P : PPorts} {addr tags rest : Bytes}
    (h : InScope P addr tags rest) (k : Nat) (base : Bool) (d : RtData) (hd : d.Usable) :
    ∃ log d', dispatch mk P.render (msgBuf addr tags k rest) d base = some (log, d') ∧
      (∀ w, MustAnswer P (rootAddr base addr) tags w → w ∈ log.map (·.who)) ∧
      (∀ w, w ∈ log.map (·.who) → MayAnswer P (rootAddr base addr) tags w) := by
  obtain ⟨log, d', h1, h2⟩ := dispatch_iff hmk h k base d hd
  refine ⟨log, d', h1, ?_, ?_⟩
  · intro w hw
    exact (h2 w).mpr ((answersRoot_eq _ _ _ _).mpr (sandwiched_must_le admits_sandwiched _ _ _ _ hw))
  · intro w hw
    exact sandwiched_le_may admits_sandwiched _ _ _ _ ((answersRoot_eq _ _ _ _).mp ((h2 w).mp hw))

/-- **dispatch_sandwich**: between the two sides the log is not arbitrary — there is ONE verdict function on
    (name, remaining address, type string) inside the sandwich of C05 (`Sandwiched`: positive on every MUST
    message, positive on MAY messages only) such that for every tree, every message, with or without location
    buffer, the log is exactly what the level-by-level rule yields with that verdict: a port is invoked iff
    the verdict on its name is positive and its parent port was invoked, a default handler iff its table was
    reached and no port of it got a positive verdict.  (The witness is `Admits`, i.e. the model's matcher; the
    statement does not mention it.) -/
theorem dispatch_sandwich :
    ∃ v : Verdict, Sandwiched v ∧
      ∀ {mk : List Bytes → Option Matcher}, MkOK mk → ∀ {P : PPorts} {addr tags rest : Bytes},
        InScope P addr tags rest → ∀ (k : Nat) (base : Bool) (d : RtData), d.Usable →
        ∃ log d', dispatch mk P.render (msgBuf addr tags k rest) d base = some (log, d') ∧
          ∀ w, w ∈ log.map (·.who) ↔ AnswersRootBy v v P (rootAddr base addr) tags w := by
  refine ⟨Admits, admits_sandwiched, ?_⟩
  intro mk hmk P addr tags rest h k base d hd
  obtain ⟨log, d', h1, h2⟩ := dispatch_iff hmk h k base d hd
  exact ⟨log, d', h1, fun w => (h2 w).trans (answersRoot_eq _ _ _ _)⟩

/-! ## The driver's cache -/

/-- the driver builds the lookup tables of a tree once per op line: the cached function is
    the same function -/
theorem cachedMk_eq (f : List Bytes → Option Matcher) (tables : List (List Bytes)) (names : List Bytes) :
    cachedMk f (buildCache f tables) names = f names := by
  unfold cachedMk buildCache
  cases h : (tables.map (fun n => (n, f n))).lookup names with
  | none => rfl
  | some r =>
    simp only
    induction tables with
    | nil => simp at h
    | cons t ts ih =>
      simp only [List.map_cons, List.lookup_cons] at h
      by_cases he : names = t
      · subst he; simp at h; exact h.symm
      · have : (names == t) = false := by simp [he]
        rw [this] at h
        exact ih h

/-! ## What the unrepaired code did (fixes/C04-01 … C04-06) -/

/-- table {a, cab} -/
def f3Names : List Bytes := [[97], [99, 97, 98]]
/-- message "aa" -/
def f3Msg : Bytes := mkMsg [97, 97] [] [0, 0, 0, 0]
/-- the tables `refreshMagic` builds for {a, cab}: pos = [0], assoc = 0, remap = [0,0,0,1] -/
def f3Matcher : Matcher :=
  { fixed := f3Names, argSpec := [none, none], pos := [0], assoc := List.replicate 127 0,
    remap := [0, 0, 0, 1], enump := [false, false] }

/-- **hard_match_prefix_counterexample** (C04-01): in the table {a, cab} the message "aa"
    hashes to a free slot of `remap`, which holds port 0; the unrepaired `hard_match` (a
    prefix test) accepts port "a" although `rtosc_match("a", "aa")` is false — the
    callback of "a" was invoked with a location buffer and not without.  The repaired
    `hard_match` rejects. -/
theorem hard_match_prefix_counterexample :
    matcherOfUnfixed realSearch f3Names = some f3Matcher ∧
    lookupUnfixed f3Matcher f3Msg = some (.slot 0 true) ∧
    (full ([97] ++ [0]) f3Msg).map (·.1) = some false ∧
    lookup f3Matcher f3Msg = some (.slot 0 false) := by
  refine ⟨?_, ?_, ?_, ?_⟩ <;> decide +kernel

/-- table {baa, abc, aac} -/
def f4Names : List Bytes := [[98, 97, 97], [97, 98, 99], [97, 97, 99]]
/-- message "baa" -/
def f4Msg : Bytes := mkMsg [98, 97, 97] [] [0, 0, 0, 0]
/-- what `find_pos` / `find_assoc` / `find_remap` return for it: pos = [0,1], assoc['b'] = 1,
    hash values 4, 4, 3 -/
def f4Matcher : Matcher :=
  { fixed := f4Names, argSpec := [none, none, none], pos := [0, 1], assoc := (List.replicate 127 0).set 98 1,
    remap := [0, 0, 0, 2, 1], enump := [false, false, false] }

/-- **hash_collision_counterexample** (C04-02): for {baa, abc, aac} the heuristic
    `find_assoc` ends with equal hash values for "baa" and "abc"; `find_remap` lets the
    later one win, so the message "baa" — which `rtosc_match`es port 0 — selected port 1 and
    was dropped with a location buffer.  The repaired `generate_minimal_hash` notices the
    duplicate and leaves `pos` empty (linear search). -/
theorem hash_collision_counterexample :
    matcherOfUnfixed realSearch f4Names = some f4Matcher ∧
    f4Names.map (hashStr f4Matcher.pos f4Matcher.assoc) = [4, 4, 3] ∧
    (full ([98, 97, 97] ++ [0]) f4Msg).map (·.1) = some true ∧
    lookupUnfixed f4Matcher f4Msg = some (.slot 1 false) ∧
    (matcherOf realSearch f4Names).map (·.pos) = some [] := by
  refine ⟨?_, ?_, ?_, ?_, ?_⟩ <;> decide +kernel

/-- table {c, a/b} -/
def f5Names : List Bytes := [[99], [97, 47, 98]]
/-- message "a/b" -/
def f5Msg : Bytes := mkMsg [97, 47, 98] [] [0, 0, 0, 0]
def f5Matcher : Matcher :=
  { fixed := f5Names, argSpec := [none, none], pos := [0], assoc := List.replicate 127 0,
    remap := [0, 0, 0, 1], enump := [false, false] }

/-- **inner_slash_counterexample** (C04-03): the key "a/b" is hashed as a whole (length 3),
    the message "a/b" by its first component "a/" (length 2): it selected port 0 ("c") and
    was dropped with a location buffer although `rtosc_match("a/b", "a/b")` holds.  The
    repaired `generate_minimal_hash` does not hash such a table. -/
theorem inner_slash_counterexample :
    matcherOfUnfixed realSearch f5Names = some f5Matcher ∧
    (full ([97, 47, 98] ++ [0]) f5Msg).map (·.1) = some true ∧
    lookupUnfixed f5Matcher f5Msg = some (.slot 0 false) ∧
    (matcherOf realSearch f5Names).map (·.pos) = some [] := by
  refine ⟨?_, ?_, ?_, ?_⟩ <;> decide +kernel

/-- table {a} with a default handler -/
def k8Table : Table := .leaf [97] .nil
def k8Msg : Bytes := mkMsg [47, 98] [] [0, 0, 0, 0]
def k8Data : RtData := { loc := some [], locSize := 16, locHigh := 0, obj := [], nmatches := 0, port := none }

/-- **default_handler_counterexample** (C04-05): the unrepaired linear branches never call
    `default_handler` — they behave like those of a table without one (`dflt := false`).
    For the hashed table {a} with a default handler the message "/b" therefore reached the
    default handler with a location buffer and nothing without; repaired, both do. -/
theorem default_handler_counterexample :
    (dispatchReal ⟨k8Table, true⟩ k8Msg k8Data true).map (fun r => r.1.map (·.who)) = some [.dflt []] ∧
    (dispatchReal ⟨k8Table, false⟩ k8Msg { k8Data with loc := none } true).map (fun r => r.1.map (·.who)) = some [] ∧
    (dispatchReal ⟨k8Table, true⟩ k8Msg { k8Data with loc := none } true).map (fun r => r.1.map (·.who)) = some [.dflt []] := by
  refine ⟨?_, ?_, ?_⟩ <;> decide +kernel

/-- table {"\xc3\xa9x", "\xc3\xa9y"} ("éx", "éy") -/
def f20Names : List Bytes := [[0xc3, 0xa9, 120], [0xc3, 0xa9, 121]]
def f20Msg : Bytes := mkMsg [0xc3, 0xa9, 121] [] [0, 0, 0, 0]

/-- **high_byte_name_counterexample** (C04-06): `find_pos` finds a position for {éx, éy}, so the
    unrepaired `refreshMagic` went on to `find_assoc`, which executes `assoc[i] = j` for every
    character `i` of the names — 0xc3 is the `char` -61: a write in front of the 127-entry
    vector (`none`: the model does not define it).  The repaired `generate_minimal_hash` does not
    hash a table with such a name; the linear search finds the port. -/
theorem high_byte_name_counterexample :
    matcherOfUnfixed realSearch f20Names = none ∧
    (matcherOf realSearch f20Names).map (·.pos) = some [] ∧
    (full ([0xc3, 0xa9, 121] ++ [0]) f20Msg).map (·.1) = some true := by
  refine ⟨?_, ?_, ?_⟩ <;> decide +kernel

/-- table {":i", "b"}: a port whose whole name is a type specification -/
def b1Table : Table := .leaf [58, 105] (.leaf [98] .nil)
def b1Msg : Bytes := mkMsg [47] [105] [0, 0, 0, 0]

/-- **empty_name_counterexample** (second review, B1): the hypothesis "names are not empty in front of their
    type specification" (`nameWf`: `p.segs ≠ []`) cannot be dropped from `loc_independent`.
    `generate_minimal_hash` separates key and type specification with `idx = tmp.find(':'); if(idx > 0)`: for
    the name ":i" the whole name stays the key, the table {":i", "b"} is hashed, and the message "/" ",i" — which
    `rtosc_match` and hence the linear search accept for ":i" — finds no port with a location buffer.  (Such a
    port is reached with an empty address, which `rtosc_argument_string` rules out by `assert(msg && *msg)`:
    not a meaningful name; documented as an assumption, not generated.) -/
theorem empty_name_counterexample :
    (dispatchReal ⟨b1Table, false⟩ b1Msg k8Data true).map (fun r => r.1.map (·.who)) = some [] ∧
    (dispatchReal ⟨b1Table, false⟩ b1Msg { k8Data with loc := none } true).map (fun r => r.1.map (·.who)) = some [.port [0]] ∧
    (matcherOf realSearch b1Table.names).map (fun pm => (pm.fixed, pm.pos.isEmpty)) = some ([[58, 105], [98]], false) := by
  refine ⟨?_, ?_, ?_⟩ <;> decide +kernel

/-! ## Non-vacuity -/

/-- `a`, `b#3/` → { `c:i`, `d/e`, default handler }, `ab::f`, default handler -/
def exTree : PPorts :=
  { dflt := true,
    tab :=
      .leaf { segs := [.lit [97]], sub := false, types := none } <|
      .node { segs := [.lit [98], .enum [51]], sub := true, types := none }
        (.leaf { segs := [.lit [99]], sub := false, types := some [[105]] } <|
         .leaf { segs := [.lit [100, 47, 101]], sub := false, types := none } .nil) true <|
      .leaf { segs := [.lit [97, 98]], sub := false, types := some [[], [102]] } .nil }

example : exTree.tab.WF := by decide
example : exTree.render.tab.names = [[97], [98, 35, 51, 47], [97, 98, 58, 58, 102]] := by decide

/-- "/b2/c" with type string "i" -/
def exAddr : Bytes := [47, 98, 50, 47, 99]

theorem exScope : InScope exTree exAddr [105] [0, 0, 0, 0] :=
  { wf := by decide
    addr_nul := by unfold NulFree exAddr; decide
    addr_idx := idxBounded_of_check (by decide)
    tags_nul := by unfold NulFree; decide }

/-- the specification names exactly the sub-tree port `b#3/` and its port `c:i` -/
example : AnswersRoot exTree (rootAddr true exAddr) [105] (.port [1, 0]) := by
  unfold AnswersRoot
  left
  simp only [exTree, Answers]
  right; left
  refine ⟨?_, Or.inr (Or.inl (Or.inl ⟨?_, rfl⟩))⟩
  · exact (matchB_iff_admits (by decide) _ _).mp (by decide)
  · exact (matchB_iff_admits (by decide) _ _).mp (by decide)

def exData : RtData := { loc := some [], locSize := 32, locHigh := 0, obj := [], nmatches := 0, port := none }

/-- the real tables: two callbacks, `loc` "/b2/" and "/b2/c", objects and port pointers of
    their own levels, one match, `loc` restored -/
example :
    (dispatchReal exTree.render (mkMsg exAddr [105] [0, 0, 0, 0]) exData true).map (fun r => r.1.map (·.who)) =
      some [.port [1], .port [1, 0]] ∧
    (dispatchReal exTree.render (mkMsg exAddr [105] [0, 0, 0, 0]) exData true).map (fun r => r.1.map (·.loc)) =
      some [some [47, 98, 50, 47], some [47, 98, 50, 47, 99]] ∧
    (dispatchReal exTree.render (mkMsg exAddr [105] [0, 0, 0, 0]) exData true).map (fun r => r.1.map (·.obj)) =
      some [[], [1]] ∧
    (dispatchReal exTree.render (mkMsg exAddr [105] [0, 0, 0, 0]) exData true).map (fun r => r.1.map (·.dport)) =
      some [some [1], some [1, 0]] ∧
    (dispatchReal exTree.render (mkMsg exAddr [105] [0, 0, 0, 0]) exData true).map (fun r => (r.2.loc, r.2.nmatches)) =
      some (some [47], 1) := by
  refine ⟨?_, ?_, ?_, ?_, ?_⟩ <;> decide +kernel

/-- an address nobody answers reaches the default handler of the root table — with and
    without location buffer -/
example :
    (dispatchReal exTree.render (mkMsg [47, 120] [] [0, 0, 0, 0]) exData true).map (fun r => r.1.map (·.who)) =
      some [.dflt []] ∧
    (dispatchReal exTree.render (mkMsg [47, 120] [] [0, 0, 0, 0]) { exData with loc := none } true).map
      (fun r => r.1.map (·.who)) = some [.dflt []] := by
  constructor <;> decide +kernel

/-- a hashed root table {`a/` → {`x`}, `b`}: a history of two messages on one `RtData` — "/a/x" recurses
    through the hashed table, "/b" then is handed the root object again (what the hashed branch's
    `d.obj = obj` is for) -/
def hTree : PPorts :=
  { dflt := false,
    tab :=
      .node { segs := [.lit [97]], sub := true, types := none }
        (.leaf { segs := [.lit [120]], sub := false, types := none } .nil) false <|
      .leaf { segs := [.lit [98]], sub := false, types := none } .nil }

def hMsgs : List HMsg :=
  [{ addr := [47, 97, 47, 120], tags := [], k := 3, rest := [0, 0, 0], base := true },
   { addr := [47, 98], tags := [], k := 1, rest := [0, 0, 0], base := true }]

example : hTree.tab.WF := by decide
example : (matcherOf realSearch hTree.render.tab.names).map (fun pm => pm.pos.isEmpty) = some false := by decide +kernel
example : ∀ m ∈ hMsgs, InScope hTree m.addr m.tags m.rest := by
  intro m hm
  simp only [hMsgs, List.mem_cons, List.not_mem_nil, or_false] at hm
  rcases hm with rfl | rfl
  · exact { wf := by decide, addr_nul := by unfold NulFree; decide, addr_idx := idxBounded_of_check (by decide),
            tags_nul := by unfold NulFree; decide }
  · exact { wf := by decide, addr_nul := by unfold NulFree; decide, addr_idx := idxBounded_of_check (by decide),
            tags_nul := by unfold NulFree; decide }
example :
    (runHistory (matcherOf realSearch) hTree.render exData hMsgs).map
      (fun r => (r.1.map (fun log => log.map (fun c => (c.who, c.obj))), r.2.obj)) =
      some ([[(.port [0], []), (.port [0, 0], [0])], [(.port [1], [])]], []) := by
  decide +kernel

/-- `HashOK` is not vacuous: the sub-table {c:i, d/e}… is not hashed (inner '/'), the table
    {a, cab} is, and satisfies it -/
example : ∃ pm, matcherOf realSearch f3Names = some pm ∧ pm.pos ≠ [] ∧ HashOK f3Names pm := by
  have h : matcherOf realSearch f3Names = some f3Matcher := by decide +kernel
  exact ⟨f3Matcher, h, by decide, generate_establishes_HashOK realSearch f3Names f3Matcher h (by decide)⟩

/-! ### MUST / MAY / MUSTNOT -/

/-- `x:i:f` with a default handler -/
def swTree : PPorts :=
  { dflt := true, tab := .leaf { segs := [.lit [120]], sub := false, types := some [[105], [102]] } .nil }

theorem swPath : PathSpec { segs := [.lit [120]], sub := false, types := some [[105], [102]] } [120] :=
  ⟨[], SpellsAll.lit [120] (SpellsAll.nil []), rfl⟩

example : InScope swTree [47, 120] [105, 102] [0, 0, 0, 0] :=
  { wf := by decide, addr_nul := by unfold NulFree; decide, addr_idx := idxBounded_of_check (by decide),
    tags_nul := by unfold NulFree; decide }

/-- type string "i" is listed: the port MUST be invoked -/
example : MustAnswer swTree [120] [105] (.port [0]) := by
  refine Or.inl (Or.inl ⟨⟨swPath, ?_⟩, rfl⟩)
  intro ts hts; cases hts; decide

/-- the two sides really differ: the type string "if" extends the first alternative — the port MAY be invoked, so
    may the default handler, neither MUST; the code does not invoke the port; "fi" extends the last one: it does -/
example :
    MayAnswer swTree [120] [105, 102] (.port [0]) ∧ ¬ MustAnswer swTree [120] [105, 102] (.port [0]) ∧
    MayAnswer swTree [120] [105, 102] (.dflt []) ∧ ¬ MustAnswer swTree [120] [105, 102] (.dflt []) ∧
    (dispatchReal swTree.render (mkMsg [47, 120] [105, 102] [0, 0, 0, 0, 0, 0, 0, 0]) exData true).map
      (fun r => r.1.map (·.who)) = some [.dflt []] ∧
    (dispatchReal swTree.render (mkMsg [47, 120] [102, 105] [0, 0, 0, 0, 0, 0, 0, 0]) exData true).map
      (fun r => r.1.map (·.who)) = some [.port [0]] := by
  have hloose : TypesLoose { segs := [.lit [120]], sub := false, types := some [[105], [102]] } [105, 102] := by
    intro ts hts; cases hts; exact ⟨[105], by decide, ⟨[102], rfl⟩⟩
  have hnex : ¬ TypesExact { segs := [.lit [120]], sub := false, types := some [[105], [102]] } [105, 102] := by
    intro h; exact absurd (h _ rfl) (by decide)
  refine ⟨Or.inl (Or.inl ⟨⟨swPath, hloose⟩, rfl⟩), ?_, ?_, ?_, by decide +kernel, by decide +kernel⟩
  · rintro (h | ⟨_, _, h⟩)
    · rcases h with ⟨h, _⟩ | h
      · exact hnex h.2
      · exact h
    · cases h
  · refine Or.inr ⟨rfl, ?_, rfl⟩
    rintro (h | h)
    · exact hnex h.2
    · exact h
  · rintro (h | ⟨_, h, _⟩)
    · rcases h with ⟨_, h⟩ | h
      · cases h
      · exact h
    · exact h (Or.inl ⟨swPath, hloose⟩)

/-! ### what a callback sees in `loc` -/

example : exTree.portAt [1, 0] = some { segs := [.lit [99]], sub := false, types := some [[105]] } := by decide

/-- the name `b#3/` accounts for "b2/" of the remaining address "b2/c" -/
example : Accounts { segs := [.lit [98], .enum [51]], sub := true, types := none } [98, 50, 47] [99] :=
  ⟨[47, 99],
   SpellsAll.lit [98] (SpellsAll.enum [51] [50] (by decide) (by decide)
     (by intro c t h; cases h; decide) (by decide) (SpellsAll.nil [47, 99])),
   rfl⟩

/-- `loc_full_address_exact` on the example tree and "/b2/c" -/
example : ∃ log d', dispatchReal exTree.render (msgBuf exAddr [105] 2 [0, 0, 0, 0]) exData true = some (log, d') ∧
    ∀ c ∈ log, LocExact exTree ([47] ++ [98, 50, 47, 99]) (msgTail 2 [105] [0, 0, 0, 0]) c ∧
      ∀ q p, c.who = .port q → exTree.portAt q = some p → p.sub = false → c.loc = some ([47] ++ [98, 50, 47, 99]) :=
  loc_full_address_exact real_MkOK exScope 2 true exData [] rfl (by decide)

/-! ### the recursion macros -/

/-- `mids#4/` → { `arr#3/` → { `x` }, `one/` → { `x` } }: the names that `rRecurs(mids, 4)`, `rRecurs(arr, 3)`,
    `rRecur(one)` generate -/
def sgTree : PPorts :=
  { dflt := false,
    tab :=
      .node { segs := [.lit [109, 105, 100, 115], .enum [52]], sub := true, types := none }
        (.node { segs := [.lit [97, 114, 114], .enum [51]], sub := true, types := none }
           (.leaf { segs := [.lit [120]], sub := false, types := none } .nil) false <|
         .node { segs := [.lit [111, 110, 101]], sub := true, types := none }
           (.leaf { segs := [.lit [120]], sub := false, types := none } .nil) false .nil) false .nil }

/-- "/mids2/arr01/x" -/
def sgAddr : Bytes := [47, 109, 105, 100, 115, 50, 47, 97, 114, 114, 48, 49, 47, 120]
/-- "/mids3/one/x" -/
def sgAddr2 : Bytes := [47, 109, 105, 100, 115, 51, 47, 111, 110, 101, 47, 120]

example : sgTree.tab.sugarNodes = true := by decide
example : InScope sgTree sgAddr [] [0, 0, 0, 0] :=
  { wf := by decide
    addr_nul := by unfold NulFree sgAddr; decide
    addr_idx := idxBounded_of_check (by decide +kernel)
    tags_nul := by unfold NulFree; decide }

/-- the leaf callback `x` is handed the object of its table — path [0,0]: element 2 of `mids`, of that element 1 of
    `arr` ("01") — resp. path [0,1]: element 3 of `mids`, its member `one` -/
example :
    (dispatchReal sgTree.render (mkMsg sgAddr [] [0, 0, 0, 0]) exData true).map
      (fun r => r.1.map (fun c => (c.who, c.obj))) =
      some [(.port [0], []), (.port [0, 0], [0]), (.port [0, 0, 0], [0, 0])] ∧
    Sugar.objIdx sgTree.render.tab ((mkMsg sgAddr [] [0, 0, 0, 0]).drop 1) [0, 0] = some [(0, some 2), (0, some 1)] ∧
    sgTree.elems (rootAddr true sgAddr) [0, 0] = some [(0, some (2, 4)), (0, some (1, 3))] ∧
    (dispatchReal sgTree.render (mkMsg sgAddr2 [] [0, 0, 0, 0]) exData true).map
      (fun r => r.1.map (fun c => (c.who, c.obj))) =
      some [(.port [0], []), (.port [0, 1], [0]), (.port [0, 1, 0], [0, 1])] ∧
    Sugar.objIdx sgTree.render.tab ((mkMsg sgAddr2 [] [0, 0, 0, 0]).drop 1) [0, 1] = some [(0, some 3), (1, none)] ∧
    sgTree.elems (rootAddr true sgAddr2) [0, 1] = some [(0, some (3, 4)), (1, none)] := by
  refine ⟨?_, ?_, ?_, ?_, ?_, ?_⟩ <;> decide +kernel

/-- `recurs_cb_index` on `mids#4/` and the remaining address "mids2/arr01/x": element 2 of 4 -/
example :
    PathSpec { segs := [.lit [109, 105, 100, 115], .enum [52]], sub := true, types := none } (sgAddr.drop 1) ∧
    spelledElem [.lit [109, 105, 100, 115], .enum [52]] (sgAddr.drop 1) = some (2, 4) ∧
    Sugar.recursIdx [109, 105, 100, 115, 35, 52, 47] (sgAddr.drop 1 ++ [0]) = some 2 :=
  ⟨⟨[47, 97, 114, 114, 48, 49, 47, 120],
     SpellsAll.lit [109, 105, 100, 115] (SpellsAll.enum [52] [50] (by decide) (by decide)
       (by intro c t h; cases h; decide) (by decide) (SpellsAll.nil _)),
     ⟨_, rfl⟩⟩, by decide, by decide⟩

/-- why `sugarNodes` is a hypothesis of `sugar_obj_handed_down`: the model decides "this sub-tree port has an
    enumerated recursion callback" by `strchr(name, '#')`.  A sub-tree port `a/:#` (no `#N`, but a '#' in its type
    specification — no recursion macro generates such a name) would be taken for one: for "/a/x7" with type
    string "#" `Sugar.objIdx` selects an element (7, the first digit of the message) although the name
    enumerates nothing. -/
def shTree : PPorts :=
  { dflt := false,
    tab := .node { segs := [.lit [97]], sub := true, types := some [[35]] }
             (.leaf { segs := [.lit [120, 55]], sub := false, types := none } .nil) false .nil }

example :
    shTree.tab.WF ∧ shTree.tab.sugarNodes = false ∧
    (dispatchReal shTree.render (mkMsg [47, 97, 47, 120, 55] [35] [0, 0, 0, 0]) exData true).map
      (fun r => r.1.map (fun c => (c.who, c.obj))) = some [(.port [0], []), (.port [0, 0], [0])] ∧
    Sugar.objIdx shTree.render.tab ((mkMsg [47, 97, 47, 120, 55] [35] [0, 0, 0, 0]).drop 1) [0] = some [(0, some 7)] ∧
    shTree.elems [97, 47, 120, 55] [0] = some [(0, none)] := by
  refine ⟨by decide, by decide, ?_, ?_, ?_⟩ <;> decide +kernel

end Rtosc.Ports
