/-
  C16 — model of `rtosc_avmessage` (src/cpp/arg-val.c) for lists with ranges and arrays:
  the two passes over the range-aware iterator, then `rtosc_amessage` (C01's model,
  `Rtosc.Osc.amessage`).

  Mirrors the code with fixes/C01-avmessage.patch applied (values are handed to
  `rtosc_amessage` only for the types that carry a payload; the empty list takes the
  `rtosc_amessage(buffer, len, address, "", NULL)` shortcut).

  An array is *not* expanded by `rtosc_avmessage`: the iterator yields its `'a'` header, whose
  type character goes into the type string without a payload.
-/
import RtoscModel.ArgVal.Itr
import RtoscModel.Osc.Encode
namespace Rtosc.ArgVal
open Rtosc

/-- first pass: `for(val_max = 0; itr2.i < nargs; ++val_max) rtosc_arg_val_itr_next(&itr2);` -/
def countLoop : Nat → Itr → Nat → Res Nat
  | 0, _, _ => .error .fuel
  | fuel + 1, it, nargs =>
    if it.i < nargs then do
      let it' ← it.next
      let n ← countLoop fuel it' nargs
      pure (n + 1)
    else pure 0

/-- `cur->val` as the `rtosc_arg_t` that `rtosc_amessage` reads for a payload type. -/
def Cell.toCArg : Cell → Res Osc.CArg
  | .int _ v => pure (.w32 (UInt32.ofInt v))
  | .huge v => pure (.w64 (UInt64.ofInt v))
  | .time v => pure (.w64 (UInt64.ofNat v))
  | .flt b => pure (.w32 b)
  | .dbl b => pure (.w64 b)
  | .midi a b c d => pure (.midi a b c d)
  | .str _ (some s) => pure (.str (s.takeWhile (· ≠ 0)))
  | .str _ none => .error .undef                      -- strlen(NULL)
  | .blob d => pure (.blob (UInt32.ofNat d.length) (some d))
  | _ => .error .undef

/-- second pass: type string and compacted value array -/
def collect : Nat → Itr → Res (Bytes × List Osc.CArg)
  | 0, _ => pure ([], [])
  | n + 1, it => do
    let p ← it.get
    let cur ← deref p
    let v : List Osc.CArg ← (if Osc.hasReserved cur.type then do
                                let a ← cur.toCArg
                                pure [a]
                             else pure [])
    let it' ← it.next
    let (ts, vs) ← collect n it'
    pure (cur.type :: ts, v ++ vs)

/-- `rtosc_avmessage(buffer, len, address, nargs, args)` with `len = buffer.length`.
    `none` inside: `rtosc_amessage` reads an undefined input (C01's convention). -/
def avmessage (fuel : Nat) (buffer : Option Bytes) (addr : Bytes) (nargs : Nat) (args : List Cell) :
    Res (Option Osc.AResult) := do
  let itr := Itr.init args
  let valMax ← countLoop fuel itr nargs
  if valMax = 0 then pure (Osc.amessage buffer addr [] [])
  else
    let (tags, vals) ← collect valMax itr
    pure (Osc.amessage buffer addr tags vals)

end Rtosc.ArgVal
