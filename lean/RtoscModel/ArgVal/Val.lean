/-
  C16 — the argument-value array of rtosc (`rtosc_arg_val_t[]`), exactly as the C code lays it
  out in memory, plus a structured view of it.

  Flat layout (include/rtosc/rtosc.h, arg-ext.c, pretty-format.c:44-53)
  * one `Cell` per `rtosc_arg_val_t`: the type character and the union member that type selects;
  * an array is an `'a'` header cell holding the element type and `len` = the number of
    *cells* that follow and belong to the array (not the number of elements);
  * a range is a `'-'` header cell holding `num` and `has_delta`, followed by
      has_delta = 0 :  the repeated value (one cell, or an array header with its cells)
      has_delta ≠ 0 :  the delta cell, then the start cell;
    `num = 0` is the infinite range.

  A pointer `const rtosc_arg_val_t*` is modelled as the suffix of the cell list it points to;
  reading the cell under a pointer whose suffix is `[]` is a read past the block (`Err.oob`),
  never a default value.

  Structured view: `Item` (what a pretty-printed argument list denotes, ranges kept),
  `flatList : List Item → List Cell` (the memory layout above), `Val` (values with all ranges
  expanded) and `expandList : List Item → Option (List Val)`.
  No Mathlib import: linked into the driver.
-/
import RtoscModel.Basic
import RtoscModel.ArgVal.Float
namespace Rtosc.ArgVal
open Rtosc

/-- How a model function can fail to have a defined result. -/
inductive Err where
  | oob          -- read past the end of a block of cells
  | undef        -- the C code uses an indeterminate value (NULL result ignored, wrong union member,
                 -- negative length) or runs into `assert(false)`-only territory
  | exit         -- the code calls `exit(1)`
  | nan          -- float arithmetic on a NaN operand (not modelled)
  | fuel         -- the loop bound given to the model was too small (never a property of the code)
deriving DecidableEq, Repr

abbrev Res := Except Err

instance {α} [DecidableEq α] : DecidableEq (Res α)
  | .ok a, .ok b => if h : a = b then isTrue (congrArg _ h) else isFalse (fun e => h (Except.ok.inj e))
  | .error a, .error b =>
    if h : a = b then isTrue (congrArg _ h) else isFalse (fun e => h (Except.error.inj e))
  | .ok _, .error _ => isFalse (fun e => nomatch e)
  | .error _, .ok _ => isFalse (fun e => nomatch e)

/-- type characters -/
def tyA : UInt8 := 97      -- 'a'
def tyRange : UInt8 := 45  -- '-'
def tyT : UInt8 := 84
def tyF : UInt8 := 70

inductive IntTy where | i | c | r deriving DecidableEq, Repr
inductive StrTy where | s | S deriving DecidableEq, Repr
inductive FlagTy where | T | F | N | I deriving DecidableEq, Repr

def IntTy.char : IntTy → UInt8 | .i => 105 | .c => 99 | .r => 114
def StrTy.char : StrTy → UInt8 | .s => 115 | .S => 83
def FlagTy.char : FlagTy → UInt8 | .T => 84 | .F => 70 | .N => 78 | .I => 73

/-- One `rtosc_arg_val_t`.  Integers are kept as `Int` (values of `int32_t` / `int64_t`),
    floats as bit patterns, a string as the bytes behind the pointer (`none` = NULL), a blob as
    its `len` data bytes. -/
inductive Cell where
  | int (ty : IntTy) (v : Int)            -- 'i' 'c' 'r' : val.i
  | huge (v : Int)                        -- 'h' : val.h
  | time (v : Nat)                        -- 't' : val.t
  | flt (bits : UInt32)                   -- 'f' : val.f
  | dbl (bits : UInt64)                   -- 'd' : val.d
  | midi (a b c d : UInt8)                -- 'm' : val.m[4]
  | str (ty : StrTy) (s : Option Bytes)   -- 's' 'S' : val.s
  | blob (data : Bytes)                   -- 'b' : val.b
  | flag (ty : FlagTy)                    -- 'T' 'F' 'N' 'I'
  | arr (ety : UInt8) (len : Int)         -- 'a' : element type, number of cells
  | rep (num : Int) (hasDelta : Int)      -- '-' : range header
deriving DecidableEq, Repr

/-- `av->type` -/
def Cell.type : Cell → UInt8
  | .int ty _ => ty.char
  | .huge _ => 104
  | .time _ => 116
  | .flt _ => 102
  | .dbl _ => 100
  | .midi .. => 109
  | .str ty _ => ty.char
  | .blob _ => 98
  | .flag ty => ty.char
  | .arr .. => tyA
  | .rep .. => tyRange

/-- neither an array header nor a range header -/
def Cell.isScalar : Cell → Bool
  | .arr .. => false
  | .rep .. => false
  | _ => true

/-- `*p` : the cell under a pointer -/
def deref : List Cell → Res Cell
  | [] => .error .oob
  | c :: _ => .ok c

/-! ### Structured view -/

/-- One printed argument: a plain value, an array, `N x value`, or `start ... end` with a delta. -/
inductive Item where
  | val (c : Cell)
  | arr (ety : UInt8) (es : List Item)
  | rep (n : Nat) (x : Item)
  | range (n : Nat) (delta start : Cell)

mutual
/-- the cells of one item, in memory order -/
def Item.flat : Item → List Cell
  | .val c => [c]
  | .arr ety es => .arr ety (flatList es).length :: flatList es
  | .rep n x => .rep n 0 :: x.flat
  | .range n d s => [.rep n 1, d, s]
/-- the memory layout of an argument list -/
def flatList : List Item → List Cell
  | [] => []
  | x :: xs => x.flat ++ flatList xs
end

/-- A fully expanded value: a scalar cell or an array of values. -/
inductive Val where
  | sc (c : Cell)
  | arr (ety : UInt8) (es : List Val)

end Rtosc.ArgVal
