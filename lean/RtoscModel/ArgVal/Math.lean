/-
  C16 — model of the arithmetic behind ranges (src/cpp/arg-val-math.c):
  rtosc_arg_val_from_int, rtosc_arg_val_mult, rtosc_arg_val_add and
  rtosc_arg_val_range_arg  (`result = start + ith * delta`).

  * `int32_t` / `int64_t` arithmetic wraps around in two's complement, as the code does with
    fixes/C10-10-argval-math-wrap.patch applied (`(int32_t)((uint32_t)a + (uint32_t)b)` …).
    On the code without that patch the same operands are signed overflow, i.e. undefined
    behaviour in C; the correspondence generator only produces such operands when the working
    tree contains the patch.
  * `float` / `double` arithmetic is exact IEEE arithmetic on bit patterns (`Float.lean`).
  * A function returning `false` (unsupported type combination) is `none` in `Option`; the
    caller `rtosc_arg_val_range_arg` then returns NULL and leaves `*result` indeterminate.
-/
import RtoscModel.ArgVal.Val
namespace Rtosc.ArgVal
open Rtosc

/-- `(int32_t)(uint32_t)v` : reduce into [-2^31, 2^31) -/
def wrapI32 (v : Int) : Int := (v + 2147483648) % 4294967296 - 2147483648
/-- `(int64_t)(uint64_t)v` : reduce into [-2^63, 2^63) -/
def wrapI64 (v : Int) : Int := (v + 9223372036854775808) % 18446744073709551616 - 9223372036854775808

def fop32 (r : Option Nat) : Res Cell :=
  match r with | some b => .ok (.flt (UInt32.ofNat b)) | none => .error .nan
def fop64 (r : Option Nat) : Res Cell :=
  match r with | some b => .ok (.dbl (UInt64.ofNat b)) | none => .error .nan

/-- `rtosc_arg_val_from_int(av, type, number)` where `type` is the type of the cell `like`.
    `none` = returns false.  (`'r'` is not handled by the C switch.) -/
def fromInt (like : Cell) (number : Int) : Option Cell :=
  match like with
  | .huge _ => some (.huge number)
  | .dbl _ => some (.dbl (UInt64.ofNat (f64.ofInt number)))
  | .flt _ => some (.flt (UInt32.ofNat (f32.ofInt number)))
  | .int .c _ => some (.int .c number)
  | .int .i _ => some (.int .i number)
  | .flag .T => some (.flag (if number ≠ 0 then .T else .F))
  | .flag .F => some (.flag (if number ≠ 0 then .T else .F))
  | _ => none

/-- `rtosc_arg_val_mult(lhs, rhs, res)`; outer `Option`: returns false. -/
def mult (lhs rhs : Cell) : Option (Res Cell) :=
  if lhs.type ≠ rhs.type then
    match lhs, rhs with
    | .flag .F, .flag .T => some (.ok (.flag .F))
    | .flag .T, .flag .F => some (.ok (.flag .F))
    | _, _ => none
  else
    match lhs, rhs with
    | .dbl a, .dbl b => some (fop64 (f64.mul a.toNat b.toNat))
    | .flt a, .flt b => some (fop32 (f32.mul a.toNat b.toNat))
    | .huge a, .huge b => some (.ok (.huge (wrapI64 (a * b))))
    | .int .c a, .int .c b => some (.ok (.int .c (wrapI32 (a * b))))
    | .int .i a, .int .i b => some (.ok (.int .i (wrapI32 (a * b))))
    | .flag .T, .flag .T => some (.ok (.flag .T))
    | .flag .F, .flag .F => some (.ok (.flag .F))
    | _, _ => none

/-- `rtosc_arg_val_add(lhs, rhs, res)` -/
def add (lhs rhs : Cell) : Option (Res Cell) :=
  if lhs.type ≠ rhs.type then
    match lhs, rhs with
    | .flag .F, .flag .T => some (.ok (.flag .T))
    | .flag .T, .flag .F => some (.ok (.flag .T))
    | _, _ => none
  else
    match lhs, rhs with
    | .dbl a, .dbl b => some (fop64 (f64.add a.toNat b.toNat))
    | .flt a, .flt b => some (fop32 (f32.add a.toNat b.toNat))
    | .huge a, .huge b => some (.ok (.huge (wrapI64 (a + b))))
    | .int .c a, .int .c b => some (.ok (.int .c (wrapI32 (a + b))))
    | .int .i a, .int .i b => some (.ok (.int .i (wrapI32 (a + b))))
    | .flag .T, .flag .T => some (.ok (.flag .F))
    | .flag .F, .flag .F => some (.ok (.flag .F))
    | _, _ => none

/-- `start + ith * delta` as `rtosc_arg_val_range_arg` computes it:
    `from_int(&n, delta.type, ith); mult(&n, delta, &m); add(start, &m, result)`.
    `Err.undef`: one of the three steps returned false (the C function returns NULL and the
    caller goes on with an indeterminate `*result`). -/
def rangeVal (delta start : Cell) (ith : Nat) : Res Cell :=
  match fromInt delta ith with
  | none => .error .undef
  | some n =>
    match mult n delta with
    | none => .error .undef
    | some (.error e) => .error e
    | some (.ok m) =>
      match add start m with
      | none => .error .undef
      | some r => r

/-- `rtosc_arg_val_range_arg(range_arg, ith, result)`: `range_arg` points to the `'-'` header,
    `range_arg[1]` is the delta, `range_arg + 2` the start. -/
def rangeArg (rangeArgPtr : List Cell) (ith : Nat) : Res Cell :=
  match rangeArgPtr with
  | _ :: delta :: start :: _ => rangeVal delta start ith
  | _ => .error .oob

end Rtosc.ArgVal
