/-
  C16 — model of the arithmetic behind ranges (src/cpp/arg-val-math.c):
  rtosc_arg_val_from_int, rtosc_arg_val_mult, rtosc_arg_val_add and
  rtosc_arg_val_range_arg  (`result = start + ith * delta`).

  * `int32_t` / `int64_t` arithmetic is exact on `Int`; a result outside the type's range is
    signed overflow, i.e. undefined behaviour in C (`Err.overflow`), never wrapped silently.
  * `float` / `double` arithmetic is exact IEEE arithmetic on bit patterns (`Float.lean`).
  * A function returning `false` (unsupported type combination) is `none` in `Option`; the
    caller `rtosc_arg_val_range_arg` then returns NULL and leaves `*result` indeterminate.
-/
import RtoscModel.ArgVal.Val
namespace Rtosc.ArgVal
open Rtosc

def inI32 (v : Int) : Bool := -2147483648 ≤ v && v ≤ 2147483647
def inI64 (v : Int) : Bool := -9223372036854775808 ≤ v && v ≤ 9223372036854775807

def chkI32 (v : Int) : Res Int := if inI32 v then .ok v else .error .overflow
def chkI64 (v : Int) : Res Int := if inI64 v then .ok v else .error .overflow

def fop32 (r : Option Nat) : Res Cell :=
  match r with | some b => .ok (.flt (UInt32.ofNat b)) | none => .error .nan
def fop64 (r : Option Nat) : Res Cell :=
  match r with | some b => .ok (.dbl (UInt64.ofNat b)) | none => .error .nan

/-- `rtosc_arg_val_from_int(av, type, number)` where `type` is the type of the cell `like`.
    `none` = returns false.  (`'r'` is not handled by the C switch.) -/
def fromInt (like : Cell) (number : Int) : Option Cell :=
  match like with
  | .huge _ => some (.huge number)
  | .dbl _ => some (.dbl (UInt64.ofNat (f64.ofInt number)))
  | .flt _ => some (.flt (UInt32.ofNat (f32.ofInt number)))
  | .int .c _ => some (.int .c number)
  | .int .i _ => some (.int .i number)
  | .flag .T => some (.flag (if number ≠ 0 then .T else .F))
  | .flag .F => some (.flag (if number ≠ 0 then .T else .F))
  | _ => none

/-- `rtosc_arg_val_mult(lhs, rhs, res)`; outer `Option`: returns false. -/
def mult (lhs rhs : Cell) : Option (Res Cell) :=
  if lhs.type ≠ rhs.type then
    match lhs, rhs with
    | .flag .F, .flag .T => some (.ok (.flag .F))
    | .flag .T, .flag .F => some (.ok (.flag .F))
    | _, _ => none
  else
    match lhs, rhs with
    | .dbl a, .dbl b => some (fop64 (f64.mul a.toNat b.toNat))
    | .flt a, .flt b => some (fop32 (f32.mul a.toNat b.toNat))
    | .huge a, .huge b => some ((chkI64 (a * b)).map .huge)
    | .int .c a, .int .c b => some ((chkI32 (a * b)).map (.int .c))
    | .int .i a, .int .i b => some ((chkI32 (a * b)).map (.int .i))
    | .flag .T, .flag .T => some (.ok (.flag .T))
    | .flag .F, .flag .F => some (.ok (.flag .F))
    | _, _ => none

/-- `rtosc_arg_val_add(lhs, rhs, res)` -/
def add (lhs rhs : Cell) : Option (Res Cell) :=
  if lhs.type ≠ rhs.type then
    match lhs, rhs with
    | .flag .F, .flag .T => some (.ok (.flag .T))
    | .flag .T, .flag .F => some (.ok (.flag .T))
    | _, _ => none
  else
    match lhs, rhs with
    | .dbl a, .dbl b => some (fop64 (f64.add a.toNat b.toNat))
    | .flt a, .flt b => some (fop32 (f32.add a.toNat b.toNat))
    | .huge a, .huge b => some ((chkI64 (a + b)).map .huge)
    | .int .c a, .int .c b => some ((chkI32 (a + b)).map (.int .c))
    | .int .i a, .int .i b => some ((chkI32 (a + b)).map (.int .i))
    | .flag .T, .flag .T => some (.ok (.flag .F))
    | .flag .F, .flag .F => some (.ok (.flag .F))
    | _, _ => none

/-- `start + ith * delta` as `rtosc_arg_val_range_arg` computes it:
    `from_int(&n, delta.type, ith); mult(&n, delta, &m); add(start, &m, result)`.
    `Err.undef`: one of the three steps returned false (the C function returns NULL and the
    caller goes on with an indeterminate `*result`). -/
def rangeVal (delta start : Cell) (ith : Nat) : Res Cell :=
  match fromInt delta ith with
  | none => .error .undef
  | some n =>
    match mult n delta with
    | none => .error .undef
    | some (.error e) => .error e
    | some (.ok m) =>
      match add start m with
      | none => .error .undef
      | some r => r

/-- `rtosc_arg_val_range_arg(range_arg, ith, result)`: `range_arg` points to the `'-'` header,
    `range_arg[1]` is the delta, `range_arg + 2` the start. -/
def rangeArg (rangeArgPtr : List Cell) (ith : Nat) : Res Cell :=
  match rangeArgPtr with
  | _ :: delta :: start :: _ => rangeVal delta start ith
  | _ => .error .oob

end Rtosc.ArgVal
