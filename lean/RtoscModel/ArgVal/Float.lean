/-
  C16 — IEEE-754 binary32 / binary64 on bit patterns, as far as the arg-val code needs it:
  the comparisons `==` and `>` (arg-val-cmp.c), and `(float)int`, `*`, `+`
  (rtosc_arg_val_from_int / _mult / _add, used by rtosc_arg_val_range_arg).

  Arithmetic is exact: operands are decoded to `± m · 2^e` with integers `m`, `e`; the exact
  product / sum is rounded once, to nearest, ties to even (the only rounding mode the code
  runs under; x86-64 SSE arithmetic evaluates `float` expressions in `float`).
  Infinities are handled; an operation with a NaN *operand* is not modelled (`none`): which
  of two NaN payloads survives depends on the operand order the compiler picks.
  An invalid operation (`inf - inf`, `0 · inf`) yields the x86 default NaN.
  No Mathlib import: linked into the driver.
-/
namespace Rtosc.ArgVal

/-- A binary interchange format: `mbits` stored significand bits, `ebits` exponent bits. -/
structure FFmt where
  mbits : Nat
  ebits : Nat
deriving DecidableEq, Repr

def f32 : FFmt := ⟨23, 8⟩
def f64 : FFmt := ⟨52, 11⟩

namespace FFmt
variable (F : FFmt)

def bias : Nat := 2 ^ (F.ebits - 1) - 1
def expMax : Nat := 2 ^ F.ebits - 1                 -- all-ones exponent field
def signBit : Nat := 2 ^ (F.mbits + F.ebits)
def infBits : Nat := F.expMax * 2 ^ F.mbits
/-- the default NaN the hardware produces: negative quiet NaN, zero payload -/
def defaultNaN : Nat := F.signBit + F.infBits + 2 ^ (F.mbits - 1)

def sign (b : Nat) : Bool := b / F.signBit % 2 = 1
def mag (b : Nat) : Nat := b % F.signBit             -- bits without the sign
def expField (b : Nat) : Nat := F.mag b / 2 ^ F.mbits
def frac (b : Nat) : Nat := b % 2 ^ F.mbits
def isNaN (b : Nat) : Bool := F.mag b > F.infBits
def isInf (b : Nat) : Bool := F.mag b = F.infBits
def isZero (b : Nat) : Bool := F.mag b = 0

/-- Monotone key of a non-NaN pattern into `Int` (`-0` and `+0` both map to 0):
    `a < b` as IEEE values iff `key a < key b`. -/
def key (b : Nat) : Int := if F.sign b then - (F.mag b : Int) else (F.mag b : Int)

/-- C `a == b` -/
def feq (a b : Nat) : Bool := !F.isNaN a && !F.isNaN b && F.key a == F.key b
/-- C `a > b` -/
def fgt (a b : Nat) : Bool := !F.isNaN a && !F.isNaN b && decide (F.key a > F.key b)

/-- exponent of the unit in the last place of the subnormal range -/
def qmin : Int := 1 - (F.bias : Int) - (F.mbits : Int)

/-- finite non-zero pattern → `(m, e)` with `|value| = m · 2^e` -/
def decode (b : Nat) : Nat × Int :=
  if F.expField b = 0 then (F.frac b, F.qmin)
  else (2 ^ F.mbits + F.frac b, (F.expField b : Int) - (F.bias : Int) - (F.mbits : Int))

/-- number of bits of `m` (0 for 0) -/
def bitLen (m : Nat) : Nat := if m = 0 then 0 else Nat.log2 m + 1

/-- Round `m · 2^e` (m > 0) to nearest-even and encode (without sign). -/
def roundMag (m : Nat) (e : Int) : Nat :=
  let L := bitLen m
  let top : Int := e + (L : Int) - 1                 -- exponent of the leading bit
  let q : Int := max (top - (F.mbits : Int)) F.qmin  -- exponent of the result's last place
  let M : Nat :=
    if e ≥ q then m * 2 ^ (e - q).toNat
    else
      let sh := (q - e).toNat
      let q0 := m / 2 ^ sh
      let rem := m % 2 ^ sh
      let half := 2 ^ (sh - 1)
      if rem > half ∨ (rem = half ∧ q0 % 2 = 1) then q0 + 1 else q0
  let k := (q - F.qmin).toNat
  let bits := k * 2 ^ F.mbits + M
  if bits ≥ F.infBits then F.infBits else bits

def withSign (neg : Bool) (magBits : Nat) : Nat := if neg then F.signBit + magBits else magBits

/-- `(T) n` for a C `int` n -/
def ofInt (n : Int) : Nat :=
  if n = 0 then 0 else F.withSign (n < 0) (F.roundMag n.natAbs 0)

/-- `a * b`; `none` when an operand is a NaN -/
def mul (a b : Nat) : Option Nat :=
  if F.isNaN a ∨ F.isNaN b then none
  else
    let neg := F.sign a != F.sign b
    if F.isInf a ∨ F.isInf b then
      if F.isZero a ∨ F.isZero b then some F.defaultNaN else some (F.withSign neg F.infBits)
    else if F.isZero a ∨ F.isZero b then some (F.withSign neg 0)
    else
      let (ma, ea) := F.decode a
      let (mb, eb) := F.decode b
      some (F.withSign neg (F.roundMag (ma * mb) (ea + eb)))

/-- `a + b`; `none` when an operand is a NaN -/
def add (a b : Nat) : Option Nat :=
  if F.isNaN a ∨ F.isNaN b then none
  else if F.isInf a then
    if F.isInf b ∧ F.sign a ≠ F.sign b then some F.defaultNaN else some a
  else if F.isInf b then some b
  else if F.isZero a ∧ F.isZero b then some (F.withSign (F.sign a && F.sign b) 0)
  else if F.isZero a then some b
  else if F.isZero b then some a
  else
    let (ma, ea) := F.decode a
    let (mb, eb) := F.decode b
    let e0 := min ea eb
    let xa : Int := (ma * 2 ^ (ea - e0).toNat : Nat)
    let xb : Int := (mb * 2 ^ (eb - e0).toNat : Nat)
    let s : Int := (if F.sign a then -xa else xa) + (if F.sign b then -xb else xb)
    if s = 0 then some 0                               -- exact cancellation: +0
    else some (F.withSign (s < 0) (F.roundMag s.natAbs e0))

end FFmt
end Rtosc.ArgVal
