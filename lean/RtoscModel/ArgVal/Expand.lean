/-
  C16 — specification side: what a flat argument-value list *denotes* and how denoted lists are
  ordered.  Independent of the iterator / loop structure of the C code.

  * `expandList : List Item → Option (List Val)`: every `N x value` is written out N times, every
    `start … (delta)` range is written out as `start + i·delta` (`rangeVal`, arg-val-math.c), arrays
    recursively.  `none`: the structured list is not one the property quantifies over — an
    infinite range (`n = 0`), a range of ranges, a header cell used as a value, or a range whose
    arithmetic is undefined (unsupported type, NaN operand).
  * `Val.cmpList`: the order the property describes — lexicographic over the values, a proper
    prefix first; two arrays are ordered by element type ('T' counted as 'F'), then by content;
    values of different type by their type character; same-typed scalars by the documented
    per-type rule (`cmpScalar`, whose per-type content is `orders_as_documented`).
-/
import RtoscModel.ArgVal.Cmp
import RtoscModel.ArgVal.Msg
namespace Rtosc.ArgVal
open Rtosc

def Val.head : Val → Cell
  | .sc c => c
  | .arr ety _ => .arr ety 0

mutual
def Val.cmp : Val → Val → Int
  | .arr t1 e1, .arr t2 e2 =>
    if normTy t1 ≠ normTy t2 then (if schar (normTy t1) > schar (normTy t2) then 1 else -1)
    else Val.cmpList e1 e2
  | .arr t1 _, .sc b => cmpScalar (.arr t1 0) b
  | .sc a, w => cmpScalar a w.head
def Val.cmpList : List Val → List Val → Int
  | [], [] => 0
  | [], _ :: _ => -1
  | _ :: _, [] => 1
  | x :: xs, y :: ys => if Val.cmp x y = 0 then Val.cmpList xs ys else Val.cmp x y
end

/-- the values `start + i·delta` for `i = from, from+1, …` (`count` of them) -/
def rangeVals (d s : Cell) : Nat → Nat → Option (List Val)
  | _, 0 => some []
  | i, m + 1 =>
    match rangeVal d s i, rangeVals d s (i + 1) m with
    | .ok v, some r => some (.sc v :: r)
    | _, _ => none

mutual
def Item.expand : Item → Option (List Val)
  | .val c => if c.isScalar then some [.sc c] else none
  | .arr ety es => (expandList es).map fun vs => [.arr ety vs]
  | .rep n (.val c) => if 1 ≤ n ∧ c.isScalar then some (List.replicate n (.sc c)) else none
  | .rep n (.arr ety es) =>
    if 1 ≤ n then (expandList es).map fun vs => List.replicate n (.arr ety vs) else none
  | .rep _ _ => none
  | .range n d s =>
    if 1 ≤ n ∧ d.isScalar ∧ s.isScalar then rangeVals d s 0 n else none
def expandList : List Item → Option (List Val)
  | [] => some []
  | x :: xs =>
    match x.expand, expandList xs with
    | some a, some b => some (a ++ b)
    | _, _ => none
end

def Cell.isNaN : Cell → Bool
  | .flt b => f32.isNaN b.toNat
  | .dbl b => f64.isNaN b.toNat
  | _ => false

mutual
def Val.noNaN : Val → Bool
  | .sc c => !c.isNaN
  | .arr _ es => Val.noNaNList es
def Val.noNaNList : List Val → Bool
  | [] => true
  | v :: vs => v.noNaN && Val.noNaNList vs
end

mutual
/-- number of nodes of a value tree (fuel accounting) -/
def Val.size : Val → Nat
  | .sc _ => 1
  | .arr _ es => 2 + Val.sizeList es
def Val.sizeList : List Val → Nat
  | [] => 0
  | v :: vs => v.size + Val.sizeList vs
end

/-- fuel that always suffices to compare two lists denoting `vs` and `ws` -/
def fuelFor (vs ws : List Val) : Nat := Val.sizeList vs + Val.sizeList ws + 2

/-- what `rtosc_avmessage` hands to `rtosc_amessage` for a denoted list: one type character per
    top-level value, one `rtosc_arg_t` per value that carries a payload -/
def msgArgs : List Val → Res (Bytes × List Osc.CArg)
  | [] => pure ([], [])
  | v :: vs => do
    let c := v.head
    let a : List Osc.CArg ← (if Osc.hasReserved c.type then do
                                let x ← c.toCArg
                                pure [x]
                             else pure [])
    let (ts, as) ← msgArgs vs
    pure (c.type :: ts, a ++ as)

end Rtosc.ArgVal
