/-
  C16 — model of the range-aware iterator (src/cpp/arg-val-itr.c):
  rtosc_arg_val_itr_init / _get / _next.

  `itr->av` is the suffix of the cell list the iterator points to, `itr->i` the index it
  maintains next to it, `itr->range_i` the position inside the current range.

  This mirrors the code *with fix C16-itr-repeated-array applied*: for a delta-less range
  `rtosc_arg_val_itr_get` returns `itr->av + 1` (the repeated value in place, so that a
  repeated array keeps its elements) instead of a copy of that single cell in `*buffer`.
-/
import RtoscModel.ArgVal.Math
namespace Rtosc.ArgVal
open Rtosc

structure Itr where
  av : List Cell
  i : Nat
  rangeI : Nat
deriving DecidableEq, Repr

/-- `rtosc_arg_val_itr_init` -/
def Itr.init (av : List Cell) : Itr := ⟨av, 0, 0⟩

/-- `av->type == '-'`, with `rtosc_av_rep_num(av)` and `rtosc_av_rep_has_delta(av)` -/
def Cell.asRange : Cell → Option (Int × Int)
  | .rep num hasDelta => some (num, hasDelta)
  | _ => none

/-- `av->type == 'a'`, with `rtosc_av_arr_type(av)` and `rtosc_av_arr_len(av)` -/
def Cell.asArr : Cell → Option (UInt8 × Int)
  | .arr ety len => some (ety, len)
  | _ => none

/-- `rtosc_arg_val_itr_get`: the returned pointer, as the suffix it points to
    (`[v]` for a value computed into `*buffer`). -/
def Itr.get (it : Itr) : Res (List Cell) := do
  let c ← deref it.av                                   -- itr->av->type
  match c.asRange with
  | some (_, hasDelta) =>
    if hasDelta ≠ 0 then do
      let v ← rangeArg it.av it.rangeI                  -- NULL result: indeterminate `*buffer`
      pure [v]                                          -- result = buffer
    else pure (it.av.drop 1)                            -- result = itr->av + 1
  | none => pure it.av

/-- `rtosc_arg_val_itr_next` -/
def Itr.next (it : Itr) : Res Itr := do
  let c ← deref it.av
  -- increase the range index
  let it1 : Itr :=
    match c.asRange with
    | some (num, hasDelta) =>
      let ri := it.rangeI + 1                           -- ++itr->range_i
      if (ri : Int) ≥ num ∧ num ≠ 0 then
        if hasDelta ≠ 0 then ⟨it.av.drop 2, it.i + 2, 0⟩
        else ⟨it.av.drop 1, it.i + 1, 0⟩
      else ⟨it.av, it.i, ri⟩
    | none => it
  -- if not inside a range (or at its beginning), increase the index
  if it1.rangeI = 0 then do
    let c1 ← deref it1.av                               -- itr->av->type
    match c1.asArr with
    | some (_, len) =>
      if len < 0 then .error .undef                     -- pointer moved backwards: not modelled
      else pure ⟨it1.av.drop (len.toNat + 1), it1.i + len.toNat + 1, 0⟩
    | none => pure ⟨it1.av.drop 1, it1.i + 1, 0⟩
  else pure it1

/-- The values a caller sees when it walks a list the way `rtosc_avmessage` does:
    `for(init; itr.i < size; next) yield get`.  Every yielded pointer is returned as the
    suffix it points to.  `fuel` bounds the number of iterations. -/
def iterate : Nat → Itr → Nat → Res (List (List Cell))
  | 0, _, _ => .error .fuel
  | fuel + 1, it, size =>
    if it.i < size then do
      let p ← it.get
      let it' ← it.next
      let rest ← iterate fuel it' size
      pure (p :: rest)
    else pure []

end Rtosc.ArgVal
