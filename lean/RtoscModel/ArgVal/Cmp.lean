/-
  C16 — model of src/cpp/arg-val-cmp.c:
  rtosc_arg_vals_cmp_has_next, rtosc_arg_vals_eq_after_abort, rtosc_arg_vals_eq_single,
  rtosc_arg_vals_eq, rtosc_arg_vals_cmp_single, rtosc_arg_vals_cmp,
  with the default comparison options (`opt == NULL`, float_tolerance 0.0).

  Mirrors the code with these fixes applied (fixes/C16-*.patch):
  * C16-blob-prefix   : when one blob is a proper prefix of the other the result is ±1 by length
                        (was: the value of the longer blob's next byte, 0 for a NUL byte);
  * C16-array-type    : `cmp` treats the array element types 'T' and 'F' as one type, ordered as
                        'F' (was: a test different from the one in `eq`, which made `cmp`
                        asymmetric and, even when made equal to `eq`'s test, not transitive).

  `memcmp` / `strcmp` are modelled by their sign (-1, 0, 1): the C standard only specifies the
  sign of their result, and only the sign of `rtosc_arg_vals_cmp` is documented and observed.

  The functions recurse into each other through arrays; `fuel` bounds the total recursion depth
  (`Err.fuel` when it was too small; `Proofs/ArgValBridge.lean` shows which fuel always suffices).
-/
import RtoscModel.ArgVal.Itr
namespace Rtosc.ArgVal
open Rtosc

/-- `cmp_3way(val1, val2)` on integers -/
def cmp3 (a b : Int) : Int := if a = b then 0 else if a > b then 1 else -1

/-- sign of a lexicographic comparison of byte strings (unsigned bytes), a proper prefix first -/
def lexCmp : Bytes → Bytes → Int
  | [], [] => 0
  | [], _ :: _ => -1
  | _ :: _, [] => 1
  | a :: as, b :: bs => if a = b then lexCmp as bs else if a > b then 1 else -1

/-- sign of `memcmp(a, b, n)` (both blocks hold at least `n` bytes) -/
def memcmpS (a b : Bytes) (n : Nat) : Int := lexCmp (a.take n) (b.take n)

/-- the C string behind a `char*` whose block holds `s` followed by a NUL -/
def cstrOf (s : Bytes) : Bytes := s.takeWhile (· ≠ 0)

/-- sign of `strcmp(a, b)` -/
def strcmpS (a b : Bytes) : Int := lexCmp (cstrOf a) (cstrOf b)

/-- `cmp_3way(a, b)` on floats / doubles given as bit patterns -/
def fcmp3 (F : FFmt) (a b : Nat) : Int := if F.feq a b then 0 else if F.fgt a b then 1 else -1

/-- C `char` comparison (`char` is signed on the target) -/
def schar (c : UInt8) : Int := if c.toNat < 128 then c.toNat else (c.toNat : Int) - 256

/-- the array element type as `cmp` orders it (fix C16-array-type): 'T' counts as 'F' -/
def normTy (t : UInt8) : UInt8 := if t = tyT then tyF else t

/-- `rtosc_arg_vals_cmp_has_next` -/
def hasNext (l r : Itr) (lsize rsize : Nat) : Res Bool :=
  if l.i < lsize then
    if r.i < rsize then do
      let lc ← deref l.av
      let rc ← deref r.av
      match lc.asRange, rc.asRange with
      | some (lnum, _), some (rnum, _) => pure (lnum ≠ 0 || rnum ≠ 0)
      | _, _ => pure true
    else pure false
  else pure false

/-- one operand of `rtosc_arg_vals_eq_after_abort` -/
def sideDone (it : Itr) (size : Nat) : Res Bool :=
  if it.i = size then pure true
  else do
    let c ← deref it.av
    match c.asRange with
    | some (num, _) => pure (num = 0)
    | none => pure false

/-- `rtosc_arg_vals_eq_after_abort` -/
def eqAfterAbort (l r : Itr) (lsize rsize : Nat) : Res Bool := do
  let a ← sideDone l lsize
  if a then sideDone r rsize else pure false

/-- `rtosc_arg_vals_eq_single` for everything but arrays -/
def eqScalar (l r : Cell) : Res Bool :=
  if l.type = r.type then
    match l, r with
    | .int _ a, .int _ b => pure (a = b)
    | .flag _, .flag _ => pure true
    | .flt a, .flt b => pure (f32.feq a.toNat b.toNat)
    | .dbl a, .dbl b => pure (f64.feq a.toNat b.toNat)
    | .huge a, .huge b => pure (a = b)
    | .time a, .time b => pure (a = b)
    | .midi a b c d, .midi a' b' c' d' => pure (memcmpS [a, b, c, d] [a', b', c', d'] 4 = 0)
    | .str _ none, .str _ none => pure true
    | .str _ none, .str _ (some _) => pure false
    | .str _ (some _), .str _ none => pure false
    | .str _ (some a), .str _ (some b) => pure (strcmpS a b = 0)
    | .blob a, .blob b =>
      if a.length = b.length then pure (memcmpS a b a.length = 0) else pure false
    | _, _ => .error .exit                             -- default: exit(1)  ('-' and unknown types)
  else pure false

/-- the `case 'b'` of `rtosc_arg_vals_cmp_single` (with fix C16-blob-prefix) -/
def blobCmp (a b : Bytes) : Int :=
  let minlen := min a.length b.length
  let rval := memcmpS a b minlen
  if a.length ≠ b.length ∧ rval = 0 then (if a.length > b.length then 1 else -1) else rval

/-- `rtosc_arg_vals_cmp_single` for everything but arrays -/
def cmpScalar (l r : Cell) : Int :=
  if l.type = r.type then
    match l, r with
    | .int _ a, .int _ b => cmp3 a b
    | .flag _, .flag _ => 0
    | .flt a, .flt b => fcmp3 f32 a.toNat b.toNat
    | .dbl a, .dbl b => fcmp3 f64 a.toNat b.toNat
    | .huge a, .huge b => cmp3 a b
    | .time a, .time b =>
      if a = 1 then (if b = 1 then 0 else -1)
      else if b = 1 then 1 else cmp3 a b
    | .midi a b c d, .midi a' b' c' d' => memcmpS [a, b, c, d] [a', b', c', d'] 4
    | .str _ none, .str _ none => 0                    -- cmp_3way on the pointers
    | .str _ none, .str _ (some _) => -1
    | .str _ (some _), .str _ none => 1
    | .str _ (some a), .str _ (some b) => strcmpS a b
    | .blob a, .blob b => blobCmp a b
    | _, _ => -1                                       -- '-' / default: rval = -1 (NDEBUG)
  else if schar l.type > schar r.type then 1 else -1

mutual
/-- `rtosc_arg_vals_eq_single(_lhs, _rhs, NULL)` -/
def eqSingle : Nat → List Cell → List Cell → Res Bool
  | 0, _, _ => .error .fuel
  | fuel + 1, lp, rp => do
    let l ← deref lp
    let r ← deref rp
    match l.asArr, r.asArr with
    | some (lt, llen), some (rt, rlen) =>
      if lt ≠ rt ∧ ¬ (lt = tyT ∧ rt = tyF) ∧ ¬ (lt = tyF ∧ rt = tyT) then pure false
      else if llen < 0 ∨ rlen < 0 then .error .undef
      else eq fuel (lp.drop 1) (rp.drop 1) llen.toNat rlen.toNat
    | _, _ => eqScalar l r

/-- the `for` loop of `rtosc_arg_vals_eq` and the `return`; `rval` is the C variable.
    Evaluation order as in C: `has_next(..) && rval`, body, then both `next`s. -/
def eqLoop : Nat → Itr → Itr → Nat → Nat → Bool → Res Bool
  | 0, _, _, _, _, _ => .error .fuel
  | fuel + 1, litr, ritr, lsize, rsize, rval => do
    let hn ← hasNext litr ritr lsize rsize
    if hn && rval then
      let lp ← litr.get
      let rp ← ritr.get
      let rval' ← eqSingle fuel lp rp
      let litr' ← litr.next
      let ritr' ← ritr.next
      eqLoop fuel litr' ritr' lsize rsize rval'
    else if rval then eqAfterAbort litr ritr lsize rsize
    else pure false

/-- `rtosc_arg_vals_eq(lhs, rhs, lsize, rsize, NULL)` -/
def eq : Nat → List Cell → List Cell → Nat → Nat → Res Bool
  | 0, _, _, _, _ => .error .fuel
  | fuel + 1, lhs, rhs, lsize, rsize =>
    eqLoop fuel (Itr.init lhs) (Itr.init rhs) lsize rsize true
end

mutual
/-- `rtosc_arg_vals_cmp_single(_lhs, _rhs, NULL)` -/
def cmpSingle : Nat → List Cell → List Cell → Res Int
  | 0, _, _ => .error .fuel
  | fuel + 1, lp, rp => do
    let l ← deref lp
    let r ← deref rp
    match l.asArr, r.asArr with
    | some (lt, llen), some (rt, rlen) =>
      let ltype := normTy lt
      let rtype := normTy rt
      if ltype ≠ rtype then pure (if schar ltype > schar rtype then 1 else -1)
      else if llen < 0 ∨ rlen < 0 then .error .undef
      else cmp fuel (lp.drop 1) (rp.drop 1) llen.toNat rlen.toNat
    | _, _ => pure (cmpScalar l r)

/-- the `for` loop of `rtosc_arg_vals_cmp` and the `return`; `rval` is the C variable.
    Evaluation order as in C: `has_next(..) && !rval`, body, then both `next`s. -/
def cmpLoop : Nat → Itr → Itr → Nat → Nat → Int → Res Int
  | 0, _, _, _, _, _ => .error .fuel
  | fuel + 1, litr, ritr, lsize, rsize, rval => do
    let hn ← hasNext litr ritr lsize rsize
    if hn && rval == 0 then
      let lp ← litr.get
      let rp ← ritr.get
      let rval' ← cmpSingle fuel lp rp
      let litr' ← litr.next
      let ritr' ← ritr.next
      cmpLoop fuel litr' ritr' lsize rsize rval'
    else if rval ≠ 0 then pure rval
    else if ← eqAfterAbort litr ritr lsize rsize then pure 0
    else
      -- `(lsize - litr.i > rsize - ritr.i) ? 1 : -1` in size_t arithmetic
      let lrest := if litr.i ≤ lsize then lsize - litr.i else 2 ^ 64 + lsize - litr.i
      let rrest := if ritr.i ≤ rsize then rsize - ritr.i else 2 ^ 64 + rsize - ritr.i
      pure (if lrest > rrest then 1 else -1)

/-- `rtosc_arg_vals_cmp(lhs, rhs, lsize, rsize, NULL)`, as its sign -/
def cmp : Nat → List Cell → List Cell → Nat → Nat → Res Int
  | 0, _, _, _, _ => .error .fuel
  | fuel + 1, lhs, rhs, lsize, rsize =>
    cmpLoop fuel (Itr.init lhs) (Itr.init rhs) lsize rsize 0
end

end Rtosc.ArgVal
