/-
  Generic lemma: two topological orderings of the same duplicate-free set of
  partial steps give the same result when unrelated steps commute.
-/
namespace Rtosc.Save

/-- run partial steps left to right, stopping at the first failure -/
def runSteps {σ ι : Type} (step : ι → σ → Option σ) : List ι → σ → Option σ
  | [], s => some s
  | a :: r, s => (step a s).bind (runSteps step r)

theorem runSteps_append {σ ι : Type} (step : ι → σ → Option σ) (l₁ l₂ : List ι) (s : σ) :
    runSteps step (l₁ ++ l₂) s = (runSteps step l₁ s).bind (runSteps step l₂) := by
  induction l₁ generalizing s with
  | nil => simp [runSteps]
  | cons a r ih =>
    simp only [List.cons_append, runSteps]
    cases step a s with
    | none => rfl
    | some s' => simp [ih]

theorem runSteps_map {σ ι κ : Type} (step : ι → σ → Option σ) (f : κ → ι) (l : List κ) (s : σ) :
    runSteps step (l.map f) s = runSteps (fun k => step (f k)) l s := by
  induction l generalizing s with
  | nil => rfl
  | cons a r ih =>
    simp only [List.map_cons, runSteps]
    cases step (f a) s with
    | none => rfl
    | some s' => simp [ih]

/-- A step that commutes with every element of `pre` can be moved in front of `pre`. -/
theorem runSteps_move_front {σ ι : Type} (step : ι → σ → Option σ) (x : ι)
    (pre post : List ι)
    (hc : ∀ y, y ∈ pre → ∀ s, (step x s).bind (step y) = (step y s).bind (step x))
    (s : σ) :
    runSteps step (pre ++ x :: post) s = runSteps step (x :: (pre ++ post)) s := by
  induction pre generalizing s with
  | nil => rfl
  | cons y r ih =>
    have hy := hc y (List.mem_cons_self) s
    have ih' : ∀ s, runSteps step (r ++ x :: post) s = runSteps step (x :: (r ++ post)) s :=
      fun s => ih (fun z hz => hc z (List.mem_cons_of_mem _ hz)) s
    -- lhs: step y, then (r ++ x :: post);  rhs: step x, then step y, then r ++ post
    show (step y s).bind (runSteps step (r ++ x :: post))
        = (step x s).bind (runSteps step (y :: (r ++ post)))
    have e1 : (step y s).bind (runSteps step (r ++ x :: post))
        = ((step y s).bind (step x)).bind (runSteps step (r ++ post)) := by
      cases step y s with
      | none => rfl
      | some s' => simp only [Option.bind_some]; rw [ih' s']; rfl
    have e2 : (step x s).bind (runSteps step (y :: (r ++ post)))
        = ((step x s).bind (step y)).bind (runSteps step (r ++ post)) := by
      cases step x s with
      | none => rfl
      | some s' => rfl
    rw [e1, e2, hy]

/-- Two orderings of the same (duplicate-free) set of steps, both compatible with a
    "must precede" relation `lt` (no element stands before one that must precede it),
    give the same result, provided steps unrelated by `lt` commute. -/
theorem runSteps_topo_agree {σ ι : Type} (step : ι → σ → Option σ) (lt : ι → ι → Prop)
    (hcomm : ∀ a b, a ≠ b → ¬ lt a b → ¬ lt b a →
        ∀ s, (step a s).bind (step b) = (step b s).bind (step a))
    (l₁ l₂ : List ι) (hperm : l₁.Perm l₂) (hnd : l₁.Nodup)
    (h₁ : l₁.Pairwise (fun a b => ¬ lt b a)) (h₂ : l₂.Pairwise (fun a b => ¬ lt b a))
    (s : σ) : runSteps step l₁ s = runSteps step l₂ s := by
  induction l₁ generalizing l₂ s with
  | nil =>
    have : l₂ = [] := List.Perm.eq_nil hperm.symm
    subst this; rfl
  | cons x t ih =>
    have hx : x ∈ l₂ := hperm.subset List.mem_cons_self
    obtain ⟨pre, post, rfl⟩ := List.append_of_mem hx
    have hperm' : t.Perm (pre ++ post) :=
      (hperm.trans List.perm_middle).cons_inv
    have hxt : x ∉ t := (List.nodup_cons.mp hnd).1
    have hndt : t.Nodup := (List.nodup_cons.mp hnd).2
    have h₁x : ∀ y, y ∈ t → ¬ lt y x := (List.pairwise_cons.mp h₁).1
    have h₁t := (List.pairwise_cons.mp h₁).2
    have h₂' := List.pairwise_append.mp h₂
    have h₂pre := h₂'.1
    have h₂xpost := List.pairwise_cons.mp h₂'.2.1
    have h₂cross := h₂'.2.2
    have hpp : (pre ++ post).Pairwise (fun a b => ¬ lt b a) :=
      List.pairwise_append.mpr ⟨h₂pre, h₂xpost.2,
        fun a ha b hb => h₂cross a ha b (List.mem_cons_of_mem _ hb)⟩
    have hc : ∀ y, y ∈ pre → ∀ s, (step x s).bind (step y) = (step y s).bind (step x) := by
      intro y hy
      have hyt : y ∈ t := hperm'.symm.subset (List.mem_append_left _ hy)
      have hne : x ≠ y := fun e => hxt (e ▸ hyt)
      exact hcomm x y hne (h₂cross y hy x List.mem_cons_self) (h₁x y hyt)
    rw [runSteps_move_front step x pre post hc s]
    show (step x s).bind (runSteps step t) = (step x s).bind (runSteps step (pre ++ post))
    cases step x s with
    | none => rfl
    | some s' =>
      simp only [Option.bind_some]
      exact ih (pre ++ post) hperm' hndt h₁t hpp s'

end Rtosc.Save
