/-
  C10 — tier 3, compressed runs in context (1): segments, their texts, and the scanner.

  An argument list is cut into *segments* the way `rtosc_print_arg_vals` does it: a value printed
  as it is (`RSeg.tok`), `n` equal values printed as `nxT` (`RSeg.crun`), an int32 arithmetic run
  printed as `a ... z` or `a b ... z` (`RSeg.irun`).  What the printer writes for an arithmetic run,
  and what the scanner makes of it, depends on the value in front of it (`L`, the left neighbour):
  `shortForm L a d`.

  This file: the scanner's `llhsarg` lookup (`LookL`), `rtosc_scan_arg_val` on a range with any left
  context (`scanArgVal_ellG`), on `nxT` followed by more text (`scanArgVal_runG`), the loop of
  `rtosc_scan_arg_vals` over a text of segments (`scanLoop_segs`, `scanArgVals_segs`).
-/
import RtoscModel.Proofs.PrettyRunConst
import RtoscModel.Proofs.PrettyRunInt
set_option linter.unusedSimpArgs false
set_option linter.unusedVariables false
namespace Rtosc.Pretty
open Rtosc Rtosc.Libc
open Rtosc.ArgVal (Cell)

/-! ### segments -/

/-- a piece of an argument list as `rtosc_print_arg_vals` treats it -/
inductive RSeg
  | tok (c : Cell)                 -- a scalar value printed as it is
  | crun (n : Nat) (c : Cell)      -- `n` copies of a scalar value: `nxT`
  | irun (a d : Int) (n : Nat)     -- the int32 run `a, a+d, …, a+(n-1)d`: `a ... z` / `a b ... z`

/-- the last value of the run `a, a+d, …` of length `n` -/
def zOf (a d : Int) (n : Nat) : Int := a + ((n - 1 : Nat) : Int) * d

/-- the cells of the segment in the original argument list -/
def RSeg.cells : RSeg → List Cell
  | .tok c => [c]
  | .crun n c => List.replicate n c
  | .irun a d n => arithRun a d n

/-- the last original cell of the segment: the left neighbour of what follows -/
def RSeg.last : RSeg → Cell
  | .tok c => c
  | .crun _ c => c
  | .irun a d n => Cell.int .i (zOf a d n)

/-- `rtosc_print_range`: the previous value has the type of the range's first value and differs
    from it (then `a ... z` would be read with the delta `a - previous`) -/
def confusing (L : Option Cell) (a : Int) : Bool :=
  match L with
  | some (Cell.int .i p) => decide (p ≠ a)
  | _ => false

/-- the run is printed as `a ... z` (otherwise `a b ... z`) -/
def shortForm (L : Option Cell) (a d : Int) : Bool := (decide (d = 1) || decide (d = -1)) && !confusing L a

/-- the cells the scanner returns for the segment -/
def RSeg.scanned (L : Option Cell) : RSeg → List Cell
  | .tok c => [c]
  | .crun n c => [Cell.rep n 0, c]
  | .irun a d n =>
    if shortForm L a d then [Cell.rep n 1, Cell.int .i d, Cell.int .i a]
    else [Cell.int .i a, Cell.rep ((n : Int) - 1) 1, Cell.int .i d, Cell.int .i (a + d)]

/-- the number of arguments the scanner's and the checker's loops see in the segment -/
def RSeg.nargs (L : Option Cell) : RSeg → Nat
  | .irun a d _ => if shortForm L a d then 1 else 2
  | _ => 1

def scannedAll : Option Cell → List RSeg → List Cell
  | _, [] => []
  | L, s :: r => s.scanned L ++ scannedAll (some s.last) r

def nargsAll : Option Cell → List RSeg → Nat
  | _, [] => 0
  | L, s :: r => s.nargs L + nargsAll (some s.last) r

/-- the text of one segment behind the left neighbour `L` -/
inductive SegText (L : Option Cell) : RSeg → Bytes → Prop
  | tok (t : Bytes) (c : Cell) : TokOK t c → c.isScalar = true → SegText L (.tok c) t
  | crun (n : Nat) (t : Bytes) (c : Cell) : TokOK t c → c.isScalar = true → 1 ≤ n → n ≤ 2147483647 →
      SegText L (.crun n c) (runText n t)
  | short (a d : Int) (n : Nat) (sep : Bytes) : RunHyp a d n → shortForm L a d = true → IsSepTxt sep →
      SegText L (.irun a d n) (fmtDec a ++ ellRest sep (fmtDec (zOf a d n)))
  | long (a d : Int) (n : Nat) (sep : Bytes) : RunHyp a d n → shortForm L a d = false → IsSepTxt sep →
      SegText L (.irun a d n) (fmtDec a ++ ([32] ++ (fmtDec (a + d) ++ ellRest sep (fmtDec (zOf a d n)))))

/-- the text of a list of segments: segment texts separated by a blank or a line break -/
inductive SegsText : Option Cell → List RSeg → Bytes → Prop
  | nil (L : Option Cell) : SegsText L [] []
  | cons (L : Option Cell) (s : RSeg) (segs : List RSeg) (T sep text : Bytes) :
      SegText L s T → SegsText (some s.last) segs text → (segs = [] → sep = []) → (segs ≠ [] → IsSepTxt sep) →
      SegsText L (s :: segs) (T ++ (sep ++ text))

/-- what follows a segment text: nothing, or a separator and the next token -/
def Tail (sep text : Bytes) : Prop := (sep = [] ∧ text = []) ∨ (IsSepTxt sep ∧ TokStart text)

theorem RunHyp.r0 {a d : Int} {n : Nat} (h : RunHyp a d n) : -2147483648 ≤ a ∧ a ≤ 2147483647 := by
  have := h.hrange 0 (by have := h.hn; omega)
  simpa using this

theorem RunHyp.r1 {a d : Int} {n : Nat} (h : RunHyp a d n) : -2147483648 ≤ a + d ∧ a + d ≤ 2147483647 := by
  have := h.hrange 1 (by have := h.hn; omega)
  simpa using this

theorem RunHyp.rz {a d : Int} {n : Nat} (h : RunHyp a d n) : -2147483648 ≤ zOf a d n ∧ zOf a d n ≤ 2147483647 :=
  h.hrange (n - 1) (by omega)

theorem SegText.start {L : Option Cell} {s : RSeg} {T : Bytes} (h : SegText L s T) : TokStart T := by
  cases h with
  | tok t c ht _ => exact ht.start
  | crun n t c ht _ hn _ => exact tokStart_run n hn t
  | short a d n sep h _ _ => exact tokStart_append_ri _ _ (tokStart_fmtDec a h.r0.1 h.r0.2)
  | long a d n sep h _ _ => exact tokStart_append_ri _ _ (tokStart_fmtDec a h.r0.1 h.r0.2)

theorem SegsText.start {L : Option Cell} {segs : List RSeg} {text : Bytes} (h : SegsText L segs text) (hne : segs ≠ []) :
    TokStart text := by
  cases h with
  | nil => exact absurd rfl hne
  | cons L s segs T sep text hT _ _ _ => exact tokStart_append_ri _ _ hT.start

theorem SegsText.tail {L : Option Cell} {segs : List RSeg} {text sep : Bytes} (h : SegsText L segs text)
    (h1 : segs = [] → sep = []) (h2 : segs ≠ [] → IsSepTxt sep) : Tail sep text := by
  by_cases hne : segs = []
  · subst hne
    cases h
    exact Or.inl ⟨h1 rfl, rfl⟩
  · exact Or.inr ⟨h2 hne, h.start hne⟩

theorem Tail.sep {sep text : Bytes} (h : Tail sep text) : Sep (sep ++ text) := by
  rcases h with ⟨rfl, rfl⟩ | ⟨h1, h2⟩
  · exact sep_nil
  · exact sep_of_next sep text h1 h2

theorem Tail.skip {sep text : Bytes} (h : Tail sep text) (fuel : Nat) :
    skipSpaceComments (fuel + 1) (sep ++ text) = .ok sep.length := by
  rcases h with ⟨rfl, rfl⟩ | ⟨h1, h2⟩
  · exact skipSpaceComments_nil fuel
  · exact skipSpaceComments_sep fuel sep text h1 h2

/-! ### the scanner's look-back -/

/-- `arg[-3]` is the header of a range with a delta -/
def isDeltaHdr (o : Option Cell) : Bool :=
  match o with
  | some (.rep _ hdl) => decide (hdl ≠ 0)
  | _ => false

/-- the `match` in `finishArg` (the auxiliary matcher of Pretty/Scan.lean) is `isDeltaHdr` -/
theorem finishArg_match1 (o : Option Cell) :
    finishArg.match_1 (fun _ => Bool) o (fun _ hdl => decide (hdl ≠ 0)) (fun _ => false) = isDeltaHdr o := by
  unfold isDeltaHdr
  cases o with
  | none => rfl
  | some c => cases c <;> rfl

theorem isDeltaHdr_scalar (c : Cell) (h : c.isScalar = true) : isDeltaHdr (some c) = false := by
  cases c <;> simp_all [isDeltaHdr, ArgVal.Cell.isScalar]

theorem rangeArgF_int (hdr : Cell) (d a k : Int) (more : List Cell) :
    C11.rangeArgF (hdr :: Cell.int .i d :: Cell.int .i a :: more) k =
      .ok (some (Cell.int .i (toI32 (a + toI32 (k * d))))) := by
  simp [C11.rangeArgF, C11.fromIntF, fromInt, C11.multF, multAV_int, C11.addF, addAV_int, bind, Except.bind]

/-- how the scanner finds the value left of a range (`llhsarg`): `prev` are the cells written so
    far, most recent first, `ab` is `args_before` -/
inductive LookL : List Cell → Nat → Option Cell → Prop
  | zero (prev : List Cell) : LookL prev 0 none
  | head (prev : List Cell) (ab : Nat) (c : Cell) : 0 < ab → prev.head? = some c →
      (decide (ab > 2) && isDeltaHdr (prev.drop 2).head?) = false → LookL prev ab (some c)
  | range (s d num : Int) (more : List Cell) (ab : Nat) (v : Int) : 2 < ab → v = toI32 (s + toI32 ((num - 1) * d)) →
      LookL (Cell.int .i s :: Cell.int .i d :: Cell.rep num 1 :: more) ab (some (Cell.int .i v))

/-- is the left neighbour useless for the delta of a range that starts with the int32 `x`? -/
def UselessFor (L : Option Cell) (x : Int) (useless : Bool) : Prop :=
  match L with
  | none => useless = true
  | some c => (typesMatch c.type 105 = false ∧ useless = true) ∨ (∃ p, c = Cell.int .i p ∧ useless = decide (p = x))

theorem delta_llhs_irrel (ll : Option Cell) (lhs : Cell) (rhs : Option Cell) :
    deltaFromArgVals ll lhs rhs true = deltaFromArgVals none lhs rhs true := by
  unfold deltaFromArgVals
  simp

theorem ellRest_factsG (sep Z rest : Bytes) (hsep : IsSepTxt sep) (hZ : TokStart Z) :
    SepW (ellRest sep (Z ++ rest)) ∧ skipSpace (ellRest sep (Z ++ rest)) = [46, 46, 46] ++ (sep ++ (Z ++ rest)) ∧
    skipSpace (sep ++ (Z ++ rest)) = Z ++ rest :=
  ellRest_facts sep (Z ++ rest) hsep (tokStart_append_ri _ _ hZ)

theorem type_int_i (v : Int) : (Cell.int ArgVal.IntTy.i v).type = 105 := rfl

theorem cmp3_self (x : Int) : ArgVal.cmp3 x x = 0 := by
  unfold ArgVal.cmp3; simp

theorem ellRest_append (sep Z rest : Bytes) : ellRest sep Z ++ rest = ellRest sep (Z ++ rest) := by
  simp [ellRest]

/-- **`rtosc_scan_arg_val` on `x ... z`** followed by more text, behind any cells: the range block
    with the delta `delta_from_arg_vals` computes from the left neighbour the look-back finds -/
theorem scanArgVal_ellG (f : Nat) (x z : Int) (hx1 : -2147483648 ≤ x) (hx2 : x ≤ 2147483647)
    (hz1 : -2147483648 ≤ z) (hz2 : z ≤ 2147483647) (sep : Bytes) (hsep : IsSepTxt sep) (rest : Bytes) (hrest : SepW rest)
    (prev : List Cell) (ab : Nat) (L : Option Cell) (hL : LookL prev ab L) (useless : Bool) (hu : UselessFor L x useless)
    (num : Int) (dl : Cell)
    (hdelta : deltaFromArgVals (if useless then none else L) (Cell.int .i x) (some (Cell.int .i z)) useless = .ok (num, dl)) :
    scanArgVal (f + 2) (fmtDec x ++ ellRest sep (fmtDec z ++ rest)) prev ab true =
      .ok ((fmtDec x ++ ellRest sep (fmtDec z)).length, [Cell.rep num 1, dl, Cell.int .i x]) := by
  obtain ⟨hW, hsk1, hsk2⟩ := ellRest_factsG sep (fmtDec z) rest hsep (tokStart_fmtDec z hz1 hz2)
  have hrhs := scanArgVal_int_noell f z hz1 hz2 rest hrest [] 0
  have h93 : hd (fmtDec z ++ rest) ≠ 93 := (tokStart_append_ri _ rest (tokStart_fmtDec z hz1 hz2)).2.2.2.2.2.2.2
  have hlen2 : (fmtDec x).length + (ellRest sep (fmtDec z ++ rest)).length - rest.length =
      (fmtDec x).length + (ellRest sep (fmtDec z)).length := by
    simp only [ellRest, List.length_append, List.length_cons, List.length_nil]; omega
  unfold scanArgVal
  simp only [scanValue_intW _ x hx1 hx2 _ hW, bind, Except.bind]
  unfold finishArg
  cases hL with
  | zero =>
    have hu' : useless = true := hu
    subst hu'
    simp only [↓reduceIte] at hdelta
    simp only [hsk1, startsWith, List.cons_append, List.nil_append, List.isPrefixOf, BEq.rfl, Bool.and_self, and_self,
      ↓reduceIte, Bool.not_true, Bool.false_eq_true, deref, bind, Except.bind, List.drop_succ_cons, List.drop_zero,
      hsk2, h93, decide_false, pure, Except.pure, hrhs, advance, List.length_append, Nat.le_add_right, List.drop_left',
      gt_iff_lt, Nat.not_lt_zero, Bool.false_and, Nat.zero_lt_one, delta_llhs_irrel, hdelta,
      type_int_i, show numericRangeTypes.contains (105 : UInt8) = true from by decide]
    simp [hlen2]
  | head _ _ c hab hhead hcond =>
    have hab1 : ¬ (ab < 1) := by omega
    rcases hu with ⟨hty, rfl⟩ | ⟨p, rfl, rfl⟩
    · simp only [↓reduceIte] at hdelta
      simp only [hsk1, startsWith, List.cons_append, List.nil_append, List.isPrefixOf, BEq.rfl, Bool.and_self, and_self,
        ↓reduceIte, Bool.not_true, Bool.false_eq_true, deref, bind, Except.bind, List.drop_succ_cons, List.drop_zero,
        hsk2, h93, decide_false, pure, Except.pure, hrhs, advance, List.length_append, Nat.le_add_right, List.drop_left',
        finishArg_match1, hcond, hhead, hab1, hty, delta_llhs_irrel, hdelta, ArgVal.tyRange,
        type_int_i, show ((105 : UInt8) = 45) = False from by decide,
        show numericRangeTypes.contains (105 : UInt8) = true from by decide]
      simp [hlen2]
    · by_cases hpx : p = x
      · subst hpx
        simp only [decide_true, ↓reduceIte] at hdelta
        simp only [hsk1, startsWith, List.cons_append, List.nil_append, List.isPrefixOf, BEq.rfl, Bool.and_self, and_self,
          ↓reduceIte, Bool.not_true, Bool.false_eq_true, deref, bind, Except.bind, List.drop_succ_cons, List.drop_zero,
          hsk2, h93, decide_false, pure, Except.pure, hrhs, advance, List.length_append, Nat.le_add_right, List.drop_left',
          finishArg_match1, hcond, hhead, hab1, delta_llhs_irrel, hdelta, ArgVal.tyRange,
          type_int_i, show ((105 : UInt8) = 45) = False from by decide, show typesMatch 105 105 = true from by decide,
          cmpCell_int, cmp3_self, decide_true,
          show numericRangeTypes.contains (105 : UInt8) = true from by decide]
        simp [hlen2]
      · have hc0 := cmp3_ne p x hpx
        simp only [hpx, decide_false, Bool.false_eq_true, ↓reduceIte] at hdelta
        simp only [hsk1, startsWith, List.cons_append, List.nil_append, List.isPrefixOf, BEq.rfl, Bool.and_self, and_self,
          ↓reduceIte, Bool.not_true, Bool.false_eq_true, deref, bind, Except.bind, List.drop_succ_cons, List.drop_zero,
          hsk2, h93, decide_false, pure, Except.pure, hrhs, advance, List.length_append, Nat.le_add_right, List.drop_left',
          finishArg_match1, hcond, hhead, hab1, hdelta, ArgVal.tyRange,
          type_int_i, show ((105 : UInt8) = 45) = False from by decide, show typesMatch 105 105 = true from by decide,
          cmpCell_int, hc0,
          show numericRangeTypes.contains (105 : UInt8) = true from by decide]
        simp [hlen2]
  | range s d num' more _ v hab hv =>
    have hab1 : ¬ (ab < 1) := by omega
    have hab2 : ab > 2 := hab
    rcases hu with ⟨hty, rfl⟩ | ⟨p, hp, rfl⟩
    · simp [typesMatch, type_int_i] at hty
    · cases hp
      subst hv
      by_cases hpx : toI32 (s + toI32 ((num' - 1) * d)) = x
      · simp only [hpx, decide_true, ↓reduceIte] at hdelta
        simp only [hsk1, startsWith, List.cons_append, List.nil_append, List.isPrefixOf, BEq.rfl, Bool.and_self, and_self,
          ↓reduceIte, Bool.not_true, Bool.false_eq_true, deref, bind, Except.bind, List.drop_succ_cons, List.drop_zero,
          hsk2, h93, decide_false, pure, Except.pure, hrhs, advance, List.length_append, Nat.le_add_right, List.drop_left',
          finishArg_match1, isDeltaHdr, List.head?_cons, hab2, decide_true, Bool.and_self, hab1, delta_llhs_irrel, hdelta, ArgVal.tyRange,
          List.headD_cons, List.getD_cons_succ, List.getD_cons_zero, rangeArgF_int, hpx, ne_eq, Int.one_ne_zero, not_false_eq_true,
          type_int_i, show ((105 : UInt8) = 45) = False from by decide, show typesMatch 105 105 = true from by decide,
          cmpCell_int, cmp3_self, decide_true,
          show numericRangeTypes.contains (105 : UInt8) = true from by decide]
        simp [hlen2]
      · have hc0 := cmp3_ne _ x hpx
        simp only [hpx, decide_false, Bool.false_eq_true, ↓reduceIte] at hdelta
        simp only [hsk1, startsWith, List.cons_append, List.nil_append, List.isPrefixOf, BEq.rfl, Bool.and_self, and_self,
          ↓reduceIte, Bool.not_true, Bool.false_eq_true, deref, bind, Except.bind, List.drop_succ_cons, List.drop_zero,
          hsk2, h93, decide_false, pure, Except.pure, hrhs, advance, List.length_append, Nat.le_add_right, List.drop_left',
          finishArg_match1, isDeltaHdr, List.head?_cons, hab2, decide_true, Bool.and_self, hab1, hdelta, ArgVal.tyRange,
          List.headD_cons, List.getD_cons_succ, List.getD_cons_zero, rangeArgF_int, ne_eq, Int.one_ne_zero, not_false_eq_true,
          type_int_i, show ((105 : UInt8) = 45) = False from by decide, show typesMatch 105 105 = true from by decide,
          cmpCell_int, hc0,
          show numericRangeTypes.contains (105 : UInt8) = true from by decide]
        simp [hlen2]

/-! ### `nxT` followed by more text -/

theorem scanMultiplier_runG (se : ElemScanner) (n : Nat) (hn : 1 ≤ n) (hn2 : n ≤ 2147483647) (t rest : Bytes) (c : Cell)
    (hse : se (t ++ rest) [] 0 false = .ok (t.length, [c])) :
    scanMultiplier se (fmtDec (n : Int) ++ 120 :: (t ++ rest)) = .ok ⟨rest, [Cell.rep n 0, c], false⟩ := by
  unfold scanMultiplier
  simp only [sscanf_fmtMult n hn hn2 (t ++ rest), bind, Except.bind, pure, Except.pure, drop_mult, hse, advance,
    List.length_append, Nat.le_add_right, ↓reduceIte, List.drop_left', toI32_id (n : Int) (by omega) (by omega)]

theorem runText_append (n : Nat) (t rest : Bytes) : runText n t ++ rest = fmtDec (n : Int) ++ 120 :: (t ++ rest) := by
  simp [runText]

theorem scanArgVal_runG (n : Nat) (hn : 1 ≤ n) (hn2 : n ≤ 2147483647) (t : Bytes) (c : Cell) (htok : TokOK t c)
    (fuel : Nat) (prev : List Cell) (ab : Nat) (rest : Bytes) (hrest : Sep rest) :
    scanArgVal (fuel + 2) (runText n t ++ rest) prev ab true = .ok ((runText n t).length, [Cell.rep n 0, c]) := by
  have hse : scanArgVal (fuel + 1) (t ++ rest) [] 0 false = .ok (t.length, [c]) := by
    apply scanArgVal_noEllipsis
    exact htok.scan rest fuel [] 0 hrest
  have hfin := finishArg_plain (scanArgVal (fuel + 1)) (runText n t) rest [Cell.rep n 0, c] false prev ab true hrest
  unfold scanArgVal
  rw [runText_append] at hfin ⊢
  rw [scanValue_mult _ _ _ (hd_mult n hn (t ++ rest)) (isRangeMultiplier_mult n hn (t ++ rest)),
    scanMultiplier_runG _ n hn hn2 t rest c hse]
  simp only [bind, Except.bind]
  exact hfin

/-! ### the invariant of the scanner's loop between two segments -/

/-- what the scanner knows behind the cells `done`: its look-back finds the left neighbour `L`,
    and the last two cells are no range headers with a delta -/
structure ScanInv (L : Option Cell) (done : List Cell) (pok : Bool) : Prop where
  look : LookL done.reverse (if pok then done.length else 0) L
  t1 : isDeltaHdr done.reverse.head? = false
  t2 : isDeltaHdr (done.reverse.drop 1).head? = false

theorem scanInv_start : ScanInv none [] true := by
  refine ⟨?_, rfl, rfl⟩
  simp only [List.length_nil, ite_self]
  exact LookL.zero _

theorem scanInv_tok {L : Option Cell} {done : List Cell} {pok : Bool} (h : ScanInv L done pok) (c : Cell)
    (hsc : c.isScalar = true) : ScanInv (some c) (done ++ [c]) true := by
  refine ⟨?_, ?_, ?_⟩
  · simp only [↓reduceIte, List.reverse_append, List.reverse_cons, List.reverse_nil, List.nil_append,
      List.singleton_append]
    refine LookL.head _ _ c (by simp) rfl ?_
    simp only [List.drop_succ_cons, h.t2, Bool.and_false]
  · simpa using isDeltaHdr_scalar c hsc
  · simpa using h.t1

theorem scanInv_crun {L : Option Cell} {done : List Cell} {pok : Bool} (h : ScanInv L done pok) (n : Int) (c : Cell)
    (hsc : c.isScalar = true) : ScanInv (some c) (done ++ [Cell.rep n 0, c]) true := by
  refine ⟨?_, ?_, ?_⟩
  · simp only [↓reduceIte, List.reverse_append, List.reverse_cons, List.reverse_nil, List.nil_append,
      List.cons_append]
    refine LookL.head _ _ c (by simp) rfl ?_
    simp only [List.drop_succ_cons, List.drop_zero, h.t1, Bool.and_false]
  · simpa using isDeltaHdr_scalar c hsc
  · simp [isDeltaHdr]

theorem scanInv_range {L : Option Cell} {done : List Cell} {pok : Bool} (h : ScanInv L done pok) (num s d v : Int)
    (hv : v = toI32 (s + toI32 ((num - 1) * d))) :
    ScanInv (some (Cell.int .i v)) (done ++ [Cell.rep num 1, Cell.int .i d, Cell.int .i s]) true := by
  refine ⟨?_, ?_, ?_⟩
  · simp only [↓reduceIte, List.reverse_append, List.reverse_cons, List.reverse_nil, List.nil_append,
      List.cons_append]
    exact LookL.range s d num _ _ v (by simp) hv
  · simp [isDeltaHdr]
  · simp [isDeltaHdr]

/-! ### one segment in the scanner's loop -/

theorem typesMatch_105 (c : Cell) (h : typesMatch c.type 105 = true) : ∃ p, c = Cell.int .i p := by
  cases c with
  | int ty v =>
    cases ty with
    | i => exact ⟨v, rfl⟩
    | c => simp [typesMatch, ArgVal.Cell.type, ArgVal.IntTy.char] at h
    | r => simp [typesMatch, ArgVal.Cell.type, ArgVal.IntTy.char] at h
  | str ty s => cases ty <;> simp [typesMatch, ArgVal.Cell.type, ArgVal.StrTy.char] at h
  | flag ty => cases ty <;> simp [typesMatch, ArgVal.Cell.type, ArgVal.FlagTy.char] at h
  | _ => simp [typesMatch, ArgVal.Cell.type, ArgVal.tyA, ArgVal.tyRange] at h

/-- the printer's "not confusing" is the scanner's "useless" -/
theorem uselessFor_of_not_confusing (L : Option Cell) (a : Int) (h : confusing L a = false) : UselessFor L a true := by
  cases L with
  | none => rfl
  | some c =>
    by_cases ht : typesMatch c.type 105 = true
    · obtain ⟨p, rfl⟩ := typesMatch_105 c ht
      right
      refine ⟨p, rfl, ?_⟩
      simp only [confusing, ne_eq, decide_not, Bool.not_eq_false', decide_eq_true_eq] at h
      simp [h]
    · left
      exact ⟨by simpa using ht, rfl⟩

theorem shortForm_unit {L : Option Cell} {a d : Int} (h : shortForm L a d = true) :
    (d = 1 ∨ d = -1) ∧ confusing L a = false := by
  simp only [shortForm, Bool.and_eq_true, Bool.or_eq_true, decide_eq_true_eq, Bool.not_eq_true'] at h
  exact h

theorem zOf_toI32 {a d : Int} {n : Nat} (h : RunHyp a d n) :
    toI32 (a + toI32 (((n : Int) - 1) * d)) = zOf a d n := by
  have hn := h.hn
  have hm := h.mul (n - 1) (by omega)
  have hz := h.rz
  have e : (n : Int) - 1 = ((n - 1 : Nat) : Int) := by omega
  unfold zOf at *
  have e1 : toI32 (((n - 1 : Nat) : Int) * d) = ((n - 1 : Nat) : Int) * d := toI32_id _ (by omega) (by omega)
  rw [e, e1, toI32_id _ hz.1 hz.2]

theorem zOf_toI32_long {a d : Int} {n : Nat} (h : RunHyp a d n) :
    toI32 (a + d + toI32 (((n : Int) - 1 - 1) * d)) = zOf a d n := by
  have hn := h.hn
  have hm := h.mul (n - 2) (by omega)
  have hz := h.rz
  have e : (n : Int) - 1 - 1 = ((n - 2 : Nat) : Int) := by omega
  have e2 : ((n - 1 : Nat) : Int) * d = ((n - 2 : Nat) : Int) * d + d := by
    rw [show n - 1 = (n - 2) + 1 from by omega]; exact succ_mul' _ _
  unfold zOf at *
  have e1 : toI32 (((n - 2 : Nat) : Int) * d) = ((n - 2 : Nat) : Int) * d := toI32_id _ (by omega) (by omega)
  rw [e, e1, toI32_id _ (by omega) (by omega)]
  omega

theorem nextArgOffset_rep0 (n : Int) (c : Cell) (hsc : c.isScalar = true) :
    nextArgOffset 3 [Cell.rep n 0, c] = .ok 2 := by
  unfold nextArgOffset
  simp only [deref, bind, Except.bind, List.drop_succ_cons, List.drop_zero]
  rw [nextArgOffset_scalar 1 c [] hsc]
  rfl

/-- one argument of the loop of `rtosc_scan_arg_vals`, given what `rtosc_scan_arg_val` returns -/
theorem scanLoop_one (T sep text : Bytes) (cells : List Cell) (htail : Tail sep text) (f n : Nat) (done : List Cell)
    (pok : Bool) (rd : Nat) (hn : done.length < n)
    (hscan : scanArgVal ((T ++ (sep ++ text)).length + 2) (T ++ (sep ++ text)) done.reverse
      (if pok then done.length else 0) true = .ok (T.length, cells))
    (hcpr : canPrecedeRange cells = .ok true)
    (hnao : nextArgOffset (cells.length + 1) cells = .ok cells.length) :
    scanArgValsLoop (f + 1) (T ++ (sep ++ text)) n done.length pok done rd =
      scanArgValsLoop f text n (done ++ cells).length true (done ++ cells) (rd + T.length + sep.length) := by
  have hadv : advance (T ++ (sep ++ text)) T.length = .ok (sep ++ text) := by simp [advance]
  rw [scanArgValsLoop]
  simp only [hn, ↓reduceIte, hscan, bind, Except.bind, hcpr, hadv, hnao, ne_eq, not_true_eq_false,
    htail.skip, List.drop_left']
  simp only [List.length_append]

/-- **one segment in the loop of `rtosc_scan_arg_vals`** -/
theorem scanLoop_seg {L : Option Cell} {s : RSeg} {T : Bytes} (hT : SegText L s T) {done : List Cell} {pok : Bool}
    (hinv : ScanInv L done pok) (sep text : Bytes) (htail : Tail sep text) (f n rd : Nat)
    (hn : done.length + (s.scanned L).length ≤ n) :
    scanArgValsLoop (f + s.nargs L) (T ++ (sep ++ text)) n done.length pok done rd =
      scanArgValsLoop f text n (done ++ s.scanned L).length true (done ++ s.scanned L) (rd + T.length + sep.length) ∧
    ScanInv (some s.last) (done ++ s.scanned L) true := by
  have hS := htail.sep
  cases hT with
  | tok t c ht hsc =>
    simp only [RSeg.scanned, RSeg.nargs, RSeg.last, List.length_singleton] at hn ⊢
    refine ⟨?_, scanInv_tok hinv c hsc⟩
    exact scanLoop_one _ sep text [c] htail f n done pok rd (by omega)
      (ht.scan (sep ++ text) _ _ _ hS) (canPrecedeRange_scalar c [] hsc) (nextArgOffset_scalar _ c [] hsc)
  | crun m t c ht hsc hm1 hm2 =>
    simp only [RSeg.scanned, RSeg.nargs, RSeg.last, List.length_cons, List.length_nil] at hn ⊢
    refine ⟨?_, scanInv_crun hinv m c hsc⟩
    exact scanLoop_one (runText m t) sep text [Cell.rep m 0, c] htail f n done pok rd (by omega)
      (scanArgVal_runG m hm1 hm2 t c ht _ _ _ (sep ++ text) hS) (canPrecedeRange_rep_scalar _ c [] hsc)
      (nextArgOffset_rep0 _ c hsc)
  | short a d m sp h hsf hsp =>
    obtain ⟨hu, hnc⟩ := shortForm_unit hsf
    simp only [RSeg.scanned, RSeg.nargs, RSeg.last, hsf, ↓reduceIte, List.length_cons, List.length_nil] at hn ⊢
    refine ⟨?_, scanInv_range hinv m a d _ (zOf_toI32 h).symm⟩
    have hscan := scanArgVal_ellG ((fmtDec a ++ (ellRest sp (fmtDec (zOf a d m)) ++ (sep ++ text))).length) a (zOf a d m)
      h.r0.1 h.r0.2 h.rz.1 h.rz.2 sp hsp (sep ++ text) hS.toW done.reverse (if pok then done.length else 0) L hinv.look
      true (uselessFor_of_not_confusing L a hnc) m (Cell.int .i d) (by simpa [zOf] using delta_run_unit h hu)
    rw [← ellRest_append, ← List.append_assoc] at hscan
    exact scanLoop_one _ sep text _ htail f n done pok rd (by omega)
      (by simpa [List.append_assoc] using hscan) (canPrecedeRange_delta _ _)
      (nextArgOffset_range _ _ _ rfl)
  | long a d m sp h hsf hsp =>
    simp only [RSeg.scanned, RSeg.nargs, RSeg.last, hsf, Bool.false_eq_true, ↓reduceIte, List.length_cons,
      List.length_nil] at hn ⊢
    have hinv1 := scanInv_tok hinv (Cell.int .i a) rfl
    have hne : a ≠ a + d := by have := h.hd; omega
    have hinv2 := scanInv_range hinv1 ((m : Int) - 1) (a + d) d _ (zOf_toI32_long h).symm
    refine ⟨?_, by simpa [List.append_assoc] using hinv2⟩
    -- first argument: the token `a`
    have hstart2 : TokStart (fmtDec (a + d) ++ ellRest sp (fmtDec (zOf a d m)) ++ (sep ++ text)) := by
      rw [List.append_assoc]; exact tokStart_append_ri _ _ (tokStart_fmtDec _ h.r1.1 h.r1.2)
    have htail1 : Tail [32] (fmtDec (a + d) ++ ellRest sp (fmtDec (zOf a d m)) ++ (sep ++ text)) :=
      Or.inr ⟨Or.inl rfl, hstart2⟩
    have h1 := scanLoop_one (fmtDec a) [32] (fmtDec (a + d) ++ ellRest sp (fmtDec (zOf a d m)) ++ (sep ++ text))
      [Cell.int .i a] htail1 (f + 1) n done pok rd (by omega)
      ((tokOK_int a h.r0.1 h.r0.2).scan _ _ _ _ htail1.sep) (canPrecedeRange_scalar _ [] rfl)
      (nextArgOffset_scalar _ _ [] rfl)
    simp only [List.length_singleton] at h1
    -- second argument: the range `b ... z`
    have hscan := scanArgVal_ellG
      ((fmtDec (a + d) ++ (ellRest sp (fmtDec (zOf a d m)) ++ (sep ++ text))).length) (a + d) (zOf a d m)
      h.r1.1 h.r1.2 h.rz.1 h.rz.2 sp hsp (sep ++ text) hS.toW (done ++ [Cell.int .i a]).reverse
      (if true then (done ++ [Cell.int .i a]).length else 0) _ hinv1.look
      false (Or.inr ⟨a, rfl, by simp [hne]⟩) ((m : Int) - 1) (Cell.int .i d)
      (by simpa [zOf] using delta_run_step h)
    rw [← ellRest_append, ← List.append_assoc] at hscan
    have h2 := scanLoop_one (fmtDec (a + d) ++ ellRest sp (fmtDec (zOf a d m))) sep text
      [Cell.rep ((m : Int) - 1) 1, Cell.int .i d, Cell.int .i (a + d)] htail f n (done ++ [Cell.int .i a]) true
      (rd + (fmtDec a).length + 1) (by simp only [List.length_append, List.length_singleton]; omega)
      (by simpa [List.append_assoc] using hscan) (canPrecedeRange_delta _ _) (nextArgOffset_range _ _ _ rfl)
    have e : fmtDec a ++ ([32] ++ (fmtDec (a + d) ++ ellRest sp (fmtDec (zOf a d m)))) ++ (sep ++ text) =
        fmtDec a ++ ([32] ++ (fmtDec (a + d) ++ ellRest sp (fmtDec (zOf a d m)) ++ (sep ++ text))) := by
      simp [List.append_assoc]
    rw [e, show f + 2 = (f + 1) + 1 from rfl, h1, h2]
    simp only [List.append_assoc, List.singleton_append, List.length_append, List.length_cons, List.length_nil]
    congr 1
    omega

/-! ### a text of segments -/

theorem scannedAll_nargs_le (L : Option Cell) (segs : List RSeg) : nargsAll L segs ≤ (scannedAll L segs).length := by
  induction segs generalizing L with
  | nil => simp [nargsAll, scannedAll]
  | cons s r ih =>
    have := ih (some s.last)
    have h1 : s.nargs L ≤ (s.scanned L).length := by
      cases s with
      | tok c => simp [RSeg.nargs, RSeg.scanned]
      | crun n c => simp [RSeg.nargs, RSeg.scanned]
      | irun a d n => by_cases hs : shortForm L a d = true <;> simp [RSeg.nargs, RSeg.scanned, hs]
    simp only [nargsAll, scannedAll, List.length_append]
    omega

/-- the loop of `rtosc_scan_arg_vals` reads a text of segments back as their scanned cells -/
theorem scanLoop_segs {L : Option Cell} {segs : List RSeg} {text : Bytes} (h : SegsText L segs text) :
    ∀ (f n : Nat) (done : List Cell) (pok : Bool) (rd : Nat), ScanInv L done pok →
      n = done.length + (scannedAll L segs).length → nargsAll L segs + 1 ≤ f →
      scanArgValsLoop f text n done.length pok done rd = .ok (rd + text.length, done ++ scannedAll L segs) := by
  induction h with
  | nil L =>
    intro f n done pok rd _ hn hf
    obtain ⟨g, rfl⟩ : ∃ g, f = g + 1 := ⟨f - 1, by omega⟩
    simp only [scannedAll, List.length_nil, Nat.add_zero] at hn
    rw [scanArgValsLoop]
    simp [hn, pure, Except.pure, scannedAll]
  | cons L s segs T sep text hT hrest h1 h2 ih =>
    intro f n done pok rd hinv hn hf
    have htail := hrest.tail h1 h2
    simp only [scannedAll, nargsAll, List.length_append] at hn hf
    obtain ⟨g, rfl⟩ : ∃ g, f = g + s.nargs L := ⟨f - s.nargs L, by omega⟩
    obtain ⟨hstep, hinv'⟩ := scanLoop_seg hT hinv sep text htail g n rd (by omega)
    rw [hstep, ih g n _ true _ hinv' (by simp only [List.length_append]; omega) (by omega)]
    simp only [scannedAll, List.length_append, List.append_assoc]
    congr 2
    omega

/-- **`rtosc_scan_arg_vals` on a text of segments** -/
theorem scanArgVals_segs {segs : List RSeg} {text : Bytes} (h : SegsText none segs text) :
    scanArgVals text (scannedAll none segs).length = .ok (text.length, scannedAll none segs) := by
  unfold scanArgVals
  have hsk : skipSpaceComments (text.length + 1) text = .ok 0 := by
    by_cases hne : segs = []
    · subst hne; cases h; exact skipSpaceComments_nil _
    · exact skipSpaceComments_tokStart _ text (h.start hne)
  have := scanLoop_segs h ((scannedAll none segs).length + 1) (scannedAll none segs).length [] true 0 scanInv_start
    (by simp) (by have := scannedAll_nargs_le none segs; omega)
  simpa [hsk, bind, Except.bind] using this

end Rtosc.Pretty
