/-
  C09 helper lemmas, part 9: the tree type of this property embedded into C04's model of
  `Ports::dispatch` (RtoscModel/Ports/{Tree,Dispatch,Spec}.lean).

  `toTable (toPorts ts)` is the `Ports` object C04's `dispatch` runs on (every port with a
  sub-table has the recursion callback of port-sugar.h: one `SNIP`, then the sub-table's
  `dispatch`; no default handlers); `toPTable ts` the same table with structured names, for
  which C04's theorems speak (`toPTable_render`).  C04's well-formedness asks for sub-tree names
  of one path component (`SNIP` cuts exactly one) and for non-empty names: `PortsFlat`.

  `ans_list` / `ans_tree`: for a pair of `enumerate` and a type string admitted along the path,
  C04's specification `Answers` holds exactly of the callbacks of the ports on the index path.
-/
import RtoscModel.Proofs.WalkSim
import RtoscModel.Props.C04
namespace Rtosc.Walk
open Rtosc Rtosc.Path Rtosc.Match

mutual
/-- the `Ports` object of C04's dispatch model for a table of this property -/
def toTable : List PortT → Ports.Table
  | [] => .nil
  | p :: r => rowTable p (toTable r)
def rowTable : PortT → Ports.Table → Ports.Table
  | .mk name _ hasPorts cs, rest => if hasPorts then .node name (toTable cs) false rest else .leaf name rest
end

mutual
/-- the same table with C05's structured names -/
def toPTable : List STree → Ports.PTable
  | [] => .nil
  | t :: r => rowPTable t (toPTable r)
def rowPTable : STree → Ports.PTable → Ports.PTable
  | .leaf w _, rest => .leaf w.toPat rest
  | .sub w _ kids, rest => .node w.toPat (toPTable kids) false rest
end

theorem toPat_render (w : WName) : w.toPat.render = w.render := by
  have := toPat_cstr w
  simp only [Pat.cstr] at this
  exact List.append_cancel_right this

mutual
theorem toPTable_render : ∀ (ts : List STree), (toPTable ts).render = toTable (toPorts ts)
  | [] => by simp [toPTable, toPorts, toTable, Ports.PTable.render]
  | t :: r => by
    simp only [toPTable, toPorts, toTable]
    exact rowPTable_render t (toPTable r) (toTable (toPorts r)) (toPTable_render r)
theorem rowPTable_render : ∀ (t : STree) (rest : Ports.PTable) (rest' : Ports.Table), rest.render = rest' →
    (rowPTable t rest).render = rowTable t.toPort rest'
  | .leaf w md, rest, rest', h => by
    simp [rowPTable, STree.toPort, rowTable, Ports.PTable.render, toPat_render, h]
  | .sub w md kids, rest, rest', h => by
    simp [rowPTable, STree.toPort, rowTable, Ports.PTable.render, toPat_render, h, toPTable_render kids]
end

/-! ### C04's well-formedness -/

/-- one path component: no '/' in front of the trailing one -/
def WName.oneComponent (w : WName) : Bool := !w.head.contains 47 && w.parts.all (fun p => !p.2.contains 47)

/-- not empty in front of '/' and type part -/
def WName.hasText (w : WName) : Bool := !(w.head.isEmpty && w.parts.isEmpty)

mutual
def STree.flat : STree → Bool
  | .leaf w _ => w.hasText
  | .sub w _ kids => w.oneComponent && flatList kids
def flatList : List STree → Bool
  | [] => true
  | t :: r => t.flat && flatList r
end

/-- the trees C04's model of the recursion callbacks covers: sub-tree names of one path
    component (`SNIP` cuts exactly one), no leaf name empty in front of '/' and type part -/
def PortsFlat (ts : List STree) : Prop := flatList ts = true

instance (ts : List STree) : Decidable (PortsFlat ts) := by unfold PortsFlat; infer_instance

theorem litSeg_all {f : Seg → Bool} (t : Bytes) (h : f (.lit t) = true) : (litSeg t).all f = true := by
  cases t with
  | nil => rfl
  | cons c r => simp [litSeg, h]

theorem partSegs_all {f : Seg → Bool} (hf : ∀ ds, f (.enum ds) = true) : ∀ (ps : List (Bytes × Bytes)),
    (∀ p ∈ ps, f (.lit p.2) = true) → (partSegs ps).all f = true := by
  intro ps
  induction ps with
  | nil => intro _; rfl
  | cons p r ih =>
    obtain ⟨ds, t⟩ := p
    intro h
    simp only [partSegs, List.all_cons, List.all_append, hf, Bool.true_and, Bool.and_eq_true]
    exact ⟨litSeg_all t (h (ds, t) List.mem_cons_self), ih (fun p hp => h p (List.mem_cons_of_mem _ hp))⟩

theorem nameWf_toPat {w : WName} (hok : w.ok = true) (ht : w.hasText = true) : Ports.nameWf w.toPat = true := by
  have hwf0 := toPat_wf0 hok
  simp only [Ports.nameWf, Bool.and_eq_true, Bool.not_eq_eq_eq_not, Bool.not_true, List.isEmpty_eq_false_iff]
  refine ⟨⟨hwf0, ?_⟩, ?_⟩
  · simp only [WName.hasText, Bool.not_eq_eq_eq_not, Bool.not_true, Bool.and_eq_false_imp,
      List.isEmpty_iff, List.isEmpty_eq_false_iff] at ht
    simp only [WName.toPat]
    cases hh : w.head with
    | cons c r => simp [litSeg]
    | nil =>
      cases hp : w.parts with
      | nil => exact absurd hp (ht hh)
      | cons p r => obtain ⟨ds, t⟩ := p; simp [litSeg, partSegs]
  · simp only [WName.toPat, List.all_append, Bool.and_eq_true]
    exact ⟨litSeg_all _ (by simp [Ports.Seg.isAlts]),
      partSegs_all (by simp [Ports.Seg.isAlts]) _ (by intro p _; simp [Ports.Seg.isAlts])⟩

theorem noSlash_toPat {w : WName} (h : w.oneComponent = true) : w.toPat.segs.all Ports.Seg.noSlash = true := by
  simp only [WName.oneComponent, Bool.and_eq_true, Bool.not_eq_eq_eq_not, Bool.not_true, List.all_eq_true] at h
  simp only [WName.toPat, List.all_append, Bool.and_eq_true]
  have hm : ∀ s : Bytes, s.contains 47 = false → ¬ (47 : UInt8) ∈ s := by
    intro s hs hmem
    rw [List.contains_iff_mem.mpr hmem] at hs
    cases hs
  refine ⟨litSeg_all _ (by simpa [Ports.Seg.noSlash] using hm _ h.1), partSegs_all (by simp [Ports.Seg.noSlash]) _ ?_⟩
  intro p hp
  simpa [Ports.Seg.noSlash] using hm _ (h.2 p hp)

mutual
theorem toPTable_wf : ∀ (ts : List STree), wfList ts = true → flatList ts = true → (toPTable ts).wf = true
  | [], _, _ => by simp [toPTable, Ports.PTable.wf]
  | t :: r, hwf, hf => by
    simp only [wfList, Bool.and_eq_true] at hwf
    simp only [flatList, Bool.and_eq_true] at hf
    simp only [toPTable]
    exact rowPTable_wf t (toPTable r) hwf.1 hf.1 (toPTable_wf r hwf.2 hf.2)
theorem rowPTable_wf : ∀ (t : STree) (rest : Ports.PTable), t.wf = true → t.flat = true → rest.wf = true →
    (rowPTable t rest).wf = true
  | .leaf w md, rest, hwf, hf, hr => by
    have hok : w.ok = true := by simpa [STree.wf, WName.leafOk] using hwf
    simp only [rowPTable, Ports.PTable.wf, Bool.and_eq_true]
    exact ⟨nameWf_toPat hok (by simpa [STree.flat] using hf), hr⟩
  | .sub w md kids, rest, hwf, hf, hr => by
    simp only [STree.wf, Bool.and_eq_true] at hwf
    simp only [STree.flat, Bool.and_eq_true] at hf
    obtain ⟨hok, hhead, hslash, _⟩ := WName.subOk_spec hwf.1
    have ht : w.hasText = true := by
      simp only [WName.hasText, Bool.not_eq_eq_eq_not, Bool.not_true, Bool.and_eq_false_imp, List.isEmpty_iff]
      intro h; exact absurd h hhead
    simp only [rowPTable, Ports.PTable.wf, Ports.nodeNameWf, Bool.and_eq_true]
    exact ⟨⟨⟨⟨nameWf_toPat hok ht, by simpa [WName.toPat] using hslash⟩, noSlash_toPat hf.1⟩,
      toPTable_wf kids hwf.2 hf.2⟩, hr⟩
end

/-! ### C04's specification on a reported address -/

/-- what row `t` (index `i`, table path `tp`) contributes to `Answers` -/
def RowAnswers (t : STree) (i : Nat) (tp : List Nat) (a tags : Bytes) (w : Ports.Who) : Prop :=
  match t with
  | .leaf n _ => Ports.Admits n.toPat a tags ∧ w = .port (tp ++ [i])
  | .sub n _ kids =>
    Ports.Admits n.toPat a tags ∧
      (w = .port (tp ++ [i]) ∨ Ports.Answers (toPTable kids) 0 (tp ++ [i]) (Ports.levelTail a) tags w)

theorem answers_iff (tp : List Nat) (a tags : Bytes) (w : Ports.Who) : ∀ (ts : List STree) (i0 : Nat),
    Ports.Answers (toPTable ts) i0 tp a tags w ↔ ∃ n t, ts[n]? = some t ∧ RowAnswers t (i0 + n) tp a tags w := by
  intro ts
  induction ts with
  | nil => intro i0; simp [toPTable, Ports.Answers]
  | cons u r ih =>
    intro i0
    have hrow : Ports.Answers (toPTable (u :: r)) i0 tp a tags w ↔
        RowAnswers u i0 tp a tags w ∨ Ports.Answers (toPTable r) (i0 + 1) tp a tags w := by
      cases u with
      | leaf n md => simp [toPTable, rowPTable, Ports.Answers, RowAnswers]
      | sub n md kids => simp [toPTable, rowPTable, Ports.Answers, RowAnswers]
    rw [hrow, ih]
    constructor
    · rintro (h | ⟨n, t, h1, h2⟩)
      · exact ⟨0, u, by simp, by simpa using h⟩
      · exact ⟨n + 1, t, by simpa using h1, by
          have : i0 + (n + 1) = i0 + 1 + n := by omega
          rw [this]; exact h2⟩
    · rintro ⟨n, t, h1, h2⟩
      cases n with
      | zero => simp at h1; subst h1; left; simpa using h2
      | succ n =>
        right
        refine ⟨n, t, by simpa using h1, ?_⟩
        have : i0 + (n + 1) = i0 + 1 + n := by omega
        rw [this] at h2; exact h2

theorem rowAnswers_admits {t : STree} {i : Nat} {tp : List Nat} {a tags : Bytes} {w : Ports.Who}
    (h : RowAnswers t i tp a tags w) : Ports.Admits t.name.toPat a tags := by
  cases t with
  | leaf n md => exact h.1
  | sub n md kids => exact h.1

theorem typesAdmit_iff (w : WName) (tags : Bytes) :
    Ports.TypesAdmit w.toPat tags ↔ tagsAdmitted w.types tags = true := by
  unfold Ports.TypesAdmit
  show (∀ ts, w.types = some ts → _) ↔ _
  cases hty : w.types with
  | none => simp [tagsAdmitted]
  | some ts =>
    simp only [Option.some.injEq, forall_eq', tagsAdmitted, Bool.or_eq_true, List.contains_iff_mem]
    constructor
    · rintro (h | ⟨l, hl, h1, h2⟩)
      · exact Or.inl h
      · right
        simp only [hl, Bool.and_eq_true, Bool.not_eq_eq_eq_not, Bool.not_true, List.isEmpty_eq_false_iff]
        exact ⟨h1, List.isPrefixOf_iff_prefix.mpr h2⟩
    · rintro (h | h)
      · exact Or.inl h
      · cases hl : ts.getLast? with
        | none => simp [hl] at h
        | some l =>
          simp only [hl, Bool.and_eq_true, Bool.not_eq_eq_eq_not, Bool.not_true, List.isEmpty_eq_false_iff] at h
          exact Or.inr ⟨l, rfl, h.1, List.isPrefixOf_iff_prefix.mp h.2⟩

/-- the callbacks of the ports on an index path below the table with path `path` -/
def OnPath (path ixr : List Nat) (w : Ports.Who) : Prop :=
  ∃ ix', ix' ≠ [] ∧ ix' <+: ixr ∧ w = .port (path ++ ix')

theorem onPath_single (path : List Nat) (n : Nat) (w : Ports.Who) :
    OnPath path [n] w ↔ w = .port (path ++ [n]) := by
  constructor
  · rintro ⟨ix', hne, hp, rfl⟩
    obtain ⟨c, r, rfl⟩ := List.exists_cons_of_ne_nil hne
    have hl := hp.length_le
    simp only [List.length_cons, List.length_nil] at hl
    have hr : r = [] := List.eq_nil_of_length_eq_zero (by omega)
    subst hr
    obtain ⟨s, hs⟩ := hp
    simp at hs
    rw [hs.1]
  · rintro rfl
    exact ⟨[n], by simp, List.prefix_refl _, rfl⟩

theorem onPath_cons (path : List Nat) (n m : Nat) (ixr : List Nat) (w : Ports.Who) :
    OnPath path (n :: m :: ixr) w ↔ w = .port (path ++ [n]) ∨ OnPath (path ++ [n]) (m :: ixr) w := by
  constructor
  · rintro ⟨ix', hne, hp, rfl⟩
    obtain ⟨c, r, rfl⟩ := List.exists_cons_of_ne_nil hne
    obtain ⟨s, hs⟩ := hp
    simp only [List.cons_append, List.cons.injEq] at hs
    obtain ⟨rfl, hs⟩ := hs
    cases r with
    | nil => exact Or.inl rfl
    | cons d r' =>
      right
      exact ⟨d :: r', by simp, ⟨s, hs⟩, by simp⟩
  · rintro (rfl | ⟨ix', hne, ⟨s, hs⟩, rfl⟩)
    · exact ⟨[n], by simp, ⟨m :: ixr, rfl⟩, rfl⟩
    · exact ⟨n :: ix', by simp, ⟨s, by simp [hs]⟩, by simp⟩

theorem not_mem_of_slashes {s : Bytes} (h : slashes s = 0) : ∀ c ∈ s, c ≠ 47 := by
  intro c hc h47
  subst h47
  unfold slashes at h
  rw [List.length_eq_zero_iff, List.filter_eq_nil_iff] at h
  exact h 47 hc (by simp)

theorem levelTail_first (s r : Bytes) (h : ∀ c ∈ s, c ≠ 47) : Ports.levelTail (s ++ 47 :: r) = r := by
  unfold Ports.levelTail
  induction s with
  | nil => simp
  | cons c t ih =>
    have hc : c ≠ 47 := h c List.mem_cons_self
    have : (c != 47) = true := by simp [hc]
    simp only [List.cons_append, List.dropWhile_cons, this, ↓reduceIte]
    exact ih (fun x hx => h x (List.mem_cons_of_mem _ hx))

theorem slashes_zero_of_not_contains {s : Bytes} (h : s.contains 47 = false) : slashes s = 0 := by
  unfold slashes
  rw [List.length_eq_zero_iff, List.filter_eq_nil_iff]
  intro c hc h47
  simp only [beq_iff_eq] at h47
  subst h47
  have := List.contains_iff_mem.mpr hc
  rw [h] at this
  cases this

theorem partsSlashes_zero : ∀ (ps : List (Bytes × Bytes)), (ps.all fun p => !p.2.contains 47) = true →
    partsSlashes ps = 0 := by
  intro ps
  induction ps with
  | nil => intro _; rfl
  | cons p r ih =>
    obtain ⟨ds, t⟩ := p
    intro h
    simp only [List.all_cons, Bool.and_eq_true, Bool.not_eq_eq_eq_not, Bool.not_true] at h
    simp [partsSlashes, slashes_zero_of_not_contains h.1, ih h.2]

/-- the next level of an address built from a one-component sub-tree name -/
theorem levelTail_own {w : WName} (h1 : w.oneComponent = true) {a : Bytes} (ha : a ∈ expandParts w.parts)
    (rel' : Bytes) : Ports.levelTail (w.head ++ a ++ 47 :: rel') = rel' := by
  simp only [WName.oneComponent, Bool.and_eq_true, Bool.not_eq_eq_eq_not, Bool.not_true] at h1
  apply levelTail_first
  intro c hc
  rcases List.mem_append.mp hc with hc | hc
  · exact not_mem_of_slashes (slashes_zero_of_not_contains h1.1) c hc
  · exact not_mem_of_slashes (by rw [slashes_expandParts _ a ha, partsSlashes_zero _ h1.2]) c hc

/-- C04's specification on the address of a reported pair: with the type string admitted along
    the path, the callbacks of the ports on the index path belong to the message, and — `only`:
    rows pairwise apart — no other callback does -/
def ReachesP (only : Bool) (tags : Bytes) (path ixr : List Nat) (tab : List STree) (rel : Bytes) : Prop :=
  admittedAlong tags ixr tab = true →
    (∀ w, OnPath path ixr w → Ports.Answers (toPTable tab) 0 path rel tags w) ∧
    (only = true → ∀ w, Ports.Answers (toPTable tab) 0 path rel tags w → OnPath path ixr w)

theorem flatList_get {ts : List STree} (h : flatList ts = true) {n : Nat} {t : STree} (ht : ts[n]? = some t) :
    t.flat = true := by
  induction ts generalizing n with
  | nil => simp at ht
  | cons u r ih =>
    simp only [flatList, Bool.and_eq_true] at h
    cases n with
    | zero => simp at ht; subst ht; exact h.1
    | succ n => simp at ht; exact ih h.2 ht

mutual
theorem ans_list (only : Bool) (tags : Bytes) : ∀ (ts front : List STree) (pre : Bytes) (path ix : List Nat)
    (addr : Bytes), wfList (front ++ ts) = true → flatList (front ++ ts) = true →
    (only = true → SiblingsApart (front ++ ts)) →
    (ix, addr) ∈ enumList pre path ts front.length →
    ∃ n ixr rel, ix = path ++ n :: ixr ∧ addr = pre ++ rel ∧ NulFree rel ∧
      ReachesP only tags path (n :: ixr) (front ++ ts) rel
  | [], _, _, _, _, _, _, _, _, h => by simp [enumList] at h
  | t :: r, front, pre, path, ix, addr, hwf, hfl, hs, h => by
    simp only [enumList, List.mem_append] at h
    rcases h with h | h
    · have hget : (front ++ t :: r)[front.length]? = some t := by simp
      obtain ⟨ixr, rel, h1, h2, h3, h4⟩ := ans_tree only tags t (front ++ t :: r) front.length pre path ix addr hget hwf hfl hs h
      exact ⟨front.length, ixr, rel, h1, h2, h3, h4⟩
    · have e : front ++ t :: r = (front ++ [t]) ++ r := by simp
      have el : front.length + 1 = (front ++ [t]).length := by simp
      rw [e] at hwf hfl hs ⊢
      rw [el] at h
      exact ans_list only tags r (front ++ [t]) pre path ix addr hwf hfl hs h
theorem ans_tree (only : Bool) (tags : Bytes) : ∀ (t : STree) (tab : List STree) (n : Nat) (pre : Bytes)
    (path ix : List Nat) (addr : Bytes), tab[n]? = some t → wfList tab = true → flatList tab = true →
    (only = true → SiblingsApart tab) → (ix, addr) ∈ enumTree pre (path ++ [n]) t →
    ∃ ixr rel, ix = path ++ n :: ixr ∧ addr = pre ++ rel ∧ NulFree rel ∧
      ReachesP only tags path (n :: ixr) tab rel
  | .leaf w md, tab, n, pre, path, ix, addr, ht, hwf, hfl, hs, h => by
    simp only [enumTree, List.mem_map, Prod.mk.injEq] at h
    obtain ⟨a, ha, h1, h2⟩ := h
    have hok : w.ok = true := wf_name_ok (t := .leaf w md) (wfList_get hwf ht)
    obtain ⟨hhead, hparts, _⟩ := WName.ok_spec hok
    have hnul : NulFree (w.head ++ a ++ slashIf w.slash) :=
      NulFree.append (NulFree.append (textOk_nulfree hhead) (expandParts_nulfree w.parts hparts a ha)) (nulFree_slashIf _)
    refine ⟨[], w.head ++ a ++ slashIf w.slash, by simp [← h1], by simp [← h2], hnul, ?_⟩
    have hsp := spells_name w hok a (slashIf w.slash) ha (startsWithDigit_slashIf _)
    have hspec : PathSpec (STree.leaf w md).name.toPat (w.head ++ a ++ slashIf w.slash) := by
      refine ⟨slashIf w.slash, hsp, ?_⟩
      cases hsl : w.slash <;> simp [WName.toPat, STree.name, hsl, slashIf]
    intro hadm
    have hadm' : tagsAdmitted w.types tags = true := by
      simpa [admittedAlong, typesAlong, ht] using hadm
    constructor
    · intro who hwho
      rw [onPath_single] at hwho
      rw [answers_iff]
      exact ⟨n, _, ht, by
        simp only [RowAnswers, Nat.zero_add]
        exact ⟨⟨hspec, (typesAdmit_iff w tags).mpr hadm'⟩, hwho⟩⟩
    · intro ho who hans
      rw [answers_iff] at hans
      obtain ⟨j, u, hu, hrow⟩ := hans
      by_cases hj : j = n
      · subst hj
        rw [ht] at hu
        cases hu
        rw [onPath_single]
        simpa [RowAnswers] using hrow.2
      · have := (rowAnswers_admits hrow).1
        exact absurd ⟨hspec, this⟩ ((siblingsApart_spec (hs ho)).1 n j _ u (Ne.symm hj) ht hu _)
  | .sub w md kids, tab, n, pre, path, ix, addr, ht, hwf, hfl, hs, h => by
    have hwft := wfList_get hwf ht
    have hflt := flatList_get hfl ht
    have hok : w.ok = true := wf_name_ok (t := .sub w md kids) hwft
    simp only [STree.wf, Bool.and_eq_true] at hwft
    simp only [STree.flat, Bool.and_eq_true] at hflt
    obtain ⟨_, _, hslash, _⟩ := WName.subOk_spec hwft.1
    simp only [enumTree, List.mem_flatMap] at h
    obtain ⟨a, ha, h⟩ := h
    have hs' : only = true → SiblingsApart ([] ++ kids) := by
      intro ho
      simpa using kidsApart_get (siblingsApart_spec (hs ho)).2 ht
    obtain ⟨m, ixr, rel', h1, h2, hnul', h3⟩ := ans_list only tags kids [] (pre ++ w.head ++ a ++ [47]) (path ++ [n]) ix addr
      (by simpa using hwft.2) (by simpa using hflt.2) hs' (by simpa using h)
    obtain ⟨hhead, hparts, _⟩ := WName.ok_spec hok
    have hnul : NulFree (w.head ++ a ++ 47 :: rel') := by
      have e : w.head ++ a ++ 47 :: rel' = (w.head ++ a ++ [47]) ++ rel' := by simp
      rw [e]
      exact NulFree.append (NulFree.append (NulFree.append (textOk_nulfree hhead)
        (expandParts_nulfree w.parts hparts a ha)) nulFree_slash) hnul'
    refine ⟨m :: ixr, w.head ++ a ++ 47 :: rel', by simp [h1], by simp [h2], hnul, ?_⟩
    have hsp := spells_name w hok a (47 :: rel') ha (startsWithDigit_slash rel')
    have hspec : PathSpec (STree.sub w md kids).name.toPat (w.head ++ a ++ 47 :: rel') :=
      ⟨47 :: rel', hsp, by simp [WName.toPat, STree.name, hslash]⟩
    have hlt := levelTail_own hflt.1 ha rel'
    simp only [List.nil_append] at h3
    intro hadm
    have hadm' : tagsAdmitted w.types tags = true ∧ admittedAlong tags (m :: ixr) kids = true := by
      simpa [admittedAlong, typesAlong, ht] using hadm
    obtain ⟨h3a, h3b⟩ := h3 hadm'.2
    have hadmits : Ports.Admits w.toPat (w.head ++ a ++ 47 :: rel') tags :=
      ⟨hspec, (typesAdmit_iff w tags).mpr hadm'.1⟩
    constructor
    · intro who hwho
      rw [onPath_cons] at hwho
      rw [answers_iff]
      refine ⟨n, _, ht, ?_⟩
      simp only [RowAnswers, Nat.zero_add, hlt]
      refine ⟨hadmits, ?_⟩
      rcases hwho with hwho | hwho
      · exact Or.inl hwho
      · exact Or.inr (h3a who hwho)
    · intro ho who hans
      rw [answers_iff] at hans
      obtain ⟨j, u, hu, hrow⟩ := hans
      by_cases hj : j = n
      · subst hj
        rw [ht] at hu
        cases hu
        rw [onPath_cons]
        simp only [RowAnswers, Nat.zero_add, hlt] at hrow
        rcases hrow.2 with hrow | hrow
        · exact Or.inl hrow
        · exact Or.inr (h3b ho who hrow)
      · have := (rowAnswers_admits hrow).1
        exact absurd ⟨hspec, this⟩ ((siblingsApart_spec (hs ho)).1 n j _ u (Ne.symm hj) ht hu _)
end

/-! ### C04's `dispatch` -/

theorem idxBounded_slash {a : Bytes} (h : IdxBounded a) : IdxBounded (47 :: a) := by
  intro pre run post he hr
  cases pre with
  | cons c pre' =>
    simp only [List.cons_append, List.cons.injEq] at he
    exact h pre' run post (by simpa using he.2) hr
  | nil =>
    cases run with
    | nil => simp [decVal]
    | cons c run' =>
      simp only [List.nil_append, List.cons_append, List.cons.injEq] at he
      have := hr c List.mem_cons_self
      rw [← he.1] at this
      exact absurd this (by decide)

/-- **C04's `Ports::dispatch` on the address of a reported pair**, without location buffer
    (`d.loc = none`: linear search of every table) and with one (every table looked up by the
    strategy `mk` picked for it): the callbacks invoked are those of the ports on the index
    path — the recursion callbacks of the sub-tree ports on the way and the reported leaf —,
    each once, and (`only`: rows pairwise apart) no other. -/
theorem ports_dispatch_reported {mk : List Bytes → Option Ports.Hash.Matcher} (hmk : Ports.MkOK mk) (only : Bool)
    (ts : List STree) (hwf : TreeWF ts) (hfl : PortsFlat ts) (hs : only = true → SiblingsApart ts)
    (pre : Bytes) (ix : List Nat) (addr : Bytes) (h : (ix, addr) ∈ enumerate ts pre)
    (tags : Bytes) (ht : NulFree tags) (hadm : admittedAlong tags ix ts = true) :
    ∃ rel, addr = pre ++ rel ∧ NulFree rel ∧
      (IdxBounded rel → ∀ (k : Nat) (rest : Bytes) (d : Ports.RtData),
        (d.loc = none ∨ ∃ L0, d.loc = some L0 ∧ d.locSize ≠ 0) →
        ∃ log d', Ports.dispatch mk ⟨toTable (toPorts ts), false⟩ (Ports.msgBuf (47 :: rel) tags k rest) d true
            = some (log, d') ∧
          (∀ w, OnPath [] ix w → w ∈ log.map (·.who)) ∧
          (only = true → ∀ w, w ∈ log.map (·.who) → OnPath [] ix w) ∧
          (log.map (·.who)).Nodup) := by
  obtain ⟨n, ixr, rel, h1, h2, h3, h4⟩ := ans_list only tags ts [] pre [] ix addr
    (by simpa [TreeWF] using hwf) (by simpa [PortsFlat] using hfl) (by intro ho; simpa using hs ho)
    (by simpa [enumerate] using h)
  refine ⟨rel, h2, h3, ?_⟩
  intro hb k rest d hd
  simp only [List.nil_append] at h1 h4
  subst h1
  obtain ⟨h4a, h4b⟩ := h4 hadm
  let P : Ports.PPorts := ⟨toPTable ts, false⟩
  have hP : P.render = ⟨toTable (toPorts ts), false⟩ := by
    simp [P, Ports.PPorts.render, toPTable_render]
  have hnul : NulFree (47 :: rel) := by
    intro c hc
    rcases List.mem_cons.mp hc with rfl | hc
    · decide
    · exact h3 c hc
  have hscope : Ports.InScope P (47 :: rel) tags rest :=
    ⟨toPTable_wf ts hwf hfl, hnul, idxBounded_slash hb, ht⟩
  have hroot : ∀ w, Ports.AnswersRoot P (Ports.rootAddr true (47 :: rel)) tags w ↔
      Ports.Answers (toPTable ts) 0 [] rel tags w := by
    intro w
    simp [Ports.AnswersRoot, Ports.rootAddr, Ports.stripSlash, P]
  have hfin : ∀ log : List Ports.Call,
      (∀ w, w ∈ log.map (·.who) ↔ Ports.AnswersRoot P (Ports.rootAddr true (47 :: rel)) tags w) →
      (∀ w, OnPath [] (n :: ixr) w → w ∈ log.map (·.who)) ∧
      (only = true → ∀ w, w ∈ log.map (·.who) → OnPath [] (n :: ixr) w) := by
    intro log hlog
    exact ⟨fun w hw => (hlog w).mpr ((hroot w).mpr (h4a w hw)),
      fun ho w hw => h4b ho w ((hroot w).mp ((hlog w).mp hw))⟩
  rcases hd with hd | ⟨L0, hd, hsz⟩
  · obtain ⟨log, d', hdisp, hlog⟩ := Ports.dispatch_linear_iff mk hscope k true d hd
    rw [hP] at hdisp
    have hr : Ports.TwoRuns { d with loc := some [], locSize := 1 } d [] := ⟨rfl, by simp, hd, rfl, rfl⟩
    obtain ⟨_, _, logN, dN', _, hN, _, hnd⟩ := Ports.dispatch_unique hmk hscope k true hr
    rw [hP] at hN
    rw [hdisp] at hN
    cases hN
    exact ⟨log, d', hdisp, (hfin log hlog).1, (hfin log hlog).2, hnd⟩
  · obtain ⟨log, d', hdisp, hlog⟩ := Ports.dispatch_loc_iff hmk hscope k true d L0 hd hsz
    rw [hP] at hdisp
    have hr : Ports.TwoRuns d { d with loc := none } L0 := ⟨hd, hsz, rfl, rfl, rfl⟩
    obtain ⟨logL, dL', _, _, hL, _, hnd, _⟩ := Ports.dispatch_unique hmk hscope k true hr
    rw [hP] at hL
    rw [hdisp] at hL
    cases hL
    exact ⟨log, d', hdisp, (hfin log hlog).1, (hfin log hlog).2, hnd⟩

end Rtosc.Walk
