/-
  Helper lemmas for C05 (path-pattern matcher).  Property theorems are in Props/C05.lean.

  Part 1: every iteration of `rtosc_match_path` moves the pattern pointer forward, hence
          `path p m = body path p m` (the fuel `p.length + 1` always suffices).
  Part 2: what one iteration does on the rendering of each kind of segment.
  Part 3: the code on a rendered pattern is the greedy matcher `greedy`.
  Part 4: `greedy` against the specification `SpellsAll`.
  Part 5: the type matcher and its copies; `rtosc_argument_string` on a laid-out message.
-/
import RtoscModel.Match.Path
import RtoscModel.Match.Copies
import RtoscModel.Match.Spec
namespace Rtosc.Match
open Rtosc

/-! ## Part 1 -/

theorem spanDigits_length {p d t} (h : spanDigits p = some (d, t)) : t.length + d.length = p.length := by
  induction p generalizing d t with
  | nil => simp [spanDigits] at h
  | cons c r ih =>
    simp only [spanDigits] at h
    split at h
    · split at h
      · simp at h
      · next d' t' heq =>
        simp only [Option.some.injEq, Prod.mk.injEq] at h
        obtain ⟨rfl, rfl⟩ := h
        have := ih heq
        simp only [List.length_cons]; omega
    · simp only [Option.some.injEq, Prod.mk.injEq] at h
      obtain ⟨rfl, rfl⟩ := h
      simp

theorem number_length {p m p' m'} (h : number p m = .ok (p', m')) : p'.length < p.length := by
  unfold number at h
  split at h
  · simp at h
  · next c r =>
    split at h
    · simp at h
    · next hc =>
      split at h
      · simp at h
      · split at h
        · simp at h
        · split at h
          · next pd p1 md m1 h1 h2 =>
            split at h
            · simp only [Res.ok.injEq, Prod.mk.injEq] at h
              obtain ⟨rfl, rfl⟩ := h
              have hl := spanDigits_length h1
              -- pd is non-empty because c is a digit
              simp only [spanDigits] at h1
              simp only [Bool.not_eq_eq_eq_not, Bool.not_true] at hc
              have hc' : isDigit c = true := by
                cases hh : isDigit c <;> simp_all
              simp only [hc', ↓reduceIte] at h1
              split at h1
              · simp at h1
              · simp only [Option.some.injEq, Prod.mk.injEq] at h1
                obtain ⟨rfl, rfl⟩ := h1
                simp only [List.length_cons] at hl ⊢; omega
            · simp at h
          · simp at h



theorem optEnd_length {p p'} (h : optEnd p = some p') : p'.length ≤ p.length := by
  induction p with
  | nil => simp [optEnd] at h
  | cons c r ih =>
    simp only [optEnd] at h
    split at h
    · simp only [Option.some.injEq] at h; subst h; simp
    · split at h
      · simp only [Option.some.injEq] at h; subst h; simp
      · have := ih h; simp only [List.length_cons]; omega

theorem optGo_length {pre sk p m p' m'} (h : optGo pre sk p m = .ok (p', m')) : p'.length ≤ p.length := by
  induction p generalizing sk m with
  | nil => cases sk <;> simp [optGo] at h
  | cons c r ih =>
    cases sk with
    | true =>
      simp only [optGo] at h
      split at h
      · simp at h
      · split at h
        · have := ih h; simp only [List.length_cons]; omega
        · have := ih h; simp only [List.length_cons]; omega
    | false =>
      simp only [optGo] at h
      split at h
      · split at h
        · simp at h
        · next p1 hp1 =>
          simp only [Res.ok.injEq, Prod.mk.injEq] at h
          obtain ⟨rfl, rfl⟩ := h
          exact optEnd_length hp1
      · split at h
        · simp at h
        · split at h
          · have := ih h; simp only [List.length_cons]; omega
          · split at h
            · simp at h
            · have := ih h; simp only [List.length_cons]; omega

theorem options_length {c r m p' m'} (h : options (c :: r) m = .ok (p', m')) : p'.length ≤ r.length := by
  simp only [options] at h
  exact optGo_length h

theorem starPat_length {p p'} (h : starPat p = some p') : p'.length ≤ p.length := by
  induction p with
  | nil => simp [starPat] at h
  | cons c r ih =>
    simp only [starPat] at h
    split at h
    · simp only [Option.some.injEq] at h; subst h; simp
    · have := ih h; simp only [List.length_cons]; omega

theorem starPat_star {r p'} (h : starPat (42 :: r) = some p') : p'.length ≤ r.length := by
  simp only [starPat, show ¬((42:UInt8) = 0 ∨ (42:UInt8) = 47 ∨ (42:UInt8) = 58) by decide, ↓reduceIte] at h
  exact starPat_length h

/-- the continuation is only ever applied to a strictly shorter pattern -/
theorem body_congr {k1 k2 : Bytes → Bytes → Res (Bytes × Bytes)} {p m : Bytes}
    (h : ∀ p' m', p'.length < p.length → k1 p' m' = k2 p' m') : body k1 p m = body k2 p m := by
  unfold body
  split
  · rfl
  · next c r =>
    split
    · rfl
    · split
      · split
        · rfl
        · rfl
        · next p' m' hop =>
          apply h
          have := options_length hop
          simp only [List.length_cons]; omega
      · split
        · next hc =>
          subst hc
          split
          · rfl
          · rfl
          · next e p' hsp =>
            have hl := starPat_star hsp
            simp only [List.length_cons] at hl
            split
            · split
              · rfl
              · apply h; simp only [List.length_cons]; omega
            · apply h; simp only [List.length_cons]; omega
        · split
          · split
            · rfl
            · split
              · split
                · rfl
                · split
                  · rfl
                  · apply h; simp
              · rfl
          · split
            · split
              · rfl
              · rfl
              · next p' m' hn =>
                apply h
                have := number_length hn
                simp only [List.length_cons]; omega
            · split
              · rfl
              · split
                · split
                  · apply h; simp
                  · rfl
                · rfl

theorem pathGo_indep : ∀ (f g : Nat) (p m : Bytes), p.length < f → p.length < g →
    pathGo f p m = pathGo g p m := by
  intro f
  induction f with
  | zero => intro g p m h; omega
  | succ f ih =>
    intro g p m hf hg
    cases g with
    | zero => omega
    | succ g =>
      simp only [pathGo]
      apply body_congr
      intro p' m' hp'
      apply ih <;> omega

theorem path_eq_body (p m : Bytes) : path p m = body path p m := by
  show body (pathGo p.length) p m = body path p m
  apply body_congr
  intro p' m' hp'
  show pathGo p.length p' m' = pathGo (p'.length + 1) p' m'
  apply pathGo_indep <;> omega


/-! ## Part 2 -/
theorem NulFree.head {c : UInt8} {a : Bytes} (h : NulFree (c :: a)) : c ≠ 0 := h c List.mem_cons_self
theorem NulFree.tail {c : UInt8} {a : Bytes} (h : NulFree (c :: a)) : NulFree a :=
  fun x hx => h x (List.mem_cons_of_mem _ hx)
theorem NulFree.drop {a : Bytes} (h : NulFree a) (n : Nat) : NulFree (a.drop n) :=
  fun x hx => h x (List.mem_of_mem_drop hx)

/-- the pattern's path has ended (NUL or ':'): match iff the address has ended too -/
theorem path_end (c : UInt8) (x a ex : Bytes) (hc : c = 0 ∨ c = 58) (ha : NulFree a) :
    path (c :: x) (a ++ 0 :: ex) = if a = [] then .ok (c :: x, 0 :: ex) else .fail := by
  rw [path_eq_body]
  cases a with
  | nil =>
    rcases hc with rfl | rfl <;> simp [body]
  | cons d a' =>
    have hd : d ≠ 0 := ha.head
    rcases hc with rfl | rfl
    · simp [body, Ne.symm hd]
    · simp [body, hd]

/-- trailing '/': the address must have a '/' here; what follows it is arbitrary -/
theorem path_slash_end (c : UInt8) (x a ex : Bytes) (hc : c = 0 ∨ c = 58) (ha : NulFree a) :
    path (47 :: c :: x) (a ++ 0 :: ex) =
      match a with
      | [] => .fail
      | d :: t => if d = 47 then .ok (c :: x, t ++ 0 :: ex) else .fail := by
  rw [path_eq_body]
  cases a with
  | nil => simp [body]
  | cons d a' =>
    by_cases hd : d = 47
    · subst hd
      simp [body, hc]
    · simp [body, hd]

theorem litChar_ne {c : UInt8} (h : litChar c = true) :
    c ≠ 0 ∧ c ≠ 35 ∧ c ≠ 123 ∧ c ≠ 42 ∧ c ≠ 58 := by
  simp only [litChar, Bool.and_eq_true, bne_iff_ne, ne_eq] at h
  obtain ⟨⟨⟨⟨h1, h2⟩, h3⟩, h4⟩, h5⟩ := h
  exact ⟨h1, h2, h3, h4, h5⟩

/-- literal text is compared character by character -/
theorem path_lit (s p' : Bytes) (hs : ∀ c ∈ s, litChar c = true)
    (hlast : s.getLast? = some 47 → ∃ e t, p' = e :: t ∧ e ≠ 0 ∧ e ≠ 58) :
    ∀ (a ex : Bytes), NulFree a →
    path (s ++ p') (a ++ 0 :: ex) =
      if s.isPrefixOf a then path p' (a.drop s.length ++ 0 :: ex) else .fail := by
  induction s with
  | nil => intro a ex _; simp
  | cons c s' ih =>
    intro a ex ha
    obtain ⟨c0, c35, c123, c42, c58⟩ := litChar_ne (hs c List.mem_cons_self)
    have hs' : ∀ c ∈ s', litChar c = true := fun x hx => hs x (List.mem_cons_of_mem _ hx)
    -- the next pattern character is not the end of the path
    have hnext : ∃ e t, s' ++ p' = e :: t ∧ e ≠ 0 ∧ e ≠ 58 ∨ c ≠ 47 := by
      cases s' with
      | nil =>
        by_cases h47 : c = 47
        · subst h47
          obtain ⟨e, t, h1, h2, h3⟩ := hlast (by simp)
          exact ⟨e, t, Or.inl ⟨by simpa using h1, h2, h3⟩⟩
        · exact ⟨0, [], Or.inr h47⟩
      | cons e t =>
        obtain ⟨e0, _, _, _, e58⟩ := litChar_ne (hs' e List.mem_cons_self)
        exact ⟨e, t ++ p', Or.inl ⟨by simp, e0, e58⟩⟩
    have hlast' : s'.getLast? = some 47 → ∃ e t, p' = e :: t ∧ e ≠ 0 ∧ e ≠ 58 := by
      intro h
      apply hlast
      cases s' with
      | nil => simp at h
      | cons e t => simpa [List.getLast?_cons_cons] using h
    rw [path_eq_body]
    cases a with
    | nil =>
      by_cases h47 : c = 47
      · subst h47; simp [body]
      · simp [body, c58, c123, c42, h47, c35, c0]
    | cons d a' =>
      have hd : d ≠ 0 := ha.head
      have ih' := ih hs' hlast' a' ex ha.tail
      by_cases h47 : c = 47
      · subst h47
        by_cases hd47 : d = 47
        · subst hd47
          obtain ⟨e, t, h | h⟩ := hnext
          · obtain ⟨h1, h2, h3⟩ := h
            simp only [List.cons_append, body, c58, ↓reduceIte, c123, c42, h1, h2, h3, or_self]
            rw [← h1, ih']
            simp
          · exact absurd rfl h
        · have : ¬ ((47 : UInt8) = d) := fun h => hd47 h.symm
          simp [body, hd47, this]
      · by_cases hcd : c = d
        · subst hcd
          simp only [List.cons_append, body, c58, ↓reduceIte, c123, c42, h47, c35, ne_eq, hd,
            not_false_eq_true]
          rw [ih']
          simp
        · simp [body, c58, c123, c42, h47, c35, hcd]


theorem atoiU_of_lt {ds : Bytes} (h : decVal ds < 2 ^ 31) : atoiU ds = decVal ds := by
  unfold atoiU
  have h1 : min (decVal ds) (2 ^ 63 - 1) = decVal ds := by
    apply Nat.min_eq_left; omega
  rw [h1]
  apply Nat.mod_eq_of_lt; omega

theorem spanDigits_takeWhile (a t : Bytes) (ht : ∃ e x, t = e :: x ∧ isDigit e = false) :
    spanDigits (a ++ t) = some (a.takeWhile isDigit, a.dropWhile isDigit ++ t) := by
  induction a with
  | nil =>
    obtain ⟨e, x, rfl, he⟩ := ht
    simp [spanDigits, he]
  | cons c a' ih =>
    by_cases hc : isDigit c = true
    · simp [spanDigits, hc, ih]
    · simp only [Bool.not_eq_true] at hc
      simp [spanDigits, hc]

theorem takeWhile_all {ds : Bytes} (h : ∀ c ∈ ds, isDigit c = true) : ds.takeWhile isDigit = ds := by
  induction ds with
  | nil => rfl
  | cons c r ih =>
    have := h c List.mem_cons_self
    simp [this, ih (fun x hx => h x (List.mem_cons_of_mem _ hx))]

theorem dropWhile_all {ds : Bytes} (h : ∀ c ∈ ds, isDigit c = true) : ds.dropWhile isDigit = [] := by
  induction ds with
  | nil => rfl
  | cons c r ih =>
    have := h c List.mem_cons_self
    simp [this, ih (fun x hx => h x (List.mem_cons_of_mem _ hx))]

theorem isDigit_zero : isDigit 0 = false := by decide

theorem mem_takeWhile_digit {a : Bytes} {c : UInt8} (h : c ∈ a.takeWhile isDigit) : isDigit c = true := by
  induction a with
  | nil => simp at h
  | cons d r ih =>
    by_cases hd : isDigit d = true
    · simp only [List.takeWhile_cons, hd, ↓reduceIte, List.mem_cons] at h
      rcases h with rfl | h
      · exact hd
      · exact ih h
    · simp [hd] at h

theorem IdxBounded.takeWhile {a : Bytes} (h : IdxBounded a) : decVal (a.takeWhile isDigit) < 2 ^ 31 := by
  apply h [] (a.takeWhile isDigit) (a.dropWhile isDigit)
  · simp
  · intro c hc
    exact mem_takeWhile_digit hc

theorem IdxBounded.suffix {x y : Bytes} (h : IdxBounded (x ++ y)) : IdxBounded y := by
  intro pre run post he hr
  exact h (x ++ pre) run post (by simp [he]) hr

theorem IdxBounded.drop {a : Bytes} (h : IdxBounded a) (n : Nat) : IdxBounded (a.drop n) := by
  have : a = a.take n ++ a.drop n := (List.take_append_drop n a).symm
  rw [this] at h
  exact h.suffix

theorem IdxBounded.dropWhile {a : Bytes} (h : IdxBounded a) : IdxBounded (a.dropWhile isDigit) := by
  have : a = a.takeWhile isDigit ++ a.dropWhile isDigit := List.takeWhile_append_dropWhile.symm
  rw [this] at h
  exact h.suffix

/-- `#N`: the whole digit run of the address is read and compared with N -/
theorem path_enum (ds p' : Bytes) (hne : ds ≠ []) (hds : ∀ c ∈ ds, isDigit c = true)
    (hN : decVal ds < 2 ^ 31) (hp' : ∃ e x, p' = e :: x ∧ isDigit e = false)
    (a ex : Bytes) (ha : NulFree a) (hb : IdxBounded a) :
    path (35 :: ds ++ p') (a ++ 0 :: ex) =
      if a.takeWhile isDigit ≠ [] ∧ decVal (a.takeWhile isDigit) < decVal ds
      then path p' (a.dropWhile isDigit ++ 0 :: ex) else .fail := by
  rw [path_eq_body]
  have hsp : spanDigits (ds ++ p') = some (ds, p') := by
    have := spanDigits_takeWhile ds p' hp'
    rwa [takeWhile_all hds, dropWhile_all hds, List.nil_append] at this
  have hsm : spanDigits (a ++ 0 :: ex) = some (a.takeWhile isDigit, a.dropWhile isDigit ++ 0 :: ex) :=
    spanDigits_takeWhile a (0 :: ex) ⟨0, ex, rfl, isDigit_zero⟩
  obtain ⟨c, ds', rfl⟩ := List.exists_cons_of_ne_nil hne
  have hc : isDigit c = true := hds c List.mem_cons_self
  have h35 : ¬ ((35:UInt8) = 58) ∧ ¬ ((35:UInt8) = 123) ∧ ¬ ((35:UInt8) = 42) ∧ ¬ ((35:UInt8) = 47) := by decide
  cases a with
  | nil =>
    simp [body, number, hc, isDigit_zero]
  | cons d a' =>
    by_cases hd : isDigit d = true
    · have htw : (d :: a').takeWhile isDigit ≠ [] := by simp [hd]
      have hv := atoiU_of_lt hb.takeWhile
      have hv2 := atoiU_of_lt hN
      simp only [List.cons_append] at hsp hsm
      simp only [List.cons_append, body, h35, ↓reduceIte, number, hc, hd, Bool.not_true,
        Bool.false_eq_true, hsp, hsm, hv, hv2, htw, ne_eq, not_false_eq_true, true_and]
      by_cases hlt : decVal (List.takeWhile isDigit (d :: a')) < decVal (c :: ds')
      · simp [hlt]
      · simp [hlt]
    · simp only [Bool.not_eq_true] at hd
      simp [body, number, hc, hd]


theorem altChar_ne {c : UInt8} (h : altChar c = true) : c ≠ 0 ∧ c ≠ 44 ∧ c ≠ 125 := by
  simp only [altChar, Bool.and_eq_true, bne_iff_ne, ne_eq] at h
  obtain ⟨⟨h1, h2⟩, h3⟩ := h
  exact ⟨h1, h2, h3⟩

/-- the `try_next` scan runs to the ',' or '}' that ends the alternative -/
theorem optGo_skip (pre : Bytes) (y : Bytes) (t : UInt8) (q m : Bytes)
    (hy : ∀ c ∈ y, altChar c = true) (ht : t = 44 ∨ t = 125) :
    optGo pre true (y ++ t :: q) m = if t = 125 then .fail else optGo pre false q pre := by
  induction y generalizing m with
  | nil =>
    rcases ht with rfl | rfl <;> simp [optGo]
  | cons c y' ih =>
    obtain ⟨c0, c44, c125⟩ := altChar_ne (hy c List.mem_cons_self)
    simp only [List.cons_append, optGo, c0, c125, or_self, ↓reduceIte, c44]
    exact ih _ (fun x hx => hy x (List.mem_cons_of_mem _ hx))

/-- one alternative is compared verbatim with the message -/
theorem optGo_cmp (pre : Bytes) (x : Bytes) (t : UInt8) (q : Bytes)
    (hx : ∀ c ∈ x, altChar c = true) (ht : t = 44 ∨ t = 125) :
    ∀ (b ex : Bytes), NulFree b →
    optGo pre false (x ++ t :: q) (b ++ 0 :: ex) =
      if x.isPrefixOf b then
        (match optEnd (t :: q) with
         | none => .oob
         | some p'' => .ok (p'', b.drop x.length ++ 0 :: ex))
      else (if t = 125 then .fail else optGo pre false q pre) := by
  induction x with
  | nil =>
    intro b ex _
    have : t = 44 ∨ t = 125 := ht
    simp only [List.nil_append, optGo, this, ↓reduceIte, List.isPrefixOf, List.length_nil, List.drop_zero]
    rfl
  | cons c x' ih =>
    intro b ex hb
    obtain ⟨c0, c44, c125⟩ := altChar_ne (hx c List.mem_cons_self)
    have hx' : ∀ c ∈ x', altChar c = true := fun y hy => hx y (List.mem_cons_of_mem _ hy)
    cases b with
    | nil =>
      simp only [List.cons_append, List.nil_append, optGo, c44, c125, or_self, ↓reduceIte, c0,
        ne_eq, not_true_eq_false, and_false, List.isPrefixOf, Bool.false_eq_true]
      exact optGo_skip pre x' t q pre hx' ht
    | cons d b' =>
      have hd : d ≠ 0 := hb.head
      by_cases hcd : c = d
      · subst hcd
        simp only [List.cons_append, optGo, c44, c125, or_self, ↓reduceIte, ne_eq, hd,
          not_false_eq_true, and_self, List.isPrefixOf, BEq.rfl, Bool.true_and, List.length_cons,
          List.drop_succ_cons]
        exact ih hx' b' ex hb.tail
      · have hbeq : (c == d) = false := by simp [hcd]
        simp only [List.cons_append, optGo, c44, c125, or_self, ↓reduceIte, hcd, ne_eq, false_and,
          c0, List.isPrefixOf, hbeq, Bool.false_and, Bool.false_eq_true]
        exact optGo_skip pre x' t q pre hx' ht

theorem optEnd_skip (z p' : Bytes) (hz : ∀ c ∈ z, c ≠ 0 ∧ c ≠ 125) : optEnd (z ++ 125 :: p') = some p' := by
  induction z with
  | nil => simp [optEnd]
  | cons c z' ih =>
    obtain ⟨c0, c125⟩ := hz c List.mem_cons_self
    simp only [List.cons_append, optEnd, c0, ↓reduceIte, c125]
    exact ih (fun x hx => hz x (List.mem_cons_of_mem _ hx))

theorem joinAlts_chars (as : List Bytes) (has : ∀ x ∈ as, ∀ c ∈ x, altChar c = true) :
    ∀ c ∈ joinAlts as, c ≠ 0 ∧ c ≠ 125 := by
  induction as with
  | nil => simp [joinAlts]
  | cons x r ih =>
    cases r with
    | nil =>
      intro c hc
      simp only [joinAlts] at hc
      have := altChar_ne (has x List.mem_cons_self c hc)
      exact ⟨this.1, this.2.2⟩
    | cons y r' =>
      intro c hc
      simp only [joinAlts, List.mem_append, List.mem_cons] at hc
      rcases hc with hc | rfl | hc
      · have := altChar_ne (has x List.mem_cons_self c hc)
        exact ⟨this.1, this.2.2⟩
      · decide
      · exact ih (fun z hz => has z (List.mem_cons_of_mem _ hz)) c hc

/-- the `{a,b,…}` group: the first alternative that is a prefix of the address wins -/
theorem optGo_alts (p' a ex : Bytes) (ha : NulFree a) :
    ∀ (as : List Bytes), as ≠ [] → (∀ x ∈ as, ∀ c ∈ x, altChar c = true) →
    optGo (a ++ 0 :: ex) false (joinAlts as ++ 125 :: p') (a ++ 0 :: ex) =
      match as.find? (·.isPrefixOf a) with
      | some x => .ok (p', a.drop x.length ++ 0 :: ex)
      | none => .fail := by
  intro as
  induction as with
  | nil => intro h; exact absurd rfl h
  | cons x r ih =>
    intro _ has
    have hx := has x List.mem_cons_self
    cases r with
    | nil =>
      simp only [joinAlts]
      rw [optGo_cmp _ x 125 p' hx (Or.inr rfl) a ex ha]
      by_cases hp : x.isPrefixOf a = true
      · simp [hp, optEnd]
      · simp [hp]
    | cons y r' =>
      have has' : ∀ z ∈ y :: r', ∀ c ∈ z, altChar c = true := fun z hz => has z (List.mem_cons_of_mem _ hz)
      simp only [joinAlts, List.append_assoc, List.cons_append]
      rw [optGo_cmp _ x 44 _ hx (Or.inl rfl) a ex ha]
      by_cases hp : x.isPrefixOf a = true
      · have : optEnd (44 :: (joinAlts (y :: r') ++ 125 :: p')) = some p' := by
          simp only [optEnd, show ¬((44:UInt8) = 0) by decide, show ¬((44:UInt8) = 125) by decide, ↓reduceIte]
          exact optEnd_skip _ _ (joinAlts_chars _ has')
        simp [hp, this]
      · have h44 : ¬((44:UInt8) = 125) := by decide
        simp only [hp, Bool.false_eq_true, ↓reduceIte, h44, List.find?_cons]
        exact ih (by simp) has'

theorem path_alts (as : List Bytes) (p' : Bytes) (hne : as ≠ [])
    (has : ∀ x ∈ as, ∀ c ∈ x, altChar c = true) (a ex : Bytes) (ha : NulFree a) :
    path (123 :: (joinAlts as ++ [125]) ++ p') (a ++ 0 :: ex) =
      match as.find? (·.isPrefixOf a) with
      | some x => path p' (a.drop x.length ++ 0 :: ex)
      | none => .fail := by
  rw [path_eq_body]
  have h := optGo_alts p' a ex ha as hne has
  have h123 : ¬((123:UInt8) = 58) := by decide
  simp only [List.cons_append, List.append_assoc, List.nil_append, body, h123, ↓reduceIte, options, h]
  cases as.find? (·.isPrefixOf a) <;> rfl


/-! ## Part 3 -/
/-- What the code computes on a rendered pattern: segments are consumed left to right,
    a `{}` group commits to its first alternative that is a prefix of the address.
    Result: what is left of the address behind `*path_end`. -/
def greedy : List Seg → Bool → Bytes → Option Bytes
  | [], false, a => if a = [] then some [] else none
  | [], true, a =>
    match a with
    | [] => none
    | d :: t => if d = 47 then some t else none
  | .lit s :: r, sub, a => if s.isPrefixOf a then greedy r sub (a.drop s.length) else none
  | .enum ds :: r, sub, a =>
    if a.takeWhile isDigit ≠ [] ∧ decVal (a.takeWhile isDigit) < decVal ds
    then greedy r sub (a.dropWhile isDigit) else none
  | .alts as :: r, sub, a =>
    match as.find? (·.isPrefixOf a) with
    | some x => greedy r sub (a.drop x.length)
    | none => none

theorem segsWf_cons {sub : Bool} {s : Seg} {rest : List Seg} (h : segsWf sub (s :: rest) = true) :
    s.wf = true ∧ segsWf sub rest = true ∧
    (∀ ds, s = .enum ds → ∀ t r, rest = t :: r → t.startsWithDigit = false) ∧
    (rest = [] → sub = false → ∀ t, s = .lit t → t.getLast? ≠ some 47) := by
  cases rest with
  | nil =>
    simp only [segsWf, Bool.and_eq_true, Bool.or_eq_true] at h
    refine ⟨h.1, rfl, ?_, ?_⟩
    · intro ds _ t r h'; simp at h'
    · intro _ hsub t ht
      subst ht
      rcases h.2 with h2 | h2
      · simp [hsub] at h2
      · simpa using h2
  | cons t r =>
    simp only [segsWf, Bool.and_eq_true] at h
    refine ⟨h.1.1, h.2, ?_, ?_⟩
    · intro ds hs t' r' h'
      subst hs
      simp only [List.cons.injEq] at h'
      obtain ⟨rfl, rfl⟩ := h'
      simpa using h.1.2
    · intro h'; simp at h'

/-- the pattern character that follows a segment -/
theorem next_head (sub : Bool) (c : UInt8) (x : Bytes) (hc : c = 0 ∨ c = 58)
    (rest : List Seg) (hwf : segsWf sub rest = true) :
    ∃ e y, renderSegs rest ++ ((if sub then [47] else []) ++ c :: x) = e :: y ∧
      ((∀ t r, rest = t :: r → t.startsWithDigit = false) → isDigit e = false) ∧
      ((rest = [] → sub = true) → e ≠ 0 ∧ e ≠ 58) := by
  cases rest with
  | nil =>
    cases sub with
    | true => exact ⟨47, c :: x, by simp [renderSegs], fun _ => by decide, fun _ => by decide⟩
    | false =>
      refine ⟨c, x, by simp [renderSegs], fun _ => ?_, fun h => ?_⟩
      · rcases hc with rfl | rfl <;> decide
      · simp at h
  | cons t r =>
    obtain ⟨htwf, _, _, _⟩ := segsWf_cons hwf
    cases t with
    | lit s =>
      simp only [Seg.wf, Bool.and_eq_true, Bool.not_eq_eq_eq_not, Bool.not_true, List.isEmpty_eq_false_iff, List.all_eq_true] at htwf
      obtain ⟨e, s', rfl⟩ := List.exists_cons_of_ne_nil htwf.1
      refine ⟨e, s' ++ (renderSegs r ++ ((if sub then [47] else []) ++ c :: x)), by simp [renderSegs, Seg.render], ?_, ?_⟩
      · intro h
        have := h _ _ rfl
        simpa [Seg.startsWithDigit] using this
      · intro _
        have := litChar_ne (htwf.2 e List.mem_cons_self)
        exact ⟨this.1, this.2.2.2.2⟩
    | enum ds =>
      exact ⟨35, ds ++ (renderSegs r ++ ((if sub then [47] else []) ++ c :: x)), by simp [renderSegs, Seg.render],
        fun _ => by decide, fun _ => by decide⟩
    | alts as =>
      exact ⟨123, joinAlts as ++ [125] ++ (renderSegs r ++ ((if sub then [47] else []) ++ c :: x)),
        by simp [renderSegs, Seg.render], fun _ => by decide, fun _ => by decide⟩

/-- **the code on a rendered pattern is `greedy`** -/
theorem path_greedy (sub : Bool) (c : UInt8) (x : Bytes) (hc : c = 0 ∨ c = 58) :
    ∀ (segs : List Seg), segsWf sub segs = true → ∀ (a ex : Bytes), NulFree a → IdxBounded a →
    path (renderSegs segs ++ ((if sub then [47] else []) ++ c :: x)) (a ++ 0 :: ex) =
      match greedy segs sub a with
      | none => .fail
      | some t => .ok (c :: x, t ++ 0 :: ex) := by
  intro segs
  induction segs with
  | nil =>
    intro _ a ex ha _
    cases sub with
    | false =>
      simp only [renderSegs, Bool.false_eq_true, ↓reduceIte, List.nil_append, greedy]
      rw [path_end c x a ex hc ha]
      by_cases h : a = [] <;> simp [h]
    | true =>
      simp only [renderSegs, ↓reduceIte, List.nil_append, List.cons_append, greedy]
      rw [path_slash_end c x a ex hc ha]
      cases a with
      | nil => rfl
      | cons d t => by_cases h : d = 47 <;> simp [h]
  | cons s rest ih =>
    intro hwf a ex ha hb
    obtain ⟨hs, hrest, henum, hlit⟩ := segsWf_cons hwf
    obtain ⟨e, y, hey, hdig, hend⟩ := next_head sub c x hc rest hrest
    cases s with
    | lit t =>
      simp only [Seg.wf, Bool.and_eq_true, List.all_eq_true] at hs
      simp only [renderSegs, Seg.render, List.append_assoc, greedy]
      rw [path_lit t _ hs.2 (fun h47 => ⟨e, y, hey, hend (fun hr => by
          cases hsub : sub with
          | true => rfl
          | false => exact absurd h47 (hlit hr hsub t rfl))⟩) a ex ha]
      by_cases hp : t.isPrefixOf a = true
      · simp only [hp, ↓reduceIte]
        exact ih hrest _ ex (ha.drop _) (hb.drop _)
      · simp [hp]
    | enum ds =>
      simp only [Seg.wf, Bool.and_eq_true, Bool.not_eq_eq_eq_not, Bool.not_true, List.isEmpty_eq_false_iff,
        List.all_eq_true, decide_eq_true_eq] at hs
      simp only [renderSegs, Seg.render, List.cons_append, List.append_assoc, greedy]
      have := path_enum ds (renderSegs rest ++ ((if sub then [47] else []) ++ c :: x)) hs.1.1 hs.1.2 hs.2
        ⟨e, y, hey, hdig (henum ds rfl)⟩ a ex ha hb
      simp only [List.cons_append] at this
      rw [this]
      by_cases hp : a.takeWhile isDigit ≠ [] ∧ decVal (a.takeWhile isDigit) < decVal ds
      · simp only [hp, ne_eq, not_false_eq_true, and_self, ↓reduceIte]
        have hdrop : NulFree (a.dropWhile isDigit) := fun z hz => ha z ((List.dropWhile_sublist _).subset hz)
        exact ih hrest _ ex hdrop hb.dropWhile
      · simp [hp]
    | alts as =>
      simp only [Seg.wf, Bool.and_eq_true, Bool.not_eq_eq_eq_not, Bool.not_true, List.isEmpty_eq_false_iff,
        List.all_eq_true] at hs
      simp only [renderSegs, Seg.render, greedy]
      rw [List.append_assoc, path_alts as _ hs.1 hs.2 a ex ha]
      cases hf : as.find? (·.isPrefixOf a) with
      | none => rfl
      | some z => exact ih hrest _ ex (ha.drop _) (hb.drop _)


end Rtosc.Match
