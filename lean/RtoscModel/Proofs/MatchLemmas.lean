/-
  Helper lemmas for C05 (path-pattern matcher).  Property theorems are in Props/C05.lean.

  Part 1: every iteration of `rtosc_match_path` moves the pattern pointer forward, hence
          `path p m = body path p m` (the fuel `p.length + 1` always suffices).
  Part 2: what one iteration does on the rendering of each kind of segment.
  Part 3: the code on a rendered pattern is the greedy matcher `greedy`.
  Part 4: `greedy` against the specification `SpellsAll`.
  Part 5: the type matcher and its copies; `rtosc_argument_string` on a laid-out message.
-/
import RtoscModel.Match.Path
import RtoscModel.Match.Copies
import RtoscModel.Match.Spec
namespace Rtosc.Match
open Rtosc

/-! ## Part 1 -/

theorem spanDigits_length {p d t} (h : spanDigits p = some (d, t)) : t.length + d.length = p.length := by
  induction p generalizing d t with
  | nil => simp [spanDigits] at h
  | cons c r ih =>
    simp only [spanDigits] at h
    split at h
    · split at h
      · simp at h
      · next d' t' heq =>
        simp only [Option.some.injEq, Prod.mk.injEq] at h
        obtain ⟨rfl, rfl⟩ := h
        have := ih heq
        simp only [List.length_cons]; omega
    · simp only [Option.some.injEq, Prod.mk.injEq] at h
      obtain ⟨rfl, rfl⟩ := h
      simp

theorem number_length {p m p' m'} (h : number p m = .ok (p', m')) : p'.length < p.length := by
  unfold number at h
  split at h
  · simp at h
  · next c r =>
    split at h
    · simp at h
    · next hc =>
      split at h
      · simp at h
      · split at h
        · simp at h
        · split at h
          · next pd p1 md m1 h1 h2 =>
            split at h
            · simp only [Res.ok.injEq, Prod.mk.injEq] at h
              obtain ⟨rfl, rfl⟩ := h
              have hl := spanDigits_length h1
              -- pd is non-empty because c is a digit
              simp only [spanDigits] at h1
              simp only [Bool.not_eq_eq_eq_not, Bool.not_true] at hc
              have hc' : isDigit c = true := by
                cases hh : isDigit c <;> simp_all
              simp only [hc', ↓reduceIte] at h1
              split at h1
              · simp at h1
              · simp only [Option.some.injEq, Prod.mk.injEq] at h1
                obtain ⟨rfl, rfl⟩ := h1
                simp only [List.length_cons] at hl ⊢; omega
            · simp at h
          · simp at h



theorem optEnd_length {p p'} (h : optEnd p = some p') : p'.length ≤ p.length := by
  induction p with
  | nil => simp [optEnd] at h
  | cons c r ih =>
    simp only [optEnd] at h
    split at h
    · simp only [Option.some.injEq] at h; subst h; simp
    · split at h
      · simp only [Option.some.injEq] at h; subst h; simp
      · have := ih h; simp only [List.length_cons]; omega

theorem optGo_length {pre sk p m p' m'} (h : optGo pre sk p m = .ok (p', m')) : p'.length ≤ p.length := by
  induction p generalizing sk m with
  | nil => cases sk <;> simp [optGo] at h
  | cons c r ih =>
    cases sk with
    | true =>
      simp only [optGo] at h
      split at h
      · simp at h
      · split at h
        · have := ih h; simp only [List.length_cons]; omega
        · have := ih h; simp only [List.length_cons]; omega
    | false =>
      simp only [optGo] at h
      split at h
      · split at h
        · simp at h
        · next p1 hp1 =>
          simp only [Res.ok.injEq, Prod.mk.injEq] at h
          obtain ⟨rfl, rfl⟩ := h
          exact optEnd_length hp1
      · split at h
        · simp at h
        · split at h
          · have := ih h; simp only [List.length_cons]; omega
          · split at h
            · simp at h
            · have := ih h; simp only [List.length_cons]; omega

theorem options_length {c r m p' m'} (h : options (c :: r) m = .ok (p', m')) : p'.length ≤ r.length := by
  simp only [options] at h
  exact optGo_length h

theorem starPat_length {p p'} (h : starPat p = some p') : p'.length ≤ p.length := by
  induction p with
  | nil => simp [starPat] at h
  | cons c r ih =>
    simp only [starPat] at h
    split at h
    · simp only [Option.some.injEq] at h; subst h; simp
    · have := ih h; simp only [List.length_cons]; omega

theorem starPat_star {r p'} (h : starPat (42 :: r) = some p') : p'.length ≤ r.length := by
  simp only [starPat, show ¬((42:UInt8) = 0 ∨ (42:UInt8) = 47 ∨ (42:UInt8) = 58) by decide, ↓reduceIte] at h
  exact starPat_length h

/-- the continuation is only ever applied to a strictly shorter pattern -/
theorem body_congr {k1 k2 : Bytes → Bytes → Res (Bytes × Bytes)} {p m : Bytes}
    (h : ∀ p' m', p'.length < p.length → k1 p' m' = k2 p' m') : body k1 p m = body k2 p m := by
  unfold body
  split
  · rfl
  · next c r =>
    split
    · rfl
    · split
      · split
        · rfl
        · rfl
        · next p' m' hop =>
          apply h
          have := options_length hop
          simp only [List.length_cons]; omega
      · split
        · next hc =>
          subst hc
          split
          · rfl
          · rfl
          · next e p' hsp =>
            have hl := starPat_star hsp
            simp only [List.length_cons] at hl
            split
            · split
              · rfl
              · apply h; simp only [List.length_cons]; omega
            · apply h; simp only [List.length_cons]; omega
        · split
          · split
            · rfl
            · split
              · split
                · rfl
                · split
                  · rfl
                  · apply h; simp
              · rfl
          · split
            · split
              · rfl
              · rfl
              · next p' m' hn =>
                apply h
                have := number_length hn
                simp only [List.length_cons]; omega
            · split
              · rfl
              · split
                · split
                  · apply h; simp
                  · rfl
                · rfl

theorem pathGo_indep : ∀ (f g : Nat) (p m : Bytes), p.length < f → p.length < g →
    pathGo f p m = pathGo g p m := by
  intro f
  induction f with
  | zero => intro g p m h; omega
  | succ f ih =>
    intro g p m hf hg
    cases g with
    | zero => omega
    | succ g =>
      simp only [pathGo]
      apply body_congr
      intro p' m' hp'
      apply ih <;> omega

theorem path_eq_body (p m : Bytes) : path p m = body path p m := by
  show body (pathGo p.length) p m = body path p m
  apply body_congr
  intro p' m' hp'
  show pathGo p.length p' m' = pathGo (p'.length + 1) p' m'
  apply pathGo_indep <;> omega


/-! ## Part 2 -/
theorem NulFree.head {c : UInt8} {a : Bytes} (h : NulFree (c :: a)) : c ≠ 0 := h c List.mem_cons_self
theorem NulFree.tail {c : UInt8} {a : Bytes} (h : NulFree (c :: a)) : NulFree a :=
  fun x hx => h x (List.mem_cons_of_mem _ hx)
theorem NulFree.drop {a : Bytes} (h : NulFree a) (n : Nat) : NulFree (a.drop n) :=
  fun x hx => h x (List.mem_of_mem_drop hx)

/-- the pattern's path has ended (NUL or ':'): match iff the address has ended too -/
theorem path_end (c : UInt8) (x a ex : Bytes) (hc : c = 0 ∨ c = 58) (ha : NulFree a) :
    path (c :: x) (a ++ 0 :: ex) = if a = [] then .ok (c :: x, 0 :: ex) else .fail := by
  rw [path_eq_body]
  cases a with
  | nil =>
    rcases hc with rfl | rfl <;> simp [body]
  | cons d a' =>
    have hd : d ≠ 0 := ha.head
    rcases hc with rfl | rfl
    · simp [body, Ne.symm hd]
    · simp [body, hd]

/-- trailing '/': the address must have a '/' here; what follows it is arbitrary -/
theorem path_slash_end (c : UInt8) (x a ex : Bytes) (hc : c = 0 ∨ c = 58) (ha : NulFree a) :
    path (47 :: c :: x) (a ++ 0 :: ex) =
      match a with
      | [] => .fail
      | d :: t => if d = 47 then .ok (c :: x, t ++ 0 :: ex) else .fail := by
  rw [path_eq_body]
  cases a with
  | nil => simp [body]
  | cons d a' =>
    by_cases hd : d = 47
    · subst hd
      simp [body, hc]
    · simp [body, hd]

theorem litChar_ne {c : UInt8} (h : litChar c = true) :
    c ≠ 0 ∧ c ≠ 35 ∧ c ≠ 123 ∧ c ≠ 42 ∧ c ≠ 58 := by
  simp only [litChar, Bool.and_eq_true, bne_iff_ne, ne_eq] at h
  obtain ⟨⟨⟨⟨h1, h2⟩, h3⟩, h4⟩, h5⟩ := h
  exact ⟨h1, h2, h3, h4, h5⟩

/-- literal text is compared character by character -/
theorem path_lit (s p' : Bytes) (hs : ∀ c ∈ s, litChar c = true)
    (hlast : s.getLast? = some 47 → ∃ e t, p' = e :: t ∧ e ≠ 0 ∧ e ≠ 58) :
    ∀ (a ex : Bytes), NulFree a →
    path (s ++ p') (a ++ 0 :: ex) =
      if s.isPrefixOf a then path p' (a.drop s.length ++ 0 :: ex) else .fail := by
  induction s with
  | nil => intro a ex _; simp
  | cons c s' ih =>
    intro a ex ha
    obtain ⟨c0, c35, c123, c42, c58⟩ := litChar_ne (hs c List.mem_cons_self)
    have hs' : ∀ c ∈ s', litChar c = true := fun x hx => hs x (List.mem_cons_of_mem _ hx)
    -- the next pattern character is not the end of the path
    have hnext : ∃ e t, s' ++ p' = e :: t ∧ e ≠ 0 ∧ e ≠ 58 ∨ c ≠ 47 := by
      cases s' with
      | nil =>
        by_cases h47 : c = 47
        · subst h47
          obtain ⟨e, t, h1, h2, h3⟩ := hlast (by simp)
          exact ⟨e, t, Or.inl ⟨by simpa using h1, h2, h3⟩⟩
        · exact ⟨0, [], Or.inr h47⟩
      | cons e t =>
        obtain ⟨e0, _, _, _, e58⟩ := litChar_ne (hs' e List.mem_cons_self)
        exact ⟨e, t ++ p', Or.inl ⟨by simp, e0, e58⟩⟩
    have hlast' : s'.getLast? = some 47 → ∃ e t, p' = e :: t ∧ e ≠ 0 ∧ e ≠ 58 := by
      intro h
      apply hlast
      cases s' with
      | nil => simp at h
      | cons e t => simpa [List.getLast?_cons_cons] using h
    rw [path_eq_body]
    cases a with
    | nil =>
      by_cases h47 : c = 47
      · subst h47; simp [body]
      · simp [body, c58, c123, c42, h47, c35, c0]
    | cons d a' =>
      have hd : d ≠ 0 := ha.head
      have ih' := ih hs' hlast' a' ex ha.tail
      by_cases h47 : c = 47
      · subst h47
        by_cases hd47 : d = 47
        · subst hd47
          obtain ⟨e, t, h | h⟩ := hnext
          · obtain ⟨h1, h2, h3⟩ := h
            simp only [List.cons_append, body, c58, ↓reduceIte, c123, c42, h1, h2, h3, or_self]
            rw [← h1, ih']
            simp
          · exact absurd rfl h
        · have : ¬ ((47 : UInt8) = d) := fun h => hd47 h.symm
          simp [body, hd47, this]
      · by_cases hcd : c = d
        · subst hcd
          simp only [List.cons_append, body, c58, ↓reduceIte, c123, c42, h47, c35, ne_eq, hd,
            not_false_eq_true]
          rw [ih']
          simp
        · simp [body, c58, c123, c42, h47, c35, hcd]


theorem atoiU_of_lt {ds : Bytes} (h : decVal ds < 2 ^ 31) : atoiU ds = decVal ds := by
  unfold atoiU
  have h1 : min (decVal ds) (2 ^ 63 - 1) = decVal ds := by
    apply Nat.min_eq_left; omega
  rw [h1]
  apply Nat.mod_eq_of_lt; omega

theorem spanDigits_takeWhile (a t : Bytes) (ht : ∃ e x, t = e :: x ∧ isDigit e = false) :
    spanDigits (a ++ t) = some (a.takeWhile isDigit, a.dropWhile isDigit ++ t) := by
  induction a with
  | nil =>
    obtain ⟨e, x, rfl, he⟩ := ht
    simp [spanDigits, he]
  | cons c a' ih =>
    by_cases hc : isDigit c = true
    · simp [spanDigits, hc, ih]
    · simp only [Bool.not_eq_true] at hc
      simp [spanDigits, hc]

theorem takeWhile_all {ds : Bytes} (h : ∀ c ∈ ds, isDigit c = true) : ds.takeWhile isDigit = ds := by
  induction ds with
  | nil => rfl
  | cons c r ih =>
    have := h c List.mem_cons_self
    simp [this, ih (fun x hx => h x (List.mem_cons_of_mem _ hx))]

theorem dropWhile_all {ds : Bytes} (h : ∀ c ∈ ds, isDigit c = true) : ds.dropWhile isDigit = [] := by
  induction ds with
  | nil => rfl
  | cons c r ih =>
    have := h c List.mem_cons_self
    simp [this, ih (fun x hx => h x (List.mem_cons_of_mem _ hx))]

theorem isDigit_zero : isDigit 0 = false := by decide

theorem mem_takeWhile_digit {a : Bytes} {c : UInt8} (h : c ∈ a.takeWhile isDigit) : isDigit c = true := by
  induction a with
  | nil => simp at h
  | cons d r ih =>
    by_cases hd : isDigit d = true
    · simp only [List.takeWhile_cons, hd, ↓reduceIte, List.mem_cons] at h
      rcases h with rfl | h
      · exact hd
      · exact ih h
    · simp [hd] at h

theorem IdxBounded.takeWhile {a : Bytes} (h : IdxBounded a) : decVal (a.takeWhile isDigit) < 2 ^ 31 := by
  apply h [] (a.takeWhile isDigit) (a.dropWhile isDigit)
  · simp
  · intro c hc
    exact mem_takeWhile_digit hc

theorem IdxBounded.suffix {x y : Bytes} (h : IdxBounded (x ++ y)) : IdxBounded y := by
  intro pre run post he hr
  exact h (x ++ pre) run post (by simp [he]) hr

theorem IdxBounded.drop {a : Bytes} (h : IdxBounded a) (n : Nat) : IdxBounded (a.drop n) := by
  have : a = a.take n ++ a.drop n := (List.take_append_drop n a).symm
  rw [this] at h
  exact h.suffix

theorem IdxBounded.dropWhile {a : Bytes} (h : IdxBounded a) : IdxBounded (a.dropWhile isDigit) := by
  have : a = a.takeWhile isDigit ++ a.dropWhile isDigit := List.takeWhile_append_dropWhile.symm
  rw [this] at h
  exact h.suffix

/-- `#N`: the whole digit run of the address is read and compared with N -/
theorem path_enum (ds p' : Bytes) (hne : ds ≠ []) (hds : ∀ c ∈ ds, isDigit c = true)
    (hN : decVal ds < 2 ^ 31) (hp' : ∃ e x, p' = e :: x ∧ isDigit e = false)
    (a ex : Bytes) (ha : NulFree a) (hb : IdxBounded a) :
    path (35 :: ds ++ p') (a ++ 0 :: ex) =
      if a.takeWhile isDigit ≠ [] ∧ decVal (a.takeWhile isDigit) < decVal ds
      then path p' (a.dropWhile isDigit ++ 0 :: ex) else .fail := by
  rw [path_eq_body]
  have hsp : spanDigits (ds ++ p') = some (ds, p') := by
    have := spanDigits_takeWhile ds p' hp'
    rwa [takeWhile_all hds, dropWhile_all hds, List.nil_append] at this
  have hsm : spanDigits (a ++ 0 :: ex) = some (a.takeWhile isDigit, a.dropWhile isDigit ++ 0 :: ex) :=
    spanDigits_takeWhile a (0 :: ex) ⟨0, ex, rfl, isDigit_zero⟩
  obtain ⟨c, ds', rfl⟩ := List.exists_cons_of_ne_nil hne
  have hc : isDigit c = true := hds c List.mem_cons_self
  have h35 : ¬ ((35:UInt8) = 58) ∧ ¬ ((35:UInt8) = 123) ∧ ¬ ((35:UInt8) = 42) ∧ ¬ ((35:UInt8) = 47) := by decide
  cases a with
  | nil =>
    simp [body, number, hc, isDigit_zero]
  | cons d a' =>
    by_cases hd : isDigit d = true
    · have htw : (d :: a').takeWhile isDigit ≠ [] := by simp [hd]
      have hv := atoiU_of_lt hb.takeWhile
      have hv2 := atoiU_of_lt hN
      simp only [List.cons_append] at hsp hsm
      simp only [List.cons_append, body, h35, ↓reduceIte, number, hc, hd, Bool.not_true,
        Bool.false_eq_true, hsp, hsm, hv, hv2, htw, ne_eq, not_false_eq_true, true_and]
      by_cases hlt : decVal (List.takeWhile isDigit (d :: a')) < decVal (c :: ds')
      · simp [hlt]
      · simp [hlt]
    · simp only [Bool.not_eq_true] at hd
      simp [body, number, hc, hd]


theorem altChar_ne {c : UInt8} (h : altChar c = true) : c ≠ 0 ∧ c ≠ 44 ∧ c ≠ 125 := by
  simp only [altChar, Bool.and_eq_true, bne_iff_ne, ne_eq] at h
  obtain ⟨⟨h1, h2⟩, h3⟩ := h
  exact ⟨h1, h2, h3⟩

/-- the `try_next` scan runs to the ',' or '}' that ends the alternative -/
theorem optGo_skip (pre : Bytes) (y : Bytes) (t : UInt8) (q m : Bytes)
    (hy : ∀ c ∈ y, altChar c = true) (ht : t = 44 ∨ t = 125) :
    optGo pre true (y ++ t :: q) m = if t = 125 then .fail else optGo pre false q pre := by
  induction y generalizing m with
  | nil =>
    rcases ht with rfl | rfl <;> simp [optGo]
  | cons c y' ih =>
    obtain ⟨c0, c44, c125⟩ := altChar_ne (hy c List.mem_cons_self)
    simp only [List.cons_append, optGo, c0, c125, or_self, ↓reduceIte, c44]
    exact ih _ (fun x hx => hy x (List.mem_cons_of_mem _ hx))

/-- one alternative is compared verbatim with the message -/
theorem optGo_cmp (pre : Bytes) (x : Bytes) (t : UInt8) (q : Bytes)
    (hx : ∀ c ∈ x, altChar c = true) (ht : t = 44 ∨ t = 125) :
    ∀ (b ex : Bytes), NulFree b →
    optGo pre false (x ++ t :: q) (b ++ 0 :: ex) =
      if x.isPrefixOf b then
        (match optEnd (t :: q) with
         | none => .oob
         | some p'' => .ok (p'', b.drop x.length ++ 0 :: ex))
      else (if t = 125 then .fail else optGo pre false q pre) := by
  induction x with
  | nil =>
    intro b ex _
    have : t = 44 ∨ t = 125 := ht
    simp only [List.nil_append, optGo, this, ↓reduceIte, List.isPrefixOf, List.length_nil, List.drop_zero]
    rfl
  | cons c x' ih =>
    intro b ex hb
    obtain ⟨c0, c44, c125⟩ := altChar_ne (hx c List.mem_cons_self)
    have hx' : ∀ c ∈ x', altChar c = true := fun y hy => hx y (List.mem_cons_of_mem _ hy)
    cases b with
    | nil =>
      simp only [List.cons_append, List.nil_append, optGo, c44, c125, or_self, ↓reduceIte, c0,
        ne_eq, not_true_eq_false, and_false, List.isPrefixOf, Bool.false_eq_true]
      exact optGo_skip pre x' t q pre hx' ht
    | cons d b' =>
      have hd : d ≠ 0 := hb.head
      by_cases hcd : c = d
      · subst hcd
        simp only [List.cons_append, optGo, c44, c125, or_self, ↓reduceIte, ne_eq, hd,
          not_false_eq_true, and_self, List.isPrefixOf, BEq.rfl, Bool.true_and, List.length_cons,
          List.drop_succ_cons]
        exact ih hx' b' ex hb.tail
      · have hbeq : (c == d) = false := by simp [hcd]
        simp only [List.cons_append, optGo, c44, c125, or_self, ↓reduceIte, hcd, ne_eq, false_and,
          c0, List.isPrefixOf, hbeq, Bool.false_and, Bool.false_eq_true]
        exact optGo_skip pre x' t q pre hx' ht

theorem optEnd_skip (z p' : Bytes) (hz : ∀ c ∈ z, c ≠ 0 ∧ c ≠ 125) : optEnd (z ++ 125 :: p') = some p' := by
  induction z with
  | nil => simp [optEnd]
  | cons c z' ih =>
    obtain ⟨c0, c125⟩ := hz c List.mem_cons_self
    simp only [List.cons_append, optEnd, c0, ↓reduceIte, c125]
    exact ih (fun x hx => hz x (List.mem_cons_of_mem _ hx))

theorem joinAlts_chars (as : List Bytes) (has : ∀ x ∈ as, ∀ c ∈ x, altChar c = true) :
    ∀ c ∈ joinAlts as, c ≠ 0 ∧ c ≠ 125 := by
  induction as with
  | nil => simp [joinAlts]
  | cons x r ih =>
    cases r with
    | nil =>
      intro c hc
      simp only [joinAlts] at hc
      have := altChar_ne (has x List.mem_cons_self c hc)
      exact ⟨this.1, this.2.2⟩
    | cons y r' =>
      intro c hc
      simp only [joinAlts, List.mem_append, List.mem_cons] at hc
      rcases hc with hc | rfl | hc
      · have := altChar_ne (has x List.mem_cons_self c hc)
        exact ⟨this.1, this.2.2⟩
      · decide
      · exact ih (fun z hz => has z (List.mem_cons_of_mem _ hz)) c hc

/-- the `{a,b,…}` group: the first alternative that is a prefix of the address wins -/
theorem optGo_alts (p' a ex : Bytes) (ha : NulFree a) :
    ∀ (as : List Bytes), as ≠ [] → (∀ x ∈ as, ∀ c ∈ x, altChar c = true) →
    optGo (a ++ 0 :: ex) false (joinAlts as ++ 125 :: p') (a ++ 0 :: ex) =
      match as.find? (·.isPrefixOf a) with
      | some x => .ok (p', a.drop x.length ++ 0 :: ex)
      | none => .fail := by
  intro as
  induction as with
  | nil => intro h; exact absurd rfl h
  | cons x r ih =>
    intro _ has
    have hx := has x List.mem_cons_self
    cases r with
    | nil =>
      simp only [joinAlts]
      rw [optGo_cmp _ x 125 p' hx (Or.inr rfl) a ex ha]
      by_cases hp : x.isPrefixOf a = true
      · simp [hp, optEnd]
      · simp [hp]
    | cons y r' =>
      have has' : ∀ z ∈ y :: r', ∀ c ∈ z, altChar c = true := fun z hz => has z (List.mem_cons_of_mem _ hz)
      simp only [joinAlts, List.append_assoc, List.cons_append]
      rw [optGo_cmp _ x 44 _ hx (Or.inl rfl) a ex ha]
      by_cases hp : x.isPrefixOf a = true
      · have : optEnd (44 :: (joinAlts (y :: r') ++ 125 :: p')) = some p' := by
          simp only [optEnd, show ¬((44:UInt8) = 0) by decide, show ¬((44:UInt8) = 125) by decide, ↓reduceIte]
          exact optEnd_skip _ _ (joinAlts_chars _ has')
        simp [hp, this]
      · have h44 : ¬((44:UInt8) = 125) := by decide
        simp only [hp, Bool.false_eq_true, ↓reduceIte, h44, List.find?_cons]
        exact ih (by simp) has'

theorem path_alts (as : List Bytes) (p' : Bytes) (hne : as ≠ [])
    (has : ∀ x ∈ as, ∀ c ∈ x, altChar c = true) (a ex : Bytes) (ha : NulFree a) :
    path (123 :: (joinAlts as ++ [125]) ++ p') (a ++ 0 :: ex) =
      match as.find? (·.isPrefixOf a) with
      | some x => path p' (a.drop x.length ++ 0 :: ex)
      | none => .fail := by
  rw [path_eq_body]
  have h := optGo_alts p' a ex ha as hne has
  have h123 : ¬((123:UInt8) = 58) := by decide
  simp only [List.cons_append, List.append_assoc, List.nil_append, body, h123, ↓reduceIte, options, h]
  cases as.find? (·.isPrefixOf a) <;> rfl


/-! ## Part 3 -/
/-- What the code computes on a rendered pattern: segments are consumed left to right,
    a `{}` group commits to its first alternative that is a prefix of the address.
    Result: what is left of the address behind `*path_end`. -/
def greedy : List Seg → Bool → Bytes → Option Bytes
  | [], false, a => if a = [] then some [] else none
  | [], true, a =>
    match a with
    | [] => none
    | d :: t => if d = 47 then some t else none
  | .lit s :: r, sub, a => if s.isPrefixOf a then greedy r sub (a.drop s.length) else none
  | .enum ds :: r, sub, a =>
    if a.takeWhile isDigit ≠ [] ∧ decVal (a.takeWhile isDigit) < decVal ds
    then greedy r sub (a.dropWhile isDigit) else none
  | .alts as :: r, sub, a =>
    match as.find? (·.isPrefixOf a) with
    | some x => greedy r sub (a.drop x.length)
    | none => none

theorem segsWf_cons {sub : Bool} {s : Seg} {rest : List Seg} (h : segsWf sub (s :: rest) = true) :
    s.wf = true ∧ segsWf sub rest = true ∧
    (∀ ds, s = .enum ds → ∀ t r, rest = t :: r → t.startsWithDigit = false) ∧
    (rest = [] → sub = false → ∀ t, s = .lit t → t.getLast? ≠ some 47) := by
  cases rest with
  | nil =>
    simp only [segsWf, Bool.and_eq_true, Bool.or_eq_true] at h
    refine ⟨h.1, rfl, ?_, ?_⟩
    · intro ds _ t r h'; simp at h'
    · intro _ hsub t ht
      subst ht
      rcases h.2 with h2 | h2
      · simp [hsub] at h2
      · simpa using h2
  | cons t r =>
    simp only [segsWf, Bool.and_eq_true] at h
    refine ⟨h.1.1, h.2, ?_, ?_⟩
    · intro ds hs t' r' h'
      subst hs
      simp only [List.cons.injEq] at h'
      obtain ⟨rfl, rfl⟩ := h'
      simpa using h.1.2
    · intro h'; simp at h'

/-- the pattern character that follows a segment -/
theorem next_head (sub : Bool) (c : UInt8) (x : Bytes) (hc : c = 0 ∨ c = 58)
    (rest : List Seg) (hwf : segsWf sub rest = true) :
    ∃ e y, renderSegs rest ++ ((if sub then [47] else []) ++ c :: x) = e :: y ∧
      ((∀ t r, rest = t :: r → t.startsWithDigit = false) → isDigit e = false) ∧
      ((rest = [] → sub = true) → e ≠ 0 ∧ e ≠ 58) := by
  cases rest with
  | nil =>
    cases sub with
    | true => exact ⟨47, c :: x, by simp [renderSegs], fun _ => by decide, fun _ => by decide⟩
    | false =>
      refine ⟨c, x, by simp [renderSegs], fun _ => ?_, fun h => ?_⟩
      · rcases hc with rfl | rfl <;> decide
      · simp at h
  | cons t r =>
    obtain ⟨htwf, _, _, _⟩ := segsWf_cons hwf
    cases t with
    | lit s =>
      simp only [Seg.wf, Bool.and_eq_true, Bool.not_eq_eq_eq_not, Bool.not_true, List.isEmpty_eq_false_iff, List.all_eq_true] at htwf
      obtain ⟨e, s', rfl⟩ := List.exists_cons_of_ne_nil htwf.1
      refine ⟨e, s' ++ (renderSegs r ++ ((if sub then [47] else []) ++ c :: x)), by simp [renderSegs, Seg.render], ?_, ?_⟩
      · intro h
        have := h _ _ rfl
        simpa [Seg.startsWithDigit] using this
      · intro _
        have := litChar_ne (htwf.2 e List.mem_cons_self)
        exact ⟨this.1, this.2.2.2.2⟩
    | enum ds =>
      exact ⟨35, ds ++ (renderSegs r ++ ((if sub then [47] else []) ++ c :: x)), by simp [renderSegs, Seg.render],
        fun _ => by decide, fun _ => by decide⟩
    | alts as =>
      exact ⟨123, joinAlts as ++ [125] ++ (renderSegs r ++ ((if sub then [47] else []) ++ c :: x)),
        by simp [renderSegs, Seg.render], fun _ => by decide, fun _ => by decide⟩

/-- **the code on a rendered pattern is `greedy`** -/
theorem path_greedy (sub : Bool) (c : UInt8) (x : Bytes) (hc : c = 0 ∨ c = 58) :
    ∀ (segs : List Seg), segsWf sub segs = true → ∀ (a ex : Bytes), NulFree a → IdxBounded a →
    path (renderSegs segs ++ ((if sub then [47] else []) ++ c :: x)) (a ++ 0 :: ex) =
      match greedy segs sub a with
      | none => .fail
      | some t => .ok (c :: x, t ++ 0 :: ex) := by
  intro segs
  induction segs with
  | nil =>
    intro _ a ex ha _
    cases sub with
    | false =>
      simp only [renderSegs, Bool.false_eq_true, ↓reduceIte, List.nil_append, greedy]
      rw [path_end c x a ex hc ha]
      by_cases h : a = [] <;> simp [h]
    | true =>
      simp only [renderSegs, ↓reduceIte, List.nil_append, List.cons_append, greedy]
      rw [path_slash_end c x a ex hc ha]
      cases a with
      | nil => rfl
      | cons d t => by_cases h : d = 47 <;> simp [h]
  | cons s rest ih =>
    intro hwf a ex ha hb
    obtain ⟨hs, hrest, henum, hlit⟩ := segsWf_cons hwf
    obtain ⟨e, y, hey, hdig, hend⟩ := next_head sub c x hc rest hrest
    cases s with
    | lit t =>
      simp only [Seg.wf, Bool.and_eq_true, List.all_eq_true] at hs
      simp only [renderSegs, Seg.render, List.append_assoc, greedy]
      rw [path_lit t _ hs.2 (fun h47 => ⟨e, y, hey, hend (fun hr => by
          cases hsub : sub with
          | true => rfl
          | false => exact absurd h47 (hlit hr hsub t rfl))⟩) a ex ha]
      by_cases hp : t.isPrefixOf a = true
      · simp only [hp, ↓reduceIte]
        exact ih hrest _ ex (ha.drop _) (hb.drop _)
      · simp [hp]
    | enum ds =>
      simp only [Seg.wf, Bool.and_eq_true, Bool.not_eq_eq_eq_not, Bool.not_true, List.isEmpty_eq_false_iff,
        List.all_eq_true, decide_eq_true_eq] at hs
      simp only [renderSegs, Seg.render, List.cons_append, List.append_assoc, greedy]
      have := path_enum ds (renderSegs rest ++ ((if sub then [47] else []) ++ c :: x)) hs.1.1 hs.1.2 hs.2
        ⟨e, y, hey, hdig (henum ds rfl)⟩ a ex ha hb
      simp only [List.cons_append] at this
      rw [this]
      by_cases hp : a.takeWhile isDigit ≠ [] ∧ decVal (a.takeWhile isDigit) < decVal ds
      · simp only [hp, ne_eq, not_false_eq_true, and_self, ↓reduceIte]
        have hdrop : NulFree (a.dropWhile isDigit) := fun z hz => ha z ((List.dropWhile_sublist _).subset hz)
        exact ih hrest _ ex hdrop hb.dropWhile
      · simp [hp]
    | alts as =>
      simp only [Seg.wf, Bool.and_eq_true, Bool.not_eq_eq_eq_not, Bool.not_true, List.isEmpty_eq_false_iff,
        List.all_eq_true] at hs
      simp only [renderSegs, Seg.render, greedy]
      rw [List.append_assoc, path_alts as _ hs.1 hs.2 a ex ha]
      cases hf : as.find? (·.isPrefixOf a) with
      | none => rfl
      | some z => exact ih hrest _ ex (ha.drop _) (hb.drop _)


/-! ## Part 4 -/
theorem dropWhile_head_not {a : Bytes} {c : UInt8} {t : Bytes} (h : a.dropWhile isDigit = c :: t) :
    isDigit c = false := by
  have hne : a.dropWhile isDigit ≠ [] := by simp [h]
  have := List.head_dropWhile_not isDigit hne
  simpa [h] using this

theorem takeWhile_run {idx a : Bytes} (hd : ∀ c ∈ idx, isDigit c = true)
    (hm : ∀ c t, a = c :: t → isDigit c = false) :
    (idx ++ a).takeWhile isDigit = idx ∧ (idx ++ a).dropWhile isDigit = a := by
  induction idx with
  | nil =>
    cases a with
    | nil => simp
    | cons c t => have := hm c t rfl; simp [this]
  | cons d r ih =>
    have h1 := hd d List.mem_cons_self
    have := ih (fun x hx => hd x (List.mem_cons_of_mem _ hx))
    simp [h1, this]

/-- **soundness of `greedy`**: whatever it accepts is spelled as the statement says -/
theorem greedy_sound (sub : Bool) : ∀ (segs : List Seg) (a t : Bytes), greedy segs sub a = some t →
    ∃ rest, SpellsAll segs a rest ∧ (if sub then rest = 47 :: t else rest = [] ∧ t = []) := by
  intro segs
  induction segs with
  | nil =>
    intro a t h
    cases sub with
    | false =>
      simp only [greedy] at h
      split at h
      · next ha => subst ha; simp only [Option.some.injEq] at h; subst h; exact ⟨[], .nil [], by simp⟩
      · simp at h
    | true =>
      simp only [greedy] at h
      split at h
      · simp at h
      · next d t' =>
        split at h
        · next hd => subst hd; simp only [Option.some.injEq] at h; subst h; exact ⟨_, .nil _, by simp⟩
        · simp at h
  | cons s r ih =>
    intro a t h
    cases s with
    | lit s =>
      simp only [greedy] at h
      split at h
      · next hp =>
        obtain ⟨rest, h1, h2⟩ := ih _ _ h
        have : s ++ a.drop s.length = a := List.prefix_iff_eq_append.mp (List.isPrefixOf_iff_prefix.mp hp)
        refine ⟨rest, ?_, h2⟩
        rw [← this]
        exact .lit s h1
      · simp at h
    | enum ds =>
      simp only [greedy] at h
      split at h
      · next hp =>
        obtain ⟨rest, h1, h2⟩ := ih _ _ h
        refine ⟨rest, ?_, h2⟩
        have : a.takeWhile isDigit ++ a.dropWhile isDigit = a := List.takeWhile_append_dropWhile
        rw [← this]
        exact .enum ds _ hp.1 (fun c hc => mem_takeWhile_digit hc)
          (fun c t hct => dropWhile_head_not hct) hp.2 h1
      · simp at h
    | alts as =>
      simp only [greedy] at h
      split at h
      · next x hf =>
        obtain ⟨rest, h1, h2⟩ := ih _ _ h
        have hp : x.isPrefixOf a = true := by simpa using List.find?_some hf
        have : x ++ a.drop x.length = a := List.prefix_iff_eq_append.mp (List.isPrefixOf_iff_prefix.mp hp)
        refine ⟨rest, ?_, h2⟩
        rw [← this]
        exact .alts as x (List.mem_of_find?_eq_some hf) h1
      · simp at h

theorem prefixFree_iff {as : List Bytes} (h : (Seg.alts as).prefixFree = true) :
    ∀ a ∈ as, ∀ b ∈ as, a <+: b → a = b := by
  intro a ha b hb hab
  simp only [Seg.prefixFree, List.all_eq_true, Bool.or_eq_true, Bool.not_eq_eq_eq_not, Bool.not_true,
    beq_iff_eq] at h
  rcases h a ha b hb with h | h
  · have := List.isPrefixOf_iff_prefix.mpr hab
    simp [this] at h
  · exact h

theorem find_prefixFree {as : List Bytes} (h : (Seg.alts as).prefixFree = true) {x w : Bytes}
    (hx : x ∈ as) (hxw : x <+: w) : as.find? (·.isPrefixOf w) = some x := by
  cases hf : as.find? (·.isPrefixOf w) with
  | none =>
    have := List.find?_eq_none.mp hf x hx
    exact absurd (List.isPrefixOf_iff_prefix.mpr hxw) this
  | some y =>
    have hy : y ∈ as := List.mem_of_find?_eq_some hf
    have hyw : y <+: w := List.isPrefixOf_iff_prefix.mp (by simpa using List.find?_some hf)
    rcases List.prefix_or_prefix_of_prefix hyw hxw with h1 | h1
    · rw [prefixFree_iff h y hy x hx h1]
    · rw [prefixFree_iff h x hx y hy h1]

/-- **completeness of `greedy`** on prefix-free groups, in the form that also serves
    `enum_bound_strict`: spelling a prefix of the segment list moves `greedy` on. -/
theorem greedy_complete (sub : Bool) (post : List Seg) {pre : List Seg} {a x : Bytes}
    (h : SpellsAll pre a x) (hpf : segsPrefixFree pre = true) :
    greedy (pre ++ post) sub a = greedy post sub x := by
  induction h with
  | nil r => rfl
  | @lit segs a' r s _ ih =>
    simp only [segsPrefixFree, List.all_cons, Bool.and_eq_true] at hpf
    have hp : s.isPrefixOf (s ++ a') = true := List.isPrefixOf_iff_prefix.mpr (List.prefix_append _ _)
    simp only [List.cons_append, greedy, hp, ↓reduceIte, List.drop_left]
    exact ih hpf.2
  | @enum segs a' r ds idx hne hd hm hlt _ ih =>
    simp only [segsPrefixFree, List.all_cons, Bool.and_eq_true] at hpf
    obtain ⟨h1, h2⟩ := takeWhile_run hd hm
    simp only [List.cons_append, greedy, h1, h2, ne_eq, hne, not_false_eq_true, hlt, and_self, ↓reduceIte]
    exact ih hpf.2
  | @alts segs a' r as y hy _ ih =>
    simp only [segsPrefixFree, List.all_cons, Bool.and_eq_true] at hpf
    have := find_prefixFree hpf.1 hy (List.prefix_append y a')
    simp only [List.cons_append, greedy, this, List.drop_left]
    exact ih hpf.2


/-! ## Part 5 -/
/-- What the type matcher computes: every alternative but the last must equal the type
    string; the last one matches if it is a prefix of it (an empty last alternative
    only matches the empty type string). -/
def typesCode : List Bytes → Bytes → Bool
  | [], _ => true
  | [a], tags => if a = [] then decide (tags = []) else a.isPrefixOf tags
  | a :: b :: r, tags => a == tags || typesCode (b :: r) tags

/-- the start of `rtosc_match_args` behind the ':' (first call and every retry) -/
def argsStart (args0 r : Bytes) : Option Bool :=
  match r with
  | [] => none
  | e :: _ =>
    if e ≠ 0 then argsGo args0 r args0 true
    else match args0 with
      | [] => none
      | x :: _ => argsGo args0 r args0 (x = 0)

theorem args_colon (r a0 : Bytes) : args (58 :: r) a0 = argsStart a0 r := by
  simp only [args, argsStart, ne_eq, not_true_eq_false, ↓reduceIte]
  rfl

theorem tagChar_ne {c : UInt8} (h : tagChar c = true) : c ≠ 0 ∧ c ≠ 58 := by
  simpa [tagChar] using h

theorem argsGo_colon (args0 r a : Bytes) (am : Bool) :
    argsGo args0 (58 :: r) a am =
      if am then
        match a with
        | [] => none
        | x :: _ => if x = 0 then some true else argsStart args0 r
      else argsStart args0 r := by
  simp only [argsGo, show ¬((58:UInt8) = 0) by decide, ↓reduceIte, argsStart]
  rfl

/-- once `arg_match` is false the running `arg_str` is not looked at any more -/
theorem argsGo_false (args0 : Bytes) : ∀ (p cur : Bytes),
    argsGo args0 p cur false = argsGo args0 p [] false := by
  intro p
  induction p with
  | nil => intro cur; simp [argsGo]
  | cons c r ih =>
    intro cur
    by_cases h0 : c = 0
    · simp [argsGo, h0]
    · by_cases h58 : c = 58
      · subst h58; simp [argsGo]
      · simp only [argsGo, h0, h58, ↓reduceIte, Bool.false_eq_true]
        rw [ih cur, ih []]

/-- the `while` loop over one type alternative after a mismatch -/
theorem argsGo_alt_false (args0 q : Bytes) (a : Bytes) (ha : ∀ c ∈ a, tagChar c = true) (cur : Bytes) :
    argsGo args0 (a ++ q) cur false = argsGo args0 q [] false := by
  induction a with
  | nil => simpa using argsGo_false args0 q cur
  | cons c a' ih =>
    obtain ⟨c0, c58⟩ := tagChar_ne (ha c List.mem_cons_self)
    have ha' : ∀ c ∈ a', tagChar c = true := fun x hx => ha x (List.mem_cons_of_mem _ hx)
    simp only [List.cons_append, argsGo, c0, c58, ↓reduceIte, Bool.false_eq_true]
    exact ih ha'

/-- the `while` loop over one type alternative, `arg_str` inside a C string: no read
    leaves the string (the comparison stops at the first mismatch, at the latest at the
    terminating NUL) -/
theorem argsGo_alt (args0 q : Bytes) (a : Bytes) (ha : ∀ c ∈ a, tagChar c = true) :
    ∀ (tags rest : Bytes),
    argsGo args0 (a ++ q) (tags ++ 0 :: rest) true =
      if a.isPrefixOf tags then argsGo args0 q ((tags ++ 0 :: rest).drop a.length) true
      else argsGo args0 q [] false := by
  induction a with
  | nil => intro tags rest; simp
  | cons c a' ih =>
    intro tags rest
    obtain ⟨c0, c58⟩ := tagChar_ne (ha c List.mem_cons_self)
    have ha' : ∀ c ∈ a', tagChar c = true := fun x hx => ha x (List.mem_cons_of_mem _ hx)
    cases tags with
    | nil =>
      simp only [List.cons_append, List.nil_append, argsGo, c0, c58, ↓reduceIte, List.isPrefixOf,
        Bool.false_eq_true]
      have : (c == (0:UInt8)) = false := by simp [c0]
      rw [this]
      exact argsGo_alt_false args0 q a' ha' rest
    | cons d t =>
      simp only [List.cons_append, argsGo, c0, c58, ↓reduceIte, List.isPrefixOf, List.length_cons,
        List.drop_succ_cons]
      by_cases hcd : c = d
      · subst hcd
        simp only [beq_self_eq_true, Bool.true_and]
        exact ih ha' t rest
      · have : (c == d) = false := by simp [hcd]
        simp only [this, Bool.false_and, Bool.false_eq_true, ↓reduceIte]
        exact argsGo_alt_false args0 q a' ha' _

theorem isPrefixOf_nulfree (a tags rest : Bytes) (ha : ∀ c ∈ a, tagChar c = true) :
    a.isPrefixOf (tags ++ 0 :: rest) = a.isPrefixOf tags := by
  induction a generalizing tags with
  | nil => simp
  | cons c a' ih =>
    obtain ⟨c0, _⟩ := tagChar_ne (ha c List.mem_cons_self)
    cases tags with
    | nil => simp [List.isPrefixOf, c0]
    | cons d t =>
      simp only [List.cons_append, List.isPrefixOf]
      rw [ih _ (fun x hx => ha x (List.mem_cons_of_mem _ hx))]

/-- after a matching alternative `arg_str` stands on the NUL exactly when the alternative
    is the whole type string -/
theorem drop_head_zero (a tags rest : Bytes) (htags : NulFree tags) (hp : a <+: tags) :
    ∃ x t, (tags ++ 0 :: rest).drop a.length = x :: t ∧ (x = 0 ↔ a = tags) := by
  obtain ⟨s, rfl⟩ := hp
  cases s with
  | nil => exact ⟨0, rest, by simp, by simp⟩
  | cons d s' =>
    refine ⟨d, s' ++ 0 :: rest, by simp, ?_⟩
    have : d ≠ 0 := htags d (by simp)
    simp [this]

/-- **the type matcher on rendered alternatives** (repaired code): the documented value,
    whatever follows the type string's NUL in the buffer — nothing behind the NUL is read. -/
theorem argsStart_types_eq (tags rest : Bytes) (htags : NulFree tags) :
    ∀ (ts : List Bytes), ts ≠ [] → (∀ a ∈ ts, ∀ c ∈ a, tagChar c = true) →
    (match ts with
     | [] => none
     | a :: ts' => argsStart (tags ++ 0 :: rest) (a ++ (renderTypeAlts ts' ++ [0])))
      = some (typesCode ts tags) := by
  intro ts
  induction ts with
  | nil => intro h; exact absurd rfl h
  | cons a ts' ih =>
    intro _ hts
    have ha := hts a List.mem_cons_self
    cases ts' with
    | nil =>
      simp only [renderTypeAlts, List.nil_append]
      cases a with
      | nil =>
        cases tags with
        | nil => simp [argsStart, argsGo, typesCode]
        | cons d t =>
          have : d ≠ 0 := htags.head
          simp [argsStart, argsGo, typesCode, this]
      | cons e a' =>
        obtain ⟨e0, _⟩ := tagChar_ne (ha e List.mem_cons_self)
        have hst : argsStart (tags ++ 0 :: rest) ((e :: a') ++ [0]) =
            argsGo (tags ++ 0 :: rest) ((e :: a') ++ [0]) (tags ++ 0 :: rest) true := by
          simp [argsStart, e0]
        rw [hst, argsGo_alt _ _ _ ha]
        by_cases hp : (e :: a').isPrefixOf tags = true
        · simp [hp, argsGo, typesCode]
        · simp [hp, argsGo, typesCode]
    | cons b ts'' =>
      have hts' : ∀ a ∈ b :: ts'', ∀ c ∈ a, tagChar c = true := fun z hz => hts z (List.mem_cons_of_mem _ hz)
      have ih' := ih (by simp) hts'
      simp only [renderTypeAlts, List.cons_append] at ih' ⊢
      -- the first pattern character is not NUL: arg_match starts as true
      have hst : argsStart (tags ++ 0 :: rest) (a ++ 58 :: (b ++ renderTypeAlts ts'' ++ [0])) =
          argsGo (tags ++ 0 :: rest) (a ++ 58 :: (b ++ renderTypeAlts ts'' ++ [0])) (tags ++ 0 :: rest) true := by
        cases a with
        | nil => simp [argsStart]
        | cons e a' =>
          obtain ⟨e0, _⟩ := tagChar_ne (ha e List.mem_cons_self)
          simp [argsStart, e0]
      have hassoc : (b ++ renderTypeAlts ts'') ++ [0] = b ++ (renderTypeAlts ts'' ++ [0]) := by simp
      rw [hst, argsGo_alt _ _ _ ha]
      by_cases hp : a.isPrefixOf tags = true
      · obtain ⟨x, t, hx, hxz⟩ := drop_head_zero a tags rest htags (List.isPrefixOf_iff_prefix.mp hp)
        simp only [hp, ↓reduceIte, hx, argsGo_colon, hassoc]
        by_cases hx0 : x = 0
        · have : a = tags := hxz.mp hx0
          simp [hx0, typesCode, this]
        · have hne : ¬ a = tags := fun h => hx0 (hxz.mpr h)
          have hbeq : (a == tags) = false := by simp [hne]
          simp only [hx0, ↓reduceIte, typesCode, hbeq, Bool.false_or]
          exact ih'
      · have hne : ¬ a = tags := fun h => by
          subst h
          exact hp (List.isPrefixOf_iff_prefix.mpr (List.prefix_refl _))
        have hbeq : (a == tags) = false := by simp [hne]
        simp only [hp, Bool.false_eq_true, ↓reduceIte, argsGo_colon, hassoc, typesCode, hbeq, Bool.false_or]
        exact ih'

/-- The statement this lemma had before the repair fixes/C05-args-overread.patch (value, or a
    read past the buffer when an alternative is longer than what is left of it); the second
    disjunct is now impossible.  Kept because the C04 proofs use it in this form. -/
theorem argsStart_types (tags rest : Bytes) (htags : NulFree tags) :
    ∀ (ts : List Bytes), ts ≠ [] → (∀ a ∈ ts, ∀ c ∈ a, tagChar c = true) →
    (match ts with
     | [] => none
     | a :: ts' => argsStart (tags ++ 0 :: rest) (a ++ (renderTypeAlts ts' ++ [0])))
      = some (typesCode ts tags) ∨
    ((match ts with
      | [] => none
      | a :: ts' => argsStart (tags ++ 0 :: rest) (a ++ (renderTypeAlts ts' ++ [0]))) = none ∧
      ∃ a ∈ ts, (tags ++ 0 :: rest).length < a.length) :=
  fun ts hne hch => Or.inl (argsStart_types_eq tags rest htags ts hne hch)


theorem typesCode_of_mem {ts : List Bytes} {tags : Bytes} (h : tags ∈ ts) : typesCode ts tags = true := by
  induction ts with
  | nil => simp at h
  | cons a r ih =>
    cases r with
    | nil =>
      simp only [List.mem_cons, List.not_mem_nil, or_false] at h
      subst h
      simp only [typesCode]
      split
      · next h => simp [h]
      · exact List.isPrefixOf_iff_prefix.mpr (List.prefix_refl _)
    | cons b r' =>
      simp only [typesCode, Bool.or_eq_true, beq_iff_eq]
      rcases List.mem_cons.mp h with h | h
      · exact Or.inl h.symm
      · exact Or.inr (ih h)

theorem typesCode_loose {ts : List Bytes} {tags : Bytes} (hne : ts ≠ []) (h : typesCode ts tags = true) :
    ∃ a ∈ ts, a <+: tags := by
  induction ts with
  | nil => exact absurd rfl hne
  | cons a r ih =>
    cases r with
    | nil =>
      simp only [typesCode] at h
      split at h
      · next ha => subst ha; exact ⟨[], List.mem_cons_self, List.nil_prefix⟩
      · exact ⟨a, List.mem_cons_self, List.isPrefixOf_iff_prefix.mp h⟩
    | cons b r' =>
      simp only [typesCode, Bool.or_eq_true, beq_iff_eq] at h
      rcases h with h | h
      · subst h; exact ⟨a, List.mem_cons_self, List.prefix_refl _⟩
      · obtain ⟨z, hz, hzp⟩ := ih (by simp) h
        exact ⟨z, List.mem_cons_of_mem _ hz, hzp⟩

/-- the exact behaviour of the type matcher -/
theorem typesCode_exact {ts : List Bytes} {tags : Bytes} (hne : ts ≠ []) :
    typesCode ts tags = true ↔
      tags ∈ ts ∨ ∃ l, ts.getLast? = some l ∧ l ≠ [] ∧ l <+: tags := by
  induction ts with
  | nil => exact absurd rfl hne
  | cons a r ih =>
    cases r with
    | nil =>
      simp only [typesCode, List.mem_cons, List.not_mem_nil, or_false, List.getLast?_singleton,
        Option.some.injEq, ne_eq, exists_eq_left']
      by_cases ha : a = []
      · subst ha; simp
      · simp only [ha, ↓reduceIte, not_false_eq_true, true_and]
        constructor
        · intro h; exact Or.inr (List.isPrefixOf_iff_prefix.mp h)
        · rintro (h | h)
          · subst h; exact List.isPrefixOf_iff_prefix.mpr (List.prefix_refl _)
          · exact List.isPrefixOf_iff_prefix.mpr h
    | cons b r' =>
      have := ih (by simp)
      simp only [typesCode, Bool.or_eq_true, beq_iff_eq, this, List.mem_cons, List.getLast?_cons_cons]
      constructor
      · rintro (h | h | h)
        · exact Or.inl (Or.inl h.symm)
        · exact Or.inl (Or.inr h)
        · exact Or.inr h
      · rintro ((h | h) | h)
        · exact Or.inl h.symm
        · exact Or.inr (Or.inl h)
        · exact Or.inr (Or.inr h)

/-! ### `rtosc_argument_string` on a laid-out message -/

theorem toNul_nulfree (a x : Bytes) (h : NulFree a) : toNul (a ++ 0 :: x) = some (0 :: x) := by
  induction a with
  | nil => simp [toNul]
  | cons c r ih =>
    have hc : c ≠ 0 := h.head
    simp [toNul, hc, ih h.tail]

theorem skipZeros_replicate (n : Nat) (c : UInt8) (x : Bytes) (hc : c ≠ 0) :
    skipZeros (List.replicate n 0 ++ c :: x) = some (c :: x) := by
  induction n with
  | zero => simp [skipZeros, hc]
  | succ n ih => simp [List.replicate_succ, skipZeros, ih]

theorem pad4_eq (s : Bytes) : ∃ k, pad4 s = s ++ 0 :: List.replicate k 0 := by
  refine ⟨3 - s.length % 4, ?_⟩
  unfold pad4
  have : 4 - s.length % 4 = (3 - s.length % 4) + 1 := by omega
  rw [this, List.replicate_succ]

/-- `rtosc_argument_string` finds the type string of a message laid out by `mkMsg`;
    behind it come the padding NULs (at least one) and the rest of the buffer. -/
theorem argString_mkMsg (addr tags rest : Bytes) (ha : NulFree addr) :
    ∃ k, argString (mkMsg addr tags rest) = some (tags ++ 0 :: (List.replicate k 0 ++ rest)) := by
  obtain ⟨k1, h1⟩ := pad4_eq addr
  obtain ⟨k2, h2⟩ := pad4_eq (44 :: tags)
  refine ⟨k2, ?_⟩
  unfold mkMsg
  rw [h1, h2]
  cases addr with
  | nil =>
    -- "\0\0\0\0,…": the first byte is skipped unseen
    have hk : k1 = 3 := by
      have := congrArg List.length h1
      simp [pad4] at this
      omega
    subst hk
    simp [argString, toNul, skipZeros, List.replicate]
  | cons c a' =>
    have hn := toNul_nulfree a' (List.replicate k1 0 ++ (44 :: tags ++ 0 :: List.replicate k2 0) ++ rest) ha.tail
    simp only [List.cons_append, List.append_assoc, argString] at hn ⊢
    rw [hn]
    have := skipZeros_replicate k1 44 (tags ++ 0 :: (List.replicate k2 0 ++ rest)) (by decide)
    simp only [this]

/-! ### the copies in ports.cpp -/

theorem argWhile_argsGo (args0 : Bytes) : ∀ (p a : Bytes) (am : Bool),
    match argWhile p a am with
    | none => argsGo args0 p a am = none
    | some (p', a', am') =>
      argsGo args0 p a am = argsGo args0 p' a' am' ∧ p'.length ≤ p.length ∧
      ∃ e r, p' = e :: r ∧ (e = 0 ∨ e = 58) := by
  intro p
  induction p with
  | nil => intro a am; simp [argWhile, argsGo]
  | cons c r ih =>
    intro a am
    by_cases hc : c ≠ 0 ∧ c ≠ 58
    · cases am with
      | false =>
        have := ih a false
        simp only [argWhile, hc, ne_eq, not_false_eq_true, and_self, ↓reduceIte, argsGo,
          Bool.false_eq_true]
        split
        · next h => simpa [h] using this
        · next p' a' am' h =>
          simp only [h] at this
          exact ⟨this.1, by simp only [List.length_cons]; omega, this.2.2⟩
      | true =>
        cases a with
        | nil => simp [argWhile, argsGo, hc]
        | cons x ar =>
          have := ih ar (c == x)
          simp only [argWhile, hc, ne_eq, not_false_eq_true, and_self, ↓reduceIte, argsGo]
          split
          · next h => simpa [h] using this
          · next p' a' am' h =>
            simp only [h] at this
            exact ⟨this.1, by simp only [List.length_cons]; omega, this.2.2⟩
    · have hc' : c = 0 ∨ c = 58 := by
        by_cases h0 : c = 0
        · exact Or.inl h0
        · by_cases h58 : c = 58
          · exact Or.inr h58
          · exact absurd ⟨h0, h58⟩ hc
      simp only [argWhile, hc, ↓reduceIte]
      exact ⟨trivial, Nat.le_refl _, c, r, rfl, hc'⟩

/-- `arg_matcher` (ports.cpp) computes what `rtosc_match_args` (dispatch.c) computes -/
theorem argMatcherFuel_eq : ∀ (f : Nat) (pattern a0 : Bytes), pattern.length < f →
    argMatcherFuel f pattern a0 = args pattern a0 := by
  intro f
  induction f with
  | zero => intro p a0 h; omega
  | succ f ih =>
    intro pattern a0 hf
    cases pattern with
    | nil => simp [argMatcherFuel, args]
    | cons c p =>
      by_cases hc : c = 58
      · subst hc
        rw [args_colon]
        simp only [argMatcherFuel, ne_eq, not_true_eq_false, ↓reduceIte]
        cases p with
        | nil => simp [argsStart]
        | cons e p' =>
          -- the initial value of arg_match
          have hinit : ∀ am0 : Bool,
              (match argWhile (e :: p') a0 am0 with
               | none => none
               | some (p'', a', am) =>
                 match p'' with
                 | [] => none
                 | e' :: _ =>
                   if e' = 58 then
                     if am then
                       match a' with
                       | [] => none
                       | x :: _ => if x = 0 then some true else argMatcherFuel f p'' a0
                     else argMatcherFuel f p'' a0
                   else some am) = argsGo a0 (e :: p') a0 am0 := by
            intro am0
            have hw := argWhile_argsGo a0 (e :: p') a0 am0
            split
            · next h => simp only [h] at hw; exact hw.symm
            · next p'' a' am h =>
              simp only [h] at hw
              obtain ⟨h1, h2, e', r', rfl, he'⟩ := hw
              rw [h1]
              have hlen : (e' :: r').length < f := by
                simp only [List.length_cons] at hf h2 ⊢; omega
              rcases he' with rfl | rfl
              · simp [argsGo]
              · simp only [↓reduceIte, argsGo_colon, ih _ a0 hlen, args_colon]
                all_goals rfl
          by_cases he : e = 0
          · subst he
            cases a0 with
            | nil => simp [argsStart]
            | cons x ar =>
              have := hinit (0 == x)
              simp only [argsStart, ne_eq, not_true_eq_false, ↓reduceIte]
              have hx : ((0:UInt8) == x) = decide (x = 0) := by
                by_cases h : x = 0
                · subst h; rfl
                · have h' : ¬ (0:UInt8) = x := fun h' => h h'.symm
                  simp [h, h']
              rw [← hx]
              exact this
          · have := hinit true
            simp only [ne_eq, he, not_false_eq_true, ↓reduceIte, argsStart]
            exact this
      · simp [argMatcherFuel, args, hc]

theorem portMatcherFuel_eq : ∀ (f : Nat) (pattern msg : Bytes),
    portMatcherFuel f pattern msg =
      match f, pattern with
      | 0, _ => none
      | _, [] => none
      | f' + 1, c :: p =>
        if c ≠ 58 then some true
        else match argString msg with
          | none => none
          | some a => argMatcherFuel (f' + 1) (c :: p) a := by
  intro f
  induction f with
  | zero => intro p m; simp [portMatcherFuel]
  | succ f ih =>
    intro pattern msg
    cases pattern with
    | nil => simp [portMatcherFuel]
    | cons c p =>
      by_cases hc : c = 58
      · subst hc
        simp only [portMatcherFuel, ne_eq, not_true_eq_false, ↓reduceIte, argMatcherFuel]
        cases hs : argString msg with
        | none => rfl
        | some a =>
          simp only
          -- the recursive calls are on patterns that start with ':' again
          have hrec : ∀ (e : UInt8) (r : Bytes), e = 58 →
              portMatcherFuel f (e :: r) msg = argMatcherFuel f (e :: r) a := by
            intro e r he
            subst he
            rw [ih]
            cases f with
            | zero => simp [argMatcherFuel]
            | succ f' => simp [hs]
          cases p with
          | nil => rfl
          | cons e p' =>
            have hmain : ∀ am0 : Bool,
                (match argWhile (e :: p') a am0 with
                 | none => none
                 | some (p'', a', am) =>
                   match p'' with
                   | [] => none
                   | e' :: _ =>
                     if e' = 58 then
                       if am then
                         match a' with
                         | [] => none
                         | x :: _ => if x = 0 then some true else portMatcherFuel f p'' msg
                       else portMatcherFuel f p'' msg
                     else some am) =
                (match argWhile (e :: p') a am0 with
                 | none => none
                 | some (p'', a', am) =>
                   match p'' with
                   | [] => none
                   | e' :: _ =>
                     if e' = 58 then
                       if am then
                         match a' with
                         | [] => none
                         | x :: _ => if x = 0 then some true else argMatcherFuel f p'' a
                       else argMatcherFuel f p'' a
                     else some am) := by
              intro am0
              cases argWhile (e :: p') a am0 with
              | none => rfl
              | some t =>
                obtain ⟨p'', a', am⟩ := t
                cases p'' with
                | nil => rfl
                | cons e' r' =>
                  by_cases he' : e' = 58
                  · simp only [he', ↓reduceIte, hrec 58 r' rfl]
                  · simp only [he', ↓reduceIte]
            by_cases he : e = 0
            · subst he
              cases a with
              | nil => rfl
              | cons x ar =>
                simp only [not_true_eq_false, ↓reduceIte]
                exact hmain (0 == x)
            · simp only [he, not_false_eq_true, ↓reduceIte]
              exact hmain true
      · simp [portMatcherFuel, hc]


/-! ## Part 6: rendered patterns -/

theorem typesTail_head (ty : Option (List Bytes)) :
    ∃ c x, renderTypes ty ++ [0] = c :: x ∧ (c = 0 ∨ c = 58) := by
  cases ty with
  | none => exact ⟨0, [], rfl, Or.inl rfl⟩
  | some ts =>
    cases ts with
    | nil => exact ⟨0, [], rfl, Or.inl rfl⟩
    | cons a r => exact ⟨58, a ++ renderTypeAlts r ++ [0], by simp [renderTypes, renderTypeAlts], Or.inr rfl⟩

theorem cstr_eq (p : Pat) :
    p.cstr = renderSegs p.segs ++ ((if p.sub then [47] else []) ++ (renderTypes p.types ++ [0])) := by
  simp [Pat.cstr, Pat.render, Pat.tail]

theorem wf0_segs {p : Pat} (h : p.WF0) : segsWf p.sub p.segs = true := by
  simp only [Pat.WF0, Pat.wf0, Bool.and_eq_true] at h; exact h.1

theorem wf0_types {p : Pat} (h : p.WF0) : typesWf p.types = true := by
  simp only [Pat.WF0, Pat.wf0, Bool.and_eq_true] at h; exact h.2

theorem wf_wf0 {p : Pat} (h : p.WF) : p.WF0 := by
  simp only [Pat.WF, Pat.wf, Bool.and_eq_true] at h; exact h.1

theorem wf_prefixFree {p : Pat} (h : p.WF) : segsPrefixFree p.segs = true := by
  simp only [Pat.WF, Pat.wf, Bool.and_eq_true] at h; exact h.2

/-- `rtosc_match_path` on a pattern of the documented form -/
theorem path_rendered {p : Pat} (hwf : p.WF0) {addr : Bytes} (ex : Bytes)
    (ha : NulFree addr) (hb : IdxBounded addr) :
    path p.cstr (addr ++ 0 :: ex) =
      match greedy p.segs p.sub addr with
      | none => .fail
      | some t => .ok (renderTypes p.types ++ [0], t ++ 0 :: ex) := by
  obtain ⟨c, x, hcx, hc⟩ := typesTail_head p.types
  rw [cstr_eq, hcx]
  exact path_greedy p.sub c x hc p.segs (wf0_segs hwf) addr ex ha hb

theorem mkMsg_shape (addr tags rest : Bytes) : ∃ ex, mkMsg addr tags rest = addr ++ 0 :: ex := by
  obtain ⟨k, hk⟩ := pad4_eq addr
  exact ⟨List.replicate k 0 ++ pad4 (44 :: tags) ++ rest, by simp [mkMsg, hk]⟩

/-- `rtosc_match` on a pattern of the documented form and a laid-out message: a total
    function of the address and the type string, whatever follows them in the buffer
    (`rest` may be empty: nothing behind the padded type string is read). -/
theorem full_rendered {p : Pat} (hwf : p.WF0) {addr tags : Bytes} (rest : Bytes)
    (ha : NulFree addr) (hb : IdxBounded addr) (ht : NulFree tags) :
    ∃ ex, mkMsg addr tags rest = addr ++ 0 :: ex ∧
    full p.cstr (mkMsg addr tags rest) =
      match greedy p.segs p.sub addr with
      | none => some (false, none)
      | some t => some (match p.types with
                        | none => true
                        | some ts => typesCode ts tags, some (t ++ 0 :: ex)) := by
  obtain ⟨ex, hex⟩ := mkMsg_shape addr tags rest
  obtain ⟨k, hk⟩ := argString_mkMsg addr tags rest ha
  refine ⟨ex, hex, ?_⟩
  have hp := path_rendered hwf ex ha hb
  rw [← hex] at hp
  cases hg : greedy p.segs p.sub addr with
  | none =>
    simp only [hg] at hp
    simp [full, hp]
  | some t =>
    simp only [hg] at hp
    cases hty : p.types with
    | none =>
      simp only [hty, renderTypes, List.nil_append] at hp
      simp [full, hp]
    | some ts =>
      have htw := wf0_types hwf
      simp only [hty, typesWf, Bool.and_eq_true, Bool.not_eq_eq_eq_not, Bool.not_true,
        List.isEmpty_eq_false_iff, List.all_eq_true] at htw
      obtain ⟨a, ts', rfl⟩ := List.exists_cons_of_ne_nil htw.1
      simp only [hty, renderTypes, renderTypeAlts, List.cons_append, List.append_assoc] at hp
      have hargs := argsStart_types_eq tags (List.replicate k 0 ++ rest) ht (a :: ts') htw.1 htw.2
      simp only at hargs
      simp only [full, hp, ↓reduceIte, hk, args_colon]
      simp [hargs]


theorem isDigit_val {c : UInt8} (h : isDigit c = true) : c.toNat - 48 ≤ 9 := by
  simp only [isDigit, Bool.and_eq_true, decide_eq_true_eq] at h
  have h2 : c.toNat ≤ 57 := by
    have := UInt8.le_iff_toNat_le.mp h.2
    simpa using this
  omega

theorem foldl_dec_lt (run : Bytes) (hr : ∀ c ∈ run, isDigit c = true) :
    ∀ acc : Nat, run.foldl (fun acc c => acc * 10 + (c.toNat - 48)) acc < (acc + 1) * 10 ^ run.length := by
  induction run with
  | nil => intro acc; simp
  | cons c r ih =>
    intro acc
    have hc := isDigit_val (hr c List.mem_cons_self)
    have := ih (fun x hx => hr x (List.mem_cons_of_mem _ hx)) (acc * 10 + (c.toNat - 48))
    simp only [List.foldl_cons, List.length_cons]
    have h2 : (acc * 10 + (c.toNat - 48) + 1) * 10 ^ r.length ≤ ((acc + 1) * 10) * 10 ^ r.length :=
      Nat.mul_le_mul_right _ (by omega)
    calc _ < _ := this
      _ ≤ _ := h2
      _ = _ := by rw [Nat.pow_succ, Nat.mul_assoc, Nat.mul_comm 10]

theorem decVal_lt_pow {run : Bytes} (hr : ∀ c ∈ run, isDigit c = true) : decVal run < 10 ^ run.length := by
  have := foldl_dec_lt run hr 0
  simpa [decVal] using this

/-- an address of at most nine characters only carries indices below 2^31 -/
theorem IdxBounded_of_length {a : Bytes} (h : a.length ≤ 9) : IdxBounded a := by
  intro pre run post he hr
  have hl : run.length ≤ 9 := by
    have := congrArg List.length he
    simp only [List.length_append] at this
    omega
  have h1 := decVal_lt_pow hr
  have h2 : 10 ^ run.length ≤ 10 ^ 9 := Nat.pow_le_pow_right (by decide) hl
  have h3 : (10:Nat) ^ 9 < 2 ^ 31 := by decide
  omega


theorem idxBounded_of_check {a : Bytes} (h : idxBoundedCheck a = true) : IdxBounded a := by
  intro pre run post he hr
  simp only [idxBoundedCheck, List.all_eq_true, List.mem_range, Bool.or_eq_true,
    Bool.not_eq_eq_eq_not, Bool.not_true, decide_eq_true_eq] at h
  have hl := congrArg List.length he
  simp only [List.length_append] at hl
  have := h pre.length (by omega) run.length (by omega)
  have hrun : (a.drop pre.length).take run.length = run := by
    rw [he, List.append_assoc, List.drop_left, List.take_left]
  rw [hrun] at this
  rcases this with h1 | h1
  · have : run.all isDigit = true := List.all_eq_true.mpr hr
    rw [this] at h1; cases h1
  · exact h1


end Rtosc.Match
