/-
  C12, text level — how the printer cuts the elements of a saved array line into segments.

  `rtosc_print_arg_vals` (array loop: `printArrayElems`) calls `rtosc_convert_to_range` at every
  element on the cells left in the array; the answer is "nothing" (the element is printed as it is),
  a constant run (`nxT`) or an arithmetic run (`a ... z`).  `CutOK body` says that these answers,
  position by position, are the segments `body` (`SegStep`: exactly the side conditions of C10's
  `Segmented` / `PrinterSegments`, without the conditions on the values, which `ValTextOK` supplies).

  * `cutOf` — a decision procedure: it runs the model of `rtosc_convert_to_range` itself, checks every
    answer against the cells, and returns the segments; `cutOf_sound`.
  * criteria on the values, for arrays of any length: no five same-typed cells in a row
    (`cutOK_of_noLongRun`: the old clause), a constant run followed by a different value
    (`SegStep.crun_of_next`), an int32 arithmetic run followed by a value that does not continue it
    (`SegStep.irun_of_next`), a value in front of fewer than five cells of its type
    (`SegStep.tok_of_short`).
-/
import RtoscModel.Proofs.PrettyRunsArrMsg
set_option linter.unusedSimpArgs false
set_option linter.unusedVariables false
namespace Rtosc.Save.Text
open Rtosc Rtosc.Libc Rtosc.Pretty
open Rtosc.ArgVal (Cell)

/-- **the printer's decision at the head of `s.cells ++ rest`** (the cells left in the array) is the
    segment `s`: `rtosc_convert_to_range` returns nothing (`tok`), the whole constant run of `n ≥ 5`
    cells (`crun`), or the whole int32 arithmetic run, which satisfies the overflow guards of C10's
    `RunHyp` (`irun`) -/
def SegStep (s : RSeg) (rest : List Cell) : Prop :=
  match s with
  | .tok c => convertToRange defaultOpt (c :: rest) (rest.length + 1) = .ok none
  | .crun n c => 5 ≤ n ∧ n ≤ 2147483647 ∧
      convertToRange defaultOpt (List.replicate n c ++ rest) (n + rest.length) = .ok (some (n, [Cell.rep n 0, c]))
  | .irun a d n => RunHyp a d n ∧
      convertToRange defaultOpt (arithRun a d n ++ rest) (n + rest.length) =
        .ok (some (n, [Cell.rep n 1, Cell.int .i d, Cell.int .i a]))

/-- **the printer cuts the cells `cellsAll body` into the segments `body`** -/
inductive CutOK : List RSeg → Prop
  | nil : CutOK []
  | cons (s : RSeg) (segs : List RSeg) : SegStep s (cellsAll segs) → CutOK segs → CutOK (s :: segs)

/-- with tokens for the values, a cut is C10's `Segmented` -/
theorem CutOK.segmented {body : List RSeg} (h : CutOK body)
    (hv : ∀ c ∈ cellsAll body, c.isScalar = true ∧ PrintsTok defaultOpt c) : Segmented defaultOpt body := by
  induction h with
  | nil => exact .nil
  | cons s segs hstep _ ih =>
    have hrest : ∀ c ∈ cellsAll segs, c.isScalar = true ∧ PrintsTok defaultOpt c := by
      intro c hc; exact hv c (by simp [cellsAll, hc])
    have ih' := ih hrest
    cases s with
    | tok c =>
      have := hv c (by simp [cellsAll, RSeg.cells])
      exact .tok c segs this.1 this.2 hstep ih'
    | crun n c =>
      obtain ⟨h5, h2, hcv⟩ := hstep
      have := hv c (by
        have hm : c ∈ List.replicate n c := List.mem_replicate.mpr ⟨by omega, rfl⟩
        simp only [cellsAll, RSeg.cells, List.mem_append]
        exact Or.inl hm)
      exact .crun n c segs this.1 this.2 h5 h2 hcv ih'
    | irun a d n =>
      obtain ⟨hr, hcv⟩ := hstep
      exact .irun a d n segs hr hcv ih'

/-! ### a decision procedure -/

/-- the guards of `RunHyp`, on the end points -/
def runGuards (a d : Int) (n : Nat) : Bool :=
  decide (5 ≤ n) && decide (d ≠ 0) &&
  decide (-2147483648 ≤ a) && decide (a ≤ 2147483647) &&
  decide (-2147483648 ≤ a + (n : Int) * d) && decide (a + (n : Int) * d ≤ 2147483647) &&
  decide (((n : Int) - 1) * d.natAbs ≤ 2147483647) && decide ((n : Int) ≤ 2147483647)

theorem between_ends (a d : Int) (n k : Nat) (hk : k ≤ n) (lo hi : Int) (h0 : lo ≤ a ∧ a ≤ hi)
    (h1 : lo ≤ a + (n : Int) * d ∧ a + (n : Int) * d ≤ hi) : lo ≤ a + (k : Int) * d ∧ a + (k : Int) * d ≤ hi := by
  have hkn : (k : Int) ≤ (n : Int) := by omega
  have hk0 : (0 : Int) ≤ (k : Int) := by omega
  rcases Int.le_total 0 d with hd | hd
  · have h2 : (k : Int) * d ≤ (n : Int) * d := Int.mul_le_mul_of_nonneg_right hkn hd
    have h3 : 0 ≤ (k : Int) * d := Int.mul_nonneg hk0 hd
    omega
  · have h2 : (n : Int) * d ≤ (k : Int) * d := Int.mul_le_mul_of_nonpos_right hkn hd
    have h3 : (k : Int) * d ≤ 0 := Int.mul_nonpos_of_nonneg_of_nonpos hk0 hd
    omega

theorem runHyp_of_guards {a d : Int} {n : Nat} (h : runGuards a d n = true) : RunHyp a d n := by
  simp only [runGuards, Bool.and_eq_true, decide_eq_true_eq] at h
  obtain ⟨⟨⟨⟨⟨⟨⟨h5, hd⟩, ha1⟩, ha2⟩, hz1⟩, hz2⟩, hw⟩, h32⟩ := h
  exact ⟨h5, hd, fun k hk => between_ends a d n k hk _ _ ⟨ha1, ha2⟩ ⟨hz1, hz2⟩, hw, h32⟩

/-- the first two cells when both are int32 values -/
def intPair (c : Cell) (r : List Cell) : Option (Int × Int) :=
  match c, r with
  | Cell.int .i a, Cell.int .i b :: _ => some (a, b)
  | _, _ => none

theorem intPair_spec {c : Cell} {r : List Cell} {a b : Int} (h : intPair c r = some (a, b)) :
    c = Cell.int .i a ∧ ∃ r', r = Cell.int .i b :: r' := by
  unfold intPair at h
  split at h
  · simp only [Option.some.injEq, Prod.mk.injEq] at h
    obtain ⟨rfl, rfl⟩ := h
    exact ⟨rfl, _, rfl⟩
  · simp at h

/-- the segment at the head of `c :: r` and the number of cells it takes, as the model of
    `rtosc_convert_to_range` decides it; `none`: a kind of run outside C10's theorems (an arithmetic
    run of chars, a run that fails a guard of `RunHyp`) or an error of the model -/
def segOfCons (c : Cell) (r : List Cell) : Option (RSeg × Nat) :=
  match convertToRange defaultOpt (c :: r) (r.length + 1) with
  | .ok none => some (.tok c, 1)
  | .ok (some (n, block)) =>
    if block = [Cell.rep n 0, c] ∧ 5 ≤ n ∧ n ≤ 2147483647 ∧ n ≤ r.length + 1 ∧
        (c :: r).take n = List.replicate n c then some (.crun n c, n)
    else
      match intPair c r with
      | some (a, b) =>
        if block = [Cell.rep n 1, Cell.int .i (b - a), Cell.int .i a] ∧ runGuards a (b - a) n = true ∧
            n ≤ r.length + 1 ∧ (c :: r).take n = arithRun a (b - a) n then some (.irun a (b - a) n, n)
        else none
      | none => none
  | .error _ => none

def segOf (cells : List Cell) : Option (RSeg × Nat) :=
  match cells with
  | [] => none
  | c :: r => segOfCons c r

theorem segOfCons_spec {c : Cell} {r : List Cell} {s : RSeg} {k : Nat} (h : segOfCons c r = some (s, k)) :
    1 ≤ k ∧ k ≤ (c :: r).length ∧ c :: r = s.cells ++ (c :: r).drop k ∧ SegStep s ((c :: r).drop k) := by
  unfold segOfCons at h
  cases hcv : convertToRange defaultOpt (c :: r) (r.length + 1) with
  | error e => rw [hcv] at h; simp at h
  | ok res =>
    rw [hcv] at h
    cases res with
    | none =>
      simp only [Option.some.injEq, Prod.mk.injEq] at h
      obtain ⟨rfl, rfl⟩ := h
      exact ⟨Nat.le_refl _, by simp, by simp [RSeg.cells], by simpa [SegStep] using hcv⟩
    | some p =>
      obtain ⟨n, block⟩ := p
      simp only at h
      by_cases hc : block = [Cell.rep n 0, c] ∧ 5 ≤ n ∧ n ≤ 2147483647 ∧ n ≤ r.length + 1 ∧
          (c :: r).take n = List.replicate n c
      · rw [if_pos hc] at h
        obtain ⟨hb, h5, h2, hn, htake⟩ := hc
        simp only [Option.some.injEq, Prod.mk.injEq] at h
        obtain ⟨rfl, rfl⟩ := h
        have hsplit : c :: r = List.replicate n c ++ (c :: r).drop n := by
          rw [← htake]; exact (List.take_append_drop n (c :: r)).symm
        refine ⟨by omega, by simpa using hn, by simpa [RSeg.cells] using hsplit, h5, h2, ?_⟩
        have hlen : n + ((c :: r).drop n).length = r.length + 1 := by
          simp only [List.length_drop, List.length_cons]; omega
        rw [← hsplit, hlen, hcv, hb]
      · rw [if_neg hc] at h
        cases hip : intPair c r with
        | none => rw [hip] at h; simp at h
        | some ab =>
          obtain ⟨a, b⟩ := ab
          rw [hip] at h
          simp only at h
          by_cases hc2 : block = [Cell.rep n 1, Cell.int .i (b - a), Cell.int .i a] ∧ runGuards a (b - a) n = true ∧
              n ≤ r.length + 1 ∧ (c :: r).take n = arithRun a (b - a) n
          · rw [if_pos hc2] at h
            obtain ⟨hb, hg, hn, htake⟩ := hc2
            simp only [Option.some.injEq, Prod.mk.injEq] at h
            obtain ⟨rfl, rfl⟩ := h
            have hsplit : c :: r = arithRun a (b - a) n ++ (c :: r).drop n := by
              rw [← htake]; exact (List.take_append_drop n _).symm
            refine ⟨by have := (runHyp_of_guards hg).hn; omega, by simpa using hn,
              by simpa [RSeg.cells] using hsplit, runHyp_of_guards hg, ?_⟩
            have hlen : n + ((c :: r).drop n).length = r.length + 1 := by
              simp only [List.length_drop, List.length_cons]; omega
            rw [← hsplit, hlen, hcv, hb]
          · rw [if_neg hc2] at h; simp at h

theorem segOf_spec {cells : List Cell} {s : RSeg} {k : Nat} (h : segOf cells = some (s, k)) :
    1 ≤ k ∧ k ≤ cells.length ∧ cells = s.cells ++ cells.drop k ∧ SegStep s (cells.drop k) := by
  cases cells with
  | nil => simp [segOf] at h
  | cons c r => exact segOfCons_spec h

/-- the segments of `cells`, decided by the model of the printer (`fuel`: at least `cells.length + 1`) -/
def cutOf : Nat → List Cell → Option (List RSeg)
  | 0, _ => none
  | fuel + 1, cells =>
    if cells.isEmpty then some []
    else
      match segOf cells with
      | some (s, k) => (cutOf fuel (cells.drop k)).map (s :: ·)
      | none => none

deriving instance DecidableEq for Rtosc.Pretty.RSeg

/-- **the decision procedure is sound** -/
theorem cutOf_sound : ∀ (fuel : Nat) (cells : List Cell) (body : List RSeg), cutOf fuel cells = some body →
    cellsAll body = cells ∧ CutOK body
  | 0, _, _, h => by simp [cutOf] at h
  | fuel + 1, cells, body, h => by
    unfold cutOf at h
    split at h
    · rename_i he
      simp only [Option.some.injEq] at h
      subst h
      have : cells = [] := by simpa using he
      subst this
      exact ⟨rfl, .nil⟩
    · split at h
      · rename_i s k hseg
        obtain ⟨_, _, hsplit, hstep⟩ := segOf_spec hseg
        cases hrec : cutOf fuel (cells.drop k) with
        | none => simp [hrec] at h
        | some segs =>
          simp only [hrec, Option.map_some, Option.some.injEq] at h
          subst h
          obtain ⟨hc, hcut⟩ := cutOf_sound fuel _ segs hrec
          refine ⟨?_, .cons s segs (by rw [hc]; exact hstep) hcut⟩
          simp only [cellsAll, hc]
          exact hsplit.symm
      · simp at h

/-! ### criteria on the values -/

/-- a value in front of fewer than five cells of its type (in what is left of the array) is
    printed as it is -/
theorem SegStep.tok_of_short (c : Cell) (rest : List Cell) (hsc : ∀ x ∈ c :: rest, x.isScalar = true)
    (h : shortRun (c :: rest) = true) : SegStep (.tok c) rest :=
  convertToRange_shortRun defaultOpt c rest _ (by simp) hsc h

/-- a run of `n ≥ 5` equal values is a constant run when the value behind it (if any) is not
    identical to it -/
theorem SegStep.crun_of_next (n : Nat) (c : Cell) (rest : List Cell) (hsc : c.isScalar = true) (hid : SelfIdentical c)
    (h5 : 5 ≤ n) (h2 : n ≤ 2147483647) (hR : ∀ x ∈ rest, x.isScalar = true)
    (hnext : rest = [] ∨ ∀ more, rangeArgsIdentical (c :: more) rest = .ok false) : SegStep (.crun n c) rest :=
  ⟨h5, h2, convertToRange_crun_of_next defaultOpt rfl c hsc hid n h5 rest hR hnext⟩

/-- an int32 arithmetic run is a segment when the value behind it (if any) is not its continuation -/
theorem SegStep.irun_of_next {a d : Int} {n : Nat} (h : RunHyp a d n) (rest : List Cell)
    (hR : ∀ x ∈ rest, x.isScalar = true)
    (hnext : rest = [] ∨ eqSingle [Cell.int .i (a + (n : Int) * d)] rest = .ok false) : SegStep (.irun a d n) rest :=
  ⟨h, convertToRange_irun_of_next defaultOpt rfl h rest hR hnext⟩

/-- **the old clause**: cells without five same-typed neighbours are cut into plain values -/
theorem cutOK_of_noLongRun : ∀ (cells : List Cell), (∀ c ∈ cells, c.isScalar = true) → NoLongRun cells →
    cellsAll (cells.map RSeg.tok) = cells ∧ CutOK (cells.map RSeg.tok)
  | [], _, _ => ⟨rfl, .nil⟩
  | c :: r, hsc, hrun => by
    have hrun' : NoLongRun r := by
      intro i hi
      have := hrun (i + 1) (by simp; omega)
      simpa using this
    obtain ⟨hc, hcut⟩ := cutOK_of_noLongRun r (fun x hx => hsc x (by simp [hx])) hrun'
    refine ⟨by simp [cellsAll, RSeg.cells, hc], ?_⟩
    simp only [List.map_cons]
    refine .cons _ _ ?_ hcut
    rw [hc]
    exact SegStep.tok_of_short c r hsc (by simpa using hrun 0 (by simp))

end Rtosc.Save.Text
