/-
  C11 — hexadecimal 'i' integers: `0x2a`, `-0x2a`, and the two's-complement spelling
  `0xffffffd6`.  `scanf_fmtstr` rejects "%*lih", "%*d" (which reads only the `0`), "%*ii" and
  takes "%*i", which it replaces by "%*x"; the value is read with `%x` (strtoul: a negative
  number wraps) and truncated to 32 bits.
-/
import RtoscModel.Proofs.ScanTokens2
namespace Rtosc.Pretty.C11
open Rtosc Rtosc.Libc Rtosc.Pretty
open Rtosc.ArgVal (Cell)

/-! ### hexadecimal digit strings -/

theorem hexDigitsAux_acc (n : Nat) (acc : Bytes) : hexDigitsAux n acc = hexDigitsAux n [] ++ acc := by
  induction n using Nat.strongRecOn generalizing acc with
  | _ n ih =>
    rw [hexDigitsAux_eq n acc, hexDigitsAux_eq n []]
    split
    · simp
    · rw [ih (n/16) (by omega) (hexDigitChar (n % 16) :: acc), ih (n/16) (by omega) [hexDigitChar (n % 16)]]
      simp

theorem hexDigits_all_xdigit (n : Nat) : ∀ c ∈ hexDigitsAux n [], isxdigit c = true := by
  induction n using Nat.strongRecOn with
  | _ n ih =>
    rw [hexDigitsAux_eq]
    split
    · simp
    · rw [hexDigitsAux_acc]
      intro c hc
      simp only [List.mem_append, List.mem_singleton] at hc
      rcases hc with hc | hc
      · exact ih (n/16) (by omega) c hc
      · subst hc; exact isxdigit_hexDigitChar _ (by omega)

theorem digitsVal_hexDigits (n : Nat) : digitsVal 16 (hexDigitsAux n []) = n := by
  induction n using Nat.strongRecOn with
  | _ n ih =>
    rw [hexDigitsAux_eq]
    split
    · next h => subst h; rfl
    · rw [hexDigitsAux_acc, digitsVal_append, ih (n/16) (by omega)]
      simp only [List.length_singleton, Nat.pow_one, digitsVal, List.foldl_cons, List.foldl_nil, Nat.zero_mul, Nat.zero_add]
      rw [xval_hexDigitChar _ (by omega)]
      omega

theorem hexDigits_ne_nil (n : Nat) (h : n ≠ 0) : hexDigitsAux n [] ≠ [] := by
  rw [hexDigitsAux_eq, if_neg h, hexDigitsAux_acc]
  simp

/-- `%x` digits of `m`: non-empty, hexadecimal digits, value `m` -/
theorem fmtHex_facts (m : Nat) :
    ∃ d ds, fmtHex m = d :: ds ∧ (∀ c ∈ d :: ds, isxdigit c = true) ∧ digitsVal 16 (d :: ds) = m := by
  unfold fmtHex
  by_cases h : m = 0
  · subst h
    exact ⟨48, [], by simp, by intro c hc; simp at hc; subst hc; decide, by simp [digitsVal, xval, isdigit]⟩
  · rw [if_neg h]
    obtain ⟨d, ds, e⟩ := List.exists_cons_of_ne_nil (hexDigits_ne_nil m h)
    exact ⟨d, ds, e, by rw [← e]; exact hexDigits_all_xdigit m, by rw [← e]; exact digitsVal_hexDigits m⟩

/-! ### the integer conversions on `[-]0x…` -/

/-- the text `[-]0x` digits -/
def hexText (neg : Bool) (ds : Bytes) : Bytes := (if neg then [45] else []) ++ 48 :: 120 :: ds

theorem isxdigit_not10 (c : UInt8) : digitOk 10 120 = false := by decide

/-- `%i` / `%x` (base 0 / 16) read the whole number -/
theorem scanInt_hexText (conv : IntConv) (hconv : conv ≠ .d) (neg : Bool) (d : UInt8) (ds rest : Bytes)
    (hall : ∀ c ∈ d :: ds, isxdigit c = true) (hr : HexEnd rest) :
    scanInt conv none (hexText neg (d :: ds) ++ rest) =
      some (intValue conv neg (digitsVal 16 (d :: ds)), rest) := by
  have htd := takeDigits16 (d :: ds) rest hall hr
  simp only [List.cons_append] at htd
  have hb : (match conv with | .d => 10 | .i => 0 | .x => 16) = 0 ∨ (match conv with | .d => 10 | .i => 0 | .x => 16) = 16 := by
    cases conv
    · exact absurd rfl hconv
    · left; rfl
    · right; rfl
  cases neg
  · unfold scanInt
    simp only [hexText, Bool.false_eq_true, ↓reduceIte, List.nil_append, List.cons_append, skipSpace, isspace]
    cases conv
    · exact absurd rfl hconv
    · simp [intPrefix, wOk, wDec, tolower, isupper, htd]
    · simp [intPrefix, wOk, wDec, tolower, isupper, htd]
  · unfold scanInt
    simp only [hexText, ↓reduceIte, List.cons_append, List.nil_append, skipSpace, isspace]
    cases conv
    · exact absurd rfl hconv
    · simp [intPrefix, wOk, wDec, tolower, isupper, htd]
    · simp [intPrefix, wOk, wDec, tolower, isupper, htd]

/-- `%d` (with or without a field width of at least 2 behind the sign) reads only the `0` -/
theorem scanInt_d_hexText (w : Option Nat) (hw : w = none ∨ w = some 4) (neg : Bool) (ds rest : Bytes) :
    scanInt .d w (hexText neg ds ++ rest) = some (0, 120 :: (ds ++ rest)) := by
  have hno : ∀ (r : Bytes) (w' : Option Nat), takeDigits 10 (120 :: r) w' = ([], 120 :: r) := by
    intro r w'; simp [takeDigits, digitOk, isdigit]
  rcases hw with rfl | rfl <;> cases neg <;>
    simp [scanInt, hexText, skipSpace, isspace, intPrefix, wOk, wDec, tolower, isupper, hno, intValue, clampI64, digitsVal]

theorem hexText_length (neg : Bool) (ds : Bytes) : (hexText neg ds).length = (if neg then 1 else 0) + 2 + ds.length := by
  cases neg <;> simp [hexText] <;> omega

theorem hexText_wordChar (neg : Bool) (ds : Bytes) (hall : ∀ c ∈ ds, isxdigit c = true) :
    ∀ c ∈ hexText neg ds, wordChar c = true := by
  have hx : ∀ c : UInt8, isxdigit c = true → wordChar c = true := by
    apply UInt8.forall_of_fin; decide +kernel
  intro c hc
  cases neg <;> simp only [hexText, Bool.false_eq_true, ↓reduceIte, List.nil_append, List.cons_append, List.mem_cons] at hc
  · rcases hc with rfl | rfl | hc
    · decide
    · decide
    · exact hx c (hall c hc)
  · rcases hc with rfl | rfl | rfl | hc
    · decide
    · decide
    · decide
    · exact hx c (hall c hc)

theorem hexText_hd (neg : Bool) (ds tail : Bytes) :
    hd (hexText neg ds ++ tail) = 45 ∨ isdigit (hd (hexText neg ds ++ tail)) = true := by
  cases neg
  · right; simp [hexText, isdigit]
  · left; simp [hexText]

theorem hexText_ne (neg : Bool) (ds : Bytes) : hexText neg ds ≠ [] := by cases neg <;> simp [hexText]

/-- dispatch facts: no multiplier, no date -/
theorem hexText_dispatch (neg : Bool) (ds rest : Bytes) :
    isRangeMultiplier (hexText neg ds ++ rest) = false ∧ skipFmt fmtIsDate (hexText neg ds ++ rest) = 0 := by
  refine ⟨by cases neg <;> simp [hexText, isRangeMultiplier, isdigit], ?_⟩
  unfold skipFmt scanRd sscanf fmtIsDate
  rw [sscanfGo_int_some _ _ _ _ _ _ _ _ _ (scanInt_d_hexText (some 4) (Or.inr rfl) neg ds rest)]
  rw [sscanfGo_lit_ne _ _ _ _ _ (by simp)]
  rfl

/-- format selection for a hexadecimal integer without suffix -/
theorem scanfFmtstr_hex (neg : Bool) (d : UInt8) (ds rest : Bytes) (hall : ∀ c ∈ d :: ds, isxdigit c = true)
    (hs : Sep rest) : scanfFmtstr (hexText neg (d :: ds) ++ rest) = some .x := by
  have hr := sep_hexEnd rest hs
  obtain ⟨_, _, _, _, h104, _, _, _, _, _, _, h105, _⟩ := sep_hd_facts rest hs
  have hlen : numWordLen (hexText neg (d :: ds) ++ rest) = (hexText neg (d :: ds)).length :=
    numWordLen_word _ rest (hexText_wordChar neg (d :: ds) hall) hs
  have hi := scanInt_hexText .i (by decide) neg d ds rest hall hr
  have hd' := scanInt_d_hexText none (Or.inl rfl) neg (d :: ds) rest
  have hL := hexText_length neg (d :: ds)
  have h1 : sscanf NumFmt.h.tryDirs (hexText neg (d :: ds) ++ rest) = [] := by
    unfold sscanf NumFmt.tryDirs
    rw [sscanfGo_int_some _ _ _ _ _ _ _ _ _ hi, sscanfGo_lit_ne _ _ _ _ _ h104]; rfl
  have h2 : sscanf NumFmt.d.tryDirs (hexText neg (d :: ds) ++ rest) = [.pos (if neg then 2 else 1)] := by
    unfold sscanf NumFmt.tryDirs
    rw [sscanfGo_int_some _ _ _ _ _ _ _ _ _ hd']
    cases neg <;> simp [sscanfGo, hexText] <;> omega
  have h3 : sscanf NumFmt.ii.tryDirs (hexText neg (d :: ds) ++ rest) = [] := by
    unfold sscanf NumFmt.tryDirs
    rw [sscanfGo_int_some _ _ _ _ _ _ _ _ _ hi, sscanfGo_lit_ne _ _ _ _ _ h105]; rfl
  have h4 : sscanf NumFmt.x.tryDirs (hexText neg (d :: ds) ++ rest) = [.pos (hexText neg (d :: ds)).length] := by
    unfold sscanf NumFmt.tryDirs
    rw [sscanfGo_int_some _ _ _ _ _ _ _ _ _ hi]
    simp [sscanfGo]
  unfold scanfFmtstr
  simp only [hlen, List.find?, scanRd, h1, h2, h3, h4]
  have e1 : (0 : Nat) ≠ (hexText neg (d :: ds)).length := by rw [hL]; omega
  have e2 : (if neg then 2 else 1) ≠ (hexText neg (d :: ds)).length := by
    rw [hL]; cases neg <;> simp <;> omega
  simp [e1, e2]

/-- the value `%x` delivers, truncated to 32 bits -/
def hexVal (neg : Bool) (m : Nat) : Int := toI32 (if neg then -(m : Int) else (m : Int))

theorem toI32_intValue_x (neg : Bool) (m : Nat) (hm : m ≤ 4294967295) :
    toI32 (intValue .x neg m) = hexVal neg m := by
  unfold intValue hexVal toI32
  have : ¬ (m > 18446744073709551615) := by omega
  simp only [this, ↓reduceIte]
  cases neg
  · simp
  · simp only [↓reduceIte]
    omega

theorem scanNumeric_hex (neg : Bool) (d : UInt8) (ds rest : Bytes) (hall : ∀ c ∈ d :: ds, isxdigit c = true)
    (hs : Sep rest) (hm : digitsVal 16 (d :: ds) ≤ 4294967295) :
    scanNumeric (hexText neg (d :: ds) ++ rest) =
      .ok ⟨rest, [Cell.int .i (hexVal neg (digitsVal 16 (d :: ds)))], true⟩ := by
  have hr := sep_hexEnd rest hs
  have hfmt := scanfFmtstr_hex neg d ds rest hall hs
  have hx := scanInt_hexText .x (by decide) neg d ds rest hall hr
  have hsc : sscanf (NumFmt.x.dirs false) (hexText neg (d :: ds) ++ rest) =
      [.int (intValue .x neg (digitsVal 16 (d :: ds))), .pos (hexText neg (d :: ds)).length] := by
    unfold sscanf NumFmt.dirs
    rw [sscanfGo_int_some _ _ _ _ _ _ _ _ _ hx]
    simp [sscanfGo]
  have hv := toI32_intValue_x neg (digitsVal 16 (d :: ds)) hm
  have hrange : -2147483648 ≤ hexVal neg (digitsVal 16 (d :: ds)) ∧ hexVal neg (digitsVal 16 (d :: ds)) ≤ 2147483647 := by
    unfold hexVal toI32; constructor <;> omega
  have hpass : scanNumberPass (hexText neg (d :: ds) ++ rest) 0 none =
      .ok ((hexText neg (d :: ds)).length, 105, (hexVal neg (digitsVal 16 (d :: ds)) % 4294967296).toNat) := by
    simp [scanNumberPass, hfmt, NumFmt.type, hsc, hv, bind, Except.bind, pure, Except.pure]
  have h40 := (sep_skipSpace_facts rest hs).1
  have hcell : cellOfRaw 105 (hexVal neg (digitsVal 16 (d :: ds)) % 4294967296).toNat =
      .ok (Cell.int .i (hexVal neg (digitsVal 16 (d :: ds)))) := by
    have hv2 : toI32 (((hexVal neg (digitsVal 16 (d :: ds)) % 4294967296).toNat : Int) % 4294967296) =
        hexVal neg (digitsVal 16 (d :: ds)) := by
      obtain ⟨a, b⟩ := hrange
      unfold toI32; omega
    unfold cellOfRaw
    simp only [show (105 : UInt8) ≠ 104 from by decide, ↓reduceIte, hv2]
  simp [scanNumeric, hpass, h40, hcell, bind, Except.bind, pure, Except.pure]

theorem skipNumericArg_hex (neg : Bool) (d : UInt8) (ds rest : Bytes) (ty : UInt8)
    (hall : ∀ c ∈ d :: ds, isxdigit c = true) (hs : Sep rest) :
    skipNumericArg (hexText neg (d :: ds) ++ rest) ty = ⟨some rest, 1, 105, 0⟩ := by
  have hr := sep_hexEnd rest hs
  have hfmt := scanfFmtstr_hex neg d ds rest hall hs
  have hx := scanInt_hexText .x (by decide) neg d ds rest hall hr
  have hskip : skipFmt (NumFmt.x.dirs true) (hexText neg (d :: ds) ++ rest) = (hexText neg (d :: ds)).length := by
    unfold skipFmt scanRd sscanf NumFmt.dirs
    rw [sscanfGo_int_some _ _ _ _ _ _ _ _ _ hx]
    simp [sscanfGo]
  have h40 := (sep_skipSpace_facts rest hs).1
  have hne0 : (hexText neg (d :: ds)).length ≠ 0 := by rw [hexText_length]; omega
  simp [skipNumericArg, skipNumeric, hfmt, hskip, NumFmt.type, hne0, h40]

/-- **hexadecimal 'i' integer** (digits as a string) -/
theorem valOK_hexText (neg : Bool) (d : UInt8) (ds : Bytes) (hall : ∀ c ∈ d :: ds, isxdigit c = true)
    (hm : digitsVal 16 (d :: ds) ≤ 4294967295) :
    ValOK (hexText neg (d :: ds)) (Cell.int .i (hexVal neg (digitsVal 16 (d :: ds)))) := by
  have hstart : hd (hexText neg (d :: ds)) = 45 ∨ isdigit (hd (hexText neg (d :: ds))) = true := by
    simpa using hexText_hd neg (d :: ds) []
  obtain ⟨_, _, _, _, _, _, _, _, a91, _, _, _, b1, b2, b3, b4, b5, b6, b7⟩ := numStart_facts _ hstart
  refine ⟨⟨hexText_ne neg _, b1, b2, b3, b4, b5, b6, b7⟩, rfl, a91, ?_, ?_⟩
  · intro se rest prev hs
    obtain ⟨hm', hdate⟩ := hexText_dispatch neg (d :: ds) rest
    rw [scanValue_num _ _ _ (hexText_hd neg _ rest) hm' hdate]
    exact scanNumeric_hex neg d ds rest hall hs hm
  · intro sk rest ty ib hs
    refine ⟨0, ?_⟩
    obtain ⟨hm', hdate⟩ := hexText_dispatch neg (d :: ds) rest
    rw [skipValue_num _ _ _ _ (hexText_hd neg _ rest) hm' hdate, skipNumericArg_hex neg d ds rest ty hall hs]
    rfl

end Rtosc.Pretty.C11
