/-
  C18 — "an address that a port-tree walk reported" is C09's notion: C18's short
  specifications of the walked addresses (`walk`, RtoscModel/Path/Apropos.lean; `walkE`,
  RtoscModel/Path/Enum.lean) are proved equal to C09's enumeration specification `enumerate`
  (RtoscModel/Walk/Spec.lean; C09's theorems tie `enumerate` to its model of walk_ports) on
  every tree of C09's well-formed names with at most one `#` per name.
  Imports C09's specification (unchanged); nothing here is executable.
-/
import RtoscModel.Walk.Spec
import RtoscModel.Proofs.PathEnumExt
namespace Rtosc.Path
open Rtosc

/-! ### the two libc models agree -/

theorem isDigit_eq (c : UInt8) : Match.isDigit c = isDigit c := by
  simp [Match.isDigit, isDigit]

theorem natDigitsF_eq_decimalF : ∀ (f g n : Nat), n ≤ f → n < g → Walk.natDigitsF f n = decimalF g n
  | 0, g, n, h1, h2 => by
    have : n = 0 := by omega
    subst this
    cases g with
    | zero => omega
    | succ g' => simp [Walk.natDigitsF, decimalF]
  | f + 1, g, n, h1, h2 => by
    cases g with
    | zero => omega
    | succ g' =>
      rw [Walk.natDigitsF, decimalF]
      by_cases hn : n < 10
      · simp [hn]
      · simp only [hn, ↓reduceIte]
        rw [natDigitsF_eq_decimalF f g' (n / 10) (by omega) (by omega)]

theorem natDigits_eq_decimal (n : Nat) : Walk.natDigits n = decimal n :=
  natDigitsF_eq_decimalF n (n + 1) n (Nat.le_refl _) (by omega)

theorem decVal_eq_atoi (ds : Bytes) (h : ∀ c ∈ ds, isDigit c = true) : Match.decVal ds = atoi ds := by
  have : ∀ (l : Bytes) (acc : Nat), (∀ c ∈ l, isDigit c = true) →
      l.foldl (fun acc c => acc * 10 + (c.toNat - 48)) acc = atoiAux acc l := by
    intro l
    induction l with
    | nil => intro acc _; rfl
    | cons c r ih =>
      intro acc hl
      have hc := hl c List.mem_cons_self
      simp only [List.foldl_cons, atoiAux, hc, ↓reduceIte]
      exact ih _ (fun x hx => hl x (List.mem_cons_of_mem _ hx))
  exact this ds 0 h


/-! ### one name: C09's `WName` and `expandName` -/

theorem lit_of_no_colon : ∀ (b r : Bytes), (∀ c ∈ b, c ≠ COLON) → (r = [] ∨ hd r = COLON) → lit (b ++ r) = b
  | [], r, _, hr => by
    rcases hr with rfl | hr
    · rfl
    · cases r with
      | nil => rfl
      | cons c t => simp only [hd_cons] at hr; subst hr; simp [lit]
  | c :: b, r, hb, hr => by
    have hc : c ≠ COLON := hb c List.mem_cons_self
    have ih := lit_of_no_colon b r (fun x hx => hb x (List.mem_cons_of_mem _ hx)) hr
    show List.takeWhile (· ≠ COLON) (c :: (b ++ r)) = c :: b
    rw [List.takeWhile_cons, if_pos (by simpa using hc)]
    exact congrArg (c :: ·) ih

theorem splitHash_at : ∀ (pre r : Bytes), 35 ∉ pre →
    splitHash (pre ++ 35 :: r) = some (pre, r.takeWhile isDigit, r.dropWhile isDigit)
  | [], r, _ => by simp [splitHash]
  | c :: pre, r, h => by
    simp only [List.mem_cons, not_or] at h
    rw [List.cons_append, splitHash, if_neg (fun e => h.1 e.symm), splitHash_at pre r h.2]
    rfl

theorem takeWhile_digits : ∀ (d rest : Bytes), (∀ c ∈ d, isDigit c = true) → isDigit (hd rest) = false →
    (d ++ rest).takeWhile isDigit = d
  | [], rest, _, hr => by
    cases rest with
    | nil => rfl
    | cons c r => simp only [hd_cons] at hr; simp [hr]
  | c :: d, rest, hd', hr => by
    have hc : isDigit c = true := hd' c List.mem_cons_self
    simp only [List.cons_append, List.takeWhile_cons, hc, ↓reduceIte]
    rw [takeWhile_digits d rest (fun x hx => hd' x (List.mem_cons_of_mem _ hx)) hr]

theorem litChar_facts {c : UInt8} (h : Match.litChar c = true) : c ≠ 0 ∧ c ≠ 35 ∧ c ≠ COLON := by
  simp [Match.litChar] at h
  exact ⟨h.1.1.1.1, h.1.1.1.2, by simpa [COLON] using h.2⟩

theorem textOk_facts {t : Bytes} (h : Walk.textOk t = true) : ∀ c ∈ t, c ≠ 35 ∧ c ≠ COLON := by
  intro c hc
  have := litChar_facts (List.all_eq_true.mp h c hc)
  exact ⟨this.2.1, this.2.2⟩

theorem renderTypes_tail (ts : Option (List Bytes)) (h : Walk.typesOk ts = true) :
    Match.renderTypes ts = [] ∨ hd (Match.renderTypes ts) = COLON := by
  cases ts with
  | none => exact Or.inl rfl
  | some l =>
    cases l with
    | nil => simp [Walk.typesOk] at h
    | cons t r => right; simp [Match.renderTypes, Match.renderTypeAlts, COLON]

theorem slashIf_facts (b : Bool) : (∀ c ∈ Walk.slashIf b, c ≠ 35 ∧ c ≠ COLON) ∧ isDigit (hd (Walk.slashIf b)) = false := by
  cases b <;> simp [Walk.slashIf, COLON] <;> decide

/-- a name of C09's form with at most one `#`: the literal names C18's `expandName` gives for
    it are C09's `expandParts`, in the same order -/
theorem expandName_render (w : Walk.WName) (hok : w.ok = true) (h1 : w.parts.length ≤ 1) :
    expandName (lit w.render) =
      (Walk.expandParts w.parts).map (fun a => w.head ++ a ++ Walk.slashIf w.slash) := by
  simp only [Walk.WName.ok, Bool.and_eq_true] at hok
  obtain ⟨⟨⟨hhead, hparts⟩, htypes⟩, _⟩ := hok
  have hh := textOk_facts hhead
  obtain ⟨hs1, hs2⟩ := slashIf_facts w.slash
  rcases hp : w.parts with _ | ⟨⟨ds, t⟩, rest⟩
  · -- no `#`
    have hbody : ∀ c ∈ w.head ++ Walk.slashIf w.slash, c ≠ 35 ∧ c ≠ COLON := by
      intro c hc
      rcases List.mem_append.mp hc with h | h
      · exact hh c h
      · exact hs1 c h
    have hlit : lit w.render = w.head ++ Walk.slashIf w.slash := by
      have := lit_of_no_colon (w.head ++ Walk.slashIf w.slash) (Match.renderTypes w.types)
        (fun c hc => (hbody c hc).2) (renderTypes_tail _ htypes)
      simpa [Walk.WName.render, Walk.WName.body, hp, Walk.renderParts] using this
    rw [hlit]
    unfold expandName
    rw [splitHash_of_not_mem _ (fun h => (hbody 35 h).1 rfl)]
    simp [Walk.expandParts]
  · have : rest = [] := by
      rw [hp] at h1
      cases rest with
      | nil => rfl
      | cons _ _ => simp at h1
    subst this
    rw [hp] at hparts
    simp only [Walk.partsOk, Walk.numOk, Bool.and_eq_true, Bool.not_eq_true', decide_eq_true_eq] at hparts
    obtain ⟨⟨⟨⟨hne, hdig⟩, _⟩, ht⟩, hsd⟩ := hparts
    have hdig' : ∀ c ∈ ds, isDigit c = true := by
      intro c hc
      rw [← isDigit_eq]; exact List.all_eq_true.mp hdig c hc
    have htt := textOk_facts ht
    have hrest : isDigit (hd (t ++ Walk.slashIf w.slash)) = false := by
      cases t with
      | nil => simpa using hs2
      | cons c _ =>
        simp only [Walk.startsWithDigit] at hsd
        simpa [isDigit_eq] using hsd
    have hbody : ∀ c ∈ w.head ++ 35 :: (ds ++ (t ++ Walk.slashIf w.slash)), c ≠ COLON := by
      intro c hc
      simp only [List.mem_append, List.mem_cons] at hc
      rcases hc with h | rfl | h | h | h
      · exact (hh c h).2
      · decide
      · exact (digit_clean (hdig' c h)).1
      · exact (htt c h).2
      · exact (hs1 c h).2
    have hlit : lit w.render = w.head ++ 35 :: (ds ++ (t ++ Walk.slashIf w.slash)) := by
      have := lit_of_no_colon _ (Match.renderTypes w.types) hbody (renderTypes_tail _ htypes)
      simpa [Walk.WName.render, Walk.WName.body, hp, Walk.renderParts] using this
    rw [hlit]
    unfold expandName
    rw [splitHash_at _ _ (fun h => (hh 35 h).1 rfl), takeWhile_digits ds _ hdig' hrest,
      dropWhile_digits ds _ hdig' hrest]
    simp only [Walk.expandParts, ← decVal_eq_atoi ds hdig']
    simp only [List.flatMap, natDigits_eq_decimal]
    generalize List.range (Match.decVal ds) = l
    induction l with
    | nil => rfl
    | cons k l ih => simp at ih ⊢; exact ih

/-! ### the trees: C09's `enumerate` is C18's `walkE` -/

mutual
/-- every name of the tree has at most one `#` (the names `walkE`/`expandName` are written for) -/
def singleHashTree : Walk.STree → Bool
  | .leaf w _ => decide (w.parts.length ≤ 1)
  | .sub w _ kids => decide (w.parts.length ≤ 1) && singleHashList kids
def singleHashList : List Walk.STree → Bool
  | [] => true
  | t :: r => singleHashTree t && singleHashList r
end

theorem withSlash_slash (e : Bytes) : withSlash (e ++ [47]) = e ++ [47] := by
  simp [withSlash, SLASH]

mutual
theorem enumList_eq_walkEL : ∀ (ts : List Walk.STree) (pre : Bytes) (path : List Nat) (i : Nat),
    Walk.wfList ts = true → singleHashList ts = true →
    Walk.enumList pre path ts i = (walkEL (Walk.toPorts ts) i).map (fun e => (path ++ e.2, pre ++ e.1))
  | [], pre, path, i, _, _ => by simp [Walk.enumList, Walk.toPorts, walkEL]
  | t :: r, pre, path, i, hwf, hsh => by
    simp only [Walk.wfList, Bool.and_eq_true] at hwf
    simp only [singleHashList, Bool.and_eq_true] at hsh
    rw [Walk.enumList, Walk.toPorts, walkEL, enumTree_eq_walkEP t pre (path ++ [i]) hwf.1 hsh.1,
      enumList_eq_walkEL r pre path (i + 1) hwf.2 hsh.2]
    simp [List.map_map, Function.comp_def]
theorem enumTree_eq_walkEP : ∀ (t : Walk.STree) (pre : Bytes) (ix : List Nat),
    t.wf = true → singleHashTree t = true →
    Walk.enumTree pre ix t = (walkEP t.toPort).map (fun e => (ix ++ e.2, pre ++ e.1))
  | .leaf w md, pre, ix, hwf, hsh => by
    simp only [Walk.STree.wf, Walk.WName.leafOk] at hwf
    simp only [singleHashTree, decide_eq_true_eq] at hsh
    rw [Walk.enumTree, Walk.STree.toPort, walkEP]
    simp only [Bool.false_eq_true, ↓reduceIte]
    rw [expandName_render w hwf hsh]
    simp [List.map_map, Function.comp_def]
  | .sub w md kids, pre, ix, hwf, hsh => by
    simp only [Walk.STree.wf, Walk.WName.subOk, Bool.and_eq_true] at hwf
    simp only [singleHashTree, Bool.and_eq_true, decide_eq_true_eq] at hsh
    obtain ⟨⟨⟨⟨hok, _⟩, hslash⟩, _⟩, hkids⟩ := hwf
    rw [Walk.enumTree, Walk.STree.toPort, walkEP]
    simp only [↓reduceIte]
    rw [expandName_render w hok hsh.1, hslash]
    simp only [Walk.slashIf, ↓reduceIte, List.map_map, List.flatMap]
    rw [List.map_flatten, List.map_map]
    congr 1
    apply List.map_congr_left
    intro a _
    simp only [Function.comp_def]
    rw [enumList_eq_walkEL kids _ ix 0 hkids hsh.2, withSlash_slash]
    simp [List.map_map, Function.comp_def]
end

/-- **C09's enumeration specification and C18's `walkE` are the same list**: for every tree of
    C09's well-formed names (`TreeWF`) in which no name has more than one `#`, `enumerate ts pre`
    (RtoscModel/Walk/Spec.lean: every leaf under every concrete address, `pre` = address of the
    table) is `walkE (toPorts ts)` with `pre` put in front of every address, in the same order
    and with the same index paths. -/
theorem enumerate_eq_walkE (ts : List Walk.STree) (pre : Bytes) (hwf : Walk.TreeWF ts)
    (hsh : singleHashList ts = true) :
    Walk.enumerate ts pre = (walkE (Walk.toPorts ts)).map (fun e => (e.2, pre ++ e.1)) := by
  unfold Walk.enumerate walkE
  rw [enumList_eq_walkEL ts pre [] 0 hwf hsh]
  simp

end Rtosc.Path
