/-
  C20 — `MidiMapperStorage::cloneValues` (run by the realtime half on every `midi-bind`) carries
  each controller's 7-bit half over into the new snapshot: for a controller present in both the
  old and the new mapping, the half (coarse / fine) of its new value slot that it owns equals the
  half of its old slot that it owned — provided no two entries of the new mapping own the same
  half of the same slot (`PairInj`, which holds for every snapshot of a hazard-free history).
-/
import RtoscModel.Proofs.MidiClauses
set_option linter.unusedSimpArgs false
namespace Rtosc.Midi

/-- the 7-bit half of a 14-bit slot value: coarse = upper, fine = lower (what `cloneValues` extracts) -/
def half (c : Bool) (v : Nat) : Nat := if c then v >>> 7 else v &&& 0x7f

theorem half_true (v : Nat) : half true v = v / 128 := by simp [half, Nat.shiftRight_eq_div_pow]
theorem half_false (v : Nat) : half false v = v % 128 := by
  simp only [half, Bool.false_eq_true, if_false]; exact Nat.and_two_pow_sub_one_eq_mod v 7

theorem half_lt (c : Bool) (v : Nat) (h : v < 16384) : half c v < 128 := part_lt c v h

/-- a blit writes its own half … -/
theorem half_blit_same (c : Bool) (v dv : Nat) (hv : v < 128) (hd : dv < 16384) : half c (blit c v dv) = v := by
  cases c
  · rw [blit_fine v dv hv hd, half_false]; omega
  · rw [blit_coarse, half_true]; omega

/-- … and leaves the other half alone -/
theorem half_blit_other (c : Bool) (v dv : Nat) (hv : v < 128) (hd : dv < 16384) :
    half (!c) (blit c v dv) = half (!c) dv := by
  cases c
  · simp only [Bool.not_false]; rw [blit_fine v dv hv hd, half_true, half_true]; omega
  · simp only [Bool.not_true]; rw [blit_coarse, half_false, half_false]; omega

/-- the LAST entry of `l` that carries `d`'s controller (the one whose blit survives) -/
def lastMatch (d : MapEnt) : List MapEnt → Option MapEnt
  | [] => none
  | s :: rest =>
    match lastMatch d rest with
    | some x => some x
    | none => if d.id = s.id then some s else none

/-- what the inner loop of `cloneValues` does for one destination entry -/
theorem cloneInner_effect (d : MapEnt) (src : Storage) (hs : Small src.values) :
    ∀ (l : List MapEnt) (vals vals' : List Nat), Small vals → d.slot < vals.length →
      cloneInner d src l vals = some vals' →
      vals'.length = vals.length ∧ (∀ j, j ≠ d.slot → vals'[j]? = vals[j]?) ∧
      ∃ w w0, vals'[d.slot]? = some w ∧ vals[d.slot]? = some w0 ∧ half (!d.coarse) w = half (!d.coarse) w0 ∧
        (match lastMatch d l with
         | none => w = w0
         | some s => ∃ sv, src.values[s.slot]? = some sv ∧ half d.coarse w = half s.coarse sv) := by
  intro l
  induction l with
  | nil =>
    intro vals vals' _ hd h
    simp [cloneInner] at h; subst h
    exact ⟨rfl, fun _ _ => rfl, vals[d.slot], vals[d.slot], List.getElem?_eq_getElem hd,
      List.getElem?_eq_getElem hd, rfl, by simp [lastMatch]⟩
  | cons s rest ih =>
    intro vals vals' hv hd h
    unfold cloneInner at h
    split at h
    · rename_i hid
      split at h
      · rename_i sv dv hsv hdv
        have hsv' : sv < 16384 := hs sv (List.mem_of_getElem? hsv)
        have hdv' : dv < 16384 := hv dv (List.mem_of_getElem? hdv)
        have hp : (if s.coarse then sv >>> 7 else sv &&& 0x7f) < 128 := part_lt _ _ hsv'
        have hpe : (if s.coarse then sv >>> 7 else sv &&& 0x7f) = half s.coarse sv := rfl
        rw [hpe] at h hp
        have hsm := small_set hv d.slot _ (blit_lt d.coarse _ _ hp hdv')
        obtain ⟨hlen, hoth, w, w1, hw, hw1, hother, hmatch⟩ := ih _ vals' hsm (by simpa using hd) h
        have hw1' : w1 = blit d.coarse (half s.coarse sv) dv := by
          rw [List.getElem?_set_self (by simpa using hd)] at hw1; exact (Option.some.inj hw1).symm
        refine ⟨by simpa using hlen, ?_, w, dv, hw, hdv, ?_, ?_⟩
        · intro j hj; rw [hoth j hj, List.getElem?_set_ne (Ne.symm hj)]
        · rw [hother, hw1', half_blit_other _ _ _ hp hdv']
        · simp only [lastMatch]
          cases hlm : lastMatch d rest with
          | some x => simp only [hlm] at hmatch ⊢; exact hmatch
          | none =>
            simp only [hlm, hid, if_true] at hmatch ⊢
            exact ⟨sv, hsv, by rw [hmatch, hw1', half_blit_same _ _ _ hp hdv']⟩
      · simp at h
    · rename_i hid
      obtain ⟨hlen, hoth, w, w0, hw, hw0, hother, hmatch⟩ := ih vals vals' hv hd h
      refine ⟨hlen, hoth, w, w0, hw, hw0, hother, ?_⟩
      simp only [lastMatch]
      cases hlm : lastMatch d rest with
      | some x => simp only [hlm] at hmatch ⊢; exact hmatch
      | none => simp only [hlm, hid, if_false] at hmatch ⊢; exact hmatch

/-- the half `(slot, c)` as seen in a value vector -/
def halfAt (slot : Nat) (c : Bool) (vals : List Nat) : Option Nat := (vals[slot]?).map (half c)

/-- an inner loop for an entry that owns another half leaves `(slot, c)` alone -/
theorem cloneInner_pres (d : MapEnt) (src : Storage) (hs : Small src.values) (l : List MapEnt)
    (vals vals' : List Nat) (hv : Small vals) (hd : d.slot < vals.length)
    (h : cloneInner d src l vals = some vals') (slot : Nat) (c : Bool) (hne : ¬(d.slot = slot ∧ d.coarse = c)) :
    halfAt slot c vals' = halfAt slot c vals := by
  obtain ⟨_, hoth, w, w0, hw, hw0, hother, _⟩ := cloneInner_effect d src hs l vals vals' hv hd h
  by_cases hsl : slot = d.slot
  · subst hsl
    have hc : c = !d.coarse := by
      cases c <;> cases hdc : d.coarse <;> simp_all
    simp only [halfAt, hw, hw0, Option.map_some, hc, hother]
  · simp only [halfAt, hoth slot hsl]

/-- no two entries own the same half of the same slot -/
def PairInj (m : List MapEnt) : Prop :=
  ∀ e1 ∈ m, ∀ e2 ∈ m, e1.slot = e2.slot → e1.coarse = e2.coarse → e1 = e2

theorem cloneOuter_pres (src : Storage) (hs : Small src.values) :
    ∀ (L : List MapEnt) (vals vals' : List Nat), Small vals → (∀ e ∈ L, e.slot < vals.length) →
      cloneOuter src L vals = some vals' → ∀ slot c, (∀ e ∈ L, ¬(e.slot = slot ∧ e.coarse = c)) →
      halfAt slot c vals' = halfAt slot c vals := by
  intro L
  induction L with
  | nil => intro vals vals' _ _ h; simp [cloneOuter] at h; subst h; intros; rfl
  | cons d rest ih =>
    intro vals vals' hv hsl h slot c hne
    unfold cloneOuter at h
    split at h
    · simp at h
    · rename_i v1 h1
      have hd := hsl d List.mem_cons_self
      have e1 := cloneInner_pres d src hs _ vals v1 hv hd h1 slot c (hne d List.mem_cons_self)
      have hlen := (cloneInner_effect d src hs _ vals v1 hv hd h1).1
      have e2 := ih v1 vals' (cloneInner_small d src hs _ _ _ hv h1)
        (fun e he => by rw [hlen]; exact hsl e (List.mem_cons_of_mem _ he)) h slot c
        (fun e he => hne e (List.mem_cons_of_mem _ he))
      rw [e2, e1]

theorem cloneOuter_effect (src : Storage) (hs : Small src.values) :
    ∀ (L : List MapEnt) (vals vals' : List Nat), Small vals → (∀ e ∈ L, e.slot < vals.length) → PairInj L →
      cloneOuter src L vals = some vals' → ∀ d ∈ L, ∀ s, lastMatch d src.mapping = some s →
      ∃ sv, src.values[s.slot]? = some sv ∧ halfAt d.slot d.coarse vals' = some (half s.coarse sv) := by
  intro L
  induction L with
  | nil => intro _ _ _ _ _ _ d hd; cases hd
  | cons d0 rest ih =>
    intro vals vals' hv hsl hinj h d hd s hlm
    unfold cloneOuter at h
    split at h
    · simp at h
    · rename_i v1 h1
      have hd0 := hsl d0 List.mem_cons_self
      have eff := cloneInner_effect d0 src hs _ vals v1 hv hd0 h1
      have hlen := eff.1
      have hv1 := cloneInner_small d0 src hs _ _ _ hv h1
      have hsl1 : ∀ e ∈ rest, e.slot < v1.length := fun e he => by
        rw [hlen]; exact hsl e (List.mem_cons_of_mem _ he)
      by_cases hin : d ∈ rest
      · exact ih v1 vals' hv1 hsl1 (fun a ha b hb => hinj a (List.mem_cons_of_mem _ ha) b (List.mem_cons_of_mem _ hb))
          h d hin s hlm
      · have hdd : d = d0 := by
          rcases List.mem_cons.mp hd with h' | h'
          · exact h'
          · exact absurd h' hin
        subst hdd
        obtain ⟨_, _, w, w0, hw, _, _, hmatch⟩ := eff
        simp only [hlm] at hmatch
        obtain ⟨sv, hsv, hhalf⟩ := hmatch
        refine ⟨sv, hsv, ?_⟩
        have hp := cloneOuter_pres src hs rest v1 vals' hv1 hsl1 h d.slot d.coarse ?_
        · rw [hp]; simp [halfAt, hw, hhalf]
        · intro e he hc
          have := hinj e (List.mem_cons_of_mem _ he) d List.mem_cons_self hc.1 hc.2
          exact hin (this ▸ he)

theorem lastMatch_none {d : MapEnt} : ∀ {m : List MapEnt}, d.id ∉ ids m → lastMatch d m = none := by
  intro m
  induction m with
  | nil => intro _; rfl
  | cons y ys ih =>
    intro h
    have hy : d.id ≠ y.id := fun e => h (mem_ids.mpr ⟨y, List.mem_cons_self, e.symm⟩)
    have hys : d.id ∉ ids ys := fun e => by
      obtain ⟨z, hz, hzid⟩ := mem_ids.mp e
      exact h (mem_ids.mpr ⟨z, List.mem_cons_of_mem _ hz, hzid⟩)
    simp [lastMatch, ih hys, hy]

theorem lastMatch_of_nodup {d s : MapEnt} : ∀ {m : List MapEnt}, (ids m).Nodup → s ∈ m → d.id = s.id →
    lastMatch d m = some s := by
  intro m
  induction m with
  | nil => intro _ h; cases h
  | cons x rest ih =>
    intro nd hm hid
    have nd0 : x.id ∉ ids rest ∧ (ids rest).Nodup := List.nodup_cons.mp nd
    rcases List.mem_cons.mp hm with rfl | hr
    · have : lastMatch d rest = none := lastMatch_none (by rw [hid]; exact nd0.1)
      simp [lastMatch, this, hid]
    · simp [lastMatch, ih nd0.2 hr hid]

/-- **cloneValues keeps every controller's half**: `ns.cloneValues old` (what the realtime half
    does with a delivered snapshot `ns` and the snapshot `old` it was acting on) -/
theorem cloneValues_keeps_half {ns old ns' : Storage} (hn : StOk ns) (ho : StOk old) (hs : Small old.values)
    (hinj : PairInj ns.mapping) (h : ns.cloneValues old = some ns') {d s : MapEnt} (hd : d ∈ ns.mapping)
    (hsm : s ∈ old.mapping) (hid : d.id = s.id) :
    ∃ sv, old.values[s.slot]? = some sv ∧ halfAt d.slot d.coarse ns'.values = some (half s.coarse sv) := by
  unfold Storage.cloneValues at h
  split at h
  · simp at h
  · rename_i v hv
    simp at h; subst h
    exact cloneOuter_effect old hs ns.mapping _ v (small_replicate _)
      (fun e he => by simp only [List.length_replicate]; rw [hn.vals]; exact hn.slots e he) hinj hv d hd s
      (lastMatch_of_nodup ho.nodup hsm hid)

/-! ### system level: every snapshot of a hazard-free history is `PairInj` -/

theorem pairInj_of_nrtOk {P n} (h : NrtOk P n) : PairInj n.mapping := by
  intro e1 h1 e2 h2 hslot hc
  obtain ⟨cb1, im1, hcb1, hl1, _, hs1⟩ := h.map_inv e1 h1
  obtain ⟨cb2, im2, hcb2, hl2, _, hs2⟩ := h.map_inv e2 h2
  rw [hslot] at hcb1
  have hcb : cb1 = cb2 := Option.some.inj (hcb1.symm.trans hcb2)
  subst hcb
  have him : im1 = im2 := Option.some.inj (hl1.symm.trans hl2)
  subst him
  rw [hc] at hs1
  have hid : e1.id = e2.id := Option.some.inj (hs1.symm.trans hs2)
  cases hst : n.storage with
  | none => simp [NRT.mapping, hst] at h1
  | some st =>
    have nd := (h.stok st hst).nodup
    simp only [NRT.mapping, hst] at h1 h2
    exact eq_of_mem_nodup nd h1 h2 hid

theorem past_nrtOk {P h s} (t : Trace P h s) (hf : HazardFree h) : ∀ n ∈ pastNrts h s, NrtOk P n := by
  induction t with
  | init => intro n hn; simp [pastNrts, Sys.init] at hn; subst hn; exact nrtOk_init P
  | step t hwf hs ih =>
    rename_i h0 s0 s1 op out
    intro n hn
    have hf0 : HazardFree h0 := fun x hx => hf x (List.mem_cons_of_mem _ hx)
    simp only [pastNrts, List.map_cons, List.mem_cons] at hn
    rcases hn with rfl | rfl | hn
    · exact (inv_of_trace (Trace.step t hwf hs) hf).nrt
    · exact (inv_of_trace t hf0).nrt
    · exact ih hf0 n (by simp only [pastNrts, List.mem_cons]; exact Or.inr hn)

/-- **A controller's 7-bit half survives every `midi-bind`** (hazard-free histories): when the
    realtime half, acting on snapshot `old`, receives the snapshot `ns`, the step does not crash,
    the new snapshot it acts on has `ns`'s mapping, and for every controller that has an entry in
    both mappings (`d` in the new, `e` in the old one) the half of `d`'s value slot that `d` owns
    (coarse: upper 7 bits, fine: lower 7 bits) holds exactly what `e`'s half of `e`'s slot held —
    the last value the controller sent — whatever slots and halves the two snapshots assign. -/
theorem half_survives_bind {P h s} (t : Trace P h s) (hf : HazardFree h) {ns ans rest old}
    (hq : s.toRT = .bind ns ans :: rest) (hold : s.rt.storage = some old)
    (hz : hazard s .deliverRT = false) :
    ∃ s' ns', step P s .deliverRT = some (s', []) ∧ s'.rt.storage = some ns' ∧ ns'.mapping = ns.mapping ∧
      ∀ d ∈ ns.mapping, ∀ e ∈ old.mapping, d.id = e.id →
        ∃ sv, old.values[e.slot]? = some sv ∧ halfAt d.slot d.coarse ns'.values = some (half e.coarse sv) := by
  have hi := inv_of_trace t hf
  obtain ⟨s3, ns', hstep, _, _, _, _, hst3, _, _, hmap, _⟩ := deliverRT_bind_ok hi hq hz
  have hclone : ns.cloneValues old = some ns' := by
    simp only [step, hq, RT.recv, hold] at hstep
    cases hc : ns.cloneValues old with
    | none => simp [hc] at hstep
    | some x =>
      simp only [hc, Option.map_some, Option.some.injEq, Prod.mk.injEq] at hstep
      have : s3.rt.storage = some x := by rw [← hstep.1]
      rw [hst3] at this; rw [Option.some.inj this]
  have hns : StOk ns := hi.fl (ns, ans) (by simp [hq, flightOf])
  have hok : StOk old := hi.rts old hold
  have hsmall : Small old.values := ((inv0_of_reach (reach_of_trace t)).rt old hold).2
  obtain ⟨n, hn, hview⟩ := (views_are_past t).2 ns ans (by simp [hq])
  have hinj : PairInj ns.mapping := by
    have := pairInj_of_nrtOk (past_nrtOk t hf n hn)
    cases hst : n.storage with
    | none => simp [viewOf, hst] at hview; intro e1 h1; simp [hview.1] at h1
    | some st =>
      simp only [viewOf, hst, Prod.mk.injEq] at hview
      simpa [NRT.mapping, hst, hview.1] using this
  refine ⟨s3, ns', hstep, hst3, hmap, ?_⟩
  intro d hd e he hid
  exact cloneValues_keeps_half hns hok hsmall hinj hclone hd he hid

end Rtosc.Midi
