/-
  C06 — the real framing functions satisfy what the ThreadLink theorems ask of a framing
  function.  `frameOsc` (= `rtosc_message_ring_length` on the ring view, C01's model
  `Osc.ringLength`) is a `Framing` for the encodings of well-formed OSC messages
  (`IsOscMsg`): from C01's `ringLength_spec` (stated in Props/C01.lean as `ringLength_encode`).
  `rawLen` (= `rtosc_message_length(msg,-1)`, `Osc.messageLengthU`) agrees with it on such
  messages (`messageLengthU_msg`, C08), hence the sequential model with the two real length
  functions (`Seq.runOsc`) is `Seq.run frameOsc` on every history of messages.
-/
import RtoscModel.Ring.Frame
import RtoscModel.Ring.Spec
import RtoscModel.Proofs.RingSeq
import RtoscModel.Proofs.OscLength
import RtoscModel.Proofs.BundleLength
import RtoscModel.Proofs.BundleTerm
namespace Rtosc.Ring
open Rtosc

/-! ### `rtosc_message_ring_length` never reports more than the ring holds -/

theorem lenLoop_le (r : Osc.Ring) (al : Nat) : ∀ (ts : Bytes) (tp pos n : Nat),
    Osc.lenLoop r al tp ts pos = some n → n ≤ r.total := by
  intro ts
  induction ts with
  | nil =>
    intro tp pos n h
    cases tp with
    | zero =>
      simp only [Osc.lenLoop, Option.some.injEq] at h
      subst h; split <;> omega
    | succ tp =>
      simp only [Osc.lenLoop] at h
      split at h
      · cases h; omega
      · cases h
  | cons t ts ih =>
    intro tp pos n h
    cases tp with
    | zero =>
      simp only [Osc.lenLoop, Option.some.injEq] at h
      subst h; split <;> omega
    | succ tp =>
      simp only [Osc.lenLoop] at h
      split at h
      · cases h; omega
      · split at h
        · exact ih _ _ _ h
        · split at h
          · exact ih _ _ _ h
          · split at h
            · split at h
              · cases h
              · exact ih _ _ _ h
            · split at h
              · try simp only at h
                split at h
                · cases h; omega
                · exact ih _ _ _ h
              · exact ih _ _ _ h

theorem bundleLoop_le (r : Osc.Ring) : ∀ (f pos n : Nat),
    Osc.bundleLoop r f pos = some n → n ≤ r.total := by
  intro f
  induction f with
  | zero => intro pos n h; simp [Osc.bundleLoop] at h
  | succ f ih =>
    intro pos n h
    simp only [Osc.bundleLoop] at h
    split at h
    · cases h; omega
    · try simp only at h
      split at h
      · cases h; omega
      · split at h
        · exact ih _ _ h
        · simp only [Option.some.injEq] at h
          subst h; split <;> omega

theorem ringLength_le (r : Osc.Ring) (n : Nat) (h : Osc.ringLength r = some n) : n ≤ r.total := by
  unfold Osc.ringLength at h
  split at h
  · exact bundleLoop_le r _ _ _ h
  · split at h
    · cases h
    · try simp only at h
      split at h
      · cases h; omega
      · split at h
        · cases h
        · try simp only at h
          split at h
          · cases h
          · exact lenLoop_le r _ _ _ _ _ h

theorem frameOsc_le (v : Bytes) : frameOsc v ≤ v.length := by
  unfold frameOsc
  cases h : Osc.ringLength ⟨v, []⟩ with
  | none => simp
  | some n =>
    have := ringLength_le _ n h
    simpa [Osc.Ring.total] using this

theorem encode_ne_nil (m : Osc.Msg) : Osc.Spec.encode m ≠ [] := by
  intro h
  have := congrArg List.length h
  rw [Osc.encode_length] at this
  simp only [List.length_nil] at this
  omega

/-- **A1.** The model of `rtosc_message_ring_length` is a framing function in the sense of the
    ThreadLink theorems, for the encodings of well-formed OSC messages. -/
theorem oscFraming : Framing frameOsc IsOscMsg where
  le := frameOsc_le
  msg := by
    rintro b rest ⟨m, hwf, hnb, rfl⟩
    unfold frameOsc
    rw [Osc.ringLength_spec m rest ⟨Osc.Spec.encode m ++ rest, []⟩ hwf hnb (by simp)]
    rfl
  ne := by
    rintro b ⟨m, _, _, rfl⟩
    exact encode_ne_nil m

/-- `rtosc_message_length(msg,-1)` (what `raw_write` calls) on a block that starts with an
    encoded message is the length of the message: it stays inside the block and terminates. -/
theorem rawLen_msg (b rest : Bytes) (h : IsOscMsg b) : rawLen (b ++ rest) = .ok b.length := by
  obtain ⟨m, hwf, hnb, rfl⟩ := h
  exact Osc.messageLengthU_msg m rest hwf hnb

theorem rawLen_eq_frameOsc (b : Bytes) (h : IsOscMsg b) : rawLen b = .ok (frameOsc b) := by
  have h1 := rawLen_msg b [] h
  have h2 := oscFraming.msg b [] h
  rw [List.append_nil] at h1 h2
  rw [h1, h2]

/-! ### `rtosc_message_length(msg,-1)` returns (after fix C06-bundle-length-wrap) -/

/-- the block starts with `#bundle\0`: the `&&` chain of `rtosc_message_ring_length` says so -/
theorem magicU_of_take (b : Bytes) (h : b.take 8 = bundleMagic) :
    Osc.magicU b Osc.bundleMagic 0 = some true := by
  have hb : b = Osc.bundleMagic ++ b.drop 8 := by
    have := List.take_append_drop 8 b
    rw [h] at this
    exact this.symm
  rw [hb]
  simp [Osc.magicU, Osc.bundleMagic]

theorem rawLen_ne_hang (b : Bytes) (h : b.length < 4294967296 ∨ b.take 8 = bundleMagic) :
    rawLen b ≠ .hang := by
  rcases h with h | h
  · exact Osc.messageLengthU_ne_hang b h
  · exact Osc.messageLengthU_bundle_ne_hang b (magicU_of_take b h)

/-- an operation of the sequential model with the real length functions has no successor only
    when it is a `raw_write` whose length walk leaves the block or does not return -/
theorem stepOsc_none (s : Seq) (op : Op) (h : s.stepOsc op = none) :
    ∃ b, op = .rawWrite b ∧ (rawLen b = .oob ∨ rawLen b = .hang) := by
  cases op with
  | rawWrite b =>
    refine ⟨b, rfl, ?_⟩
    simp only [Seq.stepOsc] at h
    cases hr : rawLen b with
    | ok n => rw [hr] at h; cases h
    | oob => exact Or.inl rfl
    | hang => exact Or.inr rfl
  | _ => cases h

theorem stepOsc_eq (s : Seq) (op : Op) (h : op.Ok IsOscMsg) :
    s.stepOsc op = some (s.step frameOsc op) := by
  cases op with
  | rawWrite b =>
    have hb : IsOscMsg b := h
    simp only [Seq.stepOsc, rawLen_eq_frameOsc b hb, Seq.step, Seq.rawWrite]
  | _ => rfl

theorem runOsc_eq : ∀ (ops : List Op) (s : Seq), (∀ op, op ∈ ops → op.Ok IsOscMsg) →
    Seq.runOsc s ops = some (Seq.run frameOsc s ops) := by
  intro ops
  induction ops with
  | nil => intro s _; rfl
  | cons op ops ih =>
    intro s h
    have h1 := stepOsc_eq s op (h op (List.mem_cons_self ..))
    have h2 := ih (s.step frameOsc op).1 (fun o ho => h o (List.mem_cons_of_mem _ ho))
    simp only [Seq.runOsc, h1, h2, Seq.run]

end Rtosc.Ring
