/-
  C10 — tier 3: int64 ('h') arithmetic runs.  With range compression on, a list that is one
  arithmetic run of `n ≥ 5` int64 values is printed as `ah ... zh` (step ±1) or `ah bh ... zh`
  (other steps); checker and scanner read the text back as the range block.
  The analogue of `PrettyRunInt` for `Cell.huge`.
-/
import RtoscModel.Proofs.PrettyRunInt
import RtoscModel.Proofs.PrettyTokHuge
namespace Rtosc.Pretty
open Rtosc Rtosc.Libc
open Rtosc.ArgVal (Cell)

/-- the arithmetic run `a, a+d, …, a+(n-1)d` as 'h' cells -/
def hugeRun (a d : Int) (n : Nat) : List Cell :=
  (List.range n).map (fun (k : Nat) => Cell.huge (a + (k : Int) * d))

/-- the printed token of an int64: `%ld` and the suffix `h` -/
def hTok (v : Int) : Bytes := fmtDec v ++ [104]

theorem hTok_append (v : Int) (rest : Bytes) : hTok v ++ rest = fmtDec v ++ 104 :: rest := by
  simp [hTok]

theorem hTok_length (v : Int) : (hTok v).length = (fmtDec v).length + 1 := by
  simp [hTok]

/-! ### arithmetic -/

theorem mul_bound_h (n : Nat) (d : Int) (B : Int) (hwidth : ((n : Int) - 1) * d.natAbs ≤ B) (k : Nat)
    (hk : (k : Int) ≤ (n : Int) - 1) :
    -B ≤ (k : Int) * d ∧ (k : Int) * d ≤ B := by
  obtain ⟨m, rfl | rfl⟩ := Int.eq_nat_or_neg d
  · simp only [Int.natAbs_natCast] at hwidth
    have h1 : (k : Int) * (m : Int) ≤ ((n : Int) - 1) * (m : Int) :=
      Int.mul_le_mul_of_nonneg_right hk (Int.natCast_nonneg _)
    have h0 : 0 ≤ (k : Int) * (m : Int) := Int.mul_nonneg (Int.natCast_nonneg _) (Int.natCast_nonneg _)
    omega
  · simp only [Int.natAbs_neg, Int.natAbs_natCast] at hwidth
    have h1 : (k : Int) * (m : Int) ≤ ((n : Int) - 1) * (m : Int) :=
      Int.mul_le_mul_of_nonneg_right hk (Int.natCast_nonneg _)
    have h0 : 0 ≤ (k : Int) * (m : Int) := Int.mul_nonneg (Int.natCast_nonneg _) (Int.natCast_nonneg _)
    rw [Int.mul_neg]
    omega

/-! ### the run -/

theorem hugeRun_length (a d : Int) (n : Nat) : (hugeRun a d n).length = n := by
  simp [hugeRun]

theorem hugeRun_drop (a d : Int) (n k : Nat) (hk : k < n) :
    (hugeRun a d n).drop k = Cell.huge (a + (k : Int) * d) :: (hugeRun a d n).drop (k + 1) := by
  rw [List.drop_eq_getElem_cons (by rw [hugeRun_length]; exact hk)]
  simp [hugeRun]

theorem hugeRun_cons (a d : Int) (n : Nat) (hn : 0 < n) :
    hugeRun a d n = Cell.huge a :: (hugeRun a d n).drop 1 := by
  have := hugeRun_drop a d n 0 hn
  simpa using this

theorem eqSingle_huge (x y : Int) (l r : List Cell) :
    eqSingle (Cell.huge x :: l) (Cell.huge y :: r) = .ok (decide (x = y)) := by
  simp [eqSingle, ArgVal.eqSingle, ArgVal.deref, ArgVal.Cell.asArr, ArgVal.eqScalar, ArgVal.Cell.type, liftAV, bind, Except.bind,
    pure, Except.pure]

theorem addAV_huge (x y : Int) : addAV (Cell.huge x) (Cell.huge y) = .ok (some (Cell.huge (toI64 (x + y)))) := by
  simp [addAV, ArgVal.Cell.type]

theorem subAV_huge (x y : Int) : subAV (Cell.huge x) (Cell.huge y) = .ok (some (Cell.huge (toI64 (x - y)))) := by
  simp [subAV, ArgVal.Cell.type]

theorem multAV_huge (x y : Int) : multAV (Cell.huge x) (Cell.huge y) = .ok (some (Cell.huge (toI64 (x * y)))) := by
  simp [multAV, ArgVal.Cell.type]

/-- the hypotheses on the run -/
structure HRunHyp (a d : Int) (n : Nat) : Prop where
  hn : 5 ≤ n
  hd : d ≠ 0
  hrange : ∀ k : Nat, k ≤ n → -9223372036854775808 ≤ a + (k : Int) * d ∧ a + (k : Int) * d ≤ 9223372036854775807
  hwidth : ((n : Int) - 1) * d.natAbs ≤ 9223372036854775807
  hn32 : (n : Int) ≤ 2147483647

theorem HRunHyp.mul {a d : Int} {n : Nat} (h : HRunHyp a d n) (k : Nat) (hk : k + 1 ≤ n) :
    -9223372036854775807 ≤ (k : Int) * d ∧ (k : Int) * d ≤ 9223372036854775807 :=
  mul_bound_h n d 9223372036854775807 h.hwidth k (by omega)

theorem HRunHyp.dbound {a d : Int} {n : Nat} (h : HRunHyp a d n) :
    -9223372036854775807 ≤ d ∧ d ≤ 9223372036854775807 := by
  have := h.mul 1 (by have := h.hn; omega)
  simpa using this

/-! ### stage 1: `rtosc_convert_to_range` -/

theorem countCommon_run_h (a d : Int) (n : Nat) :
    ∀ (fuel i m : Nat), i ≤ n → n - i < fuel →
      countCommon fuel 104 (hugeRun a d n) n i m = .ok (m + (n - i)) := by
  intro fuel
  induction fuel with
  | zero => intro i m _ h; omega
  | succ f ih =>
    intro i m hi hf
    unfold countCommon
    by_cases hlt : i < n
    · simp only [hlt, ↓reduceIte, hugeRun_drop a d n i hlt, deref, bind, Except.bind,
        incsize_scalar _ _ (show (Cell.huge (a + (i : Int) * d)).isScalar = true from rfl)]
      simp only [ArgVal.Cell.type, ne_eq, not_true_eq_false, ↓reduceIte]
      rw [ih (i + 1) (m + 1) (by omega) (by omega)]
      congr 1; omega
    · simp only [hlt, ↓reduceIte, pure, Except.pure]
      congr 1; omega

theorem extendRun_run_h {a d : Int} {n : Nat} (h : HRunHyp a d n) :
    ∀ (fuel s c : Nat), 1 ≤ s → s < n → n - s < fuel →
      extendRun fuel (hugeRun a d n) n (some (Cell.huge d)) s c = .ok (n, c + (n - s)) := by
  intro fuel
  induction fuel with
  | zero => intro s c _ _ hf; omega
  | succ f ih =>
    intro s c hs1 hsn hf
    unfold extendRun
    have hr := h.hrange (s + 1) (by omega)
    have hr0 := h.hrange s (by omega)
    rw [succ_mul'] at hr
    have hso : rangeStepOverflows (Cell.huge (a + (s : Int) * d)) (Cell.huge d) = false := by
      simp only [rangeStepOverflows, Bool.or_eq_false_iff, decide_eq_false_iff_not]
      omega
    have hadd : addAV (Cell.huge (a + (s : Int) * d)) (Cell.huge d) =
        .ok (some (Cell.huge (a + ((s + 1 : Nat) : Int) * d))) := by
      rw [addAV_huge, succ_mul', toI64_id _ (by omega) (by omega), Int.add_assoc]
    simp only [hugeRun_drop a d n s hsn, deref, bind, Except.bind,
      incsize_scalar _ _ (show (Cell.huge (a + (s : Int) * d)).isScalar = true from rfl), hso, hadd, must,
      pure, Except.pure, Bool.false_eq_true, ↓reduceIte]
    by_cases hge : s + 1 ≥ n
    · simp only [hge, ↓reduceIte]
      congr 2 <;> omega
    · have hlt : s + 1 < n := by omega
      have hw := h.mul (s + 1) (by omega)
      have hwo : rangeWidthOverflows (Cell.huge a) (Cell.huge (a + ((s + 1 : Nat) : Int) * d)) = false := by
        simp only [rangeWidthOverflows, Bool.or_eq_false_iff, decide_eq_false_iff_not]
        omega
      simp only [hge, ↓reduceIte, hugeRun_drop a d n (s + 1) hlt, eqSingle_huge, decide_true, Bool.not_true,
        Bool.false_eq_true]
      rw [hugeRun_cons a d n (by omega)]
      simp only [hwo, Bool.false_eq_true, ↓reduceIte]
      rw [← hugeRun_cons a d n (by omega), ih (s + 1) (c + 1) (by omega) hlt (by omega)]
      congr 2; omega

theorem convertToRange_run_h (opt : POpt) (hc : opt.compress = true) {a d : Int} {n : Nat} (h : HRunHyp a d n) :
    convertToRange opt (hugeRun a d n) n =
      .ok (some (n, [Cell.rep n 1, Cell.huge d, Cell.huge a])) := by
  have hn := h.hn
  have hdb := h.dbound
  have hr0 := h.hrange 0 (by omega)
  have hr1 := h.hrange 1 (by omega)
  simp only [Int.natCast_zero, Int.zero_mul, Int.add_zero, Int.natCast_one, Int.one_mul] at hr0 hr1
  have hnot : ¬ (n < rangeMin) := by unfold rangeMin; omega
  have hnot' : ¬ (n < 5) := by omega
  have hd1 : (hugeRun a d n).drop 1 = Cell.huge (a + d) :: (hugeRun a d n).drop 2 := by
    have := hugeRun_drop a d n 1 (by omega)
    simpa using this
  unfold convertToRange
  rw [hugeRun_cons a d n (by omega)]
  simp only [hnot, ↓reduceIte, deref, bind, Except.bind, hc, Bool.not_true, Bool.false_eq_true, or_false,
    ArgVal.Cell.type, ArgVal.tyRange, show ((104 : UInt8) = 45) = False from by decide]
  rw [← hugeRun_cons a d n (by omega), countCommon_run_h a d n (n + 1) 0 0 (by omega) (by omega)]
  simp only [Nat.zero_add, Nat.sub_zero, hnot, ↓reduceIte]
  rw [hugeRun_cons a d n (by omega)]
  simp only [incsize_scalar _ _ (show (Cell.huge a).isScalar = true from rfl), List.drop_succ_cons, List.drop_zero]
  rw [← hugeRun_cons a d n (by omega), hd1]
  have hne : ¬ (a = a + d) := by have := h.hd; omega
  have hident : rangeArgsIdentical (hugeRun a d n) (Cell.huge (a + d) :: (hugeRun a d n).drop 2) = .ok false := by
    unfold rangeArgsIdentical
    rw [hugeRun_cons a d n (by omega)]
    simp [eqSingle_huge, hne, bind, Except.bind, pure, Except.pure]
  have hsub : subAV (Cell.huge (a + d)) (Cell.huge a) = .ok (some (Cell.huge d)) := by
    rw [subAV_huge, toI64_id _ (by omega) (by omega)]
    congr 3; omega
  have hso : rangeStepOverflows (Cell.huge a) (Cell.huge d) = false := by
    simp only [rangeStepOverflows, Bool.or_eq_false_iff, decide_eq_false_iff_not]
    omega
  simp only [hident, Bool.false_eq_true, ↓reduceIte, show (lit "cihTF").contains (104 : UInt8) = true from by decide,
    hsub, must, bind, Except.bind, pure, Except.pure, hso]
  rw [extendRun_run_h h (n + 1) 1 1 (by omega) (by omega) (by omega)]
  have : 1 + (n - 1) = n := by omega
  simp only [this, rangeMin, ge_iff_le, hn, ↓reduceIte, Option.isSome_some, List.cons_append, List.nil_append]
  rw [hugeRun_cons a d n (by omega)]
  simp

/-! ### stage 2: the printer -/

theorem printArgVal_huge_ri (f : Nat) (opt : POpt) (v : Int) (more : List Cell) (prev : Option Cell) (st : PSt) :
    printArgVal (f + 1) opt (Cell.huge v :: more) prev st =
      .ok (⟨st.out ++ hTok v, st.cols + ((hTok v).length : Nat)⟩, (hTok v).length) := by
  simp [hTok, printArgVal, deref, bind, Except.bind, pure, Except.pure]

theorem rangeArg_huge (hdr : Cell) (d a k : Int) (more : List Cell) :
    rangeArg (hdr :: Cell.huge d :: Cell.huge a :: more) k =
      .ok (some (Cell.huge (toI64 (a + toI64 (k * d))))) := by
  simp [rangeArg, fromInt, multAV_huge, addAV_huge, bind, Except.bind]

/-- the text in front of the ellipsis -/
def runHead_h (a d : Int) : Bytes := if d = 1 ∨ d = -1 then hTok a else hTok a ++ 32 :: hTok (a + d)

/-- the text of the whole range; `sep` is a blank or a line break -/
def runText_h (a d : Int) (n : Nat) (sep : Bytes) : Bytes :=
  runHead_h a d ++ ([32, 46, 46, 46] ++ (sep ++ hTok (a + ((n - 1 : Nat) : Int) * d)))

theorem printRangeElems_last_h (opt : POpt) {a d : Int} {n : Nat} (h : HRunHyp a d n) (f : Nat) (pre : Bytes)
    (cols : Int) (wrt : Nat) :
    ∃ (sep : Bytes) (cols' : Int), IsSepTxt sep ∧
      printRangeElems (printArgVal (f + 1) opt) opt [Cell.rep n 1, Cell.huge d, Cell.huge a] 1
        ((n - 1 : Nat) : Int) ⟨pre ++ lit " ... ", cols⟩ wrt (((pre ++ lit " ... ").length : Int) - 1) 1 1 =
      .ok (⟨pre ++ [32, 46, 46, 46] ++ sep ++ hTok (a + ((n - 1 : Nat) : Int) * d) ++ [32], cols'⟩,
           wrt + (hTok (a + ((n - 1 : Nat) : Int) * d)).length + (sep.length - 1) + 1) := by
  have hn := h.hn
  have hrz := h.hrange (n - 1) (by omega)
  have hmz := h.mul (n - 1) (by omega)
  have hz : rangeArg [Cell.rep n 1, Cell.huge d, Cell.huge a] ((n - 1 : Nat) : Int) =
      .ok (some (Cell.huge (a + ((n - 1 : Nat) : Int) * d))) := by
    rw [rangeArg_huge, toI64_id (((n - 1 : Nat) : Int) * d) (by omega) (by omega), toI64_id _ hrz.1 hrz.2]
  generalize hZ : hTok (a + ((n - 1 : Nat) : Int) * d) = Z at *
  have hout : pre ++ lit " ... " = (pre ++ [32, 46, 46, 46]) ++ [32] := by simp [lit_ell]
  obtain ⟨pre1, cols1, awl1, hlb, _, hpre1⟩ := linebreakCheck_tok (pre ++ lit " ... ") Z
    (cols + (Z.length : Nat)) (wrt + Z.length) (((pre ++ lit " ... ").length : Int) - 1) 1 opt.linelength
    (Or.inr ⟨pre ++ [32, 46, 46, 46], hout, by rw [hout]; simp; omega⟩)
  unfold printRangeElems
  simp only [show ((1 : Int) ≠ 0) from by decide, ne_eq, not_false_eq_true, ↓reduceIte, hz, must, bind, Except.bind, pure, Except.pure,
    printArgVal_huge_ri, hZ, hlb]
  unfold printRangeElems
  rcases hpre1 with hp | ⟨base, hb1, hb2⟩
  · refine ⟨[32], cols1 + 1, Or.inl rfl, ?_⟩
    subst hp
    simp [lit_ell]
  · have hbase : base = pre ++ [32, 46, 46, 46] := by
      rw [hout] at hb1
      exact (List.append_inj_left' hb1 rfl).symm
    refine ⟨nl4, cols1 + 1, Or.inr rfl, ?_⟩
    subst hb2; subst hbase
    simp [lit_ell, nl4]

theorem printRange_run_h (opt : POpt) (hc : opt.compress = true) {a d : Int} {n : Nat} (h : HRunHyp a d n)
    (f : Nat) (st : PSt) (hcols : 0 ≤ st.cols) :
    ∃ (sep : Bytes) (cols' : Int), IsSepTxt sep ∧
      printRange (printArgVal (f + 1) opt) opt [Cell.rep n 1, Cell.huge d, Cell.huge a] none st =
        .ok (⟨st.out ++ runText_h a d n sep, cols'⟩, (runText_h a d n sep).length) := by
  have hn := h.hn
  have hdb := h.dbound
  have hr0 := h.hrange 0 (by omega)
  have hr1 := h.hrange 1 (by omega)
  have hrz := h.hrange (n - 1) (by omega)
  have hmz := h.mul (n - 1) (by omega)
  simp only [Int.natCast_zero, Int.zero_mul, Int.add_zero, Int.natCast_one, Int.one_mul] at hr0 hr1
  have hn0 : ¬ ((n : Int) = 0) := by omega
  have hstart : (n : Int) - 1 = ((n - 1 : Nat) : Int) := by omega
  have hb : rangeArg [Cell.rep n 1, Cell.huge d, Cell.huge a] 1 = .ok (some (Cell.huge (a + d))) := by
    rw [rangeArg_huge, Int.one_mul, toI64_id d (by omega) (by omega), toI64_id _ hr1.1 hr1.2]
  unfold printRange
  simp only [deref, bind, Except.bind, hc, ↓reduceIte, show ((1 : Int) ≠ 0) from by decide, ne_eq,
    List.drop_succ_cons, List.drop_zero, printArgVal_huge_ri, fromInt, must, pure, Except.pure, eqSingle_huge,
    hn0, not_false_eq_true, or_false, hstart]
  have hone : ((n : Int) - ((n - 1 : Nat) : Int)).toNat = 1 := by omega
  have hlt : ((n - 1 : Nat) : Int) < (n : Int) := by omega
  simp only [hone, hlt, ↓reduceIte, hb, printArgVal_huge_ri]
  by_cases hu : d = 1 ∨ d = -1
  · have hun : (if decide (d = 1) = true then Except.ok true else Except.ok (decide (d = -1)) : Res Bool) = .ok true := by
      rcases hu with rfl | rfl <;> simp
    simp only [hun, Bool.not_false, Bool.and_self, decide_false, Bool.or_false, ↓reduceIte]
    rw [initArgsWritten_ell _ _ (by omega)]
    obtain ⟨sep, cols', hsep, hpe⟩ := printRangeElems_last_h opt h f (st.out ++ hTok a)
      (st.cols + ((hTok a).length : Nat) + 5) ((hTok a).length + 5)
    simp only [hpe]
    refine ⟨sep, cols', hsep, ?_⟩
    have hsl : 1 ≤ sep.length := by rcases hsep with rfl | rfl <;> simp
    rw [List.dropLast_concat]
    simp only [runText_h, runHead_h, hu, ↓reduceIte, List.append_assoc, List.length_append, List.length_cons,
      List.length_nil]
    congr 2
    omega
  · have hun : (if decide (d = 1) = true then Except.ok true else Except.ok (decide (d = -1)) : Res Bool) = .ok false := by
      have h1 : ¬ d = 1 := fun e => hu (Or.inl e)
      have h2 : ¬ d = -1 := fun e => hu (Or.inr e)
      simp [h1, h2]
    simp only [hun, Bool.not_false, decide_false, Bool.or_false, ↓reduceIte, Bool.false_eq_true, Bool.and_true]
    rw [initArgsWritten_ell _ _ (by omega)]
    obtain ⟨sep, cols', hsep, hpe⟩ := printRangeElems_last_h opt h f (st.out ++ hTok a ++ [32] ++ hTok (a + d))
      (st.cols + ((hTok a).length : Nat) + 1 + ((hTok (a + d)).length : Nat) + 5)
      ((hTok a).length + 1 + (hTok (a + d)).length + 5)
    simp only [hpe]
    refine ⟨sep, cols', hsep, ?_⟩
    have hsl : 1 ≤ sep.length := by rcases hsep with rfl | rfl <;> simp
    rw [List.dropLast_concat]
    simp only [runText_h, runHead_h, hu, ↓reduceIte, List.append_assoc, List.length_append, List.length_cons,
      List.cons_append, List.nil_append]
    congr 2
    omega

theorem printArgVals_run_h (opt : POpt) (hc : opt.compress = true) {a d : Int} {n : Nat} (h : HRunHyp a d n) :
    ∃ (sep : Bytes) (cols' : Int), IsSepTxt sep ∧
      printArgVals opt (hugeRun a d n) ⟨[], 0⟩ = .ok (⟨runText_h a d n sep, cols'⟩, (runText_h a d n sep).length) := by
  have hn := h.hn
  obtain ⟨sep, cols', hsep, hpr⟩ := printRange_run_h opt hc h (n + 1) ⟨[], 0⟩ (Int.le_refl _)
  refine ⟨sep, cols', hsep, ?_⟩
  have hderef : deref (hugeRun a d n) = .ok (Cell.huge a) := by
    rw [hugeRun_cons a d n (by omega)]; rfl
  have hlt : 0 < n := by omega
  unfold printArgVals
  simp only [hugeRun_length]
  rw [printArgValsLoop]
  simp only [hlt, ↓reduceIte, List.drop_zero, Nat.sub_zero, convertToRange_run_h opt hc h, hderef, bind, Except.bind,
    hugeRun_length, printArgVal_rep, hpr, List.nil_append]
  have hbi : breaksItself (Cell.huge a) = false := by
    simp only [breaksItself, ArgVal.Cell.type]; decide
  have hlb : ∀ (st : PSt) (w : Nat) (ls : Int) (inc : Nat), linebreakCheck st w ls inc 0 opt.linelength = .ok (st, w, 1) := by
    intro st w ls inc
    simp [linebreakCheck]
  simp only [hbi, Bool.not_false, ↓reduceIte, ne_eq, not_true_eq_false, hlb, pure, Except.pure, Nat.zero_add,
    Nat.lt_irrefl]
  exact printArgValsLoop_done_ri n hlt opt _ n n (Nat.lt_irrefl _) _ _ _ _

/-! ### int64 tokens in front of an ellipsis (`SepW` instead of `Sep`) -/

theorem scanfFmtstr_hugeW (t rest : Bytes) (v : Int) (hn : DecNum t v) (hs : SepW rest) :
    scanfFmtstr (t ++ 104 :: rest) = some .h := by
  have hlen : numWordLen ((t ++ [104]) ++ rest) = (t ++ [104]).length :=
    numWordLen_wordW (t ++ [104]) rest (by
      intro c hc
      simp only [List.mem_append, List.mem_singleton] at hc
      rcases hc with hc | rfl
      · exact (numStart_facts c (hn.chars c hc)).2.2.2.2.2.2.2.2.2.2.2.1
      · exact wordChar_h) hs
  simp only [List.append_assoc, List.singleton_append, List.length_append, List.length_singleton] at hlen
  unfold scanfFmtstr
  simp only [hlen, List.find?, scanRd, sscanf_h_try t rest v (hn.scan_i _ (numEnd_h rest))]
  simp

theorem scanNumeric_hugeW (t rest : Bytes) (v : Int) (hn : DecNum t v) (hs : SepW rest)
    (h1 : -9223372036854775808 ≤ v) (h2 : v ≤ 9223372036854775807) :
    scanNumeric (t ++ 104 :: rest) = .ok ⟨rest, [Cell.huge v], true⟩ := by
  have hfmt := scanfFmtstr_hugeW t rest v hn hs
  have hsc := sscanf_h_scan false t rest v (hn.scan_i _ (numEnd_h rest))
  have hpass : scanNumberPass (t ++ 104 :: rest) 0 none =
      .ok (t.length + 1, 104, (v % 18446744073709551616).toNat) := by
    simp [scanNumberPass, hfmt, NumFmt.type, hsc, toI64_id v h1 h2, bind, Except.bind, pure, Except.pure]
  have h40 := hs.2
  have hcell : cellOfRaw 104 (v % 18446744073709551616).toNat = .ok (Cell.huge v) := by
    have hv : toI64 ((v % 18446744073709551616).toNat : Int) = v := by
      unfold toI64; omega
    unfold cellOfRaw
    simp only [↓reduceIte, hv]
  simp [scanNumeric, hpass, h40, hcell, bind, Except.bind, pure, Except.pure]

theorem skipNumericArg_hugeW (t rest : Bytes) (v : Int) (ty : UInt8) (hn : DecNum t v) (hs : SepW rest) :
    skipNumericArg (t ++ 104 :: rest) ty = ⟨some rest, 1, 104, 0⟩ := by
  have hfmt := scanfFmtstr_hugeW t rest v hn hs
  have hskip : skipFmt (NumFmt.h.dirs true) (t ++ 104 :: rest) = t.length + 1 := by
    unfold skipFmt scanRd
    rw [sscanf_h_scan true t rest v (hn.scan_i _ (numEnd_h rest))]
    rfl
  have h40 := hs.2
  simp [skipNumericArg, skipNumeric, hfmt, hskip, NumFmt.type, h40]

/-- the scanner's `switch` on an int64 token -/
theorem scanValue_hugeW (se : ElemScanner) (v : Int) (h1 : -9223372036854775808 ≤ v) (h2 : v ≤ 9223372036854775807)
    (rest : Bytes) (hs : SepW rest) (prev : List Cell) :
    scanValue se (hTok v ++ rest) prev = .ok ⟨rest, [Cell.huge v], true⟩ := by
  have hn := decNum_fmtDec v h1 h2
  have hstart : hd (fmtDec v) = 45 ∨ isdigit (hd (fmtDec v)) = true := hn.chars _ (hd_mem _ hn.ne)
  rw [hTok_append]
  rw [scanValue_num _ _ _ (by rw [hd_append_of_ne_nil _ _ hn.ne]; exact hstart) (hn.nomult _ (numEnd_h rest))
    (hn.nodate _ (numEnd_h rest))]
  exact scanNumeric_hugeW _ rest v hn hs h1 h2

/-- the checker's `switch` on an int64 token -/
theorem skipValue_hugeW (sk : ArgSkipper) (v : Int) (rest : Bytes) (hs : SepW rest) (ty : UInt8) (ib : Bool)
    (h1 : -9223372036854775808 ≤ v) (h2 : v ≤ 9223372036854775807) :
    skipValue sk (hTok v ++ rest) ty ib = .ok (some ⟨some rest, 1, 104, 0⟩) := by
  have hn := decNum_fmtDec v h1 h2
  have hstart : hd (fmtDec v) = 45 ∨ isdigit (hd (fmtDec v)) = true := hn.chars _ (hd_mem _ hn.ne)
  rw [hTok_append]
  rw [skipValue_num _ _ _ _ (by rw [hd_append_of_ne_nil _ _ hn.ne]; exact hstart) (hn.nomult _ (numEnd_h rest))
    (hn.nodate _ (numEnd_h rest))]
  rw [skipNumericArg_hugeW _ rest v ty hn hs]

/-- without `follow_ellipsis` the scanner reads just the token -/
theorem scanArgVal_huge_noell (f : Nat) (v : Int) (h1 : -9223372036854775808 ≤ v) (h2 : v ≤ 9223372036854775807)
    (rest : Bytes) (hs : SepW rest) (prev : List Cell) (ab : Nat) :
    scanArgVal (f + 1) (hTok v ++ rest) prev ab false = .ok ((hTok v).length, [Cell.huge v]) := by
  unfold scanArgVal
  simp only [scanValue_hugeW _ v h1 h2 rest hs, bind, Except.bind]
  unfold finishArg
  simp [pure, Except.pure]

/-- without `follow_ellipsis` the checker skips just the token -/
theorem skipNext_huge_noell (f : Nat) (v : Int) (h1 : -9223372036854775808 ≤ v) (h2 : v ≤ 9223372036854775807)
    (rest : Bytes) (hs : SepW rest) (ty : UInt8) (llhs : Option Bytes) (ib : Bool) :
    skipNextPrintedArg (f + 1) (hTok v ++ rest) ty llhs false ib = .ok ⟨some rest, 1, 104⟩ := by
  unfold skipNextPrintedArg
  simp [skipValue_hugeW _ v rest hs ty ib h1 h2, bind, Except.bind, pure, Except.pure]

theorem scanOne_huge (v : Int) (h1 : -9223372036854775808 ≤ v) (h2 : v ≤ 9223372036854775807) (rest : Bytes)
    (hs : SepW rest) : scanOne (hTok v ++ rest) = .ok (Cell.huge v) := by
  unfold scanOne
  simp [scanArgVal_huge_noell _ v h1 h2 rest hs, bind, Except.bind]

/-! ### `delta_from_arg_vals` on the run -/

theorem cmpCell_huge (x y : Int) : cmpCell (Cell.huge x) (Cell.huge y) = .ok (ArgVal.cmp3 x y) := by
  simp [cmpCell, ArgVal.Cell.isScalar, ArgVal.cmpScalar, ArgVal.Cell.type]

theorem eqCell_huge (x y : Int) : eqCell (Cell.huge x) (Cell.huge y) = .ok (decide (x = y)) := by
  simp [eqCell, ArgVal.eqScalar, ArgVal.Cell.type, liftAV, pure, Except.pure]

theorem divAV_huge (x y : Int) (hy : y ≠ 0) (hx : x ≠ -9223372036854775808) :
    divAV (Cell.huge x) (Cell.huge y) = .ok (some (Cell.huge (Int.tdiv x y))) := by
  simp [divAV, ArgVal.Cell.type, cdiv, hy, hx, bind, Except.bind, pure, Except.pure]

/-! the arithmetic of `delta_from_arg_vals` (`Pretty/C11Float.lean`) on int64 cells is the integer one -/
theorem fromIntF_huge (x k : Int) : C11.fromIntF (Cell.huge x) k = fromInt (Cell.huge x) k := rfl
theorem negateF_huge (x : Int) : C11.negateF (Cell.huge x) = negate (Cell.huge x) := rfl
theorem roundF_huge (x : Int) : C11.roundF (Cell.huge x) = roundAV (Cell.huge x) := rfl
theorem subF_huge (x y : Int) : C11.subF (Cell.huge x) (Cell.huge y) = subAV (Cell.huge x) (Cell.huge y) := rfl
theorem multF_huge (x y : Int) : C11.multF (Cell.huge x) (Cell.huge y) = multAV (Cell.huge x) (Cell.huge y) := rfl
theorem divF_huge (x y : Int) : C11.divF (Cell.huge x) (Cell.huge y) = divAV (Cell.huge x) (Cell.huge y) := rfl
theorem toIntF_huge (x : Int) : C11.toIntF (Cell.huge x) = toIntAV (Cell.huge x) := rfl
theorem eqTolCell_huge (x y : Int) : C11.eqTolCell (Cell.huge x) (Cell.huge y) = eqCell (Cell.huge x) (Cell.huge y) := rfl

/-- `delta_from_arg_vals` with `must_be_unity`: the delta is ±1.  The width is an `int64_t`, the
    count `q + 1` goes through `rtosc_arg_val_to_int` and must be an `int32_t`. -/
theorem delta_unity_h (x z q dl : Int) (hdl : (dl = 1 ∧ x < z) ∨ (dl = -1 ∧ z < x)) (hq : z - x = q * dl)
    (hw1 : -9223372036854775807 ≤ z - x) (hw2 : z - x ≤ 9223372036854775807)
    (hq0 : -2147483648 ≤ q) (hq2 : q + 1 ≤ 2147483647) :
    deltaFromArgVals none (Cell.huge x) (some (Cell.huge z)) true = .ok (q + 1, Cell.huge dl) := by
  have hdl0 : dl ≠ 0 := by omega
  have htd : Int.tdiv (z - x) dl = q := by rw [hq]; exact Int.mul_tdiv_cancel _ hdl0
  have hsub : subAV (Cell.huge z) (Cell.huge x) = .ok (some (Cell.huge (z - x))) := by
    rw [subAV_huge, toI64_id _ (by omega) (by omega)]
  have hmul : multAV (Cell.huge q) (Cell.huge dl) = .ok (some (Cell.huge (z - x))) := by
    rw [multAV_huge, ← hq, toI64_id _ (by omega) (by omega)]
  have hcmp0 : ¬ (ArgVal.cmp3 x z = 0) := cmp3_ne x z (by omega)
  have hq32 : toI32 q = q := toI32_id _ hq0 (by omega)
  have hq32' : toI32 (q + 1) = q + 1 := toI32_id _ (by omega) hq2
  unfold deltaFromArgVals
  simp only [↓reduceIte, cmpCell_huge, fromIntF_huge, fromInt, must, bind, Except.bind, pure, Except.pure]
  rcases hdl with ⟨rfl, hlt⟩ | ⟨rfl, hlt⟩
  · simp only [cmp3_lt x z hlt, show ¬ ((-1 : Int) > 0) from by decide, show ¬ ((-1 : Int) = 0) from by decide,
      ↓reduceIte, subF_huge, hsub, divF_huge, divAV_huge (z - x) 1 hdl0 (by omega), htd, roundF_huge, roundAV,
      multF_huge, hmul, toIntF_huge, toIntAV,
      eqTolCell_huge, eqCell_huge, decide_true, Bool.not_true, Bool.false_eq_true, hq32, hq32']
  · simp only [cmp3_gt x z hlt, show ((1 : Int) > 0) from by decide, show ¬ ((1 : Int) = 0) from by decide,
      negateF_huge, negate,
      show ¬ ((1 : Int) = -9223372036854775808) from by decide,
      ↓reduceIte, subF_huge, hsub, divF_huge, divAV_huge (z - x) (-1) hdl0 (by omega), htd, roundF_huge, roundAV,
      multF_huge, hmul, toIntF_huge, toIntAV,
      eqTolCell_huge, eqCell_huge, decide_true, Bool.not_true, Bool.false_eq_true, hq32, hq32']

/-- `delta_from_arg_vals` with a usable left-hand neighbour: the delta is `lhs - llhs` -/
theorem delta_step_h (p x z q dl : Int) (hdl0 : dl ≠ 0) (hp : x - p = dl)
    (hd1 : -9223372036854775808 ≤ dl) (hd2 : dl ≤ 9223372036854775807)
    (hq : z - x = q * dl)
    (hw1 : -9223372036854775807 ≤ z - x) (hw2 : z - x ≤ 9223372036854775807)
    (hq0 : -2147483648 ≤ q) (hq2 : q + 1 ≤ 2147483647) :
    deltaFromArgVals (some (Cell.huge p)) (Cell.huge x) (some (Cell.huge z)) false = .ok (q + 1, Cell.huge dl) := by
  have htd : Int.tdiv (z - x) dl = q := by rw [hq]; exact Int.mul_tdiv_cancel _ hdl0
  have hsub : subAV (Cell.huge z) (Cell.huge x) = .ok (some (Cell.huge (z - x))) := by
    rw [subAV_huge, toI64_id _ (by omega) (by omega)]
  have hsub0 : subAV (Cell.huge x) (Cell.huge p) = .ok (some (Cell.huge dl)) := by
    rw [subAV_huge, hp, toI64_id _ hd1 hd2]
  have hmul : multAV (Cell.huge q) (Cell.huge dl) = .ok (some (Cell.huge (z - x))) := by
    rw [multAV_huge, ← hq, toI64_id _ (by omega) (by omega)]
  have hcmp0 : ¬ (ArgVal.cmp3 dl 0 = 0) := cmp3_ne dl 0 hdl0
  have hq32 : toI32 q = q := toI32_id _ hq0 (by omega)
  have hq32' : toI32 (q + 1) = q + 1 := toI32_id _ (by omega) hq2
  unfold deltaFromArgVals
  simp only [Bool.false_eq_true, ↓reduceIte, subF_huge, hsub0, nullVal, cmpCell_huge, must, bind, Except.bind, pure, Except.pure]
  simp only [hcmp0, ↓reduceIte, hsub, divF_huge, divAV_huge (z - x) dl hdl0 (by omega), htd, roundF_huge, roundAV,
    multF_huge, hmul, toIntF_huge, toIntAV,
    eqTolCell_huge, eqCell_huge, decide_true, Bool.not_true, Bool.false_eq_true, hq32, hq32']

theorem delta_run_unit_h {a d : Int} {n : Nat} (h : HRunHyp a d n) (hu : d = 1 ∨ d = -1) :
    deltaFromArgVals none (Cell.huge a) (some (Cell.huge (a + ((n - 1 : Nat) : Int) * d))) true =
      .ok ((n : Int), Cell.huge d) := by
  have hn := h.hn
  have hn32 := h.hn32
  have hq : (((n - 1 : Nat) : Int)) + 1 = (n : Int) := by omega
  rw [← hq]
  apply delta_unity_h a _ ((n - 1 : Nat) : Int) d
  · rcases hu with rfl | rfl
    · left; exact ⟨rfl, by omega⟩
    · right; exact ⟨rfl, by omega⟩
  · omega
  · rcases hu with rfl | rfl <;> omega
  · rcases hu with rfl | rfl <;> omega
  · omega
  · omega

theorem delta_run_step_h {a d : Int} {n : Nat} (h : HRunHyp a d n) :
    deltaFromArgVals (some (Cell.huge a)) (Cell.huge (a + d)) (some (Cell.huge (a + ((n - 1 : Nat) : Int) * d)))
      false = .ok ((n : Int) - 1, Cell.huge d) := by
  have hn := h.hn
  have hn32 := h.hn32
  have hdb := h.dbound
  have hm := h.mul (n - 2) (by omega)
  have hs : ((n - 1 : Nat) : Int) * d = ((n - 2 : Nat) : Int) * d + d := by
    rw [show n - 1 = (n - 2) + 1 from by omega]; exact succ_mul' _ _
  have hq : (((n - 2 : Nat) : Int)) + 1 = (n : Int) - 1 := by omega
  rw [← hq]
  apply delta_step_h a (a + d) _ ((n - 2 : Nat) : Int) d h.hd <;> omega

/-! ### stage 3: the scanner -/

theorem tokStart_hTok (v : Int) (h1 : -9223372036854775808 ≤ v) (h2 : v ≤ 9223372036854775807) : TokStart (hTok v) :=
  (tokOK_huge v h1 h2).start

theorem scanArgVal_ell_h (f : Nat) (x z : Int) (hx1 : -9223372036854775808 ≤ x) (hx2 : x ≤ 9223372036854775807)
    (hz1 : -9223372036854775808 ≤ z) (hz2 : z ≤ 9223372036854775807) (sep : Bytes) (hsep : IsSepTxt sep)
    (prev : List Cell) (ab : Nat)
    (hp : (ab = 0 ∧ prev = []) ∨ (ab = 1 ∧ ∃ p, prev = [Cell.huge p] ∧ p ≠ x)) (num : Int) (dl : Cell)
    (hdelta : deltaFromArgVals prev.head? (Cell.huge x) (some (Cell.huge z)) (decide (ab = 0)) = .ok (num, dl)) :
    scanArgVal (f + 2) (hTok x ++ ellRest sep (hTok z)) prev ab true =
      .ok ((hTok x ++ ellRest sep (hTok z)).length, [Cell.rep num 1, dl, Cell.huge x]) := by
  obtain ⟨hW, hsk1, hsk2⟩ := ellRest_facts sep (hTok z) hsep (tokStart_hTok z hz1 hz2)
  have hrhs := scanArgVal_huge_noell f z hz1 hz2 [] sepW_nil [] 0
  simp only [List.append_nil] at hrhs
  have h93 : hd (hTok z) ≠ 93 := (tokStart_hTok z hz1 hz2).2.2.2.2.2.2.2
  unfold scanArgVal
  simp only [scanValue_hugeW _ x hx1 hx2 _ hW, bind, Except.bind]
  unfold finishArg
  rcases hp with ⟨rfl, rfl⟩ | ⟨rfl, p, rfl, hpx⟩
  · simp only [List.head?_nil, decide_true] at hdelta
    simp only [hsk1, startsWith, List.cons_append, List.nil_append, List.isPrefixOf, BEq.rfl, Bool.and_self, and_self,
      ↓reduceIte, Bool.not_true, Bool.false_eq_true, deref, bind, Except.bind, List.drop_succ_cons, List.drop_zero,
      hsk2, h93, decide_false, pure, Except.pure, hrhs, advance, Nat.le_refl, List.drop_length, List.drop_nil,
      List.head?_nil, Nat.zero_lt_one, gt_iff_lt, Nat.not_lt_zero, false_and, hdelta,
      ArgVal.Cell.type, show numericRangeTypes.contains (104 : UInt8) = true from by decide]
    simp
  · simp only [List.head?_cons, show decide ((1 : Nat) = 0) = false from by decide] at hdelta
    have hcmp : cmpCell (Cell.huge p) (Cell.huge x) = .ok (ArgVal.cmp3 p x) := cmpCell_huge p x
    have hc0 := cmp3_ne p x hpx
    simp only [hsk1, startsWith, List.cons_append, List.nil_append, List.isPrefixOf, BEq.rfl, Bool.and_self, and_self,
      ↓reduceIte, Bool.not_true, Bool.false_eq_true, deref, bind, Except.bind, List.drop_succ_cons, List.drop_zero,
      hsk2, h93, decide_false, pure, Except.pure, hrhs, advance, Nat.le_refl, List.drop_length, List.drop_nil,
      List.head?_nil, List.head?_cons, Nat.lt_irrefl, gt_iff_lt, false_and, Bool.and_false,
      ArgVal.Cell.type, ArgVal.tyRange, show ((104 : UInt8) = 45) = False from by decide,
      show typesMatch 104 104 = true from by decide, hcmp, hc0, hdelta,
      show numericRangeTypes.contains (104 : UInt8) = true from by decide]
    simp

theorem runText_unit_h (a d : Int) (n : Nat) (sep : Bytes) (hu : d = 1 ∨ d = -1) :
    runText_h a d n sep = hTok a ++ ellRest sep (hTok (a + ((n - 1 : Nat) : Int) * d)) := by
  simp [runText_h, runHead_h, hu, ellRest]

theorem runText_step_h (a d : Int) (n : Nat) (sep : Bytes) (hu : ¬ (d = 1 ∨ d = -1)) :
    runText_h a d n sep =
      hTok a ++ ([32] ++ (hTok (a + d) ++ ellRest sep (hTok (a + ((n - 1 : Nat) : Int) * d)))) := by
  simp [runText_h, runHead_h, hu, ellRest]

theorem scan_run_unit_h {a d : Int} {n : Nat} (h : HRunHyp a d n) (hu : d = 1 ∨ d = -1) (sep : Bytes)
    (hsep : IsSepTxt sep) :
    scanArgVals (runText_h a d n sep) 3 =
      .ok ((runText_h a d n sep).length, [Cell.rep n 1, Cell.huge d, Cell.huge a]) := by
  have hn := h.hn
  have hr0 := h.hrange 0 (by omega)
  have hrz := h.hrange (n - 1) (by omega)
  simp only [Int.natCast_zero, Int.zero_mul, Int.add_zero] at hr0
  rw [runText_unit_h a d n sep hu]
  generalize hT : hTok a ++ ellRest sep (hTok (a + ((n - 1 : Nat) : Int) * d)) = T
  have hscan := scanArgVal_ell_h T.length a _ hr0.1 hr0.2 hrz.1 hrz.2 sep hsep [] 0 (Or.inl ⟨rfl, rfl⟩) n (Cell.huge d)
    (by simpa using delta_run_unit_h h hu)
  rw [hT] at hscan
  have hstartT : TokStart T := by rw [← hT]; exact tokStart_append_ri _ _ (tokStart_hTok _ hr0.1 hr0.2)
  unfold scanArgVals
  simp only [skipSpaceComments_tokStart _ _ hstartT, bind, Except.bind, List.drop_zero]
  rw [scanArgValsLoop]
  simp only [show (0 : Nat) < 3 from by decide, ↓reduceIte, List.reverse_nil, hscan, bind, Except.bind, advance,
    Nat.le_refl, List.drop_length, List.length_cons, List.length_nil, Nat.zero_add, Nat.reduceAdd,
    nextArgOffset_range _ _ _ (show (Cell.huge d).isScalar = true from rfl), ne_eq, not_true_eq_false,
    skipSpaceComments_nil, List.drop_nil, List.nil_append, canPrecedeRange_delta]
  rw [scanArgValsLoop]
  simp [pure, Except.pure]

theorem scan_run_step_h {a d : Int} {n : Nat} (h : HRunHyp a d n) (hu : ¬ (d = 1 ∨ d = -1)) (sep : Bytes)
    (hsep : IsSepTxt sep) :
    scanArgVals (runText_h a d n sep) 4 =
      .ok ((runText_h a d n sep).length,
        [Cell.huge a, Cell.rep ((n : Int) - 1) 1, Cell.huge d, Cell.huge (a + d)]) := by
  have hn := h.hn
  have hr0 := h.hrange 0 (by omega)
  have hr1 := h.hrange 1 (by omega)
  have hrz := h.hrange (n - 1) (by omega)
  simp only [Int.natCast_zero, Int.zero_mul, Int.add_zero, Int.natCast_one, Int.one_mul] at hr0 hr1
  rw [runText_step_h a d n sep hu]
  generalize hT2 : hTok (a + d) ++ ellRest sep (hTok (a + ((n - 1 : Nat) : Int) * d)) = T2
  have hstart2 : TokStart T2 := by rw [← hT2]; exact tokStart_append_ri _ _ (tokStart_hTok _ hr1.1 hr1.2)
  have hS : Sep ([32] ++ T2) := sep_of_next [32] T2 (Or.inl rfl) hstart2
  have hscan1 := (tokOK_huge a hr0.1 hr0.2).scan ([32] ++ T2) ((hTok a ++ ([32] ++ T2)).length + 1) [] 0 hS
  have hne : a ≠ a + d := by have := h.hd; omega
  have hscan2 := scanArgVal_ell_h T2.length (a + d) _ hr1.1 hr1.2 hrz.1 hrz.2 sep hsep [Cell.huge a] 1
    (Or.inr ⟨rfl, a, rfl, hne⟩) ((n : Int) - 1) (Cell.huge d) (by simpa using delta_run_step_h h)
  rw [hT2] at hscan2
  have hadv : advance (hTok a ++ ([32] ++ T2)) (hTok a).length = .ok ([32] ++ T2) := by simp [advance]
  have hstartT : TokStart (hTok a ++ ([32] ++ T2)) := tokStart_append_ri _ _ (tokStart_hTok _ hr0.1 hr0.2)
  change scanArgVal _ (hTok a ++ _) _ _ _ = .ok ((hTok a).length, _) at hscan1
  unfold scanArgVals
  simp only [skipSpaceComments_tokStart _ _ hstartT, bind, Except.bind, List.drop_zero]
  rw [scanArgValsLoop]
  simp only [show (0 : Nat) < 4 from by decide, ↓reduceIte, List.reverse_nil, hscan1, bind, Except.bind, hadv,
    nextArgOffset_scalar _ (Cell.huge a) [] rfl, List.length_singleton, ne_eq, not_true_eq_false,
    skipSpaceComments_sep _ [32] T2 (Or.inl rfl) hstart2, List.nil_append, Nat.zero_add,
    canPrecedeRange_scalar (Cell.huge a) [] rfl]
  simp only [List.singleton_append, List.drop_succ_cons, List.drop_zero]
  rw [show scanArgValsLoop 4 = scanArgValsLoop (3 + 1) from rfl, scanArgValsLoop]
  simp only [show (1 : Nat) < 4 from by decide, ↓reduceIte, List.reverse_cons, List.reverse_nil, List.nil_append, hscan2,
    bind, Except.bind, advance, Nat.le_refl, List.drop_length, List.length_cons, List.length_nil, Nat.zero_add,
    Nat.reduceAdd, nextArgOffset_range _ _ _ (show (Cell.huge d).isScalar = true from rfl), ne_eq, not_true_eq_false,
    skipSpaceComments_nil, List.drop_nil, canPrecedeRange_delta]
  rw [scanArgValsLoop]
  simp [pure, Except.pure]
  omega

/-! ### stage 4: the checker -/

theorem nomult_huge (v : Int) (h1 : -9223372036854775808 ≤ v) (h2 : v ≤ 9223372036854775807) (rest : Bytes) :
    isRangeMultiplier (hTok v ++ rest) = false := by
  rw [hTok_append]
  exact (decNum_fmtDec v h1 h2).nomult _ (numEnd_h rest)

theorem skipNext_ell_h (f : Nat) (x z : Int) (hx1 : -9223372036854775808 ≤ x) (hx2 : x ≤ 9223372036854775807)
    (hz1 : -9223372036854775808 ≤ z) (hz2 : z ≤ 9223372036854775807) (sep : Bytes) (hsep : IsSepTxt sep)
    (ty : UInt8) (ib : Bool)
    (llhs : Option Bytes) (useless : Bool) (ll : Option Cell)
    (hll : (llhs = none ∧ useless = true ∧ ll = none) ∨
      (∃ p : Int, -9223372036854775808 ≤ p ∧ p ≤ 9223372036854775807 ∧ p ≠ x ∧
        llhs = some (hTok p ++ ([32] ++ (hTok x ++ ellRest sep (hTok z)))) ∧ useless = false ∧
        ll = some (Cell.huge p)))
    (num : Int) (dl : Cell)
    (hdelta : deltaFromArgVals ll (Cell.huge x) (some (Cell.huge z)) useless = .ok (num, dl)) (hnum : num ≠ -1) :
    skipNextPrintedArg (f + 2) (hTok x ++ ellRest sep (hTok z)) ty llhs true ib = .ok ⟨some [], 3, 45⟩ := by
  have hZs := tokStart_hTok z hz1 hz2
  obtain ⟨hW, hsk1, hsk2⟩ := ellRest_facts sep (hTok z) hsep hZs
  have h93 : hd (hTok z) ≠ 93 := hZs.2.2.2.2.2.2.2
  have hrsk := skipNext_huge_noell f z hz1 hz2 [] sepW_nil 120 none ib
  have hrsc := scanOne_huge z hz1 hz2 [] sepW_nil
  simp only [List.append_nil] at hrsk hrsc
  have hlsc := scanOne_huge x hx1 hx2 _ hW
  have hnm := nomult_huge x hx1 hx2 (ellRest sep (hTok z))
  unfold skipNextPrintedArg
  simp only [skipValue_hugeW _ x _ hW ty ib hx1 hx2, bind, Except.bind, hsk1, startsWith, List.cons_append,
    List.nil_append, List.isPrefixOf, BEq.rfl, Bool.and_self, and_self, ↓reduceIte]
  unfold ellipsisTail
  rcases hll with ⟨rfl, rfl, rfl⟩ | ⟨p, hp1, hp2, hpx, rfl, rfl, rfl⟩
  · simp only [List.drop_succ_cons, List.drop_zero, hsk2, hnm, Bool.false_eq_true, ↓reduceIte, ne_eq,
      not_true_eq_false, show numericRangeTypes.contains (104 : UInt8) = true from by decide, or_true, h93,
      Bool.not_true, hrsk, hrsc, hlsc, hdelta, hnum, bind, Except.bind, pure, Except.pure, true_or, and_true,
      decide_true]
    rfl
  · generalize hT2 : hTok x ++ ellRest sep (hTok z) = T2 at *
    have hstart2 : TokStart T2 := by rw [← hT2]; exact tokStart_append_ri _ _ (tokStart_hTok _ hx1 hx2)
    have hS : Sep ([32] ++ T2) := sep_of_next [32] T2 (Or.inl rfl) hstart2
    have hlsk := skipNext_huge_noell f p hp1 hp2 _ hS.toW 0 none ib
    have hllsc := scanOne_huge p hp1 hp2 _ hS.toW
    have hnm2 := nomult_huge p hp1 hp2 ([32] ++ T2)
    have hsk3 : skipSpace ([32] ++ T2) = T2 := skipSpace_sep [32] T2 (Or.inl rfl) hstart2
    have hsw := startsWith_ell_of_tokStart T2 hstart2
    simp only [startsWith] at hsw
    have hcmp : cmpCell (Cell.huge p) (Cell.huge x) = .ok (ArgVal.cmp3 p x) := cmpCell_huge p x
    have hc0 := cmp3_ne p x hpx
    simp only [List.drop_succ_cons, List.drop_zero, hsk2, hnm, Bool.false_eq_true, ↓reduceIte, ne_eq,
      not_true_eq_false, show numericRangeTypes.contains (104 : UInt8) = true from by decide, or_true, h93,
      Bool.not_true, hrsk, hrsc, hlsc, hdelta, hnum, bind, Except.bind, pure, Except.pure,
      decide_true, hlsk, Option.map_some, hsk3, hsw, and_false, hnm2, hllsc, hcmp, hc0,
      show typesMatch 104 104 = true from by decide, startsWith]
    simp

theorem count_run_unit_h {a d : Int} {n : Nat} (h : HRunHyp a d n) (hu : d = 1 ∨ d = -1) (sep : Bytes)
    (hsep : IsSepTxt sep) :
    countPrintedArgVals (runText_h a d n sep) = .ok 3 := by
  have hn := h.hn
  have hr0 := h.hrange 0 (by omega)
  have hrz := h.hrange (n - 1) (by omega)
  simp only [Int.natCast_zero, Int.zero_mul, Int.add_zero] at hr0
  rw [runText_unit_h a d n sep hu]
  have hskip := fun f => skipNext_ell_h f a _ hr0.1 hr0.2 hrz.1 hrz.2 sep hsep 0 false none true none
    (Or.inl ⟨rfl, rfl, rfl⟩) n (Cell.huge d) (delta_run_unit_h h hu) (by omega)
  generalize hT : hTok a ++ ellRest sep (hTok (a + ((n - 1 : Nat) : Int) * d)) = T at *
  have hstart : TokStart T := by rw [← hT]; exact tokStart_append_ri _ _ (tokStart_hTok _ hr0.1 hr0.2)
  obtain ⟨hne, _, h0, _, _, h37, h47, _⟩ := hstart
  have hpos : 0 < T.length := List.length_pos_iff.mpr hne
  unfold countPrintedArgVals
  simp only [skipSpace_tokStart T ⟨hne, ‹_›, h0, ‹_›, ‹_›, h37, h47, ‹_›⟩, skipCommentLines_none _ T h37, bind,
    Except.bind]
  rw [countLoop]
  simp only [h0, h47, ne_eq, not_false_eq_true, and_self, ↓reduceIte, skipNextPrintedArg_checkFuel (hskip T.length), bind, Except.bind, skipSpace,
    hd_nil, not_true_eq_false, pure, Except.pure, List.length_nil, ge_iff_le, Nat.le_zero_eq,
    show ¬ (T.length = 0) from by omega]
  obtain ⟨m, hm⟩ : ∃ m, T.length = m + 1 := ⟨T.length - 1, by omega⟩
  rw [hm, countLoop]
  simp

theorem count_run_step_h {a d : Int} {n : Nat} (h : HRunHyp a d n) (hu : ¬ (d = 1 ∨ d = -1)) (sep : Bytes)
    (hsep : IsSepTxt sep) :
    countPrintedArgVals (runText_h a d n sep) = .ok 4 := by
  have hn := h.hn
  have hr0 := h.hrange 0 (by omega)
  have hr1 := h.hrange 1 (by omega)
  have hrz := h.hrange (n - 1) (by omega)
  simp only [Int.natCast_zero, Int.zero_mul, Int.add_zero, Int.natCast_one, Int.one_mul] at hr0 hr1
  rw [runText_step_h a d n sep hu]
  have hne : a ≠ a + d := by have := h.hd; omega
  have hskip2 := fun f => skipNext_ell_h f (a + d) _ hr1.1 hr1.2 hrz.1 hrz.2 sep hsep 0 false
    (some (hTok a ++ ([32] ++ (hTok (a + d) ++ ellRest sep (hTok (a + ((n - 1 : Nat) : Int) * d))))))
    false (some (Cell.huge a))
    (Or.inr ⟨a, hr0.1, hr0.2, hne, rfl, rfl, rfl⟩) ((n : Int) - 1) (Cell.huge d) (delta_run_step_h h) (by omega)
  generalize hT2 : hTok (a + d) ++ ellRest sep (hTok (a + ((n - 1 : Nat) : Int) * d)) = T2 at *
  have hstart2 : TokStart T2 := by rw [← hT2]; exact tokStart_append_ri _ _ (tokStart_hTok _ hr1.1 hr1.2)
  have hS : Sep ([32] ++ T2) := sep_of_next [32] T2 (Or.inl rfl) hstart2
  obtain ⟨r, hr, hsrc, hsk, _⟩ := (tokOK_huge a hr0.1 hr0.2).skip ([32] ++ T2) ((hTok a ++ ([32] ++ T2)).length + 1) 0
    none false hS
  change skipNextPrintedArg _ (hTok a ++ _) _ _ _ _ = _ at hr
  generalize hT : hTok a ++ ([32] ++ T2) = T at *
  have hstart : TokStart T := by rw [← hT]; exact tokStart_append_ri _ _ (tokStart_hTok _ hr0.1 hr0.2)
  have hlen : T.length = (hTok a).length + 1 + T2.length := by rw [← hT]; simp; omega
  have hpos2 : 0 < T2.length := List.length_pos_iff.mpr hstart2.1
  have h0 := hstart.2.2.1
  have h37 := hstart.2.2.2.2.2.1
  have h47 := hstart.2.2.2.2.2.2.1
  have h0' := hstart2.2.2.1
  have h37' := hstart2.2.2.2.2.2.1
  have h47' := hstart2.2.2.2.2.2.2.1
  unfold countPrintedArgVals
  simp only [skipSpace_tokStart T hstart, skipCommentLines_none _ T h37, bind, Except.bind]
  rw [countLoop]
  simp only [h0, h47, ne_eq, not_false_eq_true, and_self, ↓reduceIte, skipNextPrintedArg_checkFuel hr, bind, Except.bind, hsrc, hsk,
    skipSpace_sep [32] T2 (Or.inl rfl) hstart2, h0', skipCommentLines_none _ T2 h37', pure, Except.pure, ge_iff_le,
    show ¬ (T.length ≤ T2.length) from by omega]
  obtain ⟨m, hm⟩ : ∃ m, T.length = m + 2 := ⟨T.length - 2, by omega⟩
  rw [hm, countLoop]
  simp only [h0', h47', ne_eq, not_false_eq_true, and_self, ↓reduceIte, skipNextPrintedArg_checkFuel (hskip2 T2.length), bind, Except.bind, skipSpace,
    hd_nil, not_true_eq_false, pure, Except.pure, List.length_nil, ge_iff_le, Nat.le_zero_eq,
    show ¬ (T2.length = 0) from by omega]
  rw [countLoop_end _ (by omega)]
  rfl

/-! ### stage 5: the round trip -/

theorem hRunHyp_mk (a d : Int) (n : Nat) (hn : 5 ≤ n) (hd : d ≠ 0)
    (hrange : ∀ k : Nat, k ≤ n → -9223372036854775808 ≤ a + (k : Int) * d ∧ a + (k : Int) * d ≤ 9223372036854775807)
    (hwidth : ((n : Int) - 1) * d.natAbs ≤ 9223372036854775807)
    (hn32 : (n : Int) ≤ 2147483647) : HRunHyp a d n := ⟨hn, hd, hrange, hwidth, hn32⟩

/-- **Tier 3, int64 arithmetic runs.**  With range compression on, one arithmetic run of
    `n ≥ 5` int64 values is printed as `ah ... zh` (step ±1) or `ah bh ... zh`; the checker counts
    the cells of the range block, the scanner returns the block.
    `hrange` includes `k = n`: the step behind the last element must not overflow, else the
    printer cuts the run one element short.  `hwidth`: fix C10-15 (64-bit).  `hn32`: the count that
    `delta_from_arg_vals` computes goes through `rtosc_arg_val_to_int` (an `int`), so the length of
    the run must be an `int32_t` for every step (for 'i' runs this followed from `hwidth`). -/
theorem huge_run_roundtrip (opt : POpt) (hc : opt.compress = true) (a d : Int) (n : Nat) (hn : 5 ≤ n) (hd : d ≠ 0)
    (hrange : ∀ k : Nat, k ≤ n → -9223372036854775808 ≤ a + (k : Int) * d ∧ a + (k : Int) * d ≤ 9223372036854775807)
    (hwidth : ((n : Int) - 1) * d.natAbs ≤ 9223372036854775807)
    (hn32 : (n : Int) ≤ 2147483647) :
    ∃ (st : PSt) (ret : Nat) (cells : List Cell),
      printArgVals opt (hugeRun a d n) ⟨[], 0⟩ = .ok (st, ret) ∧ ret = st.out.length ∧
      countPrintedArgVals st.out = .ok (cells.length : Int) ∧
      scanArgVals st.out cells.length = .ok (st.out.length, cells) ∧
      cells = (if d = 1 ∨ d = -1 then [Cell.rep n 1, Cell.huge d, Cell.huge a]
               else [Cell.huge a, Cell.rep ((n : Int) - 1) 1, Cell.huge d, Cell.huge (a + d)]) := by
  have h := hRunHyp_mk a d n hn hd hrange hwidth hn32
  obtain ⟨sep, cols', hsep, hpr⟩ := printArgVals_run_h opt hc h
  by_cases hu : d = 1 ∨ d = -1
  · refine ⟨⟨runText_h a d n sep, cols'⟩, _, [Cell.rep n 1, Cell.huge d, Cell.huge a], hpr, rfl,
      count_run_unit_h h hu sep hsep, scan_run_unit_h h hu sep hsep, by simp [hu]⟩
  · refine ⟨⟨runText_h a d n sep, cols'⟩, _,
      [Cell.huge a, Cell.rep ((n : Int) - 1) 1, Cell.huge d, Cell.huge (a + d)], hpr, rfl,
      count_run_step_h h hu sep hsep, scan_run_step_h h hu sep hsep, by simp [hu]⟩

/-- the printed text, for reference: `ah ... zh` / `ah bh ... zh` -/
theorem huge_run_text (opt : POpt) (hc : opt.compress = true) (a d : Int) (n : Nat) (hn : 5 ≤ n) (hd : d ≠ 0)
    (hrange : ∀ k : Nat, k ≤ n → -9223372036854775808 ≤ a + (k : Int) * d ∧ a + (k : Int) * d ≤ 9223372036854775807)
    (hwidth : ((n : Int) - 1) * d.natAbs ≤ 9223372036854775807)
    (hn32 : (n : Int) ≤ 2147483647) :
    ∃ (st : PSt) (ret : Nat) (sep : Bytes), IsSepTxt sep ∧
      printArgVals opt (hugeRun a d n) ⟨[], 0⟩ = .ok (st, ret) ∧
      st.out = (if d = 1 ∨ d = -1 then fmtDec a ++ lit "h" else fmtDec a ++ lit "h " ++ fmtDec (a + d) ++ lit "h") ++
        lit " ..." ++ sep ++ fmtDec (a + ((n : Int) - 1) * d) ++ lit "h" := by
  have h := hRunHyp_mk a d n hn hd hrange hwidth hn32
  obtain ⟨sep, cols', hsep, hpr⟩ := printArgVals_run_h opt hc h
  refine ⟨⟨runText_h a d n sep, cols'⟩, _, sep, hsep, hpr, ?_⟩
  have : ((n - 1 : Nat) : Int) = (n : Int) - 1 := by omega
  by_cases hu : d = 1 ∨ d = -1 <;>
    simp [runText_h, runHead_h, hTok, hu, this, show lit " ..." = [32, 46, 46, 46] from by decide,
      show lit "h " = [104, 32] from by decide, show lit "h" = [104] from by decide]

/-! ### the theorem applies to concrete runs -/

example := huge_run_roundtrip defaultOpt rfl 1 1 7 (by decide) (by decide) (by intro k hk; omega) (by decide)
  (by decide)
example := huge_run_roundtrip defaultOpt rfl 10 (-2) 5 (by decide) (by decide) (by intro k hk; omega) (by decide)
  (by decide)
example := huge_run_roundtrip defaultOpt rfl (-5000000000000000000) 2000000000000000000 5 (by decide) (by decide)
  (by intro k hk; omega) (by decide) (by decide)

/-! ### the hypotheses are needed

`hrange` at `k = n` and `hwidth`: without them the printer does not compress the run (the text is the
plain list of `n` tokens), so the conclusion of `huge_run_roundtrip` fails.  `hn32`: the count wraps
to a negative `int32_t` (shown on `delta_from_arg_vals`, the scanner and the checker; a run of
2^31 cells itself is out of reach of kernel evaluation). -/

/-- `hrange` fails only at `k = n` (`a + 5d = 2^63`): the run is printed uncompressed, 5 values are counted -/
theorem huge_run_needs_hrange :
    ¬ ∃ (st : PSt) (ret : Nat) (cells : List Cell),
      printArgVals defaultOpt (hugeRun 9223372036854775803 1 5) ⟨[], 0⟩ = .ok (st, ret) ∧ ret = st.out.length ∧
      countPrintedArgVals st.out = .ok (cells.length : Int) ∧
      scanArgVals st.out cells.length = .ok (st.out.length, cells) ∧
      cells = [Cell.rep 5 1, Cell.huge 1, Cell.huge 9223372036854775803] := by
  rintro ⟨st, ret, cells, hp, _, hcnt, _, hcells⟩
  have h1 : (printArgVals defaultOpt (hugeRun 9223372036854775803 1 5) ⟨[], 0⟩).toOption.map
      (fun r => (countPrintedArgVals r.1.out).toOption) = some (some 5) := by decide +kernel
  rw [hp] at h1
  subst hcells
  simp [Except.toOption, hcnt] at h1

/-- `hwidth` fails (`4 * 3·10^18 > 2^63 - 1`), everything else holds: printed uncompressed -/
theorem huge_run_needs_hwidth :
    ¬ ∃ (st : PSt) (ret : Nat) (cells : List Cell),
      printArgVals defaultOpt (hugeRun (-9000000000000000000) 3000000000000000000 5) ⟨[], 0⟩ = .ok (st, ret) ∧
      ret = st.out.length ∧
      countPrintedArgVals st.out = .ok (cells.length : Int) ∧
      scanArgVals st.out cells.length = .ok (st.out.length, cells) ∧
      cells = [Cell.huge (-9000000000000000000), Cell.rep 4 1, Cell.huge 3000000000000000000,
        Cell.huge (-6000000000000000000)] := by
  rintro ⟨st, ret, cells, hp, _, hcnt, _, hcells⟩
  have h1 : (printArgVals defaultOpt (hugeRun (-9000000000000000000) 3000000000000000000 5) ⟨[], 0⟩).toOption.map
      (fun r => (countPrintedArgVals r.1.out).toOption) = some (some 5) := by decide +kernel
  rw [hp] at h1
  subst hcells
  simp [Except.toOption, hcnt] at h1

/-- `hn32`, step 1: a run `1h … 2147483648h` has 2^31 elements; the count wraps to `INT_MIN` -/
theorem huge_delta_count_wraps :
    (deltaFromArgVals none (Cell.huge 1) (some (Cell.huge 2147483648)) true).toOption =
      some (-2147483648, Cell.huge 1) := by decide +kernel

/-- `hn32`, step 2: `0h 2h … 8589934590h` has 2^32 elements; the count wraps to -1 = "no range" -/
theorem huge_delta_count_wraps_step :
    (deltaFromArgVals (some (Cell.huge 0)) (Cell.huge 2) (some (Cell.huge 8589934590)) false).toOption =
      some (-1, Cell.huge 2) := by decide +kernel

/-- the scanner returns a range of `INT_MIN` elements -/
theorem huge_scan_count_wraps :
    (scanArgVals (lit "1h ... 2147483648h") 3).toOption =
      some (18, [Cell.rep (-2147483648) 1, Cell.huge 1, Cell.huge 1]) := by decide +kernel

/-- the checker rejects the text (while the scanner of the same text still writes 4 cells) -/
theorem huge_check_count_wraps :
    (countPrintedArgVals (lit "0h 2h ... 8589934590h")).toOption = some (-2) ∧
    (scanArgVals (lit "0h 2h ... 8589934590h") 4).toOption =
      some (21, [Cell.huge 0, Cell.rep (-1) 1, Cell.huge 2, Cell.huge 2]) := by decide +kernel

end Rtosc.Pretty
