/-
  C19 — the driver's arithmetic (`IEEE.ieee`: IEEE-754 binary32/binary64 round-to-nearest-
  even over `Rat`, RtoscModel/AutoFloat.lean) satisfies the order laws `Rtosc.Auto.Laws`
  that `emit_in_range_right_type` and `emit_monotone` assume: `ilog2` is the binary
  exponent, round-half-even is monotone and fixes integers, hence `rnd` is monotone,
  sign-preserving and maps 0 to 0.
-/
import Mathlib.Tactic.Linarith
import Mathlib.Tactic.Positivity
import Mathlib.Tactic.FieldSimp
import Mathlib.Tactic.Ring
import Mathlib.Tactic.NormNum
import Mathlib.Algebra.Order.Field.Power
import Mathlib.Data.Rat.Floor
import RtoscModel.AutoFloat
import RtoscModel.Proofs.AutoLemmas
namespace Rtosc.Auto.IEEE

theorem pow2_eq (k : Int) : pow2 k = (2:ℚ)^k := by
  unfold pow2
  split
  · rename_i h
    obtain ⟨n, rfl⟩ := Int.eq_ofNat_of_zero_le h
    simp
  · rename_i h
    obtain ⟨n, hn⟩ : ∃ n : ℕ, k = -(n : Int) := ⟨(-k).toNat, by omega⟩
    subst hn
    simp [zpow_neg]

theorem pow2_pos (k : Int) : 0 < pow2 k := by rw [pow2_eq]; positivity

theorem pow2_lt_iff (a b : Int) : pow2 a < pow2 b ↔ a < b := by
  rw [pow2_eq, pow2_eq]; exact zpow_lt_zpow_iff_right₀ (by norm_num)

theorem pow2_le_iff (a b : Int) : pow2 a ≤ pow2 b ↔ a ≤ b := by
  rw [pow2_eq, pow2_eq]; exact zpow_le_zpow_iff_right₀ (by norm_num)

theorem pow2_add (a b : Int) : pow2 (a + b) = pow2 a * pow2 b := by
  simp only [pow2_eq]; exact zpow_add₀ (by norm_num) a b

theorem pow2_sub (a b : Int) : pow2 (a - b) = pow2 a / pow2 b := by
  simp only [pow2_eq]; exact zpow_sub₀ (by norm_num) a b

theorem pow2_nat (n : ℕ) : pow2 (n : Int) = ((2 ^ n : ℕ) : ℚ) := by
  rw [pow2_eq]; simp

/-- ilog2 is the binary exponent: 2^e ≤ |x| < 2^(e+1) -/
theorem ilog2_spec (x : ℚ) (hx : x ≠ 0) : pow2 (ilog2 x) ≤ |x| ∧ |x| < pow2 (ilog2 x + 1) := by
  have hn : x.num.natAbs ≠ 0 := by simpa using (Rat.num_ne_zero.mpr hx)
  have hd : x.den ≠ 0 := x.den_nz
  have habs : |x| = (x.num.natAbs : ℚ) / (x.den : ℚ) := by
    rw [Rat.abs_def, Rat.divInt_eq_div]
    simp
  have ax : (if x < 0 then -x else x) = |x| := by
    split
    · rw [abs_of_neg ‹_›]
    · rw [abs_of_nonneg (le_of_not_gt ‹_›)]
  set n := x.num.natAbs with hn_def
  set d := x.den with hd_def
  have h1 : ((2 ^ n.log2 : ℕ) : ℚ) ≤ n := by exact_mod_cast Nat.log2_self_le hn
  have h2 : (n : ℚ) < ((2 ^ (n.log2 + 1) : ℕ) : ℚ) := by exact_mod_cast Nat.lt_log2_self
  have h3 : ((2 ^ d.log2 : ℕ) : ℚ) ≤ d := by exact_mod_cast Nat.log2_self_le hd
  have h4 : (d : ℚ) < ((2 ^ (d.log2 + 1) : ℕ) : ℚ) := by exact_mod_cast Nat.lt_log2_self
  have hdpos : (0:ℚ) < d := by exact_mod_cast Nat.pos_of_ne_zero hd
  have hlow : pow2 ((n.log2 : Int) - (d.log2 : Int) - 1) < |x| := by
    rw [habs, lt_div_iff₀ hdpos]
    have e : ((n.log2 : Int) - (d.log2 : Int) - 1) = (n.log2 : Int) - ((d.log2 + 1 : ℕ) : Int) := by push_cast; ring
    rw [e, pow2_sub, pow2_nat, pow2_nat, div_mul_eq_mul_div, div_lt_iff₀ (by positivity)]
    calc ((2 ^ n.log2 : ℕ) : ℚ) * d < ((2 ^ n.log2 : ℕ) : ℚ) * ((2 ^ (d.log2 + 1) : ℕ) : ℚ) := by
          apply mul_lt_mul_of_pos_left h4; positivity
      _ ≤ n * ((2 ^ (d.log2 + 1) : ℕ) : ℚ) := by
          apply mul_le_mul_of_nonneg_right h1; positivity
  have hhigh : |x| < pow2 ((n.log2 : Int) - (d.log2 : Int) + 1) := by
    rw [habs, div_lt_iff₀ hdpos]
    have e : ((n.log2 : Int) - (d.log2 : Int) + 1) = ((n.log2 + 1 : ℕ) : Int) - (d.log2 : Int) := by push_cast; ring
    rw [e, pow2_sub, pow2_nat, pow2_nat, div_mul_eq_mul_div, lt_div_iff₀ (by positivity)]
    calc (n : ℚ) * ((2 ^ d.log2 : ℕ) : ℚ) < ((2 ^ (n.log2 + 1) : ℕ) : ℚ) * ((2 ^ d.log2 : ℕ) : ℚ) := by
          apply mul_lt_mul_of_pos_right h2; positivity
      _ ≤ ((2 ^ (n.log2 + 1) : ℕ) : ℚ) * d := by
          apply mul_le_mul_of_nonneg_left h3; positivity
  unfold ilog2
  simp only [← hn_def, ← hd_def, ax]
  split
  · rename_i h
    exact ⟨h, hhigh⟩
  · rename_i h
    refine ⟨le_of_lt hlow, ?_⟩
    have : (n.log2 : Int) - (d.log2 : Int) - 1 + 1 = (n.log2 : Int) - (d.log2 : Int) := by ring
    rw [this]; exact lt_of_not_ge h

/-! ### round half to even on non-negative rationals -/

theorem rhe_bounds (q : ℚ) (hq : 0 ≤ q) :
    ((⌊q⌋.toNat : ℕ) : ℚ) ≤ q ∧ q < ((⌊q⌋.toNat : ℕ) : ℚ) + 1 ∧
    ⌊q⌋.toNat ≤ roundHalfEven q ∧ roundHalfEven q ≤ ⌊q⌋.toNat + 1 := by
  have h0 : 0 ≤ ⌊q⌋ := Int.floor_nonneg.mpr hq
  have hc : ((⌊q⌋.toNat : ℕ) : ℚ) = (⌊q⌋ : ℚ) := by
    have : ((⌊q⌋.toNat : ℕ) : ℤ) = ⌊q⌋ := Int.toNat_of_nonneg h0
    exact_mod_cast congrArg (fun z : ℤ => (z : ℚ)) this
  refine ⟨by rw [hc]; exact Int.floor_le q, by rw [hc]; exact Int.lt_floor_add_one q, ?_, ?_⟩
  · unfold roundHalfEven; simp only [show q.floor = ⌊q⌋ from rfl]
    split
    · exact Nat.le_refl _
    · split
      · omega
      · split <;> omega
  · unfold roundHalfEven; simp only [show q.floor = ⌊q⌋ from rfl]
    split
    · omega
    · split
      · omega
      · split <;> omega

theorem rhe_mono (q1 q2 : ℚ) (h0 : 0 ≤ q1) (h : q1 ≤ q2) : roundHalfEven q1 ≤ roundHalfEven q2 := by
  have b1 := rhe_bounds q1 h0
  have b2 := rhe_bounds q2 (le_trans h0 h)
  have hf : ⌊q1⌋.toNat ≤ ⌊q2⌋.toNat := Int.toNat_le_toNat (Int.floor_le_floor h)
  rcases Nat.lt_or_ge ⌊q1⌋.toNat ⌊q2⌋.toNat with hlt | hge
  · omega
  · have heq : ⌊q1⌋.toNat = ⌊q2⌋.toNat := le_antisymm hf hge
    have e1 : q1.floor = ⌊q1⌋ := rfl
    have e2 : q2.floor = ⌊q2⌋ := rfl
    unfold roundHalfEven
    simp only [e1, e2, heq]
    have hr : q1 - ((⌊q2⌋.toNat : ℕ) : ℚ) ≤ q2 - ((⌊q2⌋.toNat : ℕ) : ℚ) := by linarith
    by_cases c1 : q1 - ((⌊q2⌋.toNat : ℕ) : ℚ) < 1 / 2
    · simp only [c1, ↓reduceIte]
      split
      · exact Nat.le_refl _
      · split
        · omega
        · split <;> omega
    · simp only [c1, ↓reduceIte]
      by_cases c2 : q1 - ((⌊q2⌋.toNat : ℕ) : ℚ) > 1 / 2
      · have d1 : ¬ (q2 - ((⌊q2⌋.toNat : ℕ) : ℚ) < 1 / 2) := by linarith
        have d2 : q2 - ((⌊q2⌋.toNat : ℕ) : ℚ) > 1 / 2 := by linarith
        simp only [c2, d1, d2, ↓reduceIte]; exact Nat.le_refl _
      · have d1 : ¬ (q2 - ((⌊q2⌋.toNat : ℕ) : ℚ) < 1 / 2) := by linarith
        simp only [c2, d1, ↓reduceIte]
        repeat' split
        all_goals omega

theorem rhe_nat (n : ℕ) : roundHalfEven (n : ℚ) = n := by
  unfold roundHalfEven
  have e : (n : ℚ).floor = (n : ℤ) := by
    show ⌊(n : ℚ)⌋ = (n : ℤ)
    exact Int.floor_natCast n
  simp [e]


/-! ### rounding to a binary format -/

/-- exponent of the unit in the last place used for `x` -/
def ueOf (p : ℕ) (emin : ℤ) (x : ℚ) : ℤ := max (ilog2 x - ((p : ℤ) - 1)) emin

theorem rnd_pos_eq (p : ℕ) (emin : ℤ) (x : ℚ) (hx : 0 < x) :
    rnd p emin x = ((roundHalfEven (x / pow2 (ueOf p emin x)) : ℕ) : ℚ) * pow2 (ueOf p emin x) := by
  unfold rnd ueOf
  have h1 : ¬ x = 0 := ne_of_gt hx
  have h2 : ¬ x < 0 := not_lt.mpr (le_of_lt hx)
  simp only [h1, h2, ↓reduceIte]

theorem ilog2_neg (x : ℚ) : ilog2 (-x) = ilog2 x := by
  unfold ilog2
  have e1 : (-x).num.natAbs = x.num.natAbs := by simp
  have e2 : (-x).den = x.den := by simp
  have e3 : (if -x < 0 then - -x else -x) = (if x < 0 then -x else x) := by
    rcases lt_trichotomy x 0 with h | h | h
    · have : ¬ (-x < 0) := by linarith
      simp [h, this]
    · simp [h]
    · have : -x < 0 := by linarith
      have h' : ¬ x < 0 := by linarith
      simp [h', this]
  simp only [e1, e2, e3]

theorem rnd_neg (p : ℕ) (emin : ℤ) (x : ℚ) : rnd p emin (-x) = - rnd p emin x := by
  rcases lt_trichotomy x 0 with h | h | h
  · have h1 : ¬ (-x = 0) := by intro e; linarith
    have h2 : ¬ (-x < 0) := by linarith
    have h3 : ¬ (x = 0) := ne_of_lt h
    unfold rnd
    simp only [h1, h2, h3, h, ↓reduceIte, ilog2_neg, neg_neg]
  · subst h; simp [rnd]
  · have h1 : ¬ (-x = 0) := by intro e; linarith
    have h2 : (-x < 0) := by linarith
    have h3 : ¬ (x = 0) := ne_of_gt h
    have h4 : ¬ (x < 0) := by linarith
    unfold rnd
    simp only [h1, h2, h3, h4, ↓reduceIte, ilog2_neg, neg_neg]

theorem rnd_zero (p : ℕ) (emin : ℤ) : rnd p emin 0 = 0 := by simp [rnd]

theorem rnd_nonneg (p : ℕ) (emin : ℤ) (x : ℚ) (hx : 0 ≤ x) : 0 ≤ rnd p emin x := by
  rcases eq_or_lt_of_le hx with h | h
  · rw [← h, rnd_zero]
  · rw [rnd_pos_eq p emin x h]
    exact mul_nonneg (Nat.cast_nonneg _) (le_of_lt (pow2_pos _))

theorem ilog2_mono (x y : ℚ) (hx : 0 < x) (hxy : x ≤ y) : ilog2 x ≤ ilog2 y := by
  have sx := ilog2_spec x (ne_of_gt hx)
  have sy := ilog2_spec y (ne_of_gt (lt_of_lt_of_le hx hxy))
  rw [abs_of_pos hx] at sx
  rw [abs_of_pos (lt_of_lt_of_le hx hxy)] at sy
  have : pow2 (ilog2 x) < pow2 (ilog2 y + 1) := lt_of_le_of_lt (le_trans sx.1 hxy) sy.2
  have := (pow2_lt_iff _ _).mp this
  omega

theorem rnd_mono_pos (p : ℕ) (hp : 1 ≤ p) (emin : ℤ) (x y : ℚ) (hx : 0 < x) (hxy : x ≤ y) :
    rnd p emin x ≤ rnd p emin y := by
  have hy : 0 < y := lt_of_lt_of_le hx hxy
  rw [rnd_pos_eq p emin x hx, rnd_pos_eq p emin y hy]
  have he := ilog2_mono x y hx hxy
  have sx := ilog2_spec x (ne_of_gt hx)
  have sy := ilog2_spec y (ne_of_gt hy)
  rw [abs_of_pos hx] at sx
  rw [abs_of_pos hy] at sy
  have hux : ueOf p emin x ≤ ueOf p emin y := by unfold ueOf; omega
  rcases eq_or_lt_of_le hux with heq | hlt
  · rw [heq]
    apply mul_le_mul_of_nonneg_right _ (le_of_lt (pow2_pos _))
    have : x / pow2 (ueOf p emin y) ≤ y / pow2 (ueOf p emin y) :=
      div_le_div_of_nonneg_right hxy (le_of_lt (pow2_pos _))
    exact_mod_cast rhe_mono _ _ (div_nonneg (le_of_lt hx) (le_of_lt (pow2_pos _))) this
  · -- the ulp grows: a power of two B lies between x and y and is a multiple of both ulps
    have huy : ueOf p emin y = ilog2 y - ((p : ℤ) - 1) := by unfold ueOf at hlt ⊢; omega
    have hexy : ilog2 x + 1 ≤ ilog2 y := by unfold ueOf at hlt; omega
    have hxB : x ≤ pow2 (ilog2 y) := le_trans (le_of_lt sx.2) ((pow2_le_iff _ _).mpr hexy)
    have hBy : pow2 (ilog2 y) ≤ y := sy.1
    -- B / ulp is a natural number
    have hBx : ∃ n : ℕ, pow2 (ilog2 y) / pow2 (ueOf p emin x) = (n : ℚ) := by
      refine ⟨2 ^ (ilog2 y - ueOf p emin x).toNat, ?_⟩
      rw [← pow2_sub, ← pow2_nat]
      congr 1
      have : 0 ≤ ilog2 y - ueOf p emin x := by omega
      omega
    have hBy' : ∃ n : ℕ, pow2 (ilog2 y) / pow2 (ueOf p emin y) = (n : ℚ) := by
      refine ⟨2 ^ (ilog2 y - ueOf p emin y).toNat, ?_⟩
      rw [← pow2_sub, ← pow2_nat]
      congr 1
      have : 0 ≤ ilog2 y - ueOf p emin y := by omega
      omega
    obtain ⟨n1, hn1⟩ := hBx
    obtain ⟨n2, hn2⟩ := hBy'
    have hpx := pow2_pos (ueOf p emin x)
    have hpy := pow2_pos (ueOf p emin y)
    have step1 : ((roundHalfEven (x / pow2 (ueOf p emin x)) : ℕ) : ℚ) * pow2 (ueOf p emin x) ≤ pow2 (ilog2 y) := by
      have h1 : x / pow2 (ueOf p emin x) ≤ (n1 : ℚ) := by
        rw [← hn1]; exact div_le_div_of_nonneg_right hxB (le_of_lt hpx)
      have h2 : roundHalfEven (x / pow2 (ueOf p emin x)) ≤ roundHalfEven (n1 : ℚ) :=
        rhe_mono _ _ (div_nonneg (le_of_lt hx) (le_of_lt hpx)) h1
      rw [rhe_nat] at h2
      have h3 : ((roundHalfEven (x / pow2 (ueOf p emin x)) : ℕ) : ℚ) ≤ (n1 : ℚ) := by exact_mod_cast h2
      calc _ ≤ (n1 : ℚ) * pow2 (ueOf p emin x) := mul_le_mul_of_nonneg_right h3 (le_of_lt hpx)
        _ = pow2 (ilog2 y) := by rw [← hn1]; field_simp
    have step2 : pow2 (ilog2 y) ≤ ((roundHalfEven (y / pow2 (ueOf p emin y)) : ℕ) : ℚ) * pow2 (ueOf p emin y) := by
      have h1 : (n2 : ℚ) ≤ y / pow2 (ueOf p emin y) := by
        rw [← hn2]; exact div_le_div_of_nonneg_right hBy (le_of_lt hpy)
      have h2 : roundHalfEven (n2 : ℚ) ≤ roundHalfEven (y / pow2 (ueOf p emin y)) :=
        rhe_mono _ _ (Nat.cast_nonneg _) h1
      rw [rhe_nat] at h2
      have h3 : (n2 : ℚ) ≤ ((roundHalfEven (y / pow2 (ueOf p emin y)) : ℕ) : ℚ) := by exact_mod_cast h2
      calc pow2 (ilog2 y) = (n2 : ℚ) * pow2 (ueOf p emin y) := by rw [← hn2]; field_simp
        _ ≤ _ := mul_le_mul_of_nonneg_right h3 (le_of_lt hpy)
    exact le_trans step1 step2

theorem rnd_mono (p : ℕ) (hp : 1 ≤ p) (emin : ℤ) (x y : ℚ) (hxy : x ≤ y) : rnd p emin x ≤ rnd p emin y := by
  rcases lt_trichotomy x 0 with hx | hx | hx
  · rcases lt_or_ge y 0 with hy | hy
    · have := rnd_mono_pos p hp emin (-y) (-x) (by linarith) (by linarith)
      rw [rnd_neg, rnd_neg] at this
      linarith
    · have h1 : rnd p emin x ≤ 0 := by
        have := rnd_nonneg p emin (-x) (by linarith)
        rw [rnd_neg] at this; linarith
      exact le_trans h1 (rnd_nonneg p emin y hy)
  · subst hx; rw [rnd_zero]; exact rnd_nonneg p emin y hxy
  · exact rnd_mono_pos p hp emin x y hx hxy


/-! ### the table `logf` is monotone -/

theorem logFold_mono (tab : List (ℚ × ℚ)) (x y a b : ℚ) (hxy : x ≤ y) (hab : a ≤ b) :
    tab.foldl (fun a kv => if kv.1 ≤ x then (if a ≤ kv.2 then kv.2 else a) else a) a ≤
    tab.foldl (fun a kv => if kv.1 ≤ y then (if a ≤ kv.2 then kv.2 else a) else a) b := by
  induction tab generalizing a b with
  | nil => exact hab
  | cons kv r ih =>
    simp only [List.foldl_cons]
    apply ih
    by_cases h1 : kv.1 ≤ x
    · have h2 : kv.1 ≤ y := le_trans h1 hxy
      simp only [h1, h2, ↓reduceIte]
      split <;> split <;> linarith
    · simp only [h1, ↓reduceIte]
      split
      · split <;> linarith
      · exact hab

theorem logOfTable_mono (tab : List (ℚ × ℚ)) (x y : ℚ) (hxy : x ≤ y) :
    logOfTable tab x ≤ logOfTable tab y := by
  unfold logOfTable
  exact logFold_mono tab x y _ _ hxy (le_refl _)

/-! ### the laws -/

theorem roundAway_eq : IEEE.roundAway = Rtosc.Auto.roundAway := by
  funext x; rfl
theorem trunc_eq : IEEE.trunc = Rtosc.Auto.truncInt := by
  funext x; rfl

theorem ieee_laws (tab : List (ℚ × ℚ)) : Laws (ieee tab) := by
  constructor <;> simp only [ieee, decide_eq_true_eq, rnd32, rnd64]
  · intro x y; exact le_total x y
  · intro x y z; exact le_trans
  · norm_num
  · norm_num
  · norm_num
  · intro x y h; exact rnd_nonneg _ _ _ (by linarith)
  · intro x y hx hy; exact rnd_nonneg _ _ _ (mul_nonneg hx hy)
  · intro x y c h hc; exact rnd_mono _ (by norm_num) _ _ _ (mul_le_mul_of_nonneg_right h hc)
  · intro x y c h; exact rnd_mono _ (by norm_num) _ _ _ (by linarith)
  · intro x y hx hy; exact rnd_nonneg _ _ _ (div_nonneg hx hy)
  · intro c h hh; exact rnd_mono _ (by norm_num) _ _ _ (by linarith)
  · intro x y h; exact rnd_mono _ (by norm_num) _ _ _ h
  · exact rnd_zero _ _
  · intro x y h; rw [roundAway_eq]; exact Rtosc.Auto.roundAway_mono h
  · intro x y h; rw [trunc_eq]; exact Rtosc.Auto.truncInt_mono h
  · intro x y _ h; exact logOfTable_mono tab x y h
  · intro x y h; exact h

end Rtosc.Auto.IEEE
